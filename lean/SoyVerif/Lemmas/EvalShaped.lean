/-
  `scope.alldata` never fails inside a run: every scope the walk reaches has an entered frame (`Shaped`),
  because a run starts on the result of `enter` and every sub-run is started on the current scope or on a
  `push` of it.  The model counts the failures of alldata in the ghost field `St.impossible`;
  `NoImp run` = on a `Shaped` scope whose top frame is own, `run` leaves the counter alone.
-/
import SoyVerif.Props.C02

namespace SoyVerif.Model.Eval
open SoyVerif SoyVerif.Model
open SoyVerif.Props.C02 (Shaped shaped_push shaped_enter shaped_iff_alldata)

def NoImp (run : Run) : Prop :=
  ∀ ctx st, Own ctx st → Shaped ctx → (run ctx st).st.impossible = st.impossible

theorem evalIn_imp {g : GEnv} {e : Expr} {ctx : Scope} {st st1 : St} {v : Value}
    (h : evalIn g e ctx st = some (v, st1)) : st1.impossible = st.impossible := by
  unfold evalIn at h
  split at h
  · simp only [Option.some.injEq, Prod.mk.injEq] at h; obtain ⟨_, rfl⟩ := h; rfl
  · simp at h

theorem set_imp {ctx : Scope} {st st2 : St} {k : Bytes} {v : Value} (h : set ctx st k v = some st2) :
    st2.impossible = st.impossible := by
  cases ctx with
  | nil => simp [set] at h
  | cons f r =>
    simp only [set] at h
    cases hs : heapSet st.heap f.ref k v with
    | mk h' ro => rw [hs] at h; simp only [Option.some.injEq] at h; rw [← h]

theorem evalList_imp {g : GEnv} {ctx : Scope} : ∀ (es : List Expr) (st st1 : St) (vs : List Value),
    evalList g ctx es st = some (vs, st1) → st1.impossible = st.impossible := by
  intro es
  induction es with
  | nil => intro st st1 vs h; simp [evalList] at h; obtain ⟨_, rfl⟩ := h; rfl
  | cons e r ih =>
    intro st st1 vs h
    unfold evalList at h
    split at h
    · rename_i v sta he
      split at h
      · rename_i vs' stb hr
        simp only [Option.some.injEq, Prod.mk.injEq] at h
        obtain ⟨_, rfl⟩ := h
        rw [ih _ _ _ hr, evalIn_imp he]
      · simp at h
    · simp at h

theorem runDirectives_imp {g : GEnv} {ctx : Scope} :
    ∀ (ds : List Directive) (v : Value) (esc : Bool) (st : St) (v' : Value) (esc' : Bool) (st1 : St),
      runDirectives g ctx ds v esc st = some (v', esc', st1) → st1.impossible = st.impossible := by
  intro ds
  induction ds with
  | nil => intro v esc st v' esc' st1 h; simp [runDirectives] at h; obtain ⟨_, _, rfl⟩ := h; rfl
  | cons d r ih =>
    intro v esc st v' esc' st1 h
    unfold runDirectives at h
    split at h
    · simp at h
    · split at h
      · simp at h
      · split at h
        · simp at h
        · rename_i args sta hl
          split at h
          · simp at h
          · rw [ih _ _ _ _ _ _ h, evalList_imp _ _ _ _ hl]

theorem matchCase_imp {g : GEnv} {ctx : Scope} {sv : Value} :
    ∀ (es : List Expr) (st st1 : St) (b : Bool), matchCase g ctx sv es st = some (b, st1) → st1.impossible = st.impossible := by
  intro es
  induction es with
  | nil => intro st st1 b h; simp [matchCase] at h; obtain ⟨_, rfl⟩ := h; rfl
  | cons e r ih =>
    intro st st1 b h
    unfold matchCase at h
    split at h
    · simp at h
    · rename_i v sta he
      split at h
      · simp only [Option.some.injEq, Prod.mk.injEq] at h
        obtain ⟨_, rfl⟩ := h
        exact evalIn_imp he
      · rw [ih _ _ _ h, evalIn_imp he]

theorem writeAll_imp (st : St) (cs : List Bytes) : (writeAll st cs).impossible = st.impossible := by
  induction cs generalizing st with
  | nil => rfl
  | cons c r ih =>
    have := ih (write st c)
    simp only [writeAll, List.foldl] at this ⊢
    exact this

theorem callData_imp {g : GEnv} {allData : Bool} {data : Option Expr} {ctx cd : Scope} {st st1 : St}
    (h : callData g allData data ctx st = some (cd, st1)) : st1.impossible = st.impossible := by
  unfold callData at h
  split at h
  · split at h
    · simp at h
    · simp only [push, Option.some.injEq, Prod.mk.injEq] at h; rw [← h.2]
  · split at h
    · split at h
      · rename_i id kvs sta he
        simp only [newScope, push, Option.some.injEq, Prod.mk.injEq] at h
        rw [← h.2]; show sta.impossible = st.impossible; exact evalIn_imp he
      · simp at h
    · simp only [newScope, Option.some.injEq, Prod.mk.injEq] at h; rw [← h.2]

theorem enter_imp {cd cctx : Scope} {s s2 : St} (h : enter cd s = some (cctx, s2)) : s2.impossible = s.impossible := by
  cases cd with
  | nil => simp [enter] at h
  | cons f r => simp only [enter, push, Option.some.injEq, Prod.mk.injEq] at h; rw [← h.2]

theorem evalPrint_imp (g : GEnv) (esc : Bool) (pos : Nat) (arg : Expr) (dirs : List Directive) (ctx : Scope) (st : St) :
    (evalPrint g esc pos arg dirs ctx st).st.impossible = st.impossible := by
  unfold evalPrint
  have h0 : (atNode st (Expr.pos arg)).impossible = st.impossible := rfl
  rw [← h0]
  generalize atNode st (Expr.pos arg) = st'
  unfold evalPrintAt
  split
  · rfl
  · rename_i st1 he; exact evalIn_imp he
  · rename_i v st1 _ he
    split
    · have := evalIn_imp he
      exact this
    · rename_i r esc' st2 hd
      have e2 : st2.impossible = st'.impossible := by rw [runDirectives_imp _ _ _ _ _ _ _ hd, evalIn_imp he]
      split
      · exact e2
      · split
        · rw [writeAll_imp]; exact e2
        · exact e2

/-- on a shaped scope a data="all" call always has its data scope -/
theorem noteImpossible_shaped (a : Bool) (ctx : Scope) (st : St) (hs : Shaped ctx) : noteImpossible a ctx st = st := by
  obtain ⟨sc, h⟩ := (shaped_iff_alldata ctx).mp hs
  unfold noteImpossible
  simp [h]

theorem walkBlockOf_noimp {body : Run} (h : NoImp body) : NoImp (walkBlockOf body) := by
  intro ctx st _ hs
  obtain ⟨_, hown1, _, _⟩ := push_spec ctx st
  have hb := h (push ctx st).1 (push ctx st).2 hown1 (shaped_push ctx st hs)
  have hn : (push ctx st).2.impossible = st.impossible := rfl
  unfold walkBlockOf
  simp only
  split
  · split <;> (simp only; rw [← hn]; exact hb)
  · rw [← hn]; exact hb

theorem renderBlockOf_noimp {body : Run} (h : NoImp body) (ctx : Scope) (st : St) (hown : Own ctx st) (hs : Shaped ctx) :
    (renderBlockOf body ctx st).1.st.impossible = st.impossible := by
  unfold renderBlockOf
  simp only [restoreNode_impossible]
  exact walkBlockOf_noimp h ctx { st with out := [] } (hown.ext (Ext.of_heap_eq (W := fun _ => False) rfl rfl)) hs

theorem forLoop_noimp {body : Run} (h : NoImp body) (hg : GoodRun body) (var : Bytes) (last : Int) :
    ∀ (xs : List Value) (i : Nat) (ctx : Scope) (st : St), Shaped ctx →
      (forLoop body var last xs i ctx st).st.impossible = st.impossible := by
  intro xs
  induction xs with
  | nil => intro i ctx st _; unfold forLoop; rfl
  | cons x rest ih =>
    intro i ctx st hs
    obtain ⟨hctx1, hown1, _, _⟩ := push_spec ctx st
    have hs1 := shaped_push ctx st hs
    have hn : (push ctx st).2.impossible = st.impossible := rfl
    unfold forLoop
    simp only
    split
    · rfl
    · rename_i st2 h2
      have own2 := hown1.ext (set_ext hown1 h2)
      split
      · show st2.impossible = st.impossible; rw [set_imp h2]; rfl
      · rename_i st3 h3
        have own3 := own2.ext (set_ext own2 h3)
        split
        · show st3.impossible = st.impossible; rw [set_imp h3, set_imp h2]; rfl
        · rename_i st4 h4
          have own4 := own3.ext (set_ext own3 h4)
          have e4 : st4.impossible = st.impossible := by rw [set_imp h4, set_imp h3, set_imp h2]; rfl
          have hb := h (push ctx st).1 st4 own4 hs1
          have hgb := hg (push ctx st).1 st4 own4
          split
          · rename_i hok
            rw [hgb.ctx_eq hok, hctx1, pop_cons]
            simp only
            rw [ih _ _ _ hs, ← hctx1, hb, e4]
          · rw [hb, e4]

end SoyVerif.Model.Eval

namespace SoyVerif.Model.Eval
open SoyVerif SoyVerif.Model
open SoyVerif.Props.C02 (Shaped shaped_push shaped_enter shaped_iff_alldata)

section
variable (g : GEnv) (phs : List (Nat × Bytes × Run)) (body : MsgParts)
  (hphs : ∀ e ∈ phs, NoImp e.2.2 ∧ GoodRun e.2.2)
include hphs

mutual
theorem evalMParts_noimp : (parts : MParts) → NoImp (evalMParts g phs body parts)
  | .nil => by intro ctx st _ _; unfold evalMParts; rfl
  | .cons (.raw t) rest => by
    intro ctx st hown hs
    unfold evalMParts
    exact evalMParts_noimp rest ctx (write st t) (hown.ext (write_ext (fun _ => False) st t)) hs
  | .cons (.ph name) rest => by
    intro ctx st hown hs
    unfold evalMParts
    split
    · rfl
    · rename_i run hp
      have hrun : NoImp run ∧ GoodRun run := by
        rcases pickPh_mem name phs none run hp with ⟨e, he, her⟩ | ⟨d, hd⟩
        · rw [← her]; exact hphs e he
        · simp at hd
      have hg := hrun.2 ctx st hown
      simp only
      split
      · rename_i hok
        rw [hg.ctx_eq hok, evalMParts_noimp rest ctx _ (hown.ext hg.ext) hs, hrun.1 ctx st hown hs]
      · exact hrun.1 ctx st hown hs
  | .cons (.plural vn cases) rest => by
    intro ctx st hown hs
    unfold evalMParts
    split
    · rfl
    · split
      · rename_i i st1 he
        have e1 := evalIn_imp he
        have own1 := hown.ext (evalIn_ext (fun _ => False) he)
        split
        · exact e1
        · simp only
          split
          · exact e1
          · rename_i b _ _
            have hc := evalMCases_noimp cases (b.pluralCase i.toInt).toNat ctx st1 own1 hs
            have hgc := evalMCases_good g phs body (fun e he => (hphs e he).2) cases (b.pluralCase i.toInt).toNat ctx st1 own1
            split
            · rename_i hok
              rw [hgc.ctx_eq hok, evalMParts_noimp rest ctx _ (own1.ext hgc.ext) hs, hc, e1]
            · rw [hc, e1]
      · rename_i st1 he; exact evalIn_imp he
      · rfl
theorem evalMCases_noimp : (cases : MCases) → (i : Nat) → NoImp (evalMCases g phs body cases i)
  | .nil, _ => by intro ctx st _ _; unfold evalMCases; rfl
  | .cons parts _, 0 => by intro ctx st h hs; unfold evalMCases; exact evalMParts_noimp parts ctx st h hs
  | .cons _ rest, i + 1 => by intro ctx st h hs; unfold evalMCases; exact evalMCases_noimp rest i ctx st h hs
end
end

section
variable (g : GEnv) (esc : Bool) (call : Registry.Tmpl → Run) (hcall : ∀ t, GoodRun (call t)) (hcalln : ∀ t, NoImp (call t))
include hcall hcalln

mutual
theorem execCmd_noimp : (c : Cmd) → NoImp (execCmd g esc call c)
  | .rawText _ _ => by intro ctx st _ _; rw [execCmd]; rfl
  | .print pos arg dirs => by intro ctx st _ _; rw [execCmd]; exact evalPrint_imp g esc pos arg dirs ctx st
  | .msg _ id _ _ _ body => by
    intro ctx st hown hs
    rw [execCmd]
    refine walkBlockOf_noimp ?_ ctx st hown hs
    intro ctx1 st1 hown1 hs1
    simp only
    split
    · exact walkMsgBody_noimp body ctx1 st1 hown1 hs1
    · split
      · exact walkMsgBody_noimp body ctx1 st1 hown1 hs1
      · exact evalMParts_noimp g _ body (fun e he => ⟨phAll_noimp body 0 e he, phAll_good g esc call hcall body 0 e he⟩) _ ctx1 st1 hown1 hs1
  | .css _ none _ => by intro ctx st _ _; rw [execCmd]; rfl
  | .css _ (some e) _ => by
    intro ctx st _ _
    rw [execCmd]
    split
    · rfl
    · rename_i v st1 he
      split
      · exact evalIn_imp he
      · show st1.impossible = st.impossible; exact evalIn_imp he
  | .debugger _ => by intro ctx st _ _; rw [execCmd]
  | .log _ body => by
    intro ctx st hown hs
    rw [execCmd]
    exact renderBlockOf_noimp (execBody_noimp body) ctx st hown hs
  | .ifc _ conds => by intro ctx st h hs; rw [execCmd]; exact execConds_noimp conds ctx st h hs
  | .forc _ var list body none => by
    intro ctx st hown hs
    rw [execCmd]
    split
    · rename_i id xs st1 he
      split
      · exact evalIn_imp he
      · rw [forLoop_noimp (execBody_noimp body) (execBody_good g esc call hcall body) var _ xs 0 ctx st1 hs, evalIn_imp he]
    · rename_i st1 he; exact evalIn_imp he
    · rfl
  | .forc _ var list body (some b) => by
    intro ctx st hown hs
    rw [execCmd]
    split
    · rename_i id xs st1 he
      have own1 := hown.ext (evalIn_ext (fun _ => False) he)
      split
      · rw [walkBlockOf_noimp (execBody_noimp b) ctx st1 own1 hs, evalIn_imp he]
      · rw [forLoop_noimp (execBody_noimp body) (execBody_good g esc call hcall body) var _ xs 0 ctx st1 hs, evalIn_imp he]
    · rename_i st1 he; exact evalIn_imp he
    · rfl
  | .switch _ value cases => by
    intro ctx st hown hs
    rw [execCmd]
    split
    · rfl
    · rename_i sv st1 he
      rw [execCases_noimp cases none (fun _ h => by cases h) sv ctx st1 (hown.ext (evalIn_ext (fun _ => False) he)) hs, evalIn_imp he]
  | .call _ name allData data params => by
    intro ctx st hown hs
    rw [execCmd]
    split
    · rfl
    · rename_i callee _
      split
      · rw [noteImpossible_shaped allData ctx st hs]; rfl
      · rename_i cd st1 hcd
        obtain ⟨e1, owncd, _⟩ := callData_spec hcd
        have own1 : Own ctx st1 := hown.ext e1
        have hp := execParams_noimp params cd ctx st1 own1 owncd hs
        have hpg := execParams_good g esc call hcall params cd ctx st1 owncd
        have e0 := callData_imp hcd
        simp only
        split
        · obtain ⟨cctx, s2, hent, ownc, _, _⟩ := enter_spec (owncd.ext hpg.ext)
          rw [hent]
          simp only
          have hsc : Shaped cctx := by
            obtain ⟨f, r, c, hcdeq, _, _⟩ := owncd
            subst hcdeq
            exact shaped_enter f r _ cctx s2 hent
          show (call callee cctx s2).st.impossible = st.impossible
          rw [hcalln callee cctx s2 ownc hsc, enter_imp hent, hp, e0]
        · rw [hp, e0]
  | .letValue _ name e => by
    intro ctx st _ _
    rw [execCmd]
    split
    · rfl
    · rename_i v st1 he
      split
      · exact evalIn_imp he
      · rename_i st2 h2; show st2.impossible = st.impossible; rw [set_imp h2, evalIn_imp he]
  | .letContent _ name body => by
    intro ctx st hown hs
    rw [execCmd]
    have hb := renderBlockOf_noimp (execBody_noimp body) ctx st hown hs
    split
    · split
      · exact hb
      · rename_i st2 h2; show st2.impossible = st.impossible; rw [set_imp h2, hb]
    · exact hb
  | .headerParam _ _ _ _ _ _ => by intro ctx st _ _; rw [execCmd]
  | .namespace _ _ _ => by intro ctx st _ _; rw [execCmd]
  | .template _ _ _ _ _ => by intro ctx st _ _; rw [execCmd]
  | .soyDoc _ _ => by intro ctx st _ _; rw [execCmd]
theorem execBody_noimp : (b : Block) → NoImp (execBody g esc call b)
  | .mk p cmds => by
    intro ctx st hown hs
    rw [execBody]
    exact execCmds_noimp cmds ctx (atNode st p) (hown.atNode p) hs
theorem execCmds_noimp : (cs : CmdList) → NoImp (execCmds g esc call cs)
  | .nil => by intro ctx st _ _; rw [execCmds]
  | .cons c rest => by
    intro ctx st hown hs
    rw [execCmds]
    have h1 := execCmd_noimp c ctx (atNode st (cmdPos c)) (hown.atNode _) hs
    have hg := GoodRun.at (execCmd_good g esc call hcall c) ctx st (cmdPos c) hown
    split
    · rename_i hok
      rw [hg.ctx_eq hok, execCmds_noimp rest ctx _ (hown.ext hg.ext) hs, h1]; rfl
    · rw [h1]; rfl
theorem execConds_noimp : (cs : CondList) → NoImp (execConds g esc call cs)
  | .nil => by intro ctx st _ _; rw [execConds]
  | .cons _ none body _ => by
    intro ctx st hown hs; rw [execConds]; exact walkBlockOf_noimp (execBody_noimp body) ctx st hown hs
  | .cons _ (some c) body rest => by
    intro ctx st hown hs
    rw [execConds]
    split
    · rfl
    · rename_i v st1 he
      have own1 := hown.ext (evalIn_ext (fun _ => False) he)
      split
      · rw [walkBlockOf_noimp (execBody_noimp body) ctx st1 own1 hs, evalIn_imp he]
      · rw [execConds_noimp rest ctx st1 own1 hs, evalIn_imp he]
theorem execCases_noimp : (cs : CaseList) → (dflt : Option Run) → (∀ d, dflt = some d → NoImp d) → (sv : Value) →
    NoImp (execCases g esc call cs dflt sv)
  | .nil, dflt, hd, _ => by
    intro ctx st hown hs; rw [execCases]
    cases dflt with
    | none => rfl
    | some d => exact hd d rfl ctx st hown hs
  | .cons _ values body rest, dflt, hd, sv => by
    intro ctx st hown hs
    rw [execCases]
    split
    · rfl
    · rename_i st1 hm
      rw [walkBlockOf_noimp (execBody_noimp body) ctx st1 (hown.ext (matchCase_ext (fun _ => False) _ _ _ _ hm)) hs, matchCase_imp _ _ _ _ hm]
    · rename_i st1 hm
      have own1 := hown.ext (matchCase_ext (fun _ => False) _ _ _ _ hm)
      rw [execCases_noimp rest _ (pickDefault_all (P := NoImp) (walkBlockOf_noimp (execBody_noimp body)) hd) sv ctx st1 own1 hs,
        matchCase_imp _ _ _ _ hm]
theorem execParams_noimp : (ps : ParamList) → (cd ctx : Scope) → (st : St) → Own ctx st → Own cd st → Shaped ctx →
    (execParams g esc call ps cd ctx st).st.impossible = st.impossible
  | .nil, _, _, _, _, _, _ => by rw [execParams]
  | .value _ key e rest, cd, ctx, st, hown, owncd, hs => by
    rw [execParams]
    split
    · rfl
    · rename_i v st1 he
      have e1 := evalIn_ext (fun _ => False) he
      split
      · exact evalIn_imp he
      · rename_i st2 h2
        have e2 := set_ext (owncd.ext e1) h2
        rw [execParams_noimp rest cd ctx st2 ((hown.ext e1).ext e2) ((owncd.ext e1).ext e2) hs, set_imp h2, evalIn_imp he]
  | .content _ key body rest, cd, ctx, st, hown, owncd, hs => by
    rw [execParams]
    have hb := renderBlockOf_noimp (execBody_noimp body) ctx st hown hs
    have hgb := (renderBlockOf_good' (execBody_good g esc call hcall body) ctx st).1
    split
    · rename_i hok
      split
      · exact hb
      · rename_i st2 h2
        have e2 := set_ext (owncd.ext hgb.ext) h2
        rw [hgb.ctx_eq hok, execParams_noimp rest cd ctx st2 ((hown.ext hgb.ext).ext e2) ((owncd.ext hgb.ext).ext e2) hs, set_imp h2, hb]
    · exact hb
theorem walkMsgBody_noimp : (ps : MsgParts) → NoImp (walkMsgBody g esc call ps)
  | .nil => by intro ctx st _ _; rw [walkMsgBody]
  | .text p t rest => by
    intro ctx st hown hs
    rw [walkMsgBody]
    have e : Ext (fun _ => False) st (write (atNode st p) t) := Ext.of_heap_eq rfl rfl
    rw [walkMsgBody_noimp rest ctx _ (hown.ext e) hs]; rfl
  | .ph _ _ body rest => by
    intro ctx st hown hs
    rw [walkMsgBody]
    have h1 := execPh_noimp body ctx st hown hs
    have hg := execPh_good g esc call hcall body ctx st hown
    split
    · rename_i hok
      rw [hg.ctx_eq hok, walkMsgBody_noimp rest ctx _ (hown.ext hg.ext) hs, h1]
    · exact h1
  | .plural _ _ value cases _ dflt rest => by
    intro ctx st hown hs
    rw [walkMsgBody]
    split
    · rename_i i st1 he
      have own1 := hown.ext (evalIn_ext (fun _ => False) he)
      have h1 := walkPluralCases_noimp cases (walkMsgBody g esc call dflt) (walkMsgBody_noimp dflt) i.toInt ctx st1 own1 hs
      have hg := walkPluralCases_good g esc call hcall cases (walkMsgBody g esc call dflt)
        (walkMsgBody_good g esc call hcall dflt) i.toInt ctx st1 own1
      simp only
      split
      · rename_i hok
        rw [hg.ctx_eq hok, walkMsgBody_noimp rest ctx _ (own1.ext hg.ext) hs, h1, evalIn_imp he]
      · rw [h1, evalIn_imp he]
    · rename_i st1 he; exact evalIn_imp he
    · rfl
theorem walkPluralCases_noimp : (cs : PluralCases) → (dflt : Run) → NoImp dflt → (i : Int) →
    NoImp (walkPluralCases g esc call cs dflt i)
  | .nil, dflt, hd, _ => by intro ctx st h hs; rw [walkPluralCases]; exact hd ctx st h hs
  | .cons _ v _ body rest, dflt, hd, i => by
    intro ctx st hown hs
    rw [walkPluralCases]
    split
    · exact walkMsgBody_noimp body ctx st hown hs
    · exact walkPluralCases_noimp rest dflt hd i ctx st hown hs
theorem execPh_noimp : (b : MsgPhBody) → NoImp (execPh g esc call b)
  | .htmlTag _ _ => by intro ctx st _ _; rw [execPh]; rfl
  | .cmd c => by
    intro ctx st hown hs; rw [execPh]
    exact execCmd_noimp c ctx (atNode st (cmdPos c)) (hown.atNode _) hs
theorem phAll_noimp : (ps : MsgParts) → (d : Nat) → ∀ e ∈ phAll g esc call ps d, NoImp e.2.2
  | .nil, _ => by intro e he; rw [phAll] at he; simp at he
  | .text _ _ rest, d => by intro e he; rw [phAll] at he; exact phAll_noimp rest d e he
  | .ph _ name body rest, d => by
    intro e he
    rw [phAll] at he
    rcases List.mem_cons.mp he with rfl | h
    · exact execPh_noimp body
    · exact phAll_noimp rest d e h
  | .plural _ _ _ cases _ dflt rest, d => by
    intro e he
    rw [phAll] at he
    rcases List.mem_append.mp he with h | h
    · rcases List.mem_append.mp h with h | h
      · exact phAllCases_noimp cases (d + 3) e h
      · exact phAll_noimp dflt (d + 2) e h
    · exact phAll_noimp rest d e h
theorem phAllCases_noimp : (cs : PluralCases) → (d : Nat) → ∀ e ∈ phAllCases g esc call cs d, NoImp e.2.2
  | .nil, _ => by intro e he; rw [phAllCases] at he; simp at he
  | .cons _ _ _ body rest, d => by
    intro e he
    rw [phAllCases] at he
    rcases List.mem_append.mp he with h | h
    · exact phAll_noimp body d e h
    · exact phAllCases_noimp rest d e h
end
end

/-- every template invocation on a shaped scope leaves the counter alone, whatever the fuel -/
theorem runTmpl_noimp (g : GEnv) : ∀ (fuel : Nat) (t : Registry.Tmpl), NoImp (runTmpl g fuel t) := by
  intro fuel
  induction fuel with
  | zero => intro t ctx st _ _; rw [runTmpl]
  | succ n ih =>
    intro t ctx st hown hs
    rw [runTmpl]
    exact execBody_noimp g (escapeOf t) (runTmpl g n) (runTmpl_good g n) ih t.body ctx _ (hown.atNode _) hs

end SoyVerif.Model.Eval
