/-
  Step A of the C15 proof: the index-based model of `rawtext` (with explicit Go
  bounds checks) never panics and equals an index-free abstract machine that
  carries the pending whitespace run explicitly.
-/
import SoyVerif.Model.RawText

namespace SoyVerif.Model

structure AState where
  inRun : Bool
  run : Bytes            -- the real whitespace bytes of the current run
  seenNewline : Bool
  lastChar : Option UInt8
  charBeforeTrim : Option UInt8
  out : Bytes

def aFlush (r : UInt8) (st : AState) : AState :=
  if st.inRun then
    (if !st.seenNewline then { st with out := st.out ++ st.run, inRun := false, run := [] }
     else if !isTightJoinerO st.charBeforeTrim && !isTightJoiner r then
       { st with out := st.out ++ [32], inRun := false, run := [] }
     else { st with inRun := false, run := [] })
  else st

def aStep (r : UInt8) (st : AState) : AState :=
  if st.inRun ∧ isSpace r then { st with run := st.run ++ [r] }
  else if st.inRun ∧ isEndOfLine r then { st with run := st.run ++ [r], seenNewline := true }
  else
    let st1 := aFlush r st
    let nl := isEndOfLine r
    if isSpace r || nl then
      { st1 with seenNewline := nl, inRun := true, run := [r], charBeforeTrim := st1.lastChar }
    else
      { st1 with seenNewline := nl, out := st1.out ++ [r], lastChar := some r }

def aFinal (ta : Bool) (st : AState) : Bytes :=
  if !st.seenNewline && st.inRun && !ta then st.out ++ st.run else st.out

def aLoop (ta : Bool) : Bytes → AState → Bytes
  | [], st => aFinal ta st
  | r :: rest, st => aLoop ta rest (aStep r st)

def aInit (tb : Bool) : AState :=
  { inRun := tb, run := [], seenNewline := tb, lastChar := none, charBeforeTrim := none, out := [] }

/-- index-free reference semantics of the state machine -/
def rawtextA (s : Bytes) (tb ta : Bool) : Bytes := aLoop ta s (aInit tb)

/-- The relation between the concrete state at position `pre.length` of `s = pre ++ rest`
    and the abstract state. `virt` is the phantom space counted by `trimBefore`. -/
structure Rel (pre : Bytes) (c : RTState) (a : AState) : Prop where
  out : c.out = a.out
  snl : c.seenNewline = a.seenNewline
  lc : c.lastChar = a.lastChar
  cbt : c.charBeforeTrim = a.charBeforeTrim
  suffix : ∃ p0, pre = p0 ++ a.run
  bound : a.out.length + a.run.length ≤ pre.length
  spaces : (a.inRun = false ∧ c.spaces = 0 ∧ a.run = []) ∨
           (a.inRun = true ∧ c.spaces = a.run.length ∧ c.spaces > 0) ∨
           (a.inRun = true ∧ c.spaces = a.run.length + 1 ∧ a.seenNewline = true ∧ a.charBeforeTrim = none)

theorem copyRange_suffix (p0 run rest : Bytes) :
    copyRange (p0 ++ run ++ rest) (((p0 ++ run).length : Nat) - (run.length : Nat) : Int) (p0 ++ run).length = some run := by
  unfold copyRange
  by_cases h : run = []
  · subst h; simp
  · have hl : 0 < run.length := List.length_pos_iff.mpr h
    have e : (((p0 ++ run).length : Nat) : Int) - (run.length : Int) = (p0.length : Int) := by
      simp [List.length_append]
    rw [e]
    have h1 : ¬ ((p0.length : Int) ≥ ((p0 ++ run).length : Nat)) := by
      simp [List.length_append]; omega
    have h2 : ¬ ((p0.length : Int) < 0) := by omega
    have h3 : (p0 ++ run).length ≤ (p0 ++ run ++ rest).length := by simp [List.length_append]
    simp only [h1, h2, h3, if_true, if_false]
    simp [List.length_append, List.append_assoc]

theorem pushOut_ok (cap : Nat) (out add : Bytes) (h : out.length + add.length ≤ cap) :
    pushOut cap out add = some (out ++ add) := by
  simp [pushOut, h]


macro "rel_done" : tactic =>
  `(tactic| (constructor <;> simp_all <;> (first | omega | exact ⟨_, rfl⟩ | exact ⟨_, by simp⟩)))

theorem step_rel (pre rest : Bytes) (r : UInt8) (c : RTState) (a : AState) (h : Rel pre c a) :
    ∃ c', rtStep (pre ++ r :: rest) pre.length r c = some c' ∧ Rel (pre ++ [r]) c' (aStep r a) := by
  obtain ⟨hout, hsnl, hlc, hcbt, ⟨p0, hsuf⟩, hbound, hsp⟩ := h
  have hlen : (pre ++ r :: rest).length = pre.length + 1 + rest.length := by simp [List.length_append]; omega
  unfold rtStep aStep aFlush
  generalize hc : (pre ++ r :: rest).length = cap
  rw [hc] at hlen
  rcases hsp with ⟨hi, hs, hr⟩ | ⟨hi, hs, hpos⟩ | ⟨hi, hs, hnl, hz⟩
  · -- not in a run
    simp only [hs, hi, Nat.lt_irrefl, gt_iff_lt, false_and, if_false, Bool.false_eq_true]
    by_cases hsp : (isSpace r || isEndOfLine r) = true
    · simp only [hsp, if_true]
      refine ⟨_, rfl, ?_⟩
      rel_done
    · simp only [hsp, if_false, Bool.false_eq_true]
      have hp : pushOut cap c.out [r] = some (c.out ++ [r]) := by
        apply pushOut_ok; simp [hlen, hout]; simp [hr] at hbound; omega
      simp only [Option.pure_def, Option.bind_eq_bind, Option.bind_some, hp]
      refine ⟨_, rfl, ?_⟩
      rel_done
  · -- in a real run of `spaces` bytes
    have hposs : c.spaces > 0 := hpos
    by_cases h1 : isSpace r = true
    · simp only [hposs, h1, hi, and_self, if_true]
      refine ⟨_, rfl, ?_⟩
      rel_done
    · by_cases h2 : isEndOfLine r = true
      · simp only [hposs, h1, h2, hi, and_self, and_false, if_true, if_false, Bool.false_eq_true]
        refine ⟨_, rfl, ?_⟩
        rel_done
      · simp only [hposs, h1, h2, hi, and_false, if_false, if_true, Bool.false_eq_true, Bool.or_self]
        have hcr : copyRange (pre ++ r :: rest) ((pre.length : Int) - (c.spaces : Int)) pre.length = some a.run := by
          have := copyRange_suffix p0 a.run (r :: rest)
          rw [hsuf, hs]; simpa using this
        by_cases h3 : a.seenNewline = true
        · have h3c : c.seenNewline = true := by rw [hsnl]; exact h3
          by_cases h4 : (!isTightJoinerO a.charBeforeTrim && !isTightJoiner r) = true
          · have h4c : (!isTightJoinerO c.charBeforeTrim && !isTightJoiner r) = true := by rw [hcbt]; exact h4
            have hp1 : pushOut cap c.out [32] = some (c.out ++ [32]) := by
              apply pushOut_ok; simp [hlen, hout]; omega
            have hp2 : pushOut cap (c.out ++ [32]) [r] = some (c.out ++ [32] ++ [r]) := by
              apply pushOut_ok; simp [hlen, hout]; omega
            simp only [h3, h3c, h4, h4c, hp1, hp2, Bool.not_true, Bool.false_eq_true, if_false, if_true,
              Option.pure_def, Option.bind_eq_bind, Option.bind_some]
            refine ⟨_, rfl, ?_⟩
            rel_done
          · have h4c : (!isTightJoinerO c.charBeforeTrim && !isTightJoiner r) = false := by rw [hcbt]; simpa using h4
            have h4a : (!isTightJoinerO a.charBeforeTrim && !isTightJoiner r) = false := by simpa using h4
            have hp2 : pushOut cap c.out [r] = some (c.out ++ [r]) := by
              apply pushOut_ok; simp [hlen, hout]; omega
            simp only [h3, h3c, h4a, h4c, hp2, Bool.not_true, Bool.false_eq_true, if_false,
              Option.pure_def, Option.bind_eq_bind, Option.bind_some]
            refine ⟨_, rfl, ?_⟩
            rel_done
        · have h3c : c.seenNewline = false := by rw [hsnl]; simpa using h3
          have h3a : a.seenNewline = false := by simpa using h3
          have hp1 : pushOut cap c.out a.run = some (c.out ++ a.run) := by
            apply pushOut_ok; simp [hlen, hout]; omega
          have hp2 : pushOut cap (c.out ++ a.run) [r] = some (c.out ++ a.run ++ [r]) := by
            apply pushOut_ok; simp [hlen, hout]; omega
          simp only [h3a, h3c, hcr, hp1, hp2, Bool.not_false, if_true,
              Option.pure_def, Option.bind_eq_bind, Option.bind_some]
          refine ⟨_, rfl, ?_⟩
          rel_done
  · -- the phantom space of trimBefore (+ possibly real bytes): seenNewline holds, so the run is never copied
    have hposs : c.spaces > 0 := by omega
    have h3c : c.seenNewline = true := by rw [hsnl]; exact hnl
    have hz' : c.charBeforeTrim = none := by rw [hcbt]; exact hz
    by_cases h1 : isSpace r = true
    · simp only [hposs, h1, hi, and_self, if_true]
      refine ⟨_, rfl, ?_⟩
      rel_done
    · by_cases h2 : isEndOfLine r = true
      · simp only [hposs, h1, h2, hi, and_self, and_false, if_true, if_false, Bool.false_eq_true]
        refine ⟨_, rfl, ?_⟩
        rel_done
      · simp only [hposs, h1, h2, hi, and_false, if_false, if_true, Bool.false_eq_true, Bool.or_self]
        have ht : isTightJoinerO none = true := rfl
        have hp2 : pushOut cap c.out [r] = some (c.out ++ [r]) := by
          apply pushOut_ok; simp [hlen, hout]; omega
        simp only [hnl, h3c, hz, hz', ht, hp2, Bool.not_true, Bool.false_eq_true, if_false, Bool.false_and,
              Option.pure_def, Option.bind_eq_bind, Option.bind_some]
        refine ⟨_, rfl, ?_⟩
        rel_done

theorem final_rel (pre : Bytes) (ta : Bool) (c : RTState) (a : AState) (h : Rel pre c a) :
    rtLoop pre ta [] pre.length c = some (aFinal ta a) := by
  obtain ⟨hout, hsnl, hlc, hcbt, ⟨p0, hsuf⟩, hbound, hsp⟩ := h
  unfold rtLoop aFinal
  rcases hsp with ⟨hi, hs, hr⟩ | ⟨hi, hs, hpos⟩ | ⟨hi, hs, hnl, hz⟩
  · simp [hs, hi, hout]
  · by_cases hc : (!a.seenNewline && !ta) = true
    · have hcr : copyRange pre ((pre.length : Int) - (c.spaces : Int)) pre.length = some a.run := by
        have := copyRange_suffix p0 a.run []
        rw [hsuf, hs]; simpa using this
      have hp1 : pushOut pre.length c.out a.run = some (c.out ++ a.run) := by
        apply pushOut_ok; simp [hout]; omega
      simp_all
    · have hn : ¬ (a.seenNewline = false ∧ ta = false) := by
        intro ⟨h1, h2⟩; simp [h1, h2] at hc
      simp_all only [gt_iff_lt]
      simp [hn]
  · simp_all

theorem loop_rel (ta : Bool) : ∀ (rest pre : Bytes) (c : RTState) (a : AState), Rel pre c a →
    rtLoop (pre ++ rest) ta rest pre.length c = some (aLoop ta rest a)
  | [], pre, c, a, h => by simpa [aLoop] using final_rel pre ta c a h
  | r :: rest, pre, c, a, h => by
    obtain ⟨c', hstep, hrel⟩ := step_rel pre rest r c a h
    unfold rtLoop aLoop
    rw [hstep]
    have := loop_rel ta rest (pre ++ [r]) c' (aStep r a) hrel
    simpa [List.append_assoc] using this

theorem init_rel (tb : Bool) : Rel [] (rtInit tb) (aInit tb) := by
  cases tb <;> constructor <;> simp [rtInit, aInit]

/-- The index-based model with Go's bounds checks never panics and equals the
    index-free machine. -/
theorem rawtext_eq_rawtextA (s : Bytes) (tb ta : Bool) : rawtext s tb ta = some (rawtextA s tb ta) := by
  have := loop_rel ta s [] (rtInit tb) (aInit tb) (init_rel tb)
  simpa [rawtext, rawtextA] using this

end SoyVerif.Model
