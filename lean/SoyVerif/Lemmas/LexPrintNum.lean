/-
  Per-token lemmas, part 2: numbers.  `scanNumber` on `[-]digits[.digits][e[+-]digits]` followed by
  a byte that cannot continue a number accepts exactly that spelling — as an Integer without
  fraction and exponent (no leading zero), as a Float otherwise; a leading `-` is read as the sign
  of the number when the previous token is one after which `lexNegative` decides "unary".
-/
import SoyVerif.Lemmas.LexPrintTok

set_option linter.unusedSimpArgs false
set_option linter.unusedVariables false

namespace SoyVerif.Lemmas.LexPrint
open SoyVerif SoyVerif.Model SoyVerif.Model.Lex SoyVerif.Model.PrintTokens

variable {tg : Int}

/-- the head of `t`, if any, is an ASCII byte that is not a decimal digit -/
def NotDigHd : Bytes → Prop
  | [] => True
  | b :: _ => b < 128 ∧ isDig b = false

theorem notDigHd_ascii {t : Bytes} (h : NotDigHd t) : AsciiHd t := by
  cases t with
  | nil => trivial
  | cons b s => exact h.1

theorem wordEnd_notDig {t : Bytes} (h : WordEnd t) : NotDigHd t := by
  cases t with
  | nil => trivial
  | cons b s =>
    refine ⟨h.1, ?_⟩
    have := h.2
    simp only [isIdChar, Bool.or_eq_false_iff] at this
    exact this.2

theorem dec_true {b : UInt8} (h : isDig b = true) : b < 128 ∧ indexRune decDigits (b.toNat : Int) = true := by
  have hn := isDig_nat h
  refine ⟨by show b.toNat < 128; omega, ?_⟩
  simp only [indexRune, decDigits, List.contains_eq_mem, List.mem_cons, List.not_mem_nil, or_false,
    Bool.and_eq_true, decide_eq_true_eq]
  omega

theorem dec_false {t : Bytes} (h : NotDigHd t) : indexRune decDigits (hdRune t) = false := by
  cases t with
  | nil => exact indexRune_eof _
  | cons b s =>
    have hn := isDig_nat_false h.2
    simp only [hdRune, indexRune, decDigits, List.contains_eq_mem, List.mem_cons, List.not_mem_nil, or_false,
      Bool.and_eq_false_iff, decide_eq_false_iff_not]
    omega

/-- `acceptRun(digits)` over the digits `ds` -/
theorem digits_run {inp : Array UInt8} (ds : Bytes) {q : Nat} {t : Bytes} (h : InpAt inp q (ds ++ t))
    (hd : ∀ b ∈ ds, isDig b = true) (ht : NotDigHd t) (st w le its) :
    acceptRun (L tg inp q st w le its) decDigits = some (decide (0 < ds.length), L tg inp (q + ds.length) st (hdW t) le its) :=
  acceptRun_run decDigits ds h (fun b hb => dec_true (hd b hb)) (notDigHd_ascii ht) (dec_false ht) st w le its

theorem scanEnd (T : LexTableOK) {inp q rest} (h : InpAt inp q rest) (hr : WordEnd rest) (typ : ItemType) (st w le its) :
    scanNumberEnd (L tg inp q st w le its) typ = some (typ, true, L tg inp q st (hdW rest) le its) := by
  unfold scanNumberEnd
  simp only [peek_hd h (wordEnd_ascii hr), Option.bind_eq_bind, Option.bind_some, alnum_false T hr]
  rfl

theorem wordEnd_ne {rest : Bytes} (h : WordEnd rest) (b : UInt8) (hb : isIdChar b = true) : hdRune rest ≠ (b.toNat : Int) := by
  cases rest with
  | nil => simp only [hdRune]; omega
  | cons c s =>
    simp only [hdRune]
    intro e
    have : c = b := UInt8.toNat_inj.mp (by omega)
    have h2 := h.2
    rw [this, hb] at h2
    exact absurd h2 (by simp)

/-- `scanNumberExp` when no exponent follows -/
theorem scanExp_none (T : LexTableOK) {inp q rest} (h : InpAt inp q rest) (hr : WordEnd rest) (typ : ItemType) (st w le its) :
    scanNumberExp (L tg inp q st w le its) typ = some (typ, true, L tg inp q st (hdW rest) le its) := by
  unfold scanNumberExp
  have hne := wordEnd_ne hr 101 (by decide)
  have ha := accept_no (tg := tg) h (wordEnd_ascii hr) [101] (by
    simp only [indexRune, List.contains_eq_mem, List.mem_cons, List.not_mem_nil, or_false, Bool.and_eq_false_iff,
      decide_eq_false_iff_not]
    right; exact hne) st w le its
  simp only [ha, Option.bind_eq_bind, Option.bind_some, scanEnd T h hr]
  rfl

/-- an optional sign of the exponent -/
def IsSign (s : Bytes) : Prop := s = [] ∨ s = [43] ∨ s = [45]

/-- `scanNumberExp` on `e[+-]digits` -/
theorem scanExp_some (T : LexTableOK) {inp q} {sgn es rest : Bytes} (h : InpAt inp q (101 :: (sgn ++ (es ++ rest))))
    (hs : IsSign sgn) (hes : es ≠ []) (hd : ∀ b ∈ es, isDig b = true) (hr : WordEnd rest) (typ : ItemType) (st w le its) :
    scanNumberExp (L tg inp q st w le its) typ =
      some (.tFloat, true, L tg inp (q + 1 + sgn.length + es.length) st (hdW rest) le its) := by
  unfold scanNumberExp
  have ha := accept_yes (tg := tg) h (by decide) [101] (by decide) st w le its
  have h1 : InpAt inp (q + 1) (sgn ++ (es ++ rest)) := inpAt_tail h
  have h2 : InpAt inp (q + 1 + sgn.length) (es ++ rest) := inpAt_append h1
  have h3 : InpAt inp (q + 1 + sgn.length + es.length) rest := inpAt_append h2
  obtain ⟨e0, es', rfl⟩ : ∃ e0 es', es = e0 :: es' := by
    cases es with
    | nil => exact absurd rfl hes
    | cons a b => exact ⟨a, b, rfl⟩
  have he0 := isDig_nat (hd e0 (by simp))
  have hsg : ∃ w', accept (L tg inp (q + 1) st 1 le its) [43, 45] = some (decide (sgn ≠ []), L tg inp (q + 1 + sgn.length) st w' le its) := by
    rcases hs with rfl | rfl | rfl
    · refine ⟨1, ?_⟩
      have := accept_no (tg := tg) (rest := e0 :: (es' ++ rest)) (by simpa using h1) (asciiHd_cons (by show e0.toNat < 128; omega)) [43, 45] (by
        simp only [hdRune, indexRune, List.contains_eq_mem, List.mem_cons, List.not_mem_nil, or_false, Bool.and_eq_false_iff,
          decide_eq_false_iff_not]
        omega) st 1 le its
      simpa [hdW] using this
    · refine ⟨1, ?_⟩
      have := accept_yes (tg := tg) (b := 43) (s := (e0 :: es') ++ rest) (by simpa using h1) (by decide) [43, 45] (by decide) st 1 le its
      simpa using this
    · refine ⟨1, ?_⟩
      have := accept_yes (tg := tg) (b := 45) (s := (e0 :: es') ++ rest) (by simpa using h1) (by decide) [43, 45] (by decide) st 1 le its
      simpa using this
  obtain ⟨w', hsg⟩ := hsg
  have hrun := digits_run (tg := tg) (e0 :: es') h2 hd (wordEnd_notDig hr) st w' le its
  simp only [ha, Option.bind_eq_bind, Option.bind_some, if_true, hsg, hrun, scanEnd T h3 hr]
  simp

def AllDig (ds : Bytes) : Prop := ∀ b ∈ ds, isDig b = true

/-- a fraction `.digits`, or nothing -/
def FracOk (frac : Bytes) : Prop := frac = [] ∨ ∃ fs, frac = 46 :: fs ∧ fs ≠ [] ∧ AllDig fs

/-- an exponent `e[+-]digits`, or nothing -/
def ExpOk (ex : Bytes) : Prop := ex = [] ∨ ∃ sgn es, ex = 101 :: (sgn ++ es) ∧ IsSign sgn ∧ es ≠ [] ∧ AllDig es

/-- no leading zero (except "0" itself) -/
def NoLeadZero (ds : Bytes) : Prop := ds = [48] ∨ ds.head? ≠ some 48

/-- the byte after a number: as after a word, and not a `.` -/
def NumEnd (rest : Bytes) : Prop := WordEnd rest ∧ rest.head? ≠ some 46

theorem scanExp_any (T : LexTableOK) {inp q} {ex rest : Bytes} (h : InpAt inp q (ex ++ rest))
    (hx : ExpOk ex) (hr : WordEnd rest) (typ : ItemType) (st w le its) :
    scanNumberExp (L tg inp q st w le its) typ =
      some (if ex = [] then typ else .tFloat, true, L tg inp (q + ex.length) st (hdW rest) le its) := by
  rcases hx with rfl | ⟨sgn, es, rfl, hs, hes, hd⟩
  · simpa using scanExp_none T (by simpa using h) hr typ st w le its
  · have := scanExp_some (tg := tg) T (sgn := sgn) (es := es) (rest := rest) (by simpa using h) hs hes hd hr typ st w le its
    simp only [this, List.cons_ne_nil, if_false, List.length_cons, List.length_append]
    congr 4
    omega

theorem notDig_tail {frac ex rest : Bytes} (hf : FracOk frac) (hx : ExpOk ex) (hr : WordEnd rest) :
    NotDigHd (frac ++ (ex ++ rest)) := by
  rcases hf with rfl | ⟨fs, rfl, _, _⟩
  · rcases hx with rfl | ⟨sgn, es, rfl, _, _, _⟩
    · simpa using wordEnd_notDig hr
    · exact ⟨by decide, by decide⟩
  · exact ⟨by decide, by decide⟩

theorem indexOf_at {inp : Array UInt8} {q : Nat} {b : UInt8} {s : Bytes} (h : InpAt inp q (b :: s)) :
    indexOf inp (q : Int) = some b := by
  have ⟨h1, h2⟩ := inpAt_get h
  unfold indexOf
  rw [if_pos ⟨by omega, by omega⟩]
  simp only [Int.toNat_natCast, h2]

/-- the hexadecimal test of `scanNumber` fails when the second byte is not `x` -/
theorem hex_false {inp : Array UInt8} {q : Nat} {bs : Bytes} (h : InpAt inp q bs)
    (hx : ∀ a b t, bs = a :: b :: t → b ≠ 120) (st w le its) :
    (if (L tg inp q st w le its).len ≥ (L tg inp q st w le its).pos + 2 then do
        let s ← sliceOf (L tg inp q st w le its).input (L tg inp q st w le its).pos ((L tg inp q st w le its).pos + 2)
        pure (s == [48, 120])
      else pure false : Option Bool) = some false := by
  have hl := inpAt_len h
  have hlen : (L tg inp q st w le its).len = (inp.size : Int) := rfl
  have hpos : (L tg inp q st w le its).pos = (q : Int) := rfl
  have hinp : (L tg inp q st w le its).input = inp := rfl
  split
  · rename_i hge
    rw [hlen, hpos] at hge
    rw [hpos, hinp]
    match bs, h, hx, hl with
    | [], h, hx, hl => simp at hl; omega
    | [a], h, hx, hl => simp at hl; omega
    | a :: b :: t, h, hx, hl =>
      have hb := hx a b t rfl
      have he := inpAt_extract (v := [a, b]) (s := t) h
      unfold sliceOf
      rw [if_pos ⟨by omega, by omega, by omega⟩]
      have : ((q : Int) + 2).toNat = q + 2 := by omega
      simp only [Int.toNat_natCast, this]
      have he2 : (inp.extract q (q + 2)).toList = [a, b] := he
      rw [he2]
      simp [hb]
  · rfl

theorem sign_false {c : UInt8} (h : isDig c = true) :
    indexRune [43, 45] (c.toNat : Int) = false := by
  have := isDig_nat h
  simp only [indexRune, List.contains_eq_mem, List.mem_cons, List.not_mem_nil, or_false, Bool.and_eq_false_iff,
    decide_eq_false_iff_not]
  omega

theorem dot_false {t : Bytes} (ha : AsciiHd t) (h : t.head? ≠ some 46) : indexRune [46] (hdRune t) = false := by
  cases t with
  | nil => exact indexRune_eof _
  | cons b s =>
    simp only [hdRune, indexRune, List.contains_eq_mem, List.mem_cons, List.not_mem_nil, or_false, Bool.and_eq_false_iff,
      decide_eq_false_iff_not]
    right
    intro e
    apply h
    have : b = 46 := UInt8.toNat_inj.mp (by simp; omega)
    simp [this]

/-- `scanNumber` on `[-]digits[.digits][e[+-]digits]` followed by a byte that ends a number -/
theorem scanNumber_shape (T : LexTableOK) {inp st} {sg ds frac ex rest : Bytes}
    (h : InpAt inp st (sg ++ (ds ++ (frac ++ (ex ++ rest)))))
    (hsg : sg = [] ∨ sg = [45]) (hds : ds ≠ []) (hd : AllDig ds) (hf : FracOk frac) (hx : ExpOk ex)
    (hz : frac = [] → NoLeadZero ds) (hr : NumEnd rest) (le its) :
    scanNumber (L tg inp st st 1 le its) =
      some (if frac = [] ∧ ex = [] then .tInteger else .tFloat, true,
        L tg inp (st + sg.length + ds.length + frac.length + ex.length) st (hdW rest) le its) := by
  obtain ⟨d1, ds', rfl⟩ : ∃ d1 ds', ds = d1 :: ds' := by
    cases ds with
    | nil => exact absurd rfl hds
    | cons a b => exact ⟨a, b, rfl⟩
  have hd1 := hd d1 (by simp)
  have hd1n := isDig_nat hd1
  have hd18 : d1 < 128 := by show d1.toNat < 128; omega
  -- positions
  have hq : InpAt inp (st + sg.length) ((d1 :: ds') ++ (frac ++ (ex ++ rest))) := inpAt_append h
  have hq2 : InpAt inp (st + sg.length + (d1 :: ds').length) (frac ++ (ex ++ rest)) := inpAt_append hq
  have hq3 : InpAt inp (st + sg.length + (d1 :: ds').length + frac.length) (ex ++ rest) := inpAt_append hq2
  -- the sign
  have hsign : accept (L tg inp st st 1 le its) [43, 45] = some (decide (sg ≠ []), L tg inp (st + sg.length) st 1 le its) := by
    rcases hsg with rfl | rfl
    · have := accept_no (tg := tg) (rest := d1 :: (ds' ++ (frac ++ (ex ++ rest)))) (by simpa using h) (asciiHd_cons hd18) [43, 45]
        (sign_false hd1) st 1 le its
      simpa [hdW] using this
    · have := accept_yes (tg := tg) (b := 45) (s := (d1 :: ds') ++ (frac ++ (ex ++ rest))) (by simpa using h) (by decide) [43, 45]
        (by decide) st 1 le its
      simpa using this
  -- not hexadecimal
  have hhex := hex_false (tg := tg) (bs := (d1 :: ds') ++ (frac ++ (ex ++ rest))) hq (by
    intro a b t e
    simp only [List.cons_append, List.cons.injEq] at e
    obtain ⟨rfl, e⟩ := e
    have hnd := notDig_tail hf hx hr.1
    cases ds' with
    | cons c r =>
      simp only [List.cons_append, List.cons.injEq] at e
      obtain ⟨rfl, _⟩ := e
      have := isDig_nat (hd c (by simp))
      intro e2; rw [e2] at this; simp at this
    | nil =>
      simp only [List.nil_append] at e
      rcases hf with rfl | ⟨fs, rfl, _, _⟩
      · rcases hx with rfl | ⟨sgn, es, rfl, _, _, _⟩
        · simp only [List.nil_append] at e
          have hw := hr.1
          rw [e] at hw
          intro e2
          rw [e2] at hw
          exact absurd hw.2 (by decide)
        · simp only [List.nil_append, List.cons_append, List.cons.injEq] at e
          obtain ⟨rfl, _⟩ := e
          decide
      · simp only [List.cons_append, List.cons.injEq] at e
        obtain ⟨rfl, _⟩ := e
        decide) st 1 le its
  -- the integer digits
  have hrun := digits_run (tg := tg) (d1 :: ds') hq hd (notDig_tail hf hx hr.1) st 1 le its
  simp only [List.length_cons, Nat.zero_lt_succ, decide_true] at hrun
  unfold scanNumber
  simp only [Option.bind_eq_bind, Option.pure_def] at hhex
  simp only [hsign, Option.bind_eq_bind, Option.pure_def, Option.bind_some, hhex, Bool.false_eq_true, if_false, hrun, Bool.not_true]
  rcases hf with rfl | ⟨fs, rfl, hfs, hfd⟩
  · -- no fraction
    have hnd : (ex ++ rest).head? ≠ some 46 := by
      rcases hx with rfl | ⟨sgn, es, rfl, _, _, _⟩
      · simpa using hr.2
      · simp
    have hdot := accept_no (tg := tg) (rest := ex ++ rest) (by simpa using hq2) (notDigHd_ascii (by simpa using notDig_tail (Or.inl rfl) hx hr.1)) [46]
      (dot_false (notDigHd_ascii (by simpa using notDig_tail (Or.inl rfl) hx hr.1)) hnd) st (hdW ([] ++ (ex ++ rest))) le its
    simp only [hdot, Option.bind_some]
    -- the leading-zero test
    have hzero : (if (!decide (sg ≠ [])) = true then do
          let b ← indexOf (L tg inp (st + sg.length + (ds'.length + 1)) st (hdW (ex ++ rest)) le its).input
            (L tg inp (st + sg.length + (ds'.length + 1)) st (hdW (ex ++ rest)) le its).start
          pure (b == 48 && decide ((L tg inp (st + sg.length + (ds'.length + 1)) st (hdW (ex ++ rest)) le its).pos >
            (L tg inp (st + sg.length + (ds'.length + 1)) st (hdW (ex ++ rest)) le its).start + 1))
        else do
          let b ← indexOf (L tg inp (st + sg.length + (ds'.length + 1)) st (hdW (ex ++ rest)) le its).input
            ((L tg inp (st + sg.length + (ds'.length + 1)) st (hdW (ex ++ rest)) le its).start + 1)
          pure (b == 48 && decide ((L tg inp (st + sg.length + (ds'.length + 1)) st (hdW (ex ++ rest)) le its).pos >
            (L tg inp (st + sg.length + (ds'.length + 1)) st (hdW (ex ++ rest)) le its).start + 2)) : Option Bool) = some false := by
      have hnz := hz rfl
      rcases hsg with rfl | rfl
      · have hi := indexOf_at (b := d1) (s := ds' ++ ([] ++ (ex ++ rest))) (by simpa using h)
        simp only [L, List.length_nil, Nat.add_zero, ne_eq, not_true_eq_false, decide_false, Bool.not_false, if_true, hi,
          Option.bind_eq_bind, Option.bind_some, Option.pure_def, Option.some.injEq, Bool.and_eq_false_iff,
          decide_eq_false_iff_not, beq_eq_false_iff_ne]
        rcases hnz with e | e
        · right
          simp only [List.cons.injEq] at e
          rw [e.2]; simp
        · left; intro e2; apply e; simp [e2]
      · have h1 : InpAt inp (st + 1) (d1 :: (ds' ++ ([] ++ (ex ++ rest)))) := by
          have := inpAt_tail (b := 45) (s := (d1 :: ds') ++ ([] ++ (ex ++ rest))) (by simpa using h)
          simpa using this
        have hi := indexOf_at h1
        have hcast : ((st : Int) + 1) = ((st + 1 : Nat) : Int) := by omega
        simp only [L, List.length_cons, List.length_nil, ne_eq, List.cons_ne_nil, not_false_eq_true, decide_true, Bool.not_true,
          Bool.false_eq_true, if_false, hcast, hi,
          Option.bind_eq_bind, Option.bind_some, Option.pure_def, Option.some.injEq, Bool.and_eq_false_iff,
          decide_eq_false_iff_not, beq_eq_false_iff_ne]
        rcases hnz with e | e
        · right
          simp only [List.cons.injEq] at e
          rw [e.2]; simp; omega
        · left; intro e2; apply e; simp [e2]
    simp only [Option.bind_eq_bind, Option.pure_def] at hzero
    simp only [hzero, Option.bind_some, Bool.false_eq_true, if_false]
    have hexp := scanExp_any (tg := tg) T (ex := ex) (rest := rest) (by simpa using hq3) hx hr.1 .tInteger st (hdW (ex ++ rest)) le its
    rw [hexp]
    simp only [List.length_nil, Nat.add_zero, true_and, List.length_cons]
  · -- a fraction
    have hq2' : InpAt inp (st + sg.length + (d1 :: ds').length) (46 :: (fs ++ (ex ++ rest))) := by simpa using hq2
    have hdot := accept_yes (tg := tg) hq2' (by decide) [46] (by decide) st (hdW (46 :: fs ++ (ex ++ rest))) le its
    simp only [List.length_cons] at hdot
    simp only [hdot, Option.bind_some, if_true]
    have hfrun := digits_run (tg := tg) fs (inpAt_tail hq2') hfd (by simpa using notDig_tail (Or.inl rfl) hx hr.1) st 1 le its
    have hfpos : decide (0 < fs.length) = true := by
      cases fs with
      | nil => exact absurd rfl hfs
      | cons a b => simp
    simp only [List.length_cons, hfpos] at hfrun
    simp only [hfrun, Option.bind_some, Bool.not_true, Bool.false_eq_true, if_false]
    have hexp := scanExp_any (tg := tg) T (ex := ex) (rest := rest) (by
      have := inpAt_append (a := fs) (inpAt_tail hq2'); simpa using this) hx hr.1 .tFloat st (hdW (ex ++ rest)) le its
    try simp only [List.length_cons] at hexp
    rw [hexp]
    simp only [List.cons_ne_nil, false_and, if_false, ite_self, List.length_cons]
    congr 4
    omega

/-- the spelling of a number token: `[-]digits[.digits][e[+-]digits]`, an integer without leading
    zero when there is neither fraction nor exponent (what `scanNumber` accepts in decimal) -/
def NumShape (val : Bytes) (typ : ItemType) : Prop :=
  ∃ sg ds frac ex, val = sg ++ (ds ++ (frac ++ ex)) ∧ (sg = [] ∨ sg = [45]) ∧ ds ≠ [] ∧ AllDig ds ∧
    FracOk frac ∧ ExpOk ex ∧ (frac = [] → NoLeadZero ds) ∧
    typ = (if frac = [] ∧ ex = [] then ItemType.tInteger else ItemType.tFloat)

/-- a number token; a leading `-` needs a previous token after which `-` is unary -/
theorem step_number (T : LexTableOK) {inp p} {val rest : Bytes} {typ : ItemType} (h : InpAt inp p (val ++ rest))
    (hs : NumShape val typ) (hr : NumEnd rest) (le its)
    (hprev : val.head? = some 45 → Gen.unaryMinusAfter.contains le.typ = true) :
    Step2 tg inp p le its ⟨typ, val⟩ := by
  obtain ⟨sg, ds, frac, ex, rfl, hsg, hds, hd, hf, hx, hz, rfl⟩ := hs
  intro w
  have h' : InpAt inp p (sg ++ (ds ++ (frac ++ (ex ++ rest)))) := by simpa using h
  have hscan := scanNumber_shape (tg := tg) T h' hsg hds hd hf hx hz hr le its
  have hlen : p + sg.length + ds.length + frac.length + ex.length = p + (sg ++ (ds ++ (frac ++ ex))).length := by
    simp only [List.length_append]; omega
  rw [hlen] at hscan
  have he := emit_L (tg := tg) h (pe := p + (sg ++ (ds ++ (frac ++ ex))).length) rfl (hdW rest) le its
    (if frac = [] ∧ ex = [] then ItemType.tInteger else ItemType.tFloat)
  refine ⟨hdW rest, .number, L tg inp p p 1 le its, ?_, ?_⟩
  · obtain ⟨d1, ds', rfl⟩ : ∃ d1 ds', ds = d1 :: ds' := by
      cases ds with
      | nil => exact absurd rfl hds
      | cons a b => exact ⟨a, b, rfl⟩
    have hd1n := isDig_nat (hd d1 (by simp))
    have hd18 : d1 < 128 := by show d1.toNat < 128; omega
    rcases hsg with rfl | rfl
    · have h0 : InpAt inp p (d1 :: (ds' ++ (frac ++ (ex ++ rest)))) := by simpa using h'
      simp only [step, lexInsideTag, next_L h0 hd18, Option.bind_eq_bind, Option.bind_some]
      have hsp : isSpaceEOL (d1.toNat : Int) = false := by
        simp only [isSpaceEOL, isSpace, isEndOfLine, Bool.or_eq_false_iff, beq_eq_false_iff_ne]; omega
      simp only [hsp, Bool.false_eq_true, if_false]
      rw [if_neg (by omega)]
      unfold lexInsideTagMid
      rw [if_neg (by omega), if_neg (by omega), if_neg (by omega), if_neg (by omega), if_neg (by omega),
        if_neg (by omega), if_pos (by omega)]
      simp only [Option.pure_def, backup_L]
    · have h0 : InpAt inp p (45 :: (d1 :: (ds' ++ (frac ++ (ex ++ rest))))) := by simpa using h'
      have h1 := inpAt_tail h0
      have hp : (L tg inp (p + 1) p 1 le its).peek = some ((d1.toNat : Int), L tg inp (p + 1) p 1 le its) :=
        peek_hd h1 (asciiHd_cons hd18) p 1 le its
      have hl : (L tg inp (p + 1) p 1 le its).lastEmit = le := rfl
      have hpv := hprev (by simp)
      simp only [step, lexInsideTag, next_L h0 (by decide), Option.bind_eq_bind, Option.bind_some]
      have h48 : (48 : Int) ≤ (d1.toNat : Int) := by omega
      have h57 : (d1.toNat : Int) ≤ 57 := by omega
      have hmem : le.typ ∈ Gen.unaryMinusAfter := by simpa using hpv
      simp [isSpaceEOL, isSpace, isEndOfLine, lexInsideTagMid, lexNegative, hl, hmem, hp, h48, h57, backup_L]
  · simp only [step, lexNumber, hscan, Option.bind_eq_bind, Option.bind_some, Bool.not_true, Bool.false_eq_true, if_false,
      emitInside, he, Option.pure_def, itemOf]
end SoyVerif.Lemmas.LexPrint
