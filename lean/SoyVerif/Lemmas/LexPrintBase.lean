/-
  Exact (functional) behaviour of the lexer primitives on a known input — the base layer of the
  byte-level lemma "lexing the printer's bytes yields the printer's tokens" (Props/C17b.lean).

  * `InpAt inp p s`  the input from byte offset `p` on is exactly `s`;
  * `L tg inp p st w le its`  the lexer record in expression mode (`doubleDelim = false`,
    `tagStart = 0`) with `pos = p`, `start = st`, `width = w`, `lastEmit = le`, `items = its`;
  * one equation per primitive (`next`, `peek`, `backup`, `ignore`, `emit`, `accept`, `scanWhile`,
    `acceptRun`) on such a record, for ASCII bytes / end of input at the position read;
  * `run_step`: one transition of the state machine.
-/
import SoyVerif.Model.Lexer

set_option linter.unusedSimpArgs false
set_option linter.unusedVariables false

namespace SoyVerif.Lemmas.LexPrint
open SoyVerif SoyVerif.Model SoyVerif.Model.Lex

variable {tg : Int}

/-! ### the input from a position on -/

/-- the bytes of `inp` from offset `p` to the end are `s` -/
def InpAt (inp : Array UInt8) (p : Nat) (s : Bytes) : Prop := ∃ pre, inp = (pre ++ s).toArray ∧ pre.length = p

theorem inpAt_zero (s : Bytes) : InpAt s.toArray 0 s := ⟨[], rfl, rfl⟩

theorem inpAt_get {inp p b s} (h : InpAt inp p (b :: s)) : p < inp.size ∧ inp.getD p 0 = b := by
  obtain ⟨pre, rfl, rfl⟩ := h
  simp

theorem inpAt_extract {inp p v s} (h : InpAt inp p (v ++ s)) : (inp.extract p (p + v.length)).toList = v := by
  obtain ⟨pre, rfl, rfl⟩ := h
  simp

theorem inpAt_end {inp p} (h : InpAt inp p []) : p = inp.size := by
  obtain ⟨pre, rfl, rfl⟩ := h
  simp

theorem inpAt_len {inp p s} (h : InpAt inp p s) : p + s.length = inp.size := by
  obtain ⟨pre, rfl, rfl⟩ := h
  simp

theorem inpAt_append {inp p a s} (h : InpAt inp p (a ++ s)) : InpAt inp (p + a.length) s := by
  obtain ⟨pre, rfl, rfl⟩ := h
  exact ⟨pre ++ a, by simp, by simp⟩

theorem inpAt_tail {inp p b s} (h : InpAt inp p (b :: s)) : InpAt inp (p + 1) s :=
  inpAt_append (a := [b]) h

/-! ### the lexer record in expression mode -/

def L (tg : Int) (inp : Array UInt8) (p st : Nat) (w : Int) (le : Item) (its : Array Item) : Lexer :=
  { input := inp, pos := p, start := st, width := w, doubleDelim := false, tagStart := tg, lastEmit := le, items := its }

theorem initLexer_eq (s : Bytes) : initLexer s = L 0 s.toArray 0 0 0 Item.zero #[] := rfl

theorem decode_ascii {inp : Array UInt8} {p : Nat} {b : UInt8} (h : inp.getD p 0 = b) (hb : b < 128) :
    decodeRune inp p = (b.toNat, 1) := by
  unfold decodeRune byteAt
  simp only [h]
  have : b.toNat < 128 := hb
  simp [this]

/-- the rune `next` delivers at the head of `rest` (ASCII bytes only) -/
def hdRune : Bytes → Int
  | [] => -1
  | b :: _ => (b.toNat : Int)

/-- the width `next` records there -/
def hdW : Bytes → Nat
  | [] => 0
  | _ :: _ => 1

/-- the head of `rest`, if any, is an ASCII byte -/
def AsciiHd : Bytes → Prop
  | [] => True
  | b :: _ => b < 128

theorem next_L {inp p b s} (h : InpAt inp p (b :: s)) (hb : b < 128) (st w le its) :
    (L tg inp p st w le its).next = some ((b.toNat : Int), L tg inp (p + 1) st 1 le its) := by
  have ⟨h1, h2⟩ := inpAt_get h
  unfold Lexer.next L Lexer.len
  simp only [Int.toNat_natCast, decode_ascii h2 hb]
  rw [if_neg (by omega), if_neg (by omega)]
  simp

theorem next_eof_L {inp p} (h : InpAt inp p []) (st w le its) :
    (L tg inp p st w le its).next = some (-1, L tg inp p st 0 le its) := by
  have := inpAt_end h
  unfold Lexer.next L Lexer.len
  rw [if_pos (by simp; omega)]
  rfl

/-- `next` at the head of `rest` -/
theorem next_hd {inp p rest} (h : InpAt inp p rest) (ha : AsciiHd rest) (st w le its) :
    (L tg inp p st w le its).next = some (hdRune rest, L tg inp (p + hdW rest) st (hdW rest) le its) := by
  cases rest with
  | nil => exact next_eof_L h st w le its
  | cons b s => exact next_L h ha st w le its

theorem backup_L (inp p st le its) : (L tg inp (p + 1) st 1 le its).backup = L tg inp p st 1 le its := by
  unfold Lexer.backup L; simp

theorem backup_L0 (inp p st le its) : (L tg inp p st 0 le its).backup = L tg inp p st 0 le its := by
  unfold Lexer.backup L; simp

theorem backup_hd (inp p st le its) (rest : Bytes) :
    (L tg inp (p + hdW rest) st (hdW rest) le its).backup = L tg inp p st (hdW rest) le its := by
  cases rest with
  | nil => exact backup_L0 inp p st le its
  | cons b s => exact backup_L inp p st le its

theorem ignore_L (inp p st w le its) : (L tg inp p st w le its).ignore = L tg inp p p w le its := rfl

theorem addPos_L2 (inp p st w le its) : (L tg inp (p + 2) st w le its).addPos (-2) = L tg inp p st w le its := by
  unfold Lexer.addPos L; simp; omega

/-- `peek` at the head of `rest` -/
theorem peek_hd {inp p rest} (h : InpAt inp p rest) (ha : AsciiHd rest) (st w le its) :
    (L tg inp p st w le its).peek = some (hdRune rest, L tg inp p st (hdW rest) le its) := by
  unfold Lexer.peek
  rw [next_hd h ha]
  simp only [Option.bind_eq_bind, Option.bind_some, Option.pure_def, backup_hd]

theorem emit_eq (l : Lexer) (t : ItemType) (v : Bytes) (h0 : 0 ≤ l.start) (h1 : l.start ≤ l.pos) (h2 : l.pos ≤ l.len)
    (hv : (l.input.extract l.start.toNat l.pos.toNat).toList = v) :
    l.emit t = some { l with lastEmit := ⟨t, l.pos.toNat, v⟩, items := l.items.push ⟨t, l.pos.toNat, v⟩, start := l.pos } := by
  unfold Lexer.emit
  simp only [if_neg (show ¬ l.pos > l.len by omega)]
  unfold sliceOf
  simp only [Lexer.len] at h2
  rw [if_pos ⟨h0, h1, h2⟩]
  simp only [hv]

/-- `emit` of the token `v` that starts at `st` and ends at `pe` -/
theorem emit_L {inp st v s} (h : InpAt inp st (v ++ s)) {pe : Nat} (hpe : pe = st + v.length) (w le its) (t : ItemType) :
    (L tg inp pe st w le its).emit t = some (L tg inp pe pe w ⟨t, pe, v⟩ (its.push ⟨t, pe, v⟩)) := by
  subst hpe
  have h1 := inpAt_len h
  have h2 := inpAt_extract h
  rw [emit_eq _ t v]
  · simp only [L, Int.toNat_natCast]
  · simp only [L]; omega
  · simp only [L]; omega
  · simp only [L, Lexer.len, List.length_append] at h1 ⊢; omega
  · simpa only [L, Int.toNat_natCast] using h2

/-- the slice `l.input[l.start:l.pos]` of the token `v` -/
theorem slice_L {inp st v s} (h : InpAt inp st (v ++ s)) {pe : Nat} (hpe : pe = st + v.length) (w le its) :
    sliceOf (L tg inp pe st w le its).input (L tg inp pe st w le its).start (L tg inp pe st w le its).pos = some v := by
  subst hpe
  have h1 := inpAt_len h
  have h2 := inpAt_extract h
  unfold sliceOf
  simp only [L, Int.toNat_natCast, h2]
  rw [if_pos]
  simp only [List.length_append] at h1
  refine ⟨by omega, by omega, by omega⟩

/-! ### scanning loops -/

theorem scanWhile_some {P : Int → Bool} {hp : P eof = false} {l l' : Lexer} {r : Int} (hn : l.next = some (r, l')) :
    scanWhile P hp l = if P r = true then scanWhile P hp l' else some (r, l') := by
  rw [scanWhile]
  split
  · rename_i heq; rw [hn] at heq; exact absurd heq (by simp)
  · rename_i r1 l1 heq
    rw [hn] at heq
    simp only [Option.some.injEq, Prod.mk.injEq] at heq
    obtain ⟨rfl, rfl⟩ := heq
    split <;> rfl

/-- `for P(l.next()) {}` over the ASCII bytes `k` (all in `P`) in front of `rest` (head not in `P`,
    or the end of input): stops after reading the head of `rest` -/
theorem scan_run {P : Int → Bool} {hp : P eof = false} {inp : Array UInt8} :
    ∀ (k : Bytes) {p : Nat} {rest : Bytes}, InpAt inp p (k ++ rest) →
    (∀ b ∈ k, b < 128 ∧ P (b.toNat : Int) = true) → AsciiHd rest → P (hdRune rest) = false →
    ∀ (st : Nat) (w : Int) (le : Item) (its : Array Item),
    scanWhile P hp (L tg inp p st w le its) =
      some (hdRune rest, L tg inp (p + k.length + hdW rest) st (hdW rest) le its)
  | [], p, rest, h, _, ha, hf, st, w, le, its => by
    rw [scanWhile_some (next_hd (by simpa using h) ha st w le its), if_neg (by simp [hf])]
    simp
  | b :: k, p, rest, h, hk, ha, hf, st, w, le, its => by
    have hb := hk b (by simp)
    rw [scanWhile_some (next_L (s := k ++ rest) (by simpa using h) hb.1 st w le its), if_pos hb.2]
    rw [scan_run k (inpAt_tail (by simpa using h)) (fun c hc => hk c (by simp [hc])) ha hf]
    simp only [List.length_cons]
    congr 3
    omega

/-- the same, backed up over the rune that ended the loop -/
theorem scan_run_backup {P : Int → Bool} {hp : P eof = false} {inp : Array UInt8}
    (k : Bytes) {p : Nat} {rest : Bytes} (h : InpAt inp p (k ++ rest))
    (hk : ∀ b ∈ k, b < 128 ∧ P (b.toNat : Int) = true) (ha : AsciiHd rest) (hf : P (hdRune rest) = false)
    (st : Nat) (w : Int) (le : Item) (its : Array Item) :
    ∃ r l', scanWhile P hp (L tg inp p st w le its) = some (r, l') ∧
      l'.backup = L tg inp (p + k.length) st (hdW rest) le its :=
  ⟨_, _, scan_run k h hk ha hf st w le its, backup_hd inp (p + k.length) st le its rest⟩

theorem accept_hd {inp p rest} (h : InpAt inp p rest) (ha : AsciiHd rest) (valid : List Int) (st w le its) :
    accept (L tg inp p st w le its) valid =
      some (if indexRune valid (hdRune rest) = true then (true, L tg inp (p + hdW rest) st (hdW rest) le its)
            else (false, L tg inp p st (hdW rest) le its)) := by
  unfold accept
  rw [next_hd h ha]
  simp only [Option.bind_eq_bind, Option.bind_some, Option.pure_def, backup_hd]
  split <;> rfl

theorem accept_yes {inp p b s} (h : InpAt inp p (b :: s)) (hb : b < 128) (valid : List Int)
    (hv : indexRune valid (b.toNat : Int) = true) (st w le its) :
    accept (L tg inp p st w le its) valid = some (true, L tg inp (p + 1) st 1 le its) := by
  rw [accept_hd h hb]
  simp only [hdRune, hv, if_true, hdW]
  rfl

theorem accept_no {inp p rest} (h : InpAt inp p rest) (ha : AsciiHd rest) (valid : List Int)
    (hv : indexRune valid (hdRune rest) = false) (st w le its) :
    accept (L tg inp p st w le its) valid = some (false, L tg inp p st (hdW rest) le its) := by
  rw [accept_hd h ha]
  simp [hv]

theorem acceptRun_run {inp : Array UInt8} (valid : List Int)
    (k : Bytes) {p : Nat} {rest : Bytes} (h : InpAt inp p (k ++ rest))
    (hk : ∀ b ∈ k, b < 128 ∧ indexRune valid (b.toNat : Int) = true) (ha : AsciiHd rest)
    (hf : indexRune valid (hdRune rest) = false)
    (st : Nat) (w : Int) (le : Item) (its : Array Item) :
    acceptRun (L tg inp p st w le its) valid = some (decide (0 < k.length), L tg inp (p + k.length) st (hdW rest) le its) := by
  unfold acceptRun
  rw [scan_run k h hk ha hf]
  simp only [Option.bind_eq_bind, Option.bind_some, Option.pure_def, backup_hd]
  congr 2
  simp only [L]
  apply decide_eq_decide.mpr
  constructor <;> intro hh <;> omega

/-! ### one transition of the machine -/

theorem run_step {n : Nat} {s s' : St} {l l' : Lexer} (h : step s l = some (some s', l')) :
    run (n + 1) s l = run n s' l' := by
  simp only [run, h]

theorem run_stop {n : Nat} {s : St} {l l' : Lexer} (h : step s l = some (none, l')) :
    run (n + 1) s l = .items l'.items.toList := by
  simp only [run, h]

/-! ### rune classes on ASCII bytes -/

def isIdStart (b : UInt8) : Bool := (97 ≤ b && b ≤ 122) || (65 ≤ b && b ≤ 90) || b == 95
def isDig (b : UInt8) : Bool := 48 ≤ b && b ≤ 57
def isIdChar (b : UInt8) : Bool := isIdStart b || isDig b

theorem isIdStart_nat {b : UInt8} (h : isIdStart b = true) :
    (97 ≤ b.toNat ∧ b.toNat ≤ 122) ∨ (65 ≤ b.toNat ∧ b.toNat ≤ 90) ∨ b.toNat = 95 := by
  simp only [isIdStart, Bool.or_eq_true, Bool.and_eq_true, decide_eq_true_eq, beq_iff_eq] at h
  rcases h with (⟨h1, h2⟩ | ⟨h1, h2⟩) | h
  · exact Or.inl ⟨h1, h2⟩
  · exact Or.inr (Or.inl ⟨h1, h2⟩)
  · subst h; exact Or.inr (Or.inr rfl)

theorem isDig_nat {b : UInt8} (h : isDig b = true) : 48 ≤ b.toNat ∧ b.toNat ≤ 57 := by
  simp only [isDig, Bool.and_eq_true, decide_eq_true_eq] at h
  exact h

theorem isDig_nat_false {b : UInt8} (h : isDig b = false) : b.toNat < 48 ∨ 57 < b.toNat := by
  simp only [isDig, Bool.and_eq_false_iff, decide_eq_false_iff_not] at h
  rcases h with h | h
  · left; exact Nat.lt_of_not_le h
  · right; exact Nat.lt_of_not_le h

theorem isIdChar_nat {b : UInt8} (h : isIdChar b = true) :
    (97 ≤ b.toNat ∧ b.toNat ≤ 122) ∨ (65 ≤ b.toNat ∧ b.toNat ≤ 90) ∨ b.toNat = 95 ∨ (48 ≤ b.toNat ∧ b.toNat ≤ 57) := by
  simp only [isIdChar, Bool.or_eq_true] at h
  rcases h with h | h
  · rcases isIdStart_nat h with h | h | h
    · exact Or.inl h
    · exact Or.inr (Or.inl h)
    · exact Or.inr (Or.inr (Or.inl h))
  · exact Or.inr (Or.inr (Or.inr (isDig_nat h)))

theorem isIdChar_nat_false {b : UInt8} (h : isIdChar b = false) :
    ¬ ((97 ≤ b.toNat ∧ b.toNat ≤ 122) ∨ (65 ≤ b.toNat ∧ b.toNat ≤ 90) ∨ b.toNat = 95 ∨ (48 ≤ b.toNat ∧ b.toNat ≤ 57)) := by
  intro hc
  have : isIdChar b = true := by
    simp only [isIdChar, isIdStart, isDig, Bool.or_eq_true, Bool.and_eq_true, decide_eq_true_eq, beq_iff_eq]
    rcases hc with h | h | h | h
    · exact Or.inl (Or.inl (Or.inl h))
    · exact Or.inl (Or.inl (Or.inr h))
    · exact Or.inl (Or.inr (UInt8.toNat_inj.mp h))
    · exact Or.inr h
  rw [h] at this; exact absurd this (by simp)

end SoyVerif.Lemmas.LexPrint
