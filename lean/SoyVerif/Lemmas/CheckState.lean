/-
  The checker's state-passing walk characterised by pure data: a computation `m : C Unit`
  is `Framed m P T D` when, started in any state whose bindings spell the environment `env`,
  it succeeds iff `P env`, and then the final state is the initial one with the bindings `D`
  declared (unused) and exactly the targets `T env` marked (`after`).  In particular the walk
  never changes names or the number of outer bindings (frame property: `envOf_after`).
-/
import SoyVerif.Model.Check
import SoyVerif.Spec.Valid

namespace SoyVerif.Lemmas.Check
open SoyVerif SoyVerif.Model SoyVerif.Model.Check SoyVerif.Spec

/-! ### running a computation -/

def exec (m : C Unit) (st : CState) : Option CState := (m.run st).map (·.2)

theorem exec_pure (st : CState) : exec (pure ()) st = some st := rfl
theorem exec_reject (st : CState) : exec reject st = none := rfl
theorem exec_bind (a : C Unit) (f : Unit → C Unit) (st : CState) :
    exec (a >>= f) st = (exec a st).bind (fun s => exec (f ()) s) := by
  simp only [exec, StateT.run_bind]
  cases h : a.run st <;> simp [bind, Option.bind]
theorem exec_get_bind (f : CState → C Unit) (st : CState) : exec (get >>= f) st = exec (f st) st := by
  simp [exec, StateT.run_bind, StateT.run_get]
theorem exec_set (s st : CState) : exec (set s) st = some s := rfl
theorem exec_modify (f : CState → CState) (st : CState) : exec (modify f) st = some (f st) := rfl

/-! ### environments, marks -/

/-- the environment a binding stack spells -/
def envOf (vs : List Check.Binding) : Env := vs.map fun v => { name := v.name, isLet := v.isLet }

def fresh (b : Spec.Binding) : Check.Binding := { name := b.name, isLet := b.isLet, used := false }

/-- mark the bindings that are targets in `T` -/
def markAll (T : List Target) (vs : List Check.Binding) : List Check.Binding :=
  vs.mapIdx fun i v => { v with used := v.used || T.contains (.var i) }

def keyOf : Target → Option Bytes
  | .param k => some k
  | _ => none

def keysOf (T : List Target) : List Bytes := T.filterMap keyOf

/-- the state after declaring `D` and marking the targets `T` -/
def after (st : CState) (D : List Spec.Binding) (T : List Target) : CState :=
  { vars := markAll T (st.vars ++ D.map fresh), usedKeys := st.usedKeys ++ keysOf T }

@[simp] theorem envOf_append (a b : List Check.Binding) : envOf (a ++ b) = envOf a ++ envOf b := by
  simp [envOf]

@[simp] theorem envOf_length (a : List Check.Binding) : (envOf a).length = a.length := by simp [envOf]

@[simp] theorem envOf_fresh (D : List Spec.Binding) : envOf (D.map fresh) = D := by
  induction D with
  | nil => rfl
  | cons b r ih => simpa [envOf, fresh] using ih

@[simp] theorem markAll_length (T : List Target) (vs : List Check.Binding) :
    (markAll T vs).length = vs.length := by simp [markAll]

@[simp] theorem envOf_markAll (T : List Target) (vs : List Check.Binding) :
    envOf (markAll T vs) = envOf vs := by
  apply List.ext_getElem?
  intro i
  simp only [envOf, markAll, List.getElem?_map, List.getElem?_mapIdx]
  cases vs[i]? <;> simp

/-- frame property: marking changes neither names nor the number of bindings -/
@[simp] theorem envOf_after (st : CState) (D : List Spec.Binding) (T : List Target) :
    envOf (after st D T).vars = envOf st.vars ++ D := by simp [after]

@[simp] theorem markAll_nil (vs : List Check.Binding) : markAll [] vs = vs := by
  apply List.ext_getElem?
  intro i
  simp only [markAll, List.getElem?_mapIdx]
  cases vs[i]? <;> simp

theorem markAll_markAll (T U : List Target) (vs : List Check.Binding) :
    markAll U (markAll T vs) = markAll (T ++ U) vs := by
  apply List.ext_getElem?
  intro i
  simp only [markAll, List.getElem?_mapIdx]
  cases vs[i]? <;> simp [Bool.or_assoc]

theorem markAll_append (T : List Target) (xs ys : List Check.Binding) :
    markAll T (xs ++ ys)
      = markAll T xs ++ ys.mapIdx fun j v => { v with used := v.used || T.contains (.var (j + xs.length)) } := by
  simp [markAll, List.mapIdx_append]

/-- targets below the stack height do not touch bindings declared later -/
theorem markAll_append_of_below (T : List Target) (xs ys : List Check.Binding)
    (h : ∀ t ∈ T, t.below xs.length = true) : markAll T (xs ++ ys) = markAll T xs ++ ys := by
  rw [markAll_append]
  congr 1
  apply List.ext_getElem?
  intro j
  simp only [List.getElem?_mapIdx]
  cases hy : ys[j]? with
  | none => rfl
  | some v =>
    have : T.contains (.var (j + xs.length)) = false := by
      rw [Bool.eq_false_iff]
      intro hc
      have := h _ (List.contains_iff_mem.mp hc)
      simp [Target.below] at this
      omega
    rw [this]
    simp

theorem markAll_filter_below (T : List Target) (vs : List Check.Binding) :
    markAll (T.filter (Target.below vs.length)) vs = markAll T vs := by
  simp only [markAll]
  rw [List.mapIdx_eq_mapIdx_iff]
  intro i hi
  congr 2
  rw [Bool.eq_iff_iff]
  simp [List.mem_filter, Target.below, hi]

theorem keysOf_append (T U : List Target) : keysOf (T ++ U) = keysOf T ++ keysOf U := by
  simp [keysOf]

theorem keysOf_filter_below (T : List Target) (n : Nat) : keysOf (T.filter (Target.below n)) = keysOf T := by
  induction T with
  | nil => rfl
  | cons t r ih =>
    simp only [keysOf] at ih ⊢
    cases t with
    | ij => simp [List.filter_cons, List.filterMap_cons, Target.below, keyOf, ih]
    | param k => simp [List.filter_cons, Target.below, keyOf, ih]
    | var i =>
      simp only [List.filter_cons, Target.below]
      by_cases h : i < n <;> simp [h, List.filterMap_cons, keyOf, ih]

theorem mem_keysOf {T : List Target} {k : Bytes} : k ∈ keysOf T ↔ Target.param k ∈ T := by
  simp only [keysOf, List.mem_filterMap]
  constructor
  · rintro ⟨t, ht, hk⟩
    cases t <;> simp_all [keyOf]
  · intro h
    exact ⟨_, h, rfl⟩

@[simp] theorem after_nil (st : CState) : after st [] [] = st := by
  simp [after, keysOf]

theorem after_after_nil (st : CState) (D : List Spec.Binding) (T U : List Target) :
    after (after st D T) [] U = after st D (T ++ U) := by
  simp [after, markAll_markAll, keysOf_append]

/-- sequencing when the second computation declares: the first one's targets must lie below -/
theorem after_after (st : CState) (D E : List Spec.Binding) (T U : List Target)
    (h : ∀ t ∈ T, t.below (st.vars.length + D.length) = true) :
    after (after st D T) E U = after st (D ++ E) (T ++ U) := by
  have h' : ∀ t ∈ T, t.below (st.vars ++ D.map fresh).length = true := by simpa using h
  simp only [after, CState.mk.injEq]
  refine ⟨?_, by simp [keysOf_append]⟩
  rw [← markAll_markAll, List.map_append, ← List.append_assoc, markAll_append_of_below T _ _ h']

theorem after_filter_below (st : CState) (T : List Target) :
    after st [] (T.filter (Target.below st.vars.length)) = after st [] T := by
  simp [after, markAll_filter_below, keysOf_filter_below]

/-! ### Framed -/

def Framed (m : C Unit) (P : Env → Prop) (T : Env → List Target) (D : List Spec.Binding) : Prop :=
  ∀ st st', exec m st = some st' ↔ P (envOf st.vars) ∧ st' = after st D (T (envOf st.vars))

theorem Framed.congr {m : C Unit} {P P' : Env → Prop} {T T' : Env → List Target} {D : List Spec.Binding}
    (h : Framed m P T D) (hP : ∀ env, P' env ↔ P env) (hT : ∀ env, T' env = T env) : Framed m P' T' D := by
  intro st st'
  rw [h st st', hP, hT]

theorem Framed.pure : Framed (pure ()) (fun _ => True) (fun _ => []) [] := by
  intro st st'
  simp [exec_pure, eq_comm]

theorem Framed.reject : Framed reject (fun _ => False) (fun _ => []) [] := by
  intro st st'
  simp [exec_reject]

theorem Framed.declare (name : Bytes) (isLet : Bool) :
    Framed (declare name isLet) (fun _ => True) (fun _ => []) [{ name := name, isLet := isLet }] := by
  intro st st'
  simp [Check.declare, exec_modify, after, fresh, keysOf, eq_comm]

/-- sequencing, the second computation declares nothing -/
theorem Framed.seq {a b : C Unit} {P Q : Env → Prop} {T U : Env → List Target} {D : List Spec.Binding}
    (ha : Framed a P T D) (hb : Framed b Q U []) :
    Framed (a >>= fun _ => b) (fun env => P env ∧ Q (env ++ D)) (fun env => T env ++ U (env ++ D)) D := by
  intro st st''
  rw [exec_bind, Option.bind_eq_some_iff]
  constructor
  · rintro ⟨st', h1, h2⟩
    obtain ⟨hp, rfl⟩ := (ha st st').mp h1
    obtain ⟨hq, rfl⟩ := (hb _ st'').mp h2
    simp only [envOf_after] at hq ⊢
    exact ⟨⟨hp, hq⟩, after_after_nil ..⟩
  · rintro ⟨⟨hp, hq⟩, rfl⟩
    refine ⟨_, (ha st _).mpr ⟨hp, rfl⟩, (hb _ _).mpr ⟨?_, ?_⟩⟩
    · simpa using hq
    · simp [after_after_nil]

/-- sequencing in general: the targets of the first computation lie below the bindings it leaves -/
theorem Framed.seqD {a b : C Unit} {P Q : Env → Prop} {T U : Env → List Target} {D E : List Spec.Binding}
    (ha : Framed a P T D) (hb : Framed b Q U E)
    (hT : ∀ env, ∀ t ∈ T env, t.below (env.length + D.length) = true) :
    Framed (a >>= fun _ => b) (fun env => P env ∧ Q (env ++ D)) (fun env => T env ++ U (env ++ D)) (D ++ E) := by
  have hT' : ∀ st : CState, ∀ t ∈ T (envOf st.vars), t.below (st.vars.length + D.length) = true := by
    intro st t ht
    simpa using hT (envOf st.vars) t ht
  intro st st''
  rw [exec_bind, Option.bind_eq_some_iff]
  constructor
  · rintro ⟨st', h1, h2⟩
    obtain ⟨hp, rfl⟩ := (ha st st').mp h1
    obtain ⟨hq, rfl⟩ := (hb _ st'').mp h2
    simp only [envOf_after] at hq ⊢
    exact ⟨⟨hp, hq⟩, after_after _ _ _ _ _ (hT' st)⟩
  · rintro ⟨⟨hp, hq⟩, rfl⟩
    refine ⟨_, (ha st _).mpr ⟨hp, rfl⟩, (hb _ _).mpr ⟨?_, ?_⟩⟩
    · simpa using hq
    · simp [after_after _ _ _ _ _ (hT' st)]

/-! ### leaving a scope -/

/-- every let among the bindings `D` declared at height `n` is a target in `T` -/
def AllUsed (n : Nat) (D : List Spec.Binding) (T : List Target) : Prop :=
  ∀ j b, D[j]? = some b → b.isLet = true → Target.var (n + j) ∈ T

theorem exec_leaveScope (n : Nat) (st : CState) :
    exec (leaveScope n) st =
      if (st.vars.drop n).any (fun v => v.isLet && !v.used) then none
      else some { st with vars := st.vars.take n } := by
  simp only [leaveScope, exec_get_bind]
  split <;> simp [exec_reject, exec_set]

/-- `leaveScope` after declaring `D` and marking `T` on a stack of height `n` -/
theorem exec_leaveScope_after (st : CState) (D : List Spec.Binding) (T : List Target) (st' : CState) :
    exec (leaveScope st.vars.length) (after st D T) = some st'
      ↔ AllUsed st.vars.length D T ∧ st' = after st [] (T.filter (Target.below st.vars.length)) := by
  rw [exec_leaveScope, after_filter_below]
  have hdrop : (after st D T).vars.drop st.vars.length
      = (D.map fresh).mapIdx fun j v => { v with used := v.used || T.contains (.var (j + st.vars.length)) } := by
    simp only [after, markAll_append]
    rw [List.drop_left' (by simp)]
  have htake : (markAll T (st.vars ++ D.map fresh)).take st.vars.length = markAll T st.vars := by
    simp only [markAll_append]
    rw [List.take_left' (by simp)]
  have hany : ((after st D T).vars.drop st.vars.length).any (fun v => v.isLet && !v.used) = false
      ↔ AllUsed st.vars.length D T := by
    rw [hdrop, List.any_eq_false]
    constructor
    · intro h j b hj hb
      have hm := h { fresh b with used := (fresh b).used || T.contains (.var (j + st.vars.length)) } (by
        rw [List.mem_iff_getElem?]
        exact ⟨j, by simp [List.getElem?_mapIdx, hj]⟩)
      simp [fresh, hb] at hm
      rwa [Nat.add_comm]
    · intro h v hv
      rw [List.mem_iff_getElem?] at hv
      obtain ⟨j, hj⟩ := hv
      simp only [List.getElem?_mapIdx, List.getElem?_map] at hj
      cases hD : D[j]? with
      | none => simp [hD] at hj
      | some b =>
        simp [hD] at hj
        subst hj
        cases hb : b.isLet with
        | false => simp [fresh, hb]
        | true =>
          have := h j b hD hb
          rw [Nat.add_comm] at this
          simp [fresh, this]
  by_cases hA : AllUsed st.vars.length D T
  · rw [if_neg (by rw [hany.mpr hA]; simp)]
    simp only [hA, true_and, after, htake, List.append_nil, List.map_nil, Option.some.injEq]
    exact eq_comm
  · have : ((after st D T).vars.drop st.vars.length).any (fun v => v.isLet && !v.used) = true := by
      cases h : ((after st D T).vars.drop st.vars.length).any (fun v => v.isLet && !v.used) with
      | true => rfl
      | false => exact absurd (hany.mp h) hA
    simp [this, hA]

/-- a scope: what the body declared must have been used, and is gone afterwards -/
theorem Framed.scope {m : C Unit} {P : Env → Prop} {T : Env → List Target} {D : List Spec.Binding}
    (h : Framed m P T D) :
    Framed (get >>= fun st => m >>= fun _ => leaveScope st.vars.length)
      (fun env => P env ∧ AllUsed env.length D (T env))
      (fun env => (T env).filter (Target.below env.length)) [] := by
  intro st st''
  rw [exec_get_bind, exec_bind, Option.bind_eq_some_iff]
  constructor
  · rintro ⟨st', h1, h2⟩
    obtain ⟨hp, rfl⟩ := (h st st').mp h1
    rw [exec_leaveScope_after] at h2
    simpa [hp] using h2
  · rintro ⟨⟨hp, hu⟩, rfl⟩
    refine ⟨_, (h st _).mpr ⟨hp, rfl⟩, ?_⟩
    rw [exec_leaveScope_after]
    simpa using hu

theorem AllUsed_nil (n : Nat) (T : List Target) : AllUsed n [] T := by
  intro j b hj
  simp at hj

/-- `inScope` around a computation that declares nothing is transparent -/
theorem Framed.inScope {m : C Unit} {P : Env → Prop} {T : Env → List Target} (h : Framed m P T []) :
    Framed (inScope m) P T [] := by
  intro st st''
  have := h.scope st st''
  simp only [Check.inScope]
  rw [this]
  simp only [AllUsed_nil, and_true]
  rw [envOf_length, after_filter_below]

end SoyVerif.Lemmas.Check
