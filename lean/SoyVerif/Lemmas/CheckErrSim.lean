/-
  The error-reporting walks of Model/CheckErr.lean accept exactly when the walks of Model/Check.lean do,
  and in the same state: `toC` forgets the error, and every function of the walk commutes with it.
-/
import SoyVerif.Model.CheckErr

set_option linter.unusedSimpArgs false
set_option linter.unusedVariables false

namespace SoyVerif.Lemmas.CheckErrSim
open SoyVerif SoyVerif.Model SoyVerif.Model.Check SoyVerif.Model.CheckErr

/-- forget which error -/
def toC {α : Type} (x : CE α) : C α := fun st =>
  match x st with
  | .ok r => some r
  | .error _ => none

theorem toC_pure {α : Type} (a : α) : toC (pure a : CE α) = (pure a : C α) := rfl

theorem toC_bind {α β : Type} (x : CE α) (f : α → CE β) : toC (x >>= f) = (toC x >>= fun a => toC (f a)) := by
  funext st
  simp only [toC, bind, StateT.bind, Except.bind, Option.bind]
  cases x st with
  | error e => rfl
  | ok r => rfl

theorem toC_get : toC (get : CE CState) = (get : C CState) := rfl
theorem toC_set (s : CState) : toC (set s : CE PUnit) = (set s : C PUnit) := rfl
theorem toC_modify (f : CState → CState) : toC (modify f : CE PUnit) = (modify f : C PUnit) := rfl
theorem toC_fail {α : Type} (k : ErrKind) : toC (CheckErr.fail k : CE α) = (reject : C α) := rfl

theorem toC_ite {α : Type} (c : Prop) [Decidable c] (a b : CE α) : toC (if c then a else b) = if c then toC a else toC b := by
  split <;> rfl

theorem filter_isEmpty {α : Type} (p : α → Bool) (l : List α) : (!(l.filter p).isEmpty) = l.any p := by
  induction l with
  | nil => rfl
  | cons a r ih =>
    simp only [List.filter_cons, List.any_cons]
    cases p a <;> simp [ih]

theorem map_filter_isEmpty {α β : Type} (p : α → Bool) (f : α → β) (l : List α) :
    (!((l.filter p).map f).isEmpty) = l.any p := by
  rw [← filter_isEmpty]; cases l.filter p <;> rfl

theorem toC_leaveScope (outer : Nat) : toC (leaveScopeE outer) = leaveScope outer := by
  funext st
  simp only [leaveScopeE, leaveScope, toC, bind, StateT.bind, get, getThe, MonadStateOf.get, StateT.get, pure, Except.pure,
    Except.bind, Option.bind, map_filter_isEmpty]
  cases h : (st.vars.drop outer).any (fun v => v.isLet && !v.used) <;> simp [h, CheckErr.fail, reject, set, StateT.set, pure, Except.pure]

theorem toC_visitKey (params : List Bytes) (key : Bytes) : toC (visitKeyE params key) = visitKey params key := by
  funext st
  unfold visitKeyE visitKey
  by_cases hk : (key == [105, 106]) = true
  · simp only [hk, if_true]; rfl
  · simp only [hk, if_false, Bool.false_eq_true]
    simp only [toC, bind, StateT.bind, get, getThe, MonadStateOf.get, StateT.get, pure, Except.pure, Except.bind, Option.bind]
    cases hm : markUsed key st.vars with
    | some v => simp [hm, set, StateT.set, pure, Except.pure]
    | none =>
      cases hc : params.contains key <;> simp [hm, hc, set, StateT.set, pure, Except.pure, CheckErr.fail, reject]

theorem toC_checkLet (name : Bytes) : toC (checkLetE name) = checkLet name := by
  unfold checkLetE checkLet
  split <;> rfl

theorem toC_checkLoopFunc (name : Bytes) (args : ExprList) :
    toC (checkLoopFuncE name args) = checkLoopFunc args := by
  funext st
  unfold checkLoopFuncE checkLoopFunc
  cases loopArg args with
  | none => rfl
  | some key =>
    simp only [toC, bind, StateT.bind, get, getThe, MonadStateOf.get, StateT.get, pure, Except.pure, Except.bind,
      Option.bind]
    cases isLoopVar st.vars key <;> rfl

theorem toC_declare (name : Bytes) (isLet : Bool) : toC (declareE name isLet) = declare name isLet := rfl

section
variable (reg : List Template) (params : List Bytes)

theorem toC_checkCall (name : Bytes) (allData hasData : Bool) (pk : List Bytes) :
    toC (checkCallE reg params name allData hasData pk) = checkCall reg params name allData hasData pk := by
  unfold checkCallE checkCall
  cases hf : reg.find? (fun t => t.name == name) with
  | none => rfl
  | some callee =>
    simp only [toC_bind, toC_modify]
    congr 1
    funext _
    simp only [filter_isEmpty, toC_ite, toC_fail, toC_pure]

mutual
  theorem toC_checkExpr : ∀ e : Expr, toC (checkExprE params e) = checkExpr params e
    | .null _ => by unfold checkExprE checkExpr; rfl
    | .bool _ _ => by unfold checkExprE checkExpr; rfl
    | .int _ _ => by unfold checkExprE checkExpr; rfl
    | .float _ _ => by unfold checkExprE checkExpr; rfl
    | .str _ _ _ => by unfold checkExprE checkExpr; rfl
    | .global _ _ => by unfold checkExprE checkExpr; rfl
    | .dataRef _ key acc => by
      unfold checkExprE checkExpr
      simp only [toC_bind, toC_visitKey, toC_get, toC_leaveScope, toC_checkAccesses acc]
    | .func _ name args => by
      unfold checkExprE checkExpr
      simp only [toC_bind, toC_ite, toC_pure, toC_checkLoopFunc, toC_checkExprs args]
    | .list _ items => by unfold checkExprE checkExpr; exact toC_checkExprs items
    | .map _ items => by unfold checkExprE checkExpr; exact toC_checkMapItems items
    | .not _ a => by unfold checkExprE checkExpr; exact toC_checkExpr a
    | .neg _ a => by unfold checkExprE checkExpr; exact toC_checkExpr a
    | .bin _ _ a b => by
      unfold checkExprE checkExpr
      simp only [toC_bind, toC_checkExpr a, toC_checkExpr b]
    | .tern _ c a b => by
      unfold checkExprE checkExpr
      simp only [toC_bind, toC_checkExpr c, toC_checkExpr a, toC_checkExpr b]
  theorem toC_checkExprs : ∀ l : ExprList, toC (checkExprsE params l) = checkExprs params l
    | .nil => by unfold checkExprsE checkExprs; rfl
    | .cons e r => by
      unfold checkExprsE checkExprs
      simp only [toC_bind, toC_checkExpr e, toC_checkExprs r]
  theorem toC_checkMapItems : ∀ l : MapItems, toC (checkMapItemsE params l) = checkMapItems params l
    | .nil => by unfold checkMapItemsE checkMapItems; rfl
    | .cons _ e r => by
      unfold checkMapItemsE checkMapItems
      simp only [toC_bind, toC_checkExpr e, toC_checkMapItems r]
  theorem toC_checkAccesses : ∀ l : AccessList, toC (checkAccessesE params l) = checkAccesses params l
    | .nil => by unfold checkAccessesE checkAccesses; rfl
    | .cons (.expr _ _ e) r => by
      unfold checkAccessesE checkAccesses
      simp only [toC_bind, toC_checkExpr e, toC_checkAccesses r]
    | .cons (.key _ _ _) r => by
      unfold checkAccessesE checkAccesses
      simp only [toC_bind, toC_pure, toC_checkAccesses r]
    | .cons (.index _ _ _) r => by
      unfold checkAccessesE checkAccesses
      simp only [toC_bind, toC_pure, toC_checkAccesses r]
end

theorem toC_checkOptExpr : ∀ e : Option Expr, toC (checkOptExprE params e) = checkOptExpr params e
  | none => rfl
  | some e => toC_checkExpr params e

theorem toC_checkExprList : ∀ l : List Expr, toC (checkExprListE params l) = checkExprList params l
  | [] => rfl
  | e :: r => by
    unfold checkExprListE checkExprList
    simp only [toC_bind, toC_checkExpr params e, toC_checkExprList r]

theorem toC_inScope (x : CE Unit) (y : C Unit) (h : toC x = y) : toC (inScopeE x) = inScope y := by
  unfold inScopeE inScope
  simp only [toC_bind, toC_get, toC_leaveScope, h]

end

section
variable (reg : List Template) (params : List Bytes)

mutual
  theorem toC_checkCmd : ∀ c : Cmd, toC (checkCmdE reg params c) = checkCmd reg params c
    | .rawText .. => by unfold checkCmdE checkCmd; rfl
    | .debugger .. => by unfold checkCmdE checkCmd; rfl
    | .print _ a dirs => by
      unfold checkCmdE checkCmd
      exact toC_inScope _ _ (by simp only [toC_bind, toC_checkExpr params a, toC_checkDirs dirs])
    | .msg _ _ _ _ _ body => by
      unfold checkCmdE checkCmd
      exact toC_inScope _ _ (toC_checkParts body)
    | .css _ e _ => by
      unfold checkCmdE checkCmd
      exact toC_inScope _ _ (toC_checkOptExpr params e)
    | .log _ b => by
      unfold checkCmdE checkCmd
      exact toC_inScope _ _ (toC_checkBlock b)
    | .ifc _ conds => by
      unfold checkCmdE checkCmd
      exact toC_inScope _ _ (toC_checkConds conds)
    | .forc _ v l b none => by
      unfold checkCmdE checkCmd
      simp only [toC_bind, toC_checkExpr params l, toC_get, toC_declare, toC_checkBlock b, toC_leaveScope, toC_pure]
    | .forc _ v l b (some ie) => by
      unfold checkCmdE checkCmd
      simp only [toC_bind, toC_checkExpr params l, toC_get, toC_declare, toC_checkBlock b, toC_leaveScope, toC_checkBlock ie]
    | .switch _ v cases => by
      unfold checkCmdE checkCmd
      exact toC_inScope _ _ (by simp only [toC_bind, toC_checkExpr params v, toC_checkCases cases])
    | .call _ name allData d ps => by
      unfold checkCmdE checkCmd
      simp only [toC_bind, toC_checkCall]
      congr 1
      funext _
      exact toC_inScope _ _ (by simp only [toC_bind, toC_checkOptExpr params d, toC_checkParams ps])
    | .letValue _ name e => by
      unfold checkCmdE checkCmd
      simp only [toC_bind, toC_checkLet, toC_declare, toC_inScope _ _ (toC_checkExpr params e)]
    | .letContent _ name b => by
      unfold checkCmdE checkCmd
      simp only [toC_bind, toC_checkLet, toC_declare, toC_inScope _ _ (toC_checkBlock b)]
    | .headerParam .. => by unfold checkCmdE checkCmd; rfl
    | .namespace .. => by unfold checkCmdE checkCmd; rfl
    | .template _ _ b _ _ => by
      unfold checkCmdE checkCmd
      exact toC_inScope _ _ (toC_checkBlock b)
    | .soyDoc .. => by unfold checkCmdE checkCmd; rfl
  theorem toC_checkBlock : ∀ b : Block, toC (checkBlockE reg params b) = checkBlock reg params b
    | .mk _ cmds => by
      unfold checkBlockE checkBlock
      simp only [toC_bind, toC_get, toC_leaveScope, toC_checkCmds cmds]
  theorem toC_checkCmds : ∀ cs : CmdList, toC (checkCmdsE reg params cs) = checkCmds reg params cs
    | .nil => by unfold checkCmdsE checkCmds; rfl
    | .cons c r => by
      unfold checkCmdsE checkCmds
      simp only [toC_bind, toC_checkCmd c, toC_checkCmds r]
  theorem toC_checkDirs : ∀ ds : List Directive, toC (checkDirsE reg params ds) = checkDirs reg params ds
    | [] => by unfold checkDirsE checkDirs; rfl
    | d :: r => by
      unfold checkDirsE checkDirs
      simp only [toC_bind, toC_inScope _ _ (toC_checkExprList params d.args), toC_checkDirs r]
  theorem toC_checkConds : ∀ cs : CondList, toC (checkCondsE reg params cs) = checkConds reg params cs
    | .nil => by unfold checkCondsE checkConds; rfl
    | .cons _ c b r => by
      unfold checkCondsE checkConds
      have h : toC (do checkOptExprE params c; checkBlockE reg params b) = (do checkOptExpr params c; checkBlock reg params b) := by
        simp only [toC_bind, toC_checkOptExpr params c, toC_checkBlock b]
      simp only [toC_bind, toC_inScope _ _ h, toC_checkConds r]
  theorem toC_checkCases : ∀ cs : CaseList, toC (checkCasesE reg params cs) = checkCases reg params cs
    | .nil => by unfold checkCasesE checkCases; rfl
    | .cons _ vs b r => by
      unfold checkCasesE checkCases
      have h : toC (do checkBlockE reg params b; checkExprListE params vs) = (do checkBlock reg params b; checkExprList params vs) := by
        simp only [toC_bind, toC_checkExprList params vs, toC_checkBlock b]
      simp only [toC_bind, toC_inScope _ _ h, toC_checkCases r]
  theorem toC_checkParams : ∀ ps : ParamList, toC (checkParamsE reg params ps) = checkParams reg params ps
    | .nil => by unfold checkParamsE checkParams; rfl
    | .value _ _ e r => by
      unfold checkParamsE checkParams
      simp only [toC_bind, toC_inScope _ _ (toC_checkExpr params e), toC_checkParams r]
    | .content _ _ b r => by
      unfold checkParamsE checkParams
      simp only [toC_bind, toC_inScope _ _ (toC_checkBlock b), toC_checkParams r]
  theorem toC_checkParts : ∀ ps : MsgParts, toC (checkPartsE reg params ps) = checkParts reg params ps
    | .nil => by unfold checkPartsE checkParts; rfl
    | .text _ _ r => by unfold checkPartsE checkParts; exact toC_checkParts r
    | .ph _ _ (.htmlTag ..) r => by
      unfold checkPartsE checkParts
      simp only [toC_bind, toC_inScope _ _ (toC_pure ()), toC_checkParts r]
    | .ph _ _ (.cmd c) r => by
      unfold checkPartsE checkParts
      simp only [toC_bind, toC_inScope _ _ (toC_checkCmd c), toC_checkParts r]
    | .plural _ _ v cases _ d r => by
      unfold checkPartsE checkParts
      have h : toC (do checkExprE params v; checkPlCasesE reg params cases; inScopeE (checkPartsE reg params d)) =
          (do checkExpr params v; checkPlCases reg params cases; inScope (checkParts reg params d)) := by
        simp only [toC_bind, toC_checkExpr params v, toC_checkPlCases cases, toC_inScope _ _ (toC_checkParts d)]
      simp only [toC_bind, toC_inScope _ _ h, toC_checkParts r]
  theorem toC_checkPlCases : ∀ cs : PluralCases, toC (checkPlCasesE reg params cs) = checkPlCases reg params cs
    | .nil => by unfold checkPlCasesE checkPlCases; rfl
    | .cons _ _ _ b r => by
      unfold checkPlCasesE checkPlCases
      simp only [toC_bind, toC_inScope _ _ (toC_inScope _ _ (toC_checkParts b)), toC_checkPlCases r]
end

end

/-- one template: the error-reporting check succeeds exactly when the Boolean check does -/
theorem checkOneE_ok_iff (reg : List Template) (t : Template) : checkOneE reg t = .ok () ↔ checkOne reg t = true := by
  have h := toC_inScope _ _ (toC_checkBlock reg (t.params.map (·.name)) t.body)
  have hrun := congrFun h { vars := [], usedKeys := [] }
  unfold checkOneE checkOne
  simp only [StateT.run]
  simp only [toC] at hrun
  rw [← hrun]
  cases hx : inScopeE (checkBlockE reg (t.params.map (·.name)) t.body) { vars := [], usedKeys := [] } with
  | error k => simp
  | ok r =>
    obtain ⟨u, st⟩ := r
    simp only
    have := filter_isEmpty (fun p => !st.usedKeys.contains p) (t.params.map (·.name))
    cases hu : ((t.params.map (·.name)).filter (fun p => !st.usedKeys.contains p)).isEmpty
    · rw [hu] at this
      simp only [Bool.not_false] at this
      simp only [hu, Bool.not_false, if_true]
      constructor
      · intro hh; cases hh
      · intro hh
        rw [List.all_eq_true] at hh
        obtain ⟨p, hp, hpn⟩ := List.any_eq_true.1 this.symm
        have := hh p hp
        exact absurd (by simpa using this) (by simpa using hpn)
    · rw [hu] at this
      simp only [Bool.not_true] at this
      simp only [hu, Bool.not_true, Bool.false_eq_true, if_false, true_iff]
      rw [List.all_eq_true]
      intro p hp
      have hn := List.any_eq_false.1 this.symm p hp
      simpa using hn

end SoyVerif.Lemmas.CheckErrSim
