/-
  A small program logic for the parser models (`Model/Parser.lean`, `Model/FileParser.lean`)
  used to prove that they TERMINATE (never `fuelOut`) and that every error they report is
  positioned at one of the tokens they were given (or at the zero item of the closed
  channel).

  * `stream st` — the tokens the parser will see next: the backed-up ones, then the channel;
    `mu st` — how many of them are real (type other than `tInvalid`, the type of the zero item
    a closed channel yields): the termination measure;
    `top st` — the token `t.backup()` would push back (the one `next` returned last).
  * `PSafe AP S x st Q` — running `x` from `st` either returns a value and a state satisfying
    `Q`, or fails with an error positioned at an `S`-token, or panics; it does NOT run out
    of fuel.
-/
import SoyVerif.Model.FileParser

set_option linter.unusedSimpArgs false
set_option linter.unusedVariables false

namespace SoyVerif.Lemmas.ParserSafe
open SoyVerif SoyVerif.Model SoyVerif.Model.Parser

/-! ### the stream view of a parser state -/

def real (it : Item) : Nat := if it.typ = .tInvalid then 0 else 1

def pending (st : PState) : List Item :=
  if st.peekCount = 0 then [] else if st.peekCount = 1 then [st.tok0] else [st.tok1, st.tok0]

def stream (st : PState) : List Item := pending st ++ st.rest

def cnt : List Item → Nat
  | [] => 0
  | x :: r => real x + cnt r

def mu (st : PState) : Nat := cnt (stream st)

/-- the token at `t.token[t.peekCount]` -/
def top (st : PState) : Item := if st.peekCount = 0 then st.tok0 else st.tok1

/-- the next token to be delivered is `it` -/
def Hd (st : PState) (it : Item) : Prop := ∃ s, stream st = it :: s

/-- all tokens in the state satisfy `S` -/
def TokS (S : Item → Prop) (st : PState) : Prop := S st.tok0 ∧ S st.tok1 ∧ ∀ x ∈ st.rest, S x

/-- with "EOF only last" (`EL`): the channel holds no EOF item except possibly its last one,
    and once an EOF item has been received the channel is empty -/
def EofJ (st : PState) : Prop :=
  (∀ x ∈ st.rest.dropLast, x.typ ≠ .tEOF) ∧ (st.tok0.typ = .tEOF → st.rest = []) ∧ (st.tok1.typ = .tEOF → st.rest = [])

/-- invariant: at most two tokens are backed up, all tokens are `S`-tokens (and `EofJ` under `EL`) -/
def Inv (EL : Prop) (S : Item → Prop) (st : PState) : Prop := st.peekCount ≤ 2 ∧ (EL → EofJ st) ∧ TokS S st

theorem eofJ_pop {st : PState} {x : Item} {r : List Item} (h : EofJ st) (hr : st.rest = x :: r) :
    EofJ { st with rest := r, tok0 := x } := by
  obtain ⟨h1, h2, h3⟩ := h
  rw [hr] at h1 h2 h3
  refine ⟨?_, ?_, ?_⟩
  · intro y hy
    apply h1 y
    cases r with
    | nil => simp at hy
    | cons z r' => simp only [List.dropLast_cons₂, List.mem_cons]; exact Or.inr hy
  · intro hx
    cases r with
    | nil => rfl
    | cons z r' => exact absurd hx (h1 x (by simp [List.dropLast]))
  · intro ht; exact absurd (h3 ht) (by simp)

theorem eofJ_pop_peek {st : PState} {x : Item} {r : List Item} (h : EofJ st) (hr : st.rest = x :: r) :
    EofJ { st with rest := r, peekCount := 1, tok0 := x } := eofJ_pop (st := st) h hr

theorem eofJ_zero {st : PState} (h : EofJ st) (hr : st.rest = []) : EofJ { st with tok0 := Item.zero } := by
  obtain ⟨h1, h2, h3⟩ := h
  exact ⟨h1, fun _ => hr, h3⟩

theorem cnt_append (a b : List Item) : cnt (a ++ b) = cnt a + cnt b := by
  induction a with
  | nil => simp [cnt]
  | cons x r ih => simp [cnt, ih]; omega

theorem real_le (it : Item) : real it ≤ 1 := by unfold real; split <;> omega
theorem real_zero : real Item.zero = 0 := by simp [real, Item.zero]

/-! ### the judgement -/

def PosOK (S : Item → Prop) (p : Nat) : Prop := ∃ it, S it ∧ it.pos = p

def PSafe {α : Type} (AP : Prop) (S : Item → Prop) (x : P α) (st : PState) (Q : α → PState → Prop) : Prop :=
  match x st with
  | .ok (a, st') => Q a st'
  | .error (.err p) => PosOK S p
  | .error .panic => AP
  | .error .fuelOut => False

theorem bind_run {α β : Type} (x : P α) (f : α → P β) (st : PState) :
    (x >>= f) st = match x st with
      | .ok (a, s) => f a s
      | .error e => .error e := by
  show StateT.bind x f st = _
  unfold StateT.bind
  cases x st with
  | error e => rfl
  | ok r => obtain ⟨a, s⟩ := r; rfl

theorem PSafe.bind {α β : Type} {S : Item → Prop} {x : P α} {f : α → P β} {st : PState}
    {Q : β → PState → Prop} (h : PSafe AP S x st (fun a st' => PSafe AP S (f a) st' Q)) :
    PSafe AP S (x >>= f) st Q := by
  unfold PSafe at h ⊢
  rw [bind_run]
  cases hx : x st with
  | error e =>
    rw [hx] at h
    cases e <;> simpa using h
  | ok r =>
    obtain ⟨a, st'⟩ := r
    rw [hx] at h
    exact h

theorem PSafe.pure {α : Type} {S : Item → Prop} {a : α} {st : PState} {Q : α → PState → Prop}
    (h : Q a st) : PSafe AP S (pure a : P α) st Q := h

theorem PSafe.mono {α : Type} {S : Item → Prop} {x : P α} {st : PState} {Q Q' : α → PState → Prop}
    (h : PSafe AP S x st Q) (hq : ∀ a st', Q a st' → Q' a st') : PSafe AP S x st Q' := by
  unfold PSafe at h ⊢
  split <;> simp_all

theorem PSafe.fail_panic {α : Type} {AP : Prop} {S : Item → Prop} {st : PState} {Q : α → PState → Prop}
    (h : AP) : PSafe AP S (fail PErr.panic : P α) st Q := h

/-! ### primitives -/

theorem inv_init (S : Item → Prop) (items : List Item) (hz : S Item.zero) (hs : ∀ x ∈ items, S x)
    (hel : EL → ∀ x ∈ items.dropLast, x.typ ≠ .tEOF) :
    Inv EL S (initState items) :=
  ⟨by simp [initState], fun h => ⟨hel h, fun h0 => by simp [initState, Item.zero] at h0, fun h0 => by simp [initState, Item.zero] at h0⟩, hz, hz, hs⟩

theorem mu_init (items : List Item) : mu (initState items) ≤ items.length := by
  simp only [mu, stream, pending, initState, if_true, List.nil_append]
  induction items with
  | nil => simp [cnt]
  | cons x r ih => simp only [cnt, List.length_cons]; have := real_le x; omega

/-- `t.next()` -/
theorem next_safe {S : Item → Prop} {st : PState} {Q : Item → PState → Prop} (hz : S Item.zero)
    (hi : Inv EL S st)
    (hq : ∀ it st', Inv EL S st' → S it → st'.peekCount = st.peekCount - 1 → top st' = it → mu st' + real it = mu st →
      (∀ x, Hd st x → it = x) → Q it st') :
    PSafe AP S next st Q := by
  obtain ⟨hpc, hj, h0, h1, hr⟩ := hi
  unfold PSafe
  by_cases hp0 : st.peekCount = 0
  · cases hrest : st.rest with
    | nil =>
      have : next st = .ok (Item.zero, { st with tok0 := Item.zero }) := by
        simp [next, bind, StateT.bind, get, getThe, MonadStateOf.get, StateT.get, set, StateT.set, MonadStateOf.set, modify, modifyGet, MonadStateOf.modifyGet, StateT.modifyGet, pure, StateT.pure, Except.pure, Except.bind, nextItem, tokenAt, hp0, hrest]
      rw [this]
      apply hq
      · exact ⟨by simp [hp0], fun h => eofJ_zero (hj h) hrest, hz, h1, by simp [hrest]⟩
      · exact hz
      · simp [hp0]
      · simp [top, hp0]
      · simp [mu, stream, pending, hp0, hrest, cnt, real_zero]
      · intro x ⟨s, hs⟩; simp [stream, pending, hp0, hrest] at hs
    | cons x r =>
      have : next st = .ok (x, { st with rest := r, tok0 := x }) := by
        simp [next, bind, StateT.bind, get, getThe, MonadStateOf.get, StateT.get, set, StateT.set, MonadStateOf.set, modify, modifyGet, MonadStateOf.modifyGet, StateT.modifyGet, pure, StateT.pure, Except.pure, Except.bind, nextItem, tokenAt, hp0, hrest]
      rw [this]
      have hx : S x := hr x (by simp [hrest])
      apply hq
      · exact ⟨by simp [hp0], fun h => eofJ_pop (hj h) hrest, hx, h1, fun y hy => hr y (by simp [hrest, hy])⟩
      · exact hx
      · simp [hp0]
      · simp [top, hp0]
      · simp [mu, stream, pending, hp0, hrest, cnt]; omega
      · intro y ⟨s, hs⟩; simp [stream, pending, hp0, hrest] at hs; exact hs.1
  · by_cases hp1 : st.peekCount = 1
    · have : next st = .ok (st.tok0, { st with peekCount := 0 }) := by
        simp [next, bind, StateT.bind, get, getThe, MonadStateOf.get, StateT.get, set, StateT.set, MonadStateOf.set, modify, modifyGet, MonadStateOf.modifyGet, StateT.modifyGet, pure, StateT.pure, Except.pure, Except.bind, nextItem, tokenAt, hp1]
      rw [this]
      apply hq
      · exact ⟨by simp, hj, h0, h1, hr⟩
      · exact h0
      · simp [hp1]
      · simp [top]
      · simp [mu, stream, pending, hp1, cnt]; omega
      · intro y ⟨s, hs⟩; simp [stream, pending, hp1] at hs; exact hs.1
    · have hp2 : st.peekCount = 2 := by omega
      have : next st = .ok (st.tok1, { st with peekCount := 1 }) := by
        simp [next, bind, StateT.bind, get, getThe, MonadStateOf.get, StateT.get, set, StateT.set, MonadStateOf.set, modify, modifyGet, MonadStateOf.modifyGet, StateT.modifyGet, pure, StateT.pure, Except.pure, Except.bind, nextItem, tokenAt, hp2]
      rw [this]
      apply hq
      · exact ⟨by simp, hj, h0, h1, hr⟩
      · exact h1
      · simp [hp2]
      · simp [top]
      · simp [mu, stream, pending, hp2, cnt]; omega
      · intro y ⟨s, hs⟩; simp [stream, pending, hp2] at hs; exact hs.1

/-- `t.backup()` right after a `next` (at most one token was backed up) -/
theorem backup_safe {S : Item → Prop} {st : PState} {Q : Unit → PState → Prop}
    (hi : Inv EL S st) (hpc : st.peekCount ≤ 1)
    (hq : ∀ st', Inv EL S st' → mu st' = mu st + real (top st) → Hd st' (top st) → Q () st') :
    PSafe AP S backup st Q := by
  obtain ⟨_, hj, h0, h1, hr⟩ := hi
  have : backup st = .ok ((), { st with peekCount := st.peekCount + 1 }) := rfl
  unfold PSafe
  rw [this]
  apply hq
  · exact ⟨by simp; omega, hj, h0, h1, hr⟩
  · by_cases hp0 : st.peekCount = 0
    · simp [mu, stream, pending, hp0, top, cnt]; omega
    · have hp1 : st.peekCount = 1 := by omega
      simp [mu, stream, pending, hp1, top, cnt]; omega
  · by_cases hp0 : st.peekCount = 0
    · exact ⟨st.rest, by simp [stream, pending, hp0, top]⟩
    · have hp1 : st.peekCount = 1 := by omega
      exact ⟨st.tok0 :: st.rest, by simp [stream, pending, hp1, top]⟩


/-- `t.backup2(t1)` after two `next`s (nothing is backed up) -/
theorem backup2_safe {S : Item → Prop} {st : PState} {t1 : Item} {Q : Unit → PState → Prop}
    (hi : Inv EL S st) (ht : S t1) (hne : t1.typ ≠ .tEOF) (hpc : st.peekCount = 0)
    (hq : ∀ st', Inv EL S st' → mu st' = mu st + real t1 + real (top st) → Hd st' t1 → Q () st') :
    PSafe AP S (backup2 t1) st Q := by
  obtain ⟨_, hj, h0, h1, hr⟩ := hi
  have : backup2 t1 st = .ok ((), { st with tok1 := t1, peekCount := 2 }) := rfl
  unfold PSafe
  rw [this]
  apply hq
  · exact ⟨by simp, fun h => ⟨(hj h).1, (hj h).2.1, fun h' => absurd h' hne⟩, h0, ht, hr⟩
  · simp [mu, stream, pending, hpc, top, cnt]; omega
  · exact ⟨st.tok0 :: st.rest, by simp [stream, pending]⟩

/-- `t.peek()` -/
theorem peek_safe {S : Item → Prop} {st : PState} {Q : Item → PState → Prop} (hz : S Item.zero)
    (hi : Inv EL S st)
    (hq : ∀ it st', Inv EL S st' → S it → mu st' = mu st → Hd st' it → 1 ≤ st'.peekCount → Q it st') :
    PSafe AP S peek st Q := by
  obtain ⟨hpc, hj, h0, h1, hr⟩ := hi
  unfold PSafe
  by_cases hp0 : st.peekCount = 0
  · cases hrest : st.rest with
    | nil =>
      have : peek st = .ok (Item.zero, { st with peekCount := 1, tok0 := Item.zero }) := by
        simp [peek, bind, StateT.bind, get, getThe, MonadStateOf.get, StateT.get, set, StateT.set, MonadStateOf.set, modify, modifyGet, MonadStateOf.modifyGet, StateT.modifyGet, pure, StateT.pure, Except.pure, Except.bind, nextItem, tokenAt, hp0, hrest]
      rw [this]
      apply hq
      · exact ⟨by simp, fun h => eofJ_zero (st := { st with peekCount := 1 }) (hj h) hrest, hz, h1, by simp [hrest]⟩
      · exact hz
      · simp [mu, stream, pending, hp0, hrest, cnt, real_zero]
      · exact ⟨[], by simp [stream, pending, hrest]⟩
      · simp
    | cons x r =>
      have : peek st = .ok (x, { st with rest := r, peekCount := 1, tok0 := x }) := by
        simp [peek, bind, StateT.bind, get, getThe, MonadStateOf.get, StateT.get, set, StateT.set, MonadStateOf.set, modify, modifyGet, MonadStateOf.modifyGet, StateT.modifyGet, pure, StateT.pure, Except.pure, Except.bind, nextItem, tokenAt, hp0, hrest]
      rw [this]
      have hx : S x := hr x (by simp [hrest])
      apply hq
      · exact ⟨by simp, fun h => eofJ_pop_peek (hj h) hrest, hx, h1, fun y hy => hr y (by simp [hrest, hy])⟩
      · exact hx
      · simp [mu, stream, pending, hp0, hrest, cnt]
      · exact ⟨r, by simp [stream, pending]⟩
      · simp
  · by_cases hp1 : st.peekCount = 1
    · have : peek st = .ok (st.tok0, st) := by
        simp [peek, bind, StateT.bind, get, getThe, MonadStateOf.get, StateT.get, pure, StateT.pure, Except.pure, Except.bind, tokenAt, hp1]
      rw [this]
      exact hq _ _ ⟨hpc, hj, h0, h1, hr⟩ h0 rfl ⟨st.rest, by simp [stream, pending, hp1]⟩ (by omega)
    · have hp2 : st.peekCount = 2 := by omega
      have : peek st = .ok (st.tok1, st) := by
        simp [peek, bind, StateT.bind, get, getThe, MonadStateOf.get, StateT.get, pure, StateT.pure, Except.pure, Except.bind, tokenAt, hp2]
      rw [this]
      exact hq _ _ ⟨hpc, hj, h0, h1, hr⟩ h1 rfl ⟨st.tok0 :: st.rest, by simp [stream, pending, hp2]⟩ (by omega)

/-- `t.errorf(...)`: always an error, positioned at a token of the state -/
theorem errorf_safe {α : Type} {S : Item → Prop} {st : PState} {Q : α → PState → Prop} (hi : Inv EL S st) :
    PSafe AP S (errorf : P α) st Q := by
  obtain ⟨hpc, hj, h0, h1, hr⟩ := hi
  unfold PSafe errorf errPos
  by_cases hp0 : st.peekCount = 0
  · simp [hp0]; exact ⟨_, h0, rfl⟩
  · by_cases hp1 : st.peekCount = 1
    · simp [hp1]; exact ⟨_, h0, rfl⟩
    · have hp2 : st.peekCount = 2 := by omega
      simp [hp2]; exact ⟨_, h1, rfl⟩

theorem modify_safe {S : Item → Prop} {st : PState} {g : PState → PState} {Q : PUnit → PState → Prop}
    (h : Q PUnit.unit (g st)) : PSafe AP S (modify g : P PUnit) st Q := by
  have e : (modify g : P PUnit) st = .ok (PUnit.unit, g st) := rfl
  unfold PSafe
  rw [e]
  exact h

theorem get_safe {S : Item → Prop} {st : PState} {Q : PState → PState → Prop}
    (h : Q st st) : PSafe AP S (get : P PState) st Q := by
  have e : (get : P PState) st = .ok (st, st) := rfl
  unfold PSafe
  rw [e]
  exact h

/-- `t.unexpected(token, ...)`: reports the position of `tok` -/
theorem unexpected_eq {α : Type} (tok : Item) (st : PState) :
    (unexpected tok : P α) st = .error (.err tok.pos) := by
  rfl

theorem unexpected_safe {α : Type} {S : Item → Prop} {st : PState} {tok : Item} {Q : α → PState → Prop}
    (_hi : Inv EL S st) (ht : S tok) : PSafe AP S (unexpected tok : P α) st Q := by
  unfold PSafe
  rw [unexpected_eq]
  exact ⟨tok, ht, rfl⟩

/-- `t.expect(typ, ...)` -/
theorem expect_safe {S : Item → Prop} {st : PState} {t : ItemType} {Q : Item → PState → Prop}
    (hz : S Item.zero) (hi : Inv EL S st)
    (hq : ∀ it st', Inv EL S st' → S it → st'.peekCount = st.peekCount - 1 → top st' = it →
      mu st' + real it = mu st → it.typ = t → Q it st') :
    PSafe AP S (expect t) st Q := by
  unfold expect
  apply PSafe.bind
  apply next_safe hz hi
  intro it st' hi' hs hpc ht hm _
  by_cases hty : (it.typ != t) = true
  · simp only [hty, if_true]
    apply PSafe.bind
    exact unexpected_safe hi' hs
  · simp only [hty, Bool.false_eq_true, if_false]
    have hq' := hq it st' hi' hs hpc ht hm (by simpa using hty)
    first
    | exact PSafe.pure hq'
    | (apply PSafe.bind; apply PSafe.pure; exact PSafe.pure hq')

/-- `s[1:]`: a runtime panic on the empty string -/
theorem tail1_safe {AP : Prop} {S : Item → Prop} {st : PState} {s : Bytes} {Q : Bytes → PState → Prop}
    (hne : s = [] → AP) (hq : ∀ b r, s = b :: r → Q r st) : PSafe AP S (tail1 s) st Q := by
  unfold tail1
  cases s with
  | nil => exact hne rfl
  | cons b r => exact hq b r rfl

/-- tokens whose value the parser slices (`tok.val[1:]`, `tok.val[2:]`) are long enough -/
def WFItem (it : Item) : Prop :=
  ((it.typ = .tDollarIdent ∨ it.typ = .tDotIdent ∨ it.typ = .tDotIndex) → it.val ≠ []) ∧
  ((it.typ = .tQuestionDotIdent ∨ it.typ = .tQuestionDotIndex) → 2 ≤ it.val.length)

theorem wf_zero : WFItem Item.zero := by
  constructor <;> intro h <;> simp [Item.zero] at h

end SoyVerif.Lemmas.ParserSafe
