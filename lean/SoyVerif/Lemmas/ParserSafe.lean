/-
  A small program logic for the parser models (`Model/Parser.lean`, `Model/FileParser.lean`)
  used to prove that they TERMINATE (never `fuelOut`) and that every error they report is
  positioned at one of the tokens they were given — on an arbitrary token list possibly at the
  zero item of the closed channel, on a lexer-shaped list (`Lvl.lex`) never.

  * `stream st` — the tokens the parser will see next: the backed-up ones, then the channel;
    `mu st` — how many of them are `real`: of a type other than `tInvalid` (the zero item a
    closed channel yields), `tEOF` and `tError` (the items that end a stream) — the
    termination measure: every loop of the parser consumes such a token per iteration;
    `top st` — the token `t.backup()` would push back (the one `next` returned last).
  * `PSafe AP EL S x st Q` — running `x` from `st` either returns a value and a state
    satisfying `Q`, or fails with an error positioned at an `S`-token (`ErrOK`: a valid one at
    level `lex`), or panics (only if `AP`); it does NOT run out of fuel.
  * `Inv` / `InvW` / `Inv0` — the state invariant in general / right after a `next` (the
    token returned may be the one that ends the stream; `backup` is legal) / before the first
    read.  At level `lex` they say that the parser has not gone on after consuming the end
    item, hence never reads the closed channel, and that no token in use is the zero item.
-/
import SoyVerif.Model.FileParser

set_option linter.unusedSimpArgs false
set_option linter.unusedVariables false

namespace SoyVerif.Lemmas.ParserSafe
open SoyVerif SoyVerif.Model SoyVerif.Model.Parser

/-! ### the stream view of a parser state -/

/-- token types other than the zero item's and the two that end a token stream -/
def midT (t : ItemType) : Bool := t != .tInvalid && t != .tEOF && t != .tError

def real (it : Item) : Nat := if midT it.typ then 1 else 0

def pending (st : PState) : List Item :=
  if st.peekCount = 0 then [] else if st.peekCount = 1 then [st.tok0] else [st.tok1, st.tok0]

def stream (st : PState) : List Item := pending st ++ st.rest

def cnt : List Item → Nat
  | [] => 0
  | x :: r => real x + cnt r

def mu (st : PState) : Nat := cnt (stream st)

/-- the token at `t.token[t.peekCount]` -/
def top (st : PState) : Item := if st.peekCount = 0 then st.tok0 else st.tok1

/-- the next token to be delivered is `it` -/
def Hd (st : PState) (it : Item) : Prop := ∃ s, stream st = it :: s

/-- all tokens in the state satisfy `S` -/
def TokS (S : Item → Prop) (st : PState) : Prop := S st.tok0 ∧ S st.tok1 ∧ ∀ x ∈ st.rest, S x

/-- not the zero item of the closed channel (nor any other item of type `itemInvalid`) -/
def valid (it : Item) : Prop := it.typ ≠ .tInvalid

/-- what is assumed of the token stream:
    `eof` — an EOF item is only ever the last one;
    `lex` — the stream has the shape the lexer gives it: it ends with an EOF or Error item
    and holds no EOF, Error or invalid item before that. -/
structure Lvl where
  eof : Prop
  lex : Prop

/-- with "EOF only last" (`EL.eof`): the channel holds no EOF item except possibly its last one,
    and once an EOF item has been received the channel is empty -/
def EofJ (st : PState) : Prop :=
  (∀ x ∈ st.rest.dropLast, x.typ ≠ .tEOF) ∧ (st.tok0.typ = .tEOF → st.rest = []) ∧ (st.tok1.typ = .tEOF → st.rest = [])

/-- the channel part of the `lex` invariant: only its last item is an end item, and when it
    is empty the item received last was that end item -/
def LexC (st : PState) : Prop :=
  (∀ x ∈ st.rest.dropLast, real x = 1) ∧
  (∀ x, st.rest.getLast? = some x → valid x ∧ real x = 0) ∧
  (st.rest = [] → real st.tok0 = 0) ∧ valid st.tok0

/-- `lex` invariant right after a `next`: the token just returned (`top`) may be the end
    token; it and whatever is backed up are valid tokens -/
def LexJW (st : PState) : Prop := LexC st ∧ (1 ≤ st.peekCount → valid st.tok1)

/-- `lex` invariant in general: the parser has not consumed the end token, so the channel
    is never read after it was closed, and no token in use is the zero item -/
def LexJ (st : PState) : Prop := LexC st ∧ (st.peekCount = 2 → valid st.tok1) ∧ (st.peekCount = 0 → real st.tok0 = 1)

/-- `lex` invariant before the first token is read -/
def LexJ0 (st : PState) : Prop :=
  st.peekCount = 0 ∧ st.rest ≠ [] ∧ (∀ x ∈ st.rest.dropLast, real x = 1) ∧
  (∀ x, st.rest.getLast? = some x → valid x ∧ real x = 0)

/-- invariant: at most two tokens are backed up, all tokens are `S`-tokens (and `EofJ`, `LexJ`
    at the levels assumed) -/
def Inv (EL : Lvl) (S : Item → Prop) (st : PState) : Prop :=
  st.peekCount ≤ 2 ∧ (EL.eof → EofJ st) ∧ TokS S st ∧ (EL.lex → LexJ st)

/-- the invariant right after a `next` (`t.backup()` is legal in exactly these states) -/
def InvW (EL : Lvl) (S : Item → Prop) (st : PState) : Prop :=
  st.peekCount ≤ 2 ∧ (EL.eof → EofJ st) ∧ TokS S st ∧ (EL.lex → LexJW st)

/-- the invariant of the initial state -/
def Inv0 (EL : Lvl) (S : Item → Prop) (st : PState) : Prop :=
  st.peekCount ≤ 2 ∧ (EL.eof → EofJ st) ∧ TokS S st ∧ (EL.lex → LexJ0 st)

theorem InvW.pc {EL : Lvl} {S : Item → Prop} {st : PState} (h : InvW EL S st) : st.peekCount ≤ 2 := h.1
theorem InvW.eofj {EL : Lvl} {S : Item → Prop} {st : PState} (h : InvW EL S st) : EL.eof → EofJ st := h.2.1

/-- the level without `lex` -/
def Lvl.crude (EL : Lvl) : Lvl := ⟨EL.eof, False⟩

theorem InvW.crude {EL : Lvl} {S : Item → Prop} {st : PState} (h : InvW EL S st) : Inv EL.crude S st :=
  ⟨h.1, h.2.1, h.2.2.1, fun hf => absurd hf id⟩

theorem real_valid {it : Item} (h : real it = 1) : valid it := by
  unfold real at h; unfold valid
  intro e; rw [e] at h; simp [midT] at h

theorem real_ne_eof {it : Item} (h : real it = 1) : it.typ ≠ .tEOF := by
  unfold real at h
  intro e; rw [e] at h; simp [midT] at h

/-- the token just returned is not an end token: the general invariant holds again -/
theorem InvW.up {EL : Lvl} {S : Item → Prop} {st : PState} {it : Item} (h : InvW EL S st)
    (ht : top st = it) (hr : real it = 1) : Inv EL S st := by
  refine ⟨h.1, h.2.1, h.2.2.1, fun hl => ?_⟩
  obtain ⟨hc, h1⟩ := h.2.2.2 hl
  refine ⟨hc, fun h2 => h1 (by omega), fun h0 => ?_⟩
  rw [← ht] at hr
  simpa [top, h0] using hr

theorem InvW.valid_top {EL : Lvl} {S : Item → Prop} {st : PState} (h : InvW EL S st) (hl : EL.lex) : valid (top st) := by
  obtain ⟨hc, h1⟩ := h.2.2.2 hl
  unfold top
  split
  · exact hc.2.2.2
  · exact h1 (by omega)

theorem mem_dropLast_or_getLast {α : Type} (l : List α) (x : α) (h : x ∈ l) :
    x ∈ l.dropLast ∨ l.getLast? = some x := by
  induction l with
  | nil => simp at h
  | cons a r ih =>
    cases r with
    | nil => simp at h; subst h; right; rfl
    | cons b r' =>
      simp only [List.dropLast_cons₂, List.mem_cons, List.getLast?_cons_cons]
      rcases List.mem_cons.mp h with h | h
      · exact Or.inl (Or.inl h)
      · rcases ih h with h' | h'
        · exact Or.inl (Or.inr h')
        · exact Or.inr h'

theorem eofJ_pop {st : PState} {x : Item} {r : List Item} (h : EofJ st) (hr : st.rest = x :: r) :
    EofJ { st with rest := r, tok0 := x } := by
  obtain ⟨h1, h2, h3⟩ := h
  rw [hr] at h1 h2 h3
  refine ⟨?_, ?_, ?_⟩
  · intro y hy
    apply h1 y
    cases r with
    | nil => simp at hy
    | cons z r' => simp only [List.dropLast_cons₂, List.mem_cons]; exact Or.inr hy
  · intro hx
    cases r with
    | nil => rfl
    | cons z r' => exact absurd hx (h1 x (by simp [List.dropLast]))
  · intro ht; exact absurd (h3 ht) (by simp)

theorem eofJ_pop_peek {st : PState} {x : Item} {r : List Item} (h : EofJ st) (hr : st.rest = x :: r) :
    EofJ { st with rest := r, peekCount := 1, tok0 := x } := eofJ_pop (st := st) h hr

theorem eofJ_zero {st : PState} (h : EofJ st) (hr : st.rest = []) : EofJ { st with tok0 := Item.zero } := by
  obtain ⟨h1, h2, h3⟩ := h
  exact ⟨h1, fun _ => hr, h3⟩

/-- receiving the head of a lexer-shaped channel -/
theorem lexC_pop {rest : List Item} {x : Item} {r : List Item}
    (h1 : ∀ y ∈ rest.dropLast, real y = 1) (h2 : ∀ y, rest.getLast? = some y → valid y ∧ real y = 0)
    (hr : rest = x :: r) :
    (∀ y ∈ r.dropLast, real y = 1) ∧ (∀ y, r.getLast? = some y → valid y ∧ real y = 0) ∧
    (r = [] → real x = 0) ∧ valid x := by
  subst hr
  refine ⟨?_, ?_, ?_, ?_⟩
  · intro y hy
    apply h1 y
    cases r with
    | nil => simp at hy
    | cons z r' => simp only [List.dropLast_cons₂, List.mem_cons]; exact Or.inr hy
  · intro y hy
    apply h2 y
    cases r with
    | nil => simp at hy
    | cons z r' => simpa [List.getLast?_cons_cons] using hy
  · intro he; subst he; exact (h2 x rfl).2
  · rcases mem_dropLast_or_getLast (x :: r) x (by simp) with h | h
    · exact real_valid (h1 x h)
    · exact (h2 x h).1

theorem cnt_append (a b : List Item) : cnt (a ++ b) = cnt a + cnt b := by
  induction a with
  | nil => simp [cnt]
  | cons x r ih => simp [cnt, ih]; omega

theorem real_le (it : Item) : real it ≤ 1 := by unfold real; split <;> omega
theorem real_zero : real Item.zero = 0 := by simp [real, Item.zero, midT]

/-! ### the judgement -/

def PosOK (S : Item → Prop) (p : Nat) : Prop := ∃ it, S it ∧ it.pos = p

/-- `p` is where an error about the token `it` is reported: its position (a token's position is its
    END) — or, ONLY for a Text token (stray text between the params of a {call} / the cases of a
    {switch}: `atTextStart`, /repo ac1c871), the position of its first non-blank character -/
def ErrAt (it : Item) (p : Nat) : Prop := it.pos = p ∨ (it.typ = .tText ∧ (atTextStart it).pos = p)

theorem atTextStart_pos_le (it : Item) : (atTextStart it).pos ≤ it.pos := by
  unfold atTextStart
  split
  · rename_i i h
    obtain ⟨hi, _⟩ := List.findIdx?_eq_some_iff_getElem.mp h
    show it.pos + i - it.val.length ≤ it.pos
    omega
  · exact Nat.le_refl _

/-- where `atTextStart` puts the token: at its first byte that is not a space, tab, CR or LF (counted
    from the start `pos - len(val)` of the token), inside the token; a token of blanks only stays put -/
theorem atTextStart_spec (it : Item) :
    (∃ i, ∃ h : i < it.val.length, (atTextStart it).pos = it.pos + i - it.val.length ∧
        (it.val[i] ≠ 32 ∧ it.val[i] ≠ 9 ∧ it.val[i] ≠ 13 ∧ it.val[i] ≠ 10) ∧
        ∀ j (hj : j < i), it.val[j] = 32 ∨ it.val[j] = 9 ∨ it.val[j] = 13 ∨ it.val[j] = 10) ∨
    (atTextStart it = it ∧ ∀ b ∈ it.val, b = 32 ∨ b = 9 ∨ b = 13 ∨ b = 10) := by
  unfold atTextStart
  split
  · rename_i i h
    obtain ⟨hi, hp, hb⟩ := List.findIdx?_eq_some_iff_getElem.mp h
    left
    refine ⟨i, hi, rfl, ?_, ?_⟩
    · have hp' : ((¬it.val[i] = 32 ∧ ¬it.val[i] = 9) ∧ ¬it.val[i] = 13) ∧ ¬it.val[i] = 10 := by
        simpa [Bool.or_eq_true, not_or] using hp
      exact ⟨hp'.1.1.1, hp'.1.1.2, hp'.1.2, hp'.2⟩
    · intro j hj
      have h1 : ¬it.val[j] = 32 → ¬it.val[j] = 9 → ¬it.val[j] = 13 → it.val[j] = 10 := by
        simpa [Bool.or_eq_true, or_assoc] using hb j hj
      by_cases a : it.val[j] = 32
      · exact Or.inl a
      by_cases b : it.val[j] = 9
      · exact Or.inr (Or.inl b)
      by_cases c : it.val[j] = 13
      · exact Or.inr (Or.inr (Or.inl c))
      · exact Or.inr (Or.inr (Or.inr (h1 a b c)))
  · rename_i h
    right
    refine ⟨rfl, ?_⟩
    intro b hb
    have h1 : ¬b = 32 → ¬b = 9 → ¬b = 13 → b = 10 := by
      simpa [Bool.or_eq_true, or_assoc] using List.findIdx?_eq_none_iff.mp h b hb
    by_cases a : b = 32
    · exact Or.inl a
    by_cases b' : b = 9
    · exact Or.inr (Or.inl b')
    by_cases c : b = 13
    · exact Or.inr (Or.inr (Or.inl c))
    · exact Or.inr (Or.inr (Or.inr (h1 a b' c)))

theorem ErrAt.le {it : Item} {p : Nat} (h : ErrAt it p) : p ≤ it.pos := by
  rcases h with h | h
  · omega
  · have := atTextStart_pos_le it; have := h.2; omega

theorem ErrAt.zero {p : Nat} (h : ErrAt Item.zero p) : p = 0 := by
  have := h.le
  have : Item.zero.pos = 0 := rfl
  omega

/-- an error position: that of an `S`-token, and on a lexer-shaped stream not that of the
    zero item a closed channel yields -/
def ErrOK (EL : Lvl) (S : Item → Prop) (p : Nat) : Prop :=
  (∃ it, S it ∧ ErrAt it p) ∧ (EL.lex → ∃ it, S it ∧ valid it ∧ ErrAt it p)

def PSafe {α : Type} (AP : Prop) (EL : Lvl) (S : Item → Prop) (x : P α) (st : PState) (Q : α → PState → Prop) : Prop :=
  match x st with
  | .ok (a, st') => Q a st'
  | .error (.err p) => ErrOK EL S p
  | .error .panic => AP
  | .error .fuelOut => False

theorem bind_run {α β : Type} (x : P α) (f : α → P β) (st : PState) :
    (x >>= f) st = match x st with
      | .ok (a, s) => f a s
      | .error e => .error e := by
  show StateT.bind x f st = _
  unfold StateT.bind
  cases x st with
  | error e => rfl
  | ok r => obtain ⟨a, s⟩ := r; rfl

theorem PSafe.bind {α β : Type} {S : Item → Prop} {x : P α} {f : α → P β} {st : PState}
    {Q : β → PState → Prop} (h : PSafe AP EL S x st (fun a st' => PSafe AP EL S (f a) st' Q)) :
    PSafe AP EL S (x >>= f) st Q := by
  unfold PSafe at h ⊢
  rw [bind_run]
  cases hx : x st with
  | error e =>
    rw [hx] at h
    cases e <;> simpa using h
  | ok r =>
    obtain ⟨a, st'⟩ := r
    rw [hx] at h
    exact h

theorem PSafe.pure {α : Type} {S : Item → Prop} {a : α} {st : PState} {Q : α → PState → Prop}
    (h : Q a st) : PSafe AP EL S (pure a : P α) st Q := h

theorem PSafe.mono {α : Type} {S : Item → Prop} {x : P α} {st : PState} {Q Q' : α → PState → Prop}
    (h : PSafe AP EL S x st Q) (hq : ∀ a st', Q a st' → Q' a st') : PSafe AP EL S x st Q' := by
  unfold PSafe at h ⊢
  split <;> simp_all

theorem PSafe.fail_panic {α : Type} {AP : Prop} {S : Item → Prop} {st : PState} {Q : α → PState → Prop}
    (h : AP) : PSafe AP EL S (fail PErr.panic : P α) st Q := h

/-! ### primitives -/

theorem inv_init (S : Item → Prop) (items : List Item) (hz : S Item.zero) (hs : ∀ x ∈ items, S x)
    (hel : EL.eof → ∀ x ∈ items.dropLast, x.typ ≠ .tEOF)
    (hlx : EL.lex → items ≠ [] ∧ (∀ x ∈ items.dropLast, real x = 1) ∧
      (∀ x, items.getLast? = some x → valid x ∧ real x = 0)) :
    Inv0 EL S (initState items) :=
  ⟨by simp [initState], fun h => ⟨hel h, fun h0 => by simp [initState, Item.zero] at h0, fun h0 => by simp [initState, Item.zero] at h0⟩,
    ⟨hz, hz, hs⟩, fun h => ⟨rfl, (hlx h).1, (hlx h).2.1, (hlx h).2.2⟩⟩

/-- without `lex` the initial state satisfies the general invariant -/
theorem Inv0.crude {S : Item → Prop} {st : PState} (h : Inv0 EL S st) (hn : ¬ EL.lex) : Inv EL S st :=
  ⟨h.1, h.2.1, h.2.2.1, fun hl => absurd hl hn⟩

theorem mu_init (items : List Item) : mu (initState items) ≤ items.length := by
  simp only [mu, stream, pending, initState, if_true, List.nil_append]
  induction items with
  | nil => simp [cnt]
  | cons x r ih => simp only [cnt, List.length_cons]; have := real_le x; omega

theorem next_run0 {st : PState} (hp0 : st.peekCount = 0) {x : Item} {r : List Item} (hrest : st.rest = x :: r) :
    next st = .ok (x, { st with rest := r, tok0 := x }) := by
  simp [next, bind, StateT.bind, get, getThe, MonadStateOf.get, StateT.get, set, StateT.set, MonadStateOf.set, modify, modifyGet, MonadStateOf.modifyGet, StateT.modifyGet, pure, StateT.pure, Except.pure, Except.bind, nextItem, tokenAt, hp0, hrest]

/-- `t.next()`; the invariant's level `EL'` need not be that of the judgement (`next` does
    not fail) -/
theorem next_safe {EL EL' : Lvl} {S : Item → Prop} {st : PState} {Q : Item → PState → Prop} (hz : S Item.zero)
    (hi : Inv EL' S st)
    (hq : ∀ it st', InvW EL' S st' → S it → st'.peekCount = st.peekCount - 1 → top st' = it → mu st' + real it = mu st →
      (∀ x, Hd st x → it = x) → Q it st') :
    PSafe AP EL S next st Q := by
  obtain ⟨hpc, hj, ⟨h0, h1, hr⟩, hlx⟩ := hi
  unfold PSafe
  by_cases hp0 : st.peekCount = 0
  · cases hrest : st.rest with
    | nil =>
      have : next st = .ok (Item.zero, { st with tok0 := Item.zero }) := by
        simp [next, bind, StateT.bind, get, getThe, MonadStateOf.get, StateT.get, set, StateT.set, MonadStateOf.set, modify, modifyGet, MonadStateOf.modifyGet, StateT.modifyGet, pure, StateT.pure, Except.pure, Except.bind, nextItem, tokenAt, hp0, hrest]
      rw [this]
      apply hq
      · refine ⟨by simp [hp0], fun h => eofJ_zero (hj h) hrest, ⟨hz, h1, by simp [hrest]⟩, fun hl => ?_⟩
        -- on a lexer-shaped stream the channel is not empty here
        obtain ⟨hc, _, hne⟩ := hlx hl
        have h1' := hne hp0
        have h0' := hc.2.2.1 hrest
        omega
      · exact hz
      · simp [hp0]
      · simp [top, hp0]
      · simp [mu, stream, pending, hp0, hrest, cnt, real_zero]
      · intro x ⟨s, hs⟩; simp [stream, pending, hp0, hrest] at hs
    | cons x r =>
      rw [next_run0 hp0 hrest]
      have hx : S x := hr x (by simp [hrest])
      apply hq
      · refine ⟨by simp [hp0], fun h => eofJ_pop (hj h) hrest, ⟨hx, h1, fun y hy => hr y (by simp [hrest, hy])⟩, fun hl => ?_⟩
        obtain ⟨hc, _, _⟩ := hlx hl
        exact ⟨lexC_pop hc.1 hc.2.1 hrest, fun h => by simp [hp0] at h⟩
      · exact hx
      · simp [hp0]
      · simp [top, hp0]
      · simp [mu, stream, pending, hp0, hrest, cnt]; omega
      · intro y ⟨s, hs⟩; simp [stream, pending, hp0, hrest] at hs; exact hs.1
  · by_cases hp1 : st.peekCount = 1
    · have : next st = .ok (st.tok0, { st with peekCount := 0 }) := by
        simp [next, bind, StateT.bind, get, getThe, MonadStateOf.get, StateT.get, set, StateT.set, MonadStateOf.set, modify, modifyGet, MonadStateOf.modifyGet, StateT.modifyGet, pure, StateT.pure, Except.pure, Except.bind, nextItem, tokenAt, hp1]
      rw [this]
      apply hq
      · exact ⟨by simp, hj, ⟨h0, h1, hr⟩, fun hl => ⟨(hlx hl).1, fun h => by simp at h⟩⟩
      · exact h0
      · simp [hp1]
      · simp [top]
      · simp [mu, stream, pending, hp1, cnt]; omega
      · intro y ⟨s, hs⟩; simp [stream, pending, hp1] at hs; exact hs.1
    · have hp2 : st.peekCount = 2 := by omega
      have : next st = .ok (st.tok1, { st with peekCount := 1 }) := by
        simp [next, bind, StateT.bind, get, getThe, MonadStateOf.get, StateT.get, set, StateT.set, MonadStateOf.set, modify, modifyGet, MonadStateOf.modifyGet, StateT.modifyGet, pure, StateT.pure, Except.pure, Except.bind, nextItem, tokenAt, hp2]
      rw [this]
      apply hq
      · exact ⟨by simp, hj, ⟨h0, h1, hr⟩, fun hl => ⟨(hlx hl).1, fun _ => (hlx hl).2.1 hp2⟩⟩
      · exact h1
      · simp [hp2]
      · simp [top]
      · simp [mu, stream, pending, hp2, cnt]; omega
      · intro y ⟨s, hs⟩; simp [stream, pending, hp2] at hs; exact hs.1

/-- the first `next` of a parse -/
theorem next_safe0 {EL EL' : Lvl} {S : Item → Prop} {st : PState} {Q : Item → PState → Prop} (hz : S Item.zero)
    (hi : Inv0 EL' S st)
    (hq : ∀ it st', InvW EL' S st' → S it → st'.peekCount = st.peekCount - 1 → top st' = it → mu st' + real it = mu st →
      (∀ x, Hd st x → it = x) → Q it st') :
    PSafe AP EL S next st Q := by
  by_cases hl : EL'.lex
  · obtain ⟨hpc, hj, ⟨h0, h1, hr⟩, hlx⟩ := hi
    obtain ⟨hp0, hne, hd, hlast⟩ := hlx hl
    unfold PSafe
    cases hrest : st.rest with
    | nil => exact absurd hrest hne
    | cons x r =>
      rw [next_run0 hp0 hrest]
      have hx : S x := hr x (by simp [hrest])
      apply hq
      · exact ⟨by simp [hp0], fun h => eofJ_pop (hj h) hrest, ⟨hx, h1, fun y hy => hr y (by simp [hrest, hy])⟩,
          fun _ => ⟨lexC_pop hd hlast hrest, fun h => by simp [hp0] at h⟩⟩
      · exact hx
      · simp [hp0]
      · simp [top, hp0]
      · simp [mu, stream, pending, hp0, hrest, cnt]; omega
      · intro y ⟨s, hs⟩; simp [stream, pending, hp0, hrest] at hs; exact hs.1
  · exact next_safe hz (hi.crude hl) hq

/-- `t.backup()` right after a `next` (at most one token was backed up) -/
theorem backup_safe {EL EL' : Lvl} {S : Item → Prop} {st : PState} {Q : Unit → PState → Prop}
    (hi : InvW EL' S st) (hpc : st.peekCount ≤ 1)
    (hq : ∀ st', Inv EL' S st' → mu st' = mu st + real (top st) → Hd st' (top st) → Q () st') :
    PSafe AP EL S backup st Q := by
  obtain ⟨_, hj, ⟨h0, h1, hr⟩, hlx⟩ := hi
  have : backup st = .ok ((), { st with peekCount := st.peekCount + 1 }) := rfl
  unfold PSafe
  rw [this]
  apply hq
  · refine ⟨by simp; omega, hj, ⟨h0, h1, hr⟩, fun hl => ⟨(hlx hl).1, fun h2 => (hlx hl).2 (by simp at h2; omega), fun h => by simp at h⟩⟩
  · by_cases hp0 : st.peekCount = 0
    · simp [mu, stream, pending, hp0, top, cnt]; omega
    · have hp1 : st.peekCount = 1 := by omega
      simp [mu, stream, pending, hp1, top, cnt]; omega
  · by_cases hp0 : st.peekCount = 0
    · exact ⟨st.rest, by simp [stream, pending, hp0, top]⟩
    · have hp1 : st.peekCount = 1 := by omega
      exact ⟨st.tok0 :: st.rest, by simp [stream, pending, hp1, top]⟩


/-- `t.backup2(t1)` after two `next`s (nothing is backed up) -/
theorem backup2_safe {EL EL' : Lvl} {S : Item → Prop} {st : PState} {t1 : Item} {Q : Unit → PState → Prop}
    (hi : InvW EL' S st) (ht : S t1) (hne : t1.typ ≠ .tEOF) (hv : EL'.lex → valid t1) (hpc : st.peekCount = 0)
    (hq : ∀ st', Inv EL' S st' → mu st' = mu st + real t1 + real (top st) → Hd st' t1 → Q () st') :
    PSafe AP EL S (backup2 t1) st Q := by
  obtain ⟨_, hj, ⟨h0, h1, hr⟩, hlx⟩ := hi
  have : backup2 t1 st = .ok ((), { st with tok1 := t1, peekCount := 2 }) := rfl
  unfold PSafe
  rw [this]
  apply hq
  · exact ⟨by simp, fun h => ⟨(hj h).1, (hj h).2.1, fun h' => absurd h' hne⟩, ⟨h0, ht, hr⟩,
      fun hl => ⟨(hlx hl).1, fun _ => hv hl, fun h => by simp at h⟩⟩
  · simp [mu, stream, pending, hpc, top, cnt]; omega
  · exact ⟨st.tok0 :: st.rest, by simp [stream, pending]⟩

/-- `t.peek()` -/
theorem peek_safe {EL EL' : Lvl} {S : Item → Prop} {st : PState} {Q : Item → PState → Prop} (hz : S Item.zero)
    (hi : Inv EL' S st)
    (hq : ∀ it st', Inv EL' S st' → S it → mu st' = mu st → Hd st' it → 1 ≤ st'.peekCount → Q it st') :
    PSafe AP EL S peek st Q := by
  obtain ⟨hpc, hj, ⟨h0, h1, hr⟩, hlx⟩ := hi
  unfold PSafe
  by_cases hp0 : st.peekCount = 0
  · cases hrest : st.rest with
    | nil =>
      have : peek st = .ok (Item.zero, { st with peekCount := 1, tok0 := Item.zero }) := by
        simp [peek, bind, StateT.bind, get, getThe, MonadStateOf.get, StateT.get, set, StateT.set, MonadStateOf.set, modify, modifyGet, MonadStateOf.modifyGet, StateT.modifyGet, pure, StateT.pure, Except.pure, Except.bind, nextItem, tokenAt, hp0, hrest]
      rw [this]
      apply hq
      · refine ⟨by simp, fun h => eofJ_zero (st := { st with peekCount := 1 }) (hj h) hrest, ⟨hz, h1, by simp [hrest]⟩, fun hl => ?_⟩
        obtain ⟨hc, _, hne⟩ := hlx hl
        have h1' := hne hp0
        have h0' := hc.2.2.1 hrest
        omega
      · exact hz
      · simp [mu, stream, pending, hp0, hrest, cnt, real_zero]
      · exact ⟨[], by simp [stream, pending, hrest]⟩
      · simp
    | cons x r =>
      have : peek st = .ok (x, { st with rest := r, peekCount := 1, tok0 := x }) := by
        simp [peek, bind, StateT.bind, get, getThe, MonadStateOf.get, StateT.get, set, StateT.set, MonadStateOf.set, modify, modifyGet, MonadStateOf.modifyGet, StateT.modifyGet, pure, StateT.pure, Except.pure, Except.bind, nextItem, tokenAt, hp0, hrest]
      rw [this]
      have hx : S x := hr x (by simp [hrest])
      apply hq
      · refine ⟨by simp, fun h => eofJ_pop_peek (hj h) hrest, ⟨hx, h1, fun y hy => hr y (by simp [hrest, hy])⟩, fun hl => ?_⟩
        obtain ⟨hc, _, _⟩ := hlx hl
        exact ⟨lexC_pop hc.1 hc.2.1 hrest, fun h => by simp at h, fun h => by simp at h⟩
      · exact hx
      · simp [mu, stream, pending, hp0, hrest, cnt]
      · exact ⟨r, by simp [stream, pending]⟩
      · simp
  · by_cases hp1 : st.peekCount = 1
    · have : peek st = .ok (st.tok0, st) := by
        simp [peek, bind, StateT.bind, get, getThe, MonadStateOf.get, StateT.get, pure, StateT.pure, Except.pure, Except.bind, tokenAt, hp1]
      rw [this]
      exact hq _ _ ⟨hpc, hj, ⟨h0, h1, hr⟩, hlx⟩ h0 rfl ⟨st.rest, by simp [stream, pending, hp1]⟩ (by omega)
    · have hp2 : st.peekCount = 2 := by omega
      have : peek st = .ok (st.tok1, st) := by
        simp [peek, bind, StateT.bind, get, getThe, MonadStateOf.get, StateT.get, pure, StateT.pure, Except.pure, Except.bind, tokenAt, hp2]
      rw [this]
      exact hq _ _ ⟨hpc, hj, ⟨h0, h1, hr⟩, hlx⟩ h1 rfl ⟨st.tok0 :: st.rest, by simp [stream, pending, hp2]⟩ (by omega)

/-- the invariants under which `errorf` reports the position of a valid token -/
class ErrInv (I : Prop) (EL : outParam Lvl) (S : outParam (Item → Prop)) (st : outParam PState) : Prop where
  pc : I → st.peekCount ≤ 2
  toks : I → TokS S st
  v0 : I → EL.lex → valid st.tok0
  v1 : I → EL.lex → st.peekCount = 2 → valid st.tok1

instance {EL : Lvl} {S : Item → Prop} {st : PState} : ErrInv (Inv EL S st) EL S st where
  pc h := h.1
  toks h := h.2.2.1
  v0 h hl := (h.2.2.2 hl).1.2.2.2
  v1 h hl := (h.2.2.2 hl).2.1

instance {EL : Lvl} {S : Item → Prop} {st : PState} : ErrInv (InvW EL S st) EL S st where
  pc h := h.1
  toks h := h.2.2.1
  v0 h hl := (h.2.2.2 hl).1.2.2.2
  v1 h hl h2 := (h.2.2.2 hl).2 (by omega)

/-- `t.errorf(...)`: always an error, positioned at a token of the state -/
theorem errorf_safe {α : Type} {I : Prop} {EL : Lvl} {S : Item → Prop} {st : PState} {Q : α → PState → Prop}
    [e : ErrInv I EL S st] (hi : I) :
    PSafe AP EL S (errorf : P α) st Q := by
  have hpc := e.pc hi
  obtain ⟨h0, h1, hr⟩ := e.toks hi
  unfold PSafe errorf errPos
  by_cases hp0 : st.peekCount = 0
  · simp [hp0]; exact ⟨⟨_, h0, Or.inl rfl⟩, fun hl => ⟨_, h0, e.v0 hi hl, Or.inl rfl⟩⟩
  · by_cases hp1 : st.peekCount = 1
    · simp [hp1]; exact ⟨⟨_, h0, Or.inl rfl⟩, fun hl => ⟨_, h0, e.v0 hi hl, Or.inl rfl⟩⟩
    · have hp2 : st.peekCount = 2 := by omega
      simp [hp2]; exact ⟨⟨_, h1, Or.inl rfl⟩, fun hl => ⟨_, h1, e.v1 hi hl hp2, Or.inl rfl⟩⟩

theorem modify_safe {S : Item → Prop} {st : PState} {g : PState → PState} {Q : PUnit → PState → Prop}
    (h : Q PUnit.unit (g st)) : PSafe AP EL S (modify g : P PUnit) st Q := by
  have e : (modify g : P PUnit) st = .ok (PUnit.unit, g st) := rfl
  unfold PSafe
  rw [e]
  exact h

theorem get_safe {S : Item → Prop} {st : PState} {Q : PState → PState → Prop}
    (h : Q st st) : PSafe AP EL S (get : P PState) st Q := by
  have e : (get : P PState) st = .ok (st, st) := rfl
  unfold PSafe
  rw [e]
  exact h

/-- `t.unexpected(token, ...)`: reports the position of `tok` -/
theorem unexpected_eq {α : Type} (tok : Item) (st : PState) :
    (unexpected tok : P α) st = .error (.err tok.pos) := by
  rfl

theorem unexpected_safe' {α : Type} {EL : Lvl} {S : Item → Prop} {st : PState} {tok : Item} {Q : α → PState → Prop}
    (ht : S tok) (hv : EL.lex → valid tok) : PSafe AP EL S (unexpected tok : P α) st Q := by
  unfold PSafe
  rw [unexpected_eq]
  exact ⟨⟨tok, ht, Or.inl rfl⟩, fun hl => ⟨tok, ht, hv hl, Or.inl rfl⟩⟩

/-- `t.unexpected(atTextStart(token), ...)`: reports where the text of `tok` begins -/
theorem unexpected_textStart_safe {α : Type} {EL : Lvl} {S : Item → Prop} {st : PState} {tok : Item} {Q : α → PState → Prop}
    (ht : S tok) (hv : EL.lex → valid tok) (htx : tok.typ = .tText) :
    PSafe AP EL S (unexpected (atTextStart tok) : P α) st Q := by
  unfold PSafe
  rw [unexpected_eq]
  exact ⟨⟨tok, ht, Or.inr ⟨htx, rfl⟩⟩, fun hl => ⟨tok, ht, hv hl, Or.inr ⟨htx, rfl⟩⟩⟩

/-- `t.unexpected(token, ...)` on the token `next` has just returned -/
theorem unexpected_safe {α : Type} {EL : Lvl} {S : Item → Prop} {st : PState} {tok : Item} {Q : α → PState → Prop}
    (hi : InvW EL S st) (ht : S tok) (he : top st = tok := by assumption) : PSafe AP EL S (unexpected tok : P α) st Q :=
  unexpected_safe' ht (fun hl => he ▸ hi.valid_top hl)

/-- `t.expect(typ, ...)` for a type other than EOF / Error -/
theorem expect_safe {EL : Lvl} {S : Item → Prop} {st : PState} {t : ItemType} {Q : Item → PState → Prop}
    (hz : S Item.zero) (hi : Inv EL S st) (hmid : midT t = true)
    (hq : ∀ it st', Inv EL S st' → S it → st'.peekCount = st.peekCount - 1 → top st' = it →
      mu st' + real it = mu st → it.typ = t → Q it st') :
    PSafe AP EL S (expect t) st Q := by
  unfold expect
  apply PSafe.bind
  apply next_safe hz hi
  intro it st' hi' hs hpc ht hm _
  by_cases hty : (it.typ != t) = true
  · simp only [hty, if_true]
    apply PSafe.bind
    exact unexpected_safe hi' hs
  · simp only [hty, Bool.false_eq_true, if_false]
    have hty' : it.typ = t := by simpa using hty
    have hr : real it = 1 := by unfold real; rw [hty', hmid]; rfl
    have hq' := hq it st' (hi'.up ht hr) hs hpc ht hm hty'
    first
    | exact PSafe.pure hq'
    | (apply PSafe.bind; apply PSafe.pure; exact PSafe.pure hq')

theorem real_of_eq {it : Item} {t : ItemType} (h : it.typ = t) (ht : midT t = true) : real it = 1 := by
  unfold real; rw [h, ht]; rfl

theorem real_of_beq {it : Item} {t : ItemType} (h : (it.typ == t) = true) (ht : midT t = true) : real it = 1 :=
  real_of_eq (by simpa using h) ht

theorem real_of_nbne {it : Item} {t : ItemType} (h : ¬ (it.typ != t) = true) (ht : midT t = true) : real it = 1 :=
  real_of_eq (by simpa using h) ht

theorem real_of_or {it : Item} {a b : ItemType} (h : (it.typ == a || it.typ == b) = true)
    (ha : midT a = true) (hb : midT b = true) : real it = 1 := by
  simp only [Bool.or_eq_true] at h
  rcases h with h | h
  · exact real_of_beq h ha
  · exact real_of_beq h hb

theorem real_of_contains {it : Item} {l : List ItemType} (h : l.contains it.typ = true)
    (hl : l.all midT = true) : real it = 1 := by
  have hm : it.typ ∈ l := by simpa using h
  have := List.all_eq_true.mp hl _ hm
  unfold real; rw [this]; rfl

theorem real_of_unary {it : Item} (h : isUnaryOp it.typ = true) : real it = 1 := by
  unfold real; rw [if_pos]; revert h; cases it.typ <;> decide

theorem real_of_binary {it : Item} (h : isBinaryOp it.typ = true) : real it = 1 := by
  unfold real; rw [if_pos]; revert h; cases it.typ <;> decide

theorem real_of_value {it : Item} (h : isValue it.typ = true) : real it = 1 := by
  unfold real; rw [if_pos]; revert h; cases it.typ <;> decide


/-- `upw% h`: the general invariant from the one after a `next` (`h : InvW …`), when the
    context shows that the token just returned is neither EOF nor Error -/
macro "upw% " h:term : term =>
  `(InvW.up $h (by first | assumption | rfl)
      (by first
        | assumption
        | exact real_of_eq (by assumption) (by decide)
        | exact real_of_beq (by assumption) (by decide)
        | exact real_of_nbne (by assumption) (by decide)
        | exact real_of_or (by assumption) (by decide) (by decide)
        | exact real_of_contains (by assumption) (by decide)
        | exact real_of_unary (by assumption)
        | exact real_of_binary (by assumption)
        | exact real_of_value (by assumption)))

/-- `s[1:]`: a runtime panic on the empty string -/
theorem tail1_safe {AP : Prop} {S : Item → Prop} {st : PState} {s : Bytes} {Q : Bytes → PState → Prop}
    (hne : s = [] → AP) (hq : ∀ b r, s = b :: r → Q r st) : PSafe AP EL S (tail1 s) st Q := by
  unfold tail1
  cases s with
  | nil => exact hne rfl
  | cons b r => exact hq b r rfl

/-- tokens whose value the parser slices (`tok.val[1:]`, `tok.val[2:]`) are long enough -/
def WFItem (it : Item) : Prop :=
  ((it.typ = .tDollarIdent ∨ it.typ = .tDotIdent ∨ it.typ = .tDotIndex) → it.val ≠ []) ∧
  ((it.typ = .tQuestionDotIdent ∨ it.typ = .tQuestionDotIndex) → 2 ≤ it.val.length)

theorem wf_zero : WFItem Item.zero := by
  constructor <;> intro h <;> simp [Item.zero] at h

end SoyVerif.Lemmas.ParserSafe
