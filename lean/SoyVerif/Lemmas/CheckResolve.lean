/-
  Resolution: the function `Spec.resolve` computes the relation `Spec.Resolves`;
  `markUsed` / `visitKey` / `checkCall` of the checker in terms of it.
-/
import SoyVerif.Lemmas.CheckState

namespace SoyVerif.Lemmas.Check
open SoyVerif SoyVerif.Model SoyVerif.Model.Check SoyVerif.Spec

/-! ### `lastIndex` -/

theorem lastIndex_eq_none {k : Bytes} {env : Env} : lastIndex k env = none ↔ ∀ b ∈ env, b.name ≠ k := by
  induction env with
  | nil => simp [lastIndex]
  | cons b r ih =>
    simp only [lastIndex]
    cases h : lastIndex k r with
    | some i =>
      simp only [reduceCtorEq, false_iff]
      intro hall
      exact absurd (ih.mpr fun b' hb' => hall b' (List.mem_cons_of_mem _ hb')) (by simp [h])
    | none =>
      have := ih.mp h
      by_cases hb : b.name = k
      · simp [hb]
      · simpa [hb] using this

theorem lastIndex_eq_some {k : Bytes} {env : Env} {i : Nat} (h : lastIndex k env = some i) :
    (∃ b, env[i]? = some b ∧ b.name = k) ∧ ∀ j b', i < j → env[j]? = some b' → b'.name ≠ k := by
  induction env generalizing i with
  | nil => simp [lastIndex] at h
  | cons b r ih =>
    simp only [lastIndex] at h
    cases hr : lastIndex k r with
    | some i' =>
      simp only [hr, Option.some.injEq] at h
      subst h
      obtain ⟨h1, h2⟩ := ih hr
      refine ⟨by simpa using h1, ?_⟩
      intro j b' hj hb'
      cases j with
      | zero => omega
      | succ j => exact h2 j b' (by omega) (by simpa using hb')
    | none =>
      simp only [hr] at h
      by_cases hb : b.name = k
      · simp only [hb, if_true, Option.some.injEq] at h
        subst h
        refine ⟨⟨b, by simp, hb⟩, ?_⟩
        intro j b' hj hb'
        cases j with
        | zero => omega
        | succ j =>
          simp only [List.getElem?_cons_succ] at hb'
          exact lastIndex_eq_none.mp hr b' (List.mem_of_getElem? hb')
      · simp [hb] at h

theorem lastIndex_lt {k : Bytes} {env : Env} {i : Nat} (h : lastIndex k env = some i) : i < env.length := by
  obtain ⟨⟨b, hb, _⟩, _⟩ := lastIndex_eq_some h
  exact (List.getElem?_eq_some_iff.mp hb).1

/-- `resolve` computes `Resolves` -/
theorem resolve_eq_some_iff {params : List Bytes} {env : Env} {k : Bytes} {t : Target} :
    resolve params env k = some t ↔ Resolves params env k t := by
  constructor
  · intro h
    unfold resolve at h
    by_cases hij : k = ijName
    · simp only [hij, if_true, Option.some.injEq] at h
      subst h
      exact .ij hij
    · simp only [hij, if_false] at h
      cases hl : lastIndex k env with
      | some i =>
        simp only [hl, Option.some.injEq] at h
        subst h
        obtain ⟨⟨b, hb, hn⟩, hlast⟩ := lastIndex_eq_some hl
        exact .var i b hij hb hn hlast
      | none =>
        simp only [hl] at h
        by_cases hp : k ∈ params
        · simp only [hp, if_true, Option.some.injEq] at h
          subst h
          exact .param hij (lastIndex_eq_none.mp hl) hp
        · simp [hp] at h
  · intro h
    cases h with
    | ij hij => simp [resolve, hij]
    | var i b hij hb hn hlast =>
      simp only [resolve, hij, if_false]
      cases hl : lastIndex k env with
      | none => exact absurd hn (lastIndex_eq_none.mp hl b (List.mem_of_getElem? hb))
      | some i' =>
        obtain ⟨⟨b', hb', hn'⟩, hlast'⟩ := lastIndex_eq_some hl
        have : i' = i := by
          rcases Nat.lt_trichotomy i' i with hlt | heq | hgt
          · exact absurd hn (hlast' i b hlt hb)
          · exact heq
          · exact absurd hn' (hlast i' b' hgt hb')
        simp [this]
    | param hij hnone hp =>
      simp [resolve, hij, lastIndex_eq_none.mpr hnone, hp]

theorem resolve_isSome_iff {params : List Bytes} {env : Env} {k : Bytes} :
    (resolve params env k).isSome ↔ RefBound params env k := by
  simp only [RefBound, ← resolve_eq_some_iff, Option.isSome_iff_exists]

/-- a resolved target lies below the height of the environment -/
theorem resolve_below {params : List Bytes} {env : Env} {k : Bytes} {t : Target}
    (h : resolve params env k = some t) : t.below env.length = true := by
  unfold resolve at h
  split at h
  · cases h; rfl
  · split at h
    · rename_i i hl
      cases h
      simp [Target.below, lastIndex_lt hl]
    · split at h
      · cases h; rfl
      · cases h

theorem refsKeys_below {params : List Bytes} {env : Env} {ks : List Bytes} :
    ∀ t ∈ refsKeys params env ks, t.below env.length = true := by
  intro t ht
  simp only [refsKeys, List.mem_filterMap] at ht
  obtain ⟨k, _, hk⟩ := ht
  exact resolve_below hk

/-! ### `markUsed`, `visitKey` -/

theorem some_iff (a b : CState) : some a = some b ↔ b = a := by
  rw [Option.some.injEq]; exact eq_comm

theorem markAll_var_succ (i : Nat) (v : Check.Binding) (rest : List Check.Binding) :
    markAll [.var (i + 1)] (v :: rest) = v :: markAll [.var i] rest := by
  simp only [markAll, List.mapIdx_cons]
  congr 1
  · simp
  · rw [List.mapIdx_eq_mapIdx_iff]
    intro j _
    simp

theorem markAll_var_zero (v : Check.Binding) (rest : List Check.Binding) :
    markAll [.var 0] (v :: rest) = { v with used := true } :: rest := by
  simp only [markAll, List.mapIdx_cons]
  congr 1
  · simp
  · conv => rhs; rw [← markAll_nil rest]
    simp only [markAll]
    rw [List.mapIdx_eq_mapIdx_iff]
    intro j _
    simp

theorem markUsed_eq (key : Bytes) (vs : List Check.Binding) :
    markUsed key vs = (lastIndex key (envOf vs)).map fun i => markAll [.var i] vs := by
  induction vs with
  | nil => rfl
  | cons v rest ih =>
    simp only [markUsed, envOf, List.map_cons, lastIndex]
    simp only [envOf] at ih
    rw [ih]
    cases lastIndex key (List.map (fun v => ({ name := v.name, isLet := v.isLet } : Spec.Binding)) rest) with
    | some i => simp [markAll_var_succ]
    | none =>
      by_cases hv : v.name = key <;> simp [hv, markAll_var_zero]

@[simp] theorem after_ij (st : CState) : after st [] [Target.ij] = st := by
  have : markAll [Target.ij] st.vars = st.vars := by
    conv => rhs; rw [← markAll_nil st.vars]
    simp only [markAll]
    rw [List.mapIdx_eq_mapIdx_iff]
    intro j _
    simp
  have hk : keysOf [Target.ij] = [] := rfl
  simp [after, this, hk]

@[simp] theorem after_var (st : CState) (i : Nat) :
    after st [] [Target.var i] = { st with vars := markAll [Target.var i] st.vars } := by
  have hk : keysOf [Target.var i] = [] := rfl
  simp [after, hk]

@[simp] theorem after_param (st : CState) (k : Bytes) :
    after st [] [Target.param k] = { st with usedKeys := st.usedKeys ++ [k] } := by
  have : markAll [Target.param k] st.vars = st.vars := by
    conv => rhs; rw [← markAll_nil st.vars]
    simp only [markAll]
    rw [List.mapIdx_eq_mapIdx_iff]
    intro j _
    simp
  simp [after, this, keysOf, keyOf]

theorem Framed.visitKey (params : List Bytes) (k : Bytes) :
    Framed (visitKey params k) (fun env => KeysBound params env [k]) (fun env => refsKeys params env [k]) [] := by
  intro st st'
  have hb : KeysBound params (envOf st.vars) [k] ↔ (resolve params (envOf st.vars) k).isSome := by
    simp [KeysBound, resolve_isSome_iff]
  show _ ↔ KeysBound params (envOf st.vars) [k] ∧ st' = after st [] (refsKeys params (envOf st.vars) [k])
  rw [hb]
  simp only [Check.visitKey, refsKeys, List.filterMap_cons, List.filterMap_nil]
  by_cases hij : k = ijName
  · have : (k == [105, 106]) = true := by simp [hij, ijName]
    simp only [this, if_true, exec_pure, some_iff]
    simp [resolve, hij]
  · have : (k == [105, 106]) = false := by simpa [ijName] using hij
    simp only [this, Bool.false_eq_true, if_false, exec_get_bind, markUsed_eq, resolve, hij]
    cases hl : lastIndex k (envOf st.vars) with
    | some i =>
      simp only [Option.map_some, exec_set, some_iff]
      simp
    | none =>
      by_cases hp : k ∈ params
      · have hc : params.contains k = true := by simpa using hp
        simp only [Option.map_none, hc, if_true, exec_set, some_iff, hp]
        simp
      · have hc : params.contains k = false := by simpa using hp
        simp [hp, exec_reject]

/-! ### `checkLet`, `checkCall` -/

theorem Framed.checkLet (name : Bytes) :
    Framed (checkLet name) (fun _ => LetNameOk name) (fun _ => []) [] := by
  intro st st'
  show _ ↔ name ≠ [105, 106] ∧ st' = after st [] []
  simp only [Check.checkLet, after_nil]
  by_cases h : name = [105, 106]
  · have : (name == [105, 106]) = true := by simpa using h
    rw [this]
    simp [h, exec_reject]
  · have : (name == [105, 106]) = false := by simpa using h
    rw [this]
    simp only [Bool.false_eq_true, if_false, exec_pure, some_iff]
    simp [h]

/-! ### `checkLoopFunc` -/

theorem isLoopVar_iff (vs : List Check.Binding) (k : Bytes) :
    isLoopVar vs k = true ↔ ∃ b ∈ envOf vs, b.name = k ∧ b.isLet = false := by
  simp only [isLoopVar, envOf, List.any_eq_true, Bool.and_eq_true, beq_iff_eq, Bool.not_eq_true',
    List.mem_map]
  constructor
  · rintro ⟨v, hv, h1, h2⟩
    exact ⟨_, ⟨v, hv, rfl⟩, h1, h2⟩
  · rintro ⟨b, ⟨v, hv, rfl⟩, h1, h2⟩
    exact ⟨v, hv, h1, h2⟩

theorem Framed.checkLoopFunc (name : Bytes) (args : ExprList) :
    Framed (checkLoopFunc args) (fun env => LoopArgOk env (name, args)) (fun _ => []) [] := by
  intro st st'
  show _ ↔ LoopArgOk (envOf st.vars) (name, args) ∧ st' = after st [] []
  simp only [Check.checkLoopFunc, after_nil, LoopArgOk]
  cases loopArg args with
  | none => simp [exec_reject]
  | some key =>
    simp only [exec_get_bind]
    by_cases hv : isLoopVar st.vars key = true
    · have hx := (isLoopVar_iff st.vars key).mp hv
      simp only [hv, if_true, exec_pure, some_iff]
      exact ⟨fun h => ⟨⟨key, rfl, hx⟩, h⟩, fun h => h.2⟩
    · have hx := mt (isLoopVar_iff st.vars key).mpr hv
      simp only [hv, Bool.false_eq_true, if_false, exec_reject]
      constructor
      · intro h; cases h
      · rintro ⟨⟨x, hx1, hx2⟩, _⟩
        cases hx1
        exact absurd hx2 hx

theorem find_callee (reg : List Check.Template) (name : Bytes) :
    reg.find? (fun t => t.name == name) = callee reg name := by
  simp only [callee]
  congr 1
  funext t
  rw [Bool.eq_iff_iff]
  simp

theorem keysOf_map_param (ks : List Bytes) : keysOf (ks.map Target.param) = ks := by
  induction ks with
  | nil => rfl
  | cons k r ih => simpa [keysOf, keyOf] using ih

theorem markAll_map_param (ks : List Bytes) (vs : List Check.Binding) :
    markAll (ks.map Target.param) vs = vs := by
  conv => rhs; rw [← markAll_nil vs]
  simp only [markAll]
  rw [List.mapIdx_eq_mapIdx_iff]
  intro j _
  simp

theorem after_map_param (st : CState) (ks : List Bytes) :
    after st [] (ks.map Target.param) = { st with usedKeys := st.usedKeys ++ ks } := by
  simp [after, markAll_map_param, keysOf_map_param]

theorem any_not_contains (l m : List Bytes) :
    l.any (fun k => !m.contains k) = true ↔ ¬ ∀ k ∈ l, k ∈ m := by
  rw [List.any_eq_true]
  simp

theorem Framed.checkCall (reg : List Check.Template) (params : List Bytes) (name : Bytes)
    (allData hasData : Bool) (keys : List Bytes) :
    Framed (checkCall reg params name allData hasData keys)
      (fun _ => CallOk reg params name allData hasData keys)
      (fun _ => (passedByAll reg params name allData).map Target.param) [] := by
  intro st st'
  show _ ↔ CallOk reg params name allData hasData keys ∧ st' = after st [] _
  simp only [Check.checkCall, find_callee, CallOk, after_map_param]
  cases hc : callee reg name with
  | none => simp [exec_reject]
  | some c =>
    have hpass : (if allData = true then params.filter (fun p => (c.params.map (·.name)).contains p) else [])
        = passedByAll reg params name allData := by
      cases allData <;> simp [passedByAll, hc]
    simp only [hpass, exec_bind, exec_modify, Option.bind_some, Option.some.injEq, exists_eq_left']
    have hsub : ∀ k ∈ passedByAll reg params name allData, k ∈ c.params.map (·.name) := by
      intro k hk
      cases allData
      · simp [passedByAll] at hk
      · simp only [passedByAll, hc, List.mem_filter] at hk
        simpa using hk.2
    have hA : (∀ k ∈ passedByAll reg params name allData ++ keys, k ∈ c.params.map (·.name))
        ↔ ∀ k ∈ keys, k ∈ c.params.map (·.name) := by
      constructor
      · intro h k hk
        exact h k (List.mem_append_right _ hk)
      · intro h k hk
        rcases List.mem_append.mp hk with hk | hk
        · exact hsub k hk
        · exact h k hk
    have hB : (∀ r ∈ (c.params.filter (fun p => !p.optional)).map (·.name),
          r ∈ passedByAll reg params name allData ++ keys)
        ↔ ∀ p ∈ c.params, p.optional = false → p.name ∈ passedByAll reg params name allData ++ keys := by
      constructor
      · intro h p hp hopt
        exact h _ (List.mem_map.mpr ⟨p, List.mem_filter.mpr ⟨hp, by simp [hopt]⟩, rfl⟩)
      · intro h r hr
        obtain ⟨p, hp, rfl⟩ := List.mem_map.mp hr
        rw [List.mem_filter] at hp
        exact h p hp.1 (by simpa using hp.2)
    simp only [any_not_contains, hA, hB]
    by_cases h1 : ∀ k ∈ keys, k ∈ c.params.map (·.name)
    · rw [if_neg (not_not_intro h1)]
      simp only [iff_true_intro h1, true_and]
      cases hasData with
      | true => simp only [if_true, exec_pure, some_iff, Bool.true_eq_false, false_implies, true_and]
      | false =>
        simp only [Bool.false_eq_true, if_false, true_implies]
        by_cases h2 : ∀ p ∈ c.params, p.optional = false →
            p.name ∈ passedByAll reg params name allData ++ keys
        · rw [if_neg (not_not_intro h2)]
          simp only [iff_true_intro h2, exec_pure, some_iff, true_and]
        · rw [if_pos h2]
          simp only [iff_false_intro h2, exec_reject, false_and, reduceCtorEq]
    · rw [if_pos h1]
      simp only [iff_false_intro h1, exec_reject, false_and, reduceCtorEq]

end SoyVerif.Lemmas.Check
