/-
  The token view IS the printer's output (`spell_pieces`), and the printed tokens of a
  canonical tree are a rendering of it (`renders_toks`: the printer's parenthesisation is
  the minimal instance of `Renders`).
-/
import SoyVerif.Lemmas.ParserLit
import SoyVerif.Lemmas.ParserQuote

set_option linter.unusedSimpArgs false
set_option linter.unusedVariables false

namespace SoyVerif.Lemmas.ParserToks
open SoyVerif SoyVerif.Model SoyVerif.Model.Parser SoyVerif.Model.PrintTokens SoyVerif.Model.Printer
open SoyVerif.Lemmas.ParserLit SoyVerif.Lemmas.ParserQuote

/-! ### spelling -/

theorem spell_append : (a b : List Piece) → spell (a ++ b) = spell a ++ spell b
  | [], b => rfl
  | .tok t :: r, b => by simp [spell, spell_append r b]
  | .sp :: r, b => by simp [spell, spell_append r b]

theorem spell_map_tok : (ts : List Tk) → spell (ts.map .tok) = (ts.map (·.val)).flatten
  | [] => rfl
  | t :: r => by simp [spell, spell_map_tok r]

theorem spell_wrapP (e : Expr) (m : Nat) (s : List Piece) :
    spell (wrapP e m s) = wrapOperand e m (spell s) := by
  unfold wrapP wrapOperand
  split <;> simp [spell_append, spell, tLP, tRP]

theorem spell_global (n : Bytes) : spell ((globalToks n).map .tok) = n := by
  rw [spell_map_tok]
  unfold globalToks
  have := splitDots_flatten n
  simp [tIdent, tDotIdent, Function.comp_def] at this ⊢
  exact this

section
variable (ff : UInt64 → Bytes)

mutual
  theorem spell_pieces : (e : Expr) → spell (pieces ff e) = printExpr ff e
    | .null _ => rfl
    | .bool _ b => by cases b <;> rfl
    | .int _ v => by simp [pieces, printExpr, spell]
    | .float _ v => by simp [pieces, printExpr, spell]
    | .str _ q _ => by simp [pieces, printExpr, spell, tString]
    | .global _ n => by simp only [pieces, printExpr]; exact spell_global n
    | .func _ n args => by
        simp [pieces, printExpr, spell_append, spell, spell_args args true, tIdent, tLP, tRP]
    | .list _ items => by
        simp [pieces, printExpr, spell_append, spell, spell_items items true, tLB, tRB]
    | .map _ items => by
        cases items with
        | nil => rfl
        | cons k e r =>
          simp [pieces, printExpr, spell_append, spell, spell_map (.cons k e r) true, tLB, tRB]
    | .dataRef _ k acc => by
        simp [pieces, printExpr, spell_append, spell, spell_accs acc]
    | .not _ a => by
        simp [pieces, printExpr, spell_append, spell, spell_wrapP, spell_pieces a, tNot]
    | .neg _ a => by
        have ih := spell_pieces a
        cases a <;>
          (rw [pieces, printExpr]
           all_goals first
             | (intro _ _ h; cases h)
             | (simp only [spell_append, spell_wrapP, ih, spell, tNeg, tLP, tRP]; try simp))
    | .bin op _ a b => by
        simp [pieces, printExpr, spell_append, spell, spell_wrapP, spell_pieces a, spell_pieces b, tOp]
    | .tern _ c a b => by
        simp [pieces, printExpr, spell_append, spell, spell_wrapP, spell_pieces a, spell_pieces b, spell_pieces c,
          tTernIf, tColon]
  theorem spell_args : (l : ExprList) → (first : Bool) → spell (piecesArgs ff l first) = printArgs ff l first
    | .nil, _ => rfl
    | .cons e r, first => by
        cases first <;> simp [piecesArgs, printArgs, spell_append, spell, spell_pieces e, spell_args r false, tComma]
  theorem spell_items : (l : ExprList) → (first : Bool) → spell (piecesItems ff l first) = printItems ff l first
    | .nil, _ => rfl
    | .cons e r, first => by
        cases first <;> simp [piecesItems, printItems, spell_append, spell, spell_pieces e, spell_items r false, tComma]
  theorem spell_map : (m : MapItems) → (first : Bool) → spell (piecesMap ff m first) = printMapEntries ff m first
    | .nil, _ => rfl
    | .cons k e r, first => by
        cases first <;> simp [piecesMap, printMapEntries, spell_append, spell, spell_pieces e, spell_map r false,
          tComma, tString, tColon]
  theorem spell_accs : (l : AccessList) → spell (piecesAccs ff l) = printAccesses ff l
    | .nil => rfl
    | .cons a r => by simp [piecesAccs, printAccesses, spell_append, spell_acc a, spell_accs r]
  theorem spell_acc : (a : Access) → spell (piecesAcc ff a) = printAccess ff a
    | .key _ ns k => by cases ns <;> simp [piecesAcc, printAccess, spell]
    | .index _ ns i => by cases ns <;> simp [piecesAcc, printAccess, spell]
    | .expr _ ns e => by
        cases ns <;> simp [piecesAcc, printAccess, spell_append, spell, spell_pieces e, tQKey, tLB, tRB]
end

end

/-! ### the printed tokens render the tree -/

theorem unsp_append : (a b : List Piece) → unsp (a ++ b) = unsp a ++ unsp b
  | [], b => rfl
  | .tok t :: r, b => by simp [unsp, unsp_append r b]
  | .sp :: r, b => by simp [unsp, unsp_append r b]

theorem unsp_map_tok : (ts : List Tk) → unsp (ts.map .tok) = ts
  | [] => rfl
  | t :: r => by simp [unsp, unsp_map_tok r]

section
variable (ff : UInt64 → Bytes) (pf : Bytes → Option UInt64)

/-- the printer's `operandString` is the minimal instance of an operand slot -/
theorem slot_wrapP (m : Nat) (a : Expr) (h : Renders pf a (toks ff a)) :
    Slot m a (Renders pf a) (unsp (wrapP a m (pieces ff a))) := by
  unfold wrapP
  by_cases hlt : precedenceOf a < m
  · simp only [hlt, if_true]
    exact ⟨1, toks ff a, h, by simp [unsp_append, unsp, parensT, toks], fun _ => Nat.one_pos⟩
  · simp only [hlt, if_false]
    exact ⟨0, toks ff a, h, rfl, fun hh => absurd hh hlt⟩

theorem slot_plain (a : Expr) (h : Renders pf a (toks ff a)) : Slot 0 a (Renders pf a) (toks ff a) :=
  ⟨0, toks ff a, h, rfl, fun hh => absurd hh (Nat.not_lt_zero _)⟩

mutual
  theorem renders_toks : (e : Expr) → Canon ff pf e → Renders pf e (toks ff e)
    | .null _, _ => by simp [toks, pieces, unsp, Renders]
    | .bool _ b, _ => by simp [toks, pieces, unsp, Renders]
    | .int _ v, h => by
        rw [Canon] at h
        simp only [toks, pieces, unsp, Renders]
        exact ⟨fmtInt v, rfl, intLiteral_fmtInt v h⟩
    | .float _ v, h => by
        rw [Canon] at h
        simp only [toks, pieces, unsp, Renders]
        exact ⟨fmtFloatLit ff v, rfl, h⟩
    | .str _ q v, h => by
        rw [Canon] at h
        simp only [toks, pieces, unsp, Renders]
        exact ⟨by trivial, h⟩
    | .global _ n, _ => by
        simp only [toks, pieces, unsp_map_tok, Renders]
        exact ⟨(splitDots n).1, (splitDots n).2, rfl, (splitDots_flatten n).symm⟩
    | .func _ n args, h => by
        rw [Canon] at h
        cases args with
        | nil => simp [toks, pieces, piecesArgs, unsp, Renders]
        | cons e r =>
          rw [CanonL] at h
          rw [Renders]
          refine ⟨toks ff e, unsp (piecesArgs ff r false), slot_plain ff pf e (renders_toks e h.1), renders_args r h.2, ?_⟩
          simp [toks, pieces, piecesArgs, unsp, unsp_append]
    | .list _ items, h => by
        rw [Canon] at h
        cases items with
        | nil => simp [toks, pieces, piecesItems, unsp, Renders]
        | cons e r =>
          rw [CanonL] at h
          rw [Renders]
          refine ⟨toks ff e, unsp (piecesItems ff r false), slot_plain ff pf e (renders_toks e h.1), renders_items r h.2, ?_⟩
          simp [toks, pieces, piecesItems, unsp, unsp_append]
    | .map _ items, h => by
        rw [Canon] at h
        cases items with
        | nil => simp [toks, pieces, unsp, Renders]
        | cons k e r =>
          obtain ⟨hc, hs⟩ := h
          rw [CanonM] at hc
          rw [Renders]
          refine ⟨quoteString k, toks ff e, unsp (piecesMap ff r false), requote k, slot_plain ff pf e (renders_toks e hc.1),
            renders_entries r hc.2, hs, ?_⟩
          simp [toks, pieces, piecesMap, unsp, unsp_append]
    | .dataRef _ k acc, h => by
        rw [Canon] at h
        rw [Renders]
        refine ⟨unsp (piecesAccs ff acc), renders_accs acc h, ?_⟩
        simp [toks, pieces, unsp, unsp_append]
    | .not _ a, h => by
        rw [Canon] at h
        rw [Renders]
        refine ⟨_, slot_wrapP ff pf precUnary a (renders_toks a h), ?_⟩
        simp [toks, pieces, unsp, unsp_append]
    | .neg _ a, h => by
        rw [Canon] at h
        have ih := renders_toks a h
        rw [Renders]
        cases a <;>
          (rw [toks, pieces]
           all_goals first
             | (intro _ _ h; cases h)
             | skip)
        case int p v =>
          exact ⟨_, ⟨1, _, ih, rfl, fun _ => Nat.one_pos⟩, by simp [unsp, unsp_append, parensT, toks]⟩
        case float p v =>
          exact ⟨_, ⟨1, _, ih, rfl, fun _ => Nat.one_pos⟩, by simp [unsp, unsp_append, parensT, toks]⟩
        all_goals
          exact ⟨_, slot_wrapP ff pf precUnary _ ih, by simp [unsp, unsp_append]⟩
    | .bin op _ a b, h => by
        rw [Canon] at h
        rw [Renders]
        refine ⟨_, _, slot_wrapP ff pf (leftMin op) a (renders_toks a h.1),
          slot_wrapP ff pf (rightMin op) b (renders_toks b h.2), ?_⟩
        simp [toks, pieces, unsp, unsp_append]
    | .tern _ c a b, h => by
        rw [Canon] at h
        rw [Renders]
        refine ⟨_, _, _, slot_wrapP ff pf (precElvis + 1) c (renders_toks c h.1),
          slot_wrapP ff pf precElvis a (renders_toks a h.2.1), slot_plain ff pf b (renders_toks b h.2.2), ?_⟩
        simp [toks, pieces, unsp, unsp_append]
  theorem renders_args : (l : ExprList) → CanonL ff pf l → RendersSeq pf l (unsp (piecesArgs ff l false))
    | .nil, _ => by simp [piecesArgs, unsp, RendersSeq]
    | .cons e r, h => by
        rw [CanonL] at h
        rw [RendersSeq]
        refine ⟨toks ff e, _, slot_plain ff pf e (renders_toks e h.1), renders_args r h.2, ?_⟩
        simp [toks, piecesArgs, unsp, unsp_append]
  theorem renders_items : (l : ExprList) → CanonL ff pf l → RendersSeq pf l (unsp (piecesItems ff l false))
    | .nil, _ => by simp [piecesItems, unsp, RendersSeq]
    | .cons e r, h => by
        rw [CanonL] at h
        rw [RendersSeq]
        refine ⟨toks ff e, _, slot_plain ff pf e (renders_toks e h.1), renders_items r h.2, ?_⟩
        simp [toks, piecesItems, unsp, unsp_append]
  theorem renders_entries : (m : MapItems) → CanonM ff pf m → RendersEntries pf m (unsp (piecesMap ff m false))
    | .nil, _ => by simp [piecesMap, unsp, RendersEntries]
    | .cons k e r, h => by
        rw [CanonM] at h
        rw [RendersEntries]
        refine ⟨quoteString k, toks ff e, _, requote k, slot_plain ff pf e (renders_toks e h.1), renders_entries r h.2, ?_⟩
        simp [toks, piecesMap, unsp, unsp_append]
  theorem renders_accs : (l : AccessList) → CanonAL ff pf l → RendersAccs pf l (unsp (piecesAccs ff l))
    | .nil, _ => by simp [piecesAccs, unsp, RendersAccs]
    | .cons a r, h => by
        rw [CanonAL] at h
        rw [RendersAccs]
        exact ⟨_, _, renders_acc a h.1, renders_accs r h.2, by simp [piecesAccs, unsp_append]⟩
  theorem renders_acc : (a : Access) → CanonA ff pf a → RendersAcc pf a (unsp (piecesAcc ff a))
    | .key _ ns k, _ => by cases ns <;> simp [piecesAcc, unsp, RendersAcc]
    | .index _ ns i, h => by
        rw [CanonA] at h
        rw [RendersAcc]
        exact ⟨fmtInt i, parseInt10_fmtInt i h, by cases ns <;> simp [piecesAcc, unsp]⟩
    | .expr _ ns e, h => by
        rw [CanonA] at h
        rw [RendersAcc]
        exact ⟨toks ff e, slot_plain ff pf e (renders_toks e h), by cases ns <;> simp [toks, piecesAcc, unsp, unsp_append]⟩
end

end
end SoyVerif.Lemmas.ParserToks
