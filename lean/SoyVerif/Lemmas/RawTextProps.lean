/- Helper lemmas for the C15 corollaries (filtering and length of the rendered text). -/
import SoyVerif.Lemmas.RawTextSpec

namespace SoyVerif.Props.C15
open SoyVerif SoyVerif.Model SoyVerif.Spec

def nonWs (b : UInt8) : Bool := !isWs b

def flat : List Tok → Bytes
  | [] => []
  | Tok.ws w :: ts => w ++ flat ts
  | Tok.chunk c :: ts => c ++ flat ts

/-- token classes: whitespace runs contain only whitespace, chunks none -/
def Classed : List Tok → Prop
  | [] => True
  | Tok.ws w :: ts => (∀ b ∈ w, isWs b = true) ∧ Classed ts
  | Tok.chunk c :: ts => (∀ b ∈ c, isWs b = false) ∧ Classed ts

theorem tokenize_flat_classed : ∀ s : Bytes, flat (tokenize s) = s ∧ Classed (tokenize s)
  | [] => by simp [tokenize, flat, Classed]
  | b :: r => by
    obtain ⟨ihf, ihc⟩ := tokenize_flat_classed r
    cases ht : tokenize r with
    | nil =>
      rw [ht] at ihf ihc
      rw [tok_nil b r ht]
      by_cases hb : isWs b = true <;> simp_all [flat, Classed]
    | cons t ts =>
      rw [ht] at ihf ihc
      cases t with
      | ws w =>
        rw [tok_ws b r w ts ht]
        by_cases hb : isWs b = true <;> simp_all [flat, Classed]
      | chunk c =>
        rw [tok_chunk b r c ts ht]
        by_cases hb : isWs b = true <;> simp_all [flat, Classed]

theorem filter_ws_nil (w : Bytes) (h : ∀ b ∈ w, isWs b = true) : w.filter nonWs = [] := by
  simp [List.filter_eq_nil_iff, nonWs]; exact h

theorem filter_chunk (c : Bytes) (h : ∀ b ∈ c, isWs b = false) : c.filter nonWs = c := by
  simp [List.filter_eq_self, nonWs]; exact h

theorem innerWs_filter (p q : UInt8) (w : Bytes) (h : ∀ b ∈ w, isWs b = true) :
    (innerWs p q w).filter nonWs = [] := by
  unfold innerWs
  split
  · exact filter_ws_nil w h
  · split <;> simp [nonWs, isWs]

theorem edgeWs_filter (t : Bool) (w : Bytes) (h : ∀ b ∈ w, isWs b = true) :
    (edgeWs t w).filter nonWs = [] := by
  unfold edgeWs
  split
  · rfl
  · exact filter_ws_nil w h

theorem renderRest_filter (ta : Bool) : ∀ (toks : List Tok) (p : UInt8), Classed toks →
    (renderRest ta p toks).filter nonWs = (flat toks).filter nonWs
  | [], _, _ => rfl
  | [Tok.ws w], _, h => by
    simp only [Classed] at h
    simp [renderRest, flat, edgeWs_filter ta w h.1, filter_ws_nil w h.1]
  | Tok.ws w :: Tok.chunk c :: ts, p, h => by
    simp only [Classed] at h
    simp [renderRest, flat, innerWs_filter _ _ w h.1, filter_ws_nil w h.1,
      renderRest_filter ta ts (lastByte c) h.2.2]
  | Tok.chunk c :: ts, p, h => by
    simp only [Classed] at h
    simp [renderRest, flat, renderRest_filter ta ts (lastByte c) h.2]
  | Tok.ws w :: Tok.ws w2 :: ts, p, h => by
    have h' := h
    simp only [Classed] at h
    have ih := renderRest_filter ta (Tok.ws w2 :: ts) p h'.2
    simp [renderRest, flat, innerWs_filter _ _ w h.1, filter_ws_nil w h.1] at ih ⊢
    exact ih

theorem render_filter (tb ta : Bool) : ∀ (toks : List Tok), Classed toks →
    (render tb ta toks).filter nonWs = (flat toks).filter nonWs
  | [], _ => rfl
  | [Tok.ws w], h => by
    have hw : ∀ b ∈ w, isWs b = true := by simp only [Classed] at h; exact h.1
    simp only [render, flat, List.append_nil]
    split
    · simp [filter_ws_nil w hw]
    · rfl
  | Tok.ws w :: Tok.chunk c :: ts, h => by
    simp only [Classed] at h
    simp [render, flat, edgeWs_filter tb w h.1, filter_ws_nil w h.1, renderRest_filter ta ts (lastByte c) h.2.2]
  | Tok.chunk c :: ts, h => by
    simp only [Classed] at h
    simp [render, flat, renderRest_filter ta ts (lastByte c) h.2]
  | Tok.ws w :: Tok.ws w2 :: ts, h => by
    have h' := h
    simp only [Classed] at h
    have ih := render_filter tb ta (Tok.ws w2 :: ts) h'.2
    simp [render, flat, edgeWs_filter tb w h.1, filter_ws_nil w h.1] at ih ⊢
    exact ih

theorem hasNL_pos (w : Bytes) (h : hasNL w = true) : 1 ≤ w.length := by
  cases w with
  | nil => simp at h
  | cons b w => simp

theorem innerWs_len (p q : UInt8) (w : Bytes) : (innerWs p q w).length ≤ w.length := by
  unfold innerWs
  by_cases h : hasNL w = true
  · have := hasNL_pos w h
    simp only [h, Bool.not_true, Bool.false_eq_true, if_false]
    split <;> simp <;> omega
  · simp [h]

theorem edgeWs_len (t : Bool) (w : Bytes) : (edgeWs t w).length ≤ w.length := by
  unfold edgeWs; split <;> simp

theorem renderRest_len (ta : Bool) : ∀ (toks : List Tok) (p : UInt8),
    (renderRest ta p toks).length ≤ (flat toks).length
  | [], _ => by simp [renderRest, flat]
  | [Tok.ws w], _ => by simpa [renderRest, flat] using edgeWs_len ta w
  | Tok.ws w :: Tok.chunk c :: ts, p => by
    have := renderRest_len ta ts (lastByte c)
    have := innerWs_len p (firstByte c) w
    simp [renderRest, flat]; omega
  | Tok.chunk c :: ts, p => by
    have := renderRest_len ta ts (lastByte c)
    simp [renderRest, flat]; omega
  | Tok.ws w :: Tok.ws w2 :: ts, p => by
    have := renderRest_len ta (Tok.ws w2 :: ts) p
    have := innerWs_len p p w
    simp [renderRest, flat] at *; omega

theorem render_len (tb ta : Bool) : ∀ (toks : List Tok), (render tb ta toks).length ≤ (flat toks).length
  | [] => by simp [render, flat]
  | [Tok.ws w] => by
    simp only [render, flat, List.append_nil]
    split <;> simp
  | Tok.ws w :: Tok.chunk c :: ts => by
    have := renderRest_len ta ts (lastByte c)
    have := edgeWs_len tb w
    simp [render, flat]; omega
  | Tok.chunk c :: ts => by
    have := renderRest_len ta ts (lastByte c)
    simp [render, flat]; omega
  | Tok.ws w :: Tok.ws w2 :: ts => by
    have := render_len tb ta (Tok.ws w2 :: ts)
    have := edgeWs_len tb w
    simp [render, flat] at *; omega

end SoyVerif.Props.C15
