/-
  `Parts` inverts `PlaceholderString` on flat (non-plural) bodies whose text runs contain no
  `{[A-Z0-9_]+}` and whose names are in `[A-Z0-9_]+` (C11's `parts_placeholderString`).
-/
import SoyVerif.Model.Msg

namespace SoyVerif.Model.Msg

/-- the text/placeholder sequence of a flat named body: adjacent texts merged, empty
    texts dropped (`pend` = text accumulated so far) -/
def expectedParts : List NPart → Bytes → List MsgPart
  | [], pend => flushText pend
  | .text t :: r, pend => expectedParts r (pend ++ t)
  | .ph n :: r, pend => flushText pend ++ .ph n :: expectedParts r []
  | .plural _ _ _ :: r, pend => expectedParts r pend

/-- the concatenated leading texts of a body -/
def leadText : List NPart → Bytes
  | .text t :: r => t ++ leadText r
  | _ => []

/-- no position of `t` starts a `{[A-Z0-9_]+}` -/
def NoMatch (t : Bytes) : Prop := ∀ k, matchPh (t.drop k) = none

def ValidName (n : Bytes) : Prop := n ≠ [] ∧ ∀ b ∈ n, isPhChar b = true

/-- flat body, valid names, and no placeholder-shaped substring in the text run that
    follows each placeholder -/
def FlatOK : List NPart → Prop
  | [] => True
  | .text _ :: r => FlatOK r
  | .ph n :: r => ValidName n ∧ NoMatch (leadText r) ∧ FlatOK r
  | .plural _ _ _ :: _ => False

/-- what follows the leading texts in the placeholder string: nothing, or a `{` -/
def BraceOrEnd (tail : Bytes) : Prop := tail = [] ∨ ∃ tl, tail = 123 :: tl

theorem phRun_append_tail (tail : Bytes) (h : BraceOrEnd tail) : ∀ r, phRun (r ++ tail) = phRun r
  | [] => by
    rcases h with h | ⟨tl, h⟩
    · simp [h]
    · subst h
      simp only [List.nil_append, phRun]
      have h1 : ((123 : UInt8) == 125) = false := by decide
      have h2 : isPhChar 123 = false := by decide
      simp [h1, h2]
  | b :: r => by
    simp only [List.cons_append, phRun, phRun_append_tail tail h r]

theorem matchPh_append_tail (tail : Bytes) (h : BraceOrEnd tail) (s : Bytes) (hs : s ≠ []) :
    matchPh (s ++ tail) = matchPh s := by
  cases s with
  | nil => exact absurd rfl hs
  | cons b r =>
    by_cases hb : b = 123
    · subst hb
      simp only [List.cons_append, matchPh, phRun_append_tail tail h r]
    · simp only [List.cons_append]
      unfold matchPh
      split
      · next heq => simp only [List.cons.injEq] at heq; exact absurd heq.1 hb
      · split
        · next heq => simp only [List.cons.injEq] at heq; exact absurd heq.1 hb
        · rfl

theorem phRun_name (n rest : Bytes) (h : ∀ b ∈ n, isPhChar b = true) : phRun (n ++ 125 :: rest) = some n := by
  induction n with
  | nil => simp [phRun]
  | cons b n ih =>
    have hb : isPhChar b = true := h b (by simp)
    have hne : (b == 125) = false := by
      cases hc : b == 125 with
      | false => rfl
      | true =>
        have : b = 125 := by simpa using hc
        subst this
        exact absurd hb (by decide)
    simp only [List.cons_append, phRun, hne, hb, if_true, ih (fun x hx => h x (by simp [hx]))]
    simp

theorem matchPh_name (n rest : Bytes) (h : ValidName n) : matchPh (123 :: n ++ 125 :: rest) = some n := by
  obtain ⟨hne, hall⟩ := h
  have : (123 : UInt8) :: n ++ 125 :: rest = 123 :: (n ++ 125 :: rest) := rfl
  rw [this]
  simp only [matchPh, phRun_name n rest hall]
  cases n with
  | nil => exact absurd rfl hne
  | cons a n => rfl

theorem partsGo_skip : ∀ (xs : Bytes) (pend rest : Bytes),
    partsGo xs.length pend (xs ++ rest) = partsGo 0 pend rest
  | [], _, _ => rfl
  | _ :: xs, pend, rest => by
    simp only [List.length_cons, List.cons_append, partsGo]
    exact partsGo_skip xs pend rest

/-- scanning across text in which no match starts just accumulates it -/
theorem partsGo_text : ∀ (t pend rest : Bytes), (∀ k, k < t.length → matchPh (t.drop k ++ rest) = none) →
    partsGo 0 pend (t ++ rest) = partsGo 0 (pend ++ t) rest
  | [], pend, rest, _ => by simp
  | b :: t, pend, rest, h => by
    have h0 := h 0 (by simp)
    simp only [List.drop_zero, List.cons_append] at h0
    simp only [List.cons_append, partsGo, h0]
    rw [partsGo_text t (pend ++ [b]) rest]
    · simp
    · intro k hk
      have := h (k + 1) (by simp; omega)
      simpa using this

theorem writeFPList_lead : ∀ nb : List NPart, FlatOK nb →
    ∃ tail, writeFPList true nb = leadText nb ++ tail ∧ BraceOrEnd tail
  | [], _ => ⟨[], by simp [writeFPList, leadText], Or.inl rfl⟩
  | .text t :: r, h => by
    obtain ⟨tail, h1, h2⟩ := writeFPList_lead r h
    exact ⟨tail, by simp [writeFPList, writeFP, leadText, h1], h2⟩
  | .ph n :: r, _ => ⟨writeFPList true (.ph n :: r), by simp [leadText],
      Or.inr ⟨n ++ 125 :: writeFPList true r, by simp [writeFPList, writeFP]⟩⟩
  | .plural _ _ _ :: _, h => by simp [FlatOK] at h

theorem noMatch_drop {t : Bytes} (h : NoMatch t) (k : Nat) : NoMatch (t.drop k) := by
  intro j
  rw [List.drop_drop]
  exact h _

/-- the scanning loop of `Parts` over the placeholder string of a flat body -/
theorem partsGo_writeFP : ∀ (nb : List NPart) (pend : Bytes), NoMatch (leadText nb) → FlatOK nb →
    partsGo 0 pend (writeFPList true nb) = expectedParts nb pend
  | [], pend, _, _ => by simp [writeFPList, expectedParts, partsGo]
  | .text t :: r, pend, hn, hf => by
    have hf' : FlatOK r := hf
    have hn' : NoMatch (leadText r) := by
      have := noMatch_drop hn t.length
      simpa [leadText] using this
    simp only [writeFPList, writeFP, expectedParts]
    rw [partsGo_text t pend _ ?_]
    · exact partsGo_writeFP r (pend ++ t) hn' hf'
    · intro k hk
      obtain ⟨tail, h1, h2⟩ := writeFPList_lead r hf'
      rw [h1, ← List.append_assoc]
      rw [matchPh_append_tail tail h2]
      · have := hn k
        simp only [leadText] at this
        rw [List.drop_append_of_le_length (Nat.le_of_lt hk)] at this
        exact this
      · intro he
        have := congrArg List.length he
        simp at this
        omega
  | .ph n :: r, pend, _, hf => by
    obtain ⟨hv, hn', hf'⟩ := hf
    simp only [writeFPList, writeFP, if_true, expectedParts]
    have e : (123 :: n ++ [125]) ++ writeFPList true r = 123 :: n ++ 125 :: writeFPList true r := by simp
    rw [e]
    have hm := matchPh_name n (writeFPList true r) hv
    have e2 : (123 : UInt8) :: n ++ 125 :: writeFPList true r = 123 :: (n ++ 125 :: writeFPList true r) := rfl
    rw [e2] at hm ⊢
    simp only [partsGo, hm]
    have e3 : n ++ 125 :: writeFPList true r = (n ++ [125]) ++ writeFPList true r := by simp
    have e4 : n.length + 1 = (n ++ [125]).length := by simp
    rw [e3, e4, partsGo_skip, partsGo_writeFP r [] hn' hf']
  | .plural _ _ _ :: _, _, _, hf => by simp [FlatOK] at hf

end SoyVerif.Model.Msg

namespace SoyVerif.Model.Msg

/-- executable form of `NoMatch` -/
def noMatchB (t : Bytes) : Bool := (List.range (t.length + 1)).all fun k => (matchPh (t.drop k)).isNone

theorem noMatch_of_noMatchB {t : Bytes} (h : noMatchB t = true) : NoMatch t := by
  intro k
  by_cases hk : k < t.length + 1
  · have := List.all_eq_true.mp h k (List.mem_range.mpr hk)
    simpa using this
  · have : t.drop k = [] := List.drop_eq_nil_of_le (by omega)
    rw [this]; rfl

end SoyVerif.Model.Msg
