/-
  Literal spellings of the printer read back by the parser: `strconv.FormatInt` /
  `strconv.ParseInt` on the int64 range (model: `Printer.fmtInt`, `Parser.intLiteral`,
  `Parser.parseInt10`), and the lossless split of a dotted global name.
-/
import SoyVerif.Model.PrintTokens

set_option linter.unusedSimpArgs false

namespace SoyVerif.Lemmas.ParserLit
open SoyVerif SoyVerif.Model SoyVerif.Model.Parser SoyVerif.Model.PrintTokens SoyVerif.Model.Printer

/-- one step of `decDigits` -/
def digStep (acc : Nat) (d : UInt8) : Option Nat :=
  if 48 ≤ d.toNat && d.toNat ≤ 57 then some (acc * 10 + (d.toNat - 48)) else none

theorem decDigits_eq (s : Bytes) (h : s ≠ []) : decDigits s = s.foldlM digStep 0 := by
  cases s with
  | nil => exact absurd rfl h
  | cons a r => rfl

theorem digStep_digit (acc n : Nat) (h : n < 10) : digStep acc (UInt8.ofNat (48 + n)) = some (acc * 10 + n) := by
  have : (UInt8.ofNat (48 + n)).toNat = 48 + n := by
    simp [UInt8.toNat_ofNat']; omega
  have h1 : (decide (48 ≤ 48 + n) && decide (48 + n ≤ 57)) = true := by simp; omega
  have h2 : 48 + n - 48 = n := by omega
  simp only [digStep, this, h1, if_true, h2]

theorem natDigitsAux_acc : ∀ (fuel n : Nat) (acc : Bytes), n < fuel →
    natDigitsAux fuel n acc = natDigitsAux fuel n [] ++ acc := by
  intro fuel
  induction fuel with
  | zero => intro n acc h; omega
  | succ f ih =>
    intro n acc h
    unfold natDigitsAux
    by_cases hn : n < 10
    · simp [hn]
    · simp only [hn, if_false]
      rw [ih (n / 10) _ (by omega), ih (n / 10) [_] (by omega)]
      simp

/-- reading the digits of `n` continues an accumulated value `a` to … the value of `n` when `a = 0` -/
theorem foldl_natDigitsAux : ∀ (fuel n : Nat), n < fuel →
    (natDigitsAux fuel n []).foldlM digStep 0 = some n := by
  intro fuel
  induction fuel with
  | zero => intro n h; omega
  | succ f ih =>
    intro n h
    unfold natDigitsAux
    by_cases hn : n < 10
    · simp only [hn, if_true]
      rw [List.foldlM_cons, digStep_digit 0 n hn]
      simp
    · simp only [hn, if_false]
      rw [natDigitsAux_acc f (n / 10) _ (by omega), List.foldlM_append, ih (n / 10) (by omega)]
      rw [Option.bind_eq_bind, Option.bind_some, List.foldlM_cons, digStep_digit (n / 10) (n % 10) (Nat.mod_lt _ (by omega))]
      have : n / 10 * 10 + n % 10 = n := by omega
      simp [this]

theorem natDigits_ne_nil (n : Nat) : natDigits n ≠ [] := by
  unfold natDigits natDigitsAux
  by_cases hn : n < 10
  · simp [hn]
  · simp only [hn, if_false]
    rw [natDigitsAux_acc n (n / 10) _ (by omega)]
    simp

theorem decDigits_natDigits (n : Nat) : decDigits (natDigits n) = some n := by
  rw [decDigits_eq _ (natDigits_ne_nil n)]
  exact foldl_natDigitsAux (n + 1) n (by omega)

/-- the first byte of a digit string that reads back is a digit -/
theorem head_digit {a : UInt8} {r : Bytes} {n : Nat} (h : (a :: r).foldlM digStep 0 = some n) :
    48 ≤ a.toNat ∧ a.toNat ≤ 57 := by
  simp only [List.foldlM] at h
  by_cases hd : (48 ≤ a.toNat && a.toNat ≤ 57) = true
  · simpa using hd
  · simp [digStep, hd] at h

theorem parseInt10_natDigits (n : Nat) (h : inInt64 (Int.ofNat n) = true) :
    parseInt10 (natDigits n) = some (Int.ofNat n) := by
  have hd := decDigits_natDigits n
  cases hs : natDigits n with
  | nil => exact absurd hs (natDigits_ne_nil n)
  | cons a r =>
    rw [hs] at hd
    have hh := head_digit (by rw [← decDigits_eq _ (by simp)]; exact hd)
    have h45 : a ≠ 45 := by intro h; subst h; simp at hh
    have h43 : a ≠ 43 := by intro h; subst h; simp at hh
    unfold parseInt10
    split
    · rename_i ds heq; simp at heq; exact absurd heq.1 h45
    · rename_i ds heq; simp at heq; exact absurd heq.1 h43
    · simp [hd]; exact h

theorem parseInt10_fmtInt (v : Int) (h : inInt64 v = true) : parseInt10 (fmtInt v) = some v := by
  unfold fmtInt
  by_cases hv : v < 0
  · simp only [hv, if_true]
    unfold parseInt10
    simp only [decDigits_natDigits, Option.map_some, Option.bind_some]
    have : -Int.ofNat v.natAbs = v := by simp only [Int.ofNat_eq_natCast]; omega
    rw [this, h]; rfl
  · simp only [hv, if_false]
    have : Int.ofNat v.natAbs = v := by simp only [Int.ofNat_eq_natCast]; omega
    have h2 := parseInt10_natDigits v.natAbs (by rw [this]; exact h)
    rw [this] at h2; exact h2

/-- a decimal spelling never starts with "0x" -/
theorem intLiteral_fmtInt (v : Int) (h : inInt64 v = true) : intLiteral (fmtInt v) = some v := by
  have hp := parseInt10_fmtInt v h
  unfold intLiteral
  split
  · rename_i ds heq
    -- "0x…" cannot be a decimal spelling
    exfalso
    unfold fmtInt at heq
    by_cases hv : v < 0
    · simp [hv] at heq
    · simp only [hv, if_false] at heq
      have hd := decDigits_natDigits v.natAbs
      rw [heq, decDigits_eq _ (by simp)] at hd
      simp [List.foldlM, digStep] at hd
  · exact hp

/-! ### dotted names -/

theorem splitDots_flatten : (n : Bytes) → (splitDots n).1 ++ (splitDots n).2.flatten = n
  | [] => rfl
  | b :: r => by
    have ih := splitDots_flatten r
    unfold splitDots
    by_cases hb : (b == 46) = true
    · simp only [hb, if_true]
      have : b = 46 := by simpa using hb
      subst this
      simp [ih]
    · simp only [hb, if_false]
      simp [ih]

end SoyVerif.Lemmas.ParserLit
