/-
  Every function of the tree walk is `GoodRun` (mutual structural induction over the command tree),
  hence every template invocation and the entry point `execute`.
-/
import SoyVerif.Lemmas.EvalComb

namespace SoyVerif.Model.Eval
open SoyVerif SoyVerif.Model

/-! ### evalMsgParts -/

theorem pickPh_mem (name : Bytes) : ∀ (phs : List (Nat × Bytes × Run)) (best : Option (Nat × Run)) (run : Run),
    pickPh name phs best = some run → (∃ e ∈ phs, e.2.2 = run) ∨ (∃ d, best = some (d, run)) := by
  intro phs
  induction phs with
  | nil =>
    intro best run h
    cases best with
    | none => simp [pickPh] at h
    | some b => simp [pickPh] at h; exact Or.inr ⟨b.1, by rw [← h]⟩
  | cons e r ih =>
    intro best run h
    obtain ⟨d, n, rn⟩ := e
    unfold pickPh at h
    have lift : ∀ {b : Option (Nat × Run)}, pickPh name r b = some run → (b = best ∨ b = some (d, rn)) →
        (∃ e ∈ (d, n, rn) :: r, e.2.2 = run) ∨ (∃ d, best = some (d, run)) := by
      intro b hb hcase
      rcases ih b run hb with ⟨e, he, her⟩ | ⟨d', hd'⟩
      · exact Or.inl ⟨e, List.mem_cons_of_mem _ he, her⟩
      · rcases hcase with rfl | rfl
        · exact Or.inr ⟨d', hd'⟩
        · simp only [Option.some.injEq, Prod.mk.injEq] at hd'
          exact Or.inl ⟨(d, n, rn), List.mem_cons_self, hd'.2⟩
    split at h
    · split at h
      · split at h
        · exact lift h (Or.inr rfl)
        · exact lift h (Or.inl rfl)
      · exact lift h (Or.inr rfl)
    · exact lift h (Or.inl rfl)

section
variable (g : GEnv) (phs : List (Nat × Bytes × Run)) (body : MsgParts) (hphs : ∀ e ∈ phs, GoodRun e.2.2)
include hphs

mutual
theorem evalMParts_good : (parts : MParts) → GoodRun (evalMParts g phs body parts)
  | .nil => by intro ctx st _; unfold evalMParts; exact Good.leaf (by simp) (Ext.of_heap_eq rfl rfl)
  | .cons (.raw t) rest => by
    intro ctx st hown
    unfold evalMParts
    exact Good.after (write_ext _ st t) (evalMParts_good rest ctx _ (hown.ext (write_ext (fun _ => False) st t)))
  | .cons (.ph name) rest => by
    intro ctx st hown
    unfold evalMParts
    split
    · exact Good.leaf (by simp) (Ext.of_heap_eq rfl rfl)
    · rename_i run hp
      have hrun : GoodRun run := by
        rcases pickPh_mem name phs none run hp with ⟨e, he, her⟩ | ⟨d, hd⟩
        · rw [← her]; exact hphs e he
        · simp at hd
      have hg := hrun ctx st hown
      simp only
      split
      · rename_i hok
        rw [hg.ctx_eq hok]
        exact Good.after hg.ext (evalMParts_good rest ctx _ (hown.ext hg.ext))
      · rename_i hnok
        exact ⟨hg.np, fun e => absurd e (by intro h; exact hnok h), hg.ext⟩
  | .cons (.plural vn cases) rest => by
    intro ctx st hown
    unfold evalMParts
    split
    · exact Good.leaf (by simp) (Ext.of_heap_eq rfl rfl)
    · split
      · rename_i i st1 he
        have e1 := evalIn_ext (fun i => i = top ctx) he
        split
        · exact Good.leaf (by simp) e1
        · simp only
          split
          · exact Good.leaf (by simp) e1
          · rename_i b _ _
            have hg := evalMCases_good cases (b.pluralCase i.toInt).toNat ctx st1 (hown.ext e1)
            split
            · rename_i hok
              rw [hg.ctx_eq hok]
              exact Good.after (e1.trans hg.ext (fun _ _ h => h)) (evalMParts_good rest ctx _ ((hown.ext e1).ext hg.ext))
            · rename_i hnok
              exact ⟨hg.np, fun e => absurd e (by intro h; exact hnok h), e1.trans hg.ext (fun _ _ h => h)⟩
      · rename_i st1 he; exact Good.leaf (by simp) (evalIn_ext _ he)
      · exact Good.leaf (by simp) (Ext.of_heap_eq rfl rfl)
theorem evalMCases_good : (cases : MCases) → (i : Nat) → GoodRun (evalMCases g phs body cases i)
  | .nil, _ => by intro ctx st _; unfold evalMCases; exact Good.leaf (by simp) (Ext.of_heap_eq rfl rfl)
  | .cons parts _, 0 => by intro ctx st hown; unfold evalMCases; exact evalMParts_good parts ctx st hown
  | .cons _ rest, i + 1 => by intro ctx st hown; unfold evalMCases; exact evalMCases_good rest i ctx st hown
end
end

end SoyVerif.Model.Eval

namespace SoyVerif.Model.Eval
open SoyVerif SoyVerif.Model

/-! ### evalCall: the callee's scope -/

theorem newScope_spec (m : Frame) (ro : Bool) (st : St) :
    (newScope m ro st).1 = [⟨st.heap.length, false⟩] ∧ (∀ W, Ext W st (newScope m ro st).2) ∧
    (newScope m ro st).2.heap = st.heap ++ [⟨m, ro⟩] := by
  refine ⟨rfl, ?_, rfl⟩
  intro W
  refine ⟨by simp [newScope], ?_, rfl⟩
  intro i c hc
  have hi : i < st.heap.length := (List.getElem?_eq_some_iff.mp hc).1
  exact ⟨c, by simp [newScope, List.getElem?_append_left hi, hc], rfl, fun _ => rfl⟩

/-- the scope built for the callee is fresh: its top frame is an own cell that did not exist before -/
theorem callData_spec {g : GEnv} {allData : Bool} {data : Option Expr} {ctx cd : Scope} {st st1 : St}
    (h : callData g allData data ctx st = some (cd, st1)) :
    Ext (fun _ => False) st st1 ∧ Own cd st1 ∧ st.heap.length ≤ top cd := by
  unfold callData at h
  split at h
  · split at h
    · simp at h
    · rename_i sc _
      simp only [Option.some.injEq] at h
      obtain ⟨h1, h2, h3, _⟩ := push_spec sc st
      rw [h] at h1 h2 h3
      simp only at h1 h2 h3
      exact ⟨h3 _, h2, by rw [h1]; exact Nat.le_refl _⟩
  · split at h
    · split at h
      · rename_i id kvs sta he
        have e1 := evalIn_ext (fun _ => False) he
        obtain ⟨n1, n2, n3⟩ := newScope_spec kvs true sta
        obtain ⟨h1, h2, h3, _⟩ := push_spec (newScope kvs true sta).1 (newScope kvs true sta).2
        simp only [Option.some.injEq] at h
        rw [h] at h1 h2 h3
        simp only at h1 h2 h3
        refine ⟨(e1.trans (n2 _) (fun _ _ h => h)).trans (h3 _) (fun _ _ h => h), h2, ?_⟩
        rw [h1]
        show st.heap.length ≤ (newScope kvs true sta).2.heap.length
        exact Nat.le_trans e1.len (n2 (fun _ => False)).len
      · simp at h
    · simp only [Option.some.injEq] at h
      obtain ⟨n1, n2, n3⟩ := newScope_spec [] false st
      rw [h] at n1 n2 n3
      simp only at n1 n2 n3
      refine ⟨n2 _, ⟨⟨st.heap.length, false⟩, [], ⟨[], false⟩, n1, by rw [n3]; simp, rfl⟩, by rw [n1]; exact Nat.le_refl _⟩

theorem enter_spec {cd : Scope} {s : St} (hown : Own cd s) :
    ∃ cctx s2, enter cd s = some (cctx, s2) ∧ Own cctx s2 ∧ (∀ W, Ext W s s2) ∧ top cctx = s.heap.length := by
  obtain ⟨f, r, c, hcd, _, _⟩ := hown
  subst hcd
  obtain ⟨h1, h2, h3, _⟩ := push_spec ({ f with entered := true } :: r) s
  exact ⟨_, _, rfl, h2, h3, rfl⟩

/-- a sub-run followed by a continuation on its scope and state -/
theorem Good.seq {ctx : Scope} {st : St} {r : R} {k : Scope → St → R} (W : Nat → Prop)
    (h1 : Good W ctx st r) (hk : r.cls = .ok → Good W ctx r.st (k ctx r.st)) :
    Good W ctx st (match r.cls with | .ok => k r.ctx r.st | _ => r) := by
  split
  · rename_i hok
    rw [h1.ctx_eq hok]
    exact Good.after h1.ext (hk hok)
  · rename_i hnok
    exact ⟨h1.np, fun e => absurd e (by intro h; exact hnok h), h1.ext⟩

section
variable (g : GEnv) (esc : Bool) (call : Registry.Tmpl → Run) (hcall : ∀ t, GoodRun (call t))
include hcall

mutual
theorem execCmd_good : (c : Cmd) → GoodRun (execCmd g esc call c)
  | .rawText _ _ => by intro ctx st _; rw [execCmd]; exact Good.leaf (by simp) (write_ext _ _ _)
  | .print pos arg dirs => by intro ctx st h; rw [execCmd]; exact evalPrint_good g esc pos arg dirs ctx st h
  | .msg _ id _ _ _ body => by
    intro ctx st _
    rw [execCmd]
    refine walkBlockOf_good ?_ ctx st ‹_›
    intro ctx1 st1 hown1
    simp only
    split
    · exact walkMsgBody_good body _ _ hown1
    · split
      · exact walkMsgBody_good body _ _ hown1
      · exact evalMParts_good g _ body (phAll_good body 0) _ _ _ hown1
  | .css _ none suffix => by
    intro ctx st _
    rw [execCmd]
    exact Good.leaf (by simp) (write_ext _ _ _)
  | .css _ (some e) suffix => by
    intro ctx st _
    rw [execCmd]
    split
    · exact Good.leaf (by simp) (Ext.of_heap_eq rfl rfl)
    · rename_i v st1 he
      split
      · exact Good.leaf (by simp) (evalIn_ext _ he)
      · exact Good.leaf (by simp) ((evalIn_ext _ he).trans (write_ext _ _ _) (fun _ _ h => h))
  | .debugger _ => by intro ctx st _; rw [execCmd]; exact Good.leaf (by simp) (Ext.of_heap_eq rfl rfl)
  | .log _ body => by
    intro ctx st _
    rw [execCmd]
    have h := (renderBlockOf_good' (execBody_good body) ctx st).1
    exact ⟨h.np, h.ctx_eq, h.ext.mono (fun _ h => h.elim)⟩
  | .ifc _ conds => by intro ctx st h; rw [execCmd]; exact execConds_good conds ctx st h
  | .forc _ var list body ifEmpty => by
    intro ctx st hown
    rw [execCmd]
    split
    · rename_i id xs st1 he
      have e1 := evalIn_ext (fun i => i = top ctx) he
      split
      · split
        · rename_i b
          exact Good.after e1 (walkBlockOf_good (execBody_good b) ctx st1 (hown.ext e1))
        · exact Good.leaf (by simp) e1
      · exact Good.after e1 ((forLoop_good (execBody_good body) var _ xs 0 ctx st1).mono (fun _ h => h.elim))
    · rename_i st1 he; exact Good.leaf (by simp) (evalIn_ext _ he)
    · exact Good.leaf (by simp) (Ext.of_heap_eq rfl rfl)
  | .switch _ value cases => by
    intro ctx st hown
    rw [execCmd]
    split
    · exact Good.leaf (by simp) (Ext.of_heap_eq rfl rfl)
    · rename_i sv st1 he
      have e1 := evalIn_ext (fun i => i = top ctx) he
      exact Good.after e1 (execCases_good cases none (fun _ h => by cases h) sv ctx st1 (hown.ext e1))
  | .call _ name allData data params => by
    intro ctx st hown
    rw [execCmd]
    split
    · exact Good.leaf (by simp) (Ext.of_heap_eq rfl rfl)
    · rename_i callee _
      split
      · exact Good.leaf (by simp) ((noteImpossible_ext _ _ _ _).trans (Ext.atNode _ _ _) (fun _ _ h => h))
      · rename_i cd st1 hcd
        obtain ⟨e1, owncd, hfresh⟩ := callData_spec hcd
        have hp := execParams_good params cd ctx st1 owncd
        -- relative to `st`, the callee's param frame is new
        have e2 : Ext (fun _ => False) st (execParams g esc call params cd ctx st1).st :=
          e1.trans hp.ext (fun i hi hw => by omega)
        simp only
        split
        · rename_i hok
          obtain ⟨cctx, s2, hent, ownc, e3, htopc⟩ := enter_spec (owncd.ext hp.ext)
          rw [hent]
          simp only
          have hc := hcall callee cctx s2 ownc
          refine ⟨hc.np, fun _ => hp.ctx_eq hok, ?_⟩
          have e4 : Ext (fun _ => False) st s2 := e2.trans (e3 (fun _ => False)) (fun _ _ h => h)
          exact ((e4.trans hc.ext (fun i hi hw => by
            have := e2.len
            rw [htopc] at hw; omega)).trans (Ext.atNode (fun _ => False) _ _) (fun _ _ h => h)).mono (fun _ h => h.elim)
        · rename_i hnok
          exact ⟨hp.np, fun e => absurd e (by intro h; exact hnok h), e2.mono (fun _ h => h.elim)⟩
  | .letValue _ name e => by
    intro ctx st hown
    rw [execCmd]
    split
    · exact Good.leaf (by simp) (Ext.of_heap_eq rfl rfl)
    · rename_i v st1 he
      have e1 := evalIn_ext (fun i => i = top ctx) he
      split
      · exact Good.leaf (by simp) e1
      · rename_i st2 hs
        exact Good.leaf (by simp) (e1.trans (set_ext (hown.ext e1) hs) (fun _ _ h => h))
  | .letContent _ name body => by
    intro ctx st hown
    rw [execCmd]
    have h := (renderBlockOf_good' (execBody_good body) ctx st).1
    have hm : Ext (fun i => i = top ctx) st (renderBlockOf (execBody g esc call body) ctx st).1.st := h.ext.mono (fun _ h => h.elim)
    split
    · rename_i hok
      rw [h.ctx_eq hok]
      split
      · exact Good.leaf (by simp) hm
      · rename_i st2 hs
        exact Good.leaf (by simp) (hm.trans (set_ext (hown.ext hm) hs) (fun _ _ h => h))
    · rename_i hnok
      exact ⟨h.np, fun e => absurd e (by intro h; exact hnok h), hm⟩
  | .headerParam .. => by intro ctx st _; rw [execCmd]; exact Good.leaf (by simp) (Ext.of_heap_eq rfl rfl)
  | .namespace .. => by intro ctx st _; rw [execCmd]; exact Good.leaf (by simp) (Ext.of_heap_eq rfl rfl)
  | .template .. => by intro ctx st _; rw [execCmd]; exact Good.leaf (by simp) (Ext.of_heap_eq rfl rfl)
  | .soyDoc .. => by intro ctx st _; rw [execCmd]; exact Good.leaf (by simp) (Ext.of_heap_eq rfl rfl)
theorem execBody_good : (b : Block) → GoodRun (execBody g esc call b)
  | .mk _ cmds => by intro ctx st h; rw [execBody]; exact GoodRun.at (execCmds_good cmds) ctx st _ h
theorem execCmds_good : (cs : CmdList) → GoodRun (execCmds g esc call cs)
  | .nil => by intro ctx st _; rw [execCmds]; exact Good.leaf (by simp) (Ext.of_heap_eq rfl rfl)
  | .cons c rest => by
    intro ctx st hown
    rw [execCmds]
    have h1 := GoodRun.at (execCmd_good c) ctx st (cmdPos c) hown
    exact Good.seq _ h1 (fun _ => execCmds_good rest ctx _ (hown.ext h1.ext))
theorem execConds_good : (cs : CondList) → GoodRun (execConds g esc call cs)
  | .nil => by intro ctx st _; rw [execConds]; exact Good.leaf (by simp) (Ext.of_heap_eq rfl rfl)
  | .cons _ none body rest => by
    intro ctx st hown
    rw [execConds]
    exact walkBlockOf_good (execBody_good body) ctx st hown
  | .cons _ (some c) body rest => by
    intro ctx st hown
    rw [execConds]
    split
    · exact Good.leaf (by simp) (Ext.of_heap_eq rfl rfl)
    · rename_i v st1 he
      have e1 := evalIn_ext (fun i => i = top ctx) he
      split
      · exact Good.after e1 (walkBlockOf_good (execBody_good body) ctx st1 (hown.ext e1))
      · exact Good.after e1 (execConds_good rest ctx st1 (hown.ext e1))
theorem execCases_good : (cs : CaseList) → (dflt : Option Run) → (∀ d, dflt = some d → GoodRun d) → (sv : Value) →
    GoodRun (execCases g esc call cs dflt sv)
  | .nil, dflt, hd, _ => by
    intro ctx st hown; rw [execCases]
    cases dflt with
    | none => exact Good.leaf (by simp [runDefault]) (Ext.of_heap_eq rfl rfl)
    | some d => exact hd d rfl ctx st hown
  | .cons _ values body rest, dflt, hd, sv => by
    intro ctx st hown
    rw [execCases]
    split
    · exact Good.leaf (by simp) (Ext.of_heap_eq rfl rfl)
    · rename_i st1 hm
      have e1 := matchCase_ext (fun i => i = top ctx) _ _ _ _ hm
      exact Good.after e1 (walkBlockOf_good (execBody_good body) ctx st1 (hown.ext e1))
    · rename_i st1 hm
      have e1 := matchCase_ext (fun i => i = top ctx) _ _ _ _ hm
      exact Good.after e1 (execCases_good rest _
        (pickDefault_all (P := GoodRun) (fun ctx st h => walkBlockOf_good (execBody_good body) ctx st h) hd) sv ctx st1 (hown.ext e1))
theorem execParams_good : (ps : ParamList) → (cd ctx : Scope) → (st : St) → Own cd st →
    Good (fun i => i = top cd) ctx st (execParams g esc call ps cd ctx st)
  | .nil, _, _, _, _ => by rw [execParams]; exact Good.leaf (by simp) (Ext.of_heap_eq rfl rfl)
  | .value _ key e rest, cd, ctx, st, owncd => by
    rw [execParams]
    split
    · exact Good.leaf (by simp) (Ext.of_heap_eq rfl rfl)
    · rename_i v st1 he
      have e1 := evalIn_ext (fun i => i = top cd) he
      split
      · exact Good.leaf (by simp) e1
      · rename_i st2 hs
        have e2 := e1.trans (set_ext (owncd.ext e1) hs) (fun _ _ h => h)
        exact Good.after e2 (execParams_good rest cd ctx st2 (owncd.ext e2))
  | .content _ key body rest, cd, ctx, st, owncd => by
    rw [execParams]
    have h := (renderBlockOf_good' (execBody_good body) ctx st).1
    have hm : Ext (fun i => i = top cd) st (renderBlockOf (execBody g esc call body) ctx st).1.st := h.ext.mono (fun _ h => h.elim)
    split
    · rename_i hok
      rw [h.ctx_eq hok]
      split
      · exact Good.leaf (by simp) hm
      · rename_i st2 hs
        have e2 := hm.trans (set_ext (owncd.ext hm) hs) (fun _ _ h => h)
        exact Good.after e2 (execParams_good rest cd ctx st2 (owncd.ext e2))
    · rename_i hnok
      exact ⟨h.np, fun e => absurd e (by intro h; exact hnok h), hm⟩
theorem walkMsgBody_good : (ps : MsgParts) → GoodRun (walkMsgBody g esc call ps)
  | .nil => by intro ctx st _; rw [walkMsgBody]; exact Good.leaf (by simp) (Ext.of_heap_eq rfl rfl)
  | .text p t rest => by
    intro ctx st hown
    rw [walkMsgBody]
    have e : Ext (fun i => i = top ctx) st (write (atNode st p) t) := Ext.of_heap_eq rfl rfl
    exact Good.after e (walkMsgBody_good rest ctx _ (hown.ext e))
  | .ph _ _ body rest => by
    intro ctx st hown
    rw [walkMsgBody]
    have h1 := execPh_good body ctx st hown
    exact Good.seq _ h1 (fun _ => walkMsgBody_good rest ctx _ (hown.ext h1.ext))
  | .plural _ _ value cases _ dflt rest => by
    intro ctx st hown
    rw [walkMsgBody]
    split
    · rename_i i st1 he
      have e1 := evalIn_ext (fun i => i = top ctx) he
      have h1 := walkPluralCases_good cases (walkMsgBody g esc call dflt) (walkMsgBody_good dflt) i.toInt ctx st1 (hown.ext e1)
      exact Good.after e1 (Good.seq _ h1 (fun _ => walkMsgBody_good rest ctx _ ((hown.ext e1).ext h1.ext)))
    · rename_i st1 he; exact Good.leaf (by simp) (evalIn_ext _ he)
    · exact Good.leaf (by simp) (Ext.of_heap_eq rfl rfl)
theorem walkPluralCases_good : (cs : PluralCases) → (dflt : Run) → GoodRun dflt → (i : Int) →
    GoodRun (walkPluralCases g esc call cs dflt i)
  | .nil, dflt, hd, _ => by intro ctx st h; rw [walkPluralCases]; exact hd ctx st h
  | .cons _ v _ body rest, dflt, hd, i => by
    intro ctx st hown
    rw [walkPluralCases]
    split
    · exact walkMsgBody_good body ctx st hown
    · exact walkPluralCases_good rest dflt hd i ctx st hown
theorem execPh_good : (b : MsgPhBody) → GoodRun (execPh g esc call b)
  | .htmlTag _ text => by intro ctx st _; rw [execPh]; exact Good.leaf (by simp) (Ext.of_heap_eq rfl rfl)
  | .cmd c => by intro ctx st h; rw [execPh]; exact GoodRun.at (execCmd_good c) ctx st _ h
theorem phAll_good : (ps : MsgParts) → (d : Nat) → ∀ e ∈ phAll g esc call ps d, GoodRun e.2.2
  | .nil, _ => by intro e he; rw [phAll] at he; simp at he
  | .text _ _ rest, d => by intro e he; rw [phAll] at he; exact phAll_good rest d e he
  | .ph _ name body rest, d => by
    intro e he
    rw [phAll] at he
    rcases List.mem_cons.mp he with rfl | h
    · exact execPh_good body
    · exact phAll_good rest d e h
  | .plural _ _ _ cases _ dflt rest, d => by
    intro e he
    rw [phAll] at he
    rcases List.mem_append.mp he with h | h
    · rcases List.mem_append.mp h with h | h
      · exact phAllCases_good cases (d + 3) e h
      · exact phAll_good dflt (d + 2) e h
    · exact phAll_good rest d e h
theorem phAllCases_good : (cs : PluralCases) → (d : Nat) → ∀ e ∈ phAllCases g esc call cs d, GoodRun e.2.2
  | .nil, _ => by intro e he; rw [phAllCases] at he; simp at he
  | .cons _ _ _ body rest, d => by
    intro e he
    rw [phAllCases] at he
    rcases List.mem_append.mp he with h | h
    · exact phAll_good body d e h
    · exact phAllCases_good rest d e h
end
end

end SoyVerif.Model.Eval

namespace SoyVerif.Model.Eval
open SoyVerif SoyVerif.Model

/-- every template invocation is Good, whatever the call-depth fuel -/
theorem runTmpl_good (g : GEnv) : ∀ (fuel : Nat) (t : Registry.Tmpl), GoodRun (runTmpl g fuel t) := by
  intro fuel
  induction fuel with
  | zero =>
    intro t ctx st _
    rw [runTmpl]
    exact ⟨by simp, fun h => by simp at h, Ext.refl _ _⟩
  | succ n ih =>
    intro t ctx st hown
    rw [runTmpl]
    exact GoodRun.at (execBody_good g (escapeOf t) (runTmpl g n) ih t.body) ctx st _ hown

/-- `enter` on any non-empty scope -/
theorem enter_cons (f : SFrame) (r : Scope) (s : St) :
    ∃ cctx s2, enter (f :: r) s = some (cctx, s2) ∧ Own cctx s2 ∧ (∀ W, Ext W s s2) ∧ top cctx = s.heap.length ∧
      cctx = ⟨s.heap.length, false⟩ :: { f with entered := true } :: r := by
  obtain ⟨h1, h2, h3, _⟩ := push_spec ({ f with entered := true } :: r) s
  exact ⟨_, _, rfl, h2, h3, rfl, h1⟩

/-- what `execute` guarantees: a panic needs a node outside its source; the caller's data map is what it
    was; no write reached any other caller-owned map. -/
theorem execute_spec (g : GEnv) (name : Bytes) (data : Frame) (fuel : Nat) :
    ((execute g name data fuel).cls = .panic → ∃ t, Registry.lookup g.reg name = some t ∧ posOk t = false) ∧
    (execute g name data fuel).data = data ∧ (execute g name data fuel).foreign = 0 := by
  unfold execute
  split
  · exact ⟨fun h => by simp at h, rfl, rfl⟩
  · rename_i t ht
    obtain ⟨n1, n2, n3⟩ := newScope_spec data true { heap := [], out := [], next := freshBase g data, foreign := 0 }
    have hsc : (newScope data true { heap := [], out := [], next := freshBase g data, foreign := 0 }).1 = [⟨0, false⟩] := n1
    simp only [hsc]
    obtain ⟨cctx, s2, hent, ownc, e3, htopc, _⟩ := enter_cons ⟨0, false⟩ []
      (newScope data true { heap := [], out := [], next := freshBase g data, foreign := 0 }).2
    rw [hent]
    simp only
    have hg := runTmpl_good g fuel t cctx s2 ownc
    -- cell 0 (the caller's data map) is not the top frame of the template's scope
    have hlen : (newScope data true { heap := [], out := [], next := freshBase g data, foreign := 0 }).2.heap.length = 1 := by
      rw [n3]; rfl
    have h0 : s2.heap[0]? = some ⟨data, true⟩ ∨ True := Or.inr trivial
    have hcell : (newScope data true { heap := [], out := [], next := freshBase g data, foreign := 0 }).2.heap[0]? = some ⟨data, true⟩ := by
      rw [n3]; rfl
    obtain ⟨c1, hc1, _, hv1⟩ := (e3 (fun _ => False)).keep 0 _ hcell
    obtain ⟨c2, hc2, _, hv2⟩ := hg.ext.keep 0 _ hc1
    have hne : ¬ (0 = top cctx) := by rw [htopc, hlen]; decide
    refine ⟨?_, ?_, ?_⟩
    · intro hp
      refine ⟨t, ht, ?_⟩
      split at hp
      · split at hp
        · simp at hp
        · rename_i hpos; simpa using hpos
      · rename_i c hc
        exact absurd hp hg.np
    · simp only [heapGet, hc2]
      rw [hv2 hne, hv1 (fun h => h)]
    · rw [hg.ext.foreign, (e3 (fun _ => False)).foreign, (n2 (fun _ => False)).foreign]

end SoyVerif.Model.Eval
