/-
  From tokens to token lists: `TokOk t rest` collects, per token kind, the condition under which
  `lexInsideTag` started at `t.val ++ rest` emits exactly `t` (`tok_step`, from the per-token
  lemmas); `Adj ps tail` asks it of every token of a piece list (spaces are skipped); `lex_pieces`
  runs the machine over the whole list: the items are the tokens in order, then — the input being
  exhausted inside a "tag" — the Error item of `lexInsideTag` ("unclosed tag", position 0).
-/
import SoyVerif.Lemmas.LexPrintNum
import SoyVerif.Lemmas.LexPrintStr

set_option linter.unusedSimpArgs false
set_option linter.unusedVariables false

namespace SoyVerif.Lemmas.LexPrint
open SoyVerif SoyVerif.Model SoyVerif.Model.Lex SoyVerif.Model.PrintTokens
open SoyVerif.Lemmas.ParserAdj SoyVerif.Lemmas.ParserToks

variable {tg : Int}

/-- `|` -/
def tPipe : Tk := ⟨.tPipe, [124]⟩

/-- the token `t`, followed by the bytes `rest`, is one the lexer reads back as `t` -/
inductive TokOk : Tk → Bytes → Prop
  | lp (rest) : TokOk tLP rest
  | rp (rest) : TokOk tRP rest
  | lb (rest) : TokOk tLB rest
  | rb (rest) : TokOk tRB rest
  | comma (rest) : TokOk tComma rest
  | colon (rest) : TokOk tColon rest
  /-- `|` in front of a print directive -/
  | pipe (rest) : TokOk tPipe rest
  | qkey (rest) : TokOk tQKey rest
  | ternif (rest) : TokOk tTernIf (32 :: rest)
  | neg (rest) (ha : AsciiHd rest) (hd : hdRune rest < 48 ∨ 57 < hdRune rest) : TokOk tNeg rest
  /-- a binary operator symbol, followed by a space -/
  | op (o : BinOp) (rest) (ho : o ≠ .and ∧ o ≠ .or) : TokOk (tOp o) (32 :: rest)
  /-- identifiers and keywords (`null true false not and or`): an ASCII letter or `_`, then letters /
      digits / `_` (any Unicode letter or digit, in UTF-8) -/
  | word (c : UInt8) (k : Bytes) (rt : ItemType) (rest) (hc : isIdStart c = true) (hk : alnumBytes k = true)
      (hr : WordEnd rest)
      (hl : (Gen.builtinIdents.lookup (c :: k) = some rt ∧ rt ≠ .tLiteral ∧ rt ≠ .tCss) ∨
            (Gen.builtinIdents.lookup (c :: k) = none ∧ rt = .tIdent)) : TokOk ⟨rt, c :: k⟩ rest
  | dollar (c : UInt8) (k : Bytes) (rest) (hk : alnumBytes (c :: k) = true)
      (hl : ∀ r w, runeAt (c :: k) = some (r, w) → letterR r = true)
      (hr : WordEnd rest) : TokOk ⟨.tDollarIdent, 36 :: c :: k⟩ rest
  /-- `.3` / `.name`: an index begins with an ASCII digit, a name with a letter (of any script) or `_`
      (/repo 8984077: `$a.` and `.٣` are no longer names) -/
  | dot (c : UInt8) (k : Bytes) (rest) (hk : alnumBytes (c :: k) = true)
      (hl : isDig c = false → ∀ r w, runeAt (c :: k) = some (r, w) → letterR r = true) (hr : WordEnd rest) :
      TokOk ⟨if isDig c then .tDotIndex else .tDotIdent, 46 :: c :: k⟩ rest
  | qdot (c : UInt8) (k : Bytes) (rest) (hk : alnumBytes (c :: k) = true)
      (hl : isDig c = false → ∀ r w, runeAt (c :: k) = some (r, w) → letterR r = true) (hr : WordEnd rest) :
      TokOk ⟨if isDig c then .tQuestionDotIndex else .tQuestionDotIdent, 63 :: 46 :: c :: k⟩ rest
  | num (val : Bytes) (typ : ItemType) (rest) (hs : NumShape val typ) (hr : NumEnd rest) : TokOk ⟨typ, val⟩ rest
  | str (val : Bytes) (rest) (hs : strOk val = true) : TokOk ⟨.tString, val⟩ rest

/-- every token spelling is non-empty -/
theorem tokOk_ne {t : Tk} {rest : Bytes} (h : TokOk t rest) : t.val ≠ [] := by
  cases h <;> try (simp [tLP, tRP, tLB, tRB, tComma, tColon, tQKey, tTernIf, tNeg, tPipe])
  case op o rest ho => cases o <;> simp [tOp, BinOp.sym]
  case num val typ hs hr =>
    obtain ⟨sg, ds, frac, ex, rfl, _, hds, _⟩ := hs
    cases ds with
    | nil => exact absurd rfl hds
    | cons a b => simp
  case str val hs =>
    intro e; subst e; simp [strOk] at hs

/-- the state after the token `t` that started at `p` -/
def After (tg : Int) (inp : Array UInt8) (p : Nat) (w : Int) (its : Array Item) (t : Tk) : Lexer :=
  L tg inp (p + t.val.length) (p + t.val.length) w (itemOf t (p + t.val.length)) (its.push (itemOf t (p + t.val.length)))

theorem run_of_step1 {inp p le its t} (h : Step1 tg inp p le its t) :
    ∀ w n, ∃ w', run (n + 1) .insideTag (L tg inp p p w le its) = run n .insideTag (After tg inp p w' its t) := by
  intro w n
  obtain ⟨w', hw⟩ := h w
  exact ⟨w', run_step hw⟩

theorem run_of_step2 {inp p le its t} (h : Step2 tg inp p le its t) :
    ∀ w n, ∃ w', run (n + 2) .insideTag (L tg inp p p w le its) = run n .insideTag (After tg inp p w' its t) := by
  intro w n
  obtain ⟨w', s1, l1, h1, h2⟩ := h w
  exact ⟨w', (run_step h1).trans (run_step h2)⟩

section
variable (T : LexTableOK)
include T

/-- one token: at most two transitions, exactly this item -/
theorem tok_step {inp : Array UInt8} {p : Nat} {t : Tk} {rest : Bytes} {le : Item} {its : Array Item}
    (h : InpAt inp p (t.val ++ rest)) (hok : TokOk t rest) (hprev : pairOK le.typ t.typ = true) :
    ∃ k, 1 ≤ k ∧ k ≤ 2 ∧ ∀ w n, ∃ w',
      run (n + k) .insideTag (L tg inp p p w le its) = run n .insideTag (After tg inp p w' its t) := by
  cases hok with
  | lp => exact ⟨1, by omega, by omega, run_of_step1 (step_single (s := rest) h .tLeftParen (by simp) T.sym1.1 le its)⟩
  | rp => exact ⟨1, by omega, by omega, run_of_step1 (step_single (s := rest) h .tRightParen (by simp) T.sym1.2.1 le its)⟩
  | lb => exact ⟨1, by omega, by omega, run_of_step1 (step_bracket (s := rest) h .tLeftBracket (by simp) le its)⟩
  | rb => exact ⟨1, by omega, by omega, run_of_step1 (step_bracket (s := rest) h .tRightBracket (by simp) le its)⟩
  | comma => exact ⟨1, by omega, by omega, run_of_step1 (step_bracket (s := rest) h .tComma (by simp) le its)⟩
  | colon => exact ⟨1, by omega, by omega, run_of_step1 (step_single (s := rest) h .tColon (by simp) T.sym1.2.2.2.2.2.1 le its)⟩
  | pipe => exact ⟨1, by omega, by omega, run_of_step1 (step_bracket (s := rest) h .tPipe (by simp) le its)⟩
  | qkey => exact ⟨1, by omega, by omega, run_of_step1 (step_qkey (s := rest) h le its)⟩
  | ternif r => exact ⟨1, by omega, by omega, run_of_step1 (step_ternif (s := r) h le its)⟩
  | neg _ ha hd =>
    have hb : beforeOperand.contains le.typ = true := by
      simpa [pairOK, tNeg] using hprev
    exact ⟨1, by omega, by omega, run_of_step1 (step_neg (s := rest) h ha hd le its (T.unaryBefore _ (by simpa using hb)))⟩
  | op o r ho =>
    refine ⟨1, by omega, by omega, run_of_step1 ?_⟩
    cases o with
    | mul => exact step_single (s := 32 :: r) h .tMul (by simp) T.sym1.2.2.1 le its
    | div => exact step_div T (s := r) h le its
    | mod => exact step_single (s := 32 :: r) h .tMod (by simp) T.sym1.2.2.2.1 le its
    | add => exact step_single (s := 32 :: r) h .tAdd (by simp) T.sym1.2.2.2.2.1 le its
    | sub =>
      have hb : afterOperand.contains le.typ = true := by
        simpa [pairOK, tOp, tokOf] using hprev
      exact step_sub (s := 32 :: r) h le its (T.unaryAfter _ (by simpa using hb))
    | eq => exact step_eq (s := 32 :: r) h T.sym2.2.2.2.2.2 le its
    | ne => exact step_cmp2 (s := 32 :: r) h .tNotEq (by simp) T.sym2.2.2.2.2.1 le its
    | gt => exact step_cmp1 (s := r) h .tGt (by simp) T.sym2.2.1 le its
    | ge => exact step_cmp2 (s := 32 :: r) h .tGte (by simp) T.sym2.2.2.2.1 le its
    | lt => exact step_cmp1 (s := r) h .tLt (by simp) T.sym2.1 le its
    | le => exact step_cmp2 (s := 32 :: r) h .tLte (by simp) T.sym2.2.2.1 le its
    | or => exact absurd rfl ho.2
    | and => exact absurd rfl ho.1
    | elvis => exact step_elvis (s := 32 :: r) h le its
  | word c k rt _ hc hk hr hl => exact ⟨2, by omega, by omega, run_of_step2 (step_word T h hc hk hr rt hl le its)⟩
  | dollar c k _ hk hl hr => exact ⟨2, by omega, by omega, run_of_step2 (step_dollar T h hk hl hr le its)⟩
  | dot c k _ hk hl hr => exact ⟨2, by omega, by omega, run_of_step2 (step_dot T h hk hl hr le its)⟩
  | qdot c k _ hk hl hr => exact ⟨2, by omega, by omega, run_of_step2 (step_qdot T h hk hl hr le its)⟩
  | num val typ _ hs hr =>
    refine ⟨2, by omega, by omega, run_of_step2 (step_number T h hs hr le its ?_)⟩
    intro _
    have hty : typ = .tInteger ∨ typ = .tFloat := by
      obtain ⟨sg, ds, frac, ex, _, _, _, _, _, _, _, rfl⟩ := hs
      split <;> simp
    have hb : beforeOperand.contains le.typ = true := by
      rcases hty with rfl | rfl <;> simpa [pairOK] using hprev
    exact T.unaryBefore _ (by simpa using hb)
  | str val _ hs => exact ⟨2, by omega, by omega, run_of_step2 (step_string h hs le its)⟩

end

/-! ### spaces and the end of the input -/

theorem step_space {inp p s} (h : InpAt inp p (32 :: s)) (w le its) :
    step .insideTag (L tg inp p p w le its) = some (some .insideTag, L tg inp (p + 1) (p + 1) 1 le its) := by
  simp only [step, lexInsideTag, next_L h (by decide), Option.bind_eq_bind, Option.bind_some]
  simp [isSpaceEOL, isSpace, ignore_L]

/-- the Error item `lexInsideTag` sends at the end of the input ("unclosed tag", at `tagStart = 0`;
    the model keeps the CLASS of the message in `val`, not its text: `clsTag`) -/
def errItem : Item := { typ := .tError, pos := 0, val := [clsTag] }

theorem errItem_typ : errItem.typ = .tError := rfl

/-- the end of the input: the only step of the walk that goes through an error exit of the lexer —
    `errorfAt l l.tagStart clsTag` with `tagStart = 0` -/
theorem step_eof {inp p} (h : InpAt inp p []) (w le its) :
    ∃ l', step .insideTag (L 0 inp p p w le its) = some (none, l') ∧ l'.items = its.push errItem := by
  refine ⟨{ L 0 inp p p 0 le its with items := its.push errItem }, ?_, rfl⟩
  simp only [step, lexInsideTag, next_eof_L h, Option.bind_eq_bind, Option.bind_some]
  simp [isSpaceEOL, isSpace, isEndOfLine, lexInsideTagMid, lexInsideTagRest, eof, errorfAt, L, errItem]

/-! ### piece lists -/

/-- every token of the piece list, in front of `tail`, is followed by bytes that do not extend it -/
def Adj : List Piece → Bytes → Prop
  | [], _ => True
  | .sp :: r, tail => Adj r tail
  | .tok t :: r, tail => TokOk t (spell r ++ tail) ∧ Adj r tail

theorem adj_append : (a b : List Piece) → (tail : Bytes) → (Adj (a ++ b) tail ↔ Adj a (spell b ++ tail) ∧ Adj b tail)
  | [], b, tail => by simp [Adj]
  | .sp :: r, b, tail => by simp only [List.cons_append, Adj]; exact adj_append r b tail
  | .tok t :: r, b, tail => by
    simp only [List.cons_append, Adj, spell_append, List.append_assoc]
    rw [adj_append r b tail]
    exact and_assoc.symm

/-- the items the lexer sends for the piece list that starts at offset `p`: each token with its
    text and END offset (`item.pos` of lexer.go), then the Error item of the end of input -/
def emitAll : Nat → List Piece → List Item
  | _, [] => [errItem]
  | p, .sp :: r => emitAll (p + 1) r
  | p, .tok t :: r => itemOf t (p + t.val.length) :: emitAll (p + t.val.length) r

theorem emitAll_tk : (p : Nat) → (ps : List Piece) → (emitAll p ps).map Item.tk = unsp ps ++ [errItem.tk]
  | _, [] => rfl
  | p, .sp :: r => by simp only [emitAll, unsp]; exact emitAll_tk (p + 1) r
  | p, .tok t :: r => by
    simp only [emitAll, unsp, List.map_cons, List.cons_append, emitAll_tk (p + t.val.length) r]
    rfl

section
variable (T : LexTableOK)
include T

/-- the machine over a whole piece list -/
theorem lex_pieces {inp : Array UInt8} : ∀ (ps : List Piece) (p : Nat) (w : Int) (le : Item) (its : Array Item) (F : Nat),
    InpAt inp p (spell ps) → Adj ps [] → chainOK le.typ (typs (unsp ps)) = true → 2 * ps.length + 1 ≤ F →
    run F .insideTag (L 0 inp p p w le its) = .items (its.toList ++ emitAll p ps)
  | [], p, w, le, its, F, h, _, _, hF => by
    obtain ⟨n, rfl⟩ : ∃ n, F = n + 1 := ⟨F - 1, by omega⟩
    obtain ⟨l', hs, hi⟩ := step_eof (inp := inp) (p := p) (by simpa [spell] using h) w le its
    rw [run_stop hs, hi]
    simp [emitAll]
  | .sp :: r, p, w, le, its, F, h, ha, hc, hF => by
    obtain ⟨n, rfl⟩ : ∃ n, F = n + 1 := ⟨F - 1, by simp at hF; omega⟩
    have h' : InpAt inp p (32 :: spell r) := by simpa [spell] using h
    rw [run_step (step_space h' w le its)]
    rw [lex_pieces r (p + 1) 1 le its n (inpAt_tail h') ha hc (by simp at hF; omega)]
    simp [emitAll]
  | .tok t :: r, p, w, le, its, F, h, ha, hc, hF => by
    have h' : InpAt inp p (t.val ++ (spell r ++ [])) := by simpa [spell] using h
    have hc' : pairOK le.typ t.typ = true ∧ chainOK t.typ (typs (unsp r)) = true := by
      simpa [unsp, typs, chainOK] using hc
    obtain ⟨k, hk1, hk2, hrun⟩ := tok_step (tg := 0) T h' ha.1 hc'.1 (le := le) (its := its)
    obtain ⟨n, rfl⟩ : ∃ n, F = n + k := ⟨F - k, by simp at hF; omega⟩
    obtain ⟨w', hw⟩ := hrun w n
    rw [hw]
    have h2 : InpAt inp (p + t.val.length) (spell r) := by
      have := inpAt_append h'; simpa using this
    have := lex_pieces r (p + t.val.length) w' (itemOf t (p + t.val.length)) (its.push (itemOf t (p + t.val.length))) n
      h2 ha.2 (by simpa [itemOf] using hc'.2) (by simp at hF; omega)
    unfold After
    rw [this]
    simp [emitAll]

end

/-- every piece spells at least one byte: the fuel of `lexAll` (7 per byte + 8) covers the two
    transitions a token needs -/
theorem adj_length : (ps : List Piece) → (tail : Bytes) → Adj ps tail → ps.length ≤ (spell ps).length
  | [], _, _ => Nat.le_refl _
  | .sp :: r, tail, h => by
    have := adj_length r tail h
    simp only [List.length_cons, spell]; omega
  | .tok t :: r, tail, h => by
    have := adj_length r tail h.2
    have hne := tokOk_ne h.1
    have : 0 < t.val.length := List.length_pos_iff.mpr hne
    simp only [List.length_cons, spell, List.length_append]; omega

/-- `lexExpr` on the spelling of a piece list -/
theorem lexAll_pieces (T : LexTableOK) (ps : List Piece) (ha : Adj ps [])
    (hc : chainOK .tInvalid (typs (unsp ps)) = true) :
    lexAll (spell ps) true = .items (emitAll 0 ps) := by
  unfold lexAll
  rw [initLexer_eq]
  have hl := adj_length ps [] ha
  have := lex_pieces T (inp := (spell ps).toArray) ps 0 0 Item.zero #[] (fuelFor (spell ps).length)
    (inpAt_zero _) ha hc (by unfold fuelFor; omega)
  simpa using this

end SoyVerif.Lemmas.LexPrint
