/-
  Facts about `strconv.Itoa` and the suffix search of `setPlaceholderNames` step 2:
  decimal rendering is injective and contains no underscore, hence `base_N` determines
  both `base` and `N`; the inner `for` loop always finds a free suffix within
  `len(baseNameToRepNodes)+1` rounds (pigeonhole).
-/
import SoyVerif.Model.Msg

namespace SoyVerif.Model.Msg

theorem digitByte_range {c : Char} (h : c.isDigit = true) :
    48 ≤ (digitByte c).toNat ∧ (digitByte c).toNat ≤ 57 ∧ (digitByte c).toNat = c.toNat := by
  have h' : 48 ≤ c.toNat ∧ c.toNat ≤ 57 := by
    simp only [Char.isDigit, Bool.and_eq_true, decide_eq_true_eq] at h
    have h1 := UInt32.le_iff_toNat_le.mp h.1
    have h2 := UInt32.le_iff_toNat_le.mp h.2
    simp at h1 h2
    exact ⟨h1, h2⟩
  have : (digitByte c).toNat = c.toNat % 256 := by
    simp [digitByte]
  omega

theorem mem_itoa_digit {n : Nat} {b : UInt8} (h : b ∈ itoa n) : 48 ≤ b.toNat ∧ b.toNat ≤ 57 := by
  simp only [itoa, List.mem_map] at h
  obtain ⟨c, hc, rfl⟩ := h
  have := digitByte_range (Nat.isDigit_of_mem_toDigits (by decide) (by decide) hc)
  omega

theorem underscore_not_mem_itoa (n : Nat) : (95 : UInt8) ∉ itoa n := by
  intro h
  have := mem_itoa_digit h
  simp at this

theorem map_inj_on {α β : Type} (f : α → β) (P : α → Prop)
    (inj : ∀ x y, P x → P y → f x = f y → x = y) :
    ∀ l₁ l₂ : List α, (∀ x ∈ l₁, P x) → (∀ x ∈ l₂, P x) → l₁.map f = l₂.map f → l₁ = l₂
  | [], [], _, _, _ => rfl
  | [], _ :: _, _, _, h => by simp at h
  | _ :: _, [], _, _, h => by simp at h
  | a :: l₁, b :: l₂, h₁, h₂, h => by
    simp only [List.map_cons, List.cons.injEq] at h
    have hab := inj a b (h₁ a (by simp)) (h₂ b (by simp)) h.1
    have := map_inj_on f P inj l₁ l₂ (fun x hx => h₁ x (by simp [hx])) (fun x hx => h₂ x (by simp [hx])) h.2
    rw [hab, this]

theorem itoa_inj {a b : Nat} (h : itoa a = itoa b) : a = b := by
  have hd : Nat.toDigits 10 a = Nat.toDigits 10 b := by
    refine map_inj_on digitByte (fun c => c.isDigit = true) ?_ _ _
      (fun c hc => Nat.isDigit_of_mem_toDigits (by decide) (by decide) hc)
      (fun c hc => Nat.isDigit_of_mem_toDigits (by decide) (by decide) hc) h
    intro x y hx hy hxy
    have h1 := (digitByte_range hx).2.2
    have h2 := (digitByte_range hy).2.2
    have : x.toNat = y.toNat := by rw [← h1, ← h2, hxy]
    apply Char.ext
    apply UInt32.toNat_inj.mp
    exact this
  have := congrArg (fun l => Nat.ofDigitChars 10 l 0) hd
  simpa using this

/-- `base_N` determines `base` and `N`. -/
theorem suffixed_inj {b₁ b₂ : Bytes} {k₁ k₂ : Nat} (h : suffixed b₁ k₁ = suffixed b₂ k₂) :
    b₁ = b₂ ∧ k₁ = k₂ := by
  unfold suffixed at h
  rcases List.append_eq_append_iff.mp h with ⟨c, hc, h2⟩ | ⟨c, hc, h2⟩
  · -- b₂ = b₁ ++ c, 95 :: itoa k₁ = c ++ 95 :: itoa k₂
    cases c with
    | nil => simp at h2 hc; exact ⟨hc.symm, itoa_inj h2⟩
    | cons x c =>
      simp only [List.cons_append, List.cons.injEq] at h2
      exfalso
      apply underscore_not_mem_itoa k₁
      rw [h2.2]; simp
  · cases c with
    | nil => simp at h2 hc; exact ⟨hc, itoa_inj h2.symm⟩
    | cons x c =>
      simp only [List.cons_append, List.cons.injEq] at h2
      exfalso
      apply underscore_not_mem_itoa k₂
      rw [h2.2]; simp

theorem findSuffix_ge (keys : List Bytes) (base : Bytes) :
    ∀ fuel next, next ≤ findSuffix keys base fuel next
  | 0, next => by simp [findSuffix]
  | fuel + 1, next => by
    unfold findSuffix
    split
    · exact Nat.le_trans (Nat.le_succ _) (findSuffix_ge keys base fuel (next + 1))
    · exact Nat.le_refl _

/-- pigeonhole: `ks` covers every candidate `base_m` (m ≥ next) that is a key, and is
    shorter than the fuel — so the loop stops at a candidate that is not a key. -/
theorem findSuffix_free_aux (keys : List Bytes) (base : Bytes) :
    ∀ fuel next (ks : List Bytes), ks.length < fuel →
      (∀ m, next ≤ m → suffixed base m ∈ keys → suffixed base m ∈ ks) →
      suffixed base (findSuffix keys base fuel next) ∉ keys
  | 0, _, _, h, _ => by omega
  | fuel + 1, next, ks, hlen, hcov => by
    unfold findSuffix
    split
    case isTrue hc =>
      have hmem : suffixed base next ∈ keys := by simpa using hc
      have hin : suffixed base next ∈ ks := hcov next (Nat.le_refl _) hmem
      apply findSuffix_free_aux keys base fuel (next + 1) (ks.erase (suffixed base next))
      · rw [List.length_erase_of_mem hin]
        have : 0 < ks.length := List.length_pos_of_mem hin
        omega
      · intro m hm hk
        have hne : suffixed base m ≠ suffixed base next := by
          intro e
          have := (suffixed_inj e).2
          omega
        exact (List.mem_erase_of_ne hne).mpr (hcov m (by omega) hk)
    case isFalse hc =>
      simpa using hc

/-- The inner loop of step 2, run with the fuel the model gives it, returns a suffix whose
    name is not a base name. -/
theorem findSuffix_free (keys : List Bytes) (base : Bytes) (next : Nat) :
    suffixed base (findSuffix keys base (keys.length + 1) next) ∉ keys :=
  findSuffix_free_aux keys base _ next keys (Nat.lt_succ_self _) (fun _ _ h => h)

end SoyVerif.Model.Msg
