/-
  encoding/json's string encoder (`Model.jsonString`, HTML-safe mode) against the JSON string
  grammar of RFC 8259 (`Spec.Json.strBody`): token by token, then for whole strings —
  the round trip on every byte string (invalid bytes become U+FFFD: `sanitize`) and the
  embedding safety of the output.
-/
import SoyVerif.Model.Escape
import SoyVerif.Spec.Json
import SoyVerif.Lemmas.JsEscapeB

set_option linter.unusedSimpArgs false
set_option linter.unusedVariables false

namespace SoyVerif.Lemmas.JsonString
open SoyVerif SoyVerif.Model SoyVerif.Spec SoyVerif.Spec.Json
open SoyVerif.Lemmas.Utf8 SoyVerif.Lemmas.EscapeQuery SoyVerif.Lemmas.JsEscapeA SoyVerif.Lemmas.JsEscapeB

/-! ### the decoder on each kind of token -/

theorem body_skip (l rest : Bytes) : strBody l.length (l ++ rest) = strBody 0 rest := by
  induction l with
  | nil => rfl
  | cons a l ih => simpa [strBody] using ih

theorem body_close (rest : Bytes) : strBody 0 (34 :: rest) = some ([], rest) := by
  simp [strBody]

/-- `\"` `\\` `\b` `\f` `\n` `\r` `\t` -/
theorem body_named (c v : UInt8) (rest : Bytes)
    (h : (c = 34 ∧ v = 34) ∨ (c = 92 ∧ v = 92) ∨ (c = 98 ∧ v = 8) ∨ (c = 102 ∧ v = 12) ∨ (c = 110 ∧ v = 10) ∨
      (c = 114 ∧ v = 13) ∨ (c = 116 ∧ v = 9)) :
    strBody 0 (92 :: c :: rest) = pre [v] (strBody 0 rest) := by
  rcases h with ⟨rfl, rfl⟩ | ⟨rfl, rfl⟩ | ⟨rfl, rfl⟩ | ⟨rfl, rfl⟩ | ⟨rfl, rfl⟩ | ⟨rfl, rfl⟩ | ⟨rfl, rfl⟩ <;>
    simp [strBody]

theorem hexDigitVal_hexLower : ∀ n : Fin 16, hexDigitVal (hexLower n.val) = some n.val := by decide

/-- four lower-case hex digits, as encoding/json writes them -/
def hex4Lower (u : Nat) : Bytes :=
  [hexLower (u / 4096 % 16), hexLower (u / 256 % 16), hexLower (u / 16 % 16), hexLower (u % 16)]

theorem hex4_hex4Lower (u : Nat) (h : u < 65536) :
    hex4 (hexLower (u / 4096 % 16)) (hexLower (u / 256 % 16)) (hexLower (u / 16 % 16)) (hexLower (u % 16)) = some u := by
  unfold hex4
  rw [hexDigitVal_hexLower ⟨_, by omega⟩, hexDigitVal_hexLower ⟨_, by omega⟩, hexDigitVal_hexLower ⟨_, by omega⟩,
    hexDigitVal_hexLower ⟨_, by omega⟩]
  simp only [Option.some.injEq]
  omega

/-- `\uxxxx` of a BMP scalar value -/
theorem body_u4 (u : Nat) (rest : Bytes) (h : u < 65536) (hs : ¬ (0xD800 ≤ u ∧ u < 0xE000)) :
    strBody 0 ([92, 117] ++ hex4Lower u ++ rest) = pre (utf8Encode u) (strBody 0 rest) := by
  have hx := hex4_hex4Lower u h
  have h1 : (0xD800 ≤ u && u < 0xDC00) = false := by
    simp only [Bool.and_eq_false_iff, decide_eq_false_iff_not]; omega
  have h2 : (0xDC00 ≤ u && u < 0xE000) = false := by
    simp only [Bool.and_eq_false_iff, decide_eq_false_iff_not]; omega
  have hskip := body_skip [117, hexLower (u / 4096 % 16), hexLower (u / 256 % 16), hexLower (u / 16 % 16), hexLower (u % 16)] rest
  simp only [List.length_cons, List.length_nil, List.cons_append, List.nil_append] at hskip
  simp only [hex4Lower, List.cons_append, List.nil_append]
  rw [strBody]
  simp only [hx, h1, h2]
  simp [hskip]

theorem body_raw_ascii (b : UInt8) (rest : Bytes) (h32 : 32 ≤ b.toNat) (h128 : b.toNat < 128) (h34 : b ≠ 34) (h92 : b ≠ 92) :
    strBody 0 (b :: rest) = pre [b] (strBody 0 rest) := by
  have c1 : ¬ b < 0x20 := by simp [UInt8.lt_iff_toNat_lt]; omega
  have c2 : b < 0x80 := by simp [UInt8.lt_iff_toNat_lt]; omega
  conv => lhs; unfold strBody
  simp [h34, h92, c1, c2]

/-- a prefix that is a well-formed sequence is THE well-formed sequence at the head -/
theorem seqLen_of_wf (c t : Bytes) (hc : wellFormedSeq c = true) : utf8SeqLen (c ++ t) = c.length := by
  match c, hc with
  | [b], hc => simp [utf8SeqLen, hc]
  | [b0, b1], hc =>
    have h' := hc
    simp only [wellFormedSeq, Bool.and_eq_true, decide_eq_true_eq, UInt8.le_iff_toNat_le] at h'
    have hb : 194 ≤ b0.toNat := by have := h'.1.1; simp at this; omega
    obtain ⟨_, _, nw1⟩ := hi_not_ascii b0 (by omega)
    simp [utf8SeqLen, nw1, hc]
  | [b0, b1, b2], hc =>
    obtain ⟨a1, a2, _⟩ := wf3_facts b0 b1 b2 hc
    obtain ⟨_, _, nw1⟩ := hi_not_ascii b0 (by omega)
    have nw2 : wellFormedSeq [b0, b1] = false := by
      simp [wellFormedSeq, UInt8.le_iff_toNat_le]; omega
    simp [utf8SeqLen, nw1, nw2, hc]
  | [b0, b1, b2, b3], hc =>
    obtain ⟨a1, a2, _⟩ := wf4_facts b0 b1 b2 b3 hc
    obtain ⟨_, _, nw1⟩ := hi_not_ascii b0 (by omega)
    have nw2 : wellFormedSeq [b0, b1] = false := by
      simp [wellFormedSeq, UInt8.le_iff_toNat_le]; omega
    have ne0 : (b0 == 0xE0) = false := by apply beq_false_of_ne; rintro rfl; simp at a1
    have neD : (b0 == 0xED) = false := by apply beq_false_of_ne; rintro rfl; simp at a1
    have nw3 : wellFormedSeq [b0, b1, b2] = false := by
      simp only [wellFormedSeq, ne0, neD, Bool.false_and, Bool.false_or, Bool.or_false]
      simp [UInt8.le_iff_toNat_le]
      intro hx; exfalso; omega
    simp [utf8SeqLen, nw1, nw2, nw3, hc]
  | [], hc => simp [wellFormedSeq] at hc
  | _ :: _ :: _ :: _ :: _ :: _, hc => simp [wellFormedSeq] at hc

theorem wf_high (b0 : UInt8) (c' : Bytes) (hc : wellFormedSeq (b0 :: c') = true) (hl : 1 ≤ c'.length) : 128 ≤ b0.toNat := by
  match c', hc, hl with
  | [b1], hc, _ =>
    simp only [wellFormedSeq, Bool.and_eq_true, decide_eq_true_eq, UInt8.le_iff_toNat_le] at hc
    have := hc.1.1; simp at this; omega
  | [b1, b2], hc, _ => have := (wf3_facts b0 b1 b2 hc).1; omega
  | [b1, b2, b3], hc, _ => have := (wf4_facts b0 b1 b2 b3 hc).1; omega
  | [], _, hl => simp at hl
  | _ :: _ :: _ :: _ :: _, hc, _ => simp [wellFormedSeq] at hc

/-- a raw multi-byte character -/
theorem body_raw_multi (b0 : UInt8) (c' rest : Bytes) (hc : wellFormedSeq (b0 :: c') = true) (hl : 1 ≤ c'.length) :
    strBody 0 (b0 :: (c' ++ rest)) = pre (b0 :: c') (strBody 0 rest) := by
  have hb := wf_high b0 c' hc hl
  obtain ⟨n92, nlt, _⟩ := hi_not_ascii b0 hb
  have n34 : (b0 == 34) = false := by apply beq_false_of_ne; rintro rfl; simp at hb
  have n20 : ¬ b0 < 0x20 := by simp [UInt8.lt_iff_toNat_lt]; omega
  have hlen : utf8SeqLen (b0 :: (c' ++ rest)) = c'.length + 1 := by
    have := seqLen_of_wf (b0 :: c') rest hc; simpa using this
  have hne : (c'.length + 1 == 0) = false := by apply beq_false_of_ne; omega
  have htk : (b0 :: (c' ++ rest)).take (c'.length + 1) = b0 :: c' := by simp
  conv => lhs; unfold strBody
  simp only [n34, n92, n20, nlt, hlen, hne, htk, Bool.false_eq_true, if_false, Nat.add_sub_cancel, body_skip]

/-! ### the encoder token by token -/

theorem enc_skip (l t : Bytes) : jsonStringGo l.length (l ++ t) = jsonStringGo 0 t := by
  induction l with
  | nil => rfl
  | cons a l ih => simpa [jsonStringGo] using ih

theorem enc_ascii (b : UInt8) (t : Bytes) (h : b < 0x80) :
    jsonStringGo 0 (b :: t) = (if jsonHtmlSafe b then [b] else jsonAsciiEsc b) ++ jsonStringGo 0 t := by
  conv => lhs; unfold jsonStringGo
  simp [h]

/-- a well-formed multi-byte sequence `b0 :: c'` of value `r`, not a line separator: copied -/
theorem enc_multi (b0 : UInt8) (c' t : Bytes) (r : Nat)
    (hb : 128 ≤ b0.toNat) (hd : decodeRune (b0 :: (c' ++ t)) = (r, c'.length + 1)) (hl : 1 ≤ c'.length)
    (h28 : r ≠ 0x2028) (h29 : r ≠ 0x2029) :
    jsonStringGo 0 (b0 :: (c' ++ t)) = b0 :: c' ++ jsonStringGo 0 t := by
  have hlt : ¬ b0 < 0x80 := by simp [UInt8.lt_iff_toNat_lt]; omega
  have h1 : (c'.length + 1 == 1) = false := by apply beq_false_of_ne; omega
  have htk : (b0 :: (c' ++ t)).take (c'.length + 1) = b0 :: c' := by simp
  conv => lhs; unfold jsonStringGo
  simp only [hlt, hd, h1, htk, Bool.and_false, Bool.false_eq_true, if_false, beq_iff_eq, h28, h29,
    Nat.add_sub_cancel, enc_skip]

/-- U+2028 / U+2029 are written as `\u2028` / `\u2029` -/
theorem enc_2028 (t : Bytes) : jsonStringGo 0 (0xE2 :: 0x80 :: 0xA8 :: t) = [92, 117, 50, 48, 50, 56] ++ jsonStringGo 0 t := by
  conv => lhs; unfold jsonStringGo
  simp [decodeRune, accept3, isCont, runeError, jsonStringGo]

theorem enc_2029 (t : Bytes) : jsonStringGo 0 (0xE2 :: 0x80 :: 0xA9 :: t) = [92, 117, 50, 48, 50, 57] ++ jsonStringGo 0 t := by
  conv => lhs; unfold jsonStringGo
  simp [decodeRune, accept3, isCont, runeError, jsonStringGo]

/-- a byte that begins no well-formed sequence is written as `\ufffd` -/
theorem enc_bad (b : UInt8) (t : Bytes) (hb : 128 ≤ b.toNat) (hd : decodeRune (b :: t) = (runeError, 1)) :
    jsonStringGo 0 (b :: t) = [92, 117, 102, 102, 102, 100] ++ jsonStringGo 0 t := by
  have hlt : ¬ b < 0x80 := by simp [UInt8.lt_iff_toNat_lt]; omega
  conv => lhs; unfold jsonStringGo
  simp [hlt, hd]

/-! ### a byte ≥ 0x80 either begins a well-formed sequence or decodes to (RuneError, 1) -/

theorem wf3_of_accept (b0 b1 b2 : UInt8) (h0 : 224 ≤ b0.toNat ∧ b0.toNat ≤ 239) (ha : accept3 b0 b1 = true)
    (hc : isCont b2 = true) : wellFormedSeq [b0, b1, b2] = true := by
  have hc2 : isTail b2 = true := hc
  unfold accept3 at ha
  simp only [wellFormedSeq, hc2, Bool.and_true]
  by_cases hE0 : b0 = 0xE0
  · subst hE0
    simp only [Bool.and_eq_true, decide_eq_true_eq, UInt8.le_iff_toNat_le] at ha
    simp [UInt8.le_iff_toNat_le] at ha ⊢
    omega
  · by_cases hED : b0 = 0xED
    · subst hED
      simp only [Bool.and_eq_true, decide_eq_true_eq, UInt8.le_iff_toNat_le] at ha
      simp [UInt8.le_iff_toNat_le] at ha ⊢
      omega
    · have n0 : b0.toNat ≠ 224 := fun e => hE0 (UInt8.toNat_inj.1 (by simpa using e))
      have nD : b0.toNat ≠ 237 := fun e => hED (UInt8.toNat_inj.1 (by simpa using e))
      have e0 : (b0 == 0xE0) = false := beq_false_of_ne hE0
      have eD : (b0 == 0xED) = false := beq_false_of_ne hED
      simp only [e0, eD, Bool.false_eq_true, if_false, Bool.and_eq_true, decide_eq_true_eq, UInt8.le_iff_toNat_le] at ha
      have ht : isTail b1 = true := (isTail_iff b1).2 (by simpa using ha)
      simp only [e0, eD, ht, Bool.false_and, Bool.false_or, Bool.or_false, Bool.and_true, Bool.or_eq_true,
        Bool.and_eq_true, decide_eq_true_eq, UInt8.le_iff_toNat_le]
      simp
      omega

theorem wf4_of_accept (b0 b1 b2 b3 : UInt8) (h0 : 240 ≤ b0.toNat ∧ b0.toNat ≤ 244) (ha : accept4 b0 b1 = true)
    (hc2 : isCont b2 = true) (hc3 : isCont b3 = true) : wellFormedSeq [b0, b1, b2, b3] = true := by
  have t2 : isTail b2 = true := hc2
  have t3 : isTail b3 = true := hc3
  unfold accept4 at ha
  simp only [wellFormedSeq, t2, t3, Bool.and_true]
  by_cases hF0 : b0 = 0xF0
  · subst hF0
    simp only [Bool.and_eq_true, decide_eq_true_eq, UInt8.le_iff_toNat_le] at ha
    simp [UInt8.le_iff_toNat_le] at ha ⊢
    omega
  · by_cases hF4 : b0 = 0xF4
    · subst hF4
      simp only [Bool.and_eq_true, decide_eq_true_eq, UInt8.le_iff_toNat_le] at ha
      simp [UInt8.le_iff_toNat_le] at ha ⊢
      omega
    · have n0 : b0.toNat ≠ 240 := fun e => hF0 (UInt8.toNat_inj.1 (by simpa using e))
      have n4 : b0.toNat ≠ 244 := fun e => hF4 (UInt8.toNat_inj.1 (by simpa using e))
      have e0 : (b0 == 0xF0) = false := beq_false_of_ne hF0
      have e4 : (b0 == 0xF4) = false := beq_false_of_ne hF4
      simp only [e0, e4, Bool.false_eq_true, if_false, Bool.and_eq_true, decide_eq_true_eq, UInt8.le_iff_toNat_le] at ha
      have ht : isTail b1 = true := (isTail_iff b1).2 (by simpa using ha)
      simp only [e0, e4, ht, Bool.false_and, Bool.false_or, Bool.or_false, Bool.and_true, Bool.or_eq_true,
        Bool.and_eq_true, decide_eq_true_eq, UInt8.le_iff_toNat_le]
      simp
      omega

/-- a well-formed multi-byte sequence decodes to its value with its length -/
theorem decode_wf (b0 : UInt8) (c' t : Bytes) (hc : wellFormedSeq (b0 :: c') = true) (hl : 1 ≤ c'.length) :
    ∃ r, decodeRune (b0 :: (c' ++ t)) = (r, c'.length + 1) ∧ utf8Encode r = b0 :: c' ∧ 0x80 ≤ r ∧
      ¬ (0xD800 ≤ r ∧ r < 0xE000) ∧ r < 0x110000 := by
  match c', hc, hl with
  | [b1], hc, _ =>
    obtain ⟨r, hd, he, h1, h2⟩ := decode2 b0 b1 t hc
    exact ⟨r, by simpa using hd, he, h1, by omega, by omega⟩
  | [b1, b2], hc, _ =>
    obtain ⟨r, hd, he, h1, h2, h3⟩ := decode3 b0 b1 b2 t hc
    exact ⟨r, by simpa using hd, he, by omega, h3, by omega⟩
  | [b1, b2, b3], hc, _ =>
    obtain ⟨r, hd, he, h1, h2⟩ := decode4 b0 b1 b2 b3 t hc
    exact ⟨r, by simpa using hd, he, by omega, by omega, h2⟩
  | [], _, hl => simp at hl
  | _ :: _ :: _ :: _ :: _, hc, _ => simp [wellFormedSeq] at hc

/-- the decoder of the model either fails with (RuneError, 1) or has read a well-formed sequence -/
theorem decode_err_or_wf (b : UInt8) (t : Bytes) (hb : 128 ≤ b.toNat) :
    decodeRune (b :: t) = (runeError, 1) ∨
    ∃ c' t', t = c' ++ t' ∧ 1 ≤ c'.length ∧ wellFormedSeq (b :: c') = true := by
  have hlt : ¬ b < 0x80 := by simp [UInt8.lt_iff_toNat_lt]; omega
  unfold decodeRune
  simp only [hlt, if_false]
  split
  · rename_i h2
    simp only [Bool.and_eq_true, decide_eq_true_eq, UInt8.le_iff_toNat_le] at h2
    match t with
    | [] => exact Or.inl rfl
    | b1 :: t' =>
      by_cases hc : isCont b1 = true
      · right
        refine ⟨[b1], t', rfl, by simp, ?_⟩
        have ht : isTail b1 = true := hc
        simp only [wellFormedSeq, ht, Bool.and_true, Bool.and_eq_true, decide_eq_true_eq, UInt8.le_iff_toNat_le]
        exact h2
      · left; simp [hc]
  · split
    · rename_i h3
      simp only [Bool.and_eq_true, decide_eq_true_eq, UInt8.le_iff_toNat_le] at h3
      match t with
      | [] => exact Or.inl rfl
      | [_] => exact Or.inl rfl
      | b1 :: b2 :: t' =>
        by_cases hc : (accept3 b b1 && isCont b2) = true
        · right
          simp only [Bool.and_eq_true] at hc
          exact ⟨[b1, b2], t', rfl, by simp, wf3_of_accept b b1 b2 (by simpa using h3) hc.1 hc.2⟩
        · left; simp [hc]
    · split
      · rename_i h4
        simp only [Bool.and_eq_true, decide_eq_true_eq, UInt8.le_iff_toNat_le] at h4
        match t with
        | [] => exact Or.inl rfl
        | [_] => exact Or.inl rfl
        | [_, _] => exact Or.inl rfl
        | b1 :: b2 :: b3 :: t' =>
          by_cases hc : (accept4 b b1 && isCont b2 && isCont b3) = true
          · right
            simp only [Bool.and_eq_true] at hc
            exact ⟨[b1, b2, b3], t', rfl, by simp, wf4_of_accept b b1 b2 b3 (by simpa using h4) hc.1.1 hc.1.2 hc.2⟩
          · left; simp [hc]
      · exact Or.inl rfl

/-- no well-formed sequence at the head: `utf8SeqLen` is 0 -/
theorem seqLen_zero (b : UInt8) (t : Bytes) (hb : 128 ≤ b.toNat)
    (h : ∀ c' t', t = c' ++ t' → 1 ≤ c'.length → wellFormedSeq (b :: c') = false) : utf8SeqLen (b :: t) = 0 := by
  have nw1 : wellFormedSeq [b] = false := by simp [wellFormedSeq, UInt8.le_iff_toNat_le]; omega
  have key : ∀ k, wellFormedSeq (b :: t.take k) = false := by
    intro k
    by_cases he : t.take k = []
    · rw [he]; exact nw1
    · exact h (t.take k) (t.drop k) (List.take_append_drop k t).symm (by
        cases hk : t.take k with
        | nil => exact absurd hk he
        | cons a l => simp)
  unfold utf8SeqLen
  have e1 : (b :: t).take 1 = [b] := by simp
  have e2 : (b :: t).take 2 = b :: t.take 1 := by simp
  have e3 : (b :: t).take 3 = b :: t.take 2 := by simp
  have e4 : (b :: t).take 4 = b :: t.take 3 := by simp
  rw [e1, e2, e3, e4, nw1, key 1, key 2, key 3]
  simp

/-- the dichotomy for a byte ≥ 0x80 at the head -/
theorem high_cases (b : UInt8) (t : Bytes) (hb : 128 ≤ b.toNat) :
    (∃ c' t', t = c' ++ t' ∧ 1 ≤ c'.length ∧ wellFormedSeq (b :: c') = true) ∨
    (decodeRune (b :: t) = (runeError, 1) ∧ utf8SeqLen (b :: t) = 0) := by
  rcases decode_err_or_wf b t hb with he | hw
  · right
    refine ⟨he, seqLen_zero b t hb ?_⟩
    intro c' t' ht hl
    cases hw : wellFormedSeq (b :: c') with
    | false => rfl
    | true =>
      obtain ⟨r, hd, _⟩ := decode_wf b c' t' hw hl
      rw [← ht, he] at hd
      simp only [Prod.mk.injEq] at hd
      omega
  · exact Or.inl hw

/-! ### `sanitize` -/

theorem san_skip (l t : Bytes) : sanitizeGo l.length (l ++ t) = l ++ sanitizeGo 0 t := by
  induction l with
  | nil => rfl
  | cons a l ih => simp [sanitizeGo, ih]

theorem san_seq (c t : Bytes) (hc : wellFormedSeq c = true) : sanitizeGo 0 (c ++ t) = c ++ sanitizeGo 0 t := by
  have hlen := seqLen_of_wf c t hc
  cases c with
  | nil => simp [wellFormedSeq] at hc
  | cons b c' =>
    simp only [List.cons_append] at hlen ⊢
    rw [sanitizeGo]
    simp only [hlen, List.length_cons]
    rw [if_neg (by simp)]
    simp only [Nat.add_sub_cancel, san_skip]

theorem san_bad (b : UInt8) (t : Bytes) (h : utf8SeqLen (b :: t) = 0) :
    sanitizeGo 0 (b :: t) = [0xEF, 0xBF, 0xBD] ++ sanitizeGo 0 t := by
  rw [sanitizeGo]; simp [h]

/-- valid UTF-8 is left alone -/
theorem sanitize_valid (s : Bytes) (hs : ValidUtf8 s) : sanitize s = s := by
  unfold sanitize
  induction hs with
  | nil => rfl
  | seq c t hc _ ih => rw [san_seq c t hc, ih]

/-! ### one step of the round trip -/

theorem utf8Encode_fffd : utf8Encode 0xFFFD = [0xEF, 0xBF, 0xBD] := by decide

/-- the escapes of the ASCII branch decode to the byte -/
theorem ascii_roundtrip (b : UInt8) (X : Bytes) (hb : b.toNat < 128) :
    strBody 0 ((if jsonHtmlSafe b then [b] else jsonAsciiEsc b) ++ X) = pre [b] (strBody 0 X) := by
  cases hs : jsonHtmlSafe b
  · simp only [Bool.false_eq_true, if_false]
    unfold jsonAsciiEsc
    by_cases h1 : (b == 92 || b == 34) = true
    · simp only [h1, if_true, List.cons_append, List.nil_append]
      simp only [Bool.or_eq_true, beq_iff_eq] at h1
      rcases h1 with rfl | rfl
      · exact body_named 92 92 X (Or.inr (Or.inl ⟨rfl, rfl⟩))
      · exact body_named 34 34 X (Or.inl ⟨rfl, rfl⟩)
    · simp only [h1, Bool.false_eq_true, if_false]
      by_cases h8 : b = 8
      · subst h8; exact body_named 98 8 X (by simp)
      by_cases h12 : b = 12
      · subst h12; exact body_named 102 12 X (by simp)
      by_cases h10 : b = 10
      · subst h10; exact body_named 110 10 X (by simp)
      by_cases h13 : b = 13
      · subst h13; exact body_named 114 13 X (by simp)
      by_cases h9 : b = 9
      · subst h9; exact body_named 116 9 X (by simp)
      simp only [h8, h12, h10, h13, h9, beq_iff_eq, if_false]
      have := body_u4 b.toNat X (by omega) (by omega)
      have e1 : b.toNat / 4096 % 16 = 0 := by omega
      have e2 : b.toNat / 256 % 16 = 0 := by omega
      have e3 : b.toNat / 16 % 16 = b.toNat / 16 := by omega
      have e4 : b.toNat % 16 = b.toNat % 16 := rfl
      simp only [hex4Lower, e1, e2, e3, List.cons_append, List.nil_append] at this
      have h0 : hexLower 0 = 48 := by decide
      rw [h0] at this
      rw [utf8Encode_ascii b hb] at this
      exact this
  · simp only [if_true, List.cons_append, List.nil_append]
    simp only [jsonHtmlSafe, Bool.and_eq_true, decide_eq_true_eq, bne_iff_ne, ne_eq, UInt8.le_iff_toNat_le] at hs
    obtain ⟨⟨⟨⟨⟨h32, h34⟩, _⟩, _⟩, _⟩, h92⟩ := hs
    exact body_raw_ascii b X (by simpa using h32) hb h34 h92

/-- a well-formed sequence through encoder and decoder -/
theorem roundtrip_seq (c t X : Bytes) (hc : wellFormedSeq c = true) :
    strBody 0 (jsonStringGo 0 (c ++ t) ++ X) = pre c (strBody 0 (jsonStringGo 0 t ++ X)) := by
  cases c with
  | nil => simp [wellFormedSeq] at hc
  | cons b0 c' =>
    by_cases hl : c'.length = 0
    · have : c' = [] := List.eq_nil_of_length_eq_zero hl
      subst this
      have hb : b0.toNat < 128 := by
        simp only [wellFormedSeq, decide_eq_true_eq, UInt8.le_iff_toNat_le] at hc; simp at hc; omega
      have hlt : b0 < 0x80 := by simp [UInt8.lt_iff_toNat_lt]; omega
      simp only [List.cons_append, List.nil_append]
      rw [enc_ascii b0 t hlt, List.append_assoc]
      exact ascii_roundtrip b0 _ hb
    · have hl1 : 1 ≤ c'.length := by omega
      obtain ⟨r, hd, he, h80, hsur, hmax⟩ := decode_wf b0 c' t hc hl1
      have hb := wf_high b0 c' hc hl1
      simp only [List.cons_append]
      by_cases h28 : r = 0x2028
      · subst h28
        have e : b0 :: c' = [0xE2, 0x80, 0xA8] := by rw [← he]; decide
        simp only [List.cons.injEq] at e
        obtain ⟨rfl, rfl⟩ := e
        simp only [List.cons_append, List.nil_append]
        rw [enc_2028]
        have := body_u4 0x2028 (jsonStringGo 0 t ++ X) (by decide) (by decide)
        rw [show utf8Encode 0x2028 = [0xE2, 0x80, 0xA8] by decide] at this
        simpa [hex4Lower, hexLower] using this
      by_cases h29 : r = 0x2029
      · subst h29
        have e : b0 :: c' = [0xE2, 0x80, 0xA9] := by rw [← he]; decide
        simp only [List.cons.injEq] at e
        obtain ⟨rfl, rfl⟩ := e
        simp only [List.cons_append, List.nil_append]
        rw [enc_2029]
        have := body_u4 0x2029 (jsonStringGo 0 t ++ X) (by decide) (by decide)
        rw [show utf8Encode 0x2029 = [0xE2, 0x80, 0xA9] by decide] at this
        simpa [hex4Lower, hexLower] using this
      rw [enc_multi b0 c' t r hb hd hl1 h28 h29]
      simp only [List.cons_append, List.append_assoc]
      exact body_raw_multi b0 c' _ hc hl1

/-- a byte that begins no well-formed sequence: `\ufffd`, which reads back as U+FFFD -/
theorem roundtrip_bad (b : UInt8) (t X : Bytes) (hb : 128 ≤ b.toNat) (hd : decodeRune (b :: t) = (runeError, 1)) :
    strBody 0 (jsonStringGo 0 (b :: t) ++ X) = pre [0xEF, 0xBF, 0xBD] (strBody 0 (jsonStringGo 0 t ++ X)) := by
  rw [enc_bad b t hb hd, List.append_assoc]
  have := body_u4 0xFFFD (jsonStringGo 0 t ++ X) (by decide) (by decide)
  rw [utf8Encode_fffd] at this
  simpa [hex4Lower, hexLower] using this

/-- the whole body, followed by the closing quotation mark -/
theorem roundtrip_body (rest : Bytes) : ∀ (n : Nat) (s : Bytes), s.length ≤ n →
    strBody 0 (jsonStringGo 0 s ++ 34 :: rest) = some (sanitizeGo 0 s, rest) := by
  intro n
  induction n with
  | zero =>
    intro s hs
    have : s = [] := List.eq_nil_of_length_eq_zero (by omega)
    subst this
    simp [jsonStringGo, sanitizeGo, body_close]
  | succ n ih =>
    intro s hs
    cases s with
    | nil => simp [jsonStringGo, sanitizeGo, body_close]
    | cons b t =>
      by_cases hb : b.toNat < 128
      · have hc : wellFormedSeq [b] = true := by
          simp [wellFormedSeq, UInt8.le_iff_toNat_le]; omega
        have h1 := roundtrip_seq [b] t (34 :: rest) hc
        have h2 := san_seq [b] t hc
        simp only [List.cons_append, List.nil_append] at h1 h2
        rw [h1, h2, ih t (by simp at hs; omega)]
        rfl
      · rcases high_cases b t (by omega) with ⟨c', t', rfl, hl, hc⟩ | ⟨hd, hz⟩
        · have h1 := roundtrip_seq (b :: c') t' (34 :: rest) hc
          have h2 := san_seq (b :: c') t' hc
          simp only [List.cons_append] at h1 h2
          rw [h1, h2, ih t' (by simp at hs; omega)]
          rfl
        · rw [roundtrip_bad b t _ (by omega) hd, san_bad b t hz, ih t (by simp at hs; omega)]
          rfl

/-! ### embedding safety of the output, for every input -/

/-- what every token written by the encoder satisfies -/
def TokSafe (X : Bytes) : Prop :=
  (∀ b ∈ X, byteSafe b = true) ∧ ∀ rest, quotesEscapedGo false (X ++ rest) = quotesEscapedGo false rest

theorem tokSafe_append {X Y : Bytes} (hx : TokSafe X) (hy : TokSafe Y) : TokSafe (X ++ Y) := by
  refine ⟨fun b hb => ?_, fun rest => ?_⟩
  · rcases List.mem_append.1 hb with h | h
    · exact hx.1 b h
    · exact hy.1 b h
  · rw [List.append_assoc, hx.2, hy.2]

theorem hexLower_ok : ∀ n : Fin 16, byteSafe (hexLower n.val) = true ∧ (hexLower n.val == 92) = false ∧
    (hexLower n.val != 34) = true ∧ hexLower n.val ≠ 0xE2 := by decide

theorem tokSafe_asciiEsc (b : UInt8) : TokSafe (jsonAsciiEsc b) ∧ ∀ x ∈ jsonAsciiEsc b, x ≠ 0xE2 := by
  unfold jsonAsciiEsc
  split
  · rename_i h
    simp only [Bool.or_eq_true, beq_iff_eq] at h
    rcases h with rfl | rfl
    · exact ⟨⟨by decide, fun rest => by simp [quotesEscapedGo]⟩, by decide⟩
    · exact ⟨⟨by decide, fun rest => by simp [quotesEscapedGo]⟩, by decide⟩
  · split
    · exact ⟨⟨by decide, fun rest => by simp [quotesEscapedGo]⟩, by decide⟩
    split
    · exact ⟨⟨by decide, fun rest => by simp [quotesEscapedGo]⟩, by decide⟩
    split
    · exact ⟨⟨by decide, fun rest => by simp [quotesEscapedGo]⟩, by decide⟩
    split
    · exact ⟨⟨by decide, fun rest => by simp [quotesEscapedGo]⟩, by decide⟩
    split
    · exact ⟨⟨by decide, fun rest => by simp [quotesEscapedGo]⟩, by decide⟩
    · have a := hexLower_ok ⟨b.toNat / 16, nib_hi b⟩
      have c := hexLower_ok ⟨b.toNat % 16, nib_lo b⟩
      simp only at a c
      obtain ⟨a1, a92, a34, aE⟩ := a
      obtain ⟨c1, c92, c34, cE⟩ := c
      refine ⟨⟨?_, fun rest => ?_⟩, ?_⟩
      · intro x hx
        simp only [List.mem_cons, List.not_mem_nil, or_false] at hx
        rcases hx with rfl | rfl | rfl | rfl | rfl | rfl
        · decide
        · decide
        · decide
        · decide
        · exact a1
        · exact c1
      · simp [quotesEscapedGo, a92, a34, c92, c34]
      · intro x hx
        simp only [List.mem_cons, List.not_mem_nil, or_false] at hx
        rcases hx with rfl | rfl | rfl | rfl | rfl | rfl
        · decide
        · decide
        · decide
        · decide
        · exact aE
        · exact cE

theorem tokSafe_raw_ascii (b : UInt8) (h : jsonHtmlSafe b = true) : TokSafe [b] := by
  simp only [jsonHtmlSafe, Bool.and_eq_true, decide_eq_true_eq, bne_iff_ne, ne_eq] at h
  obtain ⟨⟨⟨⟨⟨h32, h34⟩, h38⟩, h60⟩, h62⟩, h92⟩ := h
  refine ⟨?_, fun rest => ?_⟩
  · intro x hx
    simp only [List.mem_cons, List.not_mem_nil, or_false] at hx
    subst hx
    simp only [byteSafe, Bool.and_eq_true, decide_eq_true_eq, bne_iff_ne, ne_eq]
    exact ⟨⟨⟨h32, h60⟩, h62⟩, h38⟩
  · simp [quotesEscapedGo, h92, h34]

/-- raw bytes ≥ 0x80 -/
theorem tokSafe_high (l : Bytes) (h : ∀ b ∈ l, 128 ≤ b.toNat) : TokSafe l := by
  induction l with
  | nil => exact ⟨by simp, fun rest => rfl⟩
  | cons a l ih =>
    have ha := h a (by simp)
    have hl := ih (fun b hb => h b (by simp [hb]))
    have n92 : a ≠ 92 := by rintro rfl; simp at ha
    have n34 : a ≠ 34 := by rintro rfl; simp at ha
    refine ⟨fun b hb => ?_, fun rest => ?_⟩
    · rcases List.mem_cons.1 hb with rfl | hb
      · have n60 : b ≠ 60 := by rintro rfl; simp at ha
        have n62 : b ≠ 62 := by rintro rfl; simp at ha
        have n38 : b ≠ 38 := by rintro rfl; simp at ha
        simp only [byteSafe, Bool.and_eq_true, decide_eq_true_eq, bne_iff_ne, ne_eq]
        refine ⟨⟨⟨?_, n60⟩, n62⟩, n38⟩
        simp only [UInt8.le_iff_toNat_le]; simp; omega
      · exact hl.1 b hb
    · simp [quotesEscapedGo, n92, n34, hl.2]

theorem take_decode (c : UInt8) (r : Bytes) (hlt : ¬ c < 0x80) :
    (c :: r).take (decodeRune (c :: r)).2 = c :: r.take ((decodeRune (c :: r)).2 - 1) ∧
    (∀ b ∈ c :: r.take ((decodeRune (c :: r)).2 - 1), 128 ≤ b.toNat) ∧
    (∀ b ∈ r.take ((decodeRune (c :: r)).2 - 1), b ≠ 0xE2) := by
  obtain ⟨_, h1, hcont⟩ := decodeRune_high c r hlt
  refine ⟨?_, ?_, ?_⟩
  · obtain ⟨n, hn⟩ : ∃ n, (decodeRune (c :: r)).2 = n + 1 := ⟨(decodeRune (c :: r)).2 - 1, by omega⟩
    rw [hn]; simp
  · intro b hb
    rcases List.mem_cons.1 hb with rfl | hb
    · simp only [UInt8.lt_iff_toNat_lt] at hlt; simp at hlt; omega
    · have := (isCont_iff b).1 (List.all_eq_true.1 hcont b hb); omega
  · exact fun b hb => cont_ne_E2 b (List.all_eq_true.1 hcont b hb)

theorem bytes_safe : ∀ (s : Bytes) (k : Nat), TokSafe (jsonStringGo k s) := by
  intro s
  induction s with
  | nil => intro k; cases k <;> exact ⟨by simp [jsonStringGo], fun rest => by simp [jsonStringGo]⟩
  | cons c r ih =>
    intro k
    cases k with
    | succ k => simpa [jsonStringGo] using ih k
    | zero =>
      unfold jsonStringGo
      by_cases hlt : c < 0x80
      · simp only [hlt, if_true]
        refine tokSafe_append ?_ (ih 0)
        split
        · rename_i hs; exact tokSafe_raw_ascii c hs
        · exact (tokSafe_asciiEsc c).1
      · simp only [hlt, if_false]
        split
        · exact tokSafe_append ⟨by decide, fun rest => by simp [quotesEscapedGo]⟩ (ih 0)
        split
        · exact tokSafe_append ⟨by decide, fun rest => by simp [quotesEscapedGo]⟩ (ih 2)
        split
        · exact tokSafe_append ⟨by decide, fun rest => by simp [quotesEscapedGo]⟩ (ih 2)
        · obtain ⟨htk, hhi, _⟩ := take_decode c r hlt
          rw [htk]
          exact tokSafe_append (tokSafe_high _ hhi) (ih _)

theorem lineSep_safe : ∀ (s : Bytes) (k : Nat), noLineSep (jsonStringGo k s) = true := by
  intro s
  induction s with
  | nil => intro k; cases k <;> simp [jsonStringGo, noLineSep]
  | cons c r ih =>
    intro k
    cases k with
    | succ k => simpa [jsonStringGo] using ih k
    | zero =>
      unfold jsonStringGo
      by_cases hlt : c < 0x80
      · simp only [hlt, if_true]
        split
        · have hc : c ≠ 0xE2 := by rintro rfl; simp at hlt
          simp [noLineSep, isLineSep_ne c _ hc, ih 0]
        · rw [noLineSep_append _ _ (tokSafe_asciiEsc c).2]; exact ih 0
      · simp only [hlt, if_false]
        split
        · rw [noLineSep_append _ _ (by decide)]; exact ih 0
        split
        · rw [noLineSep_append _ _ (by decide)]; exact ih 2
        split
        · rw [noLineSep_append _ _ (by decide)]; exact ih 2
        · rename_i hne h28 h29
          obtain ⟨htk, _, htail⟩ := take_decode c r hlt
          rw [htk]
          simp only [List.cons_append, noLineSep]
          rw [noLineSep_append _ _ htail, ih _, Bool.and_true]
          by_cases hE2 : c = 0xE2
          · subst hE2
            match r, hne, h28, h29 with
            | [], hne, _, _ => simp [decodeRune, runeError] at hne
            | [_], hne, _, _ => simp [decodeRune, runeError] at hne
            | b1 :: b2 :: t, hne, h28, h29 =>
              by_cases hacc : (accept3 0xE2 b1 && isCont b2) = true
              · have hd : decodeRune (0xE2 :: b1 :: b2 :: t) = (8192 + (b1.toNat % 64) * 64 + b2.toNat % 64, 3) := by
                  simp [decodeRune, hacc]
                rw [hd] at h28 h29 ⊢
                simp only [Nat.add_one_sub_one, List.take_succ_cons, List.take_zero, List.cons_append, List.nil_append]
                simp only [isLineSep, List.take_succ_cons, List.take_zero, Bool.not_eq_true', Bool.or_eq_false_iff,
                  beq_eq_false_iff_ne, ne_eq, List.cons.injEq, true_and, and_true, not_and]
                constructor
                · rintro rfl rfl; exact h28 (by decide)
                · rintro rfl rfl; exact h29 (by decide)
              · have hd : decodeRune (0xE2 :: b1 :: b2 :: t) = (runeError, 1) := by
                  simp [decodeRune, hacc]
                rw [hd] at hne; simp at hne
          · simp [isLineSep_ne c _ hE2]

end SoyVerif.Lemmas.JsonString
