/-
  Lemmas about changeNewlineToBr and insertWordBreaks (Model/Directives.lean):
  * removing the inserted <br> / <wbr> gives back the escaped text (no data byte is touched);
  * every `&` of the output, as written, still begins a complete character reference
    (no reference is cut by an inserted tag) — for insertWordBreaks this is the entity-aware
    `inEntity` logic, and needs that a multi-byte rune only steps over continuation bytes.
-/
import SoyVerif.Model.Directives
import SoyVerif.Spec.Html
import SoyVerif.Lemmas.EscapeHtml
import SoyVerif.Lemmas.Utf8

namespace SoyVerif.Lemmas.EscapeBreaks
open SoyVerif SoyVerif.Model SoyVerif.Spec SoyVerif.Model.Directives SoyVerif.Lemmas.EscapeHtml SoyVerif.Lemmas.Utf8

theorem removeBr_tag (X : Bytes) : removeTagGo brTag 0 (brTag ++ X) = removeTagGo brTag 0 X := by
  simp [removeTagGo, brTag]

theorem removeWbr_tag (X : Bytes) : removeTagGo wbrTag 0 (wbrTag ++ X) = removeTagGo wbrTag 0 X := by
  simp [removeTagGo, wbrTag]

theorem removeBr_other (b : UInt8) (X : Bytes) (h : b ≠ 60) :
    removeTagGo brTag 0 (b :: X) = b :: removeTagGo brTag 0 X := by
  have : ¬ (60 = b) := fun e => h e.symm
  simp [removeTagGo, brTag, this]

theorem removeWbr_other (b : UInt8) (X : Bytes) (h : b ≠ 60) :
    removeTagGo wbrTag 0 (b :: X) = b :: removeTagGo wbrTag 0 X := by
  have : ¬ (60 = b) := fun e => h e.symm
  simp [removeTagGo, wbrTag, this]

def notNL (b : UInt8) : Bool := b != 13 && b != 10

theorem removeBr_nlToBr (e : Bytes) (h : ∀ b ∈ e, b ≠ 60) :
    ∀ p, removeTagGo brTag 0 (nlToBrGo p e) = e.filter notNL := by
  induction e with
  | nil => intro p; simp [nlToBrGo, removeTagGo]
  | cons b r ih =>
    intro p
    have hr : ∀ c ∈ r, c ≠ 60 := fun c hc => h c (by simp [hc])
    have hb : b ≠ 60 := h b (by simp)
    unfold nlToBrGo
    by_cases h13 : b = 13
    · subst h13; simp [removeBr_tag, ih hr, notNL]
    · by_cases h10 : b = 10
      · subst h10
        cases p <;> simp [removeBr_tag, ih hr, notNL]
      · have hn : notNL b = true := by simp [notNL, h13, h10]
        simp [h13, h10, removeBr_other _ _ hb, ih hr, List.filter_cons, hn]

theorem removeWbr_wordBreaks (m : Int) (e : Bytes) (h : ∀ b ∈ e, b ≠ 60) :
    ∀ skip chars inE, removeTagGo wbrTag 0 (wordBreaksGo m skip chars inE e) = e := by
  induction e with
  | nil => intro s c i; simp [wordBreaksGo, removeTagGo]
  | cons b r ih =>
    intro skip chars inE
    have hr : ∀ c ∈ r, c ≠ 60 := fun c hc => h c (by simp [hc])
    have hb : b ≠ 60 := h b (by simp)
    cases skip with
    | succ k => simp [wordBreaksGo, removeWbr_other _ _ hb, ih hr]
    | zero =>
      unfold wordBreaksGo
      simp only []
      split
      · simp [removeWbr_other _ _ hb, ih hr]
      · split
        · simp [removeWbr_other _ _ hb, ih hr]
        · split
          · simp [removeWbr_tag, removeWbr_other _ _ hb, ih hr]
          · simp [removeWbr_other _ _ hb, ih hr]

theorem amps_cons_ne (b : UInt8) (X : Bytes) (h : b ≠ 38) : ampsStartRefs (b :: X) = ampsStartRefs X := by
  simp [ampsStartRefs, h]

theorem amps_wbr (X : Bytes) : ampsStartRefs (wbrTag ++ X) = ampsStartRefs X := by
  simp [ampsStartRefs, wbrTag]

theorem amps_br (X : Bytes) : ampsStartRefs (brTag ++ X) = ampsStartRefs X := by
  simp [ampsStartRefs, brTag]

/-- what one iteration outside an entity writes before the rune, and the new count -/
def wbPre (m : Int) (c d1 : Nat) : Bytes := if d1 == 32 then [] else if (c : Int) ≥ m then wbrTag else []
def wbChars (m : Int) (c d1 : Nat) : Nat := if d1 == 32 then 0 else if (c : Int) ≥ m then 1 else c + 1

/-- one iteration outside an entity -/
theorem wb_step0 (m : Int) (c : Nat) (b : UInt8) (r : Bytes) :
    wordBreaksGo m 0 c false (b :: r) =
      wbPre m c (decodeRune (b :: r)).1 ++ b :: wordBreaksGo m ((decodeRune (b :: r)).2 - 1)
        (wbChars m c (decodeRune (b :: r)).1)
        ((decodeRune (b :: r)).1 != 32 && (decodeRune (b :: r)).1 == 38) r := by
  rw [wordBreaksGo]
  simp only [Bool.false_eq_true, if_false, wbPre, wbChars]
  by_cases h32 : ((decodeRune (b :: r)).1 == 32) = true
  · have h' : ((decodeRune (b :: r)).1 != 32) = false := by simp [bne, h32]
    simp [h32, h']
  · have h' : ((decodeRune (b :: r)).1 != 32) = true := by simp [bne, h32]
    by_cases hm : (c : Int) ≥ m
    · simp [h32, hm, h']
    · simp [h32, hm, h']

theorem amps_pre (m : Int) (c d1 : Nat) (X : Bytes) : ampsStartRefs (wbPre m c d1 ++ X) = ampsStartRefs X := by
  unfold wbPre
  split
  · rfl
  · split
    · exact amps_wbr X
    · rfl

theorem wb_amps (m : Int) : ∀ (s : Bytes) (skip chars : Nat),
    ((htmlEscape s).take skip).all isCont = true →
    ampsStartRefs (wordBreaksGo m skip chars false (htmlEscape s)) = true := by
  intro s
  induction s with
  | nil => intro skip chars _; cases skip <;> simp [htmlEscape, wordBreaksGo, ampsStartRefs]
  | cons b r ih =>
    intro skip chars hk
    rw [htmlEscape] at hk ⊢
    cases skip with
    | succ k =>
      -- the byte is a continuation byte, hence copied
      have hpiece : htmlPiece b = [b] ∧ isCont b = true := by
        rcases htmlPiece_cases b with ⟨_, h⟩ | ⟨_, h⟩ | ⟨_, h⟩ | ⟨_, h⟩ | ⟨_, h⟩ | ⟨_, _, _, _, _, h⟩ <;>
          rw [h] at hk ⊢ <;> simp [isCont] at hk ⊢
        exact hk.1
      rw [hpiece.1] at hk ⊢
      have hb38 : b ≠ 38 := by rintro rfl; simp [isCont] at hpiece
      simp only [List.singleton_append, wordBreaksGo]
      rw [amps_cons_ne _ _ hb38]
      apply ih
      simp only [List.singleton_append, List.take_succ_cons, List.all_cons, Bool.and_eq_true] at hk
      exact hk.2
    | zero =>
      rcases htmlPiece_cases b with ⟨_, h⟩ | ⟨_, h⟩ | ⟨_, h⟩ | ⟨_, h⟩ | ⟨_, h⟩ | ⟨_, _, h38, _, _, h⟩ <;> rw [h]
      case inr.inr.inr.inr.inr =>
        simp only [List.singleton_append]
        rw [wb_step0, amps_pre, amps_cons_ne _ _ h38]
        by_cases hlt : b < 0x80
        · rw [decodeRune_ascii b _ hlt]
          have : (b.toNat == 38) = false := by
            apply beq_false_of_ne
            intro e; exact h38 (UInt8.toNat_inj.1 (by simpa using e))
          simp only [this, Bool.and_false]
          exact ih 0 _ (by simp)
        · obtain ⟨h128, _, hcont⟩ := decodeRune_high b (htmlEscape r) hlt
          have : ((decodeRune (b :: htmlEscape r)).1 == 38) = false := by
            apply beq_false_of_ne; omega
          simp only [this, Bool.and_false]
          exact ih _ _ hcont
      all_goals
        simp only [List.cons_append, List.nil_append]
        rw [wb_step0, amps_pre]
        simp [wordBreaksGo, decodeRune, ampsStartRefs, matchRef, htmlRefs]
        exact ih 0 _ (by simp)

/-! ### changeNewlineToBr -/

theorem filter_notNL_htmlEscape (s : Bytes) :
    (htmlEscape s).filter notNL = htmlEscape (s.filter notNL) := by
  induction s with
  | nil => rfl
  | cons b r ih =>
    rw [htmlEscape, List.filter_append, ih]
    by_cases hn : notNL b = true
    · have : (htmlPiece b).filter notNL = htmlPiece b := by
        rcases htmlPiece_cases b with ⟨_, h⟩ | ⟨_, h⟩ | ⟨_, h⟩ | ⟨_, h⟩ | ⟨_, h⟩ | ⟨_, _, _, _, _, h⟩ <;> rw [h]
        all_goals first
          | decide
          | simp [hn]
      rw [this, List.filter_cons, if_pos hn, htmlEscape]
    · have hb : b = 13 ∨ b = 10 := by
        simp only [notNL, Bool.and_eq_true, bne_iff_ne, ne_eq] at hn
        by_cases h13 : b = 13
        · exact Or.inl h13
        · by_cases h10 : b = 10
          · exact Or.inr h10
          · exact absurd ⟨h13, h10⟩ hn
      have hp : htmlPiece b = [b] := by rcases hb with rfl | rfl <;> decide
      rw [hp, List.filter_cons, if_neg hn]
      simp [hn]

theorem nl_amps : ∀ (s : Bytes) (p : Bool), ampsStartRefs (nlToBrGo p (htmlEscape s)) = true := by
  intro s
  induction s with
  | nil => intro p; simp [htmlEscape, nlToBrGo, ampsStartRefs]
  | cons b r ih =>
    intro p
    rw [htmlEscape]
    rcases htmlPiece_cases b with ⟨_, h⟩ | ⟨_, h⟩ | ⟨_, h⟩ | ⟨_, h⟩ | ⟨_, h⟩ | ⟨_, _, h38, _, _, h⟩ <;> rw [h]
    case inr.inr.inr.inr.inr =>
      simp only [List.singleton_append]
      rw [nlToBrGo]
      by_cases h13 : b = 13
      · subst h13; simp [amps_br, ih]
      · by_cases h10 : b = 10
        · subst h10; cases p <;> simp [amps_br, ih]
        · simp [h13, h10, amps_cons_ne _ _ h38, ih]
    all_goals simp [nlToBrGo, ampsStartRefs, matchRef, htmlRefs, ih]

end SoyVerif.Lemmas.EscapeBreaks
