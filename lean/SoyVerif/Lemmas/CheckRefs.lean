/-
  Facts about the specification alone: the free reference occurrences of a closed
  construct in environment `env` lie below `env.length` (a construct cannot refer to a
  binding that is declared after it), and what this means for "every let is used".
-/
import SoyVerif.Lemmas.CheckExpr

namespace SoyVerif.Lemmas.Check
open SoyVerif SoyVerif.Model SoyVerif.Model.Check SoyVerif.Spec

/-- all targets lie below height `n` -/
def Below (n : Nat) (T : List Target) : Prop := ∀ t ∈ T, t.below n = true

theorem Below.nil (n : Nat) : Below n [] := by intro t ht; cases ht

theorem Below.append {n : Nat} {T U : List Target} (hT : Below n T) (hU : Below n U) : Below n (T ++ U) := by
  intro t ht
  rcases List.mem_append.mp ht with h | h
  · exact hT t h
  · exact hU t h

theorem Below.filter (n : Nat) (T : List Target) : Below n (T.filter (Target.below n)) := by
  intro t ht
  exact (List.mem_filter.mp ht).2

theorem Below.map_param (n : Nat) (ks : List Bytes) : Below n (ks.map Target.param) := by
  intro t ht
  obtain ⟨k, _, rfl⟩ := List.mem_map.mp ht
  rfl

theorem Below.refsKeys (params : List Bytes) (env : Env) (ks : List Bytes) :
    Below env.length (refsKeys params env ks) := refsKeys_below

theorem Target.below_mono {t : Target} {n m : Nat} (h : t.below n = true) (hnm : n ≤ m) : t.below m = true := by
  cases t with
  | var i => simp only [Target.below, decide_eq_true_eq] at h ⊢; omega
  | _ => rfl

theorem Below.mono {n m : Nat} {T : List Target} (h : Below n T) (hnm : n ≤ m) : Below m T :=
  fun t ht => Target.below_mono (h t ht) hnm

theorem Below.filter_eq {n : Nat} {T : List Target} (h : Below n T) : T.filter (Target.below n) = T :=
  List.filter_eq_self.mpr h

theorem Below.not_mem {n j : Nat} {T : List Target} (h : Below n T) : Target.var (n + j) ∉ T := by
  intro hm
  have := h _ hm
  simp [Target.below] at this
  omega

section
variable {reg : List Check.Template} {params : List Bytes}

theorem refsBlock_below (env : Env) (b : Block) : Below env.length (refsBlock reg params env b) := by
  cases b with
  | mk _ cmds => exact Below.filter _ _

mutual
  theorem refsCmd_below : (c : Cmd) → (env : Env) → Below env.length (refsCmd reg params env c)
    | .rawText .., env => Below.nil _
    | .debugger .., env => Below.nil _
    | .namespace .., env => Below.nil _
    | .soyDoc .., env => Below.nil _
    | .headerParam .., env => Below.nil _
    | .print _ a dirs, env => Below.refsKeys _ _ _
    | .msg _ _ _ _ _ body, env => by simpa only [refsCmd] using refsParts_below body env
    | .css _ e _, env => Below.refsKeys _ _ _
    | .log _ b, env => by simpa only [refsCmd] using refsBlock_below env b
    | .ifc _ conds, env => by simpa only [refsCmd] using refsConds_below conds env
    | .forc _ v l b (some b'), env => by
      simp only [refsCmd]
      exact (Below.refsKeys _ _ _).append ((Below.filter _ _).append (refsBlock_below env b'))
    | .forc _ v l b none, env => by
      simp only [refsCmd]
      exact (Below.refsKeys _ _ _).append ((Below.filter _ _).append (Below.nil _))
    | .switch _ v cases, env => by
      simp only [refsCmd]
      exact (Below.refsKeys _ _ _).append (refsCases_below cases env)
    | .call _ name allData d ps, env => by
      simp only [refsCmd]
      exact (Below.map_param _ _).append ((Below.refsKeys _ _ _).append (refsParams_below ps env))
    | .letValue _ _ e, env => Below.refsKeys _ _ _
    | .letContent _ _ b, env => by simpa only [refsCmd] using refsBlock_below env b
    | .template _ _ b _ _, env => by simpa only [refsCmd] using refsBlock_below env b
  theorem refsConds_below : (cs : CondList) → (env : Env) → Below env.length (refsConds reg params env cs)
    | .nil, env => Below.nil _
    | .cons _ c b r, env => by
      simp only [refsConds]
      exact ((Below.refsKeys _ _ _).append (refsBlock_below env b)).append (refsConds_below r env)
  theorem refsCases_below : (cs : CaseList) → (env : Env) → Below env.length (refsCases reg params env cs)
    | .nil, env => Below.nil _
    | .cons _ vs b r, env => by
      simp only [refsCases]
      exact ((refsBlock_below env b).append (Below.refsKeys _ _ _)).append (refsCases_below r env)
  theorem refsParams_below : (ps : ParamList) → (env : Env) → Below env.length (refsParams reg params env ps)
    | .nil, env => Below.nil _
    | .value _ _ e r, env => by
      simp only [refsParams]
      exact (Below.refsKeys _ _ _).append (refsParams_below r env)
    | .content _ _ b r, env => by
      simp only [refsParams]
      exact (refsBlock_below env b).append (refsParams_below r env)
  theorem refsParts_below : (ps : MsgParts) → (env : Env) → Below env.length (refsParts reg params env ps)
    | .nil, env => Below.nil _
    | .text _ _ r, env => by simpa only [refsParts] using refsParts_below r env
    | .ph _ _ (.htmlTag ..) r, env => by
      simp only [refsParts]
      exact (Below.nil _).append (refsParts_below r env)
    | .ph _ _ (.cmd c) r, env => by
      simp only [refsParts]
      exact (refsCmd_below c env).append (refsParts_below r env)
    | .plural _ _ v cases _ d r, env => by
      simp only [refsParts]
      exact ((Below.refsKeys _ _ _).append ((refsPlCases_below cases env).append (refsParts_below d env))).append
        (refsParts_below r env)
  theorem refsPlCases_below : (cs : PluralCases) → (env : Env) → Below env.length (refsPlCases reg params env cs)
    | .nil, env => Below.nil _
    | .cons _ _ _ b r, env => by
      simp only [refsPlCases]
      exact (refsParts_below b env).append (refsPlCases_below r env)
end

end

/-! ### "every let declared here is used" -/

theorem decl_cases (c : Cmd) : decl c = [] ∨ ∃ name, decl c = [{ name := name, isLet := true }] := by
  cases c <;> simp [decl]

theorem AllUsed_append_left {n : Nat} {D : List Spec.Binding} {T U : List Target} (hT : Below n T) :
    AllUsed n D (T ++ U) ↔ AllUsed n D U := by
  simp only [AllUsed, List.mem_append]
  constructor
  · intro h j b hj hb
    rcases h j b hj hb with h | h
    · exact absurd h hT.not_mem
    · exact h
  · intro h j b hj hb
    exact Or.inr (h j b hj hb)

theorem AllUsed_cons {n : Nat} {x : Spec.Binding} {D : List Spec.Binding} {T : List Target} :
    AllUsed n (x :: D) T ↔ (x.isLet = true → Target.var n ∈ T) ∧ AllUsed (n + 1) D T := by
  simp only [AllUsed]
  constructor
  · intro h
    refine ⟨fun hx => by simpa using h 0 x (by simp) hx, ?_⟩
    intro j b hj hb
    have := h (j + 1) b (by simpa using hj) hb
    rwa [Nat.add_assoc, Nat.add_comm 1 j]
  · rintro ⟨h0, hs⟩ j b hj hb
    cases j with
    | zero =>
      simp only [List.getElem?_cons_zero, Option.some.injEq] at hj
      subst hj
      simpa using h0 hb
    | succ j =>
      have := hs j b (by simpa using hj) hb
      rwa [Nat.add_assoc, Nat.add_comm 1 j] at this

end SoyVerif.Lemmas.Check
