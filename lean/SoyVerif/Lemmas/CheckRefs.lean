/-
  Facts about the specification alone: the free reference occurrences of a closed
  construct in environment `env` lie below `env.length` (a construct cannot refer to a
  binding that is declared after it), and what this means for "every let is used".
-/
import SoyVerif.Lemmas.CheckExpr

namespace SoyVerif.Lemmas.Check
open SoyVerif SoyVerif.Model SoyVerif.Model.Check SoyVerif.Spec

/-- all targets lie below height `n` -/
def Below (n : Nat) (T : List Target) : Prop := ∀ t ∈ T, t.below n = true

theorem Below.nil (n : Nat) : Below n [] := by intro t ht; cases ht

theorem Below.append {n : Nat} {T U : List Target} (hT : Below n T) (hU : Below n U) : Below n (T ++ U) := by
  intro t ht
  rcases List.mem_append.mp ht with h | h
  · exact hT t h
  · exact hU t h

theorem Below.filter (n : Nat) (T : List Target) : Below n (T.filter (Target.below n)) := by
  intro t ht
  exact (List.mem_filter.mp ht).2

theorem Below.map_param (n : Nat) (ks : List Bytes) : Below n (ks.map Target.param) := by
  intro t ht
  obtain ⟨k, _, rfl⟩ := List.mem_map.mp ht
  rfl

theorem Below.refsKeys (params : List Bytes) (env : Env) (ks : List Bytes) :
    Below env.length (refsKeys params env ks) := refsKeys_below

theorem Target.below_mono {t : Target} {n m : Nat} (h : t.below n = true) (hnm : n ≤ m) : t.below m = true := by
  cases t with
  | var i => simp only [Target.below, decide_eq_true_eq] at h ⊢; omega
  | _ => rfl

theorem Below.mono {n m : Nat} {T : List Target} (h : Below n T) (hnm : n ≤ m) : Below m T :=
  fun t ht => Target.below_mono (h t ht) hnm

theorem Below.filter_eq {n : Nat} {T : List Target} (h : Below n T) : T.filter (Target.below n) = T :=
  List.filter_eq_self.mpr h

theorem Below.not_mem {n j : Nat} {T : List Target} (h : Below n T) : Target.var (n + j) ∉ T := by
  intro hm
  have := h _ hm
  simp [Target.below] at this
  omega

section
variable {reg : List Check.Template} {params : List Bytes}

theorem refsBlock_below (env : Env) (b : Block) : Below env.length (refsBlock reg params env b) := by
  cases b with
  | mk _ cmds => exact Below.filter _ _

mutual
  theorem refsCmd_below : (c : Cmd) → (env : Env) → Below env.length (refsCmd reg params env c)
    | .rawText .., env => Below.nil _
    | .debugger .., env => Below.nil _
    | .namespace .., env => Below.nil _
    | .soyDoc .., env => Below.nil _
    | .headerParam .., env => Below.nil _
    | .print _ a dirs, env => Below.refsKeys _ _ _
    | .msg _ _ _ _ _ body, env => by simpa only [refsCmd] using refsParts_below body env
    | .css _ e _, env => Below.refsKeys _ _ _
    | .log _ b, env => by simpa only [refsCmd] using refsBlock_below env b
    | .ifc _ conds, env => by simpa only [refsCmd] using refsConds_below conds env
    | .forc _ v l b (some b'), env => by
      simp only [refsCmd]
      exact (Below.refsKeys _ _ _).append ((Below.filter _ _).append (refsBlock_below env b'))
    | .forc _ v l b none, env => by
      simp only [refsCmd]
      exact (Below.refsKeys _ _ _).append ((Below.filter _ _).append (Below.nil _))
    | .switch _ v cases, env => by
      simp only [refsCmd]
      exact (Below.refsKeys _ _ _).append (refsCases_below cases env)
    | .call _ name allData d ps, env => by
      simp only [refsCmd]
      exact (Below.map_param _ _).append ((Below.refsKeys _ _ _).append (refsParams_below ps env))
    | .letValue _ _ e, env => Below.refsKeys _ _ _
    | .letContent _ _ b, env => by simpa only [refsCmd] using refsBlock_below env b
    | .template _ _ b _ _, env => by simpa only [refsCmd] using refsBlock_below env b
  theorem refsConds_below : (cs : CondList) → (env : Env) → Below env.length (refsConds reg params env cs)
    | .nil, env => Below.nil _
    | .cons _ c b r, env => by
      simp only [refsConds]
      exact ((Below.refsKeys _ _ _).append (refsBlock_below env b)).append (refsConds_below r env)
  theorem refsCases_below : (cs : CaseList) → (env : Env) → Below env.length (refsCases reg params env cs)
    | .nil, env => Below.nil _
    | .cons _ vs b r, env => by
      simp only [refsCases]
      exact ((refsBlock_below env b).append (Below.refsKeys _ _ _)).append (refsCases_below r env)
  theorem refsParams_below : (ps : ParamList) → (env : Env) → Below env.length (refsParams reg params env ps)
    | .nil, env => Below.nil _
    | .value _ _ e r, env => by
      simp only [refsParams]
      exact (Below.refsKeys _ _ _).append (refsParams_below r env)
    | .content _ _ b r, env => by
      simp only [refsParams]
      exact (refsBlock_below env b).append (refsParams_below r env)
  theorem refsParts_below : (ps : MsgParts) → (env : Env) → Below env.length (refsParts reg params env ps)
    | .nil, env => Below.nil _
    | .text _ _ r, env => by simpa only [refsParts] using refsParts_below r env
    | .ph _ _ (.htmlTag ..) r, env => by
      simp only [refsParts]
      exact (Below.nil _).append (refsParts_below r env)
    | .ph _ _ (.cmd c) r, env => by
      simp only [refsParts]
      exact (refsCmd_below c env).append (refsParts_below r env)
    | .plural _ _ v cases _ d r, env => by
      simp only [refsParts]
      exact ((Below.refsKeys _ _ _).append ((refsPlCases_below cases env).append (refsParts_below d env))).append
        (refsParts_below r env)
  theorem refsPlCases_below : (cs : PluralCases) → (env : Env) → Below env.length (refsPlCases reg params env cs)
    | .nil, env => Below.nil _
    | .cons _ _ _ b r, env => by
      simp only [refsPlCases]
      exact (refsParts_below b env).append (refsPlCases_below r env)
end

end

/-! ### R1 on its own: a well-scoped construct has only bound reference occurrences -/

/-- every occurrence is bound -/
def OccsBound (params : List Bytes) (os : List Occ) : Prop := ∀ o ∈ os, RefBound params o.1 o.2

theorem OccsBound.nil (params : List Bytes) : OccsBound params [] := by intro o ho; cases ho

theorem OccsBound.append {params : List Bytes} {a b : List Occ} (ha : OccsBound params a)
    (hb : OccsBound params b) : OccsBound params (a ++ b) := by
  intro o ho
  rcases List.mem_append.mp ho with h | h
  · exact ha o h
  · exact hb o h

theorem OccsBound.keys {params : List Bytes} {env : Env} {ks : List Bytes} {ls : List LoopOcc}
    (h : ExprsOk params env ks ls) : OccsBound params (occsKeys env ks) := by
  intro o ho
  obtain ⟨k, hk, rfl⟩ := List.mem_map.mp ho
  exact h.1 k hk

section
variable {reg : List Check.Template} {params : List Bytes}

mutual
  theorem okCmd_occs : (c : Cmd) → (env : Env) → OkCmd reg params env c → OccsBound params (occsCmd env c)
    | .rawText .., env, _ => OccsBound.nil _
    | .debugger .., env, _ => OccsBound.nil _
    | .namespace .., env, _ => OccsBound.nil _
    | .soyDoc .., env, _ => OccsBound.nil _
    | .headerParam .., env, _ => OccsBound.nil _
    | .print _ a dirs, env, h => by simp only [OkCmd] at h; simpa only [occsCmd] using OccsBound.keys h
    | .msg _ _ _ _ _ body, env, h => by
      simp only [OkCmd] at h; simpa only [occsCmd] using okParts_occs body env h
    | .css _ e _, env, h => by simp only [OkCmd] at h; simpa only [occsCmd] using OccsBound.keys h
    | .log _ b, env, h => by simp only [OkCmd] at h; simpa only [occsCmd] using okBlock_occs b env h
    | .ifc _ conds, env, h => by
      simp only [OkCmd] at h; simpa only [occsCmd] using okConds_occs conds env h
    | .forc _ v l b (some b'), env, h => by
      simp only [OkCmd] at h
      simp only [occsCmd]
      exact (OccsBound.keys h.1).append ((okBlock_occs b _ h.2.1).append (okBlock_occs b' env h.2.2))
    | .forc _ v l b none, env, h => by
      simp only [OkCmd] at h
      simp only [occsCmd]
      exact (OccsBound.keys h.1).append ((okBlock_occs b _ h.2.1).append (OccsBound.nil _))
    | .switch _ v cases, env, h => by
      simp only [OkCmd] at h
      simp only [occsCmd]
      exact (OccsBound.keys h.1).append (okCases_occs cases env h.2)
    | .call _ name allData d ps, env, h => by
      simp only [OkCmd] at h
      simp only [occsCmd]
      exact (OccsBound.keys h.2.1).append (okParams_occs ps env h.2.2)
    | .letValue _ _ e, env, h => by
      simp only [OkCmd] at h; simpa only [occsCmd] using OccsBound.keys h.2
    | .letContent _ _ b, env, h => by
      simp only [OkCmd] at h; simpa only [occsCmd] using okBlock_occs b env h.2
    | .template _ _ b _ _, env, h => by
      simp only [OkCmd] at h; simpa only [occsCmd] using okBlock_occs b env h
  theorem okBlock_occs : (b : Block) → (env : Env) → OkBlock reg params env b →
      OccsBound params (occsBlock env b)
    | .mk _ cmds, env, h => by
      simp only [OkBlock] at h; simpa only [occsBlock] using okCmds_occs cmds env h
  theorem okCmds_occs : (cs : CmdList) → (env : Env) → OkCmds reg params env cs →
      OccsBound params (occsCmds env cs)
    | .nil, env, _ => OccsBound.nil _
    | .cons c r, env, h => by
      simp only [OkCmds] at h
      simp only [occsCmds]
      exact (okCmd_occs c env h.1).append (okCmds_occs r _ h.2.2)
  theorem okConds_occs : (cs : CondList) → (env : Env) → OkConds reg params env cs →
      OccsBound params (occsConds env cs)
    | .nil, env, _ => OccsBound.nil _
    | .cons _ c b r, env, h => by
      simp only [OkConds] at h
      simp only [occsConds]
      exact ((OccsBound.keys h.1.1).append (okBlock_occs b env h.1.2)).append (okConds_occs r env h.2)
  theorem okCases_occs : (cs : CaseList) → (env : Env) → OkCases reg params env cs →
      OccsBound params (occsCases env cs)
    | .nil, env, _ => OccsBound.nil _
    | .cons _ vs b r, env, h => by
      simp only [OkCases] at h
      simp only [occsCases]
      exact ((okBlock_occs b env h.1.1).append (OccsBound.keys h.1.2)).append (okCases_occs r env h.2)
  theorem okParams_occs : (ps : ParamList) → (env : Env) → OkParams reg params env ps →
      OccsBound params (occsParams env ps)
    | .nil, env, _ => OccsBound.nil _
    | .value _ _ e r, env, h => by
      simp only [OkParams] at h
      simp only [occsParams]
      exact (OccsBound.keys h.1).append (okParams_occs r env h.2)
    | .content _ _ b r, env, h => by
      simp only [OkParams] at h
      simp only [occsParams]
      exact (okBlock_occs b env h.1).append (okParams_occs r env h.2)
  theorem okParts_occs : (ps : MsgParts) → (env : Env) → OkParts reg params env ps →
      OccsBound params (occsParts env ps)
    | .nil, env, _ => OccsBound.nil _
    | .text _ _ r, env, h => by
      simp only [OkParts] at h; simpa only [occsParts] using okParts_occs r env h
    | .ph _ _ (.htmlTag ..) r, env, h => by
      simp only [OkParts] at h
      simp only [occsParts]
      exact (OccsBound.nil _).append (okParts_occs r env h.2)
    | .ph _ _ (.cmd c) r, env, h => by
      simp only [OkParts] at h
      simp only [occsParts]
      exact (okCmd_occs c env h.1.1).append (okParts_occs r env h.2)
    | .plural _ _ v cases _ d r, env, h => by
      simp only [OkParts] at h
      simp only [occsParts]
      exact ((OccsBound.keys h.1.1).append ((okPlCases_occs cases env h.1.2.1).append
        (okParts_occs d env h.1.2.2))).append (okParts_occs r env h.2)
  theorem okPlCases_occs : (cs : PluralCases) → (env : Env) → OkPlCases reg params env cs →
      OccsBound params (occsPlCases env cs)
    | .nil, env, _ => OccsBound.nil _
    | .cons _ _ _ b r, env, h => by
      simp only [OkPlCases] at h
      simp only [occsPlCases]
      exact (okParts_occs b env h.1).append (okPlCases_occs r env h.2)
end

end

/-! ### "every let declared here is used" -/

theorem decl_cases (c : Cmd) : decl c = [] ∨ ∃ name, decl c = [{ name := name, isLet := true }] := by
  cases c <;> simp [decl]

theorem AllUsed_append_left {n : Nat} {D : List Spec.Binding} {T U : List Target} (hT : Below n T) :
    AllUsed n D (T ++ U) ↔ AllUsed n D U := by
  simp only [AllUsed, List.mem_append]
  constructor
  · intro h j b hj hb
    rcases h j b hj hb with h | h
    · exact absurd h hT.not_mem
    · exact h
  · intro h j b hj hb
    exact Or.inr (h j b hj hb)

theorem AllUsed_cons {n : Nat} {x : Spec.Binding} {D : List Spec.Binding} {T : List Target} :
    AllUsed n (x :: D) T ↔ (x.isLet = true → Target.var n ∈ T) ∧ AllUsed (n + 1) D T := by
  simp only [AllUsed]
  constructor
  · intro h
    refine ⟨fun hx => by simpa using h 0 x (by simp) hx, ?_⟩
    intro j b hj hb
    have := h (j + 1) b (by simpa using hj) hb
    rwa [Nat.add_assoc, Nat.add_comm 1 j]
  · rintro ⟨h0, hs⟩ j b hj hb
    cases j with
    | zero =>
      simp only [List.getElem?_cons_zero, Option.some.injEq] at hj
      subst hj
      simpa using h0 hb
    | succ j =>
      have := hs j b (by simpa using hj) hb
      rwa [Nat.add_assoc, Nat.add_comm 1 j] at this

end SoyVerif.Lemmas.Check
