/-
  Fuel monotonicity of the parser models: a run that does not end in `fuelOut` gives the same
  answer (result AND state) on any larger budget.  `Le x y`: wherever `x` does not run out of
  fuel, `y` answers the same.
-/
import SoyVerif.Lemmas.FileParserSafe

namespace SoyVerif.Lemmas.FuelMono
open SoyVerif SoyVerif.Model SoyVerif.Model.Parser SoyVerif.Lemmas.ParserSafe

/-- `y` answers what `x` answers, unless `x` runs out of fuel -/
structure Le {α : Type} (x y : P α) : Prop where
  le : ∀ st, x st ≠ .error .fuelOut → y st = x st

theorem Le.refl {α : Type} (x : P α) : Le x x := ⟨fun _ _ => rfl⟩

theorem Le.bind {α β : Type} {x y : P α} {f g : α → P β} (h : Le x y) (hf : ∀ a, Le (f a) (g a)) :
    Le (x >>= f) (y >>= g) := by
  refine ⟨fun st hne => ?_⟩
  rw [bind_run] at hne ⊢
  rw [bind_run]
  cases hx : x st with
  | error e =>
    rw [hx] at hne
    simp only at hne
    have := h.le st (by rw [hx]; intro hh; apply hne; cases hh; rfl)
    rw [this, hx]
  | ok p =>
    rw [hx] at hne
    simp only at hne
    have := h.le st (by rw [hx]; simp)
    rw [this, hx]
    exact (hf p.1).le p.2 hne

theorem Le.ite {α : Type} {c : Prop} [Decidable c] {a a' b b' : P α} (h1 : Le a a') (h2 : Le b b') :
    Le (if c then a else b) (if c then a' else b') := by
  split
  · exact h1
  · exact h2

theorem Le.zero {α : Type} (y : P α) : Le (fail PErr.fuelOut) y :=
  ⟨fun _ hne => absurd rfl hne⟩

/-- one step of the walk over two bodies that differ only in the fuel of their calls -/
macro "mono_step" : tactic => `(tactic| first
  | exact Le.refl _
  | exact Le.zero _
  | apply_assumption
  | omega
  | (apply Le.bind)
  | (apply Le.ite)
  | (intro _)
  | (split <;> (try simp only [])))

macro "mono" : tactic => `(tactic| repeat' mono_step)

section
variable (pf : Bytes → Option UInt64)

/-- every expression function at fuel `a` is below itself at fuel `b` -/
structure ExprMono (a b : Nat) : Prop where
  parseExpr : ∀ prec, Le (Parser.parseExpr pf a prec) (Parser.parseExpr pf b prec)
  exprLoop : ∀ prec n, Le (Parser.exprLoop pf a prec n) (Parser.exprLoop pf b prec n)
  firstTerm : Le (Parser.parseExprFirstTerm pf a) (Parser.parseExprFirstTerm pf b)
  newValueNode : ∀ tok, Le (Parser.newValueNode pf a tok) (Parser.newValueNode pf b tok)
  parseDataRef : Le (Parser.parseDataRef pf a) (Parser.parseDataRef pf b)
  parseListOrMap : ∀ tok, Le (Parser.parseListOrMap pf a tok) (Parser.parseListOrMap pf b tok)
  parseListItems : Le (Parser.parseListItems pf a) (Parser.parseListItems pf b)
  parseMapItems : ∀ k m, Le (Parser.parseMapItems pf a k m) (Parser.parseMapItems pf b k m)
  parseTernary : ∀ c, Le (Parser.parseTernary pf a c) (Parser.parseTernary pf b c)
  newGlobalNode : ∀ p n nxt, Le (Parser.newGlobalNode pf a p n nxt) (Parser.newGlobalNode pf b p n nxt)
  newFunctionNode : ∀ tok, Le (Parser.newFunctionNode pf a tok) (Parser.newFunctionNode pf b tok)
  parseFuncArgs : Le (Parser.parseFuncArgs pf a) (Parser.parseFuncArgs pf b)

theorem exprMono_zero (b : Nat) : ExprMono pf 0 b := by
  constructor <;> intros
  · rw [Parser.parseExpr]; mono
  · rw [Parser.exprLoop]; mono
  · rw [Parser.parseExprFirstTerm]; mono
  · rw [Parser.newValueNode]; mono
  · rw [Parser.parseDataRef]; mono
  · rw [Parser.parseListOrMap]; mono
  · rw [Parser.parseListItems]; mono
  · rw [Parser.parseMapItems]; mono
  · rw [Parser.parseTernary]; mono
  · rw [Parser.newGlobalNode]; mono
  · rw [Parser.newFunctionNode]; mono
  · rw [Parser.parseFuncArgs]; mono

set_option maxHeartbeats 1600000 in
theorem exprMono_succ {a b : Nat} (ih : ExprMono pf a b) : ExprMono pf (a + 1) (b + 1) := by
  obtain ⟨h1, h2, h3, h4, h5, h6, h7, h8, h9, h10, h11, h12⟩ := ih
  constructor <;> intros
  · rw [Parser.parseExpr, Parser.parseExpr]; mono
  · rw [Parser.exprLoop, Parser.exprLoop]; mono
  · rw [Parser.parseExprFirstTerm, Parser.parseExprFirstTerm]; mono
  · rw [Parser.newValueNode, Parser.newValueNode]; mono
  · rw [Parser.parseDataRef, Parser.parseDataRef]; mono
  · rw [Parser.parseListOrMap, Parser.parseListOrMap]; mono
  · rw [Parser.parseListItems, Parser.parseListItems]; mono
  · rw [Parser.parseMapItems, Parser.parseMapItems]; mono
  · rw [Parser.parseTernary, Parser.parseTernary]; mono
  · rw [Parser.newGlobalNode, Parser.newGlobalNode]; mono
  · rw [Parser.newFunctionNode, Parser.newFunctionNode]; mono
  · rw [Parser.parseFuncArgs, Parser.parseFuncArgs]; mono

theorem exprMono : ∀ a b, a ≤ b → ExprMono pf a b := by
  intro a
  induction a with
  | zero => intro b _; exact exprMono_zero pf b
  | succ a ih =>
    intro b hb
    obtain ⟨c, rfl⟩ : ∃ c, b = c + 1 := ⟨b - 1, by omega⟩
    exact exprMono_succ pf (ih c (by omega))

end


/-! ## the file parser -/

open SoyVerif.Model.FileParser

structure FLe {α : Type} (x y : FP α) : Prop where
  le : ∀ st, x st ≠ .error .fuelOut → y st = x st

theorem FLe.refl {α : Type} (x : FP α) : FLe x x := ⟨fun _ _ => rfl⟩

theorem FLe.bind {α β : Type} {x y : FP α} {f g : α → FP β} (h : FLe x y) (hf : ∀ a, FLe (f a) (g a)) :
    FLe (x >>= f) (y >>= g) := by
  refine ⟨fun st hne => ?_⟩
  rw [fbind_run] at hne ⊢
  rw [fbind_run]
  cases hx : x st with
  | error e =>
    rw [hx] at hne
    simp only at hne
    have := h.le st (by rw [hx]; intro hh; apply hne; cases hh; rfl)
    rw [this, hx]
  | ok p =>
    rw [hx] at hne
    simp only at hne
    have := h.le st (by rw [hx]; simp)
    rw [this, hx]
    exact (hf p.1).le p.2 hne

theorem FLe.ite {α : Type} {c : Prop} [Decidable c] {a a' b b' : FP α} (h1 : FLe a a') (h2 : FLe b b') :
    FLe (if c then a else b) (if c then a' else b') := by
  split
  · exact h1
  · exact h2

theorem FLe.zero {α : Type} (y : FP α) : FLe (ffail FErr.fuelOut) y :=
  ⟨fun _ hne => absurd rfl hne⟩

theorem FLe.lift {α : Type} {x y : P α} (h : Le x y) : FLe (liftP x) (liftP y) := by
  refine ⟨fun st hne => ?_⟩
  unfold liftP at hne ⊢
  have := h.le st.p (by
    intro hx; rw [hx] at hne; exact hne rfl)
  rw [this]

macro "fmono_step" : tactic => `(tactic| first
  | exact FLe.refl _
  | exact FLe.zero _
  | apply_assumption
  | omega
  | (apply FLe.bind)
  | (apply FLe.ite)
  | (intro _)
  | (split <;> (try simp only [])))

macro "fmono" : tactic => `(tactic| repeat' fmono_step)

/-! ### the loops without nested blocks -/

theorem skipComments_mono : ∀ a b, a ≤ b → ∀ t, FLe (skipComments a t) (skipComments b t) := by
  intro a
  induction a with
  | zero => intro b _ t; rw [skipComments]; fmono
  | succ a ih =>
    intro b hb t
    obtain ⟨c, rfl⟩ : ∃ c, b = c + 1 := ⟨b - 1, by omega⟩
    rw [skipComments, skipComments]; fmono

theorem nextNonComment_mono : ∀ a b, a ≤ b → FLe (nextNonComment a) (nextNonComment b) := by
  intro a
  induction a with
  | zero => intro b _; rw [nextNonComment]; fmono
  | succ a ih =>
    intro b hb
    obtain ⟨c, rfl⟩ : ∃ c, b = c + 1 := ⟨b - 1, by omega⟩
    rw [nextNonComment, nextNonComment]; fmono

theorem collectText_mono : ∀ a b, a ≤ b → ∀ t, FLe (collectText a t) (collectText b t) := by
  intro a
  induction a with
  | zero => intro b _ t; rw [collectText]; fmono
  | succ a ih =>
    intro b hb t
    obtain ⟨c, rfl⟩ : ∃ c, b = c + 1 := ⟨b - 1, by omega⟩
    rw [collectText, collectText]; fmono

theorem parseAttrs_mono (al : List Bytes) : ∀ a b, a ≤ b → ∀ t, FLe (parseAttrs al a t) (parseAttrs al b t) := by
  intro a
  induction a with
  | zero => intro b _ t; rw [parseAttrs]; fmono
  | succ a ih =>
    intro b hb t
    obtain ⟨c, rfl⟩ : ∃ c, b = c + 1 := ⟨b - 1, by omega⟩
    rw [parseAttrs, parseAttrs]; fmono

theorem aliasLoop_mono : ∀ a b, a ≤ b → ∀ n l, FLe (aliasLoop a n l) (aliasLoop b n l) := by
  intro a
  induction a with
  | zero => intro b _ n l; rw [aliasLoop]; fmono
  | succ a ih =>
    intro b hb n l
    obtain ⟨c, rfl⟩ : ∃ c, b = c + 1 := ⟨b - 1, by omega⟩
    rw [aliasLoop, aliasLoop]; fmono

theorem parseAlias_mono (a b : Nat) (h : a ≤ b) : FLe (parseAlias a) (parseAlias b) := by
  have := aliasLoop_mono a b h
  unfold parseAlias; fmono

theorem soyDocLoop_mono (p : Nat) : ∀ a b, a ≤ b → ∀ ps, FLe (soyDocLoop p a ps) (soyDocLoop p b ps) := by
  intro a
  induction a with
  | zero => intro b _ ps; rw [soyDocLoop]; fmono
  | succ a ih =>
    intro b hb ps
    obtain ⟨c, rfl⟩ : ∃ c, b = c + 1 := ⟨b - 1, by omega⟩
    rw [soyDocLoop, soyDocLoop]; fmono

theorem namespaceLoop_mono (p : Nat) : ∀ a b, a ≤ b → ∀ n, FLe (namespaceLoop p a n) (namespaceLoop p b n) := by
  intro a
  induction a with
  | zero => intro b _ n; rw [namespaceLoop]; fmono
  | succ a ih =>
    intro b hb n
    obtain ⟨c, rfl⟩ : ∃ c, b = c + 1 := ⟨b - 1, by omega⟩
    have hat := parseAttrs_mono
    rw [namespaceLoop, namespaceLoop]; fmono

theorem parseNamespace_mono (a b : Nat) (h : a ≤ b) (t : Item) : FLe (parseNamespace a t) (parseNamespace b t) := by
  have := namespaceLoop_mono
  unfold parseNamespace; fmono

theorem callNameLoop_mono : ∀ a b, a ≤ b → ∀ n, FLe (callNameLoop a n) (callNameLoop b n) := by
  intro a
  induction a with
  | zero => intro b _ n; rw [callNameLoop]; fmono
  | succ a ih =>
    intro b hb n
    obtain ⟨c, rfl⟩ : ∃ c, b = c + 1 := ⟨b - 1, by omega⟩
    rw [callNameLoop, callNameLoop]; fmono

section
variable (pf : Bytes → Option UInt64) (e e' : Nat) (he : e ≤ e')
include he

theorem parseExpr0_mono : FLe (parseExpr0 pf e) (parseExpr0 pf e') :=
  FLe.lift ((exprMono pf e e' he).parseExpr 0)

theorem parseCallHead_mono (a b : Nat) (h : a ≤ b) : FLe (parseCallHead pf a) (parseCallHead pf b) := by
  have h1 := callNameLoop_mono
  have h2 := parseAttrs_mono
  unfold parseCallHead; fmono

theorem directiveArgs_mono : ∀ a b, a ≤ b → ∀ xs, FLe (directiveArgs pf e a xs) (directiveArgs pf e' b xs) := by
  intro a
  induction a with
  | zero => intro b _ xs; rw [directiveArgs]; fmono
  | succ a ih =>
    intro b hb xs
    obtain ⟨c, rfl⟩ : ∃ c, b = c + 1 := ⟨b - 1, by omega⟩
    have h0 := parseExpr0_mono pf e e' he
    rw [directiveArgs, directiveArgs]; fmono

theorem printLoop_mono (p : Nat) (x : Expr) : ∀ a b, a ≤ b → ∀ ds, FLe (printLoop pf e p x a ds) (printLoop pf e' p x b ds) := by
  intro a
  induction a with
  | zero => intro b _ ds; rw [printLoop]; fmono
  | succ a ih =>
    intro b hb ds
    obtain ⟨c, rfl⟩ : ∃ c, b = c + 1 := ⟨b - 1, by omega⟩
    have h0 := directiveArgs_mono pf e e' he
    rw [printLoop, printLoop]; fmono

theorem parsePrint_mono (a b : Nat) (h : a ≤ b) (t : Item) : FLe (parsePrint pf e a t) (parsePrint pf e' b t) := by
  have h0 := parseExpr0_mono pf e e' he
  have h1 := printLoop_mono pf e e' he
  unfold parsePrint; fmono

theorem parseHeaderParam_mono (t : Item) : FLe (parseHeaderParam pf e t) (parseHeaderParam pf e' t) := by
  have h0 := parseExpr0_mono pf e e' he
  unfold parseHeaderParam; fmono

/-- every function of the mutual block at budgets `(e, a)` is below itself at `(e', b)` -/
structure FileMono (a b : Nat) : Prop where
  itemListLoop : ∀ u l ns, FLe (FileParser.itemListLoop pf e a u l ns) (FileParser.itemListLoop pf e' b u l ns)
  textOrTag : ∀ t u, FLe (FileParser.textOrTag pf e a t u) (FileParser.textOrTag pf e' b t u)
  beginTag : FLe (FileParser.beginTag pf e a ) (FileParser.beginTag pf e' b )
  parseTemplate : ∀ t, FLe (FileParser.parseTemplate pf e a t) (FileParser.parseTemplate pf e' b t)
  parseLet : ∀ t, FLe (FileParser.parseLet pf e a t) (FileParser.parseLet pf e' b t)
  ifLoop : ∀ p q ns, FLe (FileParser.ifLoop pf e a p q ns) (FileParser.ifLoop pf e' b p q ns)
  parseFor : ∀ t, FLe (FileParser.parseFor pf e a t) (FileParser.parseFor pf e' b t)
  parseSwitch : ∀ t y, FLe (FileParser.parseSwitch pf e a t y) (FileParser.parseSwitch pf e' b t y)
  switchLoop : ∀ p x y d ns, FLe (FileParser.switchLoop pf e a p x y d ns) (FileParser.switchLoop pf e' b p x y d ns)
  caseLoop : ∀ t es, FLe (FileParser.caseLoop pf e a t es) (FileParser.caseLoop pf e' b t es)
  parseCall : ∀ t, FLe (FileParser.parseCall pf e a t) (FileParser.parseCall pf e' b t)
  callParamsLoop : ∀ ns, FLe (FileParser.callParamsLoop pf e a ns) (FileParser.callParamsLoop pf e' b ns)
  orphanLoop : ∀ t, FLe (FileParser.orphanLoop pf e a t) (FileParser.orphanLoop pf e' b t)
  parseMsg : ∀ t, FLe (FileParser.parseMsg pf e a t) (FileParser.parseMsg pf e' b t)
  parsePlural : ∀ t, FLe (FileParser.parsePlural pf e a t) (FileParser.parsePlural pf e' b t)

theorem fileMono_zero (b : Nat) : FileMono pf e e' 0 b := by
  constructor <;> intros
  · rw [FileParser.itemListLoop]; fmono
  · rw [FileParser.textOrTag]; fmono
  · rw [FileParser.beginTag]; fmono
  · rw [FileParser.parseTemplate]; fmono
  · rw [FileParser.parseLet]; fmono
  · rw [FileParser.ifLoop]; fmono
  · rw [FileParser.parseFor]; fmono
  · rw [FileParser.parseSwitch]; fmono
  · rw [FileParser.switchLoop]; fmono
  · rw [FileParser.caseLoop]; fmono
  · rw [FileParser.parseCall]; fmono
  · rw [FileParser.callParamsLoop]; fmono
  · rw [FileParser.orphanLoop]; fmono
  · rw [FileParser.parseMsg]; fmono
  · rw [FileParser.parsePlural]; fmono

set_option maxHeartbeats 4000000 in
theorem fileMono_succ {a b : Nat} (hab : a ≤ b) (ih : FileMono pf e e' a b) : FileMono pf e e' (a + 1) (b + 1) := by
  obtain ⟨h1, h2, h3, h4, h5, h6, h7, h8, h9, h10, h11, h12, h13, h14, h15⟩ := ih
  have g0 := parseExpr0_mono pf e e' he
  have g1 := skipComments_mono a b hab
  have g2 := nextNonComment_mono a b hab
  have g3 := collectText_mono a b hab
  have g4 := parseAttrs_mono
  have g5 := parseAlias_mono a b hab
  have g6 := soyDocLoop_mono
  have g7 := parseNamespace_mono a b hab
  have g8 := parseCallHead_mono pf e e' he a b hab
  have g9 := parsePrint_mono pf e e' he a b hab
  have g10 := parseHeaderParam_mono pf e e' he
  constructor <;> intros
  · rw [FileParser.itemListLoop, FileParser.itemListLoop]; fmono
  · rw [FileParser.textOrTag, FileParser.textOrTag]; fmono
  · rw [FileParser.beginTag, FileParser.beginTag]; fmono
  · rw [FileParser.parseTemplate, FileParser.parseTemplate]; fmono
  · rw [FileParser.parseLet, FileParser.parseLet]; fmono
  · rw [FileParser.ifLoop, FileParser.ifLoop]; fmono
  · rw [FileParser.parseFor, FileParser.parseFor]; fmono
  · rw [FileParser.parseSwitch, FileParser.parseSwitch]; fmono
  · rw [FileParser.switchLoop, FileParser.switchLoop]; fmono
  · rw [FileParser.caseLoop, FileParser.caseLoop]; fmono
  · rw [FileParser.parseCall, FileParser.parseCall]; fmono
  · rw [FileParser.callParamsLoop, FileParser.callParamsLoop]; fmono
  · rw [FileParser.orphanLoop, FileParser.orphanLoop]; fmono
  · rw [FileParser.parseMsg, FileParser.parseMsg]; fmono
  · rw [FileParser.parsePlural, FileParser.parsePlural]; fmono

theorem fileMono : ∀ a b, a ≤ b → FileMono pf e e' a b := by
  intro a
  induction a with
  | zero => intro b _; exact fileMono_zero pf e e' he b
  | succ a ih =>
    intro b hb
    obtain ⟨c, rfl⟩ : ∃ c, b = c + 1 := ⟨b - 1, by omega⟩
    exact fileMono_succ pf e e' he (by omega) (ih c (by omega))

end
end SoyVerif.Lemmas.FuelMono
