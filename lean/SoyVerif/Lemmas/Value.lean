/- Helper lemmas for the value model: the string order, sorting, association-list insertion. -/
import SoyVerif.Model.Value

namespace SoyVerif.Value

/-! ### Go's string order on byte strings -/

theorem bytesLe_refl : ∀ a : Bytes, bytesLe a a = true
  | [] => rfl
  | a :: as => by
    have h : ¬ a < a := by simp [UInt8.lt_iff_toNat_lt]
    simp [bytesLe, h, bytesLe_refl as]

theorem bytesLe_total : ∀ a b : Bytes, bytesLe a b = true ∨ bytesLe b a = true
  | [], _ => Or.inl (by cases ‹Bytes› <;> rfl)
  | _ :: _, [] => Or.inr rfl
  | a :: as, b :: bs => by
    unfold bytesLe
    by_cases h1 : a < b
    · simp [h1]
    · by_cases h2 : b < a
      · simp [h1, h2]
      · simp [h1, h2]
        exact bytesLe_total as bs

theorem bytesLe_antisymm : ∀ a b : Bytes, bytesLe a b = true → bytesLe b a = true → a = b
  | [], [], _, _ => rfl
  | [], _ :: _, _, h => by simp [bytesLe] at h
  | _ :: _, [], h, _ => by simp [bytesLe] at h
  | a :: as, b :: bs, h1, h2 => by
    unfold bytesLe at h1 h2
    by_cases hab : a < b
    · have hba : ¬ b < a := by rw [UInt8.lt_iff_toNat_lt] at *; omega
      simp [hab, hba] at h2
    · by_cases hba : b < a
      · simp [hab, hba] at h1
      · simp [hab, hba] at h1 h2
        have : a = b := by
          apply UInt8.toNat_inj.mp
          rw [UInt8.lt_iff_toNat_lt] at hab hba
          omega
        rw [this, bytesLe_antisymm as bs h1 h2]

theorem bytesLe_trans : ∀ a b c : Bytes, bytesLe a b = true → bytesLe b c = true → bytesLe a c = true
  | [], _, _, _, _ => by cases ‹Bytes› <;> simp [bytesLe]
  | _ :: _, [], _, h, _ => by simp [bytesLe] at h
  | _ :: _, _ :: _, [], _, h => by simp [bytesLe] at h
  | a :: as, b :: bs, c :: cs, h1, h2 => by
    unfold bytesLe at h1 h2 ⊢
    by_cases hab : a < b
    · by_cases hbc : b < c
      · have : a < c := by rw [UInt8.lt_iff_toNat_lt] at *; omega
        simp [this]
      · by_cases hcb : c < b
        · simp [hbc, hcb] at h2
        · have : b = c := by
            apply UInt8.toNat_inj.mp
            rw [UInt8.lt_iff_toNat_lt] at hbc hcb
            omega
          subst this
          simp [hab]
    · by_cases hba : b < a
      · simp [hab, hba] at h1
      · have e : a = b := by
          apply UInt8.toNat_inj.mp
          rw [UInt8.lt_iff_toNat_lt] at hab hba
          omega
        subst e
        simp [hab] at h1
        by_cases hac : a < c
        · simp [hac]
        · by_cases hca : c < a
          · simp [hac, hca] at h2
          · simp [hac, hca] at h2 ⊢
            exact bytesLe_trans as bs cs h1 h2

/-! ### sort.Strings -/

theorem insertSorted_perm (x : Bytes) : ∀ l, (insertSorted x l).Perm (x :: l)
  | [] => List.Perm.refl _
  | y :: ys => by
    unfold insertSorted
    split
    · exact List.Perm.refl _
    · exact ((insertSorted_perm x ys).cons y).trans (List.Perm.swap x y ys)

theorem sortStrings_perm : ∀ l, (sortStrings l).Perm l
  | [] => List.Perm.refl _
  | x :: xs => by
    unfold sortStrings
    exact (insertSorted_perm x _).trans ((sortStrings_perm xs).cons x)

theorem insertSorted_sorted (x : Bytes) : ∀ l, l.Pairwise (fun a b => bytesLe a b = true) →
    (insertSorted x l).Pairwise (fun a b => bytesLe a b = true)
  | [], _ => by simp [insertSorted]
  | y :: ys, h => by
    unfold insertSorted
    have hy := List.pairwise_cons.mp h
    split
    · rename_i hxy
      refine List.pairwise_cons.mpr ⟨?_, h⟩
      intro z hz
      rcases List.mem_cons.mp hz with rfl | hz
      · exact hxy
      · exact bytesLe_trans _ _ _ hxy (hy.1 z hz)
    · rename_i hxy
      refine List.pairwise_cons.mpr ⟨?_, insertSorted_sorted x ys hy.2⟩
      intro z hz
      have := (insertSorted_perm x ys).subset hz
      rcases List.mem_cons.mp this with rfl | hz'
      · rcases bytesLe_total z y with h' | h'
        · exact absurd h' hxy
        · exact h'
      · exact hy.1 z hz'

theorem sortStrings_sorted : ∀ l, (sortStrings l).Pairwise (fun a b => bytesLe a b = true)
  | [] => List.Pairwise.nil
  | x :: xs => by
    unfold sortStrings
    exact insertSorted_sorted x _ (sortStrings_sorted xs)

/-- sorting forgets the order of its input -/
theorem sortStrings_eq_of_perm {l₁ l₂ : List Bytes} (h : l₁.Perm l₂) : sortStrings l₁ = sortStrings l₂ :=
  List.Perm.eq_of_pairwise (le := fun a b => bytesLe a b = true)
    (fun a b _ _ => bytesLe_antisymm a b)
    (sortStrings_sorted l₁) (sortStrings_sorted l₂)
    ((sortStrings_perm l₁).trans (h.trans (sortStrings_perm l₂).symm))

/-! ### association lists -/

theorem insert_of_not_mem : ∀ (m : List (Bytes × Value)) (k : Bytes) (v : Value),
    k ∉ m.map Prod.fst → insert m k v = m ++ [(k, v)]
  | [], _, _, _ => rfl
  | (k', v') :: r, k, v, h => by
    have hk : ¬ k' = k := fun e => h (by simp [e])
    have hr : k ∉ r.map Prod.fst := fun e => h (by simp [e])
    simp [insert, hk, insert_of_not_mem r k v hr]


/-! ### the printer does not depend on the map iteration order -/

mutual
theorem toString_oi (o₁ o₂ : List Bytes → List Bytes)
    (h₁ : ∀ l, (o₁ l).Perm l) (h₂ : ∀ l, (o₂ l).Perm l) : ∀ v : Value, Value.toString o₁ v = Value.toString o₂ v
  | .undefined => by simp [Value.toString]
  | .null => by simp [Value.toString]
  | .bool _ => by simp [Value.toString]
  | .int _ => by simp [Value.toString]
  | .float _ => by simp [Value.toString]
  | .str _ => by simp [Value.toString]
  | .list _ xs => by
    simp only [Value.toString]
    rw [listItems_oi o₁ o₂ h₁ h₂ xs]
  | .map _ kvs => by
    simp only [Value.toString]
    rw [mapItems_oi o₁ o₂ h₁ h₂ kvs]
    cases Value.mapItems o₂ kvs with
    | none => rfl
    | some items =>
      simp only
      rw [sortStrings_eq_of_perm ((h₁ items).trans (h₂ items).symm)]
theorem listItems_oi (o₁ o₂ : List Bytes → List Bytes)
    (h₁ : ∀ l, (o₁ l).Perm l) (h₂ : ∀ l, (o₂ l).Perm l) : ∀ xs : List Value, Value.listItems o₁ xs = Value.listItems o₂ xs
  | [] => by simp [Value.listItems]
  | x :: xs => by
    simp only [Value.listItems]
    rw [toString_oi o₁ o₂ h₁ h₂ x, listItems_oi o₁ o₂ h₁ h₂ xs]
theorem mapItems_oi (o₁ o₂ : List Bytes → List Bytes)
    (h₁ : ∀ l, (o₁ l).Perm l) (h₂ : ∀ l, (o₂ l).Perm l) : ∀ kvs : List (Bytes × Value), Value.mapItems o₁ kvs = Value.mapItems o₂ kvs
  | [] => by simp [Value.mapItems]
  | (k, v) :: r => by
    cases v <;> simp only [Value.mapItems] <;> rw [mapItems_oi o₁ o₂ h₁ h₂ r] <;> try rw [toString_oi o₁ o₂ h₁ h₂]
end

end SoyVerif.Value
