/-
  `b!"text"`: a byte-list literal (`List UInt8`), expanded at elaboration time to the list of
  numerals `[116, 101, 120, 116]`.  Unlike `"text".toUTF8.toList` the result reduces in the
  kernel, so models can spell their fixed fragments readably.
-/
import SoyVerif.Base.Bytes

namespace SoyVerif

open Lean in
macro:max "b!" s:str : term => do
  let bytes := s.getString.toUTF8.toList
  let elems : Array (TSyntax `term) :=
    (bytes.map fun (b : UInt8) => (Syntax.mkNumLit (toString b.toNat) : TSyntax `term)).toArray
  `(([$elems,*] : List UInt8))

example : b!"ab\n" = ([97, 98, 10] : Bytes) := by decide
example : (b!"" : Bytes) = [] := rfl

end SoyVerif
