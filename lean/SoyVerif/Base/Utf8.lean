/-
  UTF-8 as Go's unicode/utf8 implements it: `decodeRune` mirrors
  utf8.DecodeRuneInString (RuneError U+FFFD with width 1 on any invalid or short
  sequence; surrogates, overlong forms and values above U+10FFFF are invalid),
  `encodeRune` mirrors utf8.EncodeRune / string(rune) (invalid runes encode U+FFFD).
-/
import SoyVerif.Base.Bytes

namespace SoyVerif.Utf8

def runeError : Nat := 0xFFFD

def isCont (b : UInt8) : Bool := 0x80 ≤ b.toNat && b.toNat ≤ 0xBF

/-- (rune, width) of the first rune of `s`; `(runeError, 0)` for the empty string -/
def decodeRune : Bytes → Nat × Nat
  | [] => (runeError, 0)
  | b0 :: rest =>
    let x := b0.toNat
    if x < 0x80 then (x, 1)
    else if x < 0xC2 then (runeError, 1)          -- continuation byte or overlong lead C0/C1
    else if x < 0xE0 then
      match rest with
      | b1 :: _ => if isCont b1 then ((x - 0xC0) * 64 + (b1.toNat - 0x80), 2) else (runeError, 1)
      | [] => (runeError, 1)
    else if x < 0xF0 then
      match rest with
      | b1 :: b2 :: _ =>
        let lo := if x == 0xE0 then 0xA0 else 0x80
        let hi := if x == 0xED then 0x9F else 0xBF
        if lo ≤ b1.toNat && b1.toNat ≤ hi && isCont b2 then
          ((x - 0xE0) * 4096 + (b1.toNat - 0x80) * 64 + (b2.toNat - 0x80), 3)
        else (runeError, 1)
      | _ => (runeError, 1)
    else if x < 0xF5 then
      match rest with
      | b1 :: b2 :: b3 :: _ =>
        let lo := if x == 0xF0 then 0x90 else 0x80
        let hi := if x == 0xF4 then 0x8F else 0xBF
        if lo ≤ b1.toNat && b1.toNat ≤ hi && isCont b2 && isCont b3 then
          ((x - 0xF0) * 262144 + (b1.toNat - 0x80) * 4096 + (b2.toNat - 0x80) * 64 + (b3.toNat - 0x80), 4)
        else (runeError, 1)
      | _ => (runeError, 1)
    else (runeError, 1)

def validRune (r : Int) : Bool :=
  (0 ≤ r && r < 0xD800) || (0xE000 ≤ r && r ≤ 0x10FFFF)

/-- utf8.EncodeRune; runes outside the valid range (negative, surrogate, too large) encode U+FFFD -/
def encodeRune (r : Int) : Bytes :=
  let n : Nat := if validRune r then r.toNat else runeError
  if n < 0x80 then [UInt8.ofNat n]
  else if n < 0x800 then [UInt8.ofNat (0xC0 + n / 64), UInt8.ofNat (0x80 + n % 64)]
  else if n < 0x10000 then
    [UInt8.ofNat (0xE0 + n / 4096), UInt8.ofNat (0x80 + (n / 64) % 64), UInt8.ofNat (0x80 + n % 64)]
  else
    [UInt8.ofNat (0xF0 + n / 262144), UInt8.ofNat (0x80 + (n / 4096) % 64),
     UInt8.ofNat (0x80 + (n / 64) % 64), UInt8.ofNat (0x80 + n % 64)]

/-- the runes of a string as `for _, r := range s` yields them -/
def runes (s : Bytes) : List Nat :=
  go s.length s
where
  go : Nat → Bytes → List Nat
    | 0, _ => []
    | _, [] => []
    | fuel + 1, s =>
      let (r, w) := decodeRune s
      r :: go fuel (s.drop w)

end SoyVerif.Utf8
