/-
  Bytes: the model works on `List UInt8` (Go strings / []byte are byte sequences).
  Core-only (no Mathlib) so that the driver can be compiled as a `lean_exe`.
-/
namespace SoyVerif

abbrev Byte := UInt8
abbrev Bytes := List UInt8

namespace Bytes

/-- Every per-byte fact can be settled by the kernel on the 256 values. -/
theorem forall_byte {P : UInt8 → Prop} (h : ∀ n : Fin 256, P (UInt8.ofNat n.val)) : ∀ b : UInt8, P b := by
  intro b
  have := h ⟨b.toNat, b.toNat_lt⟩
  simpa using this

def hexDigit (n : Nat) : Char :=
  if n < 10 then Char.ofNat (48 + n) else Char.ofNat (87 + n)

def toHex (bs : Bytes) : String :=
  String.ofList (bs.flatMap fun b => [hexDigit (b.toNat / 16), hexDigit (b.toNat % 16)])

def hexVal (c : Char) : Option Nat :=
  if '0' ≤ c ∧ c ≤ '9' then some (c.toNat - 48)
  else if 'a' ≤ c ∧ c ≤ 'f' then some (c.toNat - 87)
  else if 'A' ≤ c ∧ c ≤ 'F' then some (c.toNat - 55)
  else none

def ofHexChars : List Char → Option Bytes
  | [] => some []
  | [_] => none
  | a :: b :: rest => do
    let x ← hexVal a
    let y ← hexVal b
    let r ← ofHexChars rest
    pure (UInt8.ofNat (x * 16 + y) :: r)

/-- `-` denotes the empty string on the wire (so that fields are never empty). -/
def ofHex (s : String) : Option Bytes :=
  if s == "-" then some [] else ofHexChars s.toList

def toHexWire (bs : Bytes) : String :=
  if bs.isEmpty then "-" else toHex bs

/-- lexicographic order on byte strings (Go's `<` on strings, `sort.Strings`) -/
def lt : Bytes → Bytes → Bool
  | [], [] => false
  | [], _ :: _ => true
  | _ :: _, [] => false
  | a :: as, b :: bs => a < b || (a == b && lt as bs)

def ofString (s : String) : Bytes := s.toUTF8.toList

/-- lossy, for diagnostics only -/
def toStringLossy (bs : Bytes) : String :=
  String.ofList (bs.map fun b => if 32 ≤ b.toNat ∧ b.toNat < 127 then Char.ofNat b.toNat else '?')

end Bytes
end SoyVerif
