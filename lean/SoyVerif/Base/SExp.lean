/-
  S-expressions: the wire form of trees and values in the line protocol.
  Atoms are non-empty strings without spaces or parentheses (byte strings travel
  hex-encoded, "-" = empty).  `(a b (c d))`.
-/
import SoyVerif.Base.Bytes

namespace SoyVerif

inductive SExp where
  | atom (s : String)
  | list (xs : List SExp)
  deriving Repr, Inhabited

namespace SExp

partial def toStr : SExp → String
  | atom s => s
  | list xs => "(" ++ " ".intercalate (xs.map toStr) ++ ")"

/-- tokenizer: parentheses and atoms -/
def tokens (s : String) : List String := Id.run do
  let mut out : Array String := #[]
  let mut cur : String := ""
  for c in s.toList do
    if c == '(' || c == ')' then
      if cur != "" then out := out.push cur; cur := ""
      out := out.push (String.singleton c)
    else if c == ' ' then
      if cur != "" then out := out.push cur; cur := ""
    else cur := cur.push c
  if cur != "" then out := out.push cur
  return out.toList

/-- parse one expression from a token list with a stack (iterative, total) -/
def parseTokens (toks : List String) : Option SExp := Id.run do
  let mut stack : List (Array SExp) := []
  let mut cur : Array SExp := #[]
  for t in toks do
    if t == "(" then
      stack := cur :: stack
      cur := #[]
    else if t == ")" then
      match stack with
      | [] => return none
      | top :: rest =>
        cur := top.push (list cur.toList)
        stack := rest
    else cur := cur.push (atom t)
  if !stack.isEmpty then return none
  if cur.size == 1 then return some cur[0]! else return none

def parse (s : String) : Option SExp := parseTokens (tokens s)

def hex (b : Bytes) : SExp := atom (Bytes.toHexWire b)
def nat (n : Nat) : SExp := atom (toString n)
def int (n : Int) : SExp := atom (toString n)
def boolA (b : Bool) : SExp := atom (if b then "1" else "0")

def asBytes : SExp → Option Bytes
  | atom s => Bytes.ofHex s
  | _ => none
def asNat : SExp → Option Nat
  | atom s => s.toNat?
  | _ => none
def asInt : SExp → Option Int
  | atom s => s.toInt?
  | _ => none
def asBool : SExp → Option Bool
  | atom "1" => some true
  | atom "0" => some false
  | _ => none

end SExp
end SoyVerif
