/-
  F64: IEEE-754 binary64 as a soft-float over the 64 bits.  Core Lean only, and NO use of
  Lean's `Float` (opaque to the kernel).  Everything is computed through exact `Nat`/`Int`
  arithmetic on the decoded value  (-1)^s · m · 2^e  and rounded to nearest-even once.

  Correctness of the arithmetic, of decimal parsing and of the shortest formatting is
  established by the bit-for-bit correspondence against Go (ops `f64*`), not by proofs;
  the theorems of the project use only the order/equality/NaN/zero laws proved at the end.
-/
import SoyVerif.Base.Bytes

namespace SoyVerif

structure F64 where
  bits : UInt64
deriving DecidableEq, Repr

namespace F64

def two52 : Nat := 4503599627370496
def two53 : Nat := 9007199254740992
def two63 : Nat := 9223372036854775808
def two64 : Nat := 18446744073709551616
/-- magnitude bits of ±Inf -/
def infMag : Nat := 9218868437227405312   -- 0x7FF0000000000000

/-- sign bit -/
def sign (x : F64) : Bool := decide (two63 ≤ x.bits.toNat)
/-- the 63 magnitude bits (exponent field and fraction) -/
def mag (x : F64) : Nat := x.bits.toNat % two63
def expField (x : F64) : Nat := x.mag / two52
def frac (x : F64) : Nat := x.mag % two52

def isNaN (x : F64) : Bool := decide (infMag < x.mag)
def isInf (x : F64) : Bool := x.mag == infMag
def isZero (x : F64) : Bool := x.mag == 0
def isFinite (x : F64) : Bool := decide (x.mag < infMag)

inductive Class where
  | zero | subnormal | normal | inf | nan
deriving DecidableEq, Repr

def classify (x : F64) : Class :=
  if x.mag == 0 then .zero
  else if x.mag < two52 then .subnormal
  else if x.mag < infMag then .normal
  else if x.mag == infMag then .inf
  else .nan

def ofNatBits (n : Nat) : F64 := ⟨UInt64.ofNat n⟩
/-- assemble from sign and magnitude bits -/
def make (s : Bool) (m : Nat) : F64 := ofNatBits ((if s then two63 else 0) + m)

/-- the canonical NaN (Go's `math.NaN()`); every NaN result of the model is this one. -/
def nan : F64 := ofNatBits 9221120237041090561  -- 0x7FF8000000000001
def inf (s : Bool) : F64 := make s infMag
def zero : F64 := make false 0
def negZero : F64 := make true 0

def neg (x : F64) : F64 := make (!x.sign) x.mag
def abs (x : F64) : F64 := make false x.mag

/-- finite decoding: |x| = mant · 2^exp2 -/
def mant (x : F64) : Nat := if x.expField == 0 then x.frac else x.frac + two52
def exp2 (x : F64) : Int := if x.expField == 0 then -1074 else (x.expField : Int) - 1075

/-- order key of a non-NaN value: sign·magnitude (the IEEE order is the order of the keys; ±0 ↦ 0) -/
def key (x : F64) : Int := if x.sign then -(x.mag : Int) else (x.mag : Int)

/-- IEEE `==` : NaN is unequal to everything, -0 = +0 -/
def eq (a b : F64) : Bool := !a.isNaN && !b.isNaN && a.key == b.key
/-- IEEE `<` -/
def lt (a b : F64) : Bool := !a.isNaN && !b.isNaN && decide (a.key < b.key)
/-- IEEE `<=` -/
def le (a b : F64) : Bool := !a.isNaN && !b.isNaN && decide (a.key ≤ b.key)

/-! ### rounding an exact positive rational -/

/-- magnitude bits of the double nearest (ties to even) to `n/d` (`n,d > 0`); `infMag` on overflow. -/
def roundRatMag (n d : Nat) : Nat :=
  let t : Int := (Nat.log2 n : Int) - (Nat.log2 d : Int)
  let e1 : Int := if t - 52 < -1074 then -1074 else t - 52
  let q1 : Nat := if e1 < 0 then (n * 2 ^ (-e1).toNat) / d else n / (d * 2 ^ e1.toNat)
  let e : Int := if q1 < two52 ∧ -1074 < e1 then e1 - 1 else e1
  let num : Nat := if e < 0 then n * 2 ^ (-e).toNat else n
  let den : Nat := if e < 0 then d else d * 2 ^ e.toNat
  let q := num / den
  let r := num % den
  let q' := if den < 2 * r then q + 1 else if 2 * r == den then q + q % 2 else q
  let m := (e + 1074).toNat * two52 + q'
  if infMag ≤ m then infMag else m

/-- round `(-1)^s · n/d`; `n = 0` gives the zero of sign `s`. -/
def ofRat (s : Bool) (n d : Nat) : F64 :=
  if n == 0 then make s 0 else make s (roundRatMag n d)

/-- exact value of a finite `x` as `num / 2^sh` or `num · 2^sh'`: returns (numerator, denominator) over a
    common exponent `emin` -/
def scaled (x : F64) (emin : Int) : Nat := x.mant * 2 ^ (x.exp2 - emin).toNat

/-- Go's `float64(i)` for an int64. -/
def ofInt (i : Int) : F64 := ofRat (decide (i < 0)) i.natAbs 1
def ofInt64 (i : Int64) : F64 := ofInt i.toInt
def ofNat (n : Nat) : F64 := ofRat false n 1

/-! ### arithmetic -/

def add (a b : F64) : F64 :=
  if a.isNaN || b.isNaN then nan
  else if a.isInf then (if b.isInf && a.sign != b.sign then nan else a)
  else if b.isInf then b
  else
    let emin : Int := if a.exp2 < b.exp2 then a.exp2 else b.exp2
    let x : Int := (if a.sign then -(a.scaled emin : Int) else (a.scaled emin : Int))
    let y : Int := (if b.sign then -(b.scaled emin : Int) else (b.scaled emin : Int))
    let s := x + y
    if s == 0 then make (a.sign && b.sign) 0
    else
      let neg := decide (s < 0)
      if emin < 0 then ofRat neg s.natAbs (2 ^ (-emin).toNat)
      else ofRat neg (s.natAbs * 2 ^ emin.toNat) 1

def sub (a b : F64) : F64 := if b.isNaN then nan else add a (neg b)

def mul (a b : F64) : F64 :=
  if a.isNaN || b.isNaN then nan
  else
    let s := a.sign != b.sign
    if a.isInf then (if b.isZero then nan else inf s)
    else if b.isInf then (if a.isZero then nan else inf s)
    else
      let m := a.mant * b.mant
      let e := a.exp2 + b.exp2
      if e < 0 then ofRat s m (2 ^ (-e).toNat) else ofRat s (m * 2 ^ e.toNat) 1

def div (a b : F64) : F64 :=
  if a.isNaN || b.isNaN then nan
  else
    let s := a.sign != b.sign
    if a.isInf then (if b.isInf then nan else inf s)
    else if b.isInf then make s 0
    else if b.isZero then (if a.isZero then nan else inf s)
    else
      let e := a.exp2 - b.exp2
      if e < 0 then ofRat s a.mant (b.mant * 2 ^ (-e).toNat)
      else ofRat s (a.mant * 2 ^ e.toNat) b.mant

/-! ### floor, ceil, truncation -/

/-- Go's `math.Floor` -/
def floor (x : F64) : F64 :=
  if x.isNaN || x.isInf || x.isZero then x
  else if 0 ≤ x.exp2 then x
  else
    let d := 2 ^ (-x.exp2).toNat
    if x.sign then ofRat true ((x.mant + d - 1) / d) 1
    else ofRat false (x.mant / d) 1

/-- Go's `math.Ceil` (= `-Floor(-x)`) -/
def ceil (x : F64) : F64 := neg (floor (neg x))

/-- integer part of a finite value, truncated toward zero -/
def truncInt (x : F64) : Int :=
  let n : Nat := if 0 ≤ x.exp2 then x.mant * 2 ^ x.exp2.toNat else x.mant / 2 ^ (-x.exp2).toNat
  if x.sign then -(n : Int) else (n : Int)

/-- Go's `int64(f)`: truncation for values whose integer part fits; everything else (NaN, ±Inf, out of
    range) is implementation-specific in Go — the amd64 answer `math.MinInt64` is modelled. -/
def toInt64Trunc (x : F64) : Int64 :=
  if x.isNaN || x.isInf then Int64.ofInt (-(two63 : Int))
  else
    let t := x.truncInt
    if -(two63 : Int) ≤ t ∧ t < (two63 : Int) then Int64.ofInt t else Int64.ofInt (-(two63 : Int))

/-! ### decimal helpers -/

def natDigitsAux : Nat → Nat → Bytes → Bytes
  | 0, _, acc => acc
  | fuel + 1, n, acc =>
    if n < 10 then UInt8.ofNat (48 + n) :: acc
    else natDigitsAux fuel (n / 10) (UInt8.ofNat (48 + n % 10) :: acc)

/-- decimal digits of a natural number (`0` ↦ "0") -/
def natDigits (n : Nat) : Bytes := natDigitsAux (Nat.log2 n + 2) n []

/-- Go's `strconv.FormatInt(i, 10)` -/
def intDigits (i : Int) : Bytes :=
  if i < 0 then 45 :: natDigits i.natAbs else natDigits i.natAbs

def isDigit (b : UInt8) : Bool := 48 ≤ b && b ≤ 57

/-- value of a digit string, most significant first -/
def digitsVal : Bytes → Nat → Nat
  | [], acc => acc
  | b :: r, acc => digitsVal r (acc * 10 + (b.toNat - 48))

def spanDigits : Bytes → Bytes × Bytes
  | [] => ([], [])
  | b :: r => if isDigit b then let (d, rest) := spanDigits r; (b :: d, rest) else ([], b :: r)

/-! ### decimal literal → F64  (Go's `strconv.ParseFloat(s, 64)` on `digits[.digits][(e|E)[+-]digits]`) -/

/-- exponent part: `none` = malformed, `some e` -/
def parseExpPart : Bytes → Option Int
  | [] => some 0
  | c :: r =>
    if c == 101 || c == 69 then
      let (neg, r) := match r with
        | 43 :: r' => (false, r')
        | 45 :: r' => (true, r')
        | _ => (false, r)
      let (ds, rest) := spanDigits r
      if ds.isEmpty || !rest.isEmpty then none
      else
        let v : Int := digitsVal ds 0
        some (if neg then -v else v)
    else none

/-- correctly rounded value of the non-negative decimal `D · 10^E` -/
def ofDecimal (s : Bool) (dmant : Nat) (dexp : Int) : F64 :=
  if dmant == 0 then make s 0
  else
    let nd : Int := (natDigits dmant).length
    -- magnitude guard (Go saturates the same way): 10^(nd+dexp-1) ≤ value < 10^(nd+dexp)
    if 400 < nd + dexp then inf s
    else if nd + dexp < -400 then make s 0
    else if dexp < 0 then ofRat s dmant (10 ^ (-dexp).toNat)
    else ofRat s (dmant * 10 ^ dexp.toNat) 1

def parseDecimal (s : Bytes) : Option F64 :=
  let (ip, r) := spanDigits s
  if ip.isEmpty then none
  else
    let (fp, r) := match r with
      | 46 :: r' => let (f, r'') := spanDigits r'; (some f, r'')
      | _ => (none, r)
    match fp with
    | some [] => none
    | _ =>
      let f := fp.getD []
      match parseExpPart r with
      | none => none
      | some e =>
        some (ofDecimal false (digitsVal (ip ++ f) 0) (e - (f.length : Int)))

/-! ### F64 → shortest decimal  (Go's `strconv.FormatFloat(x, 'g', -1, 64)`) -/

/-- decimal point position of `n/d > 0`: the `dp` with `10^(dp-1) ≤ n/d < 10^dp` -/
def decPointAux : Nat → Nat → Nat → Nat → Int
  | 0, _, _, j => 1 - (j : Int)
  | fuel + 1, n, d, j => if d ≤ n then 1 - (j : Int) else decPointAux fuel (n * 10) d (j + 1)

def decPoint (n d : Nat) : Int :=
  if d ≤ n then ((natDigits (n / d)).length : Int) else decPointAux 400 (n * 10) d 1

/-- the candidate `c · 10^k` nearest to the value inside the rounding interval, if any.
    All quantities in units `1/dd`: lower `lo`, value `x`, upper `up`. -/
def shortestAt (lo x up dd : Nat) (inclusive : Bool) (k : Int) : Option Nat :=
  let p := dd * 10 ^ k.toNat          -- one unit of 10^k  (k ≥ 0), scaled
  let q := 10 ^ (-k).toNat            -- scaling of the bounds (k < 0)
  let lo := lo * q; let x := x * q; let up := up * q
  let inside (c : Nat) : Bool :=
    c != 0 && (if inclusive then decide (lo ≤ c * p ∧ c * p ≤ up) else decide (lo < c * p ∧ c * p < up))
  let c0 := x / p
  let c1 := c0 + 1
  match inside c0, inside c1 with
  | false, false => none
  | true, false => some c0
  | false, true => some c1
  | true, true =>
    let d0 := x - c0 * p
    let d1 := c1 * p - x
    if d0 < d1 then some c0 else if d1 < d0 then some c1 else if c0 % 2 == 0 then some c0 else some c1

def shortestSearch : Nat → Nat → Nat → Nat → Nat → Bool → Int → Nat × Int
  | 0, _, x, _, _, _, k => (x, k)
  | fuel + 1, lo, x, up, dd, inclusive, k =>
    match shortestAt lo x up dd inclusive k with
    | some c => (c, k)
    | none => shortestSearch fuel lo x up dd inclusive (k - 1)

def stripZeros : Nat → Nat → Int → Nat × Int
  | 0, c, k => (c, k)
  | fuel + 1, c, k => if c != 0 && c % 10 == 0 then stripZeros fuel (c / 10) (k + 1) else (c, k)

/-- shortest decimal `c · 10^k` (no trailing zero in `c`) that rounds to the finite non-zero `x` -/
def shortest (x : F64) : Nat × Int :=
  let m := x.mant
  let s : Int := x.exp2 - 2
  let narrow := x.frac == 0 && 2 ≤ x.expField
  let lo := if narrow then 4 * m - 1 else 4 * m - 2
  let xv := 4 * m
  let up := 4 * m + 2
  let sc := 2 ^ s.toNat
  let dd := 2 ^ (-s).toNat
  let lo := lo * sc; let xv := xv * sc; let up := up * sc
  let dp := decPoint xv dd
  let (c, k) := shortestSearch 25 lo xv up dd (m % 2 == 0) dp
  stripZeros 400 c k

def zeros : Nat → Bytes
  | 0 => []
  | n + 1 => 48 :: zeros n

/-- `%e` layout: d.ddde±XX -/
def fmtE (neg : Bool) (digs : Bytes) (dp : Int) : Bytes :=
  let e := dp - 1
  let ed := natDigits e.natAbs
  let ed := if ed.length < 2 then 48 :: ed else ed
  (if neg then [45] else []) ++
  (match digs with
   | [] => [48]
   | [d] => [d]
   | d :: r => d :: 46 :: r) ++
  [101, if e < 0 then 45 else 43] ++ ed

/-- `%f` layout with exactly the digits needed -/
def fmtF (neg : Bool) (digs : Bytes) (dp : Int) : Bytes :=
  let nd : Int := digs.length
  (if neg then [45] else []) ++
  (if 0 < dp then
     (if nd ≤ dp then digs ++ zeros (dp - nd).toNat
      else digs.take dp.toNat ++ 46 :: digs.drop dp.toNat)
   else if nd == 0 then [48]
   else [48, 46] ++ zeros (-dp).toNat ++ digs)

/-- Go's `strconv.FormatFloat(x, 'g', -1, 64)` -/
def format (x : F64) : Bytes :=
  if x.isNaN then [78, 97, 78]                       -- NaN
  else if x.isInf then (if x.sign then [45, 73, 110, 102] else [43, 73, 110, 102])  -- ±Inf
  else if x.isZero then (if x.sign then [45, 48] else [48])
  else
    let (c, k) := shortest x
    let digs := natDigits c
    let dp : Int := (digs.length : Int) + k
    let e := dp - 1
    if e < -4 || 6 ≤ e then fmtE x.sign digs dp else fmtF x.sign digs dp

/-- ECMAScript's exponent layout: d.ddde±X, no leading zero in the exponent -/
def fmtEJS (neg : Bool) (digs : Bytes) (dp : Int) : Bytes :=
  let e := dp - 1
  (if neg then [45] else []) ++
  (match digs with
   | [] => [48]
   | [d] => [d]
   | d :: r => d :: 46 :: r) ++
  [101, if e < 0 then 45 else 43] ++ natDigits e.natAbs

/-- `data.Float.String()` since /repo "floats print as JavaScript prints them": ECMAScript
    Number::toString — positional for 1e-6 ≤ |x| < 1e21, exponent form otherwise, zero unsigned -/
def formatJS (x : F64) : Bytes :=
  if x.isNaN then [78, 97, 78]
  else if x.isInf then (if x.sign then [45, 73, 110, 102, 105, 110, 105, 116, 121] else [73, 110, 102, 105, 110, 105, 116, 121])
  else if x.isZero then [48]
  else
    let (c, k) := shortest x
    let digs := natDigits c
    let dp : Int := (digs.length : Int) + k
    let e := dp - 1
    if e < -6 || 21 ≤ e then fmtEJS x.sign digs dp else fmtF x.sign digs dp

/-! ### laws used by the theorems (proved on the concrete definitions) -/

theorem eq_comm (a b : F64) : eq a b = eq b a := by
  unfold eq
  cases a.isNaN <;> cases b.isNaN <;> simp [BEq.comm (a := a.key)]

theorem eq_nan_left (a b : F64) (h : a.isNaN = true) : eq a b = false := by
  simp [eq, h]

theorem eq_nan_right (a b : F64) (h : b.isNaN = true) : eq a b = false := by
  simp [eq, h]

theorem isNaN_iff (x : F64) : x.isNaN = true ↔ infMag < x.bits.toNat % two63 := by
  unfold isNaN mag
  exact decide_eq_true_iff

theorem isZero_iff (x : F64) : x.isZero = true ↔ x.bits.toNat % two63 = 0 := by
  simp [isZero, mag]

theorem not_nan_of_zero (x : F64) (h : x.isZero = true) : x.isNaN = false := by
  simp [isZero] at h
  simp [isNaN, h, infMag]

theorem zero_mag : zero.mag = 0 := by decide
theorem zero_isNaN : zero.isNaN = false := by decide
theorem zero_key : zero.key = 0 := by decide

theorem key_eq_zero (x : F64) : x.key = 0 ↔ x.mag = 0 := by
  unfold key
  split <;> omega

/-- comparing with `0.0`: equal exactly for the two zeros -/
theorem eq_zero_iff (x : F64) : eq x zero = true ↔ x.isZero = true := by
  unfold eq
  rw [zero_isNaN, zero_key]
  constructor
  · intro h
    simp at h
    simpa [isZero] using (key_eq_zero x).1 h.2
  · intro h
    have hn := not_nan_of_zero x h
    simp [isZero] at h
    simp [hn, (key_eq_zero x).2 h]

example : nan.isNaN = true := by decide
example : (inf false).isNaN = false := by decide
example : eq nan nan = false := by decide
example : eq zero negZero = true := by decide
example : lt negZero zero = false := by decide
example : lt (inf true) zero = true := by decide

end F64
end SoyVerif
