/-
  C09, instantiated: concurrent renders of ONE compiled bundle in the interpreter model.

  Props/C09.lean proves schedule-independence for threads whose steps leave the shared
  state unchanged; Props/C08.lean proves that a render of the interpreter model is such a
  step (`exec_frame`).  Together: any number of goroutines, each performing any list of
  render requests (any templates, any data / $ij maps of the shared pool, failing renders
  included) against the same `Shared` state, under EVERY schedule, never change the shared
  state — so no step writes shared memory — and each render returns exactly the result it
  returns when it runs alone.
-/
import SoyVerif.Props.C09
import SoyVerif.Props.C08

namespace SoyVerif.Props.C09
open SoyVerif.Model.Interleave SoyVerif.Props.C08

/-- a render request as an atomic step over the shared state -/
def renderStep (inp : Input) : Step Shared Result := fun sh => exec sh inp

theorem renderStep_readOnly (sh : Shared) (inp : Input) : ReadOnly sh (renderStep inp) :=
  exec_frame sh inp

/-- every thread consisting of render requests is read-only at every state -/
theorem render_threads_readOnly (sh : Shared) (threads : List (List Input)) :
    AllReadOnly sh (threads.map (fun t => t.map renderStep)) := by
  intro t ht f hf
  simp only [List.mem_map] at ht
  obtain ⟨reqs, _, rfl⟩ := ht
  simp only [List.mem_map] at hf
  obtain ⟨inp, _, rfl⟩ := hf
  exact renderStep_readOnly sh inp

/-- FULL (for the model): concurrent renders never change the compiled bundle, the caller's
    maps or the registries, under any schedule -/
theorem concurrent_renders_leave_shared_state (sh : Shared) (threads : List (List Input)) (sched : List Nat) :
    (runSched (init sh (threads.map (fun t => t.map renderStep))) sched).shared = sh :=
  (shared_unchanged (init sh (threads.map (fun t => t.map renderStep)))
    (by simpa [init] using render_threads_readOnly sh threads) sched).1

/-- … and whichever render request a goroutine executes next, at whatever point of whatever
    schedule, it produces the outcome (class and bytes) it produces alone on the initial state -/
theorem concurrent_render_result (sh : Shared) (threads : List (List Input)) (sched : List Nat)
    (i : Nat) (f : Step Shared Result) (rest : List (Step Shared Result))
    (hp : (runSched (init sh (threads.map (fun t => t.map renderStep))) sched).pending[i]? = some (f :: rest)) :
    f (runSched (init sh (threads.map (fun t => t.map renderStep))) sched).shared = (sh, (f sh).2) :=
  obs_schedule_independent sh _ (render_threads_readOnly sh threads) sched i f rest hp

end SoyVerif.Props.C09
