/-
  C04 — print directives: ORDER and ESCAPE DECISION agree between the two backends.

  1. `visitPrint_renders` — what the generator model writes for a print node is, as an action of the
     generator monad (hence piece for piece),
         buf += dN(…d2(d1(E, args1), args2)…, argsN);
     i.e. `renderM (applyDirs ds E)` where `ds = printDirs autoescape cancel kept` lists the applied
     directives INNERMOST FIRST: the directives of the print command in source order (`id` /
     `noAutoescape` dropped), `escapeHtml` inserted before every insertWordBreaks / changeNewlineToBr,
     and the implicit `escapeHtml` last exactly when autoescaping is in force and no directive
     cancels it.
  2. `print_directives_agree` — reading a directive application `name:args` as an UNINTERPRETED
     function `F name args` (the same symbol on both sides: what soy.$$name / JSON.stringify compute),
     the value the generated JavaScript computes equals the value the Go renderer computes, for every
     directive list both backends know, every autoescape mode and every `F`.  The Go side is the
     recursion of `Model/Eval.runDirectives` / `evalPrint` (left to right, the flag cleared by a
     cancelling directive, escaping last), with two facts about its library spelled out:
     `directiveNoAutoescape` (id, noAutoescape) is the identity, and the Go insertWordBreaks /
     changeNewlineToBr escape their input themselves (= `F name args ∘ F escapeHtml []`).
     The theorem uses the LIVE tables of both backends (`tables_agree`, by `decide`): it breaks if a
     CancelAutoescape flag differs, and it is false for a generator that nests right to left or drops
     the input escape (examples at the end).
-/
import SoyVerif.Lemmas.JsGenMonad
import SoyVerif.Model.Eval

namespace SoyVerif.Props.C04b
open SoyVerif SoyVerif.Model SoyVerif.Model.JsGen SoyVerif.Lemmas.JsGenMonad

/-! ## 1. the shape of the emitted print statement -/

/-- a print expression: the translated argument, wrapped in directive calls -/
inductive PExpr where
  | arg
  | call (d : Directive) (x : PExpr)

/-- apply the directives, the FIRST of the list innermost -/
def applyDirs (ds : List Directive) (x : PExpr) : PExpr := ds.foldl (fun acc d => .call d acc) x

section
variable (sk : List Bytes → List Bytes) (o : Options) (arg : Expr)

/-- the text of a print expression: `name(` inner `,arg…` [`,true`] `)` -/
def renderM : PExpr → M Unit
  | .arg => walkExpr sk o arg
  | .call d x => do
    fx (directiveJsName d.name); fx b!"("
    renderM x
    closeDirective sk o d

/-- `buf += e;` -/
def printStmt (buf : Bytes) (e : PExpr) : M Unit := do
  indentP
  emit (.ident buf); fx b!" += "
  renderM sk o arg e
  fx b!";\n"

def openDirective (d : Directive) : M Unit := do fx (directiveJsName d.name); fx b!"("

/-- what visitPrint does: all the openings (outermost first), the argument, all the closings -/
def wrapM (ds : List Directive) (inner : M Unit) : M Unit := do
  seqM (ds.reverse.map openDirective)
  inner
  seqM (ds.map (closeDirective sk o))

theorem wrapM_cons (d : Directive) (ds : List Directive) (inner : M Unit) :
    wrapM sk o (d :: ds) inner = wrapM sk o ds (do openDirective d; inner; closeDirective sk o d) := by
  unfold wrapM
  simp only [List.reverse_cons, List.map_append, List.map_cons, List.map_nil, seqM_append, seqM_single, bind_assoc]
  rfl

theorem wrapM_render : ∀ (ds : List Directive) (x : PExpr),
    wrapM sk o ds (renderM sk o arg x) = renderM sk o arg (applyDirs ds x)
  | [], x => by
    show (pure () >>= fun _ => renderM sk o arg x >>= fun _ => pure ()) = _
    rw [pure_bind, bind_pure_unit]
    rfl
  | d :: ds, x => by
    rw [wrapM_cons]
    have : (do openDirective d; renderM sk o arg x; closeDirective sk o d) = renderM sk o arg (.call d x) := by
      show _ = (do fx (directiveJsName d.name); fx b!"("; renderM sk o arg x; closeDirective sk o d)
      unfold openDirective
      simp only [bind_assoc]
    rw [this, wrapM_render ds (.call d x)]
    rfl

/-- FULL (model of soyjs.visitPrint): the print statement written is `buf += ` the nesting of the
    applied directives, first-applied innermost, around the translated argument. -/
theorem visitPrint_renders (dirs : List Directive) :
    visitPrint sk o arg dirs = (do
      let s ← getSt
      match collectDirs dirs with
      | none => fail
      | some (cancel, kept) => do
        whenM (isEs6 o) (seqM (kept.map fun d => addCalled d.name (tableImport (directiveJsName d.name))))
        printStmt sk o arg s.bufferName (applyDirs (printDirs s.autoescape cancel kept) .arg)) := by
  unfold visitPrint
  congr 1
  funext s
  cases collectDirs dirs with
  | none => rfl
  | some ck =>
    obtain ⟨cancel, kept⟩ := ck
    simp only
    congr 1
    funext _
    unfold printStmt
    rw [← wrapM_render]
    unfold wrapM
    simp only [bind_assoc]
    rfl

end

/-! ## 2. the two backends compute the same nesting -/

section
variable {α : Type}
-- `F name args x`: what the directive `|name:args` computes from `x` in JavaScript
-- (soy.$$name(x, args…); `F escapeHtml []` is soy.$$escapeHtml) — uninterpreted
variable (F : Bytes → List Expr → α → α)

/-- the value of a print expression -/
def denote (v : α) : PExpr → α
  | .arg => v
  | .call d x => F d.name d.args (denote v x)

def foldD (ds : List Directive) (x : α) : α := ds.foldl (fun acc d => F d.name d.args acc) x

theorem denote_applyDirs (v : α) : ∀ (ds : List Directive) (e : PExpr),
    denote F v (applyDirs ds e) = foldD F ds (denote F v e)
  | [], e => rfl
  | d :: ds, e => by
    show denote F v (applyDirs ds (.call d e)) = foldD F ds (F d.name d.args (denote F v e))
    rw [denote_applyDirs v ds (.call d e)]
    rfl

/-- JavaScript: the value of the generated print expression (`none`: soyjs.Write fails, unknown directive) -/
def jsPrint (ae : Autoescape) (dirs : List Directive) (x : α) : Option α :=
  (collectDirs dirs).map fun ck => denote F x (applyDirs (printDirs ae ck.1 ck.2) .arg)

/-- Go: `directive.Apply(result, args)` for the entry of the live table, the library functions as
    symbols: directiveNoAutoescape returns its input; the Go insertWordBreaks / changeNewlineToBr
    escape their input before they work on it -/
def goApply (e : Gen.DirectiveEntry) (d : Directive) (x : α) : α :=
  if e.impl == Directives.sDirectiveNoAutoescape then x
  else if e.impl == Directives.sDirectiveInsertWordBreaks || e.impl == Directives.sDirectiveChangeNewlineToBr then
    F d.name d.args (F escapeHtmlName [] x)
  else F d.name d.args x

/-- Go: the directive loop of evalPrint (the recursion of `Eval.runDirectives`): left to right, the
    escape flag cleared by a cancelling directive; `none` = unknown directive -/
def goRun (tbl : Directives.Table) : List Directive → α → Bool → Option (α × Bool)
  | [], x, esc => some (x, esc)
  | d :: ds, x, esc =>
    match Directives.lookup tbl d.name with
    | none => none
    | some e => goRun tbl ds (goApply F e d x) (if e.cancel then false else esc)

/-- Go: evalPrint — escaping comes last, if still in force -/
def goPrint (tbl : Directives.Table) (ae : Autoescape) (dirs : List Directive) (x : α) : Option α :=
  (goRun F tbl dirs x (ae != .off)).map fun r => if r.2 then F escapeHtmlName [] r.1 else r.1

end

/-! ### the live tables of the two backends agree on what matters here -/

def sId : Bytes := b!"id"
def sNoAutoescape : Bytes := b!"noAutoescape"
def sInsertWordBreaks : Bytes := b!"insertWordBreaks"
def sChangeNewlineToBr : Bytes := b!"changeNewlineToBr"

/-- for a directive known to both backends: same CancelAutoescape flag; the Go implementation is the
    identity exactly for the names soyjs drops; it is one of the two self-escaping functions exactly
    for the names whose input soyjs escapes -/
def entryAgrees (j : Gen.JsDirective) (e : Gen.DirectiveEntry) : Bool :=
  e.cancel == j.cancel &&
  ((e.impl == Directives.sDirectiveNoAutoescape) == (j.name == sId || j.name == sNoAutoescape)) &&
  ((e.impl == Directives.sDirectiveInsertWordBreaks || e.impl == Directives.sDirectiveChangeNewlineToBr) ==
    (j.name == sInsertWordBreaks || j.name == sChangeNewlineToBr))

def tablesAgree (goTbl : Directives.Table) (jsTbl : List Gen.JsDirective) : Bool :=
  jsTbl.all fun j =>
    match Directives.lookup goTbl j.name with
    | none => true
    | some e => entryAgrees j e

/-- TABLE OBLIGATION, re-checked against the generated tables on every run -/
theorem tables_agree : tablesAgree Gen.directiveTable Gen.jsDirectives = true := by decide

/-- soyhtml.ObligatoryPrintDirectiveNames is empty: evalPrint runs exactly the directives of the node -/
theorem no_obligatory_directives : Gen.obligatoryDirectives = [] := rfl

/-- what `tables_agree` gives for one directive name known to both backends -/
theorem agree_of_lookup {goTbl : Directives.Table} (h : tablesAgree goTbl Gen.jsDirectives = true)
    {name : Bytes} {j : Gen.JsDirective} {e : Gen.DirectiveEntry}
    (hj : findDirective name = some j) (he : Directives.lookup goTbl name = some e) :
    e.cancel = j.cancel ∧
    ((e.impl == Directives.sDirectiveNoAutoescape) = (name == sId || name == sNoAutoescape)) ∧
    ((e.impl == Directives.sDirectiveInsertWordBreaks || e.impl == Directives.sDirectiveChangeNewlineToBr) =
      (name == sInsertWordBreaks || name == sChangeNewlineToBr)) := by
  unfold findDirective at hj
  have hmem := List.mem_of_find?_eq_some hj
  have hname : j.name = name := by
    have := List.find?_some hj
    simpa using this
  unfold tablesAgree at h
  have hj' := List.all_eq_true.mp h j hmem
  rw [hname, he] at hj'
  simp only [entryAgrees, Bool.and_eq_true, beq_iff_eq, hname] at hj'
  exact ⟨hj'.1.1, hj'.1.2, hj'.2⟩

section
variable {α : Type} (F : Bytes → List Expr → α → α)

theorem foldD_append (a b : List Directive) (x : α) : foldD F (a ++ b) x = foldD F b (foldD F a x) := by
  unfold foldD
  rw [List.foldl_append]

/-- the loop: Go's left-to-right run equals the fold over the JavaScript side's directive list, and
    the flags agree -/
theorem goRun_eq (goTbl : Directives.Table) (ht : tablesAgree goTbl Gen.jsDirectives = true) :
    ∀ (dirs : List Directive) (x : α) (esc cancel : Bool) (kept : List Directive),
      collectDirs dirs = some (cancel, kept) → (∀ d ∈ dirs, (Directives.lookup goTbl d.name).isSome) →
      goRun F goTbl dirs x esc = some (foldD F (withInputEscapes kept) x, esc && !cancel)
  | [], x, esc, cancel, kept, hc, _ => by
    simp only [collectDirs, Option.some.injEq, Prod.mk.injEq] at hc
    obtain ⟨rfl, rfl⟩ := hc
    simp [goRun, foldD, withInputEscapes]
  | d :: ds, x, esc, cancel, kept, hc, hk => by
    unfold collectDirs at hc
    cases hj : findDirective d.name with
    | none => simp [hj] at hc
    | some j =>
      cases hr : collectDirs ds with
      | none => simp [hj, hr] at hc
      | some ck =>
        obtain ⟨c, kept'⟩ := ck
        simp only [hj, hr, Option.some.injEq, Prod.mk.injEq] at hc
        obtain ⟨rfl, rfl⟩ := hc
        have hsome := hk d (by simp)
        cases he : Directives.lookup goTbl d.name with
        | none => simp [he] at hsome
        | some e =>
          obtain ⟨hcan, hid, hesc⟩ := agree_of_lookup ht hj he
          have ih := goRun_eq goTbl ht ds (goApply F e d x) (if e.cancel then false else esc) c kept' hr
            (fun d' hd' => hk d' (by simp [hd']))
          unfold goRun
          simp only [he, ih]
          congr 1
          refine Prod.ext ?_ ?_
          · -- values
            simp only
            unfold goApply
            by_cases hidn : (d.name == sId || d.name == sNoAutoescape) = true
            · have h1 : (e.impl == Directives.sDirectiveNoAutoescape) = true := by rw [hid]; exact hidn
              have h2 : (d.name == b!"id" || d.name == b!"noAutoescape") = true := hidn
              simp [h1, h2]
            · have h1 : (e.impl == Directives.sDirectiveNoAutoescape) = false := by
                rw [hid]; simpa using hidn
              have h2 : (d.name == b!"id" || d.name == b!"noAutoescape") = false := by simpa [sId, sNoAutoescape] using hidn
              simp only [h1, h2, Bool.false_eq_true, if_false]
              by_cases hw : (d.name == sInsertWordBreaks || d.name == sChangeNewlineToBr) = true
              · have h3 : (e.impl == Directives.sDirectiveInsertWordBreaks || e.impl == Directives.sDirectiveChangeNewlineToBr) = true := by
                  rw [hesc]; exact hw
                have h4 : (d.name == b!"insertWordBreaks" || d.name == b!"changeNewlineToBr") = true := hw
                simp only [h3, if_true, withInputEscapes, h4, foldD, List.foldl_cons, escapeHtmlDir]
              · have h3 : (e.impl == Directives.sDirectiveInsertWordBreaks || e.impl == Directives.sDirectiveChangeNewlineToBr) = false := by
                  rw [hesc]; simpa using hw
                have h4 : (d.name == b!"insertWordBreaks" || d.name == b!"changeNewlineToBr") = false := by
                  simpa [sInsertWordBreaks, sChangeNewlineToBr] using hw
                simp only [h3, Bool.false_eq_true, if_false, withInputEscapes, h4, foldD, List.foldl_cons]
          · -- flags
            simp only [hcan]
            cases j.cancel <;> cases esc <;> cases c <;> rfl

/-- FULL (order and escape decision): for every list of directives that both backends know, every
    autoescape mode, every interpretation `F` of the directive functions and every input value, the
    generated JavaScript computes what the Go renderer computes. -/
theorem print_directives_agree (ae : Autoescape) (dirs : List Directive) (x : α)
    (hjs : (collectDirs dirs).isSome) (hgo : ∀ d ∈ dirs, (Directives.lookup Gen.directiveTable d.name).isSome) :
    jsPrint F ae dirs x = goPrint F Gen.directiveTable ae dirs x := by
  cases hc : collectDirs dirs with
  | none => simp [hc] at hjs
  | some ck =>
    obtain ⟨cancel, kept⟩ := ck
    unfold jsPrint goPrint
    rw [goRun_eq F Gen.directiveTable tables_agree dirs x (ae != .off) cancel kept hc hgo]
    simp only [hc, Option.map_some, Option.some.injEq]
    rw [denote_applyDirs]
    unfold printDirs
    cases cancel <;> cases ae <;>
      simp [foldD_append, foldD, denote, escapeHtmlDir]

end

/-! ### the recursion of the Go model really is left to right, and its flag is the conjunction -/

/-- the escape flag evalPrint ends with: still set iff it was set and no directive cancels -/
theorem runDirectives_flag (g : Eval.GEnv) (ctx : Eval.Scope) :
    ∀ (ds : List Directive) (v : Value) (esc : Bool) (st : Eval.St) (v' : Value) (esc' : Bool) (st' : Eval.St),
      Eval.runDirectives g ctx ds v esc st = some (v', esc', st') →
      esc' = (esc && ds.all fun d => match Directives.lookup g.tbl d.name with
        | some e => !e.cancel
        | none => true)
  | [], v, esc, st, v', esc', st', h => by
    simp only [Eval.runDirectives, Option.some.injEq, Prod.mk.injEq] at h
    simp [h.2.1]
  | d :: ds, v, esc, st, v', esc', st', h => by
    unfold Eval.runDirectives at h
    cases he : Directives.lookup g.tbl d.name with
    | none => simp [he] at h
    | some e =>
      simp only [he] at h
      split at h
      · cases h
      · split at h
        · cases h
        · split at h
          · cases h
          · have ih := runDirectives_flag g ctx ds _ _ _ _ _ _ h
            rw [ih]
            simp only [List.all_cons, he]
            cases e.cancel <;> cases esc <;> simp

/-- … and running `ds₁ ++ ds₂` is running `ds₁`, then `ds₂` on its result (left to right) -/
theorem runDirectives_append (g : Eval.GEnv) (ctx : Eval.Scope) :
    ∀ (ds1 ds2 : List Directive) (v : Value) (esc : Bool) (st : Eval.St),
      Eval.runDirectives g ctx (ds1 ++ ds2) v esc st =
        (Eval.runDirectives g ctx ds1 v esc st).bind fun r => Eval.runDirectives g ctx ds2 r.1 r.2.1 r.2.2
  | [], ds2, v, esc, st => by simp [Eval.runDirectives]
  | d :: ds1, ds2, v, esc, st => by
    simp only [List.cons_append]
    rw [Eval.runDirectives.eq_2, Eval.runDirectives.eq_2]
    cases Directives.lookup g.tbl d.name with
    | none => rfl
    | some e =>
      simp only
      split
      · rfl
      · split
        · rfl
        · split
          · rfl
          · exact runDirectives_append g ctx ds1 ds2 _ _ _

/-! ## non-vacuity -/

/-- an interpretation that records the applications: the value is the trace -/
def traceF : Bytes → List Expr → List Bytes → List Bytes := fun n _ x => x ++ [n]

def dTruncate : Directive := { pos := 0, name := b!"truncate", args := [.int 0 4, .bool 0 false] }
def dEscapeHtml : Directive := { pos := 0, name := b!"escapeHtml", args := [] }
def dWordBreaks : Directive := { pos := 0, name := b!"insertWordBreaks", args := [.int 0 3] }
def dNoAuto : Directive := { pos := 0, name := b!"noAutoescape", args := [] }

/-- `{$s|truncate:4,false|escapeHtml}`: truncate first (innermost), then escapeHtml; the explicit
    escapeHtml cancels the implicit one — on both sides -/
example : jsPrint traceF .on [dTruncate, dEscapeHtml] [] = some [b!"truncate", b!"escapeHtml"] := by decide
example : goPrint traceF Gen.directiveTable .on [dTruncate, dEscapeHtml] [] = some [b!"truncate", b!"escapeHtml"] := by
  decide

/-- `{$s|insertWordBreaks:3}` under autoescape: the input is escaped, the (cancelling) directive runs,
    nothing is escaped afterwards -/
example : jsPrint traceF .on [dWordBreaks] [] = some [b!"escapeHtml", b!"insertWordBreaks"] := by decide

/-- `{$s|truncate:4,false}` under autoescape: the implicit escapeHtml is applied LAST; with
    `|noAutoescape` it is not applied -/
example : jsPrint traceF .on [dTruncate] [] = some [b!"truncate", b!"escapeHtml"] := by decide
example : jsPrint traceF .on [dTruncate, dNoAuto] [] = some [b!"truncate"] := by decide

/-- the theorem is about THIS nesting: a generator that nests right to left (soyjs before 7ab1876)
    computes something else -/
example : denote traceF [] (applyDirs [dTruncate, dEscapeHtml].reverse .arg) ≠
    denote traceF [] (applyDirs [dTruncate, dEscapeHtml] .arg) := by decide

/-- … and so does one that does not escape the input of insertWordBreaks (soyjs before ff18d7d) -/
example : some (denote traceF ([] : List Bytes) (applyDirs [dWordBreaks] .arg)) ≠
    goPrint traceF Gen.directiveTable .on [dWordBreaks] [] := by decide

end SoyVerif.Props.C04b
