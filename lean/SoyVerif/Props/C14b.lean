/-
  C14 — the generated statements never READ a JavaScript variable that is not declared on every path
  to the read (partial: the command fragment of Props/C04d).

  `scoped D st` is a definite-assignment analysis of the statement AST of Spec/JsStmt, written
  against JavaScript (ECMA-262 5.1 §12.2: a `var` is visible in the whole function, but holds a
  value only after its declaration ran): going through a statement list with the set `D` of
  variables that certainly hold a value,
    * every variable an expression reads (`JsExpr.local`; `opt_data` is a parameter), every buffer
      `x += …` appends to, the list / index of `xs[i]`, the limit of `for (…; i < n; …)` must be in `D`;
    * `var x = e` adds `x` AFTER `e` was checked; a declaration inside a branch of an `if` or inside
      a loop body adds nothing for what follows the `if` / the loop (that path may not be taken).
  `no_undeclared_js_variable_partial`: for the statements the generator writes for a command list of
  the fragment (Props/C04d: `walkCmds_renders`), started with every local of the generator scope and
  the output variable declared, the analysis succeeds — and every local of the scope the generator
  ends in is declared then (so the property composes along a template body).
-/
import SoyVerif.Props.C04d

namespace SoyVerif.Props.C14b
open SoyVerif SoyVerif.Model SoyVerif.Model.JsGen SoyVerif.Spec.JsSemRef SoyVerif.Spec.JsStmt
open SoyVerif.Props.C04c (toAst accAst Globals GlobalsAre)
open SoyVerif.Props.C04d

set_option linter.unusedSectionVars false

/-! ## the analysis -/

/-- the variables an expression reads -/
def readsE : JsExpr → List Bytes
  | .null => []
  | .bool _ => []
  | .num _ => []
  | .str _ => []
  | .neg a => readsE a
  | .not a => readsE a
  | .bin _ a b => readsE a ++ readsE b
  | .cond c a b => readsE c ++ readsE a ++ readsE b
  | .nonNullElse a a' b => readsE a ++ readsE a' ++ readsE b
  | .local g => [g]
  | .optData _ => []
  | .ijData => []
  | .member x _ => readsE x
  | .index x _ => readsE x
  | .guard g r => readsE g ++ readsE r
  | .paren x => readsE x
  | .call1 _ a => readsE a
  | .call2 _ a b => readsE a ++ readsE b
  | .loopFirst idx => [idx]
  | .loopLastEach idx lim => [idx, lim]
  | .loopLastRange v step lim => [v, step, lim]

def allIn (D : List Bytes) (xs : List Bytes) : Bool := xs.all fun x => D.contains x

/-- the locals the first argument of a call reads -/
def readsBase : DataBase → List Bytes
  | .empty => []
  | .all => []
  | .expr e => readsE e

mutual
  /-- `none`: some read is not covered; `some D'`: the variables that certainly hold a value afterwards -/
  def scopedStmt (D : List Bytes) : JsStmt → Option (List Bytes)
    | .appendLit buf _ => if D.contains buf then some D else none
    | .append buf e _ => if D.contains buf && allIn D (readsE e) then some D else none
    | .var x e => if allIn D (readsE e) then some (x :: D) else none
    | .varEmpty x => some (x :: D)
    | .ifs conds => if scopedConds D conds then some D else none
    | .varLength x list => if D.contains list then some (x :: D) else none
    | .varIndex x list idx => if D.contains list && D.contains idx then some (x :: D) else none
    | .forUp i lim body =>
      -- `var i = 0` runs first; the test reads `i` and `lim`
      if D.contains lim && (scopedStmts (i :: D) body).isSome then some (i :: D) else none
    | .forStep i lim step idx init body =>
      -- `var i = init, idx = 0` runs first; the test reads `i` and `lim`, the update `i`, `step` and `idx`
      if D.contains lim && D.contains step && allIn D (readsE init) && (scopedStmts (idx :: i :: D) body).isSome
      then some (idx :: i :: D) else none
    | .switchS e cases => if allIn D (readsE e) && scopedCases D cases then some D else none
    | .ifZero idx body => if D.contains idx && (scopedStmts D body).isSome then some D else none
    | .ifPos lim body els =>
      if D.contains lim && (scopedStmts D body).isSome && (scopedStmts D els).isSome then some D else none
    | .call buf _ base params =>
      if D.contains buf && allIn D (readsBase base) && params.all (fun kv => allIn D (readsE kv.2)) then some D else none
    | .appendCss buf e => if D.contains buf && allIn D (readsE e) then some D else none
    | .debuggerS => some D
    | .pluralS e cases dflt =>
      if allIn D (readsE e) && scopedPlural D cases && (scopedStmts D dflt).isSome then some D else none
  def scopedStmts (D : List Bytes) : JsStmts → Option (List Bytes)
    | .nil => some D
    | .cons s r =>
      match scopedStmt D s with
      | none => none
      | some D1 => scopedStmts D1 r
  def scopedCases (D : List Bytes) : JsCases → Bool
    | .nil => true
    | .dflt body => (scopedStmts D body).isSome
    | .cons labels body rest =>
      labels.all (fun j => allIn D (readsE j)) && (scopedStmts D body).isSome && scopedCases D rest
  def scopedPlural (D : List Bytes) : JsPlural → Bool
    | .nil => true
    | .cons _ body rest => (scopedStmts D body).isSome && scopedPlural D rest
  def scopedConds (D : List Bytes) : JsConds → Bool
    | .nil => true
    | .els body => (scopedStmts D body).isSome
    | .cons c body rest => allIn D (readsE c) && (scopedStmts D body).isSome && scopedConds D rest
end

section Dev
variable [Globals]

/-! ## expressions read scope variables only -/

/-- every local the generator scope can hand out is declared -/
def Covers (D : List Bytes) (sc : Scope) : Prop := ∀ f ∈ sc.stack, ∀ kv ∈ f, D.contains kv.2 = true

theorem Covers.lookup {D : List Bytes} {sc : Scope} (h : Covers D sc) {k g : Bytes} (hl : sc.lookup k = some g) :
    D.contains g = true := by
  obtain ⟨f, hf, hm⟩ := lookupIn_mem sc.stack k g hl
  exact h f hf _ hm

theorem allIn_append {D a b : List Bytes} (ha : allIn D a = true) (hb : allIn D b = true) : allIn D (a ++ b) = true := by
  simp only [allIn, List.all_append, Bool.and_eq_true] at *
  exact ⟨ha, hb⟩

theorem allIn_nil (D : List Bytes) : allIn D [] = true := rfl

theorem allIn_mono {D D' xs : List Bytes} (h : allIn D xs = true) (hs : ∀ g, D.contains g = true → D'.contains g = true) :
    allIn D' xs = true := by
  simp only [allIn, List.all_eq_true] at *
  exact fun x hx => hs x (h x hx)

theorem accAst_reads (D : List Bytes) : ∀ (acc : AccessList) (x j : JsExpr), accAst acc x = some j →
    allIn D (readsE x) = true → allIn D (readsE j) = true
  | .nil, x, j, h, hx => by
    simp only [accAst, Option.some.injEq] at h; subst h; exact hx
  | .cons (.key p ns k) rest, x, j, h, hx => by
    unfold accAst at h
    split at h
    · cases h
    · cases ns with
      | false =>
        simp only [Bool.false_eq_true, if_false] at h
        exact accAst_reads D rest (.member x k) j h hx
      | true =>
        simp only [if_true] at h
        cases rest with
        | cons _ _ => cases h
        | nil =>
          simp only [Option.some.injEq] at h; subst h
          exact allIn_append hx hx
  | .cons (.index p ns i) rest, x, j, h, hx => by
    unfold accAst at h
    split at h
    · cases h
    · cases ns with
      | false =>
        simp only [Bool.false_eq_true, if_false] at h
        exact accAst_reads D rest (.index x i) j h hx
      | true =>
        simp only [if_true] at h
        cases rest with
        | cons _ _ => cases h
        | nil =>
          simp only [Option.some.injEq] at h; subst h
          exact allIn_append hx hx
  | .cons (.expr _ _ _) _, _, _, h, _ => by simp [accAst] at h

theorem loop_reads (D : List Bytes) (sc : Scope) (hc : Covers D sc) (name : Bytes) (args : ExprList) (j : JsExpr)
    (h : C04c.loopAst sc name args = some j) : allIn D (readsE j) = true := by
  cases args with
  | nil => simp [C04c.loopAst] at h
  | cons a r =>
    cases r with
    | cons _ _ => cases a <;> simp [C04c.loopAst] at h
    | nil =>
      cases a with
      | dataRef dp key acc =>
        cases acc with
        | cons _ _ => simp [C04c.loopAst] at h
        | nil =>
          simp only [C04c.loopAst] at h
          split at h
          · simp only [Option.map_eq_some_iff] at h
            obtain ⟨idx, hidx, rfl⟩ := h
            have h1 : idx ∈ D := by simpa using hc.lookup hidx
            simp [readsE, allIn, h1]
          · split at h
            · simp only [Option.map_eq_some_iff] at h
              obtain ⟨idx, hidx, rfl⟩ := h
              have h1 : idx ∈ D := by simpa using hc.lookup hidx
              simp [readsE, allIn, h1]
            · cases hf : Scope.loopFrame sc.stack key with
              | none => simp [hf] at h
              | some f =>
                have hmem := SoyVerif.Lemmas.JsGenSafe.loopFrame_mem sc.stack key f hf
                have hin : ∀ k x, frameGet? f k = some x → D.contains x = true :=
                  fun k x hk => hc f hmem _ (frameGet_mem f k x hk)
                simp only [hf, Option.bind_some, C04c.lastAst] at h
                split at h
                · rename_i step hs
                  split at h
                  · rename_i lv lim hv hl
                    simp only [Option.some.injEq] at h; subst h
                    have h1 : step ∈ D := by simpa using hin _ _ hs
                    have h2 : lv ∈ D := by simpa using hin _ _ hv
                    have h3 : lim ∈ D := by simpa using hin _ _ hl
                    simp [readsE, allIn, h1, h2, h3]
                  · cases h
                · split at h
                  · rename_i idx lim hv hl
                    simp only [Option.some.injEq] at h; subst h
                    have h2 : idx ∈ D := by simpa using hin _ _ hv
                    have h3 : lim ∈ D := by simpa using hin _ _ hl
                    simp [readsE, allIn, h2, h3]
                  · cases h
      | _ => simp [C04c.loopAst] at h

theorem toAst_reads (D : List Bytes) (sc : Scope) (hc : Covers D sc) :
    ∀ (e : Expr) (j : JsExpr), toAst sc e = some j → allIn D (readsE j) = true
  | .null _, j, h => by simp only [toAst, Option.some.injEq] at h; subst h; rfl
  | .bool _ _, j, h => by simp only [toAst, Option.some.injEq] at h; subst h; rfl
  | .int _ _, j, h => by simp only [toAst, Option.some.injEq] at h; subst h; rfl
  | .str _ _ _, j, h => by simp only [toAst, Option.some.injEq] at h; subst h; rfl
  | .float _ _, _, h => by simp [toAst] at h
  | .global _ name, j, h => by
    unfold toAst at h
    cases hg : assocGet? Globals.tbl name with
    | none => simp [hg] at h
    | some v =>
      simp only [hg] at h
      cases v <;> simp only [C04c.globalAst, Option.some.injEq, reduceCtorEq] at h <;> subst h <;> rfl
  | .list _ _, _, h => by simp [toAst] at h
  | .map _ _, _, h => by simp [toAst] at h
  | .neg _ a, j, h => by
    simp only [toAst, Option.map_eq_some_iff] at h
    obtain ⟨ja, ha, rfl⟩ := h
    exact toAst_reads D sc hc a ja ha
  | .not _ a, j, h => by
    simp only [toAst, Option.map_eq_some_iff] at h
    obtain ⟨ja, ha, rfl⟩ := h
    exact toAst_reads D sc hc a ja ha
  | .bin op _ a b, j, h => by
    unfold toAst at h
    cases ha : toAst sc a with
    | none => cases op <;> simp [ha] at h
    | some ja =>
      cases hb : toAst sc b with
      | none => cases op <;> simp [ha, hb] at h
      | some jb =>
        have ra := toAst_reads D sc hc a ja ha
        have rb := toAst_reads D sc hc b jb hb
        cases op <;> simp [ha, hb, SoyVerif.Props.C04.opOf] at h <;>
          (subst h; first | exact allIn_append (allIn_append ra ra) rb | exact allIn_append ra rb)
  | .tern _ c a b, j, h => by
    unfold toAst at h
    split at h
    · rename_i jc ja jb hc' ha hb
      simp only [Option.some.injEq] at h; subst h
      exact allIn_append (allIn_append (toAst_reads D sc hc c jc hc') (toAst_reads D sc hc a ja ha))
        (toAst_reads D sc hc b jb hb)
    · cases h
  | .dataRef _ key acc, j, h => by
    unfold toAst at h
    split at h
    · simp only [Option.map_eq_some_iff] at h
      obtain ⟨j0, hacc, rfl⟩ := h
      have := accAst_reads D acc _ j0 hacc (show allIn D (readsE JsExpr.ijData) = true from rfl)
      split
      · exact this
      · exact this
    split at h
    · cases h
    · simp only [Option.map_eq_some_iff] at h
      obtain ⟨j0, hacc, rfl⟩ := h
      have hbase : allIn D (readsE (match sc.lookup key with
          | some g => JsExpr.local g
          | none => JsExpr.optData key)) = true := by
        cases hl : sc.lookup key with
        | none => rfl
        | some g =>
          have := hc.lookup hl
          simp only [readsE, allIn, List.all_cons, List.all_nil, Bool.and_true]
          exact this
      have := accAst_reads D acc _ j0 hacc hbase
      split
      · exact this
      · exact this
  | .func _ name args, j, h => by
    unfold toAst at h
    split at h
    · exact loop_reads D sc hc name args j h
    cases args with
    | nil => simp at h
    | cons a r =>
      cases r with
      | nil =>
        simp only at h
        split at h
        · rename_i f ja hf ha
          simp only [Option.some.injEq] at h; subst h
          exact toAst_reads D sc hc a ja ha
        · cases h
      | cons b r2 =>
        cases r2 with
        | cons _ _ => simp at h
        | nil =>
          simp only at h
          split at h
          · rename_i f ja jb hf ha hb
            simp only [Option.some.injEq] at h; subst h
            exact allIn_append (toAst_reads D sc hc a ja ha) (toAst_reads D sc hc b jb hb)
          · cases h

theorem astList_reads (D : List Bytes) (sc : Scope) (hc : Covers D sc) : ∀ (values : List Expr) (js : List JsExpr),
    astList sc values = some js → js.all (fun j => allIn D (readsE j)) = true
  | [], js, h => by simp only [astList, Option.some.injEq] at h; subst h; rfl
  | v :: r, js, h => by
    unfold astList at h
    cases hj : toAst sc v with
    | none => simp [hj] at h
    | some j =>
      cases hr : astList sc r with
      | none => simp [hj, hr] at h
      | some jr =>
        simp only [hj, hr, Option.some.injEq] at h; subst h
        simp only [List.all_cons, Bool.and_eq_true]
        exact ⟨toAst_reads D sc hc v j hj, astList_reads D sc hc r jr hr⟩

/-! ## statements -/

def Sub (D D' : List Bytes) : Prop := ∀ g, D.contains g = true → D'.contains g = true

theorem Sub.refl (D : List Bytes) : Sub D D := fun _ h => h
theorem Sub.trans {a b c : List Bytes} (h1 : Sub a b) (h2 : Sub b c) : Sub a c := fun g h => h2 g (h1 g h)
theorem Sub.cons (x : Bytes) (D : List Bytes) : Sub D (x :: D) := by
  intro g h
  simp only [List.contains_cons, Bool.or_eq_true]
  exact Or.inr h

theorem contains_head (x : Bytes) (D : List Bytes) : (x :: D).contains x = true := by simp

theorem Covers.mono {D D' : List Bytes} {sc : Scope} (h : Covers D sc) (hs : Sub D D') : Covers D' sc :=
  fun f hf kv hkv => hs _ (h f hf kv hkv)

theorem Covers.stack {D : List Bytes} {sc sc' : Scope} (h : Covers D sc) (hs : sc'.stack = sc.stack) : Covers D sc' := by
  intro f hf kv hkv
  exact h f (by rw [← hs]; exact hf) kv hkv

/-- what holds after the statements of a command / a command list -/
def After (D : List Bytes) (r : JsStmts × Scope) : Prop :=
  ∃ D', scopedStmts D r.1 = some D' ∧ Covers D' r.2 ∧ Sub D D'

theorem scopedStmts_append : ∀ (a b : JsStmts) (D : List Bytes),
    scopedStmts D (a.append b) = (scopedStmts D a).bind fun D1 => scopedStmts D1 b
  | .nil, b, D => by simp [JsStmts.append, scopedStmts]
  | .cons s r, b, D => by
    simp only [JsStmts.append, scopedStmts]
    cases scopedStmt D s with
    | none => rfl
    | some D1 => exact scopedStmts_append r b D1

theorem scopedStmts_one (D : List Bytes) (s : JsStmt) : scopedStmts D (.one s) = scopedStmt D s := by
  simp only [JsStmts.one, scopedStmts]
  cases scopedStmt D s <;> rfl

theorem covers_setTop {D : List Bytes} {sc : Scope} {g : Bytes} (h : Covers D sc) (hg : D.contains g = true) (x : Bytes)
    (n' : Nat) : Covers D ⟨Scope.setTop sc.stack x g, n'⟩ := by
  intro f hf kv hkv
  cases hst : sc.stack with
  | nil => simp [hst, Scope.setTop] at hf
  | cons f0 st =>
    simp only [hst, Scope.setTop, List.mem_cons] at hf
    rcases hf with rfl | hf
    · rcases frameSet_mem f0 x g kv hkv with rfl | hm
      · exact hg
      · exact h f0 (by simp [hst]) kv hm
    · exact h f (by simp [hst, hf]) kv hkv

theorem covers_makevar {D : List Bytes} {sc : Scope} (hs : ScOk sc) (h : Covers D sc) (x : Bytes) :
    Covers ((sc.makevar x).1 :: D) (sc.makevar x).2 :=
  covers_setTop (h.mono (Sub.cons _ D)) (contains_head _ _) x _

theorem covers_bind {D : List Bytes} {sc : Scope} {g : Bytes} (h : Covers D sc) (hg : D.contains g = true) (x : Bytes) :
    Covers D (sc.bind x g) :=
  covers_setTop h hg x _

theorem covers_pushForEach {D : List Bytes} {sc : Scope} (h : Covers D sc) (v : Bytes) :
    Covers ((sc.pushForEach v).1.1 :: (sc.pushForEach v).1.2.2.2 :: (sc.pushForEach v).1.2.2.1 :: D) (sc.pushForEach v).2 := by
  intro f hf kv hkv
  simp only [Scope.pushForEach, List.mem_cons] at hf
  rcases hf with rfl | hf
  · rcases frameSet_mem _ _ _ kv hkv with rfl | hkv
    · simp [Scope.pushForEach]
    · rcases frameSet_mem _ _ _ kv hkv with rfl | hkv
      · simp [Scope.pushForEach]
      · rcases frameSet_mem _ _ _ kv hkv with rfl | hkv
        · simp [Scope.pushForEach]
        · cases hkv
  · exact Sub.cons _ _ _ (Sub.cons _ _ _ (Sub.cons _ _ _ (h f hf kv hkv)))

theorem covers_pushForRange {D : List Bytes} {sc : Scope} (h : Covers D sc) (v : Bytes) :
    Covers ((sc.pushForRange v).1.2.2.2 :: (sc.pushForRange v).1.1 :: (sc.pushForRange v).1.2.2.1 ::
      (sc.pushForRange v).1.2.1 :: D) (sc.pushForRange v).2 := by
  intro f hf kv hkv
  simp only [Scope.pushForRange, List.mem_cons] at hf
  rcases hf with rfl | hf
  · rcases frameSet_mem _ _ _ kv hkv with rfl | hkv
    · simp [Scope.pushForRange]
    · rcases frameSet_mem _ _ _ kv hkv with rfl | hkv
      · simp [Scope.pushForRange]
      · rcases frameSet_mem _ _ _ kv hkv with rfl | hkv
        · simp [Scope.pushForRange]
        · rcases frameSet_mem _ _ _ kv hkv with rfl | hkv
          · simp [Scope.pushForRange]
          · rcases frameSet_mem _ _ _ kv hkv with rfl | hkv
            · simp [Scope.pushForRange]
            · cases hkv
  · exact Sub.cons _ _ _ (Sub.cons _ _ _ (Sub.cons _ _ _ (Sub.cons _ _ _ (h f hf kv hkv))))

section
variable (ae : Autoescape)

mutual
  theorem scoped_cmd : ∀ (c : Cmd) (buf : Bytes) (sc : Scope) (r : JsStmts × Scope) (D : List Bytes), toCmd ae buf c sc = some r →
      ScOk sc → Covers D sc → D.contains buf = true → After D r
    | .rawText p t, buf, sc, r, D, h, hs, hc, hb => by
      simp only [toCmd, Option.some.injEq] at h; subst h
      exact ⟨D, by simp only [scopedStmts_one, scopedStmt, hb, if_true], hc, Sub.refl D⟩
    | .print p arg dirs, buf, sc, r, D, h, hs, hc, hb => by
      unfold toCmd at h
      split at h
      · split at h
        · rename_i j ck hj _
          simp only [Option.some.injEq] at h; subst h
          exact ⟨D, by simp only [scopedStmts_one, scopedStmt, hb, toAst_reads D sc hc arg j hj, Bool.and_self, if_true], hc,
            Sub.refl D⟩
        · cases h
      · cases h
    | .letValue p x e, buf, sc, r, D, h, hs, hc, hb => by
      unfold toCmd at h
      split at h
      · cases h
      · split at h
        · rename_i j hj
          simp only [Option.some.injEq] at h; subst h
          exact ⟨_, by simp [scopedStmts_one, scopedStmt, toAst_reads D sc hc e j hj], covers_makevar hs hc x, Sub.cons _ _⟩
        · cases h
    | .ifc p conds, buf, sc, r, D, h, hs, hc, hb => by
      unfold toCmd at h
      split at h
      · rename_i rc hrc
        simp only [Option.some.injEq] at h; subst h
        have := scoped_conds conds buf sc rc D hrc hs hc hb
        obtain ⟨h1, _⟩ := toConds_scope ae conds buf sc rc hrc hs
        exact ⟨D, by simp [scopedStmts_one, scopedStmt, this], hc.stack h1, Sub.refl D⟩
      · cases h
    | .forc p v list body none, buf, sc, r, D, h, hs, hc, hb => by
      unfold toCmd at h
      rcases loopJoin_some h with h | h
      case inr =>
        obtain ⟨hv, _, args, l, c, jl, ji, rbv, pc, _, _, _, _, hjl, hji, hrb, rfl⟩ := rangeJoin_some h
        obtain ⟨p1, p2, _⟩ := scOk_pushForRange hs v hv
        obtain ⟨_, b2, _⟩ := toBody_scope ae body buf _ rbv hrb p1
        have hst : rbv.2.pop.stack = sc.stack := by simp only [Scope.pop]; rw [b2, p2]
        have hc2 := covers_pushForRange hc v
        obtain ⟨D4, h4, _, _⟩ := scoped_body body buf _ rbv _ hrb p1 hc2
          (Sub.cons _ _ _ (Sub.cons _ _ _ (Sub.cons _ _ _ (Sub.cons _ _ _ hb))))
        have hsub2 : Sub D ((sc.pushForRange v).1.2.2.1 :: (sc.pushForRange v).1.2.1 :: D) := (Sub.cons _ D).trans (Sub.cons _ _)
        have hsub : Sub D ((sc.pushForRange v).1.2.2.2 :: (sc.pushForRange v).1.1 :: (sc.pushForRange v).1.2.2.1 ::
            (sc.pushForRange v).1.2.1 :: D) := (hsub2.trans (Sub.cons _ _)).trans (Sub.cons _ _)
        refine ⟨_, ?_, (hc.mono hsub).stack hst, hsub⟩
        have r1 := toAst_reads D sc hc l jl hjl
        have r2 := allIn_mono (toAst_reads D sc hc _ ji hji) hsub2
        simp [rangeStmts, JsStmts.one, scopedStmts, scopedStmt, r1, r2, h4, readsE, allIn_nil]
      obtain ⟨hv, _, j, rbv, hj, hrb, he⟩ := forcJoin_some h
      simp only at he
      subst he
      obtain ⟨p1, p2, _⟩ := scOk_pushForEach hs v hv
      obtain ⟨_, b2, _⟩ := toBody_scope ae body buf _ rbv hrb p1
      have hst : rbv.2.pop.stack = sc.stack := by simp only [Scope.pop]; rw [b2, p2]
      -- inside the loop
      have hsub : Sub D ((sc.pushForEach v).1.2.2.1 :: (sc.pushForEach v).1.2.1 :: D) :=
        (Sub.cons _ D).trans (Sub.cons _ _)
      have hc3 := covers_pushForEach (hc.mono (Sub.cons (sc.pushForEach v).1.2.1 D)) v
      obtain ⟨D4, h4, _, _⟩ := scoped_body body buf _ rbv _ hrb p1 hc3
        (Sub.cons _ _ _ (Sub.cons _ _ _ (Sub.cons _ _ _ (Sub.cons _ _ _ hb))))
      refine ⟨(sc.pushForEach v).1.2.2.2 :: (sc.pushForEach v).1.2.2.1 :: (sc.pushForEach v).1.2.1 :: D, ?_,
        (hc.mono (hsub.trans (Sub.cons _ _))).stack hst, hsub.trans (Sub.cons _ _)⟩
      simp [foreachStmts, JsStmts.one, scopedStmts, scopedStmt, toAst_reads D sc hc list j hj, h4]
    | .forc p v list body (some ie), buf, sc, r, D, h, hs, hc, hb => by
      unfold toCmd at h
      rcases loopJoin_ie_some h with h | ⟨r0, re, hr0, hre, rfl⟩
      case inr =>
        obtain ⟨hv, _, args, l, c, jl, ji, rbv, pc, _, _, _, _, hjl, hji, hrb, rfl⟩ := rangeJoin_some hr0
        obtain ⟨p1, p2, p3⟩ := scOk_pushForRange hs v hv
        obtain ⟨_, b2, b3⟩ := toBody_scope ae body buf _ rbv hrb p1
        have hst : rbv.2.pop.stack = sc.stack := by simp only [Scope.pop]; rw [b2, p2]
        have hn : sc.n ≤ rbv.2.pop.n := by simp only [Scope.pop]; omega
        have hs' : ScOk rbv.2.pop := scOk_of_stack hs hst hn
        obtain ⟨c1, _⟩ := toBlock_scope ae ie buf _ re hre hs'
        have hc2 := covers_pushForRange hc v
        obtain ⟨D4, h4, _, _⟩ := scoped_body body buf _ rbv _ hrb p1 hc2
          (Sub.cons _ _ _ (Sub.cons _ _ _ (Sub.cons _ _ _ (Sub.cons _ _ _ hb))))
        have hsub2 : Sub D ((sc.pushForRange v).1.2.2.1 :: (sc.pushForRange v).1.2.1 :: D) := (Sub.cons _ D).trans (Sub.cons _ _)
        have hsub : Sub D ((sc.pushForRange v).1.2.2.2 :: (sc.pushForRange v).1.1 :: (sc.pushForRange v).1.2.2.1 ::
            (sc.pushForRange v).1.2.1 :: D) := (hsub2.trans (Sub.cons _ _)).trans (Sub.cons _ _)
        obtain ⟨D5, h5, _⟩ := scoped_block ie buf _ re _ hre hs' ((hc.mono hsub).stack hst) (hsub _ hb)
        refine ⟨_, ?_, (hc.mono hsub).stack (c1.trans hst), hsub⟩
        have r1 := toAst_reads D sc hc l jl hjl
        have r2 := allIn_mono (toAst_reads D sc hc _ ji hji) hsub2
        rw [scopedStmts_append]
        simp [rangeStmts, JsStmts.one, scopedStmts, scopedStmt, r1, r2, h4, h5, readsE, allIn_nil]
      obtain ⟨hv, _, j, rbv, hj, hrb, he⟩ := forcJoin_some h
      simp only at he
      obtain ⟨re, hre, rfl⟩ := he
      obtain ⟨p1, p2, p3⟩ := scOk_pushForEach hs v hv
      obtain ⟨_, b2, b3⟩ := toBody_scope ae body buf _ rbv hrb p1
      have hst : rbv.2.pop.stack = sc.stack := by simp only [Scope.pop]; rw [b2, p2]
      have hn : sc.n ≤ rbv.2.pop.n := by simp only [Scope.pop]; omega
      have hs' : ScOk rbv.2.pop := scOk_of_stack hs hst hn
      obtain ⟨c1, _⟩ := toBlock_scope ae ie buf _ re hre hs'
      have hsub : Sub D ((sc.pushForEach v).1.2.2.1 :: (sc.pushForEach v).1.2.1 :: D) :=
        (Sub.cons _ D).trans (Sub.cons _ _)
      have hc3 := covers_pushForEach (hc.mono (Sub.cons (sc.pushForEach v).1.2.1 D)) v
      obtain ⟨D4, h4, _, _⟩ := scoped_body body buf _ rbv _ hrb p1 hc3
        (Sub.cons _ _ _ (Sub.cons _ _ _ (Sub.cons _ _ _ (Sub.cons _ _ _ hb))))
      obtain ⟨D5, h5, _⟩ := scoped_block ie buf _ re _ hre hs' ((hc.mono hsub).stack hst) (hsub _ hb)
      refine ⟨(sc.pushForEach v).1.2.2.1 :: (sc.pushForEach v).1.2.1 :: D, ?_, (hc.mono hsub).stack (c1.trans hst), hsub⟩
      simp [foreachStmts, JsStmts.one, scopedStmts, scopedStmt, toAst_reads D sc hc list j hj, h4, h5]
    | .msg p id m d bp body, buf, sc, r, D, h, hs, hc, hb => by
      unfold toCmd at h
      obtain ⟨rb, hrb, rfl⟩ := msgJoin_some h
      have hc' : Covers D sc.push := by
        intro f hf kv hkv
        simp only [Scope.push, List.mem_cons] at hf
        rcases hf with rfl | hf
        · cases hkv
        · exact hc f hf kv hkv
      obtain ⟨D', a1, a2, a3⟩ := scoped_parts body buf sc.push rb D hrb (scOk_push hs.2) hc' hb
      refine ⟨D', a1, ?_, a3⟩
      intro f hf kv hkv
      exact a2 f (List.mem_of_mem_tail hf) kv hkv
    | .css p none suffix, buf, sc, r, D, h, hs, hc, hb => by
      simp only [toCmd, Option.some.injEq] at h; subst h
      exact ⟨D, by simp only [scopedStmts_one, scopedStmt, hb, if_true], hc, Sub.refl D⟩
    | .css p (some e) suffix, buf, sc, r, D, h, hs, hc, hb => by
      simp only [toCmd] at h
      split at h
      · rename_i j hj
        simp only [Option.some.injEq] at h; subst h
        have hb' : buf ∈ D := by simpa using hb
        exact ⟨D, by simp [scopedStmts, JsStmts.one, scopedStmt, hb', toAst_reads D sc hc e j hj], hc, Sub.refl D⟩
      · cases h
    | .debugger p, buf, sc, r, D, h, hs, hc, hb => by
      simp only [toCmd, Option.some.injEq] at h; subst h
      exact ⟨D, by simp only [scopedStmts_one, scopedStmt], hc, Sub.refl D⟩
    | .log .., _, _, _, _, h, _, _, _ => by simp [toCmd] at h
    | .switch p value cases, buf, sc, r, D, h, hs, hc, hb => by
      unfold toCmd at h
      split at h
      · rename_i j rc hj hrc
        simp only [Option.some.injEq] at h; subst h
        have := scoped_cases cases buf sc rc D hrc hs hc hb
        obtain ⟨h1, _⟩ := toCases_scope ae cases buf sc rc hrc hs
        exact ⟨D, by simp [scopedStmts_one, scopedStmt, this, toAst_reads D sc hc value j hj], hc.stack h1, Sub.refl D⟩
      · cases h
    | .call p name allData data params, buf, sc, r, D, h, hs, hc, hb => by
      unfold toCmd at h
      obtain ⟨base, rp, hbase, hrp, rfl⟩ := callJoin_some h
      obtain ⟨a1, _⟩ := toParams_scope ae params sc rp hrp hs
      obtain ⟨D', h1, hsub, hall⟩ := scoped_params params sc rp D hrp hs hc
      have hbase' : allIn D' (readsBase base) = true := by
        cases allData <;> cases data <;>
          simp only [callBase, Option.some.injEq, Option.map_eq_some_iff, reduceCtorEq] at hbase
        · subst hbase; rfl
        · obtain ⟨j, hj, rfl⟩ := hbase
          exact allIn_mono (toAst_reads D sc hc _ j hj) hsub
        · subst hbase; rfl
      refine ⟨D', ?_, (hc.mono hsub).stack a1, hsub⟩
      rw [scopedStmts_append, h1]
      simp only [Option.bind, scopedStmts_one, scopedStmt, hsub _ hb, hbase', hall, Bool.and_self, if_true]
    | .letContent p name body, buf, sc, r, D, h, hs, hc, hb => by
      unfold toCmd at h
      obtain ⟨hname, rbv, hrb, rfl⟩ := letJoin_some h
      have hs' : ScOk (sc.genname name).2 := scOk_of_stack hs rfl (Nat.le_succ _)
      obtain ⟨a1, a2⟩ := toBlock_scope ae body _ _ rbv hrb hs'
      have hc' : Covers ((sc.genname name).1 :: D) (sc.genname name).2 := (hc.mono (Sub.cons _ D)).stack rfl
      obtain ⟨D1, h1, hsub⟩ := scoped_block body _ _ rbv _ hrb hs' hc' (contains_head _ _)
      refine ⟨D1, by simp [scopedStmts, scopedStmt, h1], ?_, (Sub.cons _ D).trans hsub⟩
      have hcr : Covers D1 rbv.2 := ((hc.mono (Sub.cons _ D)).mono hsub).stack a1
      exact covers_bind hcr (hsub _ (contains_head _ _)) name
    | .headerParam .., _, _, _, _, h, _, _, _ => by simp [toCmd] at h
    | .namespace .., _, _, _, _, h, _, _, _ => by simp [toCmd] at h
    | .template .., _, _, _, _, h, _, _, _ => by simp [toCmd] at h
    | .soyDoc .., _, _, _, _, h, _, _, _ => by simp [toCmd] at h
  theorem scoped_params : ∀ (ps : ParamList) (sc : Scope) (r : JsStmts × List (Bytes × JsExpr) × Scope) (D : List Bytes),
      toParams ae ps sc = some r → ScOk sc → Covers D sc →
      ∃ D', scopedStmts D r.1 = some D' ∧ Sub D D' ∧ r.2.1.all (fun kv => allIn D' (readsE kv.2)) = true
    | .nil, sc, r, D, h, hs, hc => by
      simp only [toParams, Option.some.injEq] at h; subst h
      exact ⟨D, by simp [scopedStmts], Sub.refl D, by simp⟩
    | .value p key e rest, sc, r, D, h, hs, hc => by
      unfold toParams at h
      obtain ⟨j, rr, hj, hrr, hr⟩ := valueParamJoin_some h rfl
      simp only [Option.some.injEq] at hr; subst hr
      obtain ⟨D', h1, hsub, hall⟩ := scoped_params rest sc rr D hrr hs hc
      refine ⟨D', h1, hsub, ?_⟩
      simp only [List.all_cons, Bool.and_eq_true]
      exact ⟨allIn_mono (toAst_reads D sc hc e j hj) hsub, hall⟩
    | .content p key body rest, sc, r, D, h, hs, hc => by
      unfold toParams at h
      obtain ⟨rb, rr, hrb, hrr, rfl⟩ := contentParamJoin_some h
      have hs' : ScOk (sc.genname b!"param").2 := scOk_of_stack hs rfl (Nat.le_succ _)
      obtain ⟨a1, a2⟩ := toBlock_scope ae body _ _ rb hrb hs'
      have hc' : Covers ((sc.genname b!"param").1 :: D) (sc.genname b!"param").2 := (hc.mono (Sub.cons _ D)).stack rfl
      obtain ⟨D1, h1, hsub1⟩ := scoped_block body _ _ rb _ hrb hs' hc' (contains_head _ _)
      have hcr : Covers D1 rb.2 := ((hc.mono (Sub.cons _ D)).mono hsub1).stack a1
      obtain ⟨D2, h2, hsub2, hall⟩ := scoped_params rest rb.2 rr D1 hrr (scOk_of_stack hs' a1 a2) hcr
      refine ⟨D2, ?_, ((Sub.cons _ D).trans hsub1).trans hsub2, ?_⟩
      · rw [scopedStmts_append]
        simp [scopedStmts, scopedStmt, h1, h2]
      · simp only [List.all_cons, Bool.and_eq_true]
        refine ⟨?_, hall⟩
        simp only [readsE, allIn, List.all_cons, List.all_nil, Bool.and_true]
        exact hsub2 _ (hsub1 _ (contains_head _ _))
  theorem scoped_body : ∀ (b : Block) (buf : Bytes) (sc : Scope) (r : JsStmts × Scope) (D : List Bytes), toBody ae buf b sc = some r →
      ScOk sc → Covers D sc → D.contains buf = true → After D r
    | .mk p cmds, buf, sc, r, D, h, hs, hc, hb => by
      unfold toBody at h
      exact scoped_cmds cmds buf sc r D h hs hc hb
  theorem scoped_block : ∀ (b : Block) (buf : Bytes) (sc : Scope) (r : JsStmts × Scope) (D : List Bytes), toBlock ae buf b sc = some r →
      ScOk sc → Covers D sc → D.contains buf = true → ∃ D', scopedStmts D r.1 = some D' ∧ Sub D D'
    | .mk p cmds, buf, sc, r, D, h, hs, hc, hb => by
      unfold toBlock at h
      split at h
      · rename_i rc hrc
        simp only [Option.some.injEq] at h; subst h
        have hc' : Covers D sc.push := by
          intro f hf kv hkv
          simp only [Scope.push, List.mem_cons] at hf
          rcases hf with rfl | hf
          · cases hkv
          · exact hc f hf kv hkv
        obtain ⟨D', h1, _, h3⟩ := scoped_cmds cmds buf sc.push rc D hrc (scOk_push hs.2) hc' hb
        exact ⟨D', h1, h3⟩
      · cases h
  theorem scoped_cmds : ∀ (cs : CmdList) (buf : Bytes) (sc : Scope) (r : JsStmts × Scope) (D : List Bytes), toCmds ae buf cs sc = some r →
      ScOk sc → Covers D sc → D.contains buf = true → After D r
    | .nil, buf, sc, r, D, h, hs, hc, hb => by
      simp only [toCmds, Option.some.injEq] at h; subst h
      exact ⟨D, rfl, hc, Sub.refl D⟩
    | .cons c rest, buf, sc, r, D, h, hs, hc, hb => by
      unfold toCmds at h
      split at h
      · cases h
      · rename_i r1 h1
        split at h
        · cases h
        · rename_i r2 h2
          simp only [Option.some.injEq] at h; subst h
          obtain ⟨D1, a1, a2, a3⟩ := scoped_cmd c buf sc r1 D h1 hs hc hb
          obtain ⟨s1, _, _⟩ := toCmd_scope ae c buf sc r1 h1 hs
          obtain ⟨D2, b1, b2, b3⟩ := scoped_cmds rest buf r1.2 r2 D1 h2 s1 a2 (a3 _ hb)
          exact ⟨D2, by rw [scopedStmts_append, a1]; exact b1, b2, a3.trans b3⟩
  theorem scoped_parts : ∀ (ps : MsgParts) (buf : Bytes) (sc : Scope) (r : JsStmts × Scope) (D : List Bytes), toParts ae buf ps sc = some r →
      ScOk sc → Covers D sc → D.contains buf = true → After D r
    | .nil, buf, sc, r, D, h, hs, hc, hb => by
      simp only [toParts, Option.some.injEq] at h; subst h
      exact ⟨D, rfl, hc, Sub.refl D⟩
    | .text p t rest, buf, sc, r, D, h, hs, hc, hb => by
      unfold toParts at h
      obtain ⟨a, b, ha, hb2, rfl⟩ := phJoin_some h
      simp only [Option.some.injEq] at ha; subst ha
      obtain ⟨D2, b1, b2, b3⟩ := scoped_parts rest buf sc b D hb2 hs hc hb
      refine ⟨D2, ?_, b2, b3⟩
      rw [scopedStmts_append]
      simp only [scopedStmts_one, scopedStmt, hb, if_true, Option.bind]
      exact b1
    | .ph p name body rest, buf, sc, r, D, h, hs, hc, hb => by
      unfold toParts at h
      obtain ⟨a, b, ha, hb2, rfl⟩ := phJoin_some h
      obtain ⟨D1, a1, a2, a3⟩ := scoped_ph body buf sc a D ha hs hc hb
      obtain ⟨s1, _, _⟩ := toPh_scope ae body buf sc a ha hs
      obtain ⟨D2, b1, b2, b3⟩ := scoped_parts rest buf a.2 b D1 hb2 s1 a2 (a3 _ hb)
      exact ⟨D2, by rw [scopedStmts_append, a1]; exact b1, b2, a3.trans b3⟩
    | .plural p vn value cases dp dflt rest, buf, sc, r, D, h, hs, hc, hb => by
      unfold toParts at h
      obtain ⟨j, rc, rd, rr, hj, hrc, hrd, hstd, hrr, rfl⟩ := pluralJoin_some h
      obtain ⟨c1, c2, _⟩ := toPCases_scope ae cases buf sc rc hrc hs
      obtain ⟨d1, _, _⟩ := toParts_scope ae dflt buf rc.2 rd hrd c1
      have hpc := scoped_pcases cases buf sc rc D hrc hs hc hb
      obtain ⟨Dd, k1, _, _⟩ := scoped_parts dflt buf rc.2 rd D hrd c1 (hc.stack c2) hb
      obtain ⟨D2, b1, b2, b3⟩ := scoped_parts rest buf rd.2 rr D hrr d1 (hc.stack hstd) hb
      refine ⟨D2, ?_, b2, b3⟩
      simp only [scopedStmts, scopedStmt, toAst_reads D sc hc value j hj, hpc, k1, Option.isSome_some, Bool.and_self, if_true]
      exact b1
  theorem scoped_pcases : ∀ (cs : PluralCases) (buf : Bytes) (sc : Scope) (r : JsPlural × Scope) (D : List Bytes),
      toPCases ae buf cs sc = some r → ScOk sc → Covers D sc → D.contains buf = true → scopedPlural D r.1 = true
    | .nil, buf, sc, r, D, h, hs, hc, hb => by
      simp only [toPCases, Option.some.injEq] at h; subst h
      rfl
    | .cons p v bp body rest, buf, sc, r, D, h, hs, hc, hb => by
      unfold toPCases at h
      obtain ⟨rb, rr, hrb, hst, hrr, rfl⟩ := pcaseJoin_some h
      obtain ⟨a1, _, _⟩ := toParts_scope ae body buf sc rb hrb hs
      obtain ⟨D1, k1, _, _⟩ := scoped_parts body buf sc rb D hrb hs hc hb
      have := scoped_pcases rest buf rb.2 rr D hrr a1 (hc.stack hst) hb
      simp [scopedPlural, k1, this]
  theorem scoped_ph : ∀ (b : MsgPhBody) (buf : Bytes) (sc : Scope) (r : JsStmts × Scope) (D : List Bytes), toPh ae buf b sc = some r →
      ScOk sc → Covers D sc → D.contains buf = true → After D r
    | .htmlTag p t, buf, sc, r, D, h, hs, hc, hb => by
      simp only [toPh, Option.some.injEq] at h; subst h
      exact ⟨D, by simp only [scopedStmts_one, scopedStmt, hb, if_true], hc, Sub.refl D⟩
    | .cmd c, buf, sc, r, D, h, hs, hc, hb => by
      unfold toPh at h
      exact scoped_cmd c buf sc r D h hs hc hb
  theorem scoped_cases : ∀ (cs : CaseList) (buf : Bytes) (sc : Scope) (r : JsCases × Scope) (D : List Bytes), toCases ae buf cs sc = some r →
      ScOk sc → Covers D sc → D.contains buf = true → scopedCases D r.1 = true
    | .nil, buf, sc, r, D, h, hs, hc, hb => by
      simp only [toCases, Option.some.injEq] at h; subst h
      rfl
    | .cons p values body rest, buf, sc, r, D, h, hs, hc, hb => by
      unfold toCases at h
      obtain ⟨rbv, hrb, hcj⟩ := caseJoin_some h
      obtain ⟨D1, a1, _⟩ := scoped_block body buf sc rbv D hrb hs hc hb
      obtain ⟨e1, e2⟩ := toBlock_scope ae body buf sc rbv hrb hs
      rcases hcj with ⟨_, _, rfl⟩ | ⟨_, js, rr, hjs, hrr, rfl⟩
      · simp [scopedCases, a1]
      · have := scoped_cases rest buf rbv.2 rr D hrr (scOk_of_stack hs e1 e2) (hc.stack e1) hb
        simp [scopedCases, a1, this, astList_reads D sc hc values js hjs]
  theorem scoped_conds : ∀ (cs : CondList) (buf : Bytes) (sc : Scope) (r : JsConds × Scope) (D : List Bytes), toConds ae buf cs sc = some r →
      ScOk sc → Covers D sc → D.contains buf = true → scopedConds D r.1 = true
    | .nil, buf, sc, r, D, h, hs, hc, hb => by
      simp only [toConds, Option.some.injEq] at h; subst h
      rfl
    | .cons p (some c) body rest, buf, sc, r, D, h, hs, hc, hb => by
      unfold toConds at h
      simp only at h
      split at h
      · rename_i j rb hj hbk
        split at h
        · rename_i rr hr
          simp only [Option.some.injEq] at h; subst h
          obtain ⟨D1, a1, _⟩ := scoped_block body buf sc rb D hbk hs hc hb
          obtain ⟨e1, e2⟩ := toBlock_scope ae body buf sc rb hbk hs
          have := scoped_conds rest buf rb.2 rr D hr (scOk_of_stack hs e1 e2) (hc.stack e1) hb
          simp [scopedConds, toAst_reads D sc hc c j hj, a1, this]
        · cases h
      · cases h
    | .cons p none body rest, buf, sc, r, D, h, hs, hc, hb => by
      unfold toConds at h
      simp only at h
      split at h
      · rename_i rb hbk
        simp only [Option.some.injEq] at h; subst h
        obtain ⟨D1, a1, _⟩ := scoped_block body buf sc rb D hbk hs hc hb
        simp [scopedConds, a1]
      · cases h
end

end

/-- PARTIAL (C14, fragment of Props/C04d): the statements the generator writes for a template body of
    the fragment (`walkCmds_renders`: it writes exactly `renderStmts` of `toCmds`), entered in a fresh
    frame with the output variable declared, never read a variable that is not declared on every path
    to the read. -/
theorem no_undeclared_js_variable_partial (ae : Autoescape) (body : CmdList) (n : Nat) (r : JsStmts × Scope)
    (h : toCmds ae b!"output" body ⟨[[]], n⟩ = some r) : (scopedStmts [b!"output"] r.1).isSome = true := by
  have hs : ScOk ⟨[[]], n⟩ := by
    refine ⟨by simp, ?_⟩
    intro f hf kv hkv
    simp only [List.mem_singleton] at hf
    subst hf
    cases hkv
  have hc : Covers [b!"output"] ⟨[[]], n⟩ := by
    intro f hf kv hkv
    simp only [List.mem_singleton] at hf
    subst hf
    cases hkv
  obtain ⟨D', h1, _, _⟩ := scoped_cmds ae body b!"output" _ r _ h hs hc (by simp)
  simp [h1]

end Dev

/-! ## non-vacuity -/

section Examples
local instance : Globals := exGlobals

example : ((toCmds .on b!"output" sampleCmds ⟨[[]], 0⟩).bind fun r => scopedStmts [b!"output"] r.1) =
    some [b!"x$1", b!"output"] := rfl

example : ((toCmds .off b!"output" sampleLoop ⟨[[]], 0⟩).bind fun r => scopedStmts [b!"output"] r.1) =
    some [b!"x$Limit1", b!"x$List1", b!"output"] := rfl

/-- the analysis has teeth: reading the inner `{let}` of a branch after the `{if}` is rejected … -/
example : scopedStmts [b!"output"]
    (.cons (.ifs (.cons (.bool true) (.cons (.var b!"x$1" (.num 1)) .nil) .nil))
      (.cons (.append b!"output" (.local b!"x$1") []) .nil)) = none := rfl

/-- … and so is appending to a buffer that was never declared -/
example : scopedStmts [] (.cons (.appendLit b!"output" b!"a") .nil) = none := rfl

end Examples

end SoyVerif.Props.C14b
