/-
  C07 — the checker accepts exactly the bundles satisfying the data-reference rules.

  `Spec.Valid` (Spec/Valid.lean) states the rules R1–R6 declaratively, with lexical
  environments and an existential notion of "used".  `Check.check` (Model/Check.lean) is the
  model of parsepasses.CheckDataRefs, tied to the code by the C07 correspondence.

    check_sound     : check reg = true → Valid reg
    check_complete  : Valid reg → check reg = true

  Route: `framed_block` (Lemmas/CheckWalk.lean) characterises the state-passing walk over a
  template body by the pure data of the specification (well-scopedness + the list of resolved
  free reference occurrences); `checkOne` then only has to look at the params.
-/
import SoyVerif.Lemmas.CheckWalk

namespace SoyVerif.Props.C07
open SoyVerif SoyVerif.Model SoyVerif.Model.Check SoyVerif.Spec SoyVerif.Lemmas.Check

/-- one template: the checker's verdict is the specification's -/
theorem checkOne_iff_validTemplate (reg : List Check.Template) (t : Check.Template) :
    checkOne reg t = true ↔ ValidTemplate reg t := by
  have hF := (framed_block (reg := reg) (params := t.params.map (·.name)) t.body).inScope
    { vars := [], usedKeys := [] }
  simp only [envOf, List.map_nil] at hF
  unfold checkOne ValidTemplate ParamUsed
  simp only [exec] at hF
  cases hrun : (inScope (checkBlock reg (t.params.map (·.name)) t.body)).run { vars := [], usedKeys := [] } with
  | none =>
    simp only [hrun, Option.map_none, reduceCtorEq, false_iff] at hF
    have hno : ¬ OkBlock reg (t.params.map (·.name)) [] t.body := by
      intro hok
      exact hF _ ⟨hok, rfl⟩
    simp only [hrun, hno, false_and, reduceCtorEq]
  | some r =>
    obtain ⟨u, st⟩ := r
    have h := (hF st).mp (by simp [hrun])
    obtain ⟨hok, hst⟩ := h
    subst hst
    simp only [hrun, hok, true_and, List.all_eq_true, after, List.nil_append, List.contains_iff_mem, mem_keysOf]

/-- the checker decides the data-reference rules -/
theorem check_iff_valid (reg : List Check.Template) : check reg = true ↔ Valid reg := by
  simp only [check, Valid, List.all_eq_true, checkOne_iff_validTemplate]

/-- a bundle the checker accepts satisfies every rule R1–R6 -/
theorem check_sound (reg : List Check.Template) : check reg = true → Valid reg :=
  (check_iff_valid reg).mp

/-- a bundle satisfying the rules R1–R6 is accepted -/
theorem check_complete (reg : List Check.Template) : Valid reg → check reg = true :=
  (check_iff_valid reg).mpr

/-- a bundle violating some rule is rejected -/
theorem check_rejects (reg : List Check.Template) : ¬ Valid reg → check reg = false := by
  intro h
  cases hc : check reg with
  | false => rfl
  | true => exact absurd (check_sound reg hc) h

end SoyVerif.Props.C07
