/-
  C07 — the checker accepts exactly the bundles satisfying the data-reference rules.

  `Spec.Valid` (Spec/Valid.lean) states the rules R1–R6 declaratively, with lexical
  environments and an existential notion of "used".  `Check.check` (Model/Check.lean) is the
  model of parsepasses.CheckDataRefs, tied to the code by the C07 correspondence.

    check_sound     : check reg = true → Valid reg
    check_complete  : Valid reg → check reg = true

  Route: `framed_block` (Lemmas/CheckWalk.lean) characterises the state-passing walk over a
  template body by the pure data of the specification (well-scopedness + the list of resolved
  free reference occurrences); `checkOne` then only has to look at the params.
-/
import SoyVerif.Lemmas.CheckWalk
import SoyVerif.Model.Registry

namespace SoyVerif.Props.C07
open SoyVerif SoyVerif.Model SoyVerif.Model.Check SoyVerif.Spec SoyVerif.Lemmas.Check

/-- one template: the checker's verdict is the specification's -/
theorem checkOne_iff_validTemplate (reg : List Check.Template) (t : Check.Template) :
    checkOne reg t = true ↔ ValidTemplate reg t := by
  have hF := (framed_block (reg := reg) (params := t.params.map (·.name)) t.body).inScope
    { vars := [], usedKeys := [] }
  simp only [envOf, List.map_nil] at hF
  unfold checkOne ValidTemplate ParamUsed
  simp only [exec] at hF
  cases hrun : (inScope (checkBlock reg (t.params.map (·.name)) t.body)).run { vars := [], usedKeys := [] } with
  | none =>
    simp only [hrun, Option.map_none, reduceCtorEq, false_iff] at hF
    have hno : ¬ OkBlock reg (t.params.map (·.name)) [] t.body := by
      intro hok
      exact hF _ ⟨hok, rfl⟩
    simp only [hrun, hno, false_and, reduceCtorEq]
  | some r =>
    obtain ⟨u, st⟩ := r
    have h := (hF st).mp (by simp [hrun])
    obtain ⟨hok, hst⟩ := h
    subst hst
    simp only [hrun, hok, true_and, List.all_eq_true, after, List.nil_append, List.contains_iff_mem, mem_keysOf]

/-- the checker decides the data-reference rules -/
theorem check_iff_valid (reg : List Check.Template) : check reg = true ↔ Valid reg := by
  simp only [check, Valid, List.all_eq_true, checkOne_iff_validTemplate]

/-- a bundle the checker accepts satisfies every rule R1–R6 and R_loopfn -/
theorem check_sound (reg : List Check.Template) : check reg = true → Valid reg :=
  (check_iff_valid reg).mp

/-- a bundle satisfying the rules R1–R6 and R_loopfn is accepted -/
theorem check_complete (reg : List Check.Template) : Valid reg → check reg = true :=
  (check_iff_valid reg).mpr

/-- R1 on its own — the safety half the renderer relies on: in an accepted bundle every reference
    occurrence `$k` is bound in ITS lexical environment (by `$ij`, a let/loop variable in scope there,
    or a declared param) -/
theorem check_sound_refs (reg : List Check.Template) (h : check reg = true) :
    ∀ t ∈ reg, AllRefsBound t := by
  intro t ht o ho
  exact okBlock_occs t.body [] ((check_sound reg h) t ht).1 o ho

/-- a bundle violating some rule is rejected -/
theorem check_rejects (reg : List Check.Template) : ¬ Valid reg → check reg = false := by
  intro h
  cases hc : check reg with
  | false => rfl
  | true => exact absurd (check_sound reg hc) h

/-- the relation `Resolves` is functional: a reference denotes at most one thing -/
theorem resolves_unique {params : List Bytes} {env : Env} {k : Bytes} {t t' : Target}
    (h : Resolves params env k t) (h' : Resolves params env k t') : t = t' := by
  have h1 := resolve_eq_some_iff.mpr h
  have h2 := resolve_eq_some_iff.mpr h'
  rw [h1] at h2
  exact Option.some.inj h2

/-- … and `Spec.resolve` computes it -/
theorem resolve_spec {params : List Bytes} {env : Env} {k : Bytes} {t : Target} :
    resolve params env k = some t ↔ Resolves params env k t := resolve_eq_some_iff

/-- a let's own value, and whatever precedes the let, never refers to it: the free reference
    occurrences of a command lie below the height of its environment -/
theorem refs_below_env (reg : List Check.Template) (params : List Bytes) (env : Env) (c : Cmd) :
    ∀ t ∈ refsCmd reg params env c, t.below env.length = true := refsCmd_below c env

/-- the remaining rule of the property ("not both soydoc and header params") is enforced one step
    earlier, when the registry is built: `Registry.Add` fails on such a template -/
theorem soydoc_and_header_params_rejected (fileName text ns : Bytes) (nsAe ae : Autoescape)
    (pos bpos dpos hpos tpos : Nat) (name hname typ : Bytes) (opt priv : Bool) (dflt : Option Expr)
    (sp : SoyDocParam) (sps : List SoyDocParam) (body : CmdList) (rest : List Cmd) (reg : Registry.Reg) :
    Registry.addTemplates fileName text ns nsAe
      (.template pos name (.mk bpos (.cons (.headerParam hpos opt hname tpos typ dflt) body)) ae priv :: rest)
      (some (.soyDoc dpos (sp :: sps))) reg = none := by
  simp [Registry.addTemplates, Registry.splitHeaderParams]

/-! ### valid_examples: the specification is satisfiable, and every rule bites

  Bundle (two templates; `$x` is shadowed by a let whose value still sees the param, a loop
  with a nested shadowing let, a `data="all"` call that passes `w` on, a `data="$x"` call that
  need not pass the required params):

    {template a}  @param x  @param? y  @param w
      {let $x: $x /}{$x}
      {foreach $i in $y}{$i}{let $x: $i /}{$x}{ifempty}…{/foreach}
      {call b data="all"}{param z: $x /}{/call}
      {call b data="$x" /}
    {template b}  @param w  @param z  @param? y
      {$w}{$z}{if $y}{$ij}{/if}
-/
namespace Examples

def ref (k : Bytes) : Expr := .dataRef 0 k .nil
def pr (e : Expr) : Cmd := .print 0 e []
def blk (cs : List Cmd) : Block := .mk 0 (CmdList.ofList cs)
def x : Bytes := [120]
def y : Bytes := [121]
def z : Bytes := [122]
def w : Bytes := [119]
def i : Bytes := [105]
def q : Bytes := [113]
def v : Bytes := [118]
def ij : Bytes := [105, 106]

def tB (extraParams : List Param := []) : Check.Template :=
  { name := [98]
    params := [⟨w, false⟩, ⟨z, false⟩, ⟨y, true⟩] ++ extraParams
    body := blk [pr (ref w), pr (ref z), .ifc 0 (.cons 0 (some (ref y)) (blk [pr (ref ij)]) .nil)] }

def bodyA : List Cmd :=
  [ .letValue 0 x (ref x),
    pr (ref x),
    .forc 0 i (ref y) (blk [pr (ref i), .letValue 0 x (ref i), pr (ref x)]) (some (blk [.rawText 0 []])),
    .call 0 [98] true none (.value 0 z (ref x) .nil),
    .call 0 [98] false (some (ref x)) .nil ]

def tA (extra : List Cmd := []) : Check.Template :=
  { name := [97]
    params := [⟨x, false⟩, ⟨y, true⟩, ⟨w, false⟩]
    body := blk (bodyA ++ extra) }

def good : List Check.Template := [tA, tB]

theorem KeysBound_iff (params : List Bytes) (env : Env) (ks : List Bytes) :
    KeysBound params env ks ↔ ∀ k ∈ ks, (resolve params env k).isSome := by
  simp [KeysBound, resolve_isSome_iff]

/-- the bundle satisfies the rules — shown from the definitions of the specification alone -/
example : Valid good := by
  simp [Valid, good, ValidTemplate, ParamUsed, tA, tB, bodyA, blk, pr, ref, CmdList.ofList, OkBlock, OkCmds, OkCmd,
    OkConds, OkParams, ExprsOk, LoopsOk, exprLoops, accessLoops, dirsLoops, optLoops,
    KeysBound_iff, exprKeys, accessKeys, dirsKeys, optKeys, decl, LetUsed, LetNameOk,
    refsCmds, refsCmd, refsBlock, refsConds, refsParams, refsKeys, resolve, lastIndex, ijName, x, y, z, w, i, ij,
    CallOk, callee, passedByAll, callKeys, Target.below]

/-- … and is accepted -/
example : check good = true := by decide +kernel

/-- the shadowing let resolves to the let, not to the param: in `{let $x: $x/}{$x}` the second
    `$x` denotes level 0, the first one the param -/
example : refsCmds good ([x, y, w]) [] (CmdList.ofList [.letValue 0 x (ref x), pr (ref x)])
    = [Target.param x, Target.var 0] := by decide +kernel

/-- R1: an undeclared name -/
example : check [tA [pr (ref q)], tB] = false := by decide +kernel
/-- R1: the loop variable after its loop -/
example : check [tA [pr (ref i)], tB] = false := by decide +kernel
/-- R1: use before the definition (the later use keeps the let used) -/
example : check [tA [pr (ref v), .letValue 0 v (.int 0 1), pr (ref v)], tB] = false := by decide +kernel
/-- R1: use after the block of the let has ended -/
example : check [tA [.ifc 0 (.cons 0 none (blk [.letValue 0 v (.int 0 1), pr (ref v)]) .nil), pr (ref v)], tB]
    = false := by decide +kernel
/-- … whereas inside the block it is fine -/
example : check [tA [.ifc 0 (.cons 0 none (blk [.letValue 0 v (.int 0 1), pr (ref v)]) .nil)], tB]
    = true := by decide +kernel
/-- R1: the loop variable in the loop's own list expression -/
example : check [tA [.forc 0 v (ref v) (blk [pr (ref v)]) none], tB] = false := by decide +kernel
/-- R1: a let in its own content -/
example : check [tA [.letContent 0 v (blk [pr (ref v)]), pr (ref v)], tB] = false := by decide +kernel
/-- R2: an unused (optional, so that no call is affected) param -/
example : check [tA, tB [⟨q, true⟩]] = false := by decide +kernel
/-- R2: a param that is only shadowed: `{let $x: 1/}{$x}` does not use the param `x` -/
example : check [{ name := [99], params := [⟨x, false⟩], body := blk [.letValue 0 x (.int 0 1), pr (ref x)] }]
    = false := by decide +kernel
/-- R3: an unused let -/
example : check [tA [.letValue 0 v (.int 0 1)], tB] = false := by decide +kernel
/-- R3: a let that is only shadowed, `{let $v: 1/}{let $v: 2/}{$v}` -/
example : check [tA [.letValue 0 v (.int 0 1), .letValue 0 v (.int 0 2), pr (ref v)], tB] = false := by
  decide +kernel
/-- R4: a let called `ij` -/
example : check [tA [.letValue 0 ij (.int 0 1), pr (ref ij)], tB] = false := by decide +kernel
/-- R5: an unknown callee -/
example : check [tA [.call 0 [100] false none .nil], tB] = false := by decide +kernel
/-- R5: a param the callee does not declare -/
example : check [tA [.call 0 [98] true none (.value 0 z (ref x) (.value 0 q (ref x) .nil))], tB] = false := by
  decide +kernel
/-- R5: a required param is missing (`w` is not passed without `data="all"`) -/
example : check [tA [.call 0 [98] false none (.value 0 z (ref x) .nil)], tB] = false := by decide +kernel
/-- R6: a `{@param}` that is not at the head of the body -/
example : check [tA [.headerParam 0 false q 0 [] none], tB] = false := by decide +kernel

/-! R_loopfn: `index` / `isFirst` / `isLast` speak about an enclosing loop (/repo e0343b6). -/

def fn (name : Bytes) (args : List Expr) : Expr := .func 0 name (ExprList.ofList args)
def isFirstN : Bytes := [105, 115, 70, 105, 114, 115, 116]
def indexN : Bytes := [105, 110, 100, 101, 120]
def isLastN : Bytes := [105, 115, 76, 97, 115, 116]
def tL (body : List Cmd) : Check.Template := { name := [99], params := [⟨x, false⟩], body := blk body }

/-- in the body of the loop, also under a let that shadows the loop variable, all three are fine -/
example : check [tL [.forc 0 i (ref x) (blk [pr (fn isFirstN [ref i]), .letValue 0 i (.int 0 1),
    pr (fn indexN [ref i]), pr (fn isLastN [ref i])]) none]] = true := by decide +kernel
/-- … and from the specification alone -/
example : ValidTemplate [] (tL [.forc 0 i (ref x) (blk [pr (fn isFirstN [ref i])]) none]) := by
  simp [ValidTemplate, ParamUsed, tL, blk, pr, ref, fn, isFirstN, CmdList.ofList, ExprList.ofList, OkBlock, OkCmds,
    OkCmd, ExprsOk, LoopsOk, LoopArgOk, exprLoops, exprsLoops, accessLoops, dirsLoops, Check.loopFn, Check.loopArg,
    KeysBound_iff, exprKeys, exprsKeys, accessKeys, dirsKeys, decl, refsCmds, refsCmd, refsBlock, refsKeys,
    resolve, lastIndex, ijName, x, i, Target.below]
/-- a param -/
example : check [tL [pr (fn isFirstN [ref x])]] = false := by decide +kernel
example : ¬ ValidTemplate [] (tL [pr (fn isFirstN [ref x])]) := by
  simp [ValidTemplate, tL, blk, pr, ref, fn, isFirstN, CmdList.ofList, ExprList.ofList, OkBlock, OkCmds,
    OkCmd, ExprsOk, LoopsOk, LoopArgOk, exprLoops, exprsLoops, accessLoops, dirsLoops, Check.loopFn, Check.loopArg]
/-- a let -/
example : check [tL [.letValue 0 v (ref x), pr (fn indexN [ref v])]] = false := by decide +kernel
/-- a let called like a loop variable, after that loop -/
example : check [tL [.forc 0 i (ref x) (blk [pr (ref i)]) none, .letValue 0 i (ref x), pr (fn indexN [ref i])]]
    = false := by decide +kernel
/-- an access on the loop variable, no argument, two arguments, a string -/
example : check [tL [.forc 0 i (ref x) (blk [pr (fn isLastN [.dataRef 0 i (.cons (.key 0 false y) .nil)])]) none]]
    = false := by decide +kernel
example : check [tL [.forc 0 i (ref x) (blk [pr (ref i), pr (fn isLastN [])]) none]] = false := by decide +kernel
example : check [tL [.forc 0 i (ref x) (blk [pr (fn isLastN [ref i, ref i])]) none]] = false := by decide +kernel
example : check [tL [.forc 0 i (ref x) (blk [pr (ref i), pr (fn isLastN [.str 0 i i])]) none]] = false := by
  decide +kernel
/-- the loop's own list expression and its `ifempty` are outside the loop -/
example : check [tL [.forc 0 i (.tern 0 (fn isFirstN [ref i]) (ref x) (ref x)) (blk [pr (ref i)]) none]] = false := by
  decide +kernel
example : check [tL [.forc 0 i (ref x) (blk [pr (ref i)]) (some (blk [pr (fn isFirstN [ref i])]))]] = false := by
  decide +kernel
/-- other functions are not concerned -/
example : check [tL [pr (fn [108, 101, 110, 103, 116, 104] [ref x])]] = true := by decide +kernel

/-! Edge cases of the rules, as the real compiler decides them (checked against /repo):
    `$ij` never denotes a variable or a param. -/

/-- a param called `ij` cannot be used by `{$ij}`: rejected as unused (R2) -/
example : check [{ name := [99], params := [⟨ij, false⟩], body := blk [pr (ref ij)] }] = false := by
  decide +kernel
/-- a LOOP variable may be called `ij` (R4 is about lets only); `{$ij}` in the body is still the injected data -/
example : check [{ name := [99], params := [⟨x, false⟩], body := blk [.forc 0 ij (ref x) (blk [pr (ref ij)]) none] }]
    = true := by decide +kernel
example : refsCmd [] [x] [] (.forc 0 ij (ref x) (blk [pr (ref ij)]) none) = [Target.param x, Target.ij] := by
  decide +kernel
/-- inside `{msg}` every child is a placeholder node of its own, so a let there has an empty scope:
    `{msg …}{let $v: 1/}{$v}{/msg}` is rejected (unused let), while a let BEFORE the msg is visible in it -/
example : check [{ name := [99], params := [], body := blk [.msg 0 0 [] [] 0
    (.ph 0 [] (.cmd (.letValue 0 v (.int 0 1))) (.ph 0 [] (.cmd (pr (ref v))) .nil))] }] = false := by
  decide +kernel
example : check [{ name := [99], params := [], body := blk [.letValue 0 v (.int 0 1), .msg 0 0 [] [] 0
    (.ph 0 [] (.cmd (pr (ref v))) .nil)] }] = true := by
  decide +kernel

/-- a rejected bundle violates the specification (by `check_complete`) -/
example : ¬ Valid [tA [.letValue 0 v (.int 0 1)], tB] :=
  fun h => absurd (check_complete _ h) (by decide +kernel)

end Examples

end SoyVerif.Props.C07
