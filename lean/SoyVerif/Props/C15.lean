/-
  C15 — Template text is normalised by the line-joining rule and nothing else.

  Property theorems (statements only + short proofs from Lemmas/).  The model
  `Model.rawtext` mirrors parse/rawtext.go including its index arithmetic and Go's
  bounds checks (`none` = panic); `Spec.joinLines` is the declarative rule.
-/
import SoyVerif.Lemmas.RawTextProps

namespace SoyVerif.Props.C15
open SoyVerif SoyVerif.Model SoyVerif.Spec

/-- FULL: for every byte string and both flags the implementation model returns
    exactly the text the line-joining rule defines (and in particular never indexes
    out of range: the result is `some`). -/
theorem rawtext_spec (s : Bytes) (tb ta : Bool) :
    rawtext s tb ta = some (joinLines s tb ta) := by
  rw [rawtext_eq_rawtextA, rawtextA_eq_joinLines]

/-- No slice / buffer index of rawtext.go is ever out of range. -/
theorem rawtext_no_panic (s : Bytes) (tb ta : Bool) : (rawtext s tb ta).isSome = true := by
  rw [rawtext_spec]; rfl

/-- Every non-whitespace byte of the text reaches the output, intact and in order
    (nothing but whitespace is ever removed or inserted). -/
theorem rawtext_keeps_nonspace (s : Bytes) (tb ta : Bool) :
    ∃ out, rawtext s tb ta = some out ∧ out.filter nonWs = s.filter nonWs := by
  refine ⟨joinLines s tb ta, rawtext_spec s tb ta, ?_⟩
  obtain ⟨hf, hc⟩ := tokenize_flat_classed s
  unfold joinLines
  rw [render_filter tb ta _ hc, hf]

/-- Whitespace without a line break is preserved exactly: text without CR/LF is
    returned unchanged when no trimming is requested. -/
theorem rawtext_no_linebreak_identity (s : Bytes) (h : hasNL s = false) :
    rawtext s false false = some s := by
  rw [rawtext_spec]
  congr 1
  obtain ⟨hf, hc⟩ := tokenize_flat_classed s
  have key : ∀ (toks : List Tok) (p : UInt8), WF toks → hasNL (flat toks) = false →
      renderRest false p toks = flat toks := by
    intro toks
    induction toks with
    | nil => intros; rfl
    | cons t ts ih =>
      intro p wf hn
      cases t with
      | chunk c =>
        have hts : WF ts := by
          cases ts with
          | nil => trivial
          | cons t2 ts2 => cases t2 <;> simp_all [WF]
        simp only [flat, hasNL_append, Bool.or_eq_false_iff] at hn
        simp [renderRest, flat, ih (lastByte c) hts hn.2]
      | ws w =>
        simp only [flat, hasNL_append, Bool.or_eq_false_iff] at hn
        cases ts with
        | nil => simp [renderRest, flat, edgeWs, hn.1]
        | cons t2 ts2 =>
          cases t2 with
          | ws w2 => simp [WF] at wf
          | chunk c =>
            have hts : WF (Tok.chunk c :: ts2) := by simp [WF] at wf; exact wf.2
            have := ih p hts hn.2
            simp only [renderRest, flat] at this ⊢
            simp [innerWs, hn.1, this]
  have keyO : ∀ (toks : List Tok), WF toks → hasNL (flat toks) = false → renderRestO false none toks = flat toks := by
    intro toks wf hn
    cases toks with
    | nil => rfl
    | cons t ts =>
      cases t with
      | chunk c =>
        have hts : WF ts := by
          cases ts with
          | nil => trivial
          | cons t2 ts2 => cases t2 <;> simp_all [WF]
        simp only [flat, hasNL_append, Bool.or_eq_false_iff] at hn
        simp [renderRestO, flat, key ts (lastByte c) hts hn.2]
      | ws w =>
        simp only [flat, hasNL_append, Bool.or_eq_false_iff] at hn
        cases ts with
        | nil => simp [renderRestO, flat, edgeWs, hn.1]
        | cons t2 ts2 =>
          cases t2 with
          | ws w2 => simp [WF] at wf
          | chunk c =>
            have hts : WF ts2 := by
              simp [WF] at wf
              cases ts2 with
              | nil => trivial
              | cons t3 ts3 => cases t3 <;> simp_all [WF]
            simp only [flat, hasNL_append, Bool.or_eq_false_iff] at hn
            simp [renderRestO, flat, hn.1, key ts2 (lastByte c) hts hn.2.2]
  unfold joinLines
  rw [render_false false _ (tokenize_wf s), keyO _ (tokenize_wf s) (by rw [hf]; exact h), hf]

/-- The result never exceeds the input (the Go code allocates exactly len(s) bytes
    for it and would otherwise write past the buffer). -/
theorem rawtext_in_bounds (s : Bytes) (tb ta : Bool) :
    ∃ out, rawtext s tb ta = some out ∧ out.length ≤ s.length := by
  refine ⟨joinLines s tb ta, rawtext_spec s tb ta, ?_⟩
  have := render_len tb ta (tokenize s)
  rw [(tokenize_flat_classed s).1] at this
  exact this

/- Non-vacuity: concrete instances (evaluated by the kernel). -/
example : rawtext [32, 97, 32, 10, 32, 32, 98, 32] false false = some [32, 97, 32, 98, 32] := by decide
example : rawtext [60, 97, 62, 10, 32, 60, 98, 62] true false = some [60, 97, 62, 60, 98, 62] := by decide
example : joinLines [97, 10, 98] false false = [97, 32, 98] := by decide
/- a NUL is an ordinary character (/repo 4eb5547): `a\x00⏎  b` is joined WITH a space, and so is `a⏎\x00b` -/
example : rawtext [97, 0, 10, 32, 32, 98] false false = some [97, 0, 32, 98] := by decide
example : rawtext [97, 10, 0, 98] false false = some [97, 32, 0, 98] := by decide
example : joinLines [97, 0, 10, 32, 32, 98] false false = [97, 0, 32, 98] := by decide

end SoyVerif.Props.C15
