/-
  C04 — Go renderer ≡ generated JavaScript: the EXPRESSION stage, partial.

  `gen_correct_expr_partial`: for closed Soy expressions built from null / boolean / integer /
  string literals with unary minus, `not`, `* % + -`, the six comparisons, `and` / `or`, `?:` and
  the conditional operator, whenever the JavaScript text the generator writes has a value under
  the semantics of the common subset (Spec/JsSem: exact integers, well-typed operands), the Soy
  specification (Spec/Eval, Appendix A of DESIGN.md) gives the corresponding value.

  What is and is not covered (hence `_partial`):
    * the link between the generator and the semantics is `walkExpr_renders`: the pieces
      `walkExpr` writes for such an expression are exactly `render` of a `JsExpr` (the shapes
      `(- a)`, `!(a)`, `((a) op (b))`, `((c) ?a:b)`, `((a) != null ? a : b)`); that these fully
      parenthesised texts parse to those trees is not proved (there is no JavaScript parser here);
    * variables, data references, function calls, floats, lists and maps, print directives and
      every command are not covered: for them the property is decided by C04exec (execution of
      every generated program in otto), not by a theorem.
-/
import SoyVerif.Spec.JsSem
import SoyVerif.Spec.Eval
import SoyVerif.Model.JsGen

namespace SoyVerif.Props.C04
open SoyVerif SoyVerif.Model SoyVerif.Model.JsGen SoyVerif.Spec.JsSem

/-! ## the fragment and its translation -/

def opOf : BinOp → Option JsOp
  | .mul => some .mul | .mod => some .mod | .add => some .add | .sub => some .sub
  | .eq => some .eq | .ne => some .ne | .lt => some .lt | .le => some .le | .gt => some .gt | .ge => some .ge
  | .and => some .and | .or => some .or
  | .div => none | .elvis => none

def toAst : Expr → Option JsExpr
  | .null _ => some .null
  | .bool _ b => some (.bool b)
  | .int _ v => some (.num v)
  | .str _ _ v => some (.str v)
  | .neg _ a => (toAst a).map .neg
  | .not _ a => (toAst a).map .not
  | .bin op _ a b =>
    match op with
    | .elvis => match toAst a, toAst b with
      | some ja, some jb => some (.nonNull ja ja jb)
      | _, _ => none
    | op => match opOf op, toAst a, toAst b with
      | some jo, some ja, some jb => some (.bin jo ja jb)
      | _, _, _ => none
  | .tern _ c a b => match toAst c, toAst a, toAst b with
    | some jc, some ja, some jb => some (.cond jc ja jb)
    | _, _, _ => none
  | _ => none

def opSym : JsOp → Bytes
  | .mul => b!"*" | .mod => b!"%" | .add => b!"+" | .sub => b!"-"
  | .eq => b!"==" | .ne => b!"!=" | .lt => b!"<" | .le => b!"<=" | .gt => b!">" | .ge => b!">="
  | .and => b!"&&" | .or => b!"||"

/-- the text of a `JsExpr`, in the generator's pieces -/
def render : JsExpr → List Piece
  | .null => [.fixed b!"null"]
  | .bool b => [.fixed (if b then b!"true" else b!"false")]
  | .num i => [.int i]
  | .str s => [.fixed b!"'", .escaped s, .fixed b!"'"]
  | .neg a => [.fixed b!"(- "] ++ render a ++ [.fixed b!")"]
  | .not a => [.fixed b!"!("] ++ render a ++ [.fixed b!")"]
  | .bin op a b => [.fixed b!"(("] ++ render a ++ [.fixed b!") ", .fixed (opSym op), .fixed b!" ("] ++ render b ++ [.fixed b!"))"]
  | .cond c a b => [.fixed b!"(("] ++ render c ++ [.fixed b!") ?"] ++ render a ++ [.fixed b!":"] ++ render b ++ [.fixed b!")"]
  | .nonNull a a' b =>
    [.fixed b!"(("] ++ render a ++ [.fixed b!") != null ? "] ++ render a' ++ [.fixed b!" : "] ++ render b ++ [.fixed b!")"]

/-! ## the generator writes `render (toAst e)` -/

/-- `m` succeeds from every state and writes exactly `ps` -/
def Runs (m : M Unit) (ps : List Piece) : Prop := ∀ s, ∃ s', m s = .ok ((), ps, s')

theorem Runs.seq {m k : M Unit} {ps qs : List Piece} (hm : Runs m ps) (hk : Runs k qs) :
    Runs (m >>= fun _ => k) (ps ++ qs) := by
  intro s
  obtain ⟨s1, h1⟩ := hm s
  obtain ⟨s2, h2⟩ := hk s1
  exact ⟨s2, by simp [Bind.bind, M.bind, h1, h2]⟩

theorem Runs.fx (t : Bytes) : Runs (fx t) [.fixed t] := fun s => ⟨s, rfl⟩
theorem Runs.emit (p : Piece) : Runs (emit p) [p] := fun s => ⟨s, rfl⟩
theorem Runs.atOther : Runs atOther [] := fun s => ⟨_, rfl⟩
theorem Runs.cast {m : M Unit} {ps qs : List Piece} (h : Runs m ps) (e : ps = qs) : Runs m qs := e ▸ h

theorem jsOp_sym : ∀ (op : BinOp) (jo : JsOp), opOf op = some jo → jsOp op = opSym jo := by
  intro op jo h
  cases op <;> simp [opOf] at h <;> subst h <;> rfl

/-- PARTIAL (generator ↔ AST): for an expression of the fragment the model of the generator
    writes, from every state and under every option, exactly the text of its translation -/
theorem walkExpr_renders (sk : List Bytes → List Bytes) (o : Options) :
    ∀ (e : Expr) (j : JsExpr), toAst e = some j → Runs (walkExpr sk o e) (render j)
  | .null _, j, h => by
    simp only [toAst, Option.some.injEq] at h; subst h
    unfold walkExpr
    exact (Runs.seq Runs.atOther (Runs.fx _)).cast (by simp [render])
  | .bool _ b, j, h => by
    simp only [toAst, Option.some.injEq] at h; subst h
    unfold walkExpr
    exact (Runs.seq Runs.atOther (Runs.fx _)).cast (by simp [render])
  | .int _ v, j, h => by
    simp only [toAst, Option.some.injEq] at h; subst h
    unfold walkExpr
    exact (Runs.seq Runs.atOther (Runs.emit _)).cast (by simp [render])
  | .str _ _ v, j, h => by
    simp only [toAst, Option.some.injEq] at h; subst h
    unfold walkExpr
    exact (Runs.seq Runs.atOther (Runs.seq (Runs.fx _) (Runs.seq (Runs.emit _) (Runs.fx _)))).cast (by simp [render])
  | .neg _ a, j, h => by
    simp only [toAst, Option.map_eq_some_iff] at h
    obtain ⟨ja, ha, rfl⟩ := h
    unfold walkExpr
    exact (Runs.seq Runs.atOther (Runs.seq (Runs.fx _) (Runs.seq (walkExpr_renders sk o a ja ha) (Runs.fx _)))).cast
      (by simp [render])
  | .not _ a, j, h => by
    simp only [toAst, Option.map_eq_some_iff] at h
    obtain ⟨ja, ha, rfl⟩ := h
    unfold walkExpr
    exact (Runs.seq Runs.atOther (Runs.seq (Runs.fx _) (Runs.seq (walkExpr_renders sk o a ja ha) (Runs.fx _)))).cast
      (by simp [render])
  | .bin op _ a b, j, h => by
    unfold toAst at h
    unfold walkExpr
    cases hja : toAst a with
    | none => cases op <;> simp [hja] at h
    | some ja =>
      cases hjb : toAst b with
      | none => cases op <;> simp [hja, hjb] at h
      | some jb =>
        have ra := walkExpr_renders sk o a ja hja
        have rb := walkExpr_renders sk o b jb hjb
        cases hop : opOf op with
        | none =>
          cases op <;> simp [opOf] at hop
          · simp [hja, hjb, opOf] at h
          · simp only [hja, hjb, Option.some.injEq] at h
            subst h
            exact (Runs.seq Runs.atOther (Runs.seq (Runs.fx _) (Runs.seq ra (Runs.seq (Runs.fx _) (Runs.seq ra
              (Runs.seq (Runs.fx _) (Runs.seq rb (Runs.fx _)))))))).cast (by simp [render])
        | some jo =>
          have hsym := jsOp_sym op jo hop
          cases op <;> simp [opOf] at hop <;> subst hop <;>
            (simp only [hja, hjb, opOf, Option.some.injEq] at h; subst h
             exact (Runs.seq Runs.atOther (Runs.seq (Runs.fx _) (Runs.seq ra (Runs.seq (Runs.fx _) (Runs.seq (Runs.fx _)
               (Runs.seq (Runs.fx _) (Runs.seq rb (Runs.fx _)))))))).cast (by simp [render, jsOp, opSym]))
  | .tern _ c a b, j, h => by
    unfold toAst at h
    cases hjc : toAst c with
    | none => simp [hjc] at h
    | some jc =>
      cases hja : toAst a with
      | none => simp [hjc, hja] at h
      | some ja =>
        cases hjb : toAst b with
        | none => simp [hjc, hja, hjb] at h
        | some jb =>
          simp only [hjc, hja, hjb, Option.some.injEq] at h
          subst h
          unfold walkExpr
          exact (Runs.seq Runs.atOther (Runs.seq (Runs.fx _) (Runs.seq (walkExpr_renders sk o c jc hjc) (Runs.seq (Runs.fx _)
            (Runs.seq (walkExpr_renders sk o a ja hja) (Runs.seq (Runs.fx _) (Runs.seq (walkExpr_renders sk o b jb hjb)
            (Runs.fx _)))))))).cast (by simp [render])
  | .float _ _, j, h => by simp [toAst] at h
  | .global _ _, j, h => by simp [toAst] at h
  | .func _ _ _, j, h => by simp [toAst] at h
  | .list _ _, j, h => by simp [toAst] at h
  | .map _ _, j, h => by simp [toAst] at h
  | .dataRef _ _ _, j, h => by simp [toAst] at h

/-! ## the two semantics agree on the fragment -/

open SoyVerif.Spec.Eval (Val Out)

/-- Soy value ↦ JavaScript value (the values of the fragment) -/
def toJs : Val → Option JVal
  | .null => some .null
  | .bool b => some (.bool b)
  | .int i => some (.num i)
  | .str s => some (.str s)
  | _ => none

theorem truthy_toBoolean : ∀ (v : Val) (jv : JVal), toJs v = some jv → Spec.Eval.truthy v = toBoolean jv := by
  intro v jv h
  cases v <;> simp [toJs] at h <;> subst h <;> simp [Spec.Eval.truthy, toBoolean]

theorem showVal_toStr : ∀ (v : Val) (jv : JVal), toJs v = some jv → Spec.Eval.showVal v = .val (toStr jv) := by
  intro v jv h
  cases v <;> simp [toJs] at h <;> subst h <;> simp [Spec.Eval.showVal, toStr, Spec.Eval.sNull, Spec.Eval.sTrue, Spec.Eval.sFalse]

theorem exact_small (i : Int) : exact i = Spec.Eval.small i := rfl

theorem exact_inI64 {i : Int} (h : exact i = true) : Spec.Eval.inI64 i = true := by
  have h' : -9007199254740992 ≤ i ∧ i ≤ 9007199254740992 := of_decide_eq_true h
  have : -9223372036854775808 ≤ i ∧ i < 9223372036854775808 := by omega
  exact decide_eq_true this

theorem numRes_val {i : Int} {jv : JVal} (h : numRes i = .val jv) : exact i = true ∧ jv = .num i := by
  unfold numRes at h
  split at h
  · rename_i he
    simp only [JOut.val.injEq] at h
    exact ⟨he, h.symm⟩
  · cases h

theorem intRes_of_exact {i : Int} (h : exact i = true) : Spec.Eval.intRes i = .val (.int i) := by
  simp [Spec.Eval.intRes, exact_inI64 h]

/-- every number the JavaScript semantics produces is exact -/
theorem eval_exact : ∀ (j : JsExpr) (i : Int), eval j = .val (.num i) → exact i = true
  | .null, i, h => by simp [eval] at h
  | .bool _, i, h => by simp [eval] at h
  | .str _, i, h => by simp [eval] at h
  | .num k, i, h => by
    unfold eval at h
    split at h
    · rename_i he
      simp only [JOut.val.injEq, JVal.num.injEq] at h
      subst h; exact he
    · cases h
  | .neg a, i, h => by
    unfold eval at h
    cases ha : eval a with
    | unspec => simp [ha, JOut.bind] at h
    | val va =>
      simp only [ha, JOut.bind] at h
      cases va <;> simp at h
      have := numRes_val h
      simp only [JVal.num.injEq] at this
      obtain ⟨he, rfl⟩ := this
      exact he
  | .not a, i, h => by
    unfold eval at h
    cases ha : eval a with
    | unspec => simp [ha, JOut.bind] at h
    | val va => simp [ha, JOut.bind] at h
  | .cond c a b, i, h => by
    unfold eval at h
    cases hc : eval c with
    | unspec => simp [hc, JOut.bind] at h
    | val vc =>
      simp only [hc, JOut.bind] at h
      split at h
      · exact eval_exact a i h
      · exact eval_exact b i h
  | .nonNull a a' b, i, h => by
    unfold eval at h
    cases ha : eval a with
    | unspec => simp [ha, JOut.bind] at h
    | val va =>
      simp only [ha, JOut.bind] at h
      split at h
      · exact eval_exact b i h
      · exact eval_exact a' i h
  | .bin op a b, i, h => by
    cases ha : eval a with
    | unspec => cases op <;> simp [eval, ha, JOut.bind] at h
    | val va =>
      cases hb : eval b with
      | unspec =>
        cases op <;> simp only [eval, ha, hb, JOut.bind] at h <;> try (cases h)
        all_goals (cases va <;> try (cases h)) 
        all_goals (rename_i bb; cases bb <;> simp at h)
      | val vb =>
        cases op <;> simp only [eval, ha, hb, JOut.bind] at h
        all_goals (cases va <;> cases vb <;> simp [binop, isStr] at h)
        all_goals first
          | (have := numRes_val h; simp only [JVal.num.injEq] at this; obtain ⟨he, rfl⟩ := this; exact he)
          | (split at h <;> first | cases h | (have := numRes_val h; simp only [JVal.num.injEq] at this; obtain ⟨he, rfl⟩ := this; exact he))
          | (rename_i bb; cases bb <;> simp at h)
          | skip

/-- the strict binary operators agree (operands: corresponding values, the numbers exact) -/
theorem binop_corr (op : BinOp) (jo : JsOp) (hop : opOf op = some jo) (hand : jo ≠ .and) (hor : jo ≠ .or)
    (v1 v2 : Val) (a b jv : JVal) (h1 : toJs v1 = some a) (h2 : toJs v2 = some b)
    (e1 : ∀ i, a = .num i → exact i = true) (e2 : ∀ i, b = .num i → exact i = true)
    (h : binop jo a b = .val jv) : ∃ v, Spec.Eval.binop op v1 v2 = .val v ∧ toJs v = some jv := by
  cases op <;> simp [opOf] at hop <;> subst hop
  -- mul
  · cases v1 <;> simp [toJs] at h1 <;> subst h1 <;> cases v2 <;> simp [toJs] at h2 <;> subst h2 <;> simp [binop] at h
    obtain ⟨he, rfl⟩ := numRes_val h
    exact ⟨.int _, by simp [Spec.Eval.binop, intRes_of_exact he], rfl⟩
  -- mod
  · cases v1 <;> simp [toJs] at h1 <;> subst h1 <;> cases v2 <;> simp [toJs] at h2 <;> subst h2 <;> simp [binop] at h
    rename_i x y
    split at h
    · cases h
    · rename_i hy
      obtain ⟨he, rfl⟩ := numRes_val h
      have : (y == 0) = false := by simpa using hy
      exact ⟨.int _, by simp [Spec.Eval.binop, this, Spec.Eval.tmod, intRes_of_exact he], rfl⟩
  -- add
  · cases v1 <;> simp [toJs] at h1 <;> subst h1 <;> cases v2 <;> simp [toJs] at h2 <;> subst h2 <;>
      simp [binop, isStr] at h
    all_goals first
      | (obtain ⟨he, rfl⟩ := numRes_val h
         exact ⟨.int _, by simp [Spec.Eval.binop, intRes_of_exact he], rfl⟩)
      | (subst h
         exact ⟨.str _, by simp [Spec.Eval.binop, Spec.Eval.isStr, Spec.Eval.showVal, Spec.Eval.Out.bind, toStr,
                          Spec.Eval.sNull, Spec.Eval.sTrue, Spec.Eval.sFalse], rfl⟩)
  -- sub
  · cases v1 <;> simp [toJs] at h1 <;> subst h1 <;> cases v2 <;> simp [toJs] at h2 <;> subst h2 <;> simp [binop] at h
    obtain ⟨he, rfl⟩ := numRes_val h
    exact ⟨.int _, by simp [Spec.Eval.binop, intRes_of_exact he], rfl⟩
  -- eq
  · cases v1 <;> simp [toJs] at h1 <;> subst h1 <;> cases v2 <;> simp [toJs] at h2 <;> subst h2 <;> simp [binop] at h
    all_goals (subst h; exact ⟨.bool _, by simp [Spec.Eval.binop, Spec.Eval.equalsV, Spec.Eval.Out.bind], rfl⟩)
  -- ne
  · cases v1 <;> simp [toJs] at h1 <;> subst h1 <;> cases v2 <;> simp [toJs] at h2 <;> subst h2 <;> simp [binop] at h
    all_goals (subst h; exact ⟨.bool _, by simp [Spec.Eval.binop, Spec.Eval.equalsV, Spec.Eval.Out.bind], rfl⟩)
  -- gt
  · cases v1 <;> simp [toJs] at h1 <;> subst h1 <;> cases v2 <;> simp [toJs] at h2 <;> subst h2 <;> simp [binop] at h
    rename_i x y
    have hx := e1 x rfl
    have hy := e2 y rfl
    subst h
    exact ⟨.bool _, by simp [Spec.Eval.binop, Spec.Eval.compareV, ← exact_small, hx, hy], rfl⟩
  -- ge
  · cases v1 <;> simp [toJs] at h1 <;> subst h1 <;> cases v2 <;> simp [toJs] at h2 <;> subst h2 <;> simp [binop] at h
    rename_i x y
    have hx := e1 x rfl
    have hy := e2 y rfl
    subst h
    exact ⟨.bool _, by simp [Spec.Eval.binop, Spec.Eval.compareV, ← exact_small, hx, hy], rfl⟩
  -- lt
  · cases v1 <;> simp [toJs] at h1 <;> subst h1 <;> cases v2 <;> simp [toJs] at h2 <;> subst h2 <;> simp [binop] at h
    rename_i x y
    have hx := e1 x rfl
    have hy := e2 y rfl
    subst h
    exact ⟨.bool _, by simp [Spec.Eval.binop, Spec.Eval.compareV, ← exact_small, hx, hy], rfl⟩
  -- le
  · cases v1 <;> simp [toJs] at h1 <;> subst h1 <;> cases v2 <;> simp [toJs] at h2 <;> subst h2 <;> simp [binop] at h
    rename_i x y
    have hx := e1 x rfl
    have hy := e2 y rfl
    subst h
    exact ⟨.bool _, by simp [Spec.Eval.binop, Spec.Eval.compareV, ← exact_small, hx, hy], rfl⟩
  -- or, and
  · exact absurd rfl hor
  · exact absurd rfl hand

theorem toJs_num {v : Val} {i : Int} (h : toJs v = some (.num i)) : v = .int i := by
  cases v <;> simp [toJs] at h
  subst h; rfl
theorem toJs_bool {v : Val} {b : Bool} (h : toJs v = some (.bool b)) : v = .bool b := by
  cases v <;> simp [toJs] at h
  subst h; rfl
theorem toJs_null {v : Val} (h : toJs v = some .null) : v = .null := by
  cases v <;> simp [toJs] at h
  rfl

/-- PARTIAL (C04, expression stage): for every closed expression of the fragment and every
    environment, if the JavaScript text the generator writes for it (`walkExpr_renders`) has the
    value `jv` under the semantics of the common subset, then the Soy specification evaluates the
    expression to a value, and that value corresponds to `jv`.
    Missing for the full `gen_correct`: variables and data references (the simulation between the
    Go scope stack and the JavaScript variables under the `makevar` renaming), functions, floats,
    collections, print directives, every command; and the parse of the emitted text. -/
theorem gen_correct_expr_partial (env : Spec.Eval.Env) :
    ∀ (e : Expr) (j : JsExpr) (jv : JVal), toAst e = some j → eval j = .val jv →
      ∃ v, Spec.Eval.eval env e = .val v ∧ toJs v = some jv
  | .null _, j, jv, h, hj => by
    simp only [toAst, Option.some.injEq] at h; subst h
    simp only [eval, JOut.val.injEq] at hj; subst hj
    exact ⟨.null, by simp [Spec.Eval.eval], rfl⟩
  | .bool _ b, j, jv, h, hj => by
    simp only [toAst, Option.some.injEq] at h; subst h
    simp only [eval, JOut.val.injEq] at hj; subst hj
    exact ⟨.bool b, by simp [Spec.Eval.eval], rfl⟩
  | .int _ v, j, jv, h, hj => by
    simp only [toAst, Option.some.injEq] at h; subst h
    unfold eval at hj
    split at hj
    · simp only [JOut.val.injEq] at hj; subst hj
      exact ⟨.int v, by simp [Spec.Eval.eval], rfl⟩
    · cases hj
  | .str _ _ v, j, jv, h, hj => by
    simp only [toAst, Option.some.injEq] at h; subst h
    simp only [eval, JOut.val.injEq] at hj; subst hj
    exact ⟨.str v, by simp [Spec.Eval.eval], rfl⟩
  | .neg _ a, j, jv, h, hj => by
    simp only [toAst, Option.map_eq_some_iff] at h
    obtain ⟨ja, ha, rfl⟩ := h
    unfold eval at hj
    cases hea : eval ja with
    | unspec => simp [hea, JOut.bind] at hj
    | val va =>
      simp only [hea, JOut.bind] at hj
      obtain ⟨v, hv, hvj⟩ := gen_correct_expr_partial env a ja va ha hea
      cases va <;> simp at hj
      obtain ⟨he, rfl⟩ := numRes_val hj
      have := toJs_num hvj
      subst this
      exact ⟨.int _, by simp [Spec.Eval.eval, hv, Spec.Eval.Out.bind, intRes_of_exact he], rfl⟩
  | .not _ a, j, jv, h, hj => by
    simp only [toAst, Option.map_eq_some_iff] at h
    obtain ⟨ja, ha, rfl⟩ := h
    unfold eval at hj
    cases hea : eval ja with
    | unspec => simp [hea, JOut.bind] at hj
    | val va =>
      simp only [hea, JOut.bind, JOut.val.injEq] at hj
      subst hj
      obtain ⟨v, hv, hvj⟩ := gen_correct_expr_partial env a ja va ha hea
      exact ⟨.bool _, by simp [Spec.Eval.eval, hv, Spec.Eval.Out.bind, truthy_toBoolean v va hvj], rfl⟩
  | .tern _ c a b, j, jv, h, hj => by
    unfold toAst at h
    cases hjc : toAst c with
    | none => simp [hjc] at h
    | some jc =>
      cases hja : toAst a with
      | none => simp [hjc, hja] at h
      | some ja =>
        cases hjb : toAst b with
        | none => simp [hjc, hja, hjb] at h
        | some jb =>
          simp only [hjc, hja, hjb, Option.some.injEq] at h
          subst h
          unfold eval at hj
          cases hec : eval jc with
          | unspec => simp [hec, JOut.bind] at hj
          | val vc =>
            simp only [hec, JOut.bind] at hj
            obtain ⟨v, hv, hvj⟩ := gen_correct_expr_partial env c jc vc hjc hec
            have ht := truthy_toBoolean v vc hvj
            split at hj
            · rename_i htb
              obtain ⟨w, hw, hwj⟩ := gen_correct_expr_partial env a ja jv hja hj
              exact ⟨w, by simp [Spec.Eval.eval, hv, Spec.Eval.Out.bind, ht, htb, hw], hwj⟩
            · rename_i htb
              obtain ⟨w, hw, hwj⟩ := gen_correct_expr_partial env b jb jv hjb hj
              exact ⟨w, by simp [Spec.Eval.eval, hv, Spec.Eval.Out.bind, ht, htb, hw], hwj⟩
  | .bin op _ a b, j, jv, h, hj => by
    unfold toAst at h
    cases hja : toAst a with
    | none => cases op <;> simp [hja] at h
    | some ja =>
      cases hjb : toAst b with
      | none => cases op <;> simp [hja, hjb] at h
      | some jb =>
        have iha := fun va => gen_correct_expr_partial env a ja va hja
        have ihb := fun vb => gen_correct_expr_partial env b jb vb hjb
        cases hop : opOf op with
        | none =>
          cases op <;> simp [opOf] at hop
          · simp [hja, hjb, opOf] at h
          · -- elvis
            simp only [hja, hjb, Option.some.injEq] at h
            subst h
            unfold eval at hj
            cases hea : eval ja with
            | unspec => simp [hea, JOut.bind] at hj
            | val va =>
              simp only [hea, JOut.bind] at hj
              obtain ⟨v, hv, hvj⟩ := iha va hea
              cases va with
              | null =>
                simp only at hj
                obtain ⟨w, hw, hwj⟩ := ihb jv hj
                have := toJs_null hvj
                subst this
                exact ⟨w, by simp [Spec.Eval.eval, hv, Spec.Eval.Out.bind, hw], hwj⟩
              | bool x =>
                simp only [hea, JOut.val.injEq] at hj
                subst hj
                have := toJs_bool hvj
                subst this
                exact ⟨.bool x, by simp [Spec.Eval.eval, hv, Spec.Eval.Out.bind], rfl⟩
              | num x =>
                simp only [hea, JOut.val.injEq] at hj
                subst hj
                have := toJs_num hvj
                subst this
                exact ⟨.int x, by simp [Spec.Eval.eval, hv, Spec.Eval.Out.bind], rfl⟩
              | str x =>
                simp only [hea, JOut.val.injEq] at hj
                subst hj
                cases v <;> simp [toJs] at hvj
                subst hvj
                exact ⟨.str _, by simp [Spec.Eval.eval, hv, Spec.Eval.Out.bind], rfl⟩
        | some jo =>
          by_cases hand : jo = .and
          · subst hand
            cases op <;> simp [opOf] at hop
            simp only [hja, hjb, opOf, Option.some.injEq] at h
            subst h
            unfold eval at hj
            cases hea : eval ja with
            | unspec => simp [hea, JOut.bind] at hj
            | val va =>
              simp only [hea, JOut.bind] at hj
              obtain ⟨v, hv, hvj⟩ := iha va hea
              have hb : ∃ x, va = .bool x := by
                cases va with
                | bool x => exact ⟨x, rfl⟩
                | null => simp at hj
                | num _ => simp at hj
                | str _ => simp at hj
              obtain ⟨x, rfl⟩ := hb
              have := toJs_bool hvj
              subst this
              cases x with
              | false =>
                simp only [JOut.val.injEq] at hj
                subst hj
                exact ⟨.bool false, by simp [Spec.Eval.eval, hv, Spec.Eval.Out.bind, Spec.Eval.truthy], rfl⟩
              | true =>
                simp only at hj
                cases heb : eval jb with
                | unspec => simp [heb, JOut.bind] at hj
                | val vb =>
                  simp only [heb, JOut.bind] at hj
                  obtain ⟨w, hw, hwj⟩ := ihb vb heb
                  cases vb <;> simp at hj
                  subst hj
                  have := toJs_bool hwj
                  subst this
                  exact ⟨.bool _, by simp [Spec.Eval.eval, hv, hw, Spec.Eval.Out.bind, Spec.Eval.truthy], rfl⟩
          · by_cases hor : jo = .or
            · subst hor
              cases op <;> simp [opOf] at hop
              simp only [hja, hjb, opOf, Option.some.injEq] at h
              subst h
              unfold eval at hj
              cases hea : eval ja with
              | unspec => simp [hea, JOut.bind] at hj
              | val va =>
                simp only [hea, JOut.bind] at hj
                obtain ⟨v, hv, hvj⟩ := iha va hea
                have hb : ∃ x, va = .bool x := by
                  cases va with
                  | bool x => exact ⟨x, rfl⟩
                  | null => simp at hj
                  | num _ => simp at hj
                  | str _ => simp at hj
                obtain ⟨x, rfl⟩ := hb
                have := toJs_bool hvj
                subst this
                cases x with
                | true =>
                  simp only [JOut.val.injEq] at hj
                  subst hj
                  exact ⟨.bool true, by simp [Spec.Eval.eval, hv, Spec.Eval.Out.bind, Spec.Eval.truthy], rfl⟩
                | false =>
                  simp only at hj
                  cases heb : eval jb with
                  | unspec => simp [heb, JOut.bind] at hj
                  | val vb =>
                    simp only [heb, JOut.bind] at hj
                    obtain ⟨w, hw, hwj⟩ := ihb vb heb
                    cases vb <;> simp at hj
                    subst hj
                    have := toJs_bool hwj
                    subst this
                    exact ⟨.bool _, by simp [Spec.Eval.eval, hv, hw, Spec.Eval.Out.bind, Spec.Eval.truthy], rfl⟩
            · -- the strict operators
              have hstrict : eval (.bin jo ja jb) = (eval ja).bind fun va => (eval jb).bind fun vb => binop jo va vb := by
                cases jo <;> first | rfl | exact absurd rfl hand | exact absurd rfl hor
              have hj' : eval (.bin jo ja jb) = .val jv := by
                cases op <;> simp [opOf] at hop <;> subst hop <;>
                  (simp only [hja, hjb, opOf, Option.some.injEq] at h; subst h; exact hj)
              rw [hstrict] at hj'
              cases hea : eval ja with
              | unspec => simp [hea, JOut.bind] at hj'
              | val va =>
                cases heb : eval jb with
                | unspec => simp [hea, heb, JOut.bind] at hj'
                | val vb =>
                  simp only [hea, heb, JOut.bind] at hj'
                  obtain ⟨v1, hv1, hvj1⟩ := iha va hea
                  obtain ⟨v2, hv2, hvj2⟩ := ihb vb heb
                  obtain ⟨v, hv, hvj⟩ := binop_corr op jo hop hand hor v1 v2 va vb jv hvj1 hvj2
                    (fun i hi => eval_exact ja i (hi ▸ hea)) (fun i hi => eval_exact jb i (hi ▸ heb)) hj'
                  refine ⟨v, ?_, hvj⟩
                  cases op <;> simp [opOf] at hop <;> subst hop <;>
                    first
                    | exact absurd rfl hand
                    | exact absurd rfl hor
                    | simp [Spec.Eval.eval, hv1, hv2, Spec.Eval.Out.bind, hv]
  | .float _ _, j, jv, h, _ => by simp [toAst] at h
  | .global _ _, j, jv, h, _ => by simp [toAst] at h
  | .func _ _ _, j, jv, h, _ => by simp [toAst] at h
  | .list _ _, j, jv, h, _ => by simp [toAst] at h
  | .map _ _, j, jv, h, _ => by simp [toAst] at h
  | .dataRef _ _ _, j, jv, h, _ => by simp [toAst] at h

/-! ## non-vacuity -/

/-- `(1 + 2) * 3 < 10 ? 'a' + 1 : null`  -/
def sampleExpr : Expr :=
  .tern 0 (.bin .lt 0 (.bin .mul 0 (.bin .add 0 (.int 0 1) (.int 0 2)) (.int 0 3)) (.int 0 10))
    (.bin .add 0 (.str 0 [] [97]) (.int 0 1)) (.null 0)

example : ∃ j, toAst sampleExpr = some j ∧ eval j = .val (.str [97, 49]) := ⟨_, rfl, by decide⟩

/-- the fragment's guard is real: 2^53 + 1 is not exact, the semantics does not speak -/
example : eval (.bin .add (.num 9007199254740992) (.num 1)) = .unspec := by decide
/-- … and neither for a mixed-type comparison -/
example : eval (.bin .eq (.num 1) (.str [49])) = .unspec := by decide

end SoyVerif.Props.C04
