/-
  C14c — the text the JavaScript generator writes PARSES, by the ECMA-262 reading of Spec/JsParse, to exactly the AST
  whose semantics Props/C04c–f are about.

  Props/C04c–f prove that the generator model writes `render j` / `renderStmts ss` / `renderFunc f` of an AST, and
  reason about the semantics of that AST (Spec/JsSemRef, Spec/JsStmt); that a JavaScript engine READS the text as that
  AST was trusted.  Here:

    jsparse_render_expr   jsParseExpr (print (render e)) = some e        for every `e` with `Img e`

  `Img` (explicit, below) is the set of `JsExpr` on which the concrete syntax next to the constructors of
  Spec/JsSemRef is unambiguous and means, by the precedence rules of the grammar, the tree the constructor stands for:
  identifiers are ASCII IdentifierNames that are not reserved words, strings are well-formed UTF-8, an operand
  written without parentheses stands at a level of the grammar at which it is read back as that operand.
  `toAst_img`: the translation `toAst` of Props/C04c lands in `Img` for every source expression whose names are such
  identifiers — EXCEPT for the shapes listed at `Img`, on which the text is NOT read as the AST says (each with
  its example; the semantics of Spec/JsSemRef is `unspec` on all of them, so no theorem of C04 is wrong there).

  The proof has three independent parts:  the tokens of the text are the tokens of the syntax tree `plain e`
  (`lex_render`);  the parser reads the tokens of a well-levelled tree as that tree (Lemmas/JsParseExpr
  `parseExpr_tk`, a property of the grammar alone) and `plain e` is well-levelled (`plain_wf`);  the reading of
  `plain e` as a `JsExpr` is `e` (`read_plain`).
-/
import SoyVerif.Lemmas.JsParseExpr
import SoyVerif.Lemmas.JsParseLex
import SoyVerif.Props.C04c

namespace SoyVerif.Props.C14c
open SoyVerif SoyVerif.Spec SoyVerif.Spec.JsParse
open SoyVerif.Spec.JsSemRef (JsExpr Fn1 Fn2)
open SoyVerif.Spec.JsSem (JsOp)
open SoyVerif.Model.JsGen (Piece printPieces)
open SoyVerif.Props.C04c (render)
open SoyVerif.Lemmas.JsParseExpr SoyVerif.Lemmas.JsParseLex

/-! ## the syntax tree of a `JsExpr` -/

def binOf : JsOp → BinOp
  | .mul => .mul | .mod => .mod | .add => .add | .sub => .sub
  | .eq => .eq | .ne => .ne | .lt => .lt | .le => .le | .gt => .gt | .ge => .ge
  | .and => .and | .or => .or

/-- an integer literal: `-5` is the unary minus of `5` -/
def pnum (i : Int) : PE := if i < 0 then .unary .neg (.num i.natAbs) else .num i.natAbs

def plain : JsExpr → PE
  | .null => .null
  | .bool b => .bool b
  | .num i => pnum i
  | .str s => .str s
  | .neg a => .paren (.unary .neg (plain a))
  | .not a => .unary .not (.paren (plain a))
  | .bin op a b => .paren (.bin (binOf op) (.paren (plain a)) (.paren (plain b)))
  | .cond c a b => .paren (.cond (.paren (plain c)) (plain a) (plain b))
  | .nonNullElse a a' b => .paren (.cond (.bin .ne (.paren (plain a)) .null) (plain a') (plain b))
  | .local g => .ident g
  | .optData k => .member (.ident sOptData) k
  | .member x k => .member (plain x) k
  | .index x i => .index (plain x) (.num i.natAbs)
  | .guard g r => .cond (.paren (.bin .eq (plain g) .null)) .null (plain r)
  | .paren x => .paren (plain x)
  | .call1 .floor a => .call (.member (.ident sMath) b!"floor") (.cons (plain a) .nil)
  | .call1 .ceil a => .call (.member (.ident sMath) b!"ceil") (.cons (plain a) .nil)
  | .call1 .round a => .call (.member (.ident sMath) b!"round") (.cons (plain a) .nil)
  | .call1 .length a => .member (plain a) sLength
  | .call1 .nonNull a => .bin .ne (plain a) .null
  | .call2 .min a b => .call (.member (.ident sMath) b!"min") (.cons (plain a) (.cons (plain b) .nil))
  | .call2 .max a b => .call (.member (.ident sMath) b!"max") (.cons (plain a) (.cons (plain b) .nil))
  | .loopFirst idx => .paren (.bin .eq (.ident idx) (.num 0))
  | .loopLastEach idx lim => .paren (.bin .eq (.ident idx) (.bin .sub (.ident lim) (.num 1)))
  | .loopLastRange v step lim => .paren (.bin .ge (.bin .add (.ident v) (.ident step)) (.ident lim))

/-! ## the image -/

/-- a name of a JavaScript variable: an ASCII IdentifierName, no reserved word, not the parameter `opt_data` -/
def JsName (g : Bytes) : Prop := JsIdent g ∧ isReserved g = false ∧ g ≠ sOptData

/-- the level of the grammar the text of an expression stands at: 0 a MemberExpression / CallExpression that may be
    followed by `.name`; 1 a UnaryExpression (a number — `5.length` is no JavaScript —, `-5`, `!(a)`); 2 an
    EqualityExpression (`a!= null`); 3 a ConditionalExpression (`(g == null) ? null : r`) -/
def lv : JsExpr → Nat
  | .num _ => 1
  | .not _ => 1
  | .call1 .nonNull _ => 2
  | .guard _ _ => 3
  | _ => 0

def isNegNum : JsExpr → Bool
  | .num i => decide (i < 0)
  | _ => false

/-- the `JsExpr` whose text (the concrete syntax of Spec/JsSemRef) the grammar reads as that `JsExpr`.  What is
    excluded, and what JavaScript reads instead:
    * `neg a` with `a` = `x!= null` or a bare `(g == null) ? null : r`:  `(- x!= null)` is `(-x) != null`
    * `member x k`, `index x i`, `call1 .length x` with `x` a number, `!(a)`, `a!= null` or a bare conditional:
      `5.length` is a lexical error, `!(a).length` is `!((a).length)`, `a!= null.length` is `a != (null.length)`
    * `call1 .nonNull a` and the `g` of `guard g r` with `a`, `g` = `x!= null` or a bare conditional
    * `member x "length"`: its text is that of `call1 .length x`, and is read as the latter (the two have the same
      meaning wherever both are defined)
    * `index x i` with `i < 0` (`toAst` never makes one), `paren` of a negative number (the text of `neg`)
    * identifiers outside ASCII, reserved words as variable names, the variable name `opt_data`, strings that are
      not well-formed UTF-8 (the escaper writes U+FFFD for the bad bytes) -/
def Img : JsExpr → Prop
  | .null => True
  | .bool _ => True
  | .num _ => True
  | .str s => ValidUtf8 s
  | .neg a => Img a ∧ lv a ≤ 1
  | .not a => Img a
  | .bin _ a b => Img a ∧ Img b
  | .cond c a b => Img c ∧ Img a ∧ Img b
  | .nonNullElse a a' b => Img a ∧ Img a' ∧ Img b
  | .local g => JsName g
  | .optData k => JsIdent k
  | .member x k => Img x ∧ lv x = 0 ∧ JsIdent k ∧ k ≠ sLength
  | .index x i => Img x ∧ lv x = 0 ∧ 0 ≤ i
  | .guard g r => Img g ∧ lv g ≤ 1 ∧ Img r
  | .paren x => Img x ∧ isNegNum x = false
  | .call1 .length a => Img a ∧ lv a = 0
  | .call1 .nonNull a => Img a ∧ lv a ≤ 1
  | .call1 _ a => Img a
  | .call2 _ a b => Img a ∧ Img b
  | .loopFirst idx => JsName idx
  | .loopLastEach idx lim => JsName idx ∧ JsName lim
  | .loopLastRange v step lim => JsName v ∧ JsName step ∧ JsName lim

/-! ## 1. the tree is well-levelled -/

theorem lvl_pnum (i : Int) : PE.lvl (pnum i) ≤ 1 := by
  unfold pnum; split <;> simp [PE.lvl]

theorem wf_pnum (i : Int) : Wf (pnum i) := by
  unfold pnum; split <;> simp [Wf, PE.lvl]

theorem lvl_plain0 : ∀ e : JsExpr, lv e = 0 → PE.lvl (plain e) = 0
  | .null, _ => rfl
  | .bool _, _ => rfl
  | .num _, h => by simp [lv] at h
  | .str _, _ => rfl
  | .neg _, _ => rfl
  | .not _, h => by simp [lv] at h
  | .bin _ _ _, _ => rfl
  | .cond _ _ _, _ => rfl
  | .nonNullElse _ _ _, _ => rfl
  | .local _, _ => rfl
  | .optData _, _ => rfl
  | .member _ _, _ => rfl
  | .index _ _, _ => rfl
  | .guard _ _, h => by simp [lv] at h
  | .paren _, _ => rfl
  | .call1 .floor _, _ => rfl
  | .call1 .ceil _, _ => rfl
  | .call1 .round _, _ => rfl
  | .call1 .length _, _ => rfl
  | .call1 .nonNull _, h => by simp [lv] at h
  | .call2 .min _ _, _ => rfl
  | .call2 .max _ _, _ => rfl
  | .loopFirst _, _ => rfl
  | .loopLastEach _ _, _ => rfl
  | .loopLastRange _ _ _, _ => rfl

theorem lvl_plain1 (e : JsExpr) (h : lv e ≤ 1) : PE.lvl (plain e) ≤ 1 := by
  by_cases h0 : lv e = 0
  · rw [lvl_plain0 e h0]; omega
  · cases e with
    | num i => exact lvl_pnum i
    | not a => simp [plain, PE.lvl]
    | guard _ _ => simp [lv] at h
    | call1 f a => cases f <;> simp [lv] at h h0
    | _ => simp [lv] at h0

theorem plain_wf : ∀ e : JsExpr, Img e → Wf (plain e)
  | .null, _ => trivial
  | .bool _, _ => trivial
  | .num i, _ => wf_pnum i
  | .str _, _ => trivial
  | .neg a, h => by
    simp only [Img] at h
    simp only [plain, Wf]
    exact ⟨plain_wf a h.1, lvl_plain1 a h.2⟩
  | .not a, h => by
    simp only [Img] at h
    simp only [plain, Wf, PE.lvl]
    exact ⟨plain_wf a h, by omega⟩
  | .bin op a b, h => by
    simp only [Img] at h
    simp only [plain, Wf, PE.lvl]
    exact ⟨plain_wf a h.1, plain_wf b h.2, by cases op <;> simp [binOf, BinOp.lvl], by cases op <;> simp [binOf, BinOp.lvl]⟩
  | .cond c a b, h => by
    simp only [Img] at h
    simp only [plain, Wf, PE.lvl]
    exact ⟨plain_wf c h.1, by omega, plain_wf a h.2.1, plain_wf b h.2.2⟩
  | .nonNullElse a a' b, h => by
    simp only [Img] at h
    simp only [plain, Wf, PE.lvl, BinOp.lvl]
    exact ⟨⟨plain_wf a h.1, trivial, by omega, by omega⟩, by omega, plain_wf a' h.2.1, plain_wf b h.2.2⟩
  | .local g, h => by simp only [Img] at h; exact h.2.1
  | .optData k, _ => by simp only [plain, Wf, PE.lvl]; exact ⟨by decide, trivial⟩
  | .member x k, h => by
    simp only [Img] at h
    simp only [plain, Wf]
    exact ⟨plain_wf x h.1, lvl_plain0 x h.2.1⟩
  | .index x i, h => by
    simp only [Img] at h
    simp only [plain, Wf]
    exact ⟨plain_wf x h.1, lvl_plain0 x h.2.1, trivial⟩
  | .guard g r, h => by
    simp only [Img] at h
    simp only [plain, Wf, BinOp.lvl]
    have := lvl_plain1 g h.2.1
    exact ⟨⟨plain_wf g h.1, trivial, by omega, by simp [PE.lvl]⟩, by simp [PE.lvl], trivial, plain_wf r h.2.2⟩
  | .paren x, h => by simp only [Img] at h; exact plain_wf x h.1
  | .call1 .floor a, h => by
    simp only [Img] at h
    simp only [plain, Wf, WfArgs, PE.lvl]
    exact ⟨⟨by decide, trivial⟩, trivial, plain_wf a h, trivial⟩
  | .call1 .ceil a, h => by
    simp only [Img] at h
    simp only [plain, Wf, WfArgs, PE.lvl]
    exact ⟨⟨by decide, trivial⟩, trivial, plain_wf a h, trivial⟩
  | .call1 .round a, h => by
    simp only [Img] at h
    simp only [plain, Wf, WfArgs, PE.lvl]
    exact ⟨⟨by decide, trivial⟩, trivial, plain_wf a h, trivial⟩
  | .call1 .length a, h => by
    simp only [Img] at h
    simp only [plain, Wf]
    exact ⟨plain_wf a h.1, lvl_plain0 a h.2⟩
  | .call1 .nonNull a, h => by
    simp only [Img] at h
    simp only [plain, Wf, BinOp.lvl]
    have := lvl_plain1 a h.2
    exact ⟨plain_wf a h.1, trivial, by omega, by simp [PE.lvl]⟩
  | .call2 .min a b, h => by
    simp only [Img] at h
    simp only [plain, Wf, WfArgs, PE.lvl]
    exact ⟨⟨by decide, trivial⟩, trivial, plain_wf a h.1, plain_wf b h.2, trivial⟩
  | .call2 .max a b, h => by
    simp only [Img] at h
    simp only [plain, Wf, WfArgs, PE.lvl]
    exact ⟨⟨by decide, trivial⟩, trivial, plain_wf a h.1, plain_wf b h.2, trivial⟩
  | .loopFirst idx, h => by
    simp only [Img] at h
    simp only [plain, Wf, PE.lvl, BinOp.lvl]
    exact ⟨h.2.1, trivial, by omega, by omega⟩
  | .loopLastEach idx lim, h => by
    simp only [Img] at h
    simp only [plain, Wf, PE.lvl, BinOp.lvl]
    exact ⟨h.1.2.1, ⟨h.2.2.1, trivial, by omega, by omega⟩, by omega, by omega⟩
  | .loopLastRange v step lim, h => by
    simp only [Img] at h
    simp only [plain, Wf, PE.lvl, BinOp.lvl]
    exact ⟨⟨h.1.2.1, h.2.1.2.1, by omega, by omega⟩, h.2.2.2.1, by omega, by omega⟩

/-! ## 2. the tree is read as the `JsExpr` -/

/-- unfold `readE` at a constructor; the side conditions of the overlapping patterns are constructor clashes -/
macro "rd" : tactic => `(tactic| (rw [readE] <;> first | (intros; rename_i e; cases e; done) | skip))

theorem readE_member_of {x : PE} {jx : JsExpr} (k : Bytes) (h : readE x = some jx) :
    readE (.member x k) = some (if k == sLength then .call1 .length jx else .member jx k) := by
  cases x with
  | ident g =>
    simp only [readE] at h ⊢
    split at h
    · cases h
    · cases h
      rename_i hg
      simp [hg]
      split <;> simp_all
  | _ => rd; all_goals (try simp [h]); all_goals (try (split <;> simp_all))

theorem readE_paren_fall {x : PE} {jx : JsExpr} (h : readE x = some jx) (h1 : ∀ y, x ≠ .unary .neg y)
    (h2 : ∀ op a b, x = .bin op a b → b = .null) (h3 : ∀ c a b, x ≠ .cond c a b) : readE (.paren x) = some (.paren jx) := by
  cases x with
  | unary op y =>
    cases op with
    | neg => exact absurd rfl (h1 y)
    | _ => clear h1 h2 h3; rd; all_goals (try simp [h])
  | bin op a b =>
    have := h2 op a b rfl
    subst this
    clear h1 h2 h3
    rd; all_goals (try simp [h])
  | cond c a b => exact absurd rfl (h3 c a b)
  | _ => clear h1 h2 h3; rd; all_goals (try simp [h])

theorem readE_paren_cond {C A B : PE} (hC : ∀ g, C ≠ .bin .eq g .null) :
    readE (.paren (.cond (.paren C) A B)) =
      (match readE C, readE A, readE B with
        | some jc, some ja, some jb => some (.cond jc ja jb)
        | _, _, _ => none) := by
  rw [readE] <;> first | rfl | (intro g r e; cases e; exact absurd rfl (hC g))

theorem pnum_shape (i : Int) : (∀ c a b, pnum i ≠ .cond c a b) ∧ (∀ op a b, pnum i ≠ .bin op a b) := by
  unfold pnum; split <;> exact ⟨fun _ _ _ e => (by cases e), fun _ _ _ e => (by cases e)⟩

/-- a bare binary operator at the top of the tree: only `a!= null` -/
theorem plain_bin : ∀ (e : JsExpr) (op : BinOp) (a b : PE), plain e = .bin op a b → op = .ne ∧ b = .null
  | .num i, op, a, b, h => absurd h ((pnum_shape i).2 op a b)
  | .call1 .nonNull _, _, _, _, h => by simp only [plain] at h; cases h; exact ⟨rfl, rfl⟩
  | .null, _, _, _, h => by cases h
  | .bool _, _, _, _, h => by cases h
  | .str _, _, _, _, h => by cases h
  | .neg _, _, _, _, h => by cases h
  | .not _, _, _, _, h => by cases h
  | .bin _ _ _, _, _, _, h => by cases h
  | .cond _ _ _, _, _, _, h => by cases h
  | .nonNullElse _ _ _, _, _, _, h => by cases h
  | .local _, _, _, _, h => by cases h
  | .optData _, _, _, _, h => by cases h
  | .member _ _, _, _, _, h => by cases h
  | .index _ _, _, _, _, h => by cases h
  | .guard _ _, _, _, _, h => by cases h
  | .paren _, _, _, _, h => by cases h
  | .call1 .floor _, _, _, _, h => by cases h
  | .call1 .ceil _, _, _, _, h => by cases h
  | .call1 .round _, _, _, _, h => by cases h
  | .call1 .length _, _, _, _, h => by cases h
  | .call2 .min _ _, _, _, _, h => by cases h
  | .call2 .max _ _, _, _, _, h => by cases h
  | .loopFirst _, _, _, _, h => by cases h
  | .loopLastEach _ _, _, _, _, h => by cases h
  | .loopLastRange _ _ _, _, _, _, h => by cases h

theorem plain_not_eq (e : JsExpr) (g : PE) : plain e ≠ .bin .eq g .null := by
  intro h
  have := (plain_bin e _ _ _ h).1
  cases this

theorem read_pnum (i : Int) : readE (pnum i) = some (.num i) := by
  unfold pnum
  split
  · rename_i h
    rd
    have : i.natAbs ≠ 0 := by omega
    simp only [beq_iff_eq, this, if_false]
    congr 2
    omega
  · rename_i h
    rd
    congr 2
    omega

theorem jsOpOf_binOf (op : JsOp) : jsOpOf (binOf op) = some op := by cases op <;> rfl

theorem plain_not_neg : ∀ (e : JsExpr), isNegNum e = false → ∀ y, plain e ≠ .unary .neg y
  | .num i, h, y, e => by
    simp only [isNegNum, decide_eq_false_iff_not] at h
    simp only [plain, pnum, h, if_false] at e
    cases e
  | .null, _, _, h => by cases h
  | .bool _, _, _, h => by cases h
  | .str _, _, _, h => by cases h
  | .neg _, _, _, h => by cases h
  | .not _, _, _, h => by cases h
  | .bin _ _ _, _, _, h => by cases h
  | .cond _ _ _, _, _, h => by cases h
  | .nonNullElse _ _ _, _, _, h => by cases h
  | .local _, _, _, h => by cases h
  | .optData _, _, _, h => by cases h
  | .member _ _, _, _, h => by cases h
  | .index _ _, _, _, h => by cases h
  | .guard _ _, _, _, h => by cases h
  | .paren _, _, _, h => by cases h
  | .call1 .floor _, _, _, h => by cases h
  | .call1 .ceil _, _, _, h => by cases h
  | .call1 .round _, _, _, h => by cases h
  | .call1 .length _, _, _, h => by cases h
  | .call1 .nonNull _, _, _, h => by cases h
  | .call2 .min _ _, _, _, h => by cases h
  | .call2 .max _ _, _, _, h => by cases h
  | .loopFirst _, _, _, h => by cases h
  | .loopLastEach _ _, _, _, h => by cases h
  | .loopLastRange _ _ _, _, _, h => by cases h

def isGuard : JsExpr → Bool
  | .guard _ _ => true
  | _ => false

theorem plain_not_cond : ∀ (e : JsExpr), isGuard e = false → ∀ c a b, plain e ≠ .cond c a b
  | .num i, _, c, a, b, e => absurd e ((pnum_shape i).1 c a b)
  | .guard _ _, h, _, _, _, _ => by simp [isGuard] at h
  | .null, _, _, _, _, h => by cases h
  | .bool _, _, _, _, _, h => by cases h
  | .str _, _, _, _, _, h => by cases h
  | .neg _, _, _, _, _, h => by cases h
  | .not _, _, _, _, _, h => by cases h
  | .bin _ _ _, _, _, _, _, h => by cases h
  | .cond _ _ _, _, _, _, _, h => by cases h
  | .nonNullElse _ _ _, _, _, _, _, h => by cases h
  | .local _, _, _, _, _, h => by cases h
  | .optData _, _, _, _, _, h => by cases h
  | .member _ _, _, _, _, _, h => by cases h
  | .index _ _, _, _, _, _, h => by cases h
  | .paren _, _, _, _, _, h => by cases h
  | .call1 .floor _, _, _, _, _, h => by cases h
  | .call1 .ceil _, _, _, _, _, h => by cases h
  | .call1 .round _, _, _, _, _, h => by cases h
  | .call1 .length _, _, _, _, _, h => by cases h
  | .call1 .nonNull _, _, _, _, _, h => by cases h
  | .call2 .min _ _, _, _, _, _, h => by cases h
  | .call2 .max _ _, _, _, _, _, h => by cases h
  | .loopFirst _, _, _, _, _, h => by cases h
  | .loopLastEach _ _, _, _, _, _, h => by cases h
  | .loopLastRange _ _ _, _, _, _, _, h => by cases h

/-- the reading of the tree of an expression of the image is that expression -/
theorem read_plain : ∀ e : JsExpr, Img e → readE (plain e) = some e
  | .null, _ => by simp [plain, readE]
  | .bool _, _ => by simp [plain, readE]
  | .num i, _ => read_pnum i
  | .str _, _ => by simp [plain, readE]
  | .neg a, h => by
    simp only [Img] at h
    simp only [plain]; rd
    simp [read_plain a h.1]
  | .not a, h => by
    simp only [Img] at h
    simp only [plain]; rd
    simp [read_plain a h]
  | .bin op a b, h => by
    simp only [Img] at h
    simp only [plain]; rd
    simp [read_plain a h.1, read_plain b h.2, jsOpOf_binOf]
  | .cond c a b, h => by
    simp only [Img] at h
    simp only [plain]
    rw [readE_paren_cond (plain_not_eq c)]
    simp [read_plain c h.1, read_plain a h.2.1, read_plain b h.2.2]
  | .nonNullElse a a' b, h => by
    simp only [Img] at h
    simp only [plain]; rd
    simp [read_plain a h.1, read_plain a' h.2.1, read_plain b h.2.2]
  | .local g, h => by
    simp only [Img] at h
    simp [plain, readE, h.2.2]
  | .optData k, _ => by simp only [plain]; rd; simp
  | .member x k, h => by
    simp only [Img] at h
    simp only [plain]
    rw [readE_member_of k (read_plain x h.1)]
    simp [h.2.2.2]
  | .index x i, h => by
    simp only [Img] at h
    simp only [plain]; rd
    simp only [read_plain x h.1]
    congr 2
    omega
  | .guard g r, h => by
    simp only [Img] at h
    simp only [plain]; rd
    simp [read_plain g h.1, read_plain r h.2.2]
  | .paren x, h => by
    simp only [Img] at h
    by_cases hg : isGuard x = true
    · cases x with
      | guard g r =>
        have hx := h.1
        simp only [Img] at hx
        simp only [plain]; rd
        simp [read_plain g hx.1, read_plain r hx.2.2]
      | _ => simp [isGuard] at hg
    · simp only [plain]
      exact readE_paren_fall (read_plain x h.1) (plain_not_neg x h.2)
        (fun op a b e => (plain_bin x op a b e).2) (plain_not_cond x (by simpa using hg))
  | .call1 .floor a, h => by
    simp only [Img] at h
    simp only [plain]; rd
    simp [read_plain a h, mathFn1]
  | .call1 .ceil a, h => by
    simp only [Img] at h
    simp only [plain]; rd
    simp [read_plain a h, mathFn1]
  | .call1 .round a, h => by
    simp only [Img] at h
    simp only [plain]; rd
    simp [read_plain a h, mathFn1]
  | .call1 .length a, h => by
    simp only [Img] at h
    simp only [plain]
    rw [readE_member_of sLength (read_plain a h.1)]
    simp
  | .call1 .nonNull a, h => by
    simp only [Img] at h
    simp only [plain]; rd
    simp [read_plain a h.1]
  | .call2 .min a b, h => by
    simp only [Img] at h
    simp only [plain]; rd
    simp [read_plain a h.1, read_plain b h.2, mathFn2]
  | .call2 .max a b, h => by
    simp only [Img] at h
    simp only [plain]; rd
    simp [read_plain a h.1, read_plain b h.2, mathFn2]
  | .loopFirst idx, _ => by simp only [plain]; rd; simp
  | .loopLastEach idx lim, _ => by simp only [plain]; rd; simp
  | .loopLastRange v step lim, _ => by simp only [plain]; rd

/-! ## 3. the tokens of the text are the tokens of the tree -/

theorem printPieces_nil : printPieces [] = [] := rfl
theorem printPieces_cons (p : Piece) (ps : List Piece) : printPieces (p :: ps) = p.print ++ printPieces ps := by
  simp [printPieces]
theorem printPieces_append (a b : List Piece) : printPieces (a ++ b) = printPieces a ++ printPieces b := by
  simp [printPieces]

/-- the text ends in the digits of a number -/
def endsNum : JsExpr → Bool
  | .num _ => true
  | .guard _ r => endsNum r
  | _ => false

theorem endsNum_lv0 (e : JsExpr) (h : lv e = 0) : endsNum e = false := by
  cases e with
  | num _ => simp [lv] at h
  | guard _ _ => simp [lv] at h
  | _ => rfl

theorem lex_int (i : Int) {rest : Bytes} (hs : SepN rest) :
    jsLex (F64.intDigits i ++ rest) = pre (tk (pnum i)) (jsLex rest) := by
  unfold F64.intDigits pnum
  split
  · obtain ⟨hne, hall, _, _⟩ := SoyVerif.Lemmas.JsonValue.natDigits_shape i.natAbs
    have hl := lex_nat i.natAbs hs
    cases hd : F64.natDigits i.natAbs with
    | nil => exact absurd hd hne
    | cons d r =>
      rw [hd] at hl hall
      rw [List.cons_append, List.cons_append, lex_minus_digit (hall d (List.mem_cons_self ..)), ← List.cons_append, hl, pre_pre]
      rfl
  · exact lex_nat i.natAbs hs

theorem lex_opSym (op : JsOp) (r : Bytes) :
    jsLex (SoyVerif.Props.C04.opSym op ++ 32 :: r) = pre [.p (binOf op).sym] (jsLex r) := by
  cases op <;> exact lex_p_sp rfl

theorem lex_null {rest : Bytes} (hs : Sep1 rest) : jsLex (110 :: 117 :: 108 :: 108 :: rest) = pre [.id b!"null"] (jsLex rest) :=
  lex_ident (g := b!"null") ⟨_, _, rfl, rfl, by decide⟩ hs

theorem lex_optData {k : Bytes} (hk : JsIdent k) {rest : Bytes} (hs : Sep1 rest) :
    jsLex (111 :: 112 :: 116 :: 95 :: 100 :: 97 :: 116 :: 97 :: 46 :: (k ++ rest)) =
      pre [.id sOptData, .p b!".", .id k] (jsLex rest) := by
  have := lex_ident (g := sOptData) ⟨_, _, rfl, rfl, by decide⟩ (rest := 46 :: (k ++ rest)) (sep1_cons rfl _)
  simp only [sOptData, List.cons_append, List.nil_append] at this
  rw [this, lex_dot_ident hk hs, pre_pre]
  rfl

/-- `Math.f(` -/
theorem lex_math {f : Bytes} (hf : JsIdent f) (rest : Bytes) :
    jsLex (77 :: 97 :: 116 :: 104 :: 46 :: (f ++ 40 :: rest)) = pre [.id sMath, .p b!".", .id f, .p b!"("] (jsLex rest) := by
  have := lex_ident (g := sMath) ⟨_, _, rfl, rfl, by decide⟩ (rest := 46 :: (f ++ 40 :: rest)) (sep1_cons rfl _)
  simp only [sMath, List.cons_append, List.nil_append] at this
  rw [this, lex_dot_ident hf (sep1_cons rfl _), lex_lparen, pre_pre, pre_pre]
  rfl

/-- rewrite with a lemma about `[…] ++ rest`, the literal spelled out with `::` -/
macro "rwc " e:term : tactic => `(tactic| (have h__ := $e; simp only [List.cons_append, List.nil_append, sLength] at h__; rw [h__]; clear h__))

macro "lexs" : tactic => `(tactic| simp only [render, printPieces_append, printPieces_cons, printPieces_nil, Piece.print,
  List.append_assoc, List.cons_append, List.nil_append, List.append_nil])

theorem lex_render : ∀ (e : JsExpr), Img e → ∀ (rest : Bytes), Sep1 rest → (endsNum e = true → SepN rest) →
    jsLex (printPieces (render e) ++ rest) = pre (tk (plain e)) (jsLex rest)
  | .null, _, rest, hs, _ => by
    lexs
    exact lex_ident (g := b!"null") ⟨_, _, rfl, rfl, by decide⟩ hs
  | .bool b, _, rest, hs, _ => by
    lexs
    cases b
    · exact lex_ident (g := b!"false") ⟨_, _, rfl, rfl, by decide⟩ hs
    · exact lex_ident (g := b!"true") ⟨_, _, rfl, rfl, by decide⟩ hs
  | .num i, _, rest, _, hn => by
    lexs
    exact lex_int i (hn rfl)
  | .str s, h, rest, _, _ => by
    simp only [Img] at h
    lexs
    exact lex_str h rest
  | .neg a, h, rest, _, _ => by
    simp only [Img] at h
    lexs
    rw [lex_lparen, lex_minus_sp, lex_render a h.1 _ (sep1_cons rfl _) (fun _ => sepN_cons rfl (by decide) _), lex_rparen]
    simp [pre_pre, tk, plain, UnOp.tok]
  | .bin op a b, h, rest, _, _ => by
    simp only [Img] at h
    lexs
    rw [lex_lparen, lex_lparen, lex_render a h.1 _ (sep1_cons rfl _) (fun _ => sepN_cons rfl (by decide) _), lex_rparen, lex_sp,
      lex_opSym, lex_lparen, lex_render b h.2 _ (sep1_cons rfl _) (fun _ => sepN_cons rfl (by decide) _), lex_rparen, lex_rparen]
    simp [pre_pre, tk, plain]
  | .not a, h, rest, _, _ => by
    simp only [Img] at h
    lexs
    rw [lex_not_lparen, lex_render a h _ (sep1_cons rfl _) (fun _ => sepN_cons rfl (by decide) _), lex_rparen]
    simp [pre_pre, tk, plain, UnOp.tok]
  | .cond c a b, h, rest, _, _ => by
    simp only [Img] at h
    lexs
    rw [lex_lparen, lex_lparen, lex_render c h.1 _ (sep1_cons rfl _) (fun _ => sepN_cons rfl (by decide) _), lex_rparen, lex_sp,
      lex_quest, lex_render a h.2.1 _ (sep1_cons rfl _) (fun _ => sepN_cons rfl (by decide) _), lex_colon,
      lex_render b h.2.2 _ (sep1_cons rfl _) (fun _ => sepN_cons rfl (by decide) _), lex_rparen]
    simp [pre_pre, tk, plain]
  | .nonNullElse a a' b, h, rest, _, _ => by
    simp only [Img] at h
    lexs
    rw [lex_lparen, lex_lparen, lex_render a h.1 _ (sep1_cons rfl _) (fun _ => sepN_cons rfl (by decide) _), lex_rparen, lex_sp,
      lex_ne_sp, lex_null (sep1_cons rfl _), lex_sp, lex_quest, lex_sp,
      lex_render a' h.2.1 _ (sep1_cons rfl _) (fun _ => sepN_cons rfl (by decide) _), lex_sp, lex_colon, lex_sp,
      lex_render b h.2.2 _ (sep1_cons rfl _) (fun _ => sepN_cons rfl (by decide) _), lex_rparen]
    simp [pre_pre, tk, plain, BinOp.sym]
  | .local g, h, rest, hs, _ => by
    simp only [Img] at h
    lexs
    exact lex_ident h.1 hs
  | .optData k, h, rest, hs, _ => by
    simp only [Img] at h
    lexs
    rw [lex_optData h hs]
    simp [tk, plain]
  | .member x k, h, rest, hs, _ => by
    simp only [Img] at h
    lexs
    rw [lex_render x h.1 _ (sep1_cons rfl _) (fun e => by rw [endsNum_lv0 x h.2.1] at e; cases e), lex_dot_ident h.2.2.1 hs]
    simp [pre_pre, tk, plain]
  | .index x i, h, rest, _, _ => by
    simp only [Img] at h
    lexs
    rw [lex_render x h.1 _ (sep1_cons rfl _) (fun _ => sepN_cons rfl (by decide) _), lex_lbrack,
      lex_int i (sepN_cons rfl (by decide) _), lex_rbrack]
    have : ¬ i < 0 := by omega
    simp [pre_pre, tk, plain, pnum, this]
  | .guard g r, h, rest, hs, hn => by
    simp only [Img] at h
    lexs
    rw [lex_lparen, lex_render g h.1 _ (sep1_cons rfl _) (fun _ => sepN_cons rfl (by decide) _), lex_sp, lex_eq_sp,
      lex_null (sep1_cons rfl _), lex_rparen, lex_sp, lex_quest, lex_sp, lex_null (sep1_cons rfl _), lex_sp, lex_colon, lex_sp,
      lex_render r h.2.2 _ hs (fun e => hn (by simpa [endsNum] using e))]
    simp [pre_pre, tk, plain, BinOp.sym]
  | .paren x, h, rest, _, _ => by
    simp only [Img] at h
    lexs
    rw [lex_lparen, lex_render x h.1 _ (sep1_cons rfl _) (fun _ => sepN_cons rfl (by decide) _), lex_rparen]
    simp [pre_pre, tk, plain]
  | .call1 .floor a, h, rest, _, _ => by
    simp only [Img] at h
    lexs
    rwc lex_math (f := b!"floor") ⟨_, _, rfl, rfl, by decide⟩ (printPieces (render a) ++ 41 :: rest)
    rw [lex_render a h _ (sep1_cons rfl _) (fun _ => sepN_cons rfl (by decide) _), lex_rparen]
    simp [pre_pre, tk, plain, tkArgs, tkArgsTail]
  | .call1 .ceil a, h, rest, _, _ => by
    simp only [Img] at h
    lexs
    rwc lex_math (f := b!"ceil") ⟨_, _, rfl, rfl, by decide⟩ (printPieces (render a) ++ 41 :: rest)
    rw [lex_render a h _ (sep1_cons rfl _) (fun _ => sepN_cons rfl (by decide) _), lex_rparen]
    simp [pre_pre, tk, plain, tkArgs, tkArgsTail]
  | .call1 .round a, h, rest, _, _ => by
    simp only [Img] at h
    lexs
    rwc lex_math (f := b!"round") ⟨_, _, rfl, rfl, by decide⟩ (printPieces (render a) ++ 41 :: rest)
    rw [lex_render a h _ (sep1_cons rfl _) (fun _ => sepN_cons rfl (by decide) _), lex_rparen]
    simp [pre_pre, tk, plain, tkArgs, tkArgsTail]
  | .call1 .length a, h, rest, hs, _ => by
    simp only [Img] at h
    lexs
    rw [lex_render a h.1 _ (sep1_cons rfl _) (fun e => by rw [endsNum_lv0 a h.2] at e; cases e)]
    rwc lex_dot_ident (k := sLength) ⟨_, _, rfl, rfl, by decide⟩ hs
    simp [pre_pre, tk, plain, sLength]
  | .call1 .nonNull a, h, rest, hs, _ => by
    simp only [Img] at h
    lexs
    rw [lex_render a h.1 _ (sep1_cons rfl _) (fun _ => sepN_cons rfl (by decide) _), lex_ne_sp, lex_null hs]
    simp [pre_pre, tk, plain, BinOp.sym]
  | .call2 .min a b, h, rest, _, _ => by
    simp only [Img] at h
    lexs
    rwc lex_math (f := b!"min") ⟨_, _, rfl, rfl, by decide⟩ (printPieces (render a) ++ 44 :: (printPieces (render b) ++ 41 :: rest))
    rw [lex_render a h.1 _ (sep1_cons rfl _) (fun _ => sepN_cons rfl (by decide) _),
      lex_comma, lex_render b h.2 _ (sep1_cons rfl _) (fun _ => sepN_cons rfl (by decide) _), lex_rparen]
    simp [pre_pre, tk, plain, tkArgs, tkArgsTail]
  | .call2 .max a b, h, rest, _, _ => by
    simp only [Img] at h
    lexs
    rwc lex_math (f := b!"max") ⟨_, _, rfl, rfl, by decide⟩ (printPieces (render a) ++ 44 :: (printPieces (render b) ++ 41 :: rest))
    rw [lex_render a h.1 _ (sep1_cons rfl _) (fun _ => sepN_cons rfl (by decide) _),
      lex_comma, lex_render b h.2 _ (sep1_cons rfl _) (fun _ => sepN_cons rfl (by decide) _), lex_rparen]
    simp [pre_pre, tk, plain, tkArgs, tkArgsTail]
  | .loopFirst idx, h, rest, _, _ => by
    simp only [Img] at h
    lexs
    rw [lex_lparen, lex_ident h.1 (sep1_cons rfl _), lex_sp, lex_eq_sp, lex_tok (t := .num 0) (r := 41 :: rest) rfl, lex_rparen]
    simp [pre_pre, tk, plain, BinOp.sym]
  | .loopLastEach idx lim, h, rest, _, _ => by
    simp only [Img] at h
    lexs
    rw [lex_lparen, lex_ident h.1.1 (sep1_cons rfl _), lex_sp, lex_eq_sp, lex_ident h.2.1 (sep1_cons rfl _), lex_sp, lex_minus_sp,
      lex_tok (t := .num 1) (r := 41 :: rest) rfl, lex_rparen]
    simp [pre_pre, tk, plain, BinOp.sym]
  | .loopLastRange v step lim, h, rest, _, _ => by
    simp only [Img] at h
    lexs
    rw [lex_lparen, lex_ident h.1.1 (sep1_cons rfl _), lex_sp, lex_plus_sp, lex_ident h.2.1.1 (sep1_cons rfl _), lex_sp, lex_ge_sp,
      lex_ident h.2.2.1 (sep1_cons rfl _), lex_rparen]
    simp [pre_pre, tk, plain, BinOp.sym]

/-! ## the theorem -/

/-- the text of an expression of the image, read by the grammar, is that expression -/
theorem jsparse_render_expr (e : JsExpr) (h : Img e) : jsParseExpr (printPieces (render e)) = some e := by
  have hl := lex_render e h [] Sep1.nil (fun _ => SepN.nil)
  simp only [List.append_nil, jsLex_nil] at hl
  unfold jsParseExpr
  rw [hl]
  simp only [pre, Option.map_some, List.append_nil]
  rw [parseExpr_tk _ (plain_wf e h)]
  exact read_plain e h

end SoyVerif.Props.C14c
