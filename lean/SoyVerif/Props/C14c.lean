/-
  C14c — the text the JavaScript generator writes PARSES, by the ECMA-262 reading of Spec/JsParse, to exactly the AST
  whose semantics Props/C04c–f are about.

  Props/C04c–f prove that the generator model writes `render j` / `renderStmts ss` / `renderFunc f` of an AST, and
  reason about the semantics of that AST (Spec/JsSemRef, Spec/JsStmt); that a JavaScript engine READS the text as that
  AST was trusted (tied to otto by C04sem only), and C14 had "no JS grammar in Lean" as its gap.  Here (ES5 formatter):

    jsparse_render_expr    jsParseExpr  (print (render e))            = some e               for `Img e`
    jsparse_render_stmts   jsParseStmts (print (renderStmts ind ss))  = some (canonSs ss)    for `ImgSs ss`
    jsparse_render_func(s) jsParseFile  (print (renderFunc ind f))    = some [canonF f]      for `ImgF f`
    canon_exec             execStmts (canonSs ss) = execStmts ss       (the canonical form has the same meaning)
    gen_stmts_parse        with C04d `walkCmds_renders`: the statements the generator model writes for a command list
                           parse to `toCmds`' translation
    gen_text_parses        with C04f (`file_renders` = `visitSoyFile_renders` with the prefix explicit): the WHOLE text of
                           a generated file — the two comment lines, the declarations of the namespace's prefixes, the
                           functions — parses, as a program, to exactly the functions `toFile` translates the file to

  `Img` / `ImgS` / `ImgF` (explicit, below) are the ASTs on which the concrete syntax next to the constructors of
  Spec/JsSemRef / Spec/JsStmt is unambiguous and means, by the precedence rules of the grammar, the tree the constructor
  stands for: identifiers are ASCII IdentifierNames that are not reserved words (nor `opt_data` / `opt_ijData`), strings
  are well-formed UTF-8, an operand written without parentheses stands at a level of the grammar at which it is read back
  as that operand, the library calls around a printed value are directives of the generator's table.  The shapes `Img`
  excludes are listed at its definition, each with what JavaScript reads instead (the semantics of Spec/JsSemRef is
  `unspec` on all of them, so no theorem of C04 is wrong there).  Since soyjs 0a4b4eb the argument of `length` is
  written in parentheses — `(5).length`, `(!(x)).length` — and `Img` no longer restricts it (before, `{length(5)}` was
  `5.length`, a SyntaxError, and `{length(not $x)}` was `!(x).length`, read as `!((x).length)`).  `canonS`: two
  statements share their text with a special form (`buf += 't';`, `var x = '';`) and are read as that form; the literal
  arguments of a directive are read back at source position 0 (and `|truncate:n` with the `true` the generator writes).

  Each level (expression, statement, function / file) has three independent parts:  the tokens of the text are the
  tokens of the syntax tree `plain…` (`lex_render`, `lexS`, `lexF`);  the parser reads the tokens of a well-formed tree as
  that tree (Lemmas/JsParseExpr `parseExpr_tk`, Lemmas/JsParseStmt `parseStmts_tk` / `parseProgram_tk` — properties of
  the grammar alone) and `plain…` is well-formed (`plain_wf`, `wfS_plain`, `wfF`);  the reading of `plain…` is the AST
  (`read_plain`, `readS_plain`, `readF`).  Tie: driver op `jsparse` (Ops/JsParse) on REAL soyjs.Write output against
  otto's parser and the model's translation (harness/c14parse.go, sub-check C14parse).
-/
import SoyVerif.Lemmas.JsParseExpr
import SoyVerif.Lemmas.JsParseLex
import SoyVerif.Lemmas.JsParseStmt
import SoyVerif.Props.C04d
import SoyVerif.Props.C04f

namespace SoyVerif.Props.C14c
open SoyVerif SoyVerif.Spec SoyVerif.Spec.JsParse
open SoyVerif.Spec.JsSemRef (JsExpr Fn1 Fn2)
open SoyVerif.Spec.JsSem (JsOp)
open SoyVerif.Model.JsGen (Piece printPieces)
open SoyVerif.Props.C04c (render)
open SoyVerif.Lemmas.JsParseExpr SoyVerif.Lemmas.JsParseLex

set_option linter.unusedSectionVars false

/-! ## the syntax tree of a `JsExpr` -/

def binOf : JsOp → BinOp
  | .mul => .mul | .mod => .mod | .add => .add | .sub => .sub
  | .eq => .eq | .ne => .ne | .lt => .lt | .le => .le | .gt => .gt | .ge => .ge
  | .and => .and | .or => .or

/-- an integer literal: `-5` is the unary minus of `5` -/
def pnum (i : Int) : PE := if i < 0 then .unary .neg (.num i.natAbs) else .num i.natAbs

def plain : JsExpr → PE
  | .null => .null
  | .bool b => .bool b
  | .num i => pnum i
  | .str s => .str s
  | .neg a => .paren (.unary .neg (plain a))
  | .not a => .unary .not (.paren (plain a))
  | .bin op a b => .paren (.bin (binOf op) (.paren (plain a)) (.paren (plain b)))
  | .cond c a b => .paren (.cond (.paren (plain c)) (plain a) (plain b))
  | .nonNullElse a a' b => .paren (.cond (.bin .ne (.paren (plain a)) .null) (plain a') (plain b))
  | .local g => .ident g
  | .optData k => .member (.ident sOptData) k
  | .ijData => .ident sOptIj
  | .member x k => .member (plain x) k
  | .index x i => .index (plain x) (.num i.natAbs)
  | .guard g r => .cond (.paren (.bin .eq (plain g) .null)) .null (plain r)
  | .paren x => .paren (plain x)
  | .call1 .floor a => .call (.member (.ident sMath) b!"floor") (.cons (plain a) .nil)
  | .call1 .ceil a => .call (.member (.ident sMath) b!"ceil") (.cons (plain a) .nil)
  | .call1 .round a => .call (.member (.ident sMath) b!"round") (.cons (plain a) .nil)
  | .call1 .length a => .member (.paren (plain a)) sLength
  | .call1 .nonNull a => .paren (.bin .ne (plain a) .null)
  | .call2 .min a b => .call (.member (.ident sMath) b!"min") (.cons (plain a) (.cons (plain b) .nil))
  | .call2 .max a b => .call (.member (.ident sMath) b!"max") (.cons (plain a) (.cons (plain b) .nil))
  | .loopFirst idx => .paren (.bin .eq (.ident idx) (.num 0))
  | .loopLastEach idx lim => .paren (.bin .eq (.ident idx) (.bin .sub (.ident lim) (.num 1)))
  | .loopLastRange v step lim => .paren (.bin .ge (.bin .add (.ident v) (.ident step)) (.ident lim))

/-! ## the image -/

/-- a tree in parentheses -/
def isParenPE : PE → Bool
  | .paren _ => true
  | _ => false

/-- a name of a JavaScript variable: an ASCII IdentifierName, no reserved word, not a parameter `opt_data` / `opt_ijData` -/
def JsName (g : Bytes) : Prop := JsIdent g ∧ isReserved g = false ∧ g ≠ sOptData ∧ g ≠ sOptIj

/-- the level of the grammar the text of an expression stands at: 0 a MemberExpression / CallExpression that may be
    followed by `.name`; 1 a UnaryExpression (a number — `5.length` is no JavaScript —, `-5`, `!(a)`); 3 a
    ConditionalExpression (`(g == null) ? null : r`).  (Level 2, the EqualityExpression `a!= null` of isNonnull, is gone:
    soyjs a5155c6 writes `(a != null)`, a primary.) -/
def lv : JsExpr → Nat
  | .num _ => 1
  | .not _ => 1
  | .guard _ _ => 3
  | _ => 0

def isNegNum : JsExpr → Bool
  | .num i => decide (i < 0)
  | _ => false

/-- the `JsExpr` whose text (the concrete syntax of Spec/JsSemRef) the grammar reads as that `JsExpr`.  What is
    excluded, and what JavaScript reads instead:
    * `neg a` with `a` a bare `(g == null) ? null : r`  (`toAst` wraps every null-safe reference in parentheses)
    * `member x k`, `index x i` with `x` a number, `!(a)` or a bare conditional:
      `5.k` is a lexical error, `!(a).k` is `!((a).k)`  (`call1 .length x` is
      written `(x).length` — soyjs 0a4b4eb — and has no such restriction)
    * `call1 .nonNull a` and the `g` of `guard g r` with `a`, `g` a bare conditional
    * `member x "length"` with `x` written in parentheses (a `neg`, a binary operation, `paren`, …): its text
      `(…).length` is that of `call1 .length`, the length FUNCTION, whose argument soyjs always parenthesises since
      0a4b4eb; `x.length` with `x` a reference chain — the data KEY `length` — is in the image and is read as `member`
      (`toAst` makes no other: the accesses of a reference follow a variable, `opt_data.k`, `opt_ijData` or an access)
    * `index x i` with `i < 0` (`toAst` never makes one), `paren` of a negative number (the text of `neg`)
    * identifiers outside ASCII, reserved words as variable names, the variable name `opt_data`, strings that are
      not well-formed UTF-8 (the escaper writes U+FFFD for the bad bytes) -/
def Img : JsExpr → Prop
  | .null => True
  | .bool _ => True
  | .num _ => True
  | .str s => ValidUtf8 s
  | .neg a => Img a ∧ lv a ≤ 1
  | .not a => Img a
  | .bin _ a b => Img a ∧ Img b
  | .cond c a b => Img c ∧ Img a ∧ Img b
  | .nonNullElse a a' b => Img a ∧ Img a' ∧ Img b
  | .local g => JsName g
  | .optData k => JsIdent k
  | .ijData => True
  | .member x k => Img x ∧ lv x = 0 ∧ JsIdent k ∧ (k = sLength → isParenPE (plain x) = false)
  | .index x i => Img x ∧ lv x = 0 ∧ 0 ≤ i
  | .guard g r => Img g ∧ lv g ≤ 1 ∧ Img r
  | .paren x => Img x ∧ isNegNum x = false
  | .call1 .length a => Img a
  | .call1 .nonNull a => Img a ∧ lv a ≤ 1
  | .call1 _ a => Img a
  | .call2 _ a b => Img a ∧ Img b
  | .loopFirst idx => JsName idx
  | .loopLastEach idx lim => JsName idx ∧ JsName lim
  | .loopLastRange v step lim => JsName v ∧ JsName step ∧ JsName lim

/-! ## 1. the tree is well-levelled -/

theorem lvl_pnum (i : Int) : PE.lvl (pnum i) ≤ 1 := by
  unfold pnum; split <;> simp [PE.lvl]

theorem wf_pnum (i : Int) : Wf (pnum i) := by
  unfold pnum; split <;> simp [Wf, PE.lvl]

theorem lvl_plain0 : ∀ e : JsExpr, lv e = 0 → PE.lvl (plain e) = 0
  | .null, _ => rfl
  | .bool _, _ => rfl
  | .num _, h => by simp [lv] at h
  | .str _, _ => rfl
  | .neg _, _ => rfl
  | .not _, h => by simp [lv] at h
  | .bin _ _ _, _ => rfl
  | .cond _ _ _, _ => rfl
  | .nonNullElse _ _ _, _ => rfl
  | .local _, _ => rfl
  | .optData _, _ => rfl
  | .ijData, _ => rfl
  | .member _ _, _ => rfl
  | .index _ _, _ => rfl
  | .guard _ _, h => by simp [lv] at h
  | .paren _, _ => rfl
  | .call1 .floor _, _ => rfl
  | .call1 .ceil _, _ => rfl
  | .call1 .round _, _ => rfl
  | .call1 .length _, _ => rfl
  | .call1 .nonNull _, _ => rfl
  | .call2 .min _ _, _ => rfl
  | .call2 .max _ _, _ => rfl
  | .loopFirst _, _ => rfl
  | .loopLastEach _ _, _ => rfl
  | .loopLastRange _ _ _, _ => rfl

theorem lvl_plain1 (e : JsExpr) (h : lv e ≤ 1) : PE.lvl (plain e) ≤ 1 := by
  by_cases h0 : lv e = 0
  · rw [lvl_plain0 e h0]; omega
  · cases e with
    | num i => exact lvl_pnum i
    | not a => simp [plain, PE.lvl]
    | guard _ _ => simp [lv] at h
    | call1 f a => cases f <;> simp [lv] at h h0
    | _ => simp [lv] at h0

theorem plain_wf : ∀ e : JsExpr, Img e → Wf (plain e)
  | .null, _ => trivial
  | .bool _, _ => trivial
  | .num i, _ => wf_pnum i
  | .str _, _ => trivial
  | .neg a, h => by
    simp only [Img] at h
    simp only [plain, Wf]
    exact ⟨plain_wf a h.1, lvl_plain1 a h.2⟩
  | .not a, h => by
    simp only [Img] at h
    simp only [plain, Wf, PE.lvl]
    exact ⟨plain_wf a h, by omega⟩
  | .bin op a b, h => by
    simp only [Img] at h
    simp only [plain, Wf, PE.lvl]
    exact ⟨plain_wf a h.1, plain_wf b h.2, by cases op <;> simp [binOf, BinOp.lvl], by cases op <;> simp [binOf, BinOp.lvl]⟩
  | .cond c a b, h => by
    simp only [Img] at h
    simp only [plain, Wf, PE.lvl]
    exact ⟨plain_wf c h.1, by omega, plain_wf a h.2.1, plain_wf b h.2.2⟩
  | .nonNullElse a a' b, h => by
    simp only [Img] at h
    simp only [plain, Wf, PE.lvl, BinOp.lvl]
    exact ⟨⟨plain_wf a h.1, trivial, by omega, by omega⟩, by omega, plain_wf a' h.2.1, plain_wf b h.2.2⟩
  | .local g, h => by simp only [Img] at h; exact h.2.1
  | .optData k, _ => by simp only [plain, Wf, PE.lvl]; exact ⟨by decide, trivial⟩
  | .ijData, _ => by simp only [plain, Wf]; decide
  | .member x k, h => by
    simp only [Img] at h
    simp only [plain, Wf]
    exact ⟨plain_wf x h.1, lvl_plain0 x h.2.1⟩
  | .index x i, h => by
    simp only [Img] at h
    simp only [plain, Wf]
    exact ⟨plain_wf x h.1, lvl_plain0 x h.2.1, trivial⟩
  | .guard g r, h => by
    simp only [Img] at h
    simp only [plain, Wf, BinOp.lvl]
    have := lvl_plain1 g h.2.1
    exact ⟨⟨plain_wf g h.1, trivial, by omega, by simp [PE.lvl]⟩, by simp [PE.lvl], trivial, plain_wf r h.2.2⟩
  | .paren x, h => by simp only [Img] at h; exact plain_wf x h.1
  | .call1 .floor a, h => by
    simp only [Img] at h
    simp only [plain, Wf, WfArgs, PE.lvl]
    exact ⟨⟨by decide, trivial⟩, trivial, plain_wf a h, trivial⟩
  | .call1 .ceil a, h => by
    simp only [Img] at h
    simp only [plain, Wf, WfArgs, PE.lvl]
    exact ⟨⟨by decide, trivial⟩, trivial, plain_wf a h, trivial⟩
  | .call1 .round a, h => by
    simp only [Img] at h
    simp only [plain, Wf, WfArgs, PE.lvl]
    exact ⟨⟨by decide, trivial⟩, trivial, plain_wf a h, trivial⟩
  | .call1 .length a, h => by
    simp only [Img] at h
    simp only [plain, Wf]
    exact ⟨plain_wf a h, rfl⟩
  | .call1 .nonNull a, h => by
    simp only [Img] at h
    simp only [plain, Wf, BinOp.lvl]
    have := lvl_plain1 a h.2
    exact ⟨plain_wf a h.1, trivial, by omega, by simp [PE.lvl]⟩
  | .call2 .min a b, h => by
    simp only [Img] at h
    simp only [plain, Wf, WfArgs, PE.lvl]
    exact ⟨⟨by decide, trivial⟩, trivial, plain_wf a h.1, plain_wf b h.2, trivial⟩
  | .call2 .max a b, h => by
    simp only [Img] at h
    simp only [plain, Wf, WfArgs, PE.lvl]
    exact ⟨⟨by decide, trivial⟩, trivial, plain_wf a h.1, plain_wf b h.2, trivial⟩
  | .loopFirst idx, h => by
    simp only [Img] at h
    simp only [plain, Wf, PE.lvl, BinOp.lvl]
    exact ⟨h.2.1, trivial, by omega, by omega⟩
  | .loopLastEach idx lim, h => by
    simp only [Img] at h
    simp only [plain, Wf, PE.lvl, BinOp.lvl]
    exact ⟨h.1.2.1, ⟨h.2.2.1, trivial, by omega, by omega⟩, by omega, by omega⟩
  | .loopLastRange v step lim, h => by
    simp only [Img] at h
    simp only [plain, Wf, PE.lvl, BinOp.lvl]
    exact ⟨⟨h.1.2.1, h.2.1.2.1, by omega, by omega⟩, h.2.2.2.1, by omega, by omega⟩

/-! ## 2. the tree is read as the `JsExpr` -/

/-- unfold `readE` at a constructor; the side conditions of the overlapping patterns are constructor clashes -/
macro "rd" : tactic => `(tactic| (rw [readE] <;> first | (intros; rename_i e; cases e; done) | skip))

theorem readE_member_of {x : PE} {jx : JsExpr} (k : Bytes) (h : readE x = some jx) (hk : k = sLength → isParenPE x = false) :
    readE (.member x k) = some (.member jx k) := by
  have hx : isOptData x = false := by
    cases x with
    | ident g =>
      simp only [isOptData]
      cases hg : (g == sOptData) with
      | false => rfl
      | true => simp [readE, hg] at h
    | _ => rfl
  cases x with
  | paren y =>
    have hne : (k == sLength) = false := by
      cases hkk : (k == sLength) with
      | false => rfl
      | true =>
        have := hk (by simpa using hkk)
        simp [isParenPE] at this
    rw [readE]
    simp [isOptData, hne, h]
  | _ => rw [readE] <;> simp_all

/-- `(x).length` is read as `length` of what `x` is read as -/
theorem readE_paren_length {x : PE} {jx : JsExpr} (h : readE x = some jx) :
    readE (.member (.paren x) sLength) = some (.call1 .length jx) := by
  rw [readE]
  simp [isOptData, h]

theorem readE_paren_fall {x : PE} {jx : JsExpr} (h : readE x = some jx) (h1 : ∀ y, x ≠ .unary .neg y)
    (h2 : ∀ op a b, x ≠ .bin op a b) (h3 : ∀ c a b, x ≠ .cond c a b) : readE (.paren x) = some (.paren jx) := by
  cases x with
  | unary op y =>
    cases op with
    | neg => exact absurd rfl (h1 y)
    | _ => clear h1 h2 h3; rd; all_goals (try simp [h])
  | bin op a b => exact absurd rfl (h2 op a b)
  | cond c a b => exact absurd rfl (h3 c a b)
  | _ => clear h1 h2 h3; rd; all_goals (try simp [h])

theorem readE_paren_cond {C A B : PE} (hC : ∀ g, C ≠ .bin .eq g .null) :
    readE (.paren (.cond (.paren C) A B)) =
      (match readE C, readE A, readE B with
        | some jc, some ja, some jb => some (.cond jc ja jb)
        | _, _, _ => none) := by
  rw [readE] <;> first | rfl | (intro g r e; cases e; exact absurd rfl (hC g))

theorem pnum_shape (i : Int) : (∀ c a b, pnum i ≠ .cond c a b) ∧ (∀ op a b, pnum i ≠ .bin op a b) := by
  unfold pnum; split <;> exact ⟨fun _ _ _ e => (by cases e), fun _ _ _ e => (by cases e)⟩

/-- no text has a bare binary operator at the top of its tree (isNonnull is `(a != null)` since soyjs a5155c6) -/
theorem plain_not_bin : ∀ (e : JsExpr) (op : BinOp) (a b : PE), plain e = .bin op a b → False
  | .num i, op, a, b, h => absurd h ((pnum_shape i).2 op a b)
  | .call1 .nonNull _, _, _, _, h => by cases h
  | .null, _, _, _, h => by cases h
  | .bool _, _, _, _, h => by cases h
  | .str _, _, _, _, h => by cases h
  | .neg _, _, _, _, h => by cases h
  | .not _, _, _, _, h => by cases h
  | .bin _ _ _, _, _, _, h => by cases h
  | .cond _ _ _, _, _, _, h => by cases h
  | .nonNullElse _ _ _, _, _, _, h => by cases h
  | .local _, _, _, _, h => by cases h
  | .optData _, _, _, _, h => by cases h
  | .ijData, _, _, _, h => by cases h
  | .member _ _, _, _, _, h => by cases h
  | .index _ _, _, _, _, h => by cases h
  | .guard _ _, _, _, _, h => by cases h
  | .paren _, _, _, _, h => by cases h
  | .call1 .floor _, _, _, _, h => by cases h
  | .call1 .ceil _, _, _, _, h => by cases h
  | .call1 .round _, _, _, _, h => by cases h
  | .call1 .length _, _, _, _, h => by cases h
  | .call2 .min _ _, _, _, _, h => by cases h
  | .call2 .max _ _, _, _, _, h => by cases h
  | .loopFirst _, _, _, _, h => by cases h
  | .loopLastEach _ _, _, _, _, h => by cases h
  | .loopLastRange _ _ _, _, _, _, h => by cases h

theorem plain_bin (e : JsExpr) (op : BinOp) (a b : PE) (h : plain e = .bin op a b) : op = .ne ∧ b = .null :=
  (plain_not_bin e op a b h).elim

theorem plain_not_eq (e : JsExpr) (g : PE) : plain e ≠ .bin .eq g .null := by
  intro h
  have := (plain_bin e _ _ _ h).1
  cases this

theorem read_pnum (i : Int) : readE (pnum i) = some (.num i) := by
  unfold pnum
  split
  · rename_i h
    rd
    have : i.natAbs ≠ 0 := by omega
    simp only [beq_iff_eq, this, if_false]
    congr 2
    omega
  · rename_i h
    rd
    congr 2
    omega

theorem jsOpOf_binOf (op : JsOp) : jsOpOf (binOf op) = some op := by cases op <;> rfl

theorem plain_not_neg : ∀ (e : JsExpr), isNegNum e = false → ∀ y, plain e ≠ .unary .neg y
  | .num i, h, y, e => by
    simp only [isNegNum, decide_eq_false_iff_not] at h
    simp only [plain, pnum, h, if_false] at e
    cases e
  | .null, _, _, h => by cases h
  | .bool _, _, _, h => by cases h
  | .str _, _, _, h => by cases h
  | .neg _, _, _, h => by cases h
  | .not _, _, _, h => by cases h
  | .bin _ _ _, _, _, h => by cases h
  | .cond _ _ _, _, _, h => by cases h
  | .nonNullElse _ _ _, _, _, h => by cases h
  | .local _, _, _, h => by cases h
  | .optData _, _, _, h => by cases h
  | .ijData, _, _, h => by cases h
  | .member _ _, _, _, h => by cases h
  | .index _ _, _, _, h => by cases h
  | .guard _ _, _, _, h => by cases h
  | .paren _, _, _, h => by cases h
  | .call1 .floor _, _, _, h => by cases h
  | .call1 .ceil _, _, _, h => by cases h
  | .call1 .round _, _, _, h => by cases h
  | .call1 .length _, _, _, h => by cases h
  | .call1 .nonNull _, _, _, h => by cases h
  | .call2 .min _ _, _, _, h => by cases h
  | .call2 .max _ _, _, _, h => by cases h
  | .loopFirst _, _, _, h => by cases h
  | .loopLastEach _ _, _, _, h => by cases h
  | .loopLastRange _ _ _, _, _, h => by cases h

def isGuard : JsExpr → Bool
  | .guard _ _ => true
  | _ => false

theorem plain_not_cond : ∀ (e : JsExpr), isGuard e = false → ∀ c a b, plain e ≠ .cond c a b
  | .num i, _, c, a, b, e => absurd e ((pnum_shape i).1 c a b)
  | .guard _ _, h, _, _, _, _ => by simp [isGuard] at h
  | .null, _, _, _, _, h => by cases h
  | .bool _, _, _, _, _, h => by cases h
  | .str _, _, _, _, _, h => by cases h
  | .neg _, _, _, _, _, h => by cases h
  | .not _, _, _, _, _, h => by cases h
  | .bin _ _ _, _, _, _, _, h => by cases h
  | .cond _ _ _, _, _, _, _, h => by cases h
  | .nonNullElse _ _ _, _, _, _, _, h => by cases h
  | .local _, _, _, _, _, h => by cases h
  | .optData _, _, _, _, _, h => by cases h
  | .ijData, _, _, _, _, h => by cases h
  | .member _ _, _, _, _, _, h => by cases h
  | .index _ _, _, _, _, _, h => by cases h
  | .paren _, _, _, _, _, h => by cases h
  | .call1 .floor _, _, _, _, _, h => by cases h
  | .call1 .ceil _, _, _, _, _, h => by cases h
  | .call1 .round _, _, _, _, _, h => by cases h
  | .call1 .length _, _, _, _, _, h => by cases h
  | .call1 .nonNull _, _, _, _, _, h => by cases h
  | .call2 .min _ _, _, _, _, _, h => by cases h
  | .call2 .max _ _, _, _, _, _, h => by cases h
  | .loopFirst _, _, _, _, _, h => by cases h
  | .loopLastEach _ _, _, _, _, _, h => by cases h
  | .loopLastRange _ _ _, _, _, _, _, h => by cases h

/-- the reading of the tree of an expression of the image is that expression -/
theorem read_plain : ∀ e : JsExpr, Img e → readE (plain e) = some e
  | .null, _ => by simp [plain, readE]
  | .bool _, _ => by simp [plain, readE]
  | .num i, _ => read_pnum i
  | .str _, _ => by simp [plain, readE]
  | .neg a, h => by
    simp only [Img] at h
    simp only [plain]; rd
    simp [read_plain a h.1]
  | .not a, h => by
    simp only [Img] at h
    simp only [plain]; rd
    simp [read_plain a h]
  | .bin op a b, h => by
    simp only [Img] at h
    simp only [plain]; rd
    simp [read_plain a h.1, read_plain b h.2, jsOpOf_binOf]
  | .cond c a b, h => by
    simp only [Img] at h
    simp only [plain]
    rw [readE_paren_cond (plain_not_eq c)]
    simp [read_plain c h.1, read_plain a h.2.1, read_plain b h.2.2]
  | .nonNullElse a a' b, h => by
    simp only [Img] at h
    simp only [plain]; rd
    simp [read_plain a h.1, read_plain a' h.2.1, read_plain b h.2.2]
  | .local g, h => by
    simp only [Img] at h
    simp [plain, readE, h.2.2.1, h.2.2.2]
  | .optData k, _ => by simp only [plain]; rd; simp [isOptData]
  | .ijData, _ => by simp [plain, readE, sOptIj, sOptData]
  | .member x k, h => by
    simp only [Img] at h
    simp only [plain]
    exact readE_member_of k (read_plain x h.1) h.2.2.2
  | .index x i, h => by
    simp only [Img] at h
    simp only [plain]; rd
    simp only [read_plain x h.1]
    congr 2
    omega
  | .guard g r, h => by
    simp only [Img] at h
    simp only [plain]; rd
    simp [read_plain g h.1, read_plain r h.2.2]
  | .paren x, h => by
    simp only [Img] at h
    by_cases hg : isGuard x = true
    · cases x with
      | guard g r =>
        have hx := h.1
        simp only [Img] at hx
        simp only [plain]; rd
        simp [read_plain g hx.1, read_plain r hx.2.2]
      | _ => simp [isGuard] at hg
    · simp only [plain]
      exact readE_paren_fall (read_plain x h.1) (plain_not_neg x h.2)
        (fun op a b e => plain_not_bin x op a b e) (plain_not_cond x (by simpa using hg))
  | .call1 .floor a, h => by
    simp only [Img] at h
    simp only [plain]; rd
    simp [read_plain a h, mathFn1]
  | .call1 .ceil a, h => by
    simp only [Img] at h
    simp only [plain]; rd
    simp [read_plain a h, mathFn1]
  | .call1 .round a, h => by
    simp only [Img] at h
    simp only [plain]; rd
    simp [read_plain a h, mathFn1]
  | .call1 .length a, h => by
    simp only [Img] at h
    simp only [plain]
    exact readE_paren_length (read_plain a h)
  | .call1 .nonNull a, h => by
    simp only [Img] at h
    simp only [plain]; rd
    simp [read_plain a h.1]
  | .call2 .min a b, h => by
    simp only [Img] at h
    simp only [plain]; rd
    simp [read_plain a h.1, read_plain b h.2, mathFn2]
  | .call2 .max a b, h => by
    simp only [Img] at h
    simp only [plain]; rd
    simp [read_plain a h.1, read_plain b h.2, mathFn2]
  | .loopFirst idx, _ => by simp only [plain]; rd; simp
  | .loopLastEach idx lim, _ => by simp only [plain]; rd; simp
  | .loopLastRange v step lim, _ => by simp only [plain]; rd

/-! ## 3. the tokens of the text are the tokens of the tree -/

theorem printPieces_nil : printPieces [] = [] := rfl
theorem printPieces_cons (p : Piece) (ps : List Piece) : printPieces (p :: ps) = p.print ++ printPieces ps := by
  simp [printPieces]
theorem printPieces_append (a b : List Piece) : printPieces (a ++ b) = printPieces a ++ printPieces b := by
  simp [printPieces]

/-- the text ends in the digits of a number -/
def endsNum : JsExpr → Bool
  | .num _ => true
  | .guard _ r => endsNum r
  | _ => false

theorem endsNum_lv0 (e : JsExpr) (h : lv e = 0) : endsNum e = false := by
  cases e with
  | num _ => simp [lv] at h
  | guard _ _ => simp [lv] at h
  | _ => rfl

theorem lex_int (i : Int) {rest : Bytes} (hs : SepN rest) :
    jsLex (F64.intDigits i ++ rest) = pre (tk (pnum i)) (jsLex rest) := by
  unfold F64.intDigits pnum
  split
  · obtain ⟨hne, hall, _, _⟩ := SoyVerif.Lemmas.JsonValue.natDigits_shape i.natAbs
    have hl := lex_nat i.natAbs hs
    cases hd : F64.natDigits i.natAbs with
    | nil => exact absurd hd hne
    | cons d r =>
      rw [hd] at hl hall
      rw [List.cons_append, List.cons_append, lex_minus_digit (hall d (List.mem_cons_self ..)), ← List.cons_append, hl, pre_pre]
      rfl
  · exact lex_nat i.natAbs hs

theorem lex_opSym (op : JsOp) (r : Bytes) :
    jsLex (SoyVerif.Props.C04.opSym op ++ 32 :: r) = pre [.p (binOf op).sym] (jsLex r) := by
  cases op <;> exact lex_p_sp rfl

theorem lex_null {rest : Bytes} (hs : Sep1 rest) : jsLex (110 :: 117 :: 108 :: 108 :: rest) = pre [.id b!"null"] (jsLex rest) :=
  lex_ident (g := b!"null") ⟨_, _, rfl, rfl, by decide⟩ hs

theorem lex_optData {k : Bytes} (hk : JsIdent k) {rest : Bytes} (hs : Sep1 rest) :
    jsLex (111 :: 112 :: 116 :: 95 :: 100 :: 97 :: 116 :: 97 :: 46 :: (k ++ rest)) =
      pre [.id sOptData, .p b!".", .id k] (jsLex rest) := by
  have := lex_ident (g := sOptData) ⟨_, _, rfl, rfl, by decide⟩ (rest := 46 :: (k ++ rest)) (sep1_cons rfl _)
  simp only [sOptData, List.cons_append, List.nil_append] at this
  rw [this, lex_dot_ident hk hs, pre_pre]
  rfl

/-- `Math.f(` -/
theorem lex_math {f : Bytes} (hf : JsIdent f) (rest : Bytes) :
    jsLex (77 :: 97 :: 116 :: 104 :: 46 :: (f ++ 40 :: rest)) = pre [.id sMath, .p b!".", .id f, .p b!"("] (jsLex rest) := by
  have := lex_ident (g := sMath) ⟨_, _, rfl, rfl, by decide⟩ (rest := 46 :: (f ++ 40 :: rest)) (sep1_cons rfl _)
  simp only [sMath, List.cons_append, List.nil_append] at this
  rw [this, lex_dot_ident hf (sep1_cons rfl _), lex_lparen, pre_pre, pre_pre]
  rfl

/-- rewrite with a lemma about `[…] ++ rest`, the literal spelled out with `::` -/
macro "rwc " e:term : tactic => `(tactic| (have h__ := $e; simp only [List.cons_append, List.nil_append, sLength] at h__; rw [h__]; clear h__))

macro "lexs" : tactic => `(tactic| simp only [render, printPieces_append, printPieces_cons, printPieces_nil, Piece.print,
  List.append_assoc, List.cons_append, List.nil_append, List.append_nil])

theorem lex_render : ∀ (e : JsExpr), Img e → ∀ (rest : Bytes), Sep1 rest → (endsNum e = true → SepN rest) →
    jsLex (printPieces (render e) ++ rest) = pre (tk (plain e)) (jsLex rest)
  | .null, _, rest, hs, _ => by
    lexs
    exact lex_ident (g := b!"null") ⟨_, _, rfl, rfl, by decide⟩ hs
  | .bool b, _, rest, hs, _ => by
    lexs
    cases b
    · exact lex_ident (g := b!"false") ⟨_, _, rfl, rfl, by decide⟩ hs
    · exact lex_ident (g := b!"true") ⟨_, _, rfl, rfl, by decide⟩ hs
  | .num i, _, rest, _, hn => by
    lexs
    exact lex_int i (hn rfl)
  | .str s, h, rest, _, _ => by
    simp only [Img] at h
    lexs
    exact lex_str h rest
  | .neg a, h, rest, _, _ => by
    simp only [Img] at h
    lexs
    rw [lex_lparen, lex_minus_sp, lex_render a h.1 _ (sep1_cons rfl _) (fun _ => sepN_cons rfl (by decide) _), lex_rparen]
    simp [pre_pre, tk, plain, UnOp.tok]
  | .bin op a b, h, rest, _, _ => by
    simp only [Img] at h
    lexs
    rw [lex_lparen, lex_lparen, lex_render a h.1 _ (sep1_cons rfl _) (fun _ => sepN_cons rfl (by decide) _), lex_rparen, lex_sp,
      lex_opSym, lex_lparen, lex_render b h.2 _ (sep1_cons rfl _) (fun _ => sepN_cons rfl (by decide) _), lex_rparen, lex_rparen]
    simp [pre_pre, tk, plain]
  | .not a, h, rest, _, _ => by
    simp only [Img] at h
    lexs
    rw [lex_not_lparen, lex_render a h _ (sep1_cons rfl _) (fun _ => sepN_cons rfl (by decide) _), lex_rparen]
    simp [pre_pre, tk, plain, UnOp.tok]
  | .cond c a b, h, rest, _, _ => by
    simp only [Img] at h
    lexs
    rw [lex_lparen, lex_lparen, lex_render c h.1 _ (sep1_cons rfl _) (fun _ => sepN_cons rfl (by decide) _), lex_rparen, lex_sp,
      lex_quest, lex_render a h.2.1 _ (sep1_cons rfl _) (fun _ => sepN_cons rfl (by decide) _), lex_colon,
      lex_render b h.2.2 _ (sep1_cons rfl _) (fun _ => sepN_cons rfl (by decide) _), lex_rparen]
    simp [pre_pre, tk, plain]
  | .nonNullElse a a' b, h, rest, _, _ => by
    simp only [Img] at h
    lexs
    rw [lex_lparen, lex_lparen, lex_render a h.1 _ (sep1_cons rfl _) (fun _ => sepN_cons rfl (by decide) _), lex_rparen, lex_sp,
      lex_ne_sp, lex_null (sep1_cons rfl _), lex_sp, lex_quest, lex_sp,
      lex_render a' h.2.1 _ (sep1_cons rfl _) (fun _ => sepN_cons rfl (by decide) _), lex_sp, lex_colon, lex_sp,
      lex_render b h.2.2 _ (sep1_cons rfl _) (fun _ => sepN_cons rfl (by decide) _), lex_rparen]
    simp [pre_pre, tk, plain, BinOp.sym]
  | .local g, h, rest, hs, _ => by
    simp only [Img] at h
    lexs
    exact lex_ident h.1 hs
  | .optData k, h, rest, hs, _ => by
    simp only [Img] at h
    lexs
    rw [lex_optData h hs]
    simp [tk, plain]
  | .ijData, _, rest, hs, _ => by
    lexs
    exact lex_ident (g := sOptIj) ⟨_, _, rfl, rfl, by decide⟩ hs
  | .member x k, h, rest, hs, _ => by
    simp only [Img] at h
    lexs
    rw [lex_render x h.1 _ (sep1_cons rfl _) (fun e => by rw [endsNum_lv0 x h.2.1] at e; cases e), lex_dot_ident h.2.2.1 hs]
    simp [pre_pre, tk, plain]
  | .index x i, h, rest, _, _ => by
    simp only [Img] at h
    lexs
    rw [lex_render x h.1 _ (sep1_cons rfl _) (fun _ => sepN_cons rfl (by decide) _), lex_lbrack,
      lex_int i (sepN_cons rfl (by decide) _), lex_rbrack]
    have : ¬ i < 0 := by omega
    simp [pre_pre, tk, plain, pnum, this]
  | .guard g r, h, rest, hs, hn => by
    simp only [Img] at h
    lexs
    rw [lex_lparen, lex_render g h.1 _ (sep1_cons rfl _) (fun _ => sepN_cons rfl (by decide) _), lex_sp, lex_eq_sp,
      lex_null (sep1_cons rfl _), lex_rparen, lex_sp, lex_quest, lex_sp, lex_null (sep1_cons rfl _), lex_sp, lex_colon, lex_sp,
      lex_render r h.2.2 _ hs (fun e => hn (by simpa [endsNum] using e))]
    simp [pre_pre, tk, plain, BinOp.sym]
  | .paren x, h, rest, _, _ => by
    simp only [Img] at h
    lexs
    rw [lex_lparen, lex_render x h.1 _ (sep1_cons rfl _) (fun _ => sepN_cons rfl (by decide) _), lex_rparen]
    simp [pre_pre, tk, plain]
  | .call1 .floor a, h, rest, _, _ => by
    simp only [Img] at h
    lexs
    rwc lex_math (f := b!"floor") ⟨_, _, rfl, rfl, by decide⟩ (printPieces (render a) ++ 41 :: rest)
    rw [lex_render a h _ (sep1_cons rfl _) (fun _ => sepN_cons rfl (by decide) _), lex_rparen]
    simp [pre_pre, tk, plain, tkArgs, tkArgsTail]
  | .call1 .ceil a, h, rest, _, _ => by
    simp only [Img] at h
    lexs
    rwc lex_math (f := b!"ceil") ⟨_, _, rfl, rfl, by decide⟩ (printPieces (render a) ++ 41 :: rest)
    rw [lex_render a h _ (sep1_cons rfl _) (fun _ => sepN_cons rfl (by decide) _), lex_rparen]
    simp [pre_pre, tk, plain, tkArgs, tkArgsTail]
  | .call1 .round a, h, rest, _, _ => by
    simp only [Img] at h
    lexs
    rwc lex_math (f := b!"round") ⟨_, _, rfl, rfl, by decide⟩ (printPieces (render a) ++ 41 :: rest)
    rw [lex_render a h _ (sep1_cons rfl _) (fun _ => sepN_cons rfl (by decide) _), lex_rparen]
    simp [pre_pre, tk, plain, tkArgs, tkArgsTail]
  | .call1 .length a, h, rest, hs, _ => by
    simp only [Img] at h
    lexs
    rw [lex_lparen, lex_render a h _ (sep1_cons rfl _) (fun _ => sepN_cons rfl (by decide) _), lex_rparen]
    rwc lex_dot_ident (k := sLength) ⟨_, _, rfl, rfl, by decide⟩ hs
    simp [pre_pre, tk, plain, sLength]
  | .call1 .nonNull a, h, rest, hs, _ => by
    simp only [Img] at h
    lexs
    rw [lex_lparen, lex_render a h.1 _ (sep1_cons rfl _) (fun _ => sepN_cons rfl (by decide) _), lex_sp, lex_ne_sp,
      lex_null (sep1_cons rfl _), lex_rparen]
    simp [pre_pre, tk, plain, BinOp.sym]
  | .call2 .min a b, h, rest, _, _ => by
    simp only [Img] at h
    lexs
    rwc lex_math (f := b!"min") ⟨_, _, rfl, rfl, by decide⟩ (printPieces (render a) ++ 44 :: (printPieces (render b) ++ 41 :: rest))
    rw [lex_render a h.1 _ (sep1_cons rfl _) (fun _ => sepN_cons rfl (by decide) _),
      lex_comma, lex_render b h.2 _ (sep1_cons rfl _) (fun _ => sepN_cons rfl (by decide) _), lex_rparen]
    simp [pre_pre, tk, plain, tkArgs, tkArgsTail]
  | .call2 .max a b, h, rest, _, _ => by
    simp only [Img] at h
    lexs
    rwc lex_math (f := b!"max") ⟨_, _, rfl, rfl, by decide⟩ (printPieces (render a) ++ 44 :: (printPieces (render b) ++ 41 :: rest))
    rw [lex_render a h.1 _ (sep1_cons rfl _) (fun _ => sepN_cons rfl (by decide) _),
      lex_comma, lex_render b h.2 _ (sep1_cons rfl _) (fun _ => sepN_cons rfl (by decide) _), lex_rparen]
    simp [pre_pre, tk, plain, tkArgs, tkArgsTail]
  | .loopFirst idx, h, rest, _, _ => by
    simp only [Img] at h
    lexs
    rw [lex_lparen, lex_ident h.1 (sep1_cons rfl _), lex_sp, lex_eq_sp, lex_tok (t := .num 0) (r := 41 :: rest) rfl, lex_rparen]
    simp [pre_pre, tk, plain, BinOp.sym]
  | .loopLastEach idx lim, h, rest, _, _ => by
    simp only [Img] at h
    lexs
    rw [lex_lparen, lex_ident h.1.1 (sep1_cons rfl _), lex_sp, lex_eq_sp, lex_ident h.2.1 (sep1_cons rfl _), lex_sp, lex_minus_sp,
      lex_tok (t := .num 1) (r := 41 :: rest) rfl, lex_rparen]
    simp [pre_pre, tk, plain, BinOp.sym]
  | .loopLastRange v step lim, h, rest, _, _ => by
    simp only [Img] at h
    lexs
    rw [lex_lparen, lex_ident h.1.1 (sep1_cons rfl _), lex_sp, lex_plus_sp, lex_ident h.2.1.1 (sep1_cons rfl _), lex_sp, lex_ge_sp,
      lex_ident h.2.2.1 (sep1_cons rfl _), lex_rparen]
    simp [pre_pre, tk, plain, BinOp.sym]

/-! ## the theorem -/

/-- the text of an expression of the image, read by the grammar, is that expression -/
theorem jsparse_render_expr (e : JsExpr) (h : Img e) : jsParseExpr (printPieces (render e)) = some e := by
  have hl := lex_render e h [] Sep1.nil (fun _ => SepN.nil)
  simp only [List.append_nil, jsLex_nil] at hl
  unfold jsParseExpr
  rw [hl]
  simp only [pre, Option.map_some, List.append_nil]
  rw [parseExpr_tk _ (plain_wf e h)]
  exact read_plain e h

/-! # statements -/

open SoyVerif.Model (Directive Expr)
open SoyVerif.Model.JsGen (directiveJsName spaces)
open SoyVerif.Spec.JsStmt (JsStmt JsStmts JsConds JsCases JsPlural DataBase JsFunc)
open SoyVerif.Props.C04d (litAst renderStmt renderStmts renderConds renderCases renderPlural openPieces closePieces argPieces
  basePieces kvPieces dataPieces)
open SoyVerif.Lemmas.JsParseStmt

/-! ## the syntax tree of a statement -/

/-- the pieces of a dotted name -/
def qSplit : Bytes → List Bytes
  | [] => [[]]
  | c :: r =>
    if c == 46 then [] :: qSplit r
    else match qSplit r with
      | s :: ss => (c :: s) :: ss
      | [] => [[c]]

/-- `a.b.c` as a chain of `.name` -/
def plainQ (q : Bytes) : PE :=
  match qSplit q with
  | g :: segs => segs.foldl PE.member (.ident g)
  | [] => .ident []

def plainArgs : List PE → PArgs
  | [] => .nil
  | a :: r => .cons a (plainArgs r)

def sTruncate : Bytes := b!"truncate"

/-- the literal arguments the generator writes behind the value: those of the source, and `true` for a `|truncate:n` -/
def dirArgs (d : Directive) : List PE :=
  (d.args.filterMap litAst).map plain ++ (if d.name == sTruncate && d.args.length == 1 then [.bool true] else [])

/-- `dN(…d1(e, a…)…, a…)` -/
def plainPrint (e : PE) (ds : List Directive) : PE :=
  ds.foldl (fun acc d => .call (plainQ (directiveJsName d.name)) (.cons acc (plainArgs (dirArgs d)))) e

def plainBase : DataBase → PE
  | .empty => .obj .nil
  | .all => .ident sOptData
  | .expr e => plain e

def plainProps : List (Bytes × JsExpr) → PProps
  | [] => .nil
  | (k, v) :: r => .cons k (plain v) (plainProps r)

def plainData (base : DataBase) (params : List (Bytes × JsExpr)) : PE :=
  match params with
  | [] => plainBase base
  | ps => .call (plainQ sAugment) (.cons (plainBase base) (.cons (.obj (plainProps ps)) .nil))

def PStmts.snoc : PStmts → PS → PStmts
  | .nil, s => .cons s .nil
  | .cons a r, s => .cons a (PStmts.snoc r s)

/-- `case l1: case l2: … body` -/
def plainLabels : List PE → PStmts → PClauses → PClauses
  | [], _, rest => rest
  | [l], body, rest => .case l body rest
  | l :: ls, body, rest => .case l .nil (plainLabels ls body rest)

mutual
  def plainS : JsStmt → PS
    | .appendLit b t => .expr (.assign .add (.ident b) (.str t))
    | .append b e ds => .expr (.assign .add (.ident b) (plainPrint (plain e) ds))
    | .var x e => .var [(x, plain e)]
    | .varEmpty x => .var [(x, .str [])]
    | .ifs conds => plainConds conds
    | .varLength x l => .var [(x, .member (.ident l) sLength)]
    | .varIndex x l i => .var [(x, .index (.ident l) (.ident i))]
    | .forUp i lim body =>
      .forVar [(i, .num 0)] (.bin .lt (.ident i) (.ident lim)) [.postInc (.ident i)] (.block (plainSs body))
    | .ifPos lim body els => .ifElse (.bin .gt (.ident lim) (.num 0)) (.block (plainSs body)) (.block (plainSs els))
    | .forStep i lim step idx init body =>
      .forVar [(i, plain init), (idx, .num 0)] (.bin .lt (.ident i) (.ident lim))
        [.assign .add (.ident i) (.ident step), .postInc (.ident idx)] (.block (plainSs body))
    | .switchS e cases => .switchS (plain e) (plainCases cases)
    | .call b callee base params =>
      .expr (.assign .add (.ident b) (.call (plainQ callee)
        (.cons (plainData base params) (.cons (.ident b!"opt_sb") (.cons (.ident b!"opt_ijData") .nil)))))
    | .ifZero idx body => .ifS (.bin .eq (.ident idx) (.num 0)) (.block (plainSs body))
    | .pluralS e cases dflt => .switchS (plain e) (plainPlural cases (plainSs dflt))
    | .appendCss b e => .expr (.assign .add (.ident b) (.bin .add (plain e) (.str b!"-")))
    | .debuggerS => .dbg
  def plainSs : JsStmts → PStmts
    | .nil => .nil
    | .cons s r => .cons (plainS s) (plainSs r)
  /-- `if (c) {…} else if (c) {…} … else {…}` -/
  def plainConds : JsConds → PS
    | .nil => .block .nil
    | .els body => .block (plainSs body)
    | .cons c body rest =>
      match rest with
      | .nil => .ifS (plain c) (.block (plainSs body))
      | .els e => .ifElse (plain c) (.block (plainSs body)) (.block (plainSs e))
      | .cons c' body' rest' => .ifElse (plain c) (.block (plainSs body)) (plainConds (.cons c' body' rest'))
  def plainCases : JsCases → PClauses
    | .nil => .nil
    | .dflt body => .dflt (PStmts.snoc (plainSs body) .brk) .nil
    | .cons labels body rest => plainLabels (labels.map plain) (PStmts.snoc (plainSs body) .brk) (plainCases rest)
  /-- `case n: … break;` …, then `default: …` -/
  def plainPlural : JsPlural → PStmts → PClauses
    | .nil, d => .dflt d .nil
    | .cons v body rest, d => .case (pnum v) (PStmts.snoc (plainSs body) .brk) (plainPlural rest d)
end

/-! ## the image -/

/-- a dotted name `a.b.c` of ASCII IdentifierNames, the first no reserved word -/
def QName (q : Bytes) : Prop :=
  ∃ g segs, qSplit q = g :: segs ∧ JsIdent g ∧ isReserved g = false ∧ ∀ s ∈ segs, JsIdent s

/-- a directive the generator has a JavaScript function for; its literal arguments are in the image -/
def DirOk (d : Directive) : Prop :=
  (∃ jd ∈ Gen.jsDirectives, jd.name = d.name ∧ jd.jsName ≠ []) ∧ ∀ a ∈ d.args, ∀ j, litAst a = some j → Img j

def ImgBase : DataBase → Prop
  | .empty => True
  | .all => True
  | .expr e => Img e

def ImgParams : List (Bytes × JsExpr) → Prop
  | [] => True
  | (k, v) :: r => JsIdent k ∧ Img v ∧ ImgParams r

def ImgList : List JsExpr → Prop
  | [] => True
  | e :: r => Img e ∧ ImgList r

mutual
  /-- the statements whose text (the concrete syntax of Spec/JsStmt) the grammar reads back: names are JavaScript
      variable names, expressions are in `Img`, the library calls around a printed value are directives the generator
      knows, an `if` chain has a first condition, a `case` clause has a label -/
  def ImgS : JsStmt → Prop
    | .appendLit b t => JsName b ∧ ValidUtf8 t
    | .append b e ds => JsName b ∧ Img e ∧ ∀ d ∈ ds, DirOk d
    | .var x e => JsName x ∧ Img e ∧ ∀ l, e ≠ .member (.local l) sLength
    | .varEmpty x => JsName x
    | .ifs conds => (match conds with | .cons _ _ _ => True | _ => False) ∧ ImgConds conds
    | .varLength x l => JsName x ∧ JsName l
    | .varIndex x l i => JsName x ∧ JsName l ∧ JsName i
    | .forUp i lim body => JsName i ∧ JsName lim ∧ ImgSs body
    | .ifPos lim body els => JsName lim ∧ ImgSs body ∧ ImgSs els
    | .forStep i lim step idx init body => JsName i ∧ JsName lim ∧ JsName step ∧ JsName idx ∧ Img init ∧ ImgSs body
    | .switchS e cases => Img e ∧ ImgCases cases
    | .call b callee base params => JsName b ∧ QName callee ∧ ImgBase base ∧ ImgParams params
    | .ifZero idx body => JsName idx ∧ ImgSs body
    | .pluralS e cases dflt => Img e ∧ ImgPlural cases ∧ ImgSs dflt
    | .appendCss b e => JsName b ∧ Img e ∧ lv e ≤ 1
    | .debuggerS => True
  def ImgSs : JsStmts → Prop
    | .nil => True
    | .cons s r => ImgS s ∧ ImgSs r
  def ImgConds : JsConds → Prop
    | .nil => True
    | .els body => ImgSs body
    | .cons c body rest => Img c ∧ ImgSs body ∧ ImgConds rest
  def ImgCases : JsCases → Prop
    | .nil => True
    | .dflt body => ImgSs body
    | .cons labels body rest => labels ≠ [] ∧ ImgList labels ∧ ImgSs body ∧ ImgCases rest
  def ImgPlural : JsPlural → Prop
    | .nil => True
    | .cons _ body rest => ImgSs body ∧ ImgPlural rest
end

/-! ## 3'. the tokens of the text of a statement -/

theorem lex_spaces : ∀ (n : Nat) (r : Bytes), jsLex (spaces n ++ r) = jsLex r
  | 0, r => rfl
  | n + 1, r => by simp only [spaces, List.cons_append, lex_sp]; exact lex_spaces n r

/-- followed by anything that does not go on with an identifier character or a `.`, the text has the tokens -/
def LxN (bs : Bytes) (ts : List Tok) : Prop := ∀ rest, SepN rest → jsLex (bs ++ rest) = pre ts (jsLex rest)

theorem LxN.render {e : JsExpr} (h : Img e) : LxN (printPieces (render e)) (tk (plain e)) :=
  fun rest hs => lex_render e h rest hs.sep1 (fun _ => hs)

theorem qSplit_ne : ∀ q : Bytes, ∃ g segs, qSplit q = g :: segs
  | [] => ⟨_, _, rfl⟩
  | c :: r => by
    obtain ⟨g, segs, e⟩ := qSplit_ne r
    simp only [qSplit, e]
    split <;> exact ⟨_, _, rfl⟩

theorem qSplit_join : ∀ (q g : Bytes) (segs : List Bytes), qSplit q = g :: segs → q = g ++ segs.flatMap (46 :: ·)
  | [], g, segs, h => by simp only [qSplit, List.cons.injEq] at h; obtain ⟨rfl, rfl⟩ := h; rfl
  | c :: r, g, segs, h => by
    obtain ⟨g', segs', e⟩ := qSplit_ne r
    have ih := qSplit_join r g' segs' e
    simp only [qSplit, e] at h
    split at h
    · rename_i hc
      simp only [beq_iff_eq] at hc
      simp only [List.cons.injEq] at h
      obtain ⟨rfl, rfl⟩ := h
      rw [ih, hc]
      simp
    · simp only [List.cons.injEq] at h
      obtain ⟨rfl, rfl⟩ := h
      rw [ih]
      simp

theorem tk_foldl_member : ∀ (segs : List Bytes) (acc : PE),
    tk (segs.foldl PE.member acc) = tk acc ++ segs.flatMap (fun s => [.p b!".", .id s])
  | [], acc => by simp
  | s :: r, acc => by simp [tk_foldl_member r, tk]

theorem lex_segs : ∀ (segs : List Bytes) (rest : Bytes), (∀ s ∈ segs, JsIdent s) → Sep1 rest →
    jsLex (segs.flatMap (46 :: ·) ++ rest) = pre (segs.flatMap (fun s => [.p b!".", .id s])) (jsLex rest)
  | [], rest, _, _ => by simp
  | s :: r, rest, hs, hr => by
    have ih := lex_segs r rest (fun x hx => hs x (List.mem_cons_of_mem _ hx)) hr
    have hsep : Sep1 (r.flatMap (46 :: ·) ++ rest) := by
      cases r with
      | nil => simpa using hr
      | cons s' r' => exact sep1_cons rfl _
    simp only [List.flatMap_cons, List.cons_append, List.append_assoc]
    rw [lex_dot_ident (hs s (List.mem_cons_self ..)) hsep, ih, pre_pre]
    simp

theorem lex_qname {q : Bytes} (hq : QName q) {rest : Bytes} (hr : Sep1 rest) :
    jsLex (q ++ rest) = pre (tk (plainQ q)) (jsLex rest) := by
  obtain ⟨g, segs, e, hg, _, hs⟩ := hq
  have hj := qSplit_join q g segs e
  have hsep : Sep1 (segs.flatMap (46 :: ·) ++ rest) := by
    cases segs with
    | nil => simpa using hr
    | cons s' r' => exact sep1_cons rfl _
  unfold plainQ
  rw [e]
  simp only [tk_foldl_member, tk]
  conv => lhs; rw [hj]
  rw [List.append_assoc, lex_ident hg hsep, lex_segs segs rest hs hr, pre_pre]

theorem printPieces_flatMap {α : Type} (f : α → List Piece) : ∀ l : List α,
    printPieces (l.flatMap f) = l.flatMap (fun x => printPieces (f x))
  | [] => rfl
  | x :: r => by simp [printPieces_append, printPieces_flatMap f r]

/-! ### the library calls around a printed value -/

def identB (g : Bytes) : Bool :=
  match g with
  | [] => false
  | c :: r => isIdStart c && r.all isIdPart

theorem identB_ok {g : Bytes} (h : identB g = true) : JsIdent g := by
  cases g with
  | nil => simp [identB] at h
  | cons c r =>
    simp only [identB, Bool.and_eq_true, List.all_eq_true] at h
    exact ⟨c, r, rfl, h.1, h.2⟩

def qOkB (q : Bytes) : Bool :=
  match qSplit q with
  | g :: segs => identB g && !isReserved g && segs.all identB
  | [] => false

theorem qOkB_ok {q : Bytes} (h : qOkB q = true) : QName q := by
  unfold qOkB at h
  split at h
  · rename_i g segs e
    simp only [Bool.and_eq_true, Bool.not_eq_true', List.all_eq_true] at h
    exact ⟨g, segs, e, identB_ok h.1.1, h.1.2, fun s hs => identB_ok (h.2 s hs)⟩
  · cases h

/-- the table of the directives: the JavaScript name is a dotted name, and names the directive -/
theorem dir_table : ∀ jd ∈ Gen.jsDirectives, jd.jsName ≠ [] →
    directiveJsName jd.name = jd.jsName ∧ qOkB jd.jsName = true ∧ dirOfJs jd.jsName = some jd.name := by
  decide

theorem dirOk_js {d : Directive} (h : DirOk d) :
    QName (directiveJsName d.name) ∧ dirOfJs (directiveJsName d.name) = some d.name := by
  obtain ⟨⟨jd, hjd, hn, hne⟩, _⟩ := h
  obtain ⟨h1, h2, h3⟩ := dir_table jd hjd hne
  rw [← hn, h1]
  exact ⟨qOkB_ok h2, h3⟩

theorem tkArgsTail_plainArgs : ∀ xs : List PE,
    tkArgsTail (plainArgs xs) = xs.flatMap (fun x => Tok.p b!"," :: tk x) ++ [.p b!")"]
  | [] => rfl
  | x :: r => by simp [plainArgs, tkArgsTail, tkArgsTail_plainArgs r]

/-- `,a,b` -/
theorem lex_argPieces : ∀ (args : List Expr) (rest : Bytes), (∀ a ∈ args, ∀ j, litAst a = some j → Img j) → SepN rest →
    jsLex (printPieces (args.flatMap argPieces) ++ rest) =
      pre (((args.filterMap litAst).map plain).flatMap (fun x => Tok.p b!"," :: tk x)) (jsLex rest)
  | [], rest, _, _ => by simp [printPieces_nil]
  | a :: r, rest, h, hr => by
    have ih := lex_argPieces r rest (fun x hx => h x (List.mem_cons_of_mem _ hx)) hr
    simp only [List.flatMap_cons, printPieces_append, List.append_assoc, List.filterMap_cons]
    cases hl : litAst a with
    | none => simp only [argPieces, hl, printPieces_nil, List.nil_append]; exact ih
    | some j =>
      have hj := h a (List.mem_cons_self ..) j hl
      have hsep : SepN (printPieces (r.flatMap argPieces) ++ rest) := by
        -- the next piece starts with `,`, or the rest follows
        clear ih
        induction r with
        | nil => simpa [printPieces_nil] using hr
        | cons a' r' ih' =>
          simp only [List.flatMap_cons, printPieces_append, List.append_assoc]
          cases hl' : litAst a' with
          | none =>
            simp only [argPieces, hl', printPieces_nil, List.nil_append]
            exact ih' (fun x hx => h x (by
              rcases List.mem_cons.mp hx with rfl | hx
              · exact List.mem_cons_self ..
              · exact List.mem_cons_of_mem _ (List.mem_cons_of_mem _ hx)))
          | some j' =>
            simp only [argPieces, hl', printPieces_append, printPieces_cons, printPieces_nil, Piece.print, List.append_assoc,
              List.cons_append, List.nil_append]
            exact sepN_cons rfl (by decide) _
      simp only [argPieces, hl, printPieces_append, printPieces_cons, printPieces_nil, Piece.print, List.append_assoc,
        List.cons_append, List.nil_append, List.append_nil]
      rw [lex_comma, LxN.render hj _ hsep, ih, pre_pre, pre_pre]
      simp

theorem print_open (d : Directive) : printPieces (openPieces d) = directiveJsName d.name ++ [40] := by
  simp [openPieces, printPieces_cons, printPieces_nil, Piece.print]

/-- `,a,b)` -/
theorem lex_close (d : Directive) (h : DirOk d) (rest : Bytes) :
    jsLex (printPieces (closePieces d) ++ rest) = pre (tkArgsTail (plainArgs (dirArgs d))) (jsLex rest) := by
  unfold closePieces dirArgs
  simp only [printPieces_append, List.append_assoc, tkArgsTail_plainArgs, List.flatMap_append]
  by_cases ht : (d.name == b!"truncate" && d.args.length == 1) = true
  · have ht' : (d.name == sTruncate && d.args.length == 1) = true := ht
    simp only [ht, ht', if_true, printPieces_cons, printPieces_nil, Piece.print, List.append_assoc, List.cons_append,
      List.nil_append, List.append_nil]
    rw [lex_argPieces d.args _ h.2 (sepN_cons rfl (by decide) _), lex_comma]
    rwc lex_ident (g := b!"true") ⟨_, _, rfl, rfl, by decide⟩ (rest := 41 :: rest) (sep1_cons rfl _)
    rw [lex_rparen]
    simp [pre_pre, tk]
  · have ht' : ¬ (d.name == sTruncate && d.args.length == 1) = true := ht
    simp only [ht, ht', if_false, printPieces_cons, printPieces_nil, Piece.print, List.append_assoc, List.cons_append,
      List.nil_append, List.append_nil, Bool.false_eq_true]
    rw [lex_argPieces d.args _ h.2 (sepN_cons rfl (by decide) _), lex_rparen, pre_pre]
    simp

theorem sepN_args : ∀ (args : List Expr) (tail : Bytes), SepN tail → SepN (printPieces (args.flatMap argPieces) ++ tail)
  | [], tail, ht => by simpa [printPieces_nil] using ht
  | a :: r, tail, ht => by
    simp only [List.flatMap_cons, printPieces_append, List.append_assoc]
    cases hl : litAst a with
    | none => simp only [argPieces, hl, printPieces_nil, List.nil_append]; exact sepN_args r tail ht
    | some j =>
      simp only [argPieces, hl, printPieces_append, printPieces_cons, printPieces_nil, Piece.print, List.append_assoc,
        List.cons_append, List.nil_append]
      exact sepN_cons rfl (by decide) _

theorem close_sepN (d : Directive) (rest : Bytes) : SepN (printPieces (closePieces d) ++ rest) := by
  unfold closePieces
  simp only [printPieces_append, List.append_assoc]
  apply sepN_args
  split <;> simp only [printPieces_cons, printPieces_nil, Piece.print, List.cons_append, List.nil_append] <;>
    exact sepN_cons rfl (by decide) _

/-- `dN(…d1(inner, a…)…, a…)` -/
theorem lex_nest : ∀ (ds : List Directive) (inner : Bytes) (P : PE), (∀ d ∈ ds, DirOk d) → LxN inner (tk P) →
    LxN (printPieces (ds.reverse.flatMap openPieces) ++ (inner ++ printPieces (ds.flatMap closePieces))) (tk (plainPrint P ds))
  | [], inner, P, _, hi => by
    intro rest hr
    simpa [printPieces_nil, plainPrint] using hi rest hr
  | d :: ds, inner, P, hd, hi => by
    have hd0 := hd d (List.mem_cons_self ..)
    obtain ⟨hq, _⟩ := dirOk_js hd0
    have step : LxN (printPieces (openPieces d) ++ (inner ++ printPieces (closePieces d)))
        (tk (.call (plainQ (directiveJsName d.name)) (.cons P (plainArgs (dirArgs d))))) := by
      intro rest hr
      rw [print_open]
      simp only [List.append_assoc, List.cons_append, List.nil_append]
      rw [lex_qname hq (sep1_cons rfl _), lex_lparen, hi _ (close_sepN d rest), lex_close d hd0]
      simp [pre_pre, tk, tkArgs]
    have ih := lex_nest ds _ _ (fun x hx => hd x (List.mem_cons_of_mem _ hx)) step
    intro rest hr
    have := ih rest hr
    simp only [List.reverse_cons, List.flatMap_append, List.flatMap_cons, List.flatMap_nil, List.append_nil,
      printPieces_append, List.append_assoc] at this ⊢
    simpa [plainPrint] using this

/-! ### the data argument of a call -/

theorem lex_base (b : DataBase) (h : ImgBase b) : LxN (printPieces (basePieces b)) (tk (plainBase b)) := by
  intro rest hr
  cases b with
  | empty =>
    simp only [basePieces, printPieces_cons, printPieces_nil, Piece.print, List.append_nil, List.cons_append, List.nil_append]
    rw [lex_lbrace, lex_rbrace]
    simp [pre_pre, plainBase, tk, tkProps]
  | all =>
    simp only [basePieces, printPieces_cons, printPieces_nil, Piece.print, List.append_nil]
    exact lex_ident (g := sOptData) ⟨_, _, rfl, rfl, by decide⟩ hr.sep1
  | expr e => exact LxN.render h rest hr

theorem kv_sepN : ∀ (ps : List (Bytes × JsExpr)) (rest : Bytes), SepN (printPieces (kvPieces ps false) ++ 125 :: rest)
  | [], rest => by simpa [kvPieces, printPieces_nil] using sepN_cons rfl (by decide) _
  | (k, v) :: r, rest => by
    simp only [kvPieces, printPieces_append, printPieces_cons, printPieces_nil, Piece.print, List.append_assoc,
      List.cons_append, List.nil_append, Bool.false_eq_true, if_false]
    exact sepN_cons rfl (by decide) _

/-- `k: v, k: v}` -/
theorem lex_kv : ∀ (ps : List (Bytes × JsExpr)) (first : Bool) (rest : Bytes), ImgParams ps →
    jsLex (printPieces (kvPieces ps first) ++ 125 :: rest) =
      pre (if first then tkProps (plainProps ps) else tkPropsTail (plainProps ps)) (jsLex rest)
  | [], first, rest, _ => by
    simp only [kvPieces, printPieces_nil, List.nil_append, lex_rbrace]
    cases first <;> rfl
  | (k, v) :: r, first, rest, h => by
    simp only [ImgParams] at h
    have ih := lex_kv r false rest h.2.2
    cases first
    · simp only [kvPieces, printPieces_append, printPieces_cons, printPieces_nil, Piece.print, List.append_assoc,
        List.cons_append, List.nil_append, Bool.false_eq_true, if_false, List.append_nil]
      rw [lex_comma, lex_sp, lex_ident h.1 (sep1_cons rfl _), lex_colon, lex_sp, LxN.render h.2.1 _ (kv_sepN r rest), ih]
      simp [pre_pre, plainProps, tkPropsTail]
    · simp only [kvPieces, printPieces_append, printPieces_cons, printPieces_nil, Piece.print, List.append_assoc,
        List.cons_append, List.nil_append, if_true, List.append_nil]
      rw [lex_ident h.1 (sep1_cons rfl _), lex_colon, lex_sp, LxN.render h.2.1 _ (kv_sepN r rest), ih]
      simp [pre_pre, plainProps, tkProps]

theorem qname_augment : QName sAugment := qOkB_ok (by decide)

theorem lex_augment {rest : Bytes} (hr : Sep1 rest) :
    jsLex (115 :: 111 :: 121 :: 46 :: 36 :: 36 :: 97 :: 117 :: 103 :: 109 :: 101 :: 110 :: 116 :: 77 :: 97 :: 112 :: rest) = pre (tk (plainQ sAugment)) (jsLex rest) :=
  lex_qname qname_augment hr

theorem lex_data (b : DataBase) (ps : List (Bytes × JsExpr)) (hb : ImgBase b) (hp : ImgParams ps) :
    LxN (printPieces (dataPieces b ps)) (tk (plainData b ps)) := by
  cases ps with
  | nil => exact lex_base b hb
  | cons p r =>
    intro rest _
    simp only [dataPieces, plainData, printPieces_append, printPieces_cons, printPieces_nil, Piece.print, List.append_assoc,
      List.cons_append, List.nil_append, List.append_nil]
    rw [lex_augment (sep1_cons rfl _), lex_lparen, lex_base b hb _ (sepN_cons rfl (by decide) _), lex_comma, lex_sp, lex_lbrace, lex_kv (p :: r) true _ hp,
      lex_rparen]
    simp [pre_pre, tk, tkArgs, tkArgsTail]

/-! ### keywords -/

theorem lexk_var (rest : Bytes) : jsLex (118 :: 97 :: 114 :: 32 :: rest) = pre [.id b!"var"] (jsLex rest) := by
  have := lex_ident (g := b!"var") ⟨_, _, rfl, rfl, by decide⟩ (rest := 32 :: rest) (sep1_cons rfl _)
  rw [lex_sp] at this; exact this
theorem lexk_if (rest : Bytes) : jsLex (105 :: 102 :: 32 :: rest) = pre [.id b!"if"] (jsLex rest) := by
  have := lex_ident (g := b!"if") ⟨_, _, rfl, rfl, by decide⟩ (rest := 32 :: rest) (sep1_cons rfl _)
  rw [lex_sp] at this; exact this
theorem lexk_for (rest : Bytes) : jsLex (102 :: 111 :: 114 :: 32 :: rest) = pre [.id b!"for"] (jsLex rest) := by
  have := lex_ident (g := b!"for") ⟨_, _, rfl, rfl, by decide⟩ (rest := 32 :: rest) (sep1_cons rfl _)
  rw [lex_sp] at this; exact this
theorem lexk_switch (rest : Bytes) : jsLex (115 :: 119 :: 105 :: 116 :: 99 :: 104 :: 32 :: rest) = pre [.id b!"switch"] (jsLex rest) := by
  have := lex_ident (g := b!"switch") ⟨_, _, rfl, rfl, by decide⟩ (rest := 32 :: rest) (sep1_cons rfl _)
  rw [lex_sp] at this; exact this
theorem lexk_case (rest : Bytes) : jsLex (99 :: 97 :: 115 :: 101 :: 32 :: rest) = pre [.id b!"case"] (jsLex rest) := by
  have := lex_ident (g := b!"case") ⟨_, _, rfl, rfl, by decide⟩ (rest := 32 :: rest) (sep1_cons rfl _)
  rw [lex_sp] at this; exact this
theorem lexk_else (rest : Bytes) : jsLex (101 :: 108 :: 115 :: 101 :: 32 :: rest) = pre [.id b!"else"] (jsLex rest) := by
  have := lex_ident (g := b!"else") ⟨_, _, rfl, rfl, by decide⟩ (rest := 32 :: rest) (sep1_cons rfl _)
  rw [lex_sp] at this; exact this
theorem lexk_return (rest : Bytes) : jsLex (114 :: 101 :: 116 :: 117 :: 114 :: 110 :: 32 :: rest) = pre [.id b!"return"] (jsLex rest) := by
  have := lex_ident (g := b!"return") ⟨_, _, rfl, rfl, by decide⟩ (rest := 32 :: rest) (sep1_cons rfl _)
  rw [lex_sp] at this; exact this
theorem lexk_default (rest : Bytes) : jsLex (100 :: 101 :: 102 :: 97 :: 117 :: 108 :: 116 :: 58 :: rest) = pre [.id b!"default", .p b!":"] (jsLex rest) := by
  have := lex_ident (g := b!"default") ⟨_, _, rfl, rfl, by decide⟩ (rest := 58 :: rest) (sep1_cons rfl _)
  rw [lex_colon, pre_pre] at this; exact this
theorem lexk_break (rest : Bytes) : jsLex (98 :: 114 :: 101 :: 97 :: 107 :: 59 :: rest) = pre [.id b!"break", .p b!";"] (jsLex rest) := by
  have := lex_ident (g := b!"break") ⟨_, _, rfl, rfl, by decide⟩ (rest := 59 :: rest) (sep1_cons rfl _)
  rw [lex_semi, pre_pre] at this; exact this
theorem lexk_optsb (rest : Bytes) : jsLex (111 :: 112 :: 116 :: 95 :: 115 :: 98 :: 44 :: 32 :: 111 :: 112 :: 116 :: 95 :: 105 :: 106 :: 68 :: 97 :: 116 :: 97 :: 41 :: 59 :: rest) =
    pre [.id b!"opt_sb", .p b!",", .id b!"opt_ijData", .p b!")", .p b!";"] (jsLex rest) := by
  have h1 := lex_ident (g := b!"opt_sb") ⟨_, _, rfl, rfl, by decide⟩ (rest := 44 :: 32 :: 111 :: 112 :: 116 :: 95 :: 105 :: 106 :: 68 :: 97 :: 116 :: 97 :: 41 :: 59 :: rest) (sep1_cons rfl _)
  have h2 := lex_ident (g := b!"opt_ijData") ⟨_, _, rfl, rfl, by decide⟩ (rest := 41 :: 59 :: rest) (sep1_cons rfl _)
  rw [lex_comma, lex_sp] at h1
  rw [lex_rparen, lex_semi] at h2
  exact h1.trans (by rw [show (111 :: 112 :: 116 :: 95 :: 105 :: 106 :: 68 :: 97 :: 116 :: 97 :: 41 :: 59 :: rest) = b!"opt_ijData" ++ 41 :: 59 :: rest from rfl, h2]; simp [pre_pre])
theorem lex_num0 {c : UInt8} (hc : isIdPart c = false) (hd : c ≠ 46) (rest : Bytes) :
    jsLex (48 :: c :: rest) = pre [.num 0] (jsLex (c :: rest)) := by
  have := lex_nat 0 (rest := c :: rest) (sepN_cons hc hd _)
  exact this
theorem lex_emptyStr (rest : Bytes) : jsLex (39 :: 39 :: rest) = pre [.str []] (jsLex rest) := by
  have := lex_str (s := []) ValidUtf8.nil rest
  exact this

/-! ### statements -/

theorem tkSs_snoc : ∀ (ss : PStmts) (s : PS), tkSs (PStmts.snoc ss s) = tkSs ss ++ tkS s
  | .nil, s => by simp [PStmts.snoc, tkSs]
  | .cons a r, s => by simp [PStmts.snoc, tkSs, tkSs_snoc r s]

theorem tkCs_plainLabels : ∀ (ls : List PE) (body : PStmts) (rest : PClauses), ls ≠ [] →
    tkCs (plainLabels ls body rest) = ls.flatMap (fun l => Tok.id b!"case" :: (tk l ++ [.p b!":"])) ++ (tkSs body ++ tkCs rest)
  | [], _, _, h => absurd rfl h
  | [l], body, rest, _ => by simp [plainLabels, tkCs]
  | l :: l' :: ls, body, rest, _ => by
    have := tkCs_plainLabels (l' :: ls) body rest (by simp)
    simp only [plainLabels, tkCs, this, tkSs]
    simp

theorem lex_labels (f : JsExpr → List Piece) (ind : Nat)
    (hf : ∀ j, printPieces (f j) = spaces ind ++ (99 :: 97 :: 115 :: 101 :: 32 :: (printPieces (render j) ++ [58, 10]))) :
    ∀ (labels : List JsExpr) (rest : Bytes), ImgList labels →
    jsLex (printPieces (labels.flatMap f) ++ rest) =
      pre ((labels.map plain).flatMap (fun l => Tok.id b!"case" :: (tk l ++ [.p b!":"]))) (jsLex rest)
  | [], rest, _ => by simp [printPieces_nil]
  | l :: r, rest, h => by
    simp only [ImgList] at h
    have ih := lex_labels f ind hf r rest h.2
    simp only [List.flatMap_cons, printPieces_append, hf, List.append_assoc, List.cons_append, List.nil_append, List.map_cons]
    rw [lex_spaces, lexk_case, LxN.render h.1 _ (sepN_cons rfl (by decide) _), lex_colon, lex_nl, ih]
    simp [pre_pre]

theorem renderConds_false (ind : Nat) (conds : JsConds) (h : conds ≠ .nil) :
    printPieces (renderConds false ind conds false) = b!" else " ++ printPieces (renderConds false ind conds true) := by
  cases conds with
  | nil => exact absurd rfl h
  | els body => simp [renderConds, printPieces_append, printPieces_cons, printPieces_nil, Piece.print]
  | cons c body rest => simp [renderConds, printPieces_append, printPieces_cons, printPieces_nil, Piece.print]

theorem tkS_plainConds_cons (c : JsExpr) (body : JsStmts) (rest : JsConds) (h : rest ≠ .nil) :
    tkS (plainConds (.cons c body rest)) =
      .id b!"if" :: .p b!"(" :: (tk (plain c) ++ .p b!")" :: (tkS (.block (plainSs body)) ++ .id b!"else" :: tkS (plainConds rest))) := by
  cases rest with
  | nil => exact absurd rfl h
  | els e => simp [plainConds, tkS]
  | cons c' b' r' => simp [plainConds, tkS]

/-- the tokens of the `case n:` clauses of a plural switch -/
def tkPlural : JsPlural → List Tok
  | .nil => []
  | .cons v body rest =>
    .id b!"case" :: (tk (pnum v) ++ .p b!":" :: (tkSs (plainSs body) ++ (.id b!"break" :: .p b!";" :: tkPlural rest)))

theorem tkCs_plainPlural : ∀ (cases : JsPlural) (d : PStmts),
    tkCs (plainPlural cases d) = tkPlural cases ++ (.id b!"default" :: .p b!":" :: tkSs d)
  | .nil, d => by simp [plainPlural, tkCs, tkPlural]
  | .cons v body rest, d => by simp [plainPlural, tkCs, tkPlural, tkCs_plainPlural rest d, tkSs_snoc, tkS]

theorem lexk_debugger (rest : Bytes) : jsLex (100 :: 101 :: 98 :: 117 :: 103 :: 103 :: 101 :: 114 :: 59 :: rest) =
    pre [.id b!"debugger", .p b!";"] (jsLex rest) := by
  have := lex_ident (g := b!"debugger") ⟨_, _, rfl, rfl, by decide⟩ (rest := 59 :: rest) (sep1_cons rfl _)
  rw [lex_semi, pre_pre] at this; exact this

theorem lex_hyphenStr (rest : Bytes) : jsLex (39 :: 45 :: 39 :: rest) = pre [.str b!"-"] (jsLex rest) :=
  lex_str (s := b!"-") (ValidUtf8.seq [45] _ (by decide) ValidUtf8.nil) rest

macro "lexss" : tactic => `(tactic| simp only [renderStmt, renderStmts, renderCases, renderConds, renderPlural, printPieces_append,
  printPieces_cons, printPieces_nil, Piece.print, List.append_assoc, List.cons_append, List.nil_append, List.append_nil,
  Bool.false_eq_true, if_false, if_true])

mutual
  theorem lexS : ∀ (s : JsStmt) (ind : Nat), ImgS s → ∀ (rest : Bytes),
      jsLex (printPieces (renderStmt false ind s) ++ rest) = pre (tkS (plainS s)) (jsLex rest)
    | .appendLit b t, ind, h, rest => by
      simp only [ImgS] at h
      lexss
      rw [lex_spaces, lex_ident h.1.1 (sep1_cons rfl _), lex_sp, lex_addset_sp, lex_str h.2, lex_semi, lex_nl]
      simp [pre_pre, plainS, tkS, tk, AsgOp.tok]
    | .append b e ds, ind, h, rest => by
      simp only [ImgS] at h
      have hn := lex_nest ds _ _ h.2.2 (LxN.render h.2.1) (59 :: 10 :: rest) (sepN_cons rfl (by decide) _)
      simp only [List.append_assoc] at hn
      lexss
      rw [lex_spaces, lex_ident h.1.1 (sep1_cons rfl _), lex_sp, lex_addset_sp, hn, lex_semi, lex_nl]
      simp [pre_pre, plainS, tkS, tk, AsgOp.tok]
    | .var x e, ind, h, rest => by
      simp only [ImgS] at h
      lexss
      rw [lex_spaces, lexk_var, lex_ident h.1.1 (sep1_cons rfl _), lex_sp, lex_set_sp,
        LxN.render h.2.1 _ (sepN_cons rfl (by decide) _), lex_semi, lex_nl]
      simp [pre_pre, plainS, tkS, tkDecls, tkDeclsTail]
    | .varEmpty x, ind, h, rest => by
      simp only [ImgS] at h
      lexss
      rw [lex_spaces, lexk_var, lex_ident h.1 (sep1_cons rfl _), lex_sp, lex_set_sp, lex_emptyStr, lex_semi, lex_nl]
      simp [pre_pre, plainS, tkS, tkDecls, tkDeclsTail, tk]
    | .ifs conds, ind, h, rest => by
      simp only [ImgS] at h
      have hne : conds ≠ .nil := by intro e; rw [e] at h; exact h.1
      lexss
      rw [lex_spaces, lexConds conds ind h.2 hne, lex_nl]
      simp [plainS]
    | .varLength x l, ind, h, rest => by
      simp only [ImgS] at h
      lexss
      rw [lex_spaces, lexk_var, lex_ident h.1.1 (sep1_cons rfl _), lex_sp, lex_set_sp, lex_ident h.2.1 (sep1_cons rfl _)]
      rwc lex_dot_ident (k := sLength) ⟨_, _, rfl, rfl, by decide⟩ (rest := 59 :: 10 :: rest) (sep1_cons rfl _)
      rw [lex_semi, lex_nl]
      simp [pre_pre, plainS, tkS, tkDecls, tkDeclsTail, tk, sLength]
    | .varIndex x l i, ind, h, rest => by
      simp only [ImgS] at h
      lexss
      rw [lex_spaces, lexk_var, lex_ident h.1.1 (sep1_cons rfl _), lex_sp, lex_set_sp, lex_ident h.2.1.1 (sep1_cons rfl _),
        lex_lbrack, lex_ident h.2.2.1 (sep1_cons rfl _), lex_rbrack, lex_semi, lex_nl]
      simp [pre_pre, plainS, tkS, tkDecls, tkDeclsTail, tk]
    | .forUp i lim body, ind, h, rest => by
      simp only [ImgS] at h
      lexss
      rw [lex_spaces, lexk_for, lex_lparen, lexk_var, lex_ident h.1.1 (sep1_cons rfl _), lex_sp, lex_set_sp,
        lex_num0 rfl (by decide), lex_semi, lex_sp, lex_ident h.1.1 (sep1_cons rfl _), lex_sp, lex_lt_sp,
        lex_ident h.2.1.1 (sep1_cons rfl _), lex_semi, lex_sp, lex_ident h.1.1 (sep1_cons rfl _), lex_inc_rparen, lex_sp,
        lex_lbrace, lex_nl, lexSs body (ind + 1) h.2.2, lex_spaces, lex_rbrace, lex_nl]
      simp [pre_pre, plainS, tkS, tkDecls, tkDeclsTail, tkExprs, tkExprsTail, tk, BinOp.sym]
    | .ifPos lim body els, ind, h, rest => by
      simp only [ImgS] at h
      lexss
      rw [lex_spaces, lexk_if, lex_lparen, lex_ident h.1.1 (sep1_cons rfl _), lex_sp, lex_gt_sp, lex_num0 rfl (by decide),
        lex_rparen, lex_sp, lex_lbrace, lex_nl, lexSs body (ind + 1) h.2.1, lex_spaces, lex_rbrace, lex_sp, lexk_else, lex_lbrace,
        lex_nl, lexSs els (ind + 1) h.2.2, lex_spaces, lex_rbrace, lex_nl]
      simp [pre_pre, plainS, tkS, tk, BinOp.sym]
    | .forStep i lim step idx init body, ind, h, rest => by
      simp only [ImgS] at h
      lexss
      rw [lex_spaces, lexk_for, lex_lparen, lexk_var, lex_ident h.1.1 (sep1_cons rfl _), lex_sp, lex_set_sp,
        LxN.render h.2.2.2.2.1 _ (sepN_cons rfl (by decide) _), lex_comma, lex_sp, lex_ident h.2.2.2.1.1 (sep1_cons rfl _),
        lex_sp, lex_set_sp, lex_num0 rfl (by decide), lex_semi, lex_sp, lex_ident h.1.1 (sep1_cons rfl _), lex_sp, lex_lt_sp,
        lex_ident h.2.1.1 (sep1_cons rfl _), lex_semi, lex_sp, lex_ident h.1.1 (sep1_cons rfl _), lex_sp, lex_addset_sp,
        lex_ident h.2.2.1.1 (sep1_cons rfl _), lex_comma, lex_sp, lex_ident h.2.2.2.1.1 (sep1_cons rfl _), lex_inc_rparen,
        lex_sp, lex_lbrace, lex_nl, lexSs body (ind + 1) h.2.2.2.2.2, lex_spaces, lex_rbrace, lex_nl]
      simp [pre_pre, plainS, tkS, tkDecls, tkDeclsTail, tkExprs, tkExprsTail, tk, BinOp.sym, AsgOp.tok]
    | .switchS e cases, ind, h, rest => by
      simp only [ImgS] at h
      lexss
      rw [lex_spaces, lexk_switch, lex_lparen, LxN.render h.1 _ (sepN_cons rfl (by decide) _), lex_rparen, lex_sp, lex_lbrace,
        lex_nl, lexCases cases (ind + 1) h.2, lex_spaces, lex_rbrace, lex_nl]
      simp [pre_pre, plainS, tkS]
    | .call b callee base params, ind, h, rest => by
      simp only [ImgS] at h
      lexss
      rw [lex_spaces, lex_ident h.1.1 (sep1_cons rfl _), lex_sp, lex_addset_sp, lex_qname h.2.1 (sep1_cons rfl _), lex_lparen,
        lex_data base params h.2.2.1 h.2.2.2 _ (sepN_cons rfl (by decide) _), lex_comma, lex_sp, lexk_optsb, lex_nl]
      simp [pre_pre, plainS, tkS, tk, tkArgs, tkArgsTail, AsgOp.tok]
    | .ifZero idx body, ind, h, rest => by
      simp only [ImgS] at h
      lexss
      rw [lex_spaces, lexk_if, lex_lparen, lex_ident h.1.1 (sep1_cons rfl _), lex_sp, lex_eq_sp, lex_num0 rfl (by decide),
        lex_rparen, lex_sp, lex_lbrace, lex_nl, lexSs body (ind + 1) h.2, lex_spaces, lex_rbrace, lex_nl]
      simp [pre_pre, plainS, tkS, tk, BinOp.sym]
    | .pluralS e cases dflt, ind, h, rest => by
      simp only [ImgS] at h
      lexss
      rw [lex_spaces, lexk_switch, lex_lparen, LxN.render h.1 _ (sepN_cons rfl (by decide) _), lex_rparen, lex_sp, lex_lbrace,
        lex_nl, lexPlural cases (ind + 1) h.2.1, lex_spaces, lexk_default, lex_nl, lexSs dflt (ind + 1 + 1) h.2.2, lex_spaces,
        lex_rbrace, lex_nl]
      simp [pre_pre, plainS, tkS, tkCs_plainPlural, tkCs]
    | .appendCss b e, ind, h, rest => by
      simp only [ImgS] at h
      lexss
      rw [lex_spaces, lex_ident h.1.1 (sep1_cons rfl _), lex_sp, lex_addset_sp, LxN.render h.2.1 _ (sepN_cons rfl (by decide) _),
        lex_sp, lex_plus_sp, lex_hyphenStr, lex_semi, lex_nl]
      simp [pre_pre, plainS, tkS, tk, AsgOp.tok, BinOp.sym]
    | .debuggerS, ind, _, rest => by
      lexss
      rw [lex_spaces, lexk_debugger, lex_nl]
      simp [plainS, tkS]
  theorem lexSs : ∀ (ss : JsStmts) (ind : Nat), ImgSs ss → ∀ (rest : Bytes),
      jsLex (printPieces (renderStmts false ind ss) ++ rest) = pre (tkSs (plainSs ss)) (jsLex rest)
    | .nil, ind, _, rest => by simp [renderStmts, printPieces_nil, plainSs, tkSs]
    | .cons s r, ind, h, rest => by
      simp only [ImgSs] at h
      lexss
      rw [lexS s ind h.1, lexSs r ind h.2]
      simp [pre_pre, plainSs, tkSs]
  theorem lexConds : ∀ (conds : JsConds) (ind : Nat), ImgConds conds → conds ≠ .nil → ∀ (rest : Bytes),
      jsLex (printPieces (renderConds false ind conds true) ++ rest) = pre (tkS (plainConds conds)) (jsLex rest)
    | .nil, _, _, hne, _ => absurd rfl hne
    | .els body, ind, h, _, rest => by
      simp only [ImgConds] at h
      lexss
      rw [lex_lbrace, lex_nl, lexSs body (ind + 1) h, lex_spaces, lex_rbrace]
      simp [pre_pre, plainConds, tkS]
    | .cons c body rest', ind, h, _, rest => by
      simp only [ImgConds] at h
      by_cases hr : rest' = .nil
      · subst hr
        lexss
        rw [lexk_if, lex_lparen, LxN.render h.1 _ (sepN_cons rfl (by decide) _), lex_rparen, lex_sp, lex_lbrace, lex_nl,
          lexSs body (ind + 1) h.2.1, lex_spaces, lex_rbrace]
        simp [pre_pre, plainConds, tkS]
      · have ih := lexConds rest' ind h.2.2 hr rest
        have hf := renderConds_false ind rest' hr
        simp only [renderConds, printPieces_append, printPieces_cons, printPieces_nil, Piece.print, List.append_assoc,
          List.cons_append, List.nil_append, List.append_nil, if_true, hf]
        rw [lexk_if, lex_lparen, LxN.render h.1 _ (sepN_cons rfl (by decide) _), lex_rparen, lex_sp, lex_lbrace, lex_nl,
          lexSs body (ind + 1) h.2.1, lex_spaces, lex_rbrace, lex_sp, lexk_else, ih, tkS_plainConds_cons c body rest' hr]
        simp [pre_pre, tkS]
  theorem lexCases : ∀ (cases : JsCases) (ind : Nat), ImgCases cases → ∀ (rest : Bytes),
      jsLex (printPieces (renderCases false ind cases) ++ rest) = pre (tkCs (plainCases cases)) (jsLex rest)
    | .nil, ind, _, rest => by simp [renderCases, printPieces_nil, plainCases, tkCs]
    | .dflt body, ind, h, rest => by
      simp only [ImgCases] at h
      lexss
      rw [lex_spaces, lexk_default, lex_nl, lexSs body (ind + 1) h, lex_spaces, lexk_break, lex_nl]
      simp [pre_pre, plainCases, tkCs, tkSs_snoc, tkS]
    | .cons labels body rest', ind, h, rest => by
      simp only [ImgCases] at h
      simp only [renderCases, printPieces_append, List.append_assoc]
      rw [lex_labels _ ind (fun j => by simp [printPieces_append, printPieces_cons, printPieces_nil, Piece.print]) labels _ h.2.1,
        lexSs body (ind + 1) h.2.2.1]
      simp only [printPieces_cons, printPieces_nil, Piece.print, List.append_assoc, List.cons_append, List.nil_append,
        List.append_nil]
      rw [lex_spaces, lexk_break, lex_nl, lexCases rest' ind h.2.2.2]
      simp [pre_pre, plainCases, tkCs_plainLabels _ _ _ (by simpa using h.1 : labels.map plain ≠ []), tkSs_snoc, tkS]
  theorem lexPlural : ∀ (cases : JsPlural) (ind : Nat), ImgPlural cases → ∀ (rest : Bytes),
      jsLex (printPieces (renderPlural false ind cases) ++ rest) = pre (tkPlural cases) (jsLex rest)
    | .nil, ind, _, rest => by simp [renderPlural, printPieces_nil, tkPlural]
    | .cons v body rest', ind, h, rest => by
      simp only [ImgPlural] at h
      lexss
      rw [lex_spaces, lexk_case, lex_int v (sepN_cons rfl (by decide) _), lex_colon, lex_nl, lexSs body (ind + 1) h.1, lex_spaces,
        lexk_break, lex_nl, lexPlural rest' ind h.2]
      simp [pre_pre, tkPlural]
end

/-! ## 1'. the statement trees are well-formed -/

theorem wf_foldl_member : ∀ (segs : List Bytes) (acc : PE), Wf acc → PE.lvl acc = 0 →
    Wf (segs.foldl PE.member acc) ∧ PE.lvl (segs.foldl PE.member acc) = 0
  | [], acc, w, l => ⟨w, l⟩
  | s :: r, acc, w, l => wf_foldl_member r (.member acc s) (by simp only [Wf]; exact ⟨w, l⟩) rfl

theorem wf_plainQ {q : Bytes} (h : QName q) : Wf (plainQ q) ∧ PE.lvl (plainQ q) = 0 := by
  obtain ⟨g, segs, e, _, hr, _⟩ := h
  unfold plainQ
  rw [e]
  exact wf_foldl_member segs (.ident g) (by simp only [Wf]; exact hr) rfl

theorem wfArgs_plainArgs : ∀ xs : List PE, (∀ x ∈ xs, Wf x) → WfArgs (plainArgs xs)
  | [], _ => trivial
  | x :: r, h => by
    simp only [plainArgs, WfArgs]
    exact ⟨h x (List.mem_cons_self ..), wfArgs_plainArgs r (fun y hy => h y (List.mem_cons_of_mem _ hy))⟩

theorem wf_dirArgs (d : Directive) (h : DirOk d) : ∀ x ∈ dirArgs d, Wf x := by
  intro x hx
  unfold dirArgs at hx
  rcases List.mem_append.mp hx with hx | hx
  · simp only [List.mem_map, List.mem_filterMap] at hx
    obtain ⟨j, ⟨a, ha, hl⟩, rfl⟩ := hx
    exact plain_wf j (h.2 a ha j hl)
  · split at hx
    · simp only [List.mem_singleton] at hx; subst hx; trivial
    · cases hx

theorem wf_plainPrint : ∀ (ds : List Directive) (P : PE), (∀ d ∈ ds, DirOk d) → Wf P → Wf (plainPrint P ds)
  | [], P, _, w => w
  | d :: ds, P, h, w => by
    have hd := h d (List.mem_cons_self ..)
    have hq := wf_plainQ (dirOk_js hd).1
    simp only [plainPrint, List.foldl_cons]
    apply wf_plainPrint ds _ (fun x hx => h x (List.mem_cons_of_mem _ hx))
    simp only [Wf, WfArgs]
    exact ⟨hq.1, hq.2, w, wfArgs_plainArgs _ (wf_dirArgs d hd)⟩

theorem headTok_plainQ (q : Bytes) : ∃ g, headTok (plainQ q) = .id g := by
  unfold plainQ
  have : ∀ (segs : List Bytes) (acc : PE), headTok (segs.foldl PE.member acc) = headTok acc := by
    intro segs
    induction segs with
    | nil => intro acc; rfl
    | cons s r ih => intro acc; simp only [List.foldl_cons, ih]; rfl
  split
  · rename_i g segs _
    exact ⟨g, by rw [this]; rfl⟩
  · exact ⟨[], rfl⟩

theorem wf_plainBase (b : DataBase) (h : ImgBase b) : Wf (plainBase b) := by
  cases b with
  | empty => simp [plainBase, Wf, WfProps]
  | all => simp only [plainBase, Wf]; decide
  | expr e => exact plain_wf e h

theorem wf_plainProps : ∀ ps : List (Bytes × JsExpr), ImgParams ps → WfProps (plainProps ps)
  | [], _ => trivial
  | (k, v) :: r, h => by
    simp only [ImgParams] at h
    simp only [plainProps, WfProps]
    exact ⟨plain_wf v h.2.1, wf_plainProps r h.2.2⟩

theorem wf_plainData (b : DataBase) (ps : List (Bytes × JsExpr)) (hb : ImgBase b) (hp : ImgParams ps) :
    Wf (plainData b ps) := by
  cases ps with
  | nil => exact wf_plainBase b hb
  | cons p r =>
    have hq := wf_plainQ qname_augment
    simp only [plainData, Wf, WfArgs]
    exact ⟨hq.1, hq.2, wf_plainBase b hb, wf_plainProps _ hp, trivial⟩

theorem wfSs_snoc : ∀ (ss : PStmts) (s : PS), WfSs ss → WfS s → WfSs (PStmts.snoc ss s)
  | .nil, s, _, w => by simp only [PStmts.snoc, WfSs]; exact ⟨w, trivial⟩
  | .cons a r, s, h, w => by
    simp only [WfSs] at h
    simp only [PStmts.snoc, WfSs]
    exact ⟨h.1, wfSs_snoc r s h.2 w⟩

theorem wfCs_plainLabels : ∀ (ls : List PE) (body : PStmts) (rest : PClauses), (∀ l ∈ ls, Wf l) → WfSs body → WfCs rest →
    WfCs (plainLabels ls body rest)
  | [], _, _, _, _, wr => wr
  | [l], body, rest, hl, wb, wr => by
    simp only [plainLabels, WfCs]
    exact ⟨hl l (List.mem_cons_self ..), wb, wr⟩
  | l :: l' :: ls, body, rest, hl, wb, wr => by
    simp only [plainLabels, WfCs]
    exact ⟨hl l (List.mem_cons_self ..), trivial,
      wfCs_plainLabels (l' :: ls) body rest (fun x hx => hl x (List.mem_cons_of_mem _ hx)) wb wr⟩

theorem imgList_wf : ∀ (ls : List JsExpr), ImgList ls → ∀ l ∈ ls.map plain, Wf l
  | [], _, l, hl => by cases hl
  | e :: r, h, l, hl => by
    simp only [ImgList] at h
    simp only [List.map_cons, List.mem_cons] at hl
    rcases hl with rfl | hl
    · exact plain_wf e h.1
    · exact imgList_wf r h.2 l hl

theorem wf_ident {g : Bytes} (h : JsName g) : Wf (.ident g) := by simp only [Wf]; exact h.2.1

mutual
  theorem wfS_plain : ∀ (s : JsStmt), ImgS s → WfS (plainS s)
    | .appendLit b t, h => by
      simp only [ImgS] at h
      simp only [plainS, WfS, Wf, isRef, headTok]
      exact ⟨⟨h.1.2.1, trivial, trivial⟩, by simp⟩
    | .append b e ds, h => by
      simp only [ImgS] at h
      simp only [plainS, WfS, Wf, isRef, headTok]
      exact ⟨⟨h.1.2.1, trivial, wf_plainPrint ds _ h.2.2 (plain_wf e h.2.1)⟩, by simp⟩
    | .var x e, h => by
      simp only [ImgS] at h
      simp only [plainS, WfS, WfDecls]
      exact ⟨by simp, h.1.2.1, plain_wf e h.2.1, trivial⟩
    | .varEmpty x, h => by
      simp only [ImgS] at h
      simp only [plainS, WfS, WfDecls, Wf]
      exact ⟨by simp, h.2.1, trivial, trivial⟩
    | .ifs conds, h => by
      simp only [ImgS] at h
      simp only [plainS]
      exact wfConds_plain conds h.2
    | .varLength x l, h => by
      simp only [ImgS] at h
      simp only [plainS, WfS, WfDecls, Wf, PE.lvl]
      exact ⟨by simp, h.1.2.1, ⟨h.2.2.1, trivial⟩, trivial⟩
    | .varIndex x l i, h => by
      simp only [ImgS] at h
      simp only [plainS, WfS, WfDecls, Wf, PE.lvl]
      exact ⟨by simp, h.1.2.1, ⟨h.2.1.2.1, trivial, h.2.2.2.1⟩, trivial⟩
    | .forUp i lim body, h => by
      simp only [ImgS] at h
      simp only [plainS, WfS, WfDecls, WfExprs, Wf, PE.lvl, BinOp.lvl]
      exact ⟨by simp, ⟨h.1.2.1, trivial, trivial⟩, ⟨h.1.2.1, h.2.1.2.1, by omega, by omega⟩, by simp, ⟨⟨h.1.2.1, trivial⟩, trivial⟩,
        wfSs_plain body h.2.2⟩
    | .ifPos lim body els, h => by
      simp only [ImgS] at h
      simp only [plainS, WfS, Wf, PE.lvl, BinOp.lvl, closed]
      exact ⟨⟨h.1.2.1, trivial, by omega, by omega⟩, wfSs_plain body h.2.1, trivial, wfSs_plain els h.2.2⟩
    | .forStep i lim step idx init body, h => by
      simp only [ImgS] at h
      simp only [plainS, WfS, WfDecls, WfExprs, Wf, PE.lvl, BinOp.lvl, isRef]
      exact ⟨by simp, ⟨h.1.2.1, plain_wf init h.2.2.2.2.1, h.2.2.2.1.2.1, trivial, trivial⟩,
        ⟨h.1.2.1, h.2.1.2.1, by omega, by omega⟩, by simp,
        ⟨⟨h.1.2.1, trivial, h.2.2.1.2.1⟩, ⟨h.2.2.2.1.2.1, trivial⟩, trivial⟩, wfSs_plain body h.2.2.2.2.2⟩
    | .switchS e cases, h => by
      simp only [ImgS] at h
      simp only [plainS, WfS]
      exact ⟨plain_wf e h.1, wfCases_plain cases h.2⟩
    | .call b callee base params, h => by
      simp only [ImgS] at h
      have hq := wf_plainQ h.2.1
      simp only [plainS, WfS, Wf, WfArgs, isRef, headTok]
      refine ⟨⟨h.1.2.1, trivial, hq.1, hq.2, wf_plainData base params h.2.2.1 h.2.2.2, by decide, by decide, trivial⟩, by simp⟩
    | .ifZero idx body, h => by
      simp only [ImgS] at h
      simp only [plainS, WfS, Wf, PE.lvl, BinOp.lvl]
      exact ⟨⟨h.1.2.1, trivial, by omega, by omega⟩, wfSs_plain body h.2⟩
    | .pluralS e cases dflt, h => by
      simp only [ImgS] at h
      simp only [plainS, WfS]
      exact ⟨plain_wf e h.1, wfPlural_plain cases _ h.2.1 (wfSs_plain dflt h.2.2)⟩
    | .appendCss b e, h => by
      simp only [ImgS] at h
      have := lvl_plain1 e h.2.2
      simp only [plainS, WfS, Wf, isRef, headTok, BinOp.lvl]
      exact ⟨⟨h.1.2.1, trivial, plain_wf e h.2.1, trivial, by omega, by simp [PE.lvl]⟩, by simp⟩
    | .debuggerS, _ => trivial
  theorem wfSs_plain : ∀ (ss : JsStmts), ImgSs ss → WfSs (plainSs ss)
    | .nil, _ => trivial
    | .cons s r, h => by
      simp only [ImgSs] at h
      simp only [plainSs, WfSs]
      exact ⟨wfS_plain s h.1, wfSs_plain r h.2⟩
  theorem wfConds_plain : ∀ (conds : JsConds), ImgConds conds → WfS (plainConds conds)
    | .nil, _ => by simp [plainConds, WfS, WfSs]
    | .els body, h => by
      simp only [ImgConds] at h
      simp only [plainConds, WfS]
      exact wfSs_plain body h
    | .cons c body .nil, h => by
      simp only [ImgConds] at h
      simp only [plainConds, WfS]
      exact ⟨plain_wf c h.1, wfSs_plain body h.2.1⟩
    | .cons c body (.els e), h => by
      simp only [ImgConds] at h
      simp only [plainConds, WfS, closed]
      exact ⟨plain_wf c h.1, wfSs_plain body h.2.1, trivial, wfSs_plain e h.2.2⟩
    | .cons c body (.cons c' body' rest'), h => by
      simp only [ImgConds] at h
      have := wfConds_plain (.cons c' body' rest') (by simp only [ImgConds]; exact h.2.2)
      simp only [plainConds, WfS, closed] at this ⊢
      exact ⟨plain_wf c h.1, wfSs_plain body h.2.1, trivial, this⟩
  theorem wfCases_plain : ∀ (cases : JsCases), ImgCases cases → WfCs (plainCases cases)
    | .nil, _ => trivial
    | .dflt body, h => by
      simp only [ImgCases] at h
      simp only [plainCases, WfCs]
      exact ⟨wfSs_snoc _ _ (wfSs_plain body h) trivial, trivial⟩
    | .cons labels body rest, h => by
      simp only [ImgCases] at h
      simp only [plainCases]
      exact wfCs_plainLabels _ _ _ (imgList_wf labels h.2.1) (wfSs_snoc _ _ (wfSs_plain body h.2.2.1) trivial)
        (wfCases_plain rest h.2.2.2)
  theorem wfPlural_plain : ∀ (cases : JsPlural) (d : PStmts), ImgPlural cases → WfSs d → WfCs (plainPlural cases d)
    | .nil, d, _, hd => by simp only [plainPlural, WfCs]; exact ⟨hd, trivial⟩
    | .cons v body rest, d, h, hd => by
      simp only [ImgPlural] at h
      simp only [plainPlural, WfCs]
      exact ⟨wf_pnum v, wfSs_snoc _ _ (wfSs_plain body h.1) trivial, wfPlural_plain rest d h.2 hd⟩
end

/-! ## 2'. the statement trees are read as the statements, in canonical form

  Two statements of Spec/JsStmt have the text of another one, with the same meaning: `buf += 't';` is `appendLit`
  and `append` of a string literal without directives; `var x = '';` is `varEmpty` and `var` of the empty string
  (`var x = l.length;` is `varLength` only: `var` of `length` of a variable is `var x = (l).length;` since soyjs
  0a4b4eb).  The grammar reads the special form.  And the
  literal arguments of a directive are read back as source expressions AT POSITION 0, `|truncate:n` with the `true`
  the generator writes for it.  `canonS` maps a statement to what is read; `canon_exec` (below): it has the same
  meaning. -/

def canonArgs (d : Directive) : List Expr :=
  (d.args.filterMap litAst).filterMap litOf ++ (if d.name == sTruncate && d.args.length == 1 then [.bool 0 true] else [])

def canonDir (d : Directive) : Directive := ⟨0, d.name, canonArgs d⟩

mutual
  def canonS : JsStmt → JsStmt
    | .append b e ds =>
      (match e, ds with
        | .str t, [] => .appendLit b t
        | e, ds => .append b e (ds.map canonDir))
    | .var x e =>
      (match e with
        | .str [] => .varEmpty x
        | e => .var x e)
    | .ifs conds => .ifs (canonConds conds)
    | .forUp i lim body => .forUp i lim (canonSs body)
    | .ifPos lim body els => .ifPos lim (canonSs body) (canonSs els)
    | .forStep i lim step idx init body => .forStep i lim step idx init (canonSs body)
    | .switchS e cases => .switchS e (canonCases cases)
    | .ifZero idx body => .ifZero idx (canonSs body)
    | .pluralS e cases dflt => .pluralS e (canonPlural cases) (canonSs dflt)
    | s => s
  def canonSs : JsStmts → JsStmts
    | .nil => .nil
    | .cons s r => .cons (canonS s) (canonSs r)
  def canonConds : JsConds → JsConds
    | .nil => .nil
    | .els body => .els (canonSs body)
    | .cons c body rest => .cons c (canonSs body) (canonConds rest)
  def canonCases : JsCases → JsCases
    | .nil => .nil
    | .dflt body => .dflt (canonSs body)
    | .cons labels body rest => .cons labels (canonSs body) (canonCases rest)
  def canonPlural : JsPlural → JsPlural
    | .nil => .nil
    | .cons v body rest => .cons v (canonSs body) (canonPlural rest)
end

/-! ### names -/

theorem qnameOf_foldl : ∀ (segs : List Bytes) (acc : PE) (q : Bytes), qnameOf acc = some q →
    qnameOf (segs.foldl PE.member acc) = some (q ++ segs.flatMap (46 :: ·))
  | [], acc, q, h => by simpa using h
  | s :: r, acc, q, h => by
    have := qnameOf_foldl r (.member acc s) (q ++ 46 :: s) (by simp [qnameOf, h])
    simpa using this

theorem qnameOf_plainQ {q : Bytes} (h : QName q) : qnameOf (plainQ q) = some q := by
  obtain ⟨g, segs, e, _, _, _⟩ := h
  have hj := qSplit_join q g segs e
  unfold plainQ
  rw [e, qnameOf_foldl segs (.ident g) g rfl, ← hj]

/-! ### the library calls -/

theorem litOf_litAst {a : Expr} {j : JsExpr} (h : litAst a = some j) : ∃ e, litOf j = some e := by
  cases a <;> simp [litAst] at h <;> subst h <;> exact ⟨_, rfl⟩

theorem readLits_plainArgs : ∀ (js : List JsExpr), (∀ j ∈ js, Img j) → (∀ j ∈ js, ∃ e, litOf j = some e) →
    readLits (plainArgs (js.map plain)) = some (js.filterMap litOf)
  | [], _, _ => rfl
  | j :: r, hi, hl => by
    obtain ⟨e, he⟩ := hl j (List.mem_cons_self ..)
    have ih := readLits_plainArgs r (fun x hx => hi x (List.mem_cons_of_mem _ hx)) (fun x hx => hl x (List.mem_cons_of_mem _ hx))
    simp only [List.map_cons, plainArgs, readLits, read_plain j (hi j (List.mem_cons_self ..)), ih, he, List.filterMap_cons]

theorem readLits_append : ∀ (xs ys : List PE) (a b : List Expr), readLits (plainArgs xs) = some a →
    readLits (plainArgs ys) = some b → readLits (plainArgs (xs ++ ys)) = some (a ++ b)
  | [], ys, a, b, ha, hb => by simp only [plainArgs, readLits, Option.some.injEq] at ha; subst ha; simpa using hb
  | x :: r, ys, a, b, ha, hb => by
    simp only [List.cons_append, plainArgs, readLits] at ha ⊢
    cases hx : readE x with
    | none => simp [hx] at ha
    | some jx =>
      cases hr : readLits (plainArgs r) with
      | none => simp [hx, hr] at ha
      | some es =>
        simp only [hx, hr] at ha
        cases hl : litOf jx with
        | none => simp [hl] at ha
        | some e =>
          simp only [hl, Option.some.injEq] at ha
          subst ha
          simp [readLits_append r ys es b hr hb, hl]

theorem readLits_dirArgs (d : Directive) (h : DirOk d) : readLits (plainArgs (dirArgs d)) = some (canonArgs d) := by
  unfold dirArgs canonArgs
  apply readLits_append
  · apply readLits_plainArgs
    · intro j hj
      simp only [List.mem_filterMap] at hj
      obtain ⟨a, ha, hl⟩ := hj
      exact h.2 a ha j hl
    · intro j hj
      simp only [List.mem_filterMap] at hj
      obtain ⟨a, _, hl⟩ := hj
      exact litOf_litAst hl
  · split <;> rfl

theorem pnum_not_call (i : Int) (f : PE) (as : PArgs) : pnum i ≠ .call f as := by
  unfold pnum; split <;> (intro e; cases e)

/-- the calls of the expression fragment are no directives -/
theorem plain_call_nodir : ∀ (e : JsExpr) (f a : PE) (as : PArgs), plain e = .call f (.cons a as) →
    dirOfCallee f = none
  | .num i, f, a, as, h => absurd h (pnum_not_call i f _)
  | .call1 .floor _, _, _, _, h => by simp only [plain] at h; cases h; decide
  | .call1 .ceil _, _, _, _, h => by simp only [plain] at h; cases h; decide
  | .call1 .round _, _, _, _, h => by simp only [plain] at h; cases h; decide
  | .call2 .min _ _, _, _, _, h => by simp only [plain] at h; cases h; decide
  | .call2 .max _ _, _, _, _, h => by simp only [plain] at h; cases h; decide
  | .null, _, _, _, h => by cases h
  | .bool _, _, _, _, h => by cases h
  | .str _, _, _, _, h => by cases h
  | .neg _, _, _, _, h => by cases h
  | .not _, _, _, _, h => by cases h
  | .bin _ _ _, _, _, _, h => by cases h
  | .cond _ _ _, _, _, _, h => by cases h
  | .nonNullElse _ _ _, _, _, _, h => by cases h
  | .local _, _, _, _, h => by cases h
  | .optData _, _, _, _, h => by cases h
  | .ijData, _, _, _, h => by cases h
  | .member _ _, _, _, _, h => by cases h
  | .index _ _, _, _, _, h => by cases h
  | .guard _ _, _, _, _, h => by cases h
  | .paren _, _, _, _, h => by cases h
  | .call1 .length _, _, _, _, h => by cases h
  | .call1 .nonNull _, _, _, _, h => by cases h
  | .loopFirst _, _, _, _, h => by cases h
  | .loopLastEach _ _, _, _, _, h => by cases h
  | .loopLastRange _ _ _, _, _, _, h => by cases h

theorem readPrint_nodir {p : PE} {jp : JsExpr} (hr : readE p = some jp)
    (h : ∀ f a as, p = .call f (.cons a as) → dirOfCallee f = none) :
    readPrint p = some (jp, []) := by
  unfold readPrint
  split
  · rename_i f a as
    rw [h f a as rfl]
    simp [hr]
  · simp [hr]

theorem readPrint_foldl : ∀ (ds : List Directive) (P : PE) (e0 : JsExpr) (ds0 : List Directive), (∀ d ∈ ds, DirOk d) →
    readPrint P = some (e0, ds0) → readPrint (plainPrint P ds) = some (e0, ds0 ++ ds.map canonDir)
  | [], P, e0, ds0, _, hp => by simpa [plainPrint] using hp
  | d :: ds, P, e0, ds0, h, hp => by
    have hd := h d (List.mem_cons_self ..)
    obtain ⟨hq, hj⟩ := dirOk_js hd
    have step : readPrint (.call (plainQ (directiveJsName d.name)) (.cons P (plainArgs (dirArgs d)))) =
        some (e0, ds0 ++ [canonDir d]) := by
      unfold readPrint
      simp only [dirOfCallee, qnameOf_plainQ hq, hj, hp, readLits_dirArgs d hd, canonDir]
    have := readPrint_foldl ds _ e0 (ds0 ++ [canonDir d]) (fun x hx => h x (List.mem_cons_of_mem _ hx)) step
    simpa [plainPrint] using this

theorem readPrint_plainPrint (e : JsExpr) (he : Img e) (ds : List Directive) (h : ∀ d ∈ ds, DirOk d) :
    readPrint (plainPrint (plain e) ds) = some (e, ds.map canonDir) := by
  have := readPrint_foldl ds (plain e) e [] h (readPrint_nodir (read_plain e he) (plain_call_nodir e))
  simpa using this

/-! ### shapes of expression trees -/

theorem plain_str : ∀ (e : JsExpr) (t : Bytes), plain e = .str t → e = .str t
  | .null, _, h => by cases h
  | .bool _, _, h => by cases h
  | .num i, _, h => by unfold plain pnum at h; split at h <;> cases h
  | .str s, _, h => by simp only [plain, PE.str.injEq] at h; rw [h]
  | .neg _, _, h => by cases h
  | .not _, _, h => by cases h
  | .bin _ _ _, _, h => by cases h
  | .cond _ _ _, _, h => by cases h
  | .nonNullElse _ _ _, _, h => by cases h
  | .local g', _, h => by cases h
  | .optData k', _, h => by cases h
  | .ijData, _, h => by cases h
  | .member x k', _, h => by cases h
  | .index x i', _, h => by cases h
  | .guard _ _, _, h => by cases h
  | .paren _, _, h => by cases h
  | .call1 .floor _, _, h => by cases h
  | .call1 .ceil _, _, h => by cases h
  | .call1 .round _, _, h => by cases h
  | .call1 .length a, _, h => by cases h
  | .call1 .nonNull _, _, h => by cases h
  | .call2 .min _ _, _, h => by cases h
  | .call2 .max _ _, _, h => by cases h
  | .loopFirst _, _, h => by cases h
  | .loopLastEach _ _, _, h => by cases h
  | .loopLastRange _ _ _, _, h => by cases h
theorem plain_ident : ∀ (e : JsExpr) (g : Bytes), plain e = .ident g → e = .local g ∨ (e = .ijData ∧ g = sOptIj)
  | .null, _, h => by cases h
  | .bool _, _, h => by cases h
  | .num i, _, h => by unfold plain pnum at h; split at h <;> cases h
  | .str s, _, h => by cases h
  | .neg _, _, h => by cases h
  | .not _, _, h => by cases h
  | .bin _ _ _, _, h => by cases h
  | .cond _ _ _, _, h => by cases h
  | .nonNullElse _ _ _, _, h => by cases h
  | .local g', _, h => by simp only [plain, PE.ident.injEq] at h; rw [h]; exact Or.inl rfl
  | .optData k', _, h => by cases h
  | .ijData, _, h => by simp only [plain, PE.ident.injEq] at h; exact Or.inr ⟨rfl, h.symm⟩
  | .member x k', _, h => by cases h
  | .index x i', _, h => by cases h
  | .guard _ _, _, h => by cases h
  | .paren _, _, h => by cases h
  | .call1 .floor _, _, h => by cases h
  | .call1 .ceil _, _, h => by cases h
  | .call1 .round _, _, h => by cases h
  | .call1 .length a, _, h => by cases h
  | .call1 .nonNull _, _, h => by cases h
  | .call2 .min _ _, _, h => by cases h
  | .call2 .max _ _, _, h => by cases h
  | .loopFirst _, _, h => by cases h
  | .loopLastEach _ _, _, h => by cases h
  | .loopLastRange _ _ _, _, h => by cases h
theorem plain_not_obj : ∀ (e : JsExpr) (ps : PProps), plain e = .obj ps → False
  | .null, _, h => by cases h
  | .bool _, _, h => by cases h
  | .num i, _, h => by unfold plain pnum at h; split at h <;> cases h
  | .str s, _, h => by cases h
  | .neg _, _, h => by cases h
  | .not _, _, h => by cases h
  | .bin _ _ _, _, h => by cases h
  | .cond _ _ _, _, h => by cases h
  | .nonNullElse _ _ _, _, h => by cases h
  | .local g', _, h => by cases h
  | .optData k', _, h => by cases h
  | .ijData, _, h => by cases h
  | .member x k', _, h => by cases h
  | .index x i', _, h => by cases h
  | .guard _ _, _, h => by cases h
  | .paren _, _, h => by cases h
  | .call1 .floor _, _, h => by cases h
  | .call1 .ceil _, _, h => by cases h
  | .call1 .round _, _, h => by cases h
  | .call1 .length a, _, h => by cases h
  | .call1 .nonNull _, _, h => by cases h
  | .call2 .min _ _, _, h => by cases h
  | .call2 .max _ _, _, h => by cases h
  | .loopFirst _, _, h => by cases h
  | .loopLastEach _ _, _, h => by cases h
  | .loopLastRange _ _ _, _, h => by cases h
theorem plain_not_call3 : ∀ (e : JsExpr) (f d x y : PE) (r : PArgs), plain e = .call f (.cons d (.cons x (.cons y r))) → False
  | .null, _, _, _, _, _, h => by cases h
  | .bool _, _, _, _, _, _, h => by cases h
  | .num i, _, _, _, _, _, h => by unfold plain pnum at h; split at h <;> cases h
  | .str s, _, _, _, _, _, h => by cases h
  | .neg _, _, _, _, _, _, h => by cases h
  | .not _, _, _, _, _, _, h => by cases h
  | .bin _ _ _, _, _, _, _, _, h => by cases h
  | .cond _ _ _, _, _, _, _, _, h => by cases h
  | .nonNullElse _ _ _, _, _, _, _, _, h => by cases h
  | .local g', _, _, _, _, _, h => by cases h
  | .optData k', _, _, _, _, _, h => by cases h
  | .ijData, _, _, _, _, _, h => by cases h
  | .member x k', _, _, _, _, _, h => by cases h
  | .index x i', _, _, _, _, _, h => by cases h
  | .guard _ _, _, _, _, _, _, h => by cases h
  | .paren _, _, _, _, _, _, h => by cases h
  | .call1 .floor _, _, _, _, _, _, h => by cases h
  | .call1 .ceil _, _, _, _, _, _, h => by cases h
  | .call1 .round _, _, _, _, _, _, h => by cases h
  | .call1 .length a, _, _, _, _, _, h => by cases h
  | .call1 .nonNull _, _, _, _, _, _, h => by cases h
  | .call2 .min _ _, _, _, _, _, _, h => by cases h
  | .call2 .max _ _, _, _, _, _, _, h => by cases h
  | .loopFirst _, _, _, _, _, _, h => by cases h
  | .loopLastEach _ _, _, _, _, _, _, h => by cases h
  | .loopLastRange _ _ _, _, _, _, _, _, h => by cases h
theorem plain_not_indexId : ∀ (e : JsExpr) (x : PE) (i : Bytes), plain e = .index x (.ident i) → False
  | .null, _, _, h => by cases h
  | .bool _, _, _, h => by cases h
  | .num i, _, _, h => by unfold plain pnum at h; split at h <;> cases h
  | .str s, _, _, h => by cases h
  | .neg _, _, _, h => by cases h
  | .not _, _, _, h => by cases h
  | .bin _ _ _, _, _, h => by cases h
  | .cond _ _ _, _, _, h => by cases h
  | .nonNullElse _ _ _, _, _, h => by cases h
  | .local g', _, _, h => by cases h
  | .optData k', _, _, h => by cases h
  | .ijData, _, _, h => by cases h
  | .member x k', _, _, h => by cases h
  | .index x i', _, _, h => by cases h
  | .guard _ _, _, _, h => by cases h
  | .paren _, _, _, h => by cases h
  | .call1 .floor _, _, _, h => by cases h
  | .call1 .ceil _, _, _, h => by cases h
  | .call1 .round _, _, _, h => by cases h
  | .call1 .length a, _, _, h => by cases h
  | .call1 .nonNull _, _, _, h => by cases h
  | .call2 .min _ _, _, _, h => by cases h
  | .call2 .max _ _, _, _, h => by cases h
  | .loopFirst _, _, _, h => by cases h
  | .loopLastEach _ _, _, _, h => by cases h
  | .loopLastRange _ _ _, _, _, h => by cases h

theorem plain_not_call_obj : ∀ (e : JsExpr) (f base : PE) (ps : PProps), plain e = .call f (.cons base (.cons (.obj ps) .nil)) → False
  | .null, _, _, _, h => by cases h
  | .bool _, _, _, _, h => by cases h
  | .num i, _, _, _, h => by unfold plain pnum at h; split at h <;> cases h
  | .str s, _, _, _, h => by cases h
  | .neg _, _, _, _, h => by cases h
  | .not _, _, _, _, h => by cases h
  | .bin _ _ _, _, _, _, h => by cases h
  | .cond _ _ _, _, _, _, h => by cases h
  | .nonNullElse _ _ _, _, _, _, h => by cases h
  | .local g', _, _, _, h => by cases h
  | .optData k', _, _, _, h => by cases h
  | .ijData, _, _, _, h => by cases h
  | .member x k', _, _, _, h => by cases h
  | .index x i', _, _, _, h => by cases h
  | .guard _ _, _, _, _, h => by cases h
  | .paren _, _, _, _, h => by cases h
  | .call1 .floor _, _, _, _, h => by cases h
  | .call1 .ceil _, _, _, _, h => by cases h
  | .call1 .round _, _, _, _, h => by cases h
  | .call1 .length a, _, _, _, h => by cases h
  | .call1 .nonNull _, _, _, _, h => by cases h
  | .call2 .min _ b', _, _, _, h => by simp only [plain, PE.call.injEq, PArgs.cons.injEq] at h; exact plain_not_obj b' _ h.2.2.1
  | .call2 .max _ b', _, _, _, h => by simp only [plain, PE.call.injEq, PArgs.cons.injEq] at h; exact plain_not_obj b' _ h.2.2.1
  | .loopFirst _, _, _, _, h => by cases h
  | .loopLastEach _ _, _, _, _, h => by cases h
  | .loopLastRange _ _ _, _, _, _, h => by cases h

/-! ### `buf += …`, `var x = …`, the data argument -/

theorem readAppend_print (b : Bytes) {p : PE} {e : JsExpr} {ds : List Directive} (hp : readPrint p = some (e, ds))
    (h1 : ∀ t, p ≠ .str t) (h2 : ∀ f d a1 a2, p ≠ .call f (.cons d (.cons (.ident a1) (.cons (.ident a2) .nil))))
    (h3 : ∀ x t, p ≠ .bin .add x (.str t)) :
    readAppend b p = some (.append b e ds) := by
  unfold readAppend
  split
  · exact absurd rfl (h1 _)
  · exact absurd rfl (h3 _ _)
  · exact absurd rfl (h2 _ _ _ _)
  · simp [hp]

theorem dirArgs_not_ident (d : Directive) : ∀ x ∈ dirArgs d, ∀ g, x ≠ .ident g := by
  intro x hx g e
  subst e
  unfold dirArgs at hx
  rcases List.mem_append.mp hx with hx | hx
  · simp only [List.mem_map, List.mem_filterMap] at hx
    obtain ⟨j, ⟨a, _, hl⟩, hj⟩ := hx
    rcases plain_ident j g hj with rfl | ⟨rfl, _⟩ <;> (cases a <;> simp [litAst] at hl)
  · split at hx
    · simp at hx
    · cases hx

theorem plainPrint_shape (e : JsExpr) : ∀ (ds : List Directive) (P : PE),
    (∀ f d a1 a2, P ≠ .call f (.cons d (.cons (.ident a1) (.cons (.ident a2) .nil)))) →
    ∀ f d a1 a2, plainPrint P ds ≠ .call f (.cons d (.cons (.ident a1) (.cons (.ident a2) .nil)))
  | [], P, hP => by simpa [plainPrint] using hP
  | d :: ds, P, _ => by
    simp only [plainPrint, List.foldl_cons]
    apply plainPrint_shape e ds
    intro f d' a1 a2 h
    simp only [PE.call.injEq, PArgs.cons.injEq] at h
    obtain ⟨_, _, h3⟩ := h
    cases hd : dirArgs d with
    | nil => rw [hd] at h3; simp [plainArgs] at h3
    | cons x r =>
      rw [hd] at h3
      simp only [plainArgs, PArgs.cons.injEq] at h3
      exact dirArgs_not_ident d x (by rw [hd]; exact List.mem_cons_self ..) a1 h3.1

theorem plainPrint_not_str : ∀ (ds : List Directive) (P : PE) (t : Bytes), ds ≠ [] → plainPrint P ds ≠ .str t
  | [], _, _, h => absurd rfl h
  | [d], P, t, _ => by simp [plainPrint]
  | d :: d' :: ds, P, t, _ => by
    simp only [plainPrint, List.foldl_cons]
    exact plainPrint_not_str (d' :: ds) _ t (by simp)

theorem plainPrint_not_add (e : JsExpr) : ∀ (ds : List Directive) (x : PE) (t : Bytes),
    plainPrint (plain e) ds ≠ .bin .add x (.str t) := by
  intro ds x t h
  cases ds with
  | nil =>
    have := (plain_bin e _ _ _ (by simpa [plainPrint] using h)).1
    cases this
  | cons d r =>
    have : ∀ (ds : List Directive) (P : PE), ds ≠ [] → ∀ x t, plainPrint P ds ≠ .bin .add x (.str t) := by
      intro ds
      induction ds with
      | nil => intro P h; exact absurd rfl h
      | cons d r ih =>
        intro P _ x t h
        cases r with
        | nil => simp [plainPrint] at h
        | cons d' r' =>
          simp only [plainPrint, List.foldl_cons] at h ih
          exact ih _ (by simp) x t h
    exact this (d :: r) _ (by simp) x t h

/-- `buf += dN(…(e)…);` -/
theorem readAppend_plain (b : Bytes) (e : JsExpr) (he : Img e) (ds : List Directive) (hd : ∀ d ∈ ds, DirOk d) :
    readAppend b (plainPrint (plain e) ds) = some (canonS (.append b e ds)) := by
  by_cases hc : (∃ t, e = .str t) ∧ ds = []
  · obtain ⟨⟨t, rfl⟩, rfl⟩ := hc
    simp [plainPrint, plain, readAppend, canonS]
  · have hcanon : canonS (.append b e ds) = .append b e (ds.map canonDir) := by
      unfold canonS
      split
      · exact absurd ⟨⟨_, rfl⟩, rfl⟩ hc
      · rfl
    rw [hcanon]
    apply readAppend_print b (readPrint_plainPrint e he ds hd)
    · intro t h
      by_cases hds : ds = []
      · subst hds
        exact hc ⟨⟨t, plain_str e t (by simpa [plainPrint] using h)⟩, rfl⟩
      · exact plainPrint_not_str ds _ t hds h
    · exact plainPrint_shape e ds (plain e) (fun f d a1 a2 h => plain_not_call3 e f d _ _ _ h)
    · exact plainPrint_not_add e ds

theorem readVar_fall (x : Bytes) {p : PE} {jx : JsExpr} (h : readE p = some jx) (h1 : p ≠ .str [])
    (h2 : ∀ l k, p = .member (.ident l) k → (k == sLength && l != sOptData && l != sOptIj) = false)
    (h3 : ∀ l i, p ≠ .index (.ident l) (.ident i)) :
    readVar x p = some (.var x jx) := by
  unfold readVar
  split
  · exact absurd rfl h1
  · rw [h2 _ _ rfl]; simp [h]
  · exact absurd rfl (h3 _ _)
  · simp [h]

/-- `l.length` in the tree of an expression of the image: `opt_data.length`, `opt_ijData.length`, or the key `length`
    of the variable `l` (the length FUNCTION on a variable is written `(l).length` since soyjs 0a4b4eb) -/
theorem plain_member_length : ∀ (e : JsExpr) (l : Bytes), Img e → plain e = .member (.ident l) sLength →
    l = sOptData ∨ l = sOptIj ∨ e = .member (.local l) sLength
  | .optData k', l, _, h => by
    simp only [plain, PE.member.injEq, PE.ident.injEq] at h
    exact Or.inl h.1.symm
  | .member x k', l, hi, h => by
    simp only [plain, PE.member.injEq] at h
    obtain ⟨hx, rfl⟩ := h
    rcases plain_ident x l hx with rfl | ⟨rfl, rfl⟩
    · exact Or.inr (Or.inr rfl)
    · exact Or.inr (Or.inl rfl)
  | .call1 .length a, l, hi, h => by
    simp only [plain, PE.member.injEq] at h
    exact absurd h.1 (by simp)
  | .num i, _, _, h => by unfold plain pnum at h; split at h <;> cases h
  | .null, _, _, h => by cases h
  | .bool _, _, _, h => by cases h
  | .str _, _, _, h => by cases h
  | .neg _, _, _, h => by cases h
  | .not _, _, _, h => by cases h
  | .bin _ _ _, _, _, h => by cases h
  | .cond _ _ _, _, _, h => by cases h
  | .nonNullElse _ _ _, _, _, h => by cases h
  | .local _, _, _, h => by cases h
  | .ijData, _, _, h => by cases h
  | .index _ _, _, _, h => by cases h
  | .guard _ _, _, _, h => by cases h
  | .paren _, _, _, h => by cases h
  | .call1 .floor _, _, _, h => by cases h
  | .call1 .ceil _, _, _, h => by cases h
  | .call1 .round _, _, _, h => by cases h
  | .call1 .nonNull _, _, _, h => by cases h
  | .call2 .min _ _, _, _, h => by cases h
  | .call2 .max _ _, _, _, h => by cases h
  | .loopFirst _, _, _, h => by cases h
  | .loopLastEach _ _, _, _, h => by cases h
  | .loopLastRange _ _ _, _, _, h => by cases h

/-- `var x = e;` -/
theorem readVar_plain (x : Bytes) (e : JsExpr) (he : Img e) (hnl : ∀ l, e ≠ .member (.local l) sLength) :
    readVar x (plain e) = some (canonS (.var x e)) := by
  by_cases h1 : plain e = .str []
  · have := plain_str e [] h1
    subst this
    simp only [plain, readVar, canonS]
  · have hcanon : canonS (.var x e) = .var x e := by
      unfold canonS
      split
      · exact absurd (by simp [plain]) h1
      · rfl
    rw [hcanon]
    refine readVar_fall x (read_plain e he) h1 ?_ (fun l i h => plain_not_indexId e _ i h)
    intro l k hp
    by_cases hk : k = sLength
    · subst hk
      rcases plain_member_length e l he hp with rfl | rfl | rfl
      · simp
      · simp
      · exact absurd rfl (hnl l)
    · simp [hk]

theorem isOptData_plain (e : JsExpr) (h : Img e) : isOptData (plain e) = false := by
  cases hp : plain e with
  | ident g =>
    rcases plain_ident e g hp with rfl | ⟨rfl, rfl⟩
    · simp only [Img] at h
      simp [isOptData, h.2.2.1]
    · decide
  | _ => rfl

theorem readBase_plain (b : DataBase) (h : ImgBase b) : readBase (plainBase b) = some b := by
  cases b with
  | empty => simp [plainBase, readBase]
  | all => simp [plainBase, readBase, isOptData]
  | expr e =>
    simp only [plainBase]
    unfold readBase
    split
    · rename_i hp; exact absurd hp (fun hp => plain_not_obj e _ hp)
    · simp [isOptData_plain e h, read_plain e h]

theorem readProps_plain : ∀ ps : List (Bytes × JsExpr), ImgParams ps → readProps (plainProps ps) = some ps
  | [], _ => rfl
  | (k, v) :: r, h => by
    simp only [ImgParams] at h
    simp [plainProps, readProps, read_plain v h.2.1, readProps_plain r h.2.2]

theorem plainBase_not_augment (b : DataBase) (f base : PE) (ps : PProps) :
    plainBase b ≠ .call f (.cons base (.cons (.obj ps) .nil)) := by
  cases b with
  | empty => intro h; cases h
  | all => intro h; cases h
  | expr e =>
    exact plain_not_call_obj e f base ps

theorem readData_plain (b : DataBase) (ps : List (Bytes × JsExpr)) (hb : ImgBase b) (hp : ImgParams ps) :
    readData (plainData b ps) = some (b, ps) := by
  cases ps with
  | nil =>
    simp only [plainData]
    unfold readData
    split
    · rename_i h; exact absurd h (plainBase_not_augment b _ _ _)
    · simp [readBase_plain b hb]
  | cons p r =>
    simp only [plainData]
    unfold readData
    simp [qnameOf_plainQ qname_augment, readBase_plain b hb, readProps_plain _ hp]

/-! ### statements -/

theorem snoc_ne_nil (ss : PStmts) (s : PS) : PStmts.snoc ss s ≠ .nil := by
  cases ss <;> (intro h; cases h)

theorem readCases_labels (B : PStmts) (R : PClauses) (b' : JsStmts) (r' : JsCases) (hB : B ≠ .nil)
    (hb : readBrk B = some b') (hr : readCases R = some r') :
    ∀ (labels : List JsExpr), labels ≠ [] → ImgList labels →
      readCases (plainLabels (labels.map plain) B R) = some (.cons labels b' r')
  | [], h, _ => absurd rfl h
  | [l], _, hi => by
    simp only [ImgList] at hi
    simp only [List.map_cons, List.map_nil, plainLabels]
    cases B with
    | nil => exact absurd rfl hB
    | cons s r =>
      rw [readCases] <;> first | (intro h; cases h; done) | skip
      simp [read_plain l hi.1, hb, hr]
  | l :: l' :: ls, _, hi => by
    simp only [ImgList] at hi
    have ih := readCases_labels B R b' r' hB hb hr (l' :: ls) (by simp) (by simp only [ImgList]; exact hi.2)
    simp only [List.map_cons, plainLabels] at ih ⊢
    rw [readCases]
    simp [read_plain l hi.1, ih]

theorem plainS_ne_brk (s : JsStmt) : plainS s ≠ .brk := by
  cases s with
  | ifs conds =>
    simp only [plainS]
    cases conds with
    | nil => simp [plainConds]
    | els _ => simp [plainConds]
    | cons c b r => cases r <;> simp [plainConds]
  | _ => simp [plainS]

theorem jsName_ne {l : Bytes} (h : JsName l) : (l != sOptData) = true ∧ (l != sOptIj) = true := by
  simp [h.2.2.1, h.2.2.2]

/-- statements of the fragment are not closed by `break;` -/
theorem readBrk_none : ∀ (ss : JsStmts), readBrk (plainSs ss) = none
  | .nil => rfl
  | .cons s r => by
    simp only [plainSs]
    rw [readBrk]
    · simp [readBrk_none r]
    · intro hs
      exact absurd hs (plainS_ne_brk s)

/-- a plural switch (its `default:` clause is not closed by `break;`) is not read as an ordinary switch -/
theorem readCases_plural : ∀ (cases : JsPlural) (d : PStmts), readBrk d = none → readCases (plainPlural cases d) = none
  | .nil, d, hd => by simp [plainPlural, readCases, hd]
  | .cons v body rest, d, hd => by
    have ih := readCases_plural rest d hd
    simp only [plainPlural]
    cases hb : PStmts.snoc (plainSs body) .brk with
    | nil => exact absurd hb (snoc_ne_nil _ _)
    | cons s r =>
      rw [readCases] <;> first | (intro h; cases h; done) | skip
      simp [ih]

mutual
  theorem readS_plain : ∀ (s : JsStmt), ImgS s → readS (plainS s) = some (canonS s)
    | .appendLit b t, _ => by simp [plainS, readS, readAppend, canonS]
    | .append b e ds, h => by
      simp only [ImgS] at h
      simp only [plainS, readS]
      exact readAppend_plain b e h.2.1 ds h.2.2
    | .var x e, h => by
      simp only [ImgS] at h
      simp only [plainS, readS]
      exact readVar_plain x e h.2.1 h.2.2
    | .varEmpty x, _ => by simp [plainS, readS, readVar, canonS]
    | .ifs conds, h => by
      simp only [ImgS] at h
      cases conds with
      | nil => exact absurd h.1 (by simp)
      | els _ => exact absurd h.1 (by simp)
      | cons c body rest =>
        have hc := h.2
        simp only [ImgConds] at hc
        have hb := readSs_plain body hc.2.1
        cases rest with
        | nil =>
          simp only [plainS, plainConds]
          rw [readS]
          · simp [read_plain c hc.1, hb, canonS, canonConds]
          · intro idx n hh
            have := (plain_bin c _ _ _ hh).1
            cases this
        | els e =>
          have he := readSs_plain e (by simpa [ImgConds] using hc.2.2)
          simp only [plainS, plainConds]
          rw [readS]
          · simp [read_plain c hc.1, hb, readElse, he, canonS, canonConds]
          · intro lim els' hh _
            have := (plain_bin c _ _ _ hh).1
            cases this
        | cons c' body' rest' =>
          have he := readElse_plain (.cons c' body' rest') hc.2.2 (by simp)
          simp only [plainS]
          rw [show plainConds (.cons c body (.cons c' body' rest')) =
            .ifElse (plain c) (.block (plainSs body)) (plainConds (.cons c' body' rest')) by simp [plainConds]]
          rw [readS]
          · simp [read_plain c hc.1, hb, he, canonS, canonConds]
          · intro lim els' hh _
            have := (plain_bin c _ _ _ hh).1
            cases this
    | .varLength x l, h => by
      simp only [ImgS] at h
      simp [plainS, readS, readVar, (jsName_ne h.2).1, (jsName_ne h.2).2, canonS]
    | .varIndex x l i, _ => by simp [plainS, readS, readVar, canonS]
    | .forUp i lim body, h => by
      simp only [ImgS] at h
      simp [plainS, readS, readSs_plain body h.2.2, canonS]
    | .ifPos lim body els, h => by
      simp only [ImgS] at h
      simp [plainS, readS, readSs_plain body h.2.1, readSs_plain els h.2.2, canonS]
    | .forStep i lim step idx init body, h => by
      simp only [ImgS] at h
      simp [plainS, readS, read_plain init h.2.2.2.2.1, readSs_plain body h.2.2.2.2.2, canonS]
    | .switchS e cases, h => by
      simp only [ImgS] at h
      simp [plainS, readS, read_plain e h.1, readCases_plain cases h.2, canonS]
    | .call b callee base params, h => by
      simp only [ImgS] at h
      simp [plainS, readS, readAppend, qnameOf_plainQ h.2.1, readData_plain base params h.2.2.1 h.2.2.2, canonS]
    | .ifZero idx body, h => by
      simp only [ImgS] at h
      simp [plainS, readS, readSs_plain body h.2, canonS]
    | .pluralS e cases dflt, h => by
      simp only [ImgS] at h
      have hd := readSs_plain dflt h.2.2
      have hp := readPlural_plain cases (plainSs dflt) (canonSs dflt) h.2.1 hd
      have hn := readCases_plural cases (plainSs dflt) (readBrk_none dflt)
      simp [plainS, readS, read_plain e h.1, hn, hp, canonS]
    | .appendCss b e, h => by
      simp only [ImgS] at h
      simp [plainS, readS, readAppend, read_plain e h.2.1, canonS]
    | .debuggerS, _ => by simp [plainS, readS, canonS]
  theorem readSs_plain : ∀ (ss : JsStmts), ImgSs ss → readSs (plainSs ss) = some (canonSs ss)
    | .nil, _ => rfl
    | .cons s r, h => by
      simp only [ImgSs] at h
      simp [plainSs, readSs, readS_plain s h.1, readSs_plain r h.2, canonSs]
  theorem readElse_plain : ∀ (conds : JsConds), ImgConds conds → conds ≠ .nil →
      readElse (plainConds conds) = some (canonConds conds)
    | .nil, _, hne => absurd rfl hne
    | .els body, h, _ => by
      simp only [ImgConds] at h
      simp [plainConds, readElse, readSs_plain body h, canonConds]
    | .cons c body .nil, h, _ => by
      simp only [ImgConds] at h
      simp [plainConds, readElse, read_plain c h.1, readSs_plain body h.2.1, canonConds]
    | .cons c body (.els e), h, _ => by
      simp only [ImgConds] at h
      simp [plainConds, readElse, read_plain c h.1, readSs_plain body h.2.1, readSs_plain e h.2.2, canonConds]
    | .cons c body (.cons c' body' rest'), h, _ => by
      simp only [ImgConds] at h
      have he := readElse_plain (.cons c' body' rest') (by simp only [ImgConds]; exact h.2.2) (by simp)
      rw [show plainConds (.cons c body (.cons c' body' rest')) =
        .ifElse (plain c) (.block (plainSs body)) (plainConds (.cons c' body' rest')) by simp [plainConds]]
      simp [readElse, read_plain c h.1, readSs_plain body h.2.1, he, canonConds]
  theorem readBrk_plain : ∀ (ss : JsStmts), ImgSs ss → readBrk (PStmts.snoc (plainSs ss) .brk) = some (canonSs ss)
    | .nil, _ => by simp [plainSs, PStmts.snoc, readBrk, canonSs]
    | .cons s r, h => by
      simp only [ImgSs] at h
      simp only [plainSs, PStmts.snoc]
      rw [readBrk]
      · simp [readS_plain s h.1, readBrk_plain r h.2, canonSs]
      · intro hs
        exact absurd hs (plainS_ne_brk s)
  theorem readCases_plain : ∀ (cases : JsCases), ImgCases cases → readCases (plainCases cases) = some (canonCases cases)
    | .nil, _ => rfl
    | .dflt body, h => by
      simp only [ImgCases] at h
      simp [plainCases, readCases, readBrk_plain body h, canonCases]
    | .cons labels body rest, h => by
      simp only [ImgCases] at h
      simp only [plainCases, canonCases]
      exact readCases_labels _ _ _ _ (snoc_ne_nil _ _) (readBrk_plain body h.2.2.1) (readCases_plain rest h.2.2.2) labels h.1 h.2.1
  theorem readPlural_plain : ∀ (cases : JsPlural) (d : PStmts) (jd : JsStmts), ImgPlural cases → readSs d = some jd →
      readPlural (plainPlural cases d) = some (canonPlural cases, jd)
    | .nil, d, jd, _, hd => by simp [plainPlural, readPlural, hd, canonPlural]
    | .cons v body rest, d, jd, h, hd => by
      simp only [ImgPlural] at h
      simp [plainPlural, readPlural, read_pnum, readBrk_plain body h.1, readPlural_plain rest d jd h.2 hd, canonPlural]
end

/-- the text of a statement list of the image, read by the grammar, is that statement list (in canonical form) -/
theorem jsparse_render_stmts (ss : JsStmts) (ind : Nat) (h : ImgSs ss) :
    jsParseStmts (printPieces (renderStmts false ind ss)) = some (canonSs ss) := by
  have hl := lexSs ss ind h []
  simp only [List.append_nil, jsLex_nil] at hl
  unfold jsParseStmts
  rw [hl]
  simp only [pre, Option.map_some, List.append_nil]
  rw [parseStmts_tk _ (wfSs_plain ss h)]
  exact readSs_plain ss h

/-! ## the canonical form has the same meaning -/

section
open SoyVerif.Spec.JsStmt
open SoyVerif.Spec.JsSemRef (JVal JOut JEnv eval)
variable (F : Bytes → List Expr → JVal → JOut) (G : Callee) (fuel : Nat)

theorem applyCalls_canon (hF : ∀ d : Directive, F d.name (canonArgs d) = F d.name d.args) :
    ∀ (ds : List Directive) (o : JOut), applyCalls F (ds.map canonDir) o = applyCalls F ds o := by
  intro ds
  induction ds with
  | nil => intro o; rfl
  | cons d r ih =>
    intro o
    simp only [applyCalls, List.map_cons, List.foldl_cons, canonDir, hF d] at ih ⊢
    exact ih _

mutual
  theorem canon_execStmt (hF : ∀ d : Directive, F d.name (canonArgs d) = F d.name d.args) :
      ∀ (s : JsStmt) (env : JEnv), execStmt F G fuel (canonS s) env = execStmt F G fuel s env
    | .appendLit _ _, _ => by simp [canonS]
    | .append b e ds, env => by
      unfold canonS
      split
      · simp [execStmt, applyCalls, eval, withVal]
      · simp [execStmt, applyCalls_canon F hF]
    | .var x e, env => by
      unfold canonS
      split
      · simp [execStmt, eval, withVal]
      · rfl
    | .varEmpty _, _ => by simp [canonS]
    | .ifs conds, env => by simp [canonS, execStmt, canon_execConds hF conds env]
    | .varLength _ _, _ => by simp [canonS]
    | .varIndex _ _ _, _ => by simp [canonS]
    | .forUp i lim body, env => by
      have : execStmts F G fuel (canonSs body) = execStmts F G fuel body := funext (canon_execStmts hF body)
      simp [canonS, execStmt, this]
    | .ifPos lim body els, env => by
      simp [canonS, execStmt, canon_execStmts hF body env, canon_execStmts hF els env]
    | .forStep i lim step idx init body, env => by
      have : execStmts F G fuel (canonSs body) = execStmts F G fuel body := funext (canon_execStmts hF body)
      simp [canonS, execStmt, this]
    | .switchS e cases, env => by
      have : ∀ v, execCases F G fuel (canonCases cases) v env = execCases F G fuel cases v env :=
        fun v => canon_execCases hF cases v env
      simp [canonS, execStmt, this]
    | .call _ _ _ _, _ => by simp [canonS]
    | .ifZero idx body, env => by simp [canonS, execStmt, canon_execStmts hF body env]
    | .pluralS e cases dflt, env => by
      have h1 : ∀ i, execPlural F G fuel (canonPlural cases) i env = execPlural F G fuel cases i env :=
        fun i => canon_execPlural hF cases i env
      simp [canonS, execStmt, h1, canon_execStmts hF dflt env]
    | .appendCss _ _, _ => by simp [canonS]
    | .debuggerS, _ => by simp [canonS]
  theorem canon_execStmts (hF : ∀ d : Directive, F d.name (canonArgs d) = F d.name d.args) :
      ∀ (ss : JsStmts) (env : JEnv), execStmts F G fuel (canonSs ss) env = execStmts F G fuel ss env
    | .nil, _ => rfl
    | .cons s r, env => by
      have : ∀ env', execStmts F G fuel (canonSs r) env' = execStmts F G fuel r env' := canon_execStmts hF r
      simp [canonSs, execStmts, canon_execStmt hF s env, this]
  theorem canon_execConds (hF : ∀ d : Directive, F d.name (canonArgs d) = F d.name d.args) :
      ∀ (conds : JsConds) (env : JEnv), execConds F G fuel (canonConds conds) env = execConds F G fuel conds env
    | .nil, _ => rfl
    | .els body, env => by simp [canonConds, execConds, canon_execStmts hF body env]
    | .cons c body rest, env => by
      simp [canonConds, execConds, canon_execStmts hF body env, canon_execConds hF rest env]
  theorem canon_execCases (hF : ∀ d : Directive, F d.name (canonArgs d) = F d.name d.args) :
      ∀ (cases : JsCases) (v : JVal) (env : JEnv), execCases F G fuel (canonCases cases) v env = execCases F G fuel cases v env
    | .nil, _, _ => rfl
    | .dflt body, v, env => by simp [canonCases, execCases, canon_execStmts hF body env]
    | .cons labels body rest, v, env => by
      simp [canonCases, execCases, canon_execStmts hF body env, canon_execCases hF rest v env]
  theorem canon_execPlural (hF : ∀ d : Directive, F d.name (canonArgs d) = F d.name d.args) :
      ∀ (cases : JsPlural) (i : Int) (env : JEnv), execPlural F G fuel (canonPlural cases) i env = execPlural F G fuel cases i env
    | .nil, _, _ => rfl
    | .cons v body rest, i, env => by
      simp [canonPlural, execPlural, canon_execStmts hF body env, canon_execPlural hF rest i env]
end

/-- the canonical form of a statement list (what the grammar reads) runs exactly as the statement list — for every
    library-function oracle `F` that looks at the literal arguments of a directive only (not at their source positions,
    and reads `|truncate:n` as `|truncate:n,true`, which is what the generator writes) -/
theorem canon_exec (hF : ∀ d : Directive, F d.name (canonArgs d) = F d.name d.args) (ss : JsStmts) (env : JEnv) :
    execStmts F G fuel (canonSs ss) env = execStmts F G fuel ss env :=
  canon_execStmts F G fuel hF ss env

end

/-! # functions and files -/

open SoyVerif.Props.C04f (renderFunc)

def sOptSb : Bytes := b!"opt_sb"
def sOptIj : Bytes := b!"opt_ijData"

/-- `opt_data = opt_data || {};` -/
def optDefault : PS := .expr (.assign .set (.ident sOptData) (.bin .or (.ident sOptData) (.obj .nil)))

def plainBody (f : JsFunc) : PStmts :=
  if f.optional then
    .cons optDefault (.cons (.var [(sOutput, .str [])]) (PStmts.snoc (plainSs f.body) (.ret (.ident sOutput))))
  else .cons (.var [(sOutput, .str [])]) (PStmts.snoc (plainSs f.body) (.ret (.ident sOutput)))

def plainF (f : JsFunc) : PTop := .func (plainQ f.name) [sOptData, sOptSb, sOptIj] (plainBody f)

def canonF (f : JsFunc) : JsFunc := ⟨f.name, f.optional, canonSs f.body⟩

/-- a function of the image: a dotted name, statements of the image -/
def ImgF (f : JsFunc) : Prop := QName f.name ∧ ImgSs f.body

theorem lex_sig (rest : Bytes) :
    jsLex (32 :: 61 :: 32 :: (b!"function" ++ 40 :: (sOptData ++ 44 :: 32 :: (sOptSb ++ 44 :: 32 :: (sOptIj ++ 41 :: 32 :: 123 :: rest))))) =
      pre [.p b!"=", .id b!"function", .p b!"(", .id sOptData, .p b!",", .id sOptSb, .p b!",", .id sOptIj, .p b!")", .p b!"{"]
        (jsLex rest) := by
  rw [lex_sp, lex_set_sp, lex_ident (g := b!"function") ⟨_, _, rfl, rfl, by decide⟩ (sep1_cons rfl _), lex_lparen,
    lex_ident (g := sOptData) ⟨_, _, rfl, rfl, by decide⟩ (sep1_cons rfl _), lex_comma, lex_sp,
    lex_ident (g := sOptSb) ⟨_, _, rfl, rfl, by decide⟩ (sep1_cons rfl _), lex_comma, lex_sp,
    lex_ident (g := sOptIj) ⟨_, _, rfl, rfl, by decide⟩ (sep1_cons rfl _), lex_rparen, lex_sp, lex_lbrace]
  simp [pre_pre]

theorem lex_optDefault (rest : Bytes) :
    jsLex (sOptData ++ 32 :: 61 :: 32 :: (sOptData ++ 32 :: 124 :: 124 :: 32 :: 123 :: 125 :: 59 :: rest)) =
      pre (tkS optDefault) (jsLex rest) := by
  rw [lex_ident (g := sOptData) ⟨_, _, rfl, rfl, by decide⟩ (sep1_cons rfl _), lex_sp, lex_set_sp,
    lex_ident (g := sOptData) ⟨_, _, rfl, rfl, by decide⟩ (sep1_cons rfl _), lex_sp, lex_or_sp, lex_lbrace, lex_rbrace, lex_semi]
  simp [pre_pre, optDefault, tkS, tk, tkProps, AsgOp.tok, BinOp.sym]

theorem lex_varOutput (rest : Bytes) :
    jsLex (118 :: 97 :: 114 :: 32 :: (sOutput ++ 32 :: 61 :: 32 :: 39 :: 39 :: 59 :: rest)) =
      pre (tkS (.var [(sOutput, .str [])])) (jsLex rest) := by
  rw [lexk_var, lex_ident (g := sOutput) ⟨_, _, rfl, rfl, by decide⟩ (sep1_cons rfl _), lex_sp, lex_set_sp, lex_emptyStr, lex_semi]
  simp [pre_pre, tkS, tkDecls, tkDeclsTail, tk]

theorem lex_retOutput (rest : Bytes) :
    jsLex (114 :: 101 :: 116 :: 117 :: 114 :: 110 :: 32 :: (sOutput ++ 59 :: rest)) =
      pre (tkS (.ret (.ident sOutput))) (jsLex rest) := by
  rw [lexk_return, lex_ident (g := sOutput) ⟨_, _, rfl, rfl, by decide⟩ (sep1_cons rfl _), lex_semi]
  simp [pre_pre, tkS, tk]

/-- the tokens of the text of a function -/
theorem lexF (f : JsFunc) (ind : Nat) (h : ImgF f) (rest : Bytes) :
    jsLex (printPieces (renderFunc false ind f) ++ rest) = pre (tkTop (plainF f)) (jsLex rest) := by
  have hs := lex_sig
  have ho := lex_optDefault
  have hv := lex_varOutput
  have hr := lex_retOutput
  simp only [sOptData, sOptSb, sOptIj, sOutput, List.cons_append, List.nil_append] at hs ho hv hr
  have hq : ∀ r, jsLex (f.name ++ 32 :: r) = pre (tk (plainQ f.name)) (jsLex (32 :: r)) :=
    fun r => lex_qname h.1 (sep1_cons rfl _)
  unfold renderFunc
  cases hopt : f.optional
  · simp only [printPieces_append, printPieces_cons, printPieces_nil, Piece.print, SoyVerif.Model.JsGen.sigTail,
      List.append_assoc, List.cons_append, List.nil_append, List.append_nil, Bool.false_eq_true, if_false]
    rw [lex_spaces, lex_nl, lex_spaces, hq, hs, lex_nl, lex_spaces, hv, lex_nl, lexSs f.body (ind + 1) h.2, lex_spaces, hr, lex_nl,
      lex_spaces, lex_rbrace, lex_semi, lex_nl]
    simp [pre_pre, plainF, plainBody, hopt, tkTop, tkParams, tkParamsTail, tkSs, tkSs_snoc, sOptData, sOptSb, sOptIj, sOutput]
  · simp only [printPieces_append, printPieces_cons, printPieces_nil, Piece.print, SoyVerif.Model.JsGen.sigTail,
      List.append_assoc, List.cons_append, List.nil_append, List.append_nil, if_true]
    rw [lex_spaces, lex_nl, lex_spaces, hq, hs, lex_nl, lex_spaces, ho, lex_nl, lex_spaces, hv, lex_nl,
      lexSs f.body (ind + 1) h.2, lex_spaces, hr, lex_nl, lex_spaces, lex_rbrace, lex_semi, lex_nl]
    simp [pre_pre, plainF, plainBody, hopt, tkTop, tkParams, tkParamsTail, tkSs, tkSs_snoc, sOptData, sOptSb, sOptIj, sOutput]

theorem isQ_foldl : ∀ (segs : List Bytes) (acc : PE), isQ acc = true → isQ (segs.foldl PE.member acc) = true
  | [], _, h => h
  | s :: r, acc, h => isQ_foldl r (.member acc s) (by simpa [isQ] using h)

theorem isQ_plainQ {q : Bytes} (h : QName q) : isQ (plainQ q) = true := by
  obtain ⟨g, segs, e, _, hr, _⟩ := h
  unfold plainQ
  rw [e]
  exact isQ_foldl segs _ (by simp [isQ, hr])

theorem wfF (f : JsFunc) (h : ImgF f) : WfTop (plainF f) := by
  have hb := wfSs_snoc _ (.ret (.ident sOutput)) (wfSs_plain f.body h.2) (by simp only [WfS, Wf]; decide)
  have hv : WfS (.var [(sOutput, .str [])]) := by simp only [WfS, WfDecls, Wf]; exact ⟨by simp, by decide, trivial, trivial⟩
  have ho : WfS optDefault := by
    simp only [optDefault, WfS, Wf, WfProps, isRef, PE.lvl, BinOp.lvl, headTok]
    exact ⟨⟨by decide, trivial, ⟨by decide, trivial, by omega, by omega⟩⟩, by simp⟩
  simp only [plainF, WfTop]
  refine ⟨isQ_plainQ h.1, by decide, ?_⟩
  unfold plainBody
  split
  · simp only [WfSs]; exact ⟨ho, hv, hb⟩
  · simp only [WfSs]; exact ⟨hv, hb⟩

theorem plainS_ne_ret (s : JsStmt) (e : PE) : plainS s ≠ .ret e := by
  cases s with
  | ifs conds =>
    simp only [plainS]
    cases conds with
    | nil => simp [plainConds]
    | els _ => simp [plainConds]
    | cons c b r => cases r <;> simp [plainConds]
  | _ => simp [plainS]

theorem readRet_plain : ∀ (ss : JsStmts), ImgSs ss → readRet (PStmts.snoc (plainSs ss) (.ret (.ident sOutput))) = some (canonSs ss)
  | .nil, _ => by simp [plainSs, PStmts.snoc, readRet, canonSs]
  | .cons s r, h => by
    simp only [ImgSs] at h
    simp only [plainSs, PStmts.snoc]
    rw [readRet]
    · simp [readS_plain s h.1, readRet_plain r h.2, canonSs]
    · intro g hs
      exact absurd hs (plainS_ne_ret s _)

theorem readF (f : JsFunc) (h : ImgF f) : readFunc (plainQ f.name) [sOptData, sOptSb, sOptIj] (plainBody f) = some (canonF f) := by
  have hr := readRet_plain f.body h.2
  unfold readFunc plainBody
  simp only [qnameOf_plainQ h.1, sOptSb, sOptIj, beq_self_eq_true, if_true]
  cases hopt : f.optional
  · simp [readBody, hr, canonF, hopt]
  · simp [optDefault, readBody, hr, canonF, hopt]

/-- the text of a function of the image, read by the grammar as a program, is that function (in canonical form) -/
theorem jsparse_render_func (f : JsFunc) (ind : Nat) (h : ImgF f) :
    jsParseFile (printPieces (renderFunc false ind f)) = some [canonF f] := by
  have hl := lexF f ind h []
  simp only [List.append_nil, jsLex_nil] at hl
  unfold jsParseFile
  rw [hl]
  simp only [pre, Option.map_some, List.append_nil]
  have := parseProgram_tk [plainF f] (fun x hx => by simp only [List.mem_singleton] at hx; subst hx; exact wfF f h)
  simp only [tkTops, List.append_nil] at this
  rw [this]
  simp [readProgram, plainF, readF f h]

theorem lexFs : ∀ (fs : List JsFunc), (∀ f ∈ fs, ImgF f) → ∀ (rest : Bytes),
    jsLex (printPieces (fs.flatMap (renderFunc false 0)) ++ rest) = pre (tkTops (fs.map plainF)) (jsLex rest)
  | [], _, rest => by simp [printPieces_nil, tkTops]
  | f :: r, h, rest => by
    simp only [List.flatMap_cons, printPieces_append, List.append_assoc, List.map_cons, tkTops]
    rw [lexF f 0 (h f (List.mem_cons_self ..)), lexFs r (fun x hx => h x (List.mem_cons_of_mem _ hx)), pre_pre]

theorem readProgram_funcs : ∀ (fs : List JsFunc), (∀ f ∈ fs, ImgF f) → readProgram (fs.map plainF) = some (fs.map canonF)
  | [], _ => rfl
  | f :: r, h => by
    simp [readProgram, plainF, readF f (h f (List.mem_cons_self ..)),
      readProgram_funcs r (fun x hx => h x (List.mem_cons_of_mem _ hx))]

/-- … and so is the text of the functions of a file, one after the other -/
theorem jsparse_render_funcs (fs : List JsFunc) (h : ∀ f ∈ fs, ImgF f) :
    jsParseFile (printPieces (fs.flatMap (renderFunc false 0))) = some (fs.map canonF) := by
  have hl := lexFs fs h []
  simp only [List.append_nil, jsLex_nil] at hl
  unfold jsParseFile
  rw [hl]
  simp only [pre, Option.map_some, List.append_nil]
  rw [parseProgram_tk (fs.map plainF) (fun x hx => by
    simp only [List.mem_map] at hx
    obtain ⟨f, hf, rfl⟩ := hx
    exact wfF f (h f hf))]
  exact readProgram_funcs fs h

/-! # the generator's text parses to the AST of Props/C04d–f -/

section
open SoyVerif.Model SoyVerif.Model.JsGen
open SoyVerif.Props.C04d (toCmds At walkCmds_renders)
open SoyVerif.Props.C04f (toFile visitSoyFile_renders)
open SoyVerif.Props.C04c (Globals GlobalsAre)
variable [Globals] (sk : List Bytes → List Bytes) (o : Options) [GlobalsAre o]

/-- STATEMENTS: from every state at the right indentation, buffer, autoescape mode and scope, the generator model (ES5
    formatter, no message bundle) writes for a command list of the fragment a text that the grammar reads as exactly
    the statement list `toCmds` translates it to (Props/C04d: the AST whose semantics is the subject of the C04
    theorems), in canonical form -/
theorem gen_stmts_parse (ho : o.messages = none) (h5 : isEs6 o = false) (ae : Autoescape) (cs : CmdList) (buf : Bytes)
    (sc : Scope) (r : JsStmts × Scope) (h : toCmds ae buf cs sc = some r) (hi : ImgSs r.1) (ind : Nat) (s : St)
    (hs : At ind buf ae sc s) :
    ∃ ps s', walkCmds sk o cs s = .ok ((), ps, s') ∧ jsParseStmts (printPieces ps) = some (canonSs r.1) := by
  obtain ⟨s', hw, _⟩ := walkCmds_renders sk o ae ho cs buf sc r h ind s hs
  rw [h5] at hw
  exact ⟨_, s', hw, jsparse_render_stmts r.1 ind hi⟩

/-- FILES (the functions): the text the generator model writes for a file of the fragment ends with a text that the
    grammar reads, as a program, as exactly the functions `toFile` translates the file to (Props/C04f), in canonical
    form; before it stand the two comment lines and the namespace declarations -/
theorem gen_funcs_parse (ho : o.messages = none) (h5 : isEs6 o = false) (f : SoyFile) (r : List JsFunc × Scope)
    (h : toFile f = some r) (hi : ∀ g ∈ r.1, ImgF g) :
    ∃ pre fs s', visitSoyFile sk o f initState = .ok ((), pre ++ fs, s') ∧
      jsParseFile (printPieces fs) = some (r.1.map canonF) := by
  obtain ⟨pre, s', hw, _⟩ := visitSoyFile_renders sk o ho f r h
  rw [h5] at hw
  exact ⟨pre, _, s', hw, jsparse_render_funcs r.1 hi⟩

end

/-! # the whole file: the two comment lines, the namespace declarations, the functions -/

section
open SoyVerif.Model SoyVerif.Model.JsGen
open SoyVerif.Props.C04d (Runs At)
open SoyVerif.Props.C04f (toFile toTop walkTop_renders AtF)
open SoyVerif.Props.C04c (Globals GlobalsAre)
variable [Globals]

/-- where the next prefix of a dotted name ends -/
def nsNext (name : Bytes) (i : Nat) : Nat :=
  match indexOfDot (name.drop (i + 1)) with
  | none => name.length
  | some j => j + (i + 1)

/-- one line of visitNamespace: `if (typeof a.b == 'undefined') { a.b = {}; }` -/
def nsLine (ind : Nat) (pre : Bytes) : List Piece :=
  [.fixed (spaces ind), .fixed b!"if (typeof ", .qname pre, .fixed b!" == 'undefined') { ",
    .fixed (if pre.contains 46 then [] else b!"var "), .qname pre, .fixed b!" = {}; }", .fixed [10]]

def nsPieces (ind : Nat) (name : Bytes) : Nat → Nat → List Piece
  | 0, _ => []
  | fuel + 1, i => if i < name.length then nsLine ind (name.take (nsNext name i)) ++ nsPieces ind name fuel (nsNext name i) else []

variable {ind : Nat} {buf : Bytes} {ae : Autoescape} {sc : Scope}

theorem nsLoop_pieces (name : Bytes) : ∀ (fuel i : Nat),
    Runs (At ind buf ae sc) (At ind buf ae sc) (nsLoop name fuel i) (nsPieces ind name fuel i)
  | 0, _ => by unfold nsLoop nsPieces; exact Runs.pure
  | fuel + 1, i => by
    unfold nsLoop nsPieces
    split
    · have h := nsLoop_pieces name fuel (nsNext name i)
      exact (Runs.seq Runs.indentP (Runs.seq (Runs.fx _) (Runs.seq (Runs.emit _) (Runs.seq (Runs.fx _) (Runs.seq (Runs.fx _)
        (Runs.seq (Runs.emit _) (Runs.seq (Runs.fx _) (Runs.seq Runs.nl h)))))))).cast rfl
    · exact Runs.pure

/-- the comment lines in front of a file -/
def headerPieces (fname : Bytes) : List Piece :=
  [.fixed (spaces 0), .fixed b!"// This file was automatically generated from ", .comment fname, .fixed b!".", .fixed [10],
    .fixed (spaces 0), .fixed b!"// Please don't edit this file by hand.", .fixed [10], .fixed (spaces 0), .fixed [10]]

/-- what the generator model writes for a file of the fragment, piece by piece -/
theorem file_renders (sk : List Bytes → List Bytes) (o : Options) [GlobalsAre o] (ho : o.messages = none) (f : SoyFile)
    (r : List JsFunc × Scope) (h : toFile f = some r) :
    ∃ p name ae' rest s', f.body = .namespace p name ae' :: rest ∧
      visitSoyFile sk o f initState =
        .ok ((), headerPieces (commentName f.name) ++ (nsPieces 0 name (name.length + 1) 0 ++ r.1.flatMap (renderFunc (isEs6 o) 0)), s') := by
  unfold toFile at h
  split at h
  · rename_i p name ae' rest hbody
    have hm : Runs (At 0 [] .unspecified ⟨[[]], 0⟩) (At 0 [] ae' ⟨[[]], 0⟩)
        (JsGen.modify fun s => { s with ns := name, autoescape := ae' }) [] := by
      intro s hs
      exact ⟨_, rfl, hs.1, hs.2.1, rfl, hs.2.2.2⟩
    have hn : Runs (At 0 [] .unspecified ⟨[[]], 0⟩) (At 0 [] ae' ⟨[[]], 0⟩) (walkCmd sk o (.namespace p name ae'))
        (nsPieces 0 name (name.length + 1) 0) := by
      sunfold walkCmd
      exact (Runs.seq Runs.atOther (Runs.seq hm (nsLoop_pieces name (name.length + 1) 0))).cast (by simp)
    have ht := walkTop_renders sk o ho ae' rest [] _ r h 0
    have hall : Runs (At 0 [] .unspecified ⟨[[]], 0⟩) (AtF 0 ae' r.2) (visitSoyFile sk o f)
        (headerPieces (commentName f.name) ++ (nsPieces 0 name (name.length + 1) 0 ++ r.1.flatMap (renderFunc (isEs6 o) 0))) := by
      unfold visitSoyFile
      rw [hbody]
      unfold walkTop
      refine Runs.cast (Runs.seq Runs.atOther (Runs.seq Runs.indentP (Runs.seq (Runs.fx _) (Runs.seq (Runs.emit _) (Runs.seq (Runs.fx _)
        (Runs.seq Runs.nl (Runs.seq Runs.indentP (Runs.seq (Runs.fx _) (Runs.seq Runs.nl (Runs.seq Runs.indentP (Runs.seq Runs.nl
        (Runs.seq hn ht)))))))))))) (by simp [headerPieces])
    obtain ⟨s', h1, _⟩ := hall initState ⟨rfl, rfl, rfl, rfl⟩
    exact ⟨p, name, ae', rest, s', hbody, h1⟩
  · cases h

end

/-! ## the prefixes of the namespace -/

def NoDot (s : Bytes) : Prop := ∀ c ∈ s, c ≠ 46

theorem JsIdent.noDot {s : Bytes} (h : JsIdent s) : NoDot s := by
  obtain ⟨c, r, rfl, hc, hr⟩ := h
  intro x hx e
  subst e
  rcases List.mem_cons.mp hx with rfl | hx
  · revert hc; decide
  · have := hr _ hx; revert this; decide

theorem indexOfDot_noDot : ∀ (s t : Bytes), NoDot s →
    Model.JsGen.indexOfDot (s ++ t) = (Model.JsGen.indexOfDot t).map (· + s.length)
  | [], t, _ => by simp
  | c :: r, t, h => by
    have hc : (c == 46) = false := by simp [h c (List.mem_cons_self ..)]
    have ih := indexOfDot_noDot r t (fun x hx => h x (List.mem_cons_of_mem _ hx))
    simp only [List.cons_append, Model.JsGen.indexOfDot, hc, Bool.false_eq_true, if_false, ih, List.length_cons]
    cases Model.JsGen.indexOfDot t <;> simp
    omega

theorem indexOfDot_segs (r : List Bytes) :
    Model.JsGen.indexOfDot (r.flatMap (46 :: ·)) = (if r.isEmpty then none else some 0) := by
  cases r <;> simp [Model.JsGen.indexOfDot]

/-- the prefixes behind `pre`: `pre.s1`, `pre.s1.s2`, … -/
def prefixesFrom (pre : Bytes) : List Bytes → List Bytes
  | [] => []
  | s :: r => (pre ++ 46 :: s) :: prefixesFrom (pre ++ 46 :: s) r

theorem nsNext_at (name pre s : Bytes) (r : List Bytes) (hn : name = pre ++ (46 :: s ++ r.flatMap (46 :: ·))) (hs : NoDot s) :
    nsNext name pre.length = (pre ++ 46 :: s).length := by
  unfold nsNext
  have hd : name.drop (pre.length + 1) = s ++ r.flatMap (46 :: ·) := by
    rw [hn, show pre ++ (46 :: s ++ r.flatMap (46 :: ·)) = (pre ++ [46]) ++ (s ++ r.flatMap (46 :: ·)) by simp]
    exact List.drop_left' (by simp)
  rw [hd, indexOfDot_noDot s _ hs, indexOfDot_segs]
  cases r with
  | nil => simp [hn]
  | cons s' r' => simp; omega

theorem nsPieces_from (ind : Nat) (name : Bytes) : ∀ (rest : List Bytes) (pre : Bytes) (fuel : Nat),
    name = pre ++ rest.flatMap (46 :: ·) → (∀ s ∈ rest, NoDot s) → rest.length < fuel →
    nsPieces ind name fuel pre.length = (prefixesFrom pre rest).flatMap (nsLine ind)
  | [], pre, fuel, hn, _, hf => by
    cases fuel with
    | zero => omega
    | succ fuel => simp [nsPieces, prefixesFrom, hn]
  | s :: r, pre, fuel, hn, hs, hf => by
    cases fuel with
    | zero => omega
    | succ fuel =>
      have hn' : name = pre ++ (46 :: s ++ r.flatMap (46 :: ·)) := by simpa using hn
      have hnext := nsNext_at name pre s r hn' (hs s (List.mem_cons_self ..))
      have hlt : pre.length < name.length := by rw [hn']; simp
      have htake : name.take (pre ++ 46 :: s).length = pre ++ 46 :: s := by
        rw [hn', show pre ++ (46 :: s ++ r.flatMap (46 :: ·)) = (pre ++ 46 :: s) ++ r.flatMap (46 :: ·) by simp]
        exact List.take_left' rfl
      have ih := nsPieces_from ind name r (pre ++ 46 :: s) fuel (by rw [hn']; simp)
        (fun x hx => hs x (List.mem_cons_of_mem _ hx)) (by simp at hf; omega)
      unfold nsPieces
      simp only [hlt, if_true, hnext, htake, ih, prefixesFrom, List.flatMap_cons]

/-- visitNamespace writes one declaration per prefix of the namespace -/
theorem nsPieces_eq (ind : Nat) (name g : Bytes) (segs : List Bytes) (hn : name = g ++ segs.flatMap (46 :: ·)) (hg : JsIdent g)
    (hs : ∀ s ∈ segs, NoDot s) :
    nsPieces ind name (name.length + 1) 0 = (g :: prefixesFrom g segs).flatMap (nsLine ind) := by
  obtain ⟨c, g', rfl, hc, hr⟩ := hg
  have hgd : NoDot (c :: g') := JsIdent.noDot ⟨c, g', rfl, hc, hr⟩
  have hg'd : NoDot g' := fun x hx => hgd x (List.mem_cons_of_mem _ hx)
  have hnext : nsNext name 0 = (c :: g').length := by
    unfold nsNext
    have hd : name.drop (0 + 1) = g' ++ segs.flatMap (46 :: ·) := by rw [hn]; simp
    rw [hd, indexOfDot_noDot g' _ hg'd, indexOfDot_segs]
    cases segs with
    | nil => simp [hn]
    | cons s' r' => simp
  have hlt : 0 < name.length := by rw [hn]; simp
  have htake : name.take (c :: g').length = c :: g' := by rw [hn]; exact List.take_left' rfl
  have hcount : segs.length < name.length := by
    have : ∀ l : List Bytes, l.length ≤ (l.flatMap (46 :: ·)).length := by
      intro l
      induction l with
      | nil => simp
      | cons s r ih => simp only [List.flatMap_cons, List.length_append, List.length_cons]; omega
    have := this segs
    rw [hn]
    simp only [List.length_append, List.length_cons]
    omega
  have hb := nsPieces_from ind name segs (c :: g') name.length hn hs hcount
  show nsPieces ind name (name.length + 1) 0 = _
  unfold nsPieces
  simp only [hlt, if_true, hnext, htake, hb, List.flatMap_cons]

/-! ## a namespace declaration -/

def sUndefined : Bytes := b!"undefined"

/-- `if (typeof a.b == 'undefined') { a.b = {}; }` / `if (typeof a == 'undefined') { var a = {}; }` -/
def nsDecl (p : Bytes) : PS :=
  .ifS (.bin .eq (.unary .typeof (plainQ p)) (.str sUndefined))
    (.block (.cons (if p.contains 46 then .expr (.assign .set (plainQ p) (.obj .nil)) else .var [(p, .obj .nil)]) .nil))

theorem valid_undefined : ValidUtf8 sUndefined :=
  ValidUtf8.seq [117] _ (by decide) (ValidUtf8.seq [110] _ (by decide) (ValidUtf8.seq [100] _ (by decide)
    (ValidUtf8.seq [101] _ (by decide) (ValidUtf8.seq [102] _ (by decide) (ValidUtf8.seq [105] _ (by decide)
    (ValidUtf8.seq [110] _ (by decide) (ValidUtf8.seq [101] _ (by decide) (ValidUtf8.seq [100] _ (by decide) ValidUtf8.nil))))))))

theorem lex_undefined (rest : Bytes) :
    jsLex (39 :: 117 :: 110 :: 100 :: 101 :: 102 :: 105 :: 110 :: 101 :: 100 :: 39 :: rest) = pre [.str sUndefined] (jsLex rest) :=
  lex_str valid_undefined rest

theorem lexk_typeof (rest : Bytes) :
    jsLex (116 :: 121 :: 112 :: 101 :: 111 :: 102 :: 32 :: rest) = pre [.id b!"typeof"] (jsLex rest) := by
  have := lex_ident (g := b!"typeof") ⟨_, _, rfl, rfl, by decide⟩ (rest := 32 :: rest) (sep1_cons rfl _)
  rw [lex_sp] at this; exact this

theorem qSplit_noDot : ∀ (p : Bytes), (∀ c ∈ p, c ≠ 46) → qSplit p = [p]
  | [], _ => rfl
  | c :: r, h => by
    have hc : (c == 46) = false := by simp [h c (List.mem_cons_self ..)]
    simp [qSplit, hc, qSplit_noDot r (fun x hx => h x (List.mem_cons_of_mem _ hx))]

theorem contains_dot (p : Bytes) : p.contains 46 = false → ∀ c ∈ p, c ≠ 46 := by
  intro h c hc e
  subst e
  have : p.contains 46 = true := List.contains_iff_mem.mpr hc
  rw [h] at this; cases this

theorem lex_nsLine (ind : Nat) (p : Bytes) (hp : QName p) (rest : Bytes) :
    jsLex (printPieces (nsLine ind p) ++ rest) = pre (tkS (nsDecl p)) (jsLex rest) := by
  have hq1 : ∀ r, jsLex (p ++ 32 :: r) = pre (tk (plainQ p)) (jsLex (32 :: r)) := fun r => lex_qname hp (sep1_cons rfl _)
  by_cases hm : (46 : UInt8) ∈ p
  · have hd : p.contains 46 = true := by simp [hm]
    simp only [nsLine, hd, printPieces_cons, printPieces_nil, Piece.print, List.append_assoc, List.cons_append,
      List.nil_append, List.append_nil, if_true]
    rw [lex_spaces, lexk_if, lex_lparen, lexk_typeof, hq1, lex_sp, lex_eq_sp, lex_undefined, lex_rparen, lex_sp, lex_lbrace, lex_sp,
      hq1, lex_sp, lex_set_sp, lex_lbrace, lex_rbrace, lex_semi, lex_sp, lex_rbrace, lex_nl]
    simp [pre_pre, nsDecl, hm, tkS, tkSs, tk, tkProps, UnOp.tok, BinOp.sym, AsgOp.tok]
  · have hd : p.contains 46 = false := by simp [hm]
    have hplain : plainQ p = .ident p := by unfold plainQ; rw [qSplit_noDot p (contains_dot p hd)]; rfl
    simp only [nsLine, hd, printPieces_cons, printPieces_nil, Piece.print, List.append_assoc, List.cons_append,
      List.nil_append, List.append_nil, Bool.false_eq_true, if_false]
    rw [lex_spaces, lexk_if, lex_lparen, lexk_typeof, hq1, lex_sp, lex_eq_sp, lex_undefined, lex_rparen, lex_sp, lex_lbrace, lex_sp,
      lexk_var, hq1, lex_sp, lex_set_sp, lex_lbrace, lex_rbrace, lex_semi, lex_sp, lex_rbrace, lex_nl]
    simp [pre_pre, nsDecl, hm, tkS, tkSs, tk, tkProps, tkDecls, tkDeclsTail, UnOp.tok, BinOp.sym, hplain]

theorem isRef_foldl : ∀ (segs : List Bytes) (acc : PE), isRef acc = true → isRef (segs.foldl PE.member acc) = true
  | [], _, h => h
  | s :: r, acc, _ => isRef_foldl r (.member acc s) rfl

theorem isRef_plainQ (p : Bytes) : isRef (plainQ p) = true := by
  unfold plainQ
  split
  · exact isRef_foldl _ _ rfl
  · rfl

theorem wf_nsDecl (p : Bytes) (hp : QName p) : WfTop (.stmt (nsDecl p)) := by
  have hq := wf_plainQ hp
  obtain ⟨g', hh⟩ := headTok_plainQ p
  simp only [WfTop]
  refine ⟨?_, b!"if", _, by simp only [nsDecl, tkS]; rfl, by decide⟩
  simp only [nsDecl, WfS, Wf, BinOp.lvl]
  refine ⟨⟨⟨hq.1, by rw [hq.2]; omega⟩, trivial, by simp [PE.lvl], by simp [PE.lvl]⟩, ?_⟩
  by_cases hm : (46 : UInt8) ∈ p
  · have hd : p.contains 46 = true := by simp [hm]
    simp only [hd, if_true, WfSs, WfS, Wf, WfProps, headTok]
    exact ⟨⟨⟨hq.1, isRef_plainQ p, trivial⟩, by rw [hh]; simp⟩, trivial⟩
  · have hd : p.contains 46 = false := by simp [hm]
    have hplain : plainQ p = .ident p := by unfold plainQ; rw [qSplit_noDot p (contains_dot p hd)]; rfl
    have hw := hq.1
    rw [hplain] at hw
    simp only [Wf] at hw
    simp only [hd, Bool.false_eq_true, if_false, WfSs, WfS, WfDecls, Wf, WfProps]
    exact ⟨⟨by simp, hw, trivial, trivial⟩, trivial⟩

theorem isNsDecl_nsDecl (p : Bytes) (hp : QName p) : isNsDecl (nsDecl p) = true := by
  have hq := qnameOf_plainQ hp
  by_cases hm : (46 : UInt8) ∈ p
  · simp [nsDecl, isNsDecl, hm, hq, sUndefined]
  · simp [nsDecl, isNsDecl, hm, hq, sUndefined]

/-! ## the comment lines -/

theorem lex_comment (body rest : Bytes) (h1 : ∀ c ∈ body, isEol c = false) (h2 : noLineSep (47 :: body) = true) :
    jsLex (47 :: 47 :: (body ++ 10 :: rest)) = jsLex rest := by
  obtain ⟨e1, e2⟩ := takeWhile_sep (fun b => !isEol b) (47 :: body) (10 :: rest)
    (by
      intro b hb
      rcases List.mem_cons.mp hb with rfl | hb
      · rfl
      · simp [h1 b hb])
    (by intro c r e; cases e; rfl)
  have : lexOne (47 :: 47 :: (body ++ 10 :: rest)) = some (none, 10 :: rest) := by
    rw [lexOne_cons]
    simp only [List.cons_append] at e1 e2
    simp only [show isWs 47 = false from rfl, Bool.false_eq_true, if_false, beq_self_eq_true, if_true, e1, e2, h2,
      List.take_succ_cons, List.take_zero, Bool.and_self]
  rw [lex_skip this, lex_nl]

theorem noLineSep_cons {c : UInt8} (hc : c ≠ 0xE2) (r : Bytes) : noLineSep (c :: r) = noLineSep r := by
  have : isLineSep (c :: r) = false := by
    simp only [isLineSep, Bool.or_eq_false_iff]
    cases r with
    | nil => simp
    | cons d r' => cases r' <;> simp [hc]
  simp [noLineSep, this]

theorem noLineSep_prefix : ∀ (a b : Bytes), (∀ c ∈ a, c ≠ 0xE2) → noLineSep (a ++ b) = noLineSep b
  | [], _, _ => rfl
  | c :: r, b, h => by
    rw [List.cons_append, noLineSep_cons (h c (List.mem_cons_self ..)),
      noLineSep_prefix r b (fun x hx => h x (List.mem_cons_of_mem _ hx))]

theorem noLineSep_dot : ∀ (f : Bytes), noLineSep (f ++ [46]) = noLineSep f
  | [] => rfl
  | [c] => by simp [noLineSep, isLineSep]
  | [c, d] => by simp [noLineSep, isLineSep]
  | c :: d :: e :: r => by
    have ih := noLineSep_dot (d :: e :: r)
    simp only [List.cons_append] at ih ⊢
    simp only [noLineSep] at ih ⊢
    rw [ih]
    simp [isLineSep]

theorem lex_header (fname : Bytes) (hc : SoyVerif.Lemmas.JsGenTop.CommentSafe fname) (rest : Bytes) :
    jsLex (printPieces (headerPieces fname) ++ rest) = jsLex rest := by
  have hl1 := lex_comment (b!" This file was automatically generated from " ++ (fname ++ [46]))
    (47 :: 47 :: (b!" Please don't edit this file by hand." ++ 10 :: 10 :: rest))
    (by
      intro c hc'
      rcases List.mem_append.mp hc' with h | h
      · have : ∀ x ∈ (b!" This file was automatically generated from " : Bytes), isEol x = false := by decide
        exact this c h
      · rcases List.mem_append.mp h with h | h
        · have := hc.1 c h
          simp [isEol, this.1, this.2]
        · simp only [List.mem_singleton] at h; subst h; rfl)
    (by
      rw [show (47 : UInt8) :: (b!" This file was automatically generated from " ++ (fname ++ [46])) =
        (47 :: b!" This file was automatically generated from ") ++ (fname ++ [46]) from rfl,
        noLineSep_prefix _ _ (by decide), noLineSep_dot]
      exact hc.2)
  have hl2 := lex_comment b!" Please don't edit this file by hand." (10 :: rest) (by decide) (by decide)
  simp only [headerPieces, spaces, printPieces_cons, printPieces_nil, Piece.print, List.append_assoc, List.cons_append,
    List.nil_append, List.append_nil] at hl1 hl2 ⊢
  rw [hl1, hl2, lex_nl]

/-! ## the whole file -/

theorem qSplit_of_join : ∀ (segs : List Bytes) (g : Bytes), NoDot g → (∀ s ∈ segs, NoDot s) →
    qSplit (g ++ segs.flatMap (46 :: ·)) = g :: segs
  | segs, c :: g', hg, hs => by
    have hc : (c == 46) = false := by simp [hg c (List.mem_cons_self ..)]
    have ih := qSplit_of_join segs g' (fun x hx => hg x (List.mem_cons_of_mem _ hx)) hs
    simp [qSplit, hc, ih]
  | [], [], _, _ => rfl
  | s :: r, [], _, hs => by
    have ih := qSplit_of_join r s (hs s (List.mem_cons_self ..)) (fun x hx => hs x (List.mem_cons_of_mem _ hx))
    simp [qSplit, ih]
termination_by segs g => (segs.length, g.length)

theorem prefixes_form (g : Bytes) : ∀ (rest done : List Bytes) (x : Bytes),
    x ∈ prefixesFrom (g ++ done.flatMap (46 :: ·)) rest → ∃ k, x = g ++ (done ++ rest.take k).flatMap (46 :: ·)
  | [], _, _, h => by cases h
  | s :: r, done, x, h => by
    simp only [prefixesFrom, List.mem_cons] at h
    rcases h with rfl | h
    · exact ⟨1, by simp⟩
    · have hpre : g ++ done.flatMap (46 :: ·) ++ 46 :: s = g ++ (done ++ [s]).flatMap (46 :: ·) := by simp
      rw [hpre] at h
      obtain ⟨k, hk⟩ := prefixes_form g r (done ++ [s]) x h
      exact ⟨k + 1, by rw [hk]; simp⟩

theorem prefixes_qname {name g : Bytes} {segs : List Bytes} (he : qSplit name = g :: segs) (hg : JsIdent g)
    (hr : isReserved g = false) (hs : ∀ s ∈ segs, JsIdent s) : ∀ x ∈ g :: prefixesFrom g segs, QName x := by
  intro x hx
  have hform : ∃ k, x = g ++ (segs.take k).flatMap (46 :: ·) := by
    rcases List.mem_cons.mp hx with rfl | hx
    · exact ⟨0, by simp⟩
    · have := prefixes_form g segs [] x (by simpa using hx)
      simpa using this
  obtain ⟨k, rfl⟩ := hform
  have hsub : ∀ s ∈ segs.take k, JsIdent s := fun s h => hs s (List.mem_of_mem_take h)
  exact ⟨g, segs.take k, qSplit_of_join _ g (JsIdent.noDot hg) (fun s h => JsIdent.noDot (hsub s h)), hg, hr, hsub⟩

theorem tkTops_append : ∀ (a b : List PTop), tkTops (a ++ b) = tkTops a ++ tkTops b
  | [], b => rfl
  | x :: r, b => by simp [tkTops, tkTops_append r b]

theorem lex_nsLines (ind : Nat) : ∀ (ps : List Bytes), (∀ p ∈ ps, QName p) → ∀ (rest : Bytes),
    jsLex (printPieces (ps.flatMap (nsLine ind)) ++ rest) = pre (tkTops (ps.map fun p => .stmt (nsDecl p))) (jsLex rest)
  | [], _, rest => by simp [printPieces_nil, tkTops]
  | p :: r, h, rest => by
    simp only [List.flatMap_cons, printPieces_append, List.append_assoc, List.map_cons, tkTops, tkTop]
    rw [lex_nsLine ind p (h p (List.mem_cons_self ..)), lex_nsLines ind r (fun x hx => h x (List.mem_cons_of_mem _ hx)), pre_pre]

theorem readProgram_ns : ∀ (ps : List Bytes) (xs : List PTop), (∀ p ∈ ps, QName p) →
    readProgram (ps.map (fun p => .stmt (nsDecl p)) ++ xs) = readProgram xs
  | [], _, _ => rfl
  | p :: r, xs, h => by
    simp [readProgram, isNsDecl_nsDecl p (h p (List.mem_cons_self ..)),
      readProgram_ns r xs (fun x hx => h x (List.mem_cons_of_mem _ hx))]

section
open SoyVerif.Model SoyVerif.Model.JsGen
open SoyVerif.Props.C04f (toFile)
open SoyVerif.Props.C04c (Globals GlobalsAre)
variable [Globals]

/-- FILES: the text the generator model (ES5 formatter, no message bundle) writes for a file of the fragment — the two
    comment lines, the declarations of the namespace's prefixes, the functions — is read by the grammar, as a program,
    as exactly the functions `toFile` translates the file to (Props/C04f: the ASTs whose semantics the registry theorems
    of C04 are about), in canonical form.  The namespace is a dotted name, the functions are in the image; the file's
    name is ANY byte string (visitSoyFile replaces its line terminators — soyjs 086971f, `commentName_safe`). -/
theorem gen_text_parses (sk : List Bytes → List Bytes) (o : Options) [GlobalsAre o] (ho : o.messages = none) (h5 : isEs6 o = false)
    (f : SoyFile) (r : List JsFunc × Scope) (h : toFile f = some r) (hi : ∀ g ∈ r.1, ImgF g)
    (hn : ∀ p name ae rest, f.body = .namespace p name ae :: rest → QName name) :
    ∃ ps s', visitSoyFile sk o f initState = .ok ((), ps, s') ∧ jsParseFile (printPieces ps) = some (r.1.map canonF) := by
  obtain ⟨p, name, ae', rest, s', hbody, hw⟩ := file_renders sk o ho f r h
  rw [h5] at hw
  refine ⟨_, s', hw, ?_⟩
  obtain ⟨g, segs, he, hg, hr, hs⟩ := hn p name ae' rest hbody
  have hj := qSplit_join name g segs he
  have hpieces := nsPieces_eq 0 name g segs hj hg (fun s h => JsIdent.noDot (hs s h))
  have hq := prefixes_qname he hg hr hs
  have hl : jsLex (printPieces (headerPieces (commentName f.name) ++
      (nsPieces 0 name (name.length + 1) 0 ++ r.1.flatMap (renderFunc false 0)))) =
      some (tkTops ((g :: prefixesFrom g segs).map (fun p => .stmt (nsDecl p)) ++ r.1.map plainF)) := by
    have h1 := lex_header (commentName f.name) (SoyVerif.Lemmas.JsGenTop.commentName_safe f.name)
      (printPieces (nsPieces 0 name (name.length + 1) 0 ++ r.1.flatMap (renderFunc false 0)))
    have h2 := lex_nsLines 0 (g :: prefixesFrom g segs) hq (printPieces (r.1.flatMap (renderFunc false 0)))
    have h3 := lexFs r.1 hi []
    simp only [List.append_nil, jsLex_nil] at h3
    rw [printPieces_append, h1, hpieces, printPieces_append, h2, h3, tkTops_append]
    simp [pre]
  unfold jsParseFile
  rw [hl]
  simp only
  rw [parseProgram_tk _ (by
    intro x hx
    rcases List.mem_append.mp hx with hx | hx
    · simp only [List.mem_map] at hx
      obtain ⟨q, hq', rfl⟩ := hx
      exact wf_nsDecl q (hq q hq')
    · simp only [List.mem_map] at hx
      obtain ⟨fn, hf, rfl⟩ := hx
      exact wfF fn (hi fn hf))]
  simp only
  rw [readProgram_ns _ _ hq]
  exact readProgram_funcs r.1 hi

end

/-! # instances (the hypotheses are satisfiable; the reader rejects what is no JavaScript) -/

section examples

theorem jsIdent_of {g : Bytes} (h : identB g = true) : JsIdent g := identB_ok h
theorem jsName_of {g : Bytes} (h : (identB g && !isReserved g && g != sOptData && g != sOptIj) = true) : JsName g := by
  simp only [Bool.and_eq_true, Bool.not_eq_true', bne_iff_ne, ne_eq] at h
  exact ⟨identB_ok h.1.1.1, h.1.1.2, h.1.2, h.2⟩

/-- `((opt_data.x) != null ? opt_data.x : y$1.k[0])` -/
def exE : JsExpr := .nonNullElse (.optData b!"x") (.optData b!"x") (.index (.member (.local b!"y$1") b!"k") 0)

theorem exE_img : Img exE := by
  simp only [exE, Img, lv]
  exact ⟨jsIdent_of (by decide), jsIdent_of (by decide),
    ⟨jsName_of (by decide), trivial, jsIdent_of (by decide), by decide⟩, trivial, by decide⟩

example : jsParseExpr (printPieces (render exE)) = some exE := jsparse_render_expr exE exE_img
example : printPieces (render exE) = b!"((opt_data.x) != null ? opt_data.x : y$1.k[0])" := by decide

/-- `output += soy.$$escapeHtml(soy.$$truncate(opt_data.s,5,true));`, an `if` chain, a loop, a call -/
def exSs : JsStmts :=
  .cons (.append b!"output" (.optData b!"s") [⟨7, b!"truncate", [.int 9 5]⟩, ⟨0, b!"escapeHtml", []⟩])
  (.cons (.ifs (.cons (.bin .lt (.optData b!"n") (.num 3)) (.cons (.appendLit b!"output" b!"a<b") .nil)
      (.els (.cons (.var b!"v$1" (.neg (.num 2))) .nil))))
  (.cons (.forUp b!"i$2" b!"n$2" (.cons (.varIndex b!"x$2" b!"l$2" b!"i$2") .nil))
  (.cons (.call b!"output" b!"ns.sub.u" .all [(b!"k", .str b!"v")]) .nil)))

theorem exSs_img : ImgSs exSs := by
  simp only [exSs, ImgSs, ImgS, ImgConds, ImgBase, ImgParams, Img, lv]
  refine ⟨⟨jsName_of (by decide), jsIdent_of (by decide), ?_⟩, ⟨trivial, ⟨jsIdent_of (by decide), trivial⟩,
      ⟨⟨jsName_of (by decide), ?_⟩, trivial⟩, ⟨⟨jsName_of (by decide), ⟨trivial, by decide⟩, fun l h => by cases h⟩, trivial⟩⟩,
    ⟨jsName_of (by decide), jsName_of (by decide), ⟨jsName_of (by decide), jsName_of (by decide), jsName_of (by decide)⟩, trivial⟩,
    ⟨jsName_of (by decide), qOkB_ok (by decide), trivial, jsIdent_of (by decide), ?_, trivial⟩, trivial⟩
  · intro d hd
    simp only [List.mem_cons, List.mem_nil_iff, or_false] at hd
    rcases hd with rfl | rfl
    · refine ⟨⟨⟨b!"truncate", b!"soy.$$truncate", false⟩, by simp [Gen.jsDirectives], rfl, by decide⟩, ?_⟩
      intro a ha j hj
      simp only [List.mem_singleton] at ha
      subst ha
      simp only [litAst, Option.some.injEq] at hj
      subst hj
      trivial
    · exact ⟨⟨⟨b!"escapeHtml", b!"soy.$$escapeHtml", true⟩, by simp [Gen.jsDirectives], rfl, by decide⟩, fun a ha => by cases ha⟩
  · exact ValidUtf8.seq [97] _ (by decide) (ValidUtf8.seq [60] _ (by decide) (ValidUtf8.seq [98] _ (by decide) ValidUtf8.nil))
  · exact ValidUtf8.seq [118] _ (by decide) ValidUtf8.nil

example : jsParseStmts (printPieces (renderStmts false 1 exSs)) = some (canonSs exSs) := jsparse_render_stmts exSs 1 exSs_img

/-- the canonical form changed the positions of the directives and spelled out the `true` of `|truncate:5`; nothing else -/
example : canonSs exSs =
    .cons (.append b!"output" (.optData b!"s") [⟨0, b!"truncate", [.int 0 5, .bool 0 true]⟩, ⟨0, b!"escapeHtml", []⟩])
    (.cons (.ifs (.cons (.bin .lt (.optData b!"n") (.num 3)) (.cons (.appendLit b!"output" b!"a<b") .nil)
        (.els (.cons (.var b!"v$1" (.neg (.num 2))) .nil))))
    (.cons (.forUp b!"i$2" b!"n$2" (.cons (.varIndex b!"x$2" b!"l$2" b!"i$2") .nil))
    (.cons (.call b!"output" b!"ns.sub.u" .all [(b!"k", .str b!"v")]) .nil))) := by
  simp [exSs, canonSs, canonS, canonConds, canonDir, canonArgs, litAst, litOf, sTruncate]

example : jsParseFile (printPieces (renderFunc false 0 ⟨b!"ns.sub.t", true, exSs⟩)) = some [canonF ⟨b!"ns.sub.t", true, exSs⟩] :=
  jsparse_render_func _ 0 ⟨qOkB_ok (by decide), exSs_img⟩

/-! what is no JavaScript (or outside the fragment) is rejected -/

example : jsParseExpr b!"((opt_data.x) + (1)" = none := by decide +kernel            -- unbalanced
example : jsParseExpr b!"'abc" = none := by decide +kernel                           -- unterminated string
example : jsParseExpr b!"5.length" = none := by decide +kernel                       -- `{length(5)}` before soyjs 0a4b4eb: no engine reads it
/-- isNonnull since soyjs a5155c6: a primary, also under a minus and inside another isNonnull -/
example : printPieces (render (.neg (.call1 .nonNull (.call1 .nonNull (.optData b!"x"))))) = b!"(- ((opt_data.x != null) != null))" := by
  decide
example : jsParseExpr b!"(- ((opt_data.x != null) != null))" = some (.neg (.call1 .nonNull (.call1 .nonNull (.optData b!"x")))) :=
  jsparse_render_expr (.neg (.call1 .nonNull (.call1 .nonNull (.optData b!"x"))))
    (by simp only [Img, lv]; exact ⟨⟨⟨⟨_, _, rfl, rfl, by decide⟩, by omega⟩, by omega⟩, by omega⟩)
/-- the data KEY `length` and the length FUNCTION: textually distinct since soyjs 0a4b4eb, and read apart -/
example : jsParseExpr b!"opt_data.x.length" = some (.member (.optData b!"x") b!"length") :=
  jsparse_render_expr (.member (.optData b!"x") b!"length")
    (by simp only [Img]; exact ⟨⟨_, _, rfl, rfl, by decide⟩, rfl, ⟨_, _, rfl, rfl, by decide⟩, fun _ => rfl⟩)
example : jsParseExpr b!"(opt_data.x).length" = some (.call1 .length (.optData b!"x")) :=
  jsparse_render_expr (.call1 .length (.optData b!"x")) (by simp only [Img]; exact ⟨_, _, rfl, rfl, by decide⟩)
example : jsParseExpr b!"(5).length" = some (.call1 .length (.num 5)) :=                    -- … and since
  jsparse_render_expr (.call1 .length (.num 5)) (by simp [Img])
example : jsParseExpr b!"soy.$$augmentMap(opt_data, {2nd: 1})" = none := by decide +kernel
example : jsParseExpr b!"((1) + * (2))" = none := by decide +kernel
example : (jsParseStmts b!"output += 'a'\n").isNone = true := by decide +kernel     -- no automatic semicolon insertion
example : (jsParseStmts b!"var class = 1;").isNone = true := by decide +kernel      -- a reserved word
example : (jsParseStmts b!"output += 'a';").isSome = true := by decide +kernel
/-- `{length(not $x)}`: soyjs wrote `!(opt_data.x).length` before 0a4b4eb; the grammar reads `!((opt_data.x).length)`,
    which is not the text of any `JsExpr`.  Since 0a4b4eb it writes `(!(opt_data.x)).length`, the text of the AST of C04c -/
example : ((jsLex b!"!(opt_data.x).length").bind parseExpr).isSome = true := by decide +kernel
example : jsParseExpr b!"!(opt_data.x).length" = none := by decide +kernel
example : printPieces (render (.call1 .length (.not (.optData b!"x")))) = b!"(!(opt_data.x)).length" := by decide
example : jsParseExpr b!"(!(opt_data.x)).length" = some (.call1 .length (.not (.optData b!"x"))) :=
  jsparse_render_expr (.call1 .length (.not (.optData b!"x"))) (by simp only [Img]; exact ⟨_, _, rfl, rfl, by decide⟩)

end examples

end SoyVerif.Props.C14c
