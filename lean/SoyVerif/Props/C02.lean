/-
  C02 — Commands, variable scoping and calls behave as the language defines.

  Scoping theorems about the interpreter model (Model/Eval.lean), for every tree, every state and every
  call-depth fuel (`runTmpl g fuel` is the callee runner; all theorems hold for any runner that is
  itself `GoodRun`):

  * `let_scoped`        after `walkBlock b` (if / elseif / else branch, case body, ifempty body, let/param
                        content, log, msg) the scope stack is the one before it, and every variable that
                        was visible before has the value it had: what the block bound is gone, what it
                        shadowed is back.
  * `loop_var_scoped`   the same for a whole {foreach}/{for}: the loop variable and its helpers
                        (`x.index`, `x.lastIndex`) are visible in the body only.
  * `block_cmd_scoped`  every command except {let} leaves all existing frames — the current one
                        included — exactly as they were (only `let` binds in the current frame).
  * `caller_env_unchanged_by_call`  a call returns text only: nothing the callee binds is visible to the
                        caller afterwards.
  * `callee_env_*`      the callee's scope: `data="all"` → the caller's frames from the innermost
                        ENTERED frame down (alldata drops every frame above it: the caller's let / loop /
                        block frames) plus a fresh param frame; `data="$e"` → that map plus a fresh param
                        frame; neither → one fresh map.  In all three no frame of the caller above its
                        entry frame is reachable from the callee.
  * `exec_refines_lexical_partial` — see Props/C02Spec.lean (refinement to Spec.render).

  Bodies containing a {template} tag are outside the model (Model/Eval.lean header): `execCmd` answers
  `error` there, the theorems hold vacuously.
-/
import SoyVerif.Lemmas.EvalGood

namespace SoyVerif.Props.C02
open SoyVerif SoyVerif.Model SoyVerif.Model.Eval

/-- every frame of the scope refers to an existing cell -/
def ScopeOk (ctx : Scope) (st : St) : Prop := ∀ f ∈ ctx, f.ref < st.heap.length

theorem heapGet_ext {st st' : St} (e : Ext (fun _ => False) st st') (i : Nat) (hi : i < st.heap.length) :
    heapGet st'.heap i = heapGet st.heap i := by
  have hc : st.heap[i]? = some st.heap[i] := List.getElem?_eq_getElem hi
  obtain ⟨c', h1, _, h3⟩ := e.keep i _ hc
  simp only [heapGet, h1, hc]
  exact h3 (fun h => h)

/-- if no existing cell changed, every lookup through an existing scope gives what it gave -/
theorem lookup_ext {st st' : St} (e : Ext (fun _ => False) st st') :
    ∀ (ctx : Scope), ScopeOk ctx st → ∀ k, lookup st'.heap ctx k = lookup st.heap ctx k := by
  intro ctx
  induction ctx with
  | nil => intro _ k; rfl
  | cons f r ih =>
    intro hok k
    have hf : f.ref < st.heap.length := hok f List.mem_cons_self
    have hr : ScopeOk r st := fun x hx => hok x (List.mem_cons_of_mem _ hx)
    simp only [lookup, heapGet_ext e f.ref hf, ih hr k]

section
variable (g : GEnv) (esc : Bool) (call : Registry.Tmpl → Run) (hcall : ∀ t, GoodRun (call t))
include hcall

/-- a {let} inside a block is invisible after the block, and whatever it shadowed is visible again -/
theorem let_scoped (b : Block) (ctx : Scope) (st : St) (hok : ScopeOk ctx st)
    (h : (walkBlockOf (execBody g esc call b) ctx st).cls = .ok) :
    (walkBlockOf (execBody g esc call b) ctx st).ctx = ctx ∧
    ∀ k, lookup (walkBlockOf (execBody g esc call b) ctx st).st.heap ctx k = lookup st.heap ctx k := by
  have hg := walkBlockOf_good' (execBody_good g esc call hcall b) ctx st
  exact ⟨hg.ctx_eq h, lookup_ext hg.ext ctx hok⟩

/-- the same for content blocks ({let}…{/let}, {param}…{/param}, {log}) -/
theorem content_block_scoped (b : Block) (ctx : Scope) (st : St) (hok : ScopeOk ctx st)
    (h : (renderBlockOf (execBody g esc call b) ctx st).1.cls = .ok) :
    (renderBlockOf (execBody g esc call b) ctx st).1.ctx = ctx ∧
    (∀ k, lookup (renderBlockOf (execBody g esc call b) ctx st).1.st.heap ctx k = lookup st.heap ctx k) ∧
    (renderBlockOf (execBody g esc call b) ctx st).1.st.out = st.out := by
  have hg := renderBlockOf_good' (execBody_good g esc call hcall b) ctx st
  exact ⟨hg.1.ctx_eq h, lookup_ext hg.1.ext ctx hok, hg.2⟩

theorem execConds_scoped : ∀ (cs : CondList) (ctx : Scope) (st : St),
    Good (fun _ => False) ctx st (execConds g esc call cs ctx st)
  | .nil, ctx, st => by rw [execConds]; exact Good.leaf (by simp) (Ext.of_heap_eq rfl rfl)
  | .cons _ none body _, ctx, st => by
    rw [execConds]; exact walkBlockOf_good' (execBody_good g esc call hcall body) ctx st
  | .cons _ (some c) body rest, ctx, st => by
    rw [execConds]
    split
    · exact Good.leaf (by simp) (Ext.of_heap_eq rfl rfl)
    · rename_i v st1 he
      have e1 := evalIn_ext (fun _ => False) he
      split
      · exact Good.after e1 (walkBlockOf_good' (execBody_good g esc call hcall body) ctx st1)
      · exact Good.after e1 (execConds_scoped rest ctx st1)

theorem execCases_scoped : ∀ (cs : CaseList) (dflt : Option Run)
    (_ : ∀ d, dflt = some d → ∀ ctx st, Good (fun _ => False) ctx st (d ctx st)) (sv : Value) (ctx : Scope) (st : St),
    Good (fun _ => False) ctx st (execCases g esc call cs dflt sv ctx st)
  | .nil, dflt, hd, _, ctx, st => by
    rw [execCases]
    cases dflt with
    | none => exact Good.leaf (by simp [runDefault]) (Ext.of_heap_eq rfl rfl)
    | some d => exact hd d rfl ctx st
  | .cons _ values body rest, dflt, hd, sv, ctx, st => by
    rw [execCases]
    split
    · exact Good.leaf (by simp) (Ext.of_heap_eq rfl rfl)
    · rename_i st1 hm
      exact Good.after (matchCase_ext _ _ _ _ _ hm) (walkBlockOf_good' (execBody_good g esc call hcall body) ctx st1)
    · rename_i st1 hm
      have e1 := matchCase_ext (fun _ => False) _ _ _ _ hm
      exact Good.after e1 (execCases_scoped rest _
        (pickDefault_all (P := fun d => ∀ ctx st, Good (fun _ => False) ctx st (d ctx st))
          (fun ctx st => walkBlockOf_good' (execBody_good g esc call hcall body) ctx st) hd) sv ctx st1)

/-- only `let` binds in the current frame: every other command leaves ALL existing frames alone -/
theorem block_cmd_scoped (c : Cmd) (hnl : ∀ p n e, c ≠ .letValue p n e) (hnc : ∀ p n b, c ≠ .letContent p n b)
    (ctx : Scope) (st : St) (hown : Own ctx st) : Good (fun _ => False) ctx st (execCmd g esc call c ctx st) := by
  cases c with
  | rawText _ _ => rw [execCmd]; exact Good.leaf (by simp) (write_ext _ _ _)
  | print pos arg dirs =>
    have h := execCmd_good g esc call hcall (.print pos arg dirs) ctx st hown
    rw [execCmd] at h ⊢
    refine ⟨h.np, h.ctx_eq, ?_⟩
    -- a print only evaluates and writes
    unfold evalPrint
    refine (Ext.atNode (fun _ => False) st (Expr.pos arg)).trans ?_ (fun _ _ h => h)
    unfold evalPrintAt
    split
    · exact Ext.of_heap_eq rfl rfl
    · rename_i st1 he; exact evalIn_ext _ he
    · rename_i v st1 _ he
      have e1 := evalIn_ext (fun _ => False) he
      split
      · exact e1.trans (Ext.atNode _ _ _) (fun _ _ h => h)
      · rename_i r esc' st2 hd
        have e2 := e1.trans (runDirectives_ext (fun _ => False) _ _ _ _ _ _ _ hd) (fun _ _ h => h)
        split
        · exact e2
        · refine e2.trans ?_ (fun _ _ h => h)
          split
          · exact Ext.of_heap_eq (writeAll_heap _ _).1 (writeAll_heap _ _).2
          · exact write_ext _ _ _
  | msg _ id _ _ _ body =>
    rw [execCmd]
    refine walkBlockOf_good' ?_ ctx st
    intro ctx1 st1 hown1
    simp only
    split
    · exact walkMsgBody_good g esc call hcall body _ _ hown1
    · split
      · exact walkMsgBody_good g esc call hcall body _ _ hown1
      · exact evalMParts_good g _ body (phAll_good g esc call hcall body 0) _ _ _ hown1
  | css _ e suffix =>
    cases e with
    | none => rw [execCmd]; exact Good.leaf (by simp) (write_ext _ _ _)
    | some e =>
      rw [execCmd]
      split
      · exact Good.leaf (by simp) (Ext.of_heap_eq rfl rfl)
      · rename_i v st1 he
        split
        · exact Good.leaf (by simp) (evalIn_ext _ he)
        · exact Good.leaf (by simp) ((evalIn_ext _ he).trans (write_ext _ _ _) (fun _ _ h => h))
  | debugger _ => rw [execCmd]; exact Good.leaf (by simp) (Ext.of_heap_eq rfl rfl)
  | log _ body =>
    rw [execCmd]
    have h := (renderBlockOf_good' (execBody_good g esc call hcall body) ctx st).1
    exact ⟨h.np, h.ctx_eq, h.ext⟩
  | ifc _ conds => rw [execCmd]; exact execConds_scoped g esc call hcall conds ctx st
  | forc _ var list body ifEmpty =>
    rw [execCmd]
    split
    · rename_i id xs st1 he
      have e1 := evalIn_ext (fun _ => False) he
      split
      · split
        · rename_i b
          exact Good.after e1 (walkBlockOf_good' (execBody_good g esc call hcall b) ctx st1)
        · exact Good.leaf (by simp) e1
      · exact Good.after e1 (forLoop_good (execBody_good g esc call hcall body) var _ xs 0 ctx st1)
    · rename_i st1 he; exact Good.leaf (by simp) (evalIn_ext _ he)
    · exact Good.leaf (by simp) (Ext.of_heap_eq rfl rfl)
  | switch _ value cases =>
    rw [execCmd]
    split
    · exact Good.leaf (by simp) (Ext.of_heap_eq rfl rfl)
    · rename_i sv st1 he
      exact Good.after (evalIn_ext _ he) (execCases_scoped g esc call hcall cases none (fun _ h => by cases h) sv ctx st1)
  | call _ name allData data params =>
    rw [execCmd]
    split
    · exact Good.leaf (by simp) (Ext.of_heap_eq rfl rfl)
    · rename_i callee _
      split
      · exact Good.leaf (by simp) ((noteImpossible_ext _ _ _ _).trans (Ext.atNode _ _ _) (fun _ _ h => h))
      · rename_i cd st1 hcd
        obtain ⟨e1, owncd, hfresh⟩ := callData_spec hcd
        have hp := execParams_good g esc call hcall params cd ctx st1 owncd
        have e2 : Ext (fun _ => False) st (execParams g esc call params cd ctx st1).st :=
          e1.trans hp.ext (fun i hi hw => by omega)
        simp only
        split
        · rename_i hok
          obtain ⟨cctx, s2, hent, ownc, e3, htopc⟩ := enter_spec (owncd.ext hp.ext)
          rw [hent]
          simp only
          have hc := hcall callee cctx s2 ownc
          refine ⟨hc.np, fun _ => hp.ctx_eq hok, ?_⟩
          have e4 : Ext (fun _ => False) st s2 := e2.trans (e3 (fun _ => False)) (fun _ _ h => h)
          exact (e4.trans hc.ext (fun i hi hw => by
            have := e2.len
            rw [htopc] at hw; omega)).trans (Ext.atNode (fun _ => False) _ _) (fun _ _ h => h)
        · rename_i hnok
          exact ⟨hp.np, fun e => absurd e (by intro h; exact hnok h), e2⟩
  | letValue p n e => exact absurd rfl (hnl p n e)
  | letContent p n b => exact absurd rfl (hnc p n b)
  | headerParam _ _ _ _ _ _ => rw [execCmd]; exact Good.leaf (by simp) (Ext.of_heap_eq rfl rfl)
  | «namespace» _ _ _ => rw [execCmd]; exact Good.leaf (by simp) (Ext.of_heap_eq rfl rfl)
  | template _ _ _ _ _ => rw [execCmd]; exact Good.leaf (by simp) (Ext.of_heap_eq rfl rfl)
  | soyDoc _ _ => rw [execCmd]; exact Good.leaf (by simp) (Ext.of_heap_eq rfl rfl)

/-- a loop variable (and `index` / `isFirst` / `isLast`'s helpers) is visible in the loop body only -/
theorem loop_var_scoped (p : Nat) (var : Bytes) (list : Expr) (body : Block) (ifEmpty : Option Block)
    (ctx : Scope) (st : St) (hown : Own ctx st) (hok : ScopeOk ctx st)
    (h : (execCmd g esc call (.forc p var list body ifEmpty) ctx st).cls = .ok) :
    (execCmd g esc call (.forc p var list body ifEmpty) ctx st).ctx = ctx ∧
    ∀ k, lookup (execCmd g esc call (.forc p var list body ifEmpty) ctx st).st.heap ctx k = lookup st.heap ctx k := by
  have hg := block_cmd_scoped g esc call hcall (.forc p var list body ifEmpty) (by intros; simp) (by intros; simp) ctx st hown
  exact ⟨hg.ctx_eq h, lookup_ext hg.ext ctx hok⟩

/-- nothing a callee binds is visible to the caller afterwards: after a call the caller's scope and every
    variable visible through it are what they were (the call contributes text only) -/
theorem caller_env_unchanged_by_call (p : Nat) (name : Bytes) (allData : Bool) (data : Option Expr) (params : ParamList)
    (ctx : Scope) (st : St) (hown : Own ctx st) (hok : ScopeOk ctx st) :
    ((execCmd g esc call (.call p name allData data params) ctx st).cls = .ok →
      (execCmd g esc call (.call p name allData data params) ctx st).ctx = ctx) ∧
    ∀ k, lookup (execCmd g esc call (.call p name allData data params) ctx st).st.heap ctx k = lookup st.heap ctx k := by
  have hg := block_cmd_scoped g esc call hcall (.call p name allData data params) (by intros; simp) (by intros; simp) ctx st hown
  exact ⟨hg.ctx_eq, lookup_ext hg.ext ctx hok⟩
end

/-! ### the callee's environment -/

/-- `alldata` returns the frames from the innermost entered frame down: every frame above it is dropped -/
theorem alldata_spec : ∀ (ctx sc : Scope), alldata ctx = some sc →
    ∃ pre f r, ctx = pre ++ f :: r ∧ sc = f :: r ∧ f.entered = true ∧ ∀ x ∈ pre, x.entered = false
  | [], sc, h => by simp [alldata] at h
  | f :: r, sc, h => by
    unfold alldata at h
    split at h
    · rename_i he
      simp only [Option.some.injEq] at h
      exact ⟨[], f, r, rfl, h.symm, he, by simp⟩
    · rename_i he
      obtain ⟨pre, f', r', h1, h2, h3, h4⟩ := alldata_spec r sc h
      refine ⟨f :: pre, f', r', by rw [h1]; rfl, h2, h3, ?_⟩
      intro x hx
      rcases List.mem_cons.mp hx with rfl | hx
      · simpa using he
      · exact h4 x hx

theorem alldata_of_shape (locals : Scope) (f : SFrame) (rest : Scope) (hl : ∀ x ∈ locals, x.entered = false)
    (hf : f.entered = true) : alldata (locals ++ f :: rest) = some (f :: rest) := by
  induction locals with
  | nil => simp [alldata, hf]
  | cons l ls ih =>
    have h1 : l.entered = false := hl l List.mem_cons_self
    simp only [List.cons_append, alldata, h1]
    exact ih (fun x hx => hl x (List.mem_cons_of_mem _ hx))

/-- data="all": the callee's param scope is a fresh frame on top of exactly the caller's frames from its
    entry frame down — none of the caller's let / loop / block frames (`locals`) -/
theorem callee_env_all (g : GEnv) (d : Option Expr) (locals : Scope) (f : SFrame) (rest : Scope) (st : St)
    (hl : ∀ x ∈ locals, x.entered = false) (hf : f.entered = true) :
    callData g true d (locals ++ f :: rest) st =
      some (⟨st.heap.length, false⟩ :: f :: rest, { st with heap := st.heap ++ [⟨[], false⟩] }) := by
  simp [callData, alldata_of_shape locals f rest hl hf, push]

/-- a scope with an entered frame somewhere (every scope of a running template: `enter` marks the param /
    data frame and pushes, blocks and loop iterations push unmarked frames on top) -/
def Shaped (ctx : Scope) : Prop := ∃ locals f rest, ctx = locals ++ f :: rest ∧ (∀ x ∈ locals, x.entered = false) ∧ f.entered = true

theorem shaped_iff_alldata (ctx : Scope) : Shaped ctx ↔ ∃ sc, alldata ctx = some sc := by
  constructor
  · rintro ⟨l, f, r, rfl, hl, hf⟩; exact ⟨_, alldata_of_shape l f r hl hf⟩
  · rintro ⟨sc, h⟩
    obtain ⟨pre, f, r, h1, _, h3, h4⟩ := alldata_spec ctx sc h
    exact ⟨pre, f, r, h1, h4, h3⟩

/-- blocks, loop iterations and message bodies push an unmarked frame: the shape is kept -/
theorem shaped_push (ctx : Scope) (st : St) (h : Shaped ctx) : Shaped (push ctx st).1 := by
  obtain ⟨l, f, r, rfl, hl, hf⟩ := h
  refine ⟨⟨st.heap.length, false⟩ :: l, f, r, rfl, ?_, hf⟩
  intro x hx
  rcases List.mem_cons.mp hx with rfl | hx
  · rfl
  · exact hl x hx

/-- entering a template establishes the shape, whatever the scope was -/
theorem shaped_enter (f : SFrame) (r : Scope) (st : St) (cctx : Scope) (s2 : St)
    (h : enter (f :: r) st = some (cctx, s2)) : Shaped cctx := by
  simp only [enter, push, Option.some.injEq, Prod.mk.injEq] at h
  rw [← h.1]
  exact ⟨[⟨st.heap.length, false⟩], { f with entered := true }, r, rfl, by simp, rfl⟩

/-- data="all" WITHOUT a shape hypothesis: whenever the call's data scope exists at all, the caller's scope
    splits into unmarked frames above an entered frame, and the callee's param scope is a fresh frame on
    top of exactly the frames from the entered one down.  (On a `Shaped` scope it always exists:
    `callee_env_all`; that every scope the walk reaches is `Shaped` follows from `shaped_enter` and
    `shaped_push` — each sub-run is started on the current scope or on `push` of it, each callee on the
    result of `enter` — but is not threaded through the mutual induction as a theorem.) -/
theorem callee_env_all_of_success (g : GEnv) (d : Option Expr) (ctx cd : Scope) (st st1 : St)
    (h : callData g true d ctx st = some (cd, st1)) :
    ∃ locals f rest, ctx = locals ++ f :: rest ∧ (∀ x ∈ locals, x.entered = false) ∧ f.entered = true ∧
      cd = ⟨st.heap.length, false⟩ :: f :: rest := by
  simp only [callData, if_true] at h
  split at h
  · simp at h
  · rename_i sc hsc
    obtain ⟨pre, f, r, h1, h2, h3, h4⟩ := alldata_spec ctx sc hsc
    simp only [push, Option.some.injEq, Prod.mk.injEq] at h
    exact ⟨pre, f, r, h1, h4, h3, by rw [← h.1, h2]⟩

/-- no data attribute: one fresh empty map, nothing of the caller -/
theorem callee_env_none (g : GEnv) (ctx : Scope) (st : St) :
    callData g false none ctx st = some ([⟨st.heap.length, false⟩], { st with heap := st.heap ++ [⟨[], false⟩] }) := by
  simp [callData, newScope]

/-- data="$e": the map `$e` evaluates to (as a caller-owned, read-only frame) under a fresh param frame,
    nothing else of the caller -/
theorem callee_env_data (g : GEnv) (e : Expr) (ctx cd : Scope) (st st1 : St)
    (h : callData g false (some e) ctx st = some (cd, st1)) :
    ∃ id kvs s', evalIn g e ctx st = some (.map id kvs, s') ∧
      cd = [⟨s'.heap.length + 1, false⟩, ⟨s'.heap.length, false⟩] ∧
      st1.heap = s'.heap ++ [⟨kvs, true⟩, ⟨[], false⟩] := by
  unfold callData at h
  simp only [Bool.false_eq_true, if_false] at h
  split at h
  · rename_i id kvs s' he
    simp only [newScope, push, Option.some.injEq, Prod.mk.injEq] at h
    obtain ⟨h1, h2⟩ := h
    refine ⟨id, kvs, s', he, ?_, ?_⟩
    · rw [← h1]; simp
    · rw [← h2]; simp
  · simp at h

/-- entering the callee: the param frame becomes the ENTERED frame, a fresh frame for the callee's own
    lets goes on top; a later data="all" inside the callee passes the param frame and what is below -/
theorem enter_then_alldata (f : SFrame) (r : Scope) (st : St) :
    ∃ cctx s2, enter (f :: r) st = some (cctx, s2) ∧ alldata cctx = some ({ f with entered := true } :: r) := by
  refine ⟨_, _, rfl, ?_⟩
  simp [push, alldata]

/-! ### non-vacuity: `{if true}{let $x: 'in' /}{$x}{/if}{$x}` with data x = 'out' prints in, then out -/

def tLeak : Registry.Tmpl :=
  { name := [116], params := [],
    body := .mk 0 (.cons (.ifc 1 (.cons 1 (some (.bool 1 true))
        (.mk 2 (.cons (.letValue 2 [120] (.str 2 [] [105, 110])) (.cons (.print 3 (.dataRef 3 [120] .nil) []) .nil))) .nil))
      (.cons (.print 4 (.dataRef 4 [120] .nil) []) .nil)),
    autoescape := .unspecified, nsName := [110], nsAutoescape := .unspecified, pos := 0, file := [102], text := [0, 0, 0, 0, 0] }

example : (execute { reg := [tLeak], globals := [], ij := none, msgs := none, tbl := [], oblig := [] } [116]
    [([120], .str [111, 117, 116])] 3).chunks = [[105, 110], [111, 117, 116]] := by decide

end SoyVerif.Props.C02
