/-
  C13 — Compilation and code generation are deterministic functions of the sources
  (the code-generation half; the naming / message-id half is Props/C10).

  Theorems about `Model/JsGen.lean` (the model of soyjs.Write, tied to the code by the
  correspondence sub-check C14gen, which also runs the model under several iteration orders,
  and by C13det, the implementation against itself).

  Go randomises the order of every `range` over a map.  soyjs.Write ranges over two kinds of map:
  the items of a map literal (exec.go, MapLiteralNode) and `funcsCalled` (the ES6 import block,
  `difference`).  The model takes that order as the parameter `o : List Bytes → List Bytes`
  (what the runtime does to the list of keys).  The theorems quantify over ALL such parameters
  that are permutations.
-/
import SoyVerif.Model.JsGen
import SoyVerif.Lemmas.Value
import SoyVerif.Lemmas.MsgMap

namespace SoyVerif.Props.C13
open SoyVerif SoyVerif.Model SoyVerif.Model.JsGen

/-- an iteration order of Go maps: whatever it does, it returns the keys it was given -/
def IterOrder (o : List Bytes → List Bytes) : Prop := ∀ l, (o l).Perm l

/-- `sort.Strings` after a range over a map is the same list for every iteration order -/
theorem sorted_keys_order_independent (o₁ o₂ : List Bytes → List Bytes) (h₁ : IterOrder o₁) (h₂ : IterOrder o₂) :
    (fun l => Value.sortStrings (o₁ l)) = (fun l => Value.sortStrings (o₂ l)) := by
  funext l
  exact Value.sortStrings_eq_of_perm ((h₁ l).trans (h₂ l).symm)

/-- … also when keys are dropped between the range and the sort (`difference`) -/
theorem difference_order_independent (o₁ o₂ : List Bytes → List Bytes) (h₁ : IterOrder o₁) (h₂ : IterOrder o₂)
    (called : List (Bytes × List Piece)) (inFile : List Bytes) :
    difference o₁ called inFile = difference o₂ called inFile := by
  unfold difference
  exact Value.sortStrings_eq_of_perm (((h₁ _).trans (h₂ _).symm).filter _)

/-- FULL (generation): the pieces — hence the bytes — `soyjs.Write` produces for a file do not
    depend on the iteration order of the Go maps, for every file, formatter, message bundle and
    globals: ES5 and ES6, with and without messages. -/
theorem genPieces_order_independent (o₁ o₂ : List Bytes → List Bytes) (h₁ : IterOrder o₁) (h₂ : IterOrder o₂)
    (f : SoyFile) (opts : Options) :
    genPieces o₁ f opts = genPieces o₂ f opts := by
  unfold genPieces
  rw [sorted_keys_order_independent o₁ o₂ h₁ h₂]
  cases visitSoyFile (fun l => Value.sortStrings (o₂ l)) opts f initState with
  | error e => rfl
  | ok r =>
    obtain ⟨u, body, s⟩ := r
    simp only [importPieces, difference_order_independent o₁ o₂ h₁ h₂]

theorem gen_order_independent (o₁ o₂ : List Bytes → List Bytes) (h₁ : IterOrder o₁) (h₂ : IterOrder o₂)
    (f : SoyFile) (opts : Options) :
    gen o₁ f opts = gen o₂ f opts := by
  unfold gen
  rw [genPieces_order_independent o₁ o₂ h₁ h₂]

/-- in particular: every order gives what the order-free reading (keys as stored) gives -/
theorem gen_canonical (o : List Bytes → List Bytes) (h : IterOrder o) (f : SoyFile) (opts : Options) :
    gen o f opts = gen id f opts :=
  gen_order_independent o id h (fun _ => List.Perm.refl _) f opts

/-! ### the orders the driver runs the model under are iteration orders -/

theorem iterOrder_id : IterOrder id := fun _ => List.Perm.refl _
theorem iterOrder_reverse : IterOrder List.reverse := fun l => List.reverse_perm l
theorem iterOrder_rotate : IterOrder (fun l => match l with | [] => [] | x :: r => r ++ [x]) := by
  intro l
  cases l with
  | nil => exact List.Perm.refl _
  | cons x r => exact (List.perm_append_comm (l₁ := r) (l₂ := [x]))

/-! ### files: lookup by name does not depend on the order in which files were added -/

/-- soyjs.Generator.WriteFile / the harness: the first file of that name -/
def fileByName (fs : List SoyFile) (name : Bytes) : Option SoyFile := fs.find? (·.name == name)

theorem fileByName_eq_some_iff {fs : List SoyFile} (nd : (fs.map (·.name)).Nodup) (name : Bytes) (f : SoyFile) :
    fileByName fs name = some f ↔ f ∈ fs ∧ f.name = name := by
  unfold fileByName
  induction fs with
  | nil => simp
  | cons g r ih =>
    simp only [List.map_cons, List.nodup_cons] at nd
    simp only [List.find?_cons]
    by_cases hg : g.name = name
    · have hb : (g.name == name) = true := by simpa using hg
      simp only [hb, Option.some.injEq, List.mem_cons]
      constructor
      · intro e; subst e; exact ⟨Or.inl rfl, hg⟩
      · rintro ⟨e | hm, hn⟩
        · exact e.symm
        · exfalso
          apply nd.1
          rw [hg, ← hn]
          exact List.mem_map_of_mem hm
    · have hb : (g.name == name) = false := by simpa using hg
      simp only [hb, ih nd.2, List.mem_cons]
      constructor
      · rintro ⟨hm, hn⟩; exact ⟨Or.inr hm, hn⟩
      · rintro ⟨e | hm, hn⟩
        · subst e; exact absurd hn hg
        · exact ⟨hm, hn⟩

/-- FULL (`file_permutation`): with distinct file names, the file found under a name — and
    therefore the JavaScript generated for it — is the same for every insertion order. -/
theorem file_permutation {fs fs' : List SoyFile} (h : fs.Perm fs') (nd : (fs.map (·.name)).Nodup) (name : Bytes) :
    fileByName fs name = fileByName fs' name := by
  have nd' : (fs'.map (·.name)).Nodup := (h.map (·.name)).nodup_iff.mp nd
  apply Option.ext
  intro f
  rw [fileByName_eq_some_iff nd, fileByName_eq_some_iff nd', h.mem_iff]

theorem gen_file_permutation {fs fs' : List SoyFile} (h : fs.Perm fs') (nd : (fs.map (·.name)).Nodup)
    (o₁ o₂ : List Bytes → List Bytes) (h₁ : IterOrder o₁) (h₂ : IterOrder o₂) (name : Bytes) (opts : Options) :
    (fileByName fs name).map (fun f => gen o₁ f opts) = (fileByName fs' name).map (fun f => gen o₂ f opts) := by
  rw [file_permutation h nd name]
  cases fileByName fs' name with
  | none => rfl
  | some f => simp [gen_order_independent o₁ o₂ h₁ h₂]

/-- duplicate names are what the hypothesis excludes: then the FIRST file wins and the order shows -/
example :
    (fileByName [{ name := [97], text := [], body := [] }, { name := [97], text := [1], body := [] }] [97]).map (·.text)
      ≠ (fileByName [{ name := [97], text := [1], body := [] }, { name := [97], text := [], body := [] }] [97]).map (·.text) := by
  decide

/-! ### non-vacuity: an order CAN change the intermediate lists; only the sort hides it -/

example : List.reverse [[98], [97]] ≠ id [[98], [97]] := by decide
example : Value.sortStrings (List.reverse [[98], [97], [99]]) = Value.sortStrings [[98], [97], [99]] := by decide

/-- without the sort the import block would follow the iteration order (the defect repaired by
    commit "ES6 imports are emitted in random order"): the unsorted difference differs -/
example : ((List.reverse [[98], [97]]).filter fun k => !([] : List Bytes).contains k)
    ≠ ((id [[98], [97]]).filter fun k => !([] : List Bytes).contains k) := by decide

end SoyVerif.Props.C13
