/-
  C04 — generated JavaScript ≡ Go renderer, COMMAND level (partial).

  The fragment: raw text, `{print}` with directives, `{let $x: e /}`, `{if}/{elseif}/{else}`,
  `{foreach $x in e}…{ifempty}…{/foreach}`, `{for $i in range(a[, b[, c]])}` (c a positive literal),
  `{switch}` (`{default}` last), `{let $x}…{/let}` content blocks (a buffer of their own), `{call}` with value
  params, `{param k}…{/param}` content params and `data="all"` / `data="$e"` (soy.$$augmentMap) — against a CALLEE
  ORACLE: `G name data`, what the generated function `name` returns, related by the hypothesis `CallRel` to the
  `call` of the reference context `R : RefCtx` (registry, entry data, `call` as in Spec/Eval) —, `{msg}` WITHOUT a
  message bundle (the generator then writes the parts one after the other: raw text, HTML
  tags, print and call placeholders, and for a `{plural}` a `switch` on its value; hypothesis `o.messages = none` of the generator theorems) — the expressions of
  Props/C04c inside them.

  1. `toCmds` translates the commands, in the generator scope they are met in, to the statement AST of
     Spec/JsStmt; `walkCmds_renders`: the generator model writes EXACTLY `renderStmts` of the
     translation (piece for piece, indentation included) and leaves its state as the translation
     says (scope: the `let` variables of the block, the counter).
  2. `refCmds`: the denotational specification Spec/Eval.renderCmds restricted to the fragment and
     extended to print DIRECTIVES the way the Go renderer applies them (Props/C04b `goPrint`: left to
     right, the escape flag cleared by a cancelling directive, escaping last), the directive
     functions uninterpreted symbols `F name args` on JSON images.  `ref_le_spec`: without
     directives, and `F escapeHtml` read as Spec/Eval.htmlEscape ∘ ToString, it IS Spec/Eval.renderCmds.
  3. `gen_correct_cmds_partial`: whenever the emitted statements run to completion (Spec/JsStmt,
     any `F`) from a JavaScript environment related to the Soy environment, the specification
     renders the commands to a text, and the statements have appended exactly this text to the output
     variable; the final environments are related again.
-/
import SoyVerif.Props.C04b
import SoyVerif.Props.C04c
import SoyVerif.Spec.JsStmt
import SoyVerif.Lemmas.JsonValue
import SoyVerif.Props.C02Spec

namespace SoyVerif.Props.C04d
open SoyVerif SoyVerif.Model SoyVerif.Model.JsGen SoyVerif.Spec.JsSemRef SoyVerif.Spec.JsStmt
open SoyVerif.Props.C04c (toAst render RunsSc Same walkExpr_renders toJsV EnvRel Globals GlobalsAre IjRel GlobRel)

set_option linter.unusedSectionVars false

section Dev
variable [Globals] {ent : Spec.Eval.Binds}


/-! ## 1. translation -/

/-- a literal directive argument (`|truncate:8`, `|insertWordBreaks:5`, `|truncate:8,false`) -/
def litAst : Expr → Option JsExpr
  | .null _ => some .null
  | .bool _ b => some (.bool b)
  | .int _ v => some (.num v)
  | .str _ _ v => some (.str v)
  | _ => none

theorem toAst_lit (sc : Scope) : ∀ (a : Expr) (j : JsExpr), litAst a = some j → toAst sc a = some j
  | .null _, _, h => by simpa [litAst, toAst] using h
  | .bool _ _, _, h => by simpa [litAst, toAst] using h
  | .int _ _, _, h => by simpa [litAst, toAst] using h
  | .str _ _ _, _, h => by simpa [litAst, toAst] using h
  | .float _ _, _, h => by simp [litAst] at h
  | .global _ _, _, h => by simp [litAst] at h
  | .func _ _ _, _, h => by simp [litAst] at h
  | .list _ _, _, h => by simp [litAst] at h
  | .map _ _, _, h => by simp [litAst] at h
  | .dataRef _ _ _, _, h => by simp [litAst] at h
  | .not _ _, _, h => by simp [litAst] at h
  | .neg _ _, _, h => by simp [litAst] at h
  | .bin _ _ _ _, _, h => by simp [litAst] at h
  | .tern _ _ _ _, _, h => by simp [litAst] at h

/-- a directive of the fragment: literal arguments, known to the Go renderer too -/
def dirOk (d : Directive) : Bool :=
  d.args.all (fun a => (litAst a).isSome) && (Directives.lookup Gen.directiveTable d.name).isSome

/-- the statements of a foreach loop, from the names `pushForEach` generates (item, list, limit,
    index), the list expression, the body and the `{ifempty}` block -/
def foreachStmts (names : Bytes × Bytes × Bytes × Bytes) (list : JsExpr) (body : JsStmts) (ifEmpty : Option JsStmts) :
    JsStmts :=
  let loop : JsStmt := .forUp names.2.2.2 names.2.2.1 (.cons (.varIndex names.1 names.2.1 names.2.2.2) body)
  .cons (.var names.2.1 list) (.cons (.varLength names.2.2.1 names.2.1)
    (.one (match ifEmpty with
      | none => loop
      | some ie => .ifPos names.2.2.1 (.one loop) ie)))

/-- a positive integer literal (the step of a `range`) -/
def posLit : Expr → Bool
  | .int _ c => decide (0 < c)
  | _ => false

/-- `var vLimit = limit; var vStep = incr; for (var v = init, vIndex = 0; v < vLimit; v += vStep, vIndex++) {…}` -/
def rangeStmts (names : Bytes × Bytes × Bytes × Bytes) (limit init incr : JsExpr) (body : JsStmts) : JsStmts :=
  .cons (.var names.2.1 limit) (.cons (.var names.2.2.1 incr)
    (.one (.forStep names.1 names.2.1 names.2.2.1 names.2.2.2 init body)))

/-- `{for $v in range(…)}` from the translation of its body (in the loop's frame): one to three
    arguments, the step absent or a positive literal -/
def rangeJoin (v : Bytes) (list : Expr) (sc : Scope) (rb : Option (JsStmts × Scope)) (noIfEmpty : Bool) :
    Option (JsStmts × Scope) :=
  if v.contains 36 || !noIfEmpty then none
  else match isRangeCall list with
    | none => none
    | some args =>
      match rangeLimit args with
      | none => none
      | some l =>
        if posLit (rangeIncr args) then
          match toAst sc l, toAst sc (rangeInit args), toAst sc (rangeIncr args), rb with
          | some jl, some ji, some jc, some rb => some (rangeStmts (sc.pushForRange v).1 jl ji jc rb.1, rb.2.pop)
          | _, _, _, _ => none
        else none

/-- `{foreach $v in list}` from the translations of its parts: the body (in the loop's frame) and the
    `{ifempty}` block (a function of the scope it is met in, after the loop's frame is popped) -/
def forcJoin (v : Bytes) (list : Expr) (sc : Scope) (rb : Option (JsStmts × Scope))
    (ie : Option (Scope → Option (JsStmts × Scope))) : Option (JsStmts × Scope) :=
  if v.contains 36 || (isRangeCall list).isSome then none
  else match toAst sc list, rb with
    | some j, some rb =>
      (match ie with
        | none => some (foreachStmts (sc.pushForEach v).1 j rb.1 none, rb.2.pop)
        | some f =>
          (match f rb.2.pop with
            | none => none
            | some re => some (foreachStmts (sc.pushForEach v).1 j rb.1 (some re.1), re.2)))
    | _, _ => none

/-- the case labels of a clause -/
def astList (sc : Scope) : List Expr → Option (List JsExpr)
  | [] => some []
  | e :: r =>
    match toAst sc e, astList sc r with
    | some j, some js => some (j :: js)
    | _, _ => none

/-- one `{case v, …}` / `{default}` clause from the translations of its parts; `{default}` is the last clause -/
def caseJoin (sc : Scope) (values : List Expr) (rb : Option (JsStmts × Scope)) (last : Bool)
    (rest : Scope → Option (JsCases × Scope)) : Option (JsCases × Scope) :=
  match rb with
  | none => none
  | some rb =>
    if values.isEmpty then (if last then some (.dflt rb.1, rb.2) else none)
    else match astList sc values, rest rb.2 with
      | some js, some rr => some (.cons js rb.1 rr.1, rr.2)
      | _, _ => none

/-- `{let $x}…{/let}` from the translation of its body (run with the new buffer): declare the buffer, fill it,
    bind the name to it -/
def letJoin (name : Bytes) (sc : Scope) (rb : Option (JsStmts × Scope)) : Option (JsStmts × Scope) :=
  if name.contains 36 then none
  else match rb with
    | some rb => some (.cons (.varEmpty (sc.genname name).1) rb.1, rb.2.bind name (sc.genname name).1)
    | none => none

/-- the `{ifempty}` block of a loop over `range(…)` (2e1528d): after the loop, outside its frame, `if (index == 0) {…}` -/
def rangeIeJoin (idx : Bytes) (r0 : Option (JsStmts × Scope)) (ie : Option (Scope → Option (JsStmts × Scope))) :
    Option (JsStmts × Scope) :=
  match ie with
  | none => r0
  | some f =>
    match r0 with
    | none => none
    | some r0 =>
      match f r0.2 with
      | some re => some (r0.1.append (.one (.ifZero idx re.1)), re.2)
      | none => none

/-- a loop command: `{foreach}` over a list, else `{for}` over a range -/
def loopJoin (v : Bytes) (list : Expr) (sc : Scope) (rbEach : Option (JsStmts × Scope))
    (ie : Option (Scope → Option (JsStmts × Scope))) (rbRange : Option (JsStmts × Scope)) :
    Option (JsStmts × Scope) :=
  match forcJoin v list sc rbEach ie with
  | some r => some r
  | none => rangeIeJoin (sc.pushForRange v).1.2.2.2 (rangeJoin v list sc rbRange true) ie

/-- the first argument of the callee: `{}`, `opt_data` (`data="all"`) or the `data="$e"` expression -/
def callBase (sc : Scope) (allData : Bool) (data : Option Expr) : Option DataBase :=
  match allData, data with
  | false, none => some .empty
  | true, none => some .all
  | false, some e => (toAst sc e).map .expr
  | true, some _ => none

/-- a `{param k: e /}` from the translations of its parts -/
def valueParamJoin (key : Bytes) (j : Option JsExpr) (rr : Option (JsStmts × List (Bytes × JsExpr) × Scope)) :
    Option (JsStmts × List (Bytes × JsExpr) × Scope) :=
  match j, rr with
  | some j, some rr => some (rr.1, (key, j) :: rr.2.1, rr.2.2)
  | _, _ => none

/-- a `{param k}…{/param}` from the translation of its body (run with the buffer `g`): declare the buffer, fill
    it; the param's value is the buffer -/
def contentParamJoin (key g : Bytes) (rb : Option (JsStmts × Scope))
    (rest : Scope → Option (JsStmts × List (Bytes × JsExpr) × Scope)) :
    Option (JsStmts × List (Bytes × JsExpr) × Scope) :=
  match rb with
  | none => none
  | some rb =>
    match rest rb.2 with
    | some rr => some ((JsStmts.cons (.varEmpty g) rb.1).append rr.1, (key, .local g) :: rr.2.1, rr.2.2)
    | none => none

/-- `{call}` from the translations of its parts: the statements of the content params, then the call -/
def callJoin (buf name : Bytes) (base : Option DataBase) (rp : Option (JsStmts × List (Bytes × JsExpr) × Scope)) :
    Option (JsStmts × Scope) :=
  match base, rp with
  | some b, some rp => some (rp.1.append (.one (.call buf name b rp.2.1)), rp.2.2)
  | _, _ => none

/-- `{msg}` (no bundle) from the translation of its parts: a scope frame of its own -/
def msgJoin (rb : Option (JsStmts × Scope)) : Option (JsStmts × Scope) :=
  match rb with
  | some r => some (r.1, r.2.pop)
  | none => none

/-- a placeholder of a message, then the rest (in the scope the placeholder leaves) -/
def phJoin (r1 : Option (JsStmts × Scope)) (rest : Scope → Option (JsStmts × Scope)) : Option (JsStmts × Scope) :=
  match r1 with
  | none => none
  | some r1 =>
    match rest r1.2 with
    | some r2 => some (r1.1.append r2.1, r2.2)
    | none => none

/-- one `{case n}` of a `{plural}` from the translations of its parts.  The generator opens NO frame for the body of a
    case: the translation takes only bodies that leave the frames as they found them (print / call placeholders do) -/
def pcaseJoin (sc : Scope) (v : Int) (rb : Option (JsStmts × Scope)) (rest : Scope → Option (JsPlural × Scope)) :
    Option (JsPlural × Scope) :=
  match rb with
  | none => none
  | some rb =>
    if rb.2.stack = sc.stack then
      (match rest rb.2 with
        | some rr => some (.cons v rb.1 rr.1, rr.2)
        | none => none)
    else none

/-- a `{plural}` part of a message (no bundle): the switch on its value, then the rest of the message -/
def pluralJoin (sc : Scope) (j : Option JsExpr) (rc : Option (JsPlural × Scope)) (dflt rest : Scope → Option (JsStmts × Scope)) :
    Option (JsStmts × Scope) :=
  match j, rc with
  | some j, some rc =>
    (match dflt rc.2 with
      | some rd =>
        if rd.2.stack = sc.stack then
          (match rest rd.2 with
            | some rr => some (.cons (.pluralS j rc.1 rd.1) rr.1, rr.2)
            | none => none)
        else none
      | none => none)
  | _, _ => none

section
variable (ae : Autoescape)

mutual
  /-- a command in the scope `sc`: its statements and the scope for the commands after it -/
  def toCmd : Bytes → Cmd → Scope → Option (JsStmts × Scope)
    | buf, .rawText _ t, sc => some (.one (.appendLit buf t), sc)
    | buf, .print _ arg dirs, sc =>
      if dirs.all dirOk then
        match toAst sc arg, collectDirs dirs with
        | some j, some ck => some (.one (.append buf j (printDirs ae ck.1 ck.2)), sc)
        | _, _ => none
      else none
    | buf, .letValue _ x e, sc =>
      if x.contains 36 then none
      else match toAst sc e with
        | some j => some (.one (.var (sc.makevar x).1 j), (sc.makevar x).2)
        | none => none
    | buf, .ifc _ conds, sc =>
      match toConds buf conds sc with
      | some r => some (.one (.ifs r.1), r.2)
      | none => none
    | buf, .forc _ v list body ifEmpty, sc =>
      -- `{foreach $v in list}` (not over `range(…)`): the list is evaluated outside the loop frame
      loopJoin v list sc (toBody buf body (sc.pushForEach v).2)
        (match ifEmpty with
          | none => none
          | some ie => some (toBlock buf ie))
        (toBody buf body (sc.pushForRange v).2)
    | buf, .switch _ value cases, sc =>
      match toAst sc value, toCases buf cases sc with
      | some j, some rc => some (.one (.switchS j rc.1), rc.2)
      | _, _ => none
    | _, .letContent _ name body, sc =>
      -- `{let $x}…{/let}`: the body writes to a buffer of its own, which `$x` then names
      letJoin name sc (toBlock (sc.genname name).1 body (sc.genname name).2)
    | buf, .call _ name allData data params, sc =>
      -- `{call name …}`: the content params are rendered into buffers of their own first
      callJoin buf name (callBase sc allData data) (toParams params sc)
    | buf, .css _ e suffix, sc =>
      -- `{css $e, name}`: the value of `e`, a hyphen, the name — unescaped; `{css name}`: the name
      (match e with
        | none => some (.one (.appendLit buf suffix), sc)
        | some e =>
          (match toAst sc e with
            | some j => some (.cons (.appendCss buf j) (.one (.appendLit buf suffix)), sc)
            | none => none))
    | _, .debugger _, sc => some (.one .debuggerS, sc)
    | buf, .msg _ _ _ _ _ body, sc =>
      -- `{msg}` WITHOUT a message bundle: the parts one after the other (no goog.getMsg), in a frame of their own
      msgJoin (toParts buf body sc.push)
    | _, _, _ => none
  /-- the parts of a message (no `{plural}`): raw text, and the placeholders — an HTML tag or a command -/
  def toParts : Bytes → MsgParts → Scope → Option (JsStmts × Scope)
    | _, .nil, sc => some (.nil, sc)
    | buf, .text _ t r, sc => phJoin (some (.one (.appendLit buf t), sc)) (toParts buf r)
    | buf, .ph _ _ body r, sc => phJoin (toPh buf body sc) (toParts buf r)
    | buf, .plural _ _ value cases _ dflt r, sc =>
      pluralJoin sc (toAst sc value) (toPCases buf cases sc) (toParts buf dflt) (toParts buf r)
  /-- the `{case n}` clauses of a plural -/
  def toPCases : Bytes → PluralCases → Scope → Option (JsPlural × Scope)
    | _, .nil, sc => some (.nil, sc)
    | buf, .cons _ v _ body rest, sc => pcaseJoin sc v (toParts buf body sc) (toPCases buf rest)
  def toPh : Bytes → MsgPhBody → Scope → Option (JsStmts × Scope)
    | buf, .htmlTag _ t, sc => some (.one (.appendLit buf t), sc)
    | buf, .cmd c, sc => toCmd buf c sc
  /-- the params of a call: the statements that fill the content params' buffers, the `key: value` list, and the
      scope afterwards (only its counter moved) -/
  def toParams : ParamList → Scope → Option (JsStmts × List (Bytes × JsExpr) × Scope)
    | .nil, sc => some (.nil, [], sc)
    | .value _ key e rest, sc => valueParamJoin key (toAst sc e) (toParams rest sc)
    | .content _ key body rest, sc =>
      contentParamJoin key (sc.genname b!"param").1
        (toBlock (sc.genname b!"param").1 body (sc.genname b!"param").2) (toParams rest)
  /-- the body of a loop: in the loop's frame -/
  def toBody : Bytes → Block → Scope → Option (JsStmts × Scope)
    | buf, .mk _ cmds, sc => toCmds buf cmds sc
  /-- a block has a scope frame of its own -/
  def toBlock : Bytes → Block → Scope → Option (JsStmts × Scope)
    | buf, .mk _ cmds, sc =>
      match toCmds buf cmds sc.push with
      | some r => some (r.1, r.2.pop)
      | none => none
  def toCmds : Bytes → CmdList → Scope → Option (JsStmts × Scope)
    | buf, .nil, sc => some (.nil, sc)
    | buf, .cons c rest, sc =>
      match toCmd buf c sc with
      | none => none
      | some r1 =>
        match toCmds buf rest r1.2 with
        | none => none
        | some r2 => some (r1.1.append r2.1, r2.2)
  def toCases : Bytes → CaseList → Scope → Option (JsCases × Scope)
    | buf, .nil, sc => some (.nil, sc)
    | buf, .cons _ values body rest, sc =>
      caseJoin sc values (toBlock buf body sc) (match rest with | .nil => true | _ => false) (toCases buf rest)
  def toConds : Bytes → CondList → Scope → Option (JsConds × Scope)
    | buf, .nil, sc => some (.nil, sc)
    | buf, .cons _ cond body rest, sc =>
      match cond with
      | some c =>
        (match toAst sc c, toBlock buf body sc with
          | some j, some rb =>
            (match toConds buf rest rb.2 with
              | some rr => some (.cons j rb.1 rr.1, rr.2)
              | none => none)
          | _, _ => none)
      | none =>
        -- `{else}` is the last branch
        (match rest, toBlock buf body sc with
          | .nil, some rb => some (.els rb.1, rb.2)
          | _, _ => none)
end

end

/-! ## the text of the statements, in the generator's pieces -/

def argPieces (a : Expr) : List Piece :=
  match litAst a with
  | some j => [.fixed b!","] ++ render j
  | none => []

def openPieces (d : Directive) : List Piece := [.fixed (directiveJsName d.name), .fixed b!"("]

def closePieces (d : Directive) : List Piece :=
  d.args.flatMap argPieces ++ (if d.name == b!"truncate" && d.args.length == 1 then [.fixed b!",true"] else []) ++
    [.fixed b!")"]

def basePieces : DataBase → List Piece
  | .empty => [.fixed b!"{}"]
  | .all => [.fixed b!"opt_data"]
  | .expr e => render e

/-- `k: v, k: v, …` -/
def kvPieces : List (Bytes × JsExpr) → Bool → List Piece
  | [], _ => []
  | (k, v) :: r, first => (if first then [] else [.fixed b!", "]) ++ [.ident k, .fixed b!": "] ++ render v ++ kvPieces r false

/-- the data argument of a call -/
def dataPieces (base : DataBase) (params : List (Bytes × JsExpr)) : List Piece :=
  match params with
  | [] => basePieces base
  | ps => [.fixed b!"soy.$$augmentMap("] ++ basePieces base ++ [.fixed b!", {"] ++ kvPieces ps true ++ [.fixed b!"})"]

mutual
  def renderStmt (es6 : Bool) (ind : Nat) : JsStmt → List Piece
    | .appendLit b t => [.fixed (spaces ind), .ident b, .fixed b!" += '", .escaped t, .fixed b!"';\n"]
    | .append b e ds =>
      [.fixed (spaces ind), .ident b, .fixed b!" += "] ++ ds.reverse.flatMap openPieces ++ render e ++
        ds.flatMap closePieces ++ [.fixed b!";\n"]
    | .var x e => [.fixed (spaces ind), .fixed b!"var ", .ident x, .fixed b!" = "] ++ render e ++ [.fixed b!";", .fixed [10]]
    | .ifs conds => [.fixed (spaces ind)] ++ renderConds es6 ind conds true ++ [.fixed [10]]
    | .varEmpty x => [.fixed (spaces ind), .fixed b!"var ", .ident x, .fixed b!" = '';", .fixed [10]]
    | .varLength x list =>
      [.fixed (spaces ind), .fixed b!"var ", .ident x, .fixed b!" = ", .ident list, .fixed b!".length;", .fixed [10]]
    | .varIndex x list idx =>
      [.fixed (spaces ind), .fixed b!"var ", .ident x, .fixed b!" = ", .ident list, .fixed b!"[", .ident idx, .fixed b!"];",
        .fixed [10]]
    | .forUp i lim body =>
      [.fixed (spaces ind), .fixed b!"for (var ", .ident i, .fixed b!" = 0; ", .ident i, .fixed b!" < ", .ident lim,
        .fixed b!"; ", .ident i, .fixed b!"++) {", .fixed [10]] ++ renderStmts es6 (ind + 1) body ++
        [.fixed (spaces ind), .fixed b!"}", .fixed [10]]
    | .forStep i lim step idx init body =>
      [.fixed (spaces ind), .fixed b!"for (var ", .ident i, .fixed b!" = "] ++ render init ++
        [.fixed b!", ", .ident idx, .fixed b!" = 0; ", .ident i, .fixed b!" < ", .ident lim, .fixed b!"; ", .ident i,
          .fixed b!" += ", .ident step, .fixed b!", ", .ident idx, .fixed b!"++) {", .fixed [10]] ++
        renderStmts es6 (ind + 1) body ++ [.fixed (spaces ind), .fixed b!"}", .fixed [10]]
    | .switchS e cases =>
      [.fixed (spaces ind), .fixed b!"switch ("] ++ render e ++ [.fixed b!") {", .fixed [10]] ++ renderCases es6 (ind + 1) cases ++
        [.fixed (spaces ind), .fixed b!"}", .fixed [10]]
    | .call b callee base params =>
      [.fixed (spaces ind), .ident b, .fixed b!" += ", (if es6 then .es6name callee else .qname callee), .fixed b!"("] ++
        dataPieces base params ++ [.fixed b!", opt_sb, opt_ijData);", .fixed [10]]
    | .appendCss b e => [.fixed (spaces ind), .ident b, .fixed b!" += "] ++ render e ++ [.fixed b!" + '-';", .fixed [10]]
    | .debuggerS => [.fixed (spaces ind), .fixed b!"debugger;", .fixed [10]]
    | .pluralS e cases dflt =>
      [.fixed (spaces ind), .fixed b!"switch ("] ++ render e ++ [.fixed b!") {", .fixed [10]] ++ renderPlural es6 (ind + 1) cases ++
        [.fixed (spaces (ind + 1)), .fixed b!"default:", .fixed [10]] ++ renderStmts es6 (ind + 1 + 1) dflt ++
        [.fixed (spaces ind), .fixed b!"}", .fixed [10]]
    | .ifZero idx body =>
      [.fixed (spaces ind), .fixed b!"if (", .ident idx, .fixed b!" == 0) {", .fixed [10]] ++ renderStmts es6 (ind + 1) body ++
        [.fixed (spaces ind), .fixed b!"}", .fixed [10]]
    | .ifPos lim body els =>
      [.fixed (spaces ind), .fixed b!"if (", .ident lim, .fixed b!" > 0) {", .fixed [10]] ++ renderStmts es6 (ind + 1) body ++
        [.fixed (spaces ind), .fixed b!"} else {", .fixed [10]] ++ renderStmts es6 (ind + 1) els ++
        [.fixed (spaces ind), .fixed b!"}", .fixed [10]]
  def renderStmts (es6 : Bool) (ind : Nat) : JsStmts → List Piece
    | .nil => []
    | .cons s r => renderStmt es6 ind s ++ renderStmts es6 ind r
  def renderCases (es6 : Bool) (ind : Nat) : JsCases → List Piece
    | .nil => []
    | .dflt body =>
      [.fixed (spaces ind), .fixed b!"default:", .fixed [10]] ++ renderStmts es6 (ind + 1) body ++
        [.fixed (spaces (ind + 1)), .fixed b!"break;", .fixed [10]]
    | .cons labels body rest =>
      labels.flatMap (fun j => [.fixed (spaces ind), .fixed b!"case "] ++ render j ++ [.fixed b!":", .fixed [10]]) ++
        renderStmts es6 (ind + 1) body ++ [.fixed (spaces (ind + 1)), .fixed b!"break;", .fixed [10]] ++ renderCases es6 ind rest
  def renderPlural (es6 : Bool) (ind : Nat) : JsPlural → List Piece
    | .nil => []
    | .cons v body rest =>
      [.fixed (spaces ind), .fixed b!"case ", .int v, .fixed b!":", .fixed [10]] ++ renderStmts es6 (ind + 1) body ++
        [.fixed (spaces (ind + 1)), .fixed b!"break;", .fixed [10]] ++ renderPlural es6 ind rest
  def renderConds (es6 : Bool) (ind : Nat) : JsConds → Bool → List Piece
    | .nil, _ => []
    | .els body, first =>
      (if first then [] else [.fixed b!" else "]) ++ [.fixed b!"{\n"] ++ renderStmts es6 (ind + 1) body ++
        [.fixed (spaces ind), .fixed b!"}"]
    | .cons c body rest, first =>
      (if first then [] else [.fixed b!" else "]) ++ [.fixed b!"if ("] ++ render c ++ [.fixed b!") ", .fixed b!"{\n"] ++
        renderStmts es6 (ind + 1) body ++ [.fixed (spaces ind), .fixed b!"}"] ++ renderConds es6 ind rest false
end

theorem renderStmts_append (es6 : Bool) (ind : Nat) : ∀ (a b : JsStmts),
    renderStmts es6 ind (a.append b) = renderStmts es6 ind a ++ renderStmts es6 ind b
  | .nil, b => by simp [JsStmts.append, renderStmts]
  | .cons s r, b => by simp [JsStmts.append, renderStmts, renderStmts_append es6 ind r b]

theorem renderStmts_one (es6 : Bool) (ind : Nat) (s : JsStmt) : renderStmts es6 ind (.one s) = renderStmt es6 ind s := by
  simp [JsStmts.one, renderStmts]

/-! ## the generator writes `renderStmts (toCmds …)` -/

/-- from every state satisfying `P`, `m` succeeds, writes exactly `ps` and ends in a state
    satisfying `Q` -/
def Runs (P Q : St → Prop) (m : M Unit) (ps : List Piece) : Prop :=
  ∀ s, P s → ∃ s', m s = .ok ((), ps, s') ∧ Q s'

theorem Runs.seq {P Q R : St → Prop} {m k : M Unit} {ps qs : List Piece} (hm : Runs P Q m ps) (hk : Runs Q R k qs) :
    Runs P R (m >>= fun _ => k) (ps ++ qs) := by
  intro s hs
  obtain ⟨s1, h1, hs1⟩ := hm s hs
  obtain ⟨s2, h2, hs2⟩ := hk s1 hs1
  exact ⟨s2, by simp [Bind.bind, M.bind, h1, h2], hs2⟩

theorem Runs.cast {P Q : St → Prop} {m : M Unit} {ps qs : List Piece} (h : Runs P Q m ps) (e : ps = qs) :
    Runs P Q m qs := e ▸ h

theorem Runs.pure {P : St → Prop} : Runs P P (pure ()) [] := fun s hs => ⟨s, rfl, hs⟩
theorem Runs.emits {P : St → Prop} (ps : List Piece) : Runs P P (emits ps) ps := fun s hs => ⟨s, rfl, hs⟩
theorem Runs.emit {P : St → Prop} (p : Piece) : Runs P P (emit p) [p] := fun s hs => ⟨s, rfl, hs⟩
theorem Runs.fx {P : St → Prop} (t : Bytes) : Runs P P (fx t) [.fixed t] := fun s hs => ⟨s, rfl, hs⟩
theorem Runs.nl {P : St → Prop} : Runs P P nl [.fixed [10]] := fun s hs => ⟨s, rfl, hs⟩

theorem Runs.whenM {P : St → Prop} {m : M Unit} {ps : List Piece} (c : Bool) (h : Runs P P m ps) :
    Runs P P (whenM c m) (if c then ps else []) := by
  cases c
  · exact Runs.pure
  · exact h

/-- what the walk of a block of commands keeps fixed, and the scope it is in -/
def At (ind : Nat) (buf : Bytes) (ae : Autoescape) (sc : Scope) (s : St) : Prop :=
  s.indent = ind ∧ s.bufferName = buf ∧ s.autoescape = ae ∧ s.scope = sc

section
variable {ind : Nat} {buf : Bytes} {ae : Autoescape} {sc : Scope}

theorem Runs.indentP : Runs (At ind buf ae sc) (At ind buf ae sc) indentP [.fixed (spaces ind)] := by
  intro s hs
  exact ⟨s, by simp [JsGen.indentP, hs.1], hs⟩

theorem Runs.incIndent : Runs (At ind buf ae sc) (At (ind + 1) buf ae sc) incIndent [] := by
  intro s hs
  exact ⟨_, rfl, by simp [hs.1], hs.2.1, hs.2.2.1, hs.2.2.2⟩

theorem Runs.decIndent : Runs (At (ind + 1) buf ae sc) (At ind buf ae sc) decIndent [] := by
  intro s hs
  exact ⟨_, rfl, by simp [hs.1], hs.2.1, hs.2.2.1, hs.2.2.2⟩

theorem Runs.atOther : Runs (At ind buf ae sc) (At ind buf ae sc) atOther [] := by
  intro s hs
  exact ⟨_, rfl, hs.1, hs.2.1, hs.2.2.1, hs.2.2.2⟩

theorem Runs.pushScope : Runs (At ind buf ae sc) (At ind buf ae sc.push) pushScope [] := by
  intro s hs
  exact ⟨_, rfl, hs.1, hs.2.1, hs.2.2.1, by simp [hs.2.2.2]⟩

theorem Runs.popScope : Runs (At ind buf ae sc) (At ind buf ae sc.pop) popScope [] := by
  intro s hs
  exact ⟨_, rfl, hs.1, hs.2.1, hs.2.2.1, by simp [hs.2.2.2]⟩

theorem Runs.setScope (sc' : Scope) : Runs (At ind buf ae sc) (At ind buf ae sc') (setScope sc') [] := by
  intro s hs
  exact ⟨_, rfl, hs.1, hs.2.1, hs.2.2.1, rfl⟩

/-- an expression walk (Props/C04c) inside a command -/
theorem Runs.expr {m : M Unit} {ps : List Piece} (h : RunsSc sc m ps) : Runs (At ind buf ae sc) (At ind buf ae sc) m ps := by
  intro s hs
  obtain ⟨s', h', hsc, e⟩ := h s hs.2.2.2
  exact ⟨s', h', e.1.trans hs.1, e.2.2.1.trans hs.2.1, e.2.2.2.1.trans hs.2.2.1, hsc⟩

theorem Runs.getBuf {Q : St → Prop} {k : Bytes → M Unit} {ps : List Piece} (h : Runs (At ind buf ae sc) Q (k buf) ps) :
    Runs (At ind buf ae sc) Q (getBuf >>= k) ps := by
  intro s hs
  obtain ⟨s', h', hq⟩ := h s hs
  refine ⟨s', ?_, hq⟩
  simp only [Bind.bind, M.bind, JsGen.getBuf, hs.2.1, h', List.nil_append]

theorem Runs.getScope {Q : St → Prop} {k : Scope → M Unit} {ps : List Piece} (h : Runs (At ind buf ae sc) Q (k sc) ps) :
    Runs (At ind buf ae sc) Q (getScope >>= k) ps := by
  intro s hs
  obtain ⟨s', h', hq⟩ := h s hs
  refine ⟨s', ?_, hq⟩
  simp only [Bind.bind, M.bind, JsGen.getScope, hs.2.2.2, h', List.nil_append]

/-- `s.block(e)`: the text is captured, the state is as before (up to the functions called) -/
theorem Runs.block {Q : St → Prop} {m : M Unit} {k : List Piece → M Unit} {ps qs : List Piece} (hm : RunsSc sc m ps)
    (h : Runs (At ind buf ae sc) Q (k ps) qs) : Runs (At ind buf ae sc) Q (block m >>= k) qs := by
  intro s hs
  obtain ⟨s1, h1, _, _⟩ := hm s hs.2.2.2
  obtain ⟨s', h', hq⟩ := h { s with funcsCalled := s1.funcsCalled } ⟨hs.1, hs.2.1, hs.2.2.1, hs.2.2.2⟩
  refine ⟨s', ?_, hq⟩
  simp only [Bind.bind, M.bind, JsGen.block, h1, h', List.nil_append]

end

/-! ### one lemma per node kind (the recursive calls are hypotheses) -/

section
variable (sk : List Bytes → List Bytes) (o : Options) [GlobalsAre o]
variable {ind : Nat} {buf : Bytes} {ae : Autoescape} {sc : Scope}

theorem Runs.getSt {Q : St → Prop} {k : St → M Unit} {ps : List Piece}
    (h : ∀ s0, At ind buf ae sc s0 → Runs (At ind buf ae sc) Q (k s0) ps) : Runs (At ind buf ae sc) Q (getSt >>= k) ps := by
  intro s hs
  obtain ⟨s', h', hq⟩ := h s hs s hs
  refine ⟨s', ?_, hq⟩
  simp only [Bind.bind, M.bind, JsGen.getSt, h', List.nil_append]

theorem Runs.seqM {α : Type} {P : St → Prop} (f : α → M Unit) (g : α → List Piece) :
    ∀ (l : List α), (∀ x ∈ l, Runs P P (f x) (g x)) → Runs P P (seqM (l.map f)) (l.flatMap g)
  | [], _ => Runs.pure
  | x :: r, h => by
    have h1 := h x (by simp)
    have h2 := Runs.seqM f g r (fun y hy => h y (by simp [hy]))
    exact (Runs.seq h1 h2).cast (by simp)

theorem Runs.addCalled (k : Bytes) (v : List Piece) : Runs (At ind buf ae sc) (At ind buf ae sc) (addCalled k v) [] := by
  intro s hs
  exact ⟨_, rfl, hs.1, hs.2.1, hs.2.2.1, hs.2.2.2⟩

theorem rawText_runs (p : Nat) (t : Bytes) :
    Runs (At ind buf ae sc) (At ind buf ae sc) (walkCmd sk o (.rawText p t)) (renderStmts (isEs6 o) ind (.one (.appendLit buf t))) := by
  sunfold walkCmd
  unfold writeRawText
  exact (Runs.seq Runs.atOther (Runs.seq Runs.indentP (Runs.getBuf
    (Runs.seq (Runs.emit _) (Runs.seq (Runs.fx _) (Runs.seq (Runs.emit _) (Runs.fx _))))))).cast
    (by simp [renderStmts_one, renderStmt])

theorem closeDirective_runs (d : Directive) (hd : d.args.all (fun a => (litAst a).isSome) = true) :
    Runs (At ind buf ae sc) (At ind buf ae sc) (closeDirective sk o d) (closePieces d) := by
  unfold closeDirective closePieces
  have h1 : Runs (At ind buf ae sc) (At ind buf ae sc)
      (JsGen.seqM (d.args.map fun a => do fx b!","; walkExpr sk o a)) (d.args.flatMap argPieces) := by
    apply Runs.seqM
    intro a ha
    have hl := List.all_eq_true.mp hd a ha
    cases hj : litAst a with
    | none => simp [hj] at hl
    | some j =>
      have := walkExpr_renders sk o sc a j (toAst_lit sc a j hj)
      exact (Runs.seq (Runs.fx _) (Runs.expr this)).cast (by simp [argPieces, hj])
  exact (Runs.seq h1 (Runs.seq (Runs.whenM _ (Runs.fx _)) (Runs.fx _))).cast (by simp)

theorem print_runs (p : Nat) (arg : Expr) (dirs : List Directive) (j : JsExpr) (ck : Bool × List Directive)
    (hok : dirs.all dirOk = true) (hj : toAst sc arg = some j) (hc : collectDirs dirs = some ck) :
    Runs (At ind buf ae sc) (At ind buf ae sc) (walkCmd sk o (.print p arg dirs))
      (renderStmts (isEs6 o) ind (.one (.append buf j (printDirs ae ck.1 ck.2)))) := by
  sunfold walkCmd
  refine (Runs.seq Runs.atOther ?_).cast (List.nil_append _)
  unfold visitPrint
  refine Runs.getSt ?_
  intro s0 hs0
  obtain ⟨cancel, kept⟩ := ck
  simp only [hc, hs0.2.1, hs0.2.2.1]
  have hargs : ∀ d ∈ printDirs ae cancel kept, d.args.all (fun a => (litAst a).isSome) = true := by
    intro d hd
    rcases SoyVerif.Lemmas.JsGenSafe.printDirs_mem hd with h | h
    · simp [h]
    · have := List.all_eq_true.mp hok d (SoyVerif.Lemmas.JsGenSafe.collectDirs_sub dirs cancel kept hc d h)
      simp only [dirOk, Bool.and_eq_true] at this
      exact this.1
  have h1 : Runs (At ind buf ae sc) (At ind buf ae sc)
      (JsGen.whenM (isEs6 o) (JsGen.seqM (kept.map fun d => addCalled d.name (tableImport (directiveJsName d.name))))) [] := by
    have h0 : Runs (At ind buf ae sc) (At ind buf ae sc)
        (JsGen.seqM (kept.map fun d => addCalled d.name (tableImport (directiveJsName d.name)))) (kept.flatMap fun _ => []) :=
      Runs.seqM _ _ kept (fun d _ => Runs.addCalled _ _)
    have h0' : Runs (At ind buf ae sc) (At ind buf ae sc)
        (JsGen.seqM (kept.map fun d => addCalled d.name (tableImport (directiveJsName d.name)))) [] := h0.cast (by simp)
    exact (Runs.whenM _ h0').cast (by simp)
  have h2 : Runs (At ind buf ae sc) (At ind buf ae sc)
      (JsGen.seqM ((printDirs ae cancel kept).reverse.map fun d => do fx (directiveJsName d.name); fx b!"("))
      ((printDirs ae cancel kept).reverse.flatMap openPieces) :=
    Runs.seqM _ _ _ (fun d _ => Runs.seq (Runs.fx _) (Runs.fx _))
  have h3 : Runs (At ind buf ae sc) (At ind buf ae sc)
      (JsGen.seqM ((printDirs ae cancel kept).map (closeDirective sk o)))
      ((printDirs ae cancel kept).flatMap closePieces) :=
    Runs.seqM _ _ _ (fun d hd => closeDirective_runs sk o d (hargs d hd))
  have h4 := walkExpr_renders sk o sc arg j hj
  exact (Runs.seq h1 (Runs.seq Runs.indentP (Runs.seq (Runs.emit _) (Runs.seq (Runs.fx _) (Runs.seq h2
    (Runs.seq (Runs.expr h4) (Runs.seq h3 (Runs.fx _)))))))).cast (by simp [renderStmts_one, renderStmt])

theorem letValue_runs (p : Nat) (x : Bytes) (e : Expr) (j : JsExpr) (hj : toAst sc e = some j) :
    Runs (At ind buf ae sc) (At ind buf ae (sc.makevar x).2) (walkCmd sk o (.letValue p x e))
      (renderStmts (isEs6 o) ind (.one (.var (sc.makevar x).1 j))) := by
  sunfold walkCmd
  have h := walkExpr_renders sk o sc e j hj
  exact (Runs.seq Runs.atOther (Runs.block h (Runs.getScope (Runs.seq (Runs.setScope _)
    (Runs.seq Runs.indentP (Runs.seq (Runs.fx _) (Runs.seq (Runs.emit _) (Runs.seq (Runs.fx _)
      (Runs.seq (Runs.emits _) (Runs.seq (Runs.fx _) Runs.nl)))))))))).cast (by simp [renderStmts_one, renderStmt])

theorem ifc_runs (p : Nat) (conds : CondList) (cs : JsConds) (sc' : Scope)
    (h : Runs (At ind buf ae sc) (At ind buf ae sc') (visitConds sk o conds true) (renderConds (isEs6 o) ind cs true)) :
    Runs (At ind buf ae sc) (At ind buf ae sc') (walkCmd sk o (.ifc p conds)) (renderStmts (isEs6 o) ind (.one (.ifs cs))) := by
  sunfold walkCmd
  exact (Runs.seq Runs.atOther (Runs.seq Runs.indentP (Runs.seq h Runs.nl))).cast (by simp [renderStmts_one, renderStmt])

theorem block_runs (p : Nat) (cmds : CmdList) (st : JsStmts) (sc' : Scope)
    (h : Runs (At ind buf ae sc.push) (At ind buf ae sc') (walkCmds sk o cmds) (renderStmts (isEs6 o) ind st)) :
    Runs (At ind buf ae sc) (At ind buf ae sc'.pop) (walkBlock sk o (.mk p cmds)) (renderStmts (isEs6 o) ind st) := by
  sunfold walkBlock
  exact (Runs.seq Runs.pushScope (Runs.seq Runs.atOther (Runs.seq h Runs.popScope))).cast (by simp)

theorem cmds_cons_runs (c : Cmd) (rest : CmdList) (s1 s2 : JsStmts) (sc1 sc2 : Scope)
    (h1 : Runs (At ind buf ae sc) (At ind buf ae sc1) (walkCmd sk o c) (renderStmts (isEs6 o) ind s1))
    (h2 : Runs (At ind buf ae sc1) (At ind buf ae sc2) (walkCmds sk o rest) (renderStmts (isEs6 o) ind s2)) :
    Runs (At ind buf ae sc) (At ind buf ae sc2) (walkCmds sk o (.cons c rest)) (renderStmts (isEs6 o) ind (s1.append s2)) := by
  sunfold walkCmds
  exact (Runs.seq h1 h2).cast (renderStmts_append (isEs6 o) ind s1 s2).symm

theorem cmds_nil_runs : Runs (At ind buf ae sc) (At ind buf ae sc) (walkCmds sk o .nil) (renderStmts (isEs6 o) ind .nil) := by
  sunfold walkCmds
  exact Runs.pure

theorem conds_nil_runs (first : Bool) :
    Runs (At ind buf ae sc) (At ind buf ae sc) (visitConds sk o .nil first) (renderConds (isEs6 o) ind .nil first) := by
  sunfold visitConds
  exact Runs.pure

theorem conds_some_runs (p : Nat) (c : Expr) (body : Block) (rest : CondList) (first : Bool) (j : JsExpr)
    (b : JsStmts) (rr : JsConds) (sc1 sc2 : Scope) (hj : toAst sc c = some j)
    (hb : Runs (At (ind + 1) buf ae sc) (At (ind + 1) buf ae sc1) (walkBlock sk o body) (renderStmts (isEs6 o) (ind + 1) b))
    (hr : Runs (At ind buf ae sc1) (At ind buf ae sc2) (visitConds sk o rest false) (renderConds (isEs6 o) ind rr false)) :
    Runs (At ind buf ae sc) (At ind buf ae sc2) (visitConds sk o (.cons p (some c) body rest) first)
      (renderConds (isEs6 o) ind (.cons j b rr) first) := by
  sunfold visitConds
  have h := walkExpr_renders sk o sc c j hj
  refine (Runs.seq (Runs.whenM (!first) (Runs.fx _)) (Runs.seq (Runs.seq (Runs.fx _) (Runs.seq (Runs.expr h) (Runs.fx _)))
    (Runs.seq (Runs.fx _) (Runs.seq Runs.incIndent (Runs.seq hb (Runs.seq Runs.decIndent (Runs.seq Runs.indentP
      (Runs.seq (Runs.fx _) hr)))))))).cast ?_
  cases first <;> simp [renderConds]

theorem conds_else_runs (p : Nat) (body : Block) (first : Bool) (b : JsStmts) (sc1 : Scope)
    (hb : Runs (At (ind + 1) buf ae sc) (At (ind + 1) buf ae sc1) (walkBlock sk o body) (renderStmts (isEs6 o) (ind + 1) b)) :
    Runs (At ind buf ae sc) (At ind buf ae sc1) (visitConds sk o (.cons p none body .nil) first)
      (renderConds (isEs6 o) ind (.els b) first) := by
  sunfold visitConds
  refine (Runs.seq (Runs.whenM (!first) (Runs.fx _)) (Runs.seq Runs.pure
    (Runs.seq (Runs.fx _) (Runs.seq Runs.incIndent (Runs.seq hb (Runs.seq Runs.decIndent (Runs.seq Runs.indentP
      (Runs.seq (Runs.fx _) (conds_nil_runs sk o false))))))))).cast ?_
  cases first <;> simp [renderConds]

end

/-! ### foreach -/

theorem Runs.whenFalse {P : St → Prop} {m : M Unit} : Runs P P (JsGen.whenM false m) [] := Runs.pure
theorem Runs.whenTrue {P Q : St → Prop} {m : M Unit} {ps : List Piece} (h : Runs P Q m ps) : Runs P Q (JsGen.whenM true m) ps := h

/-- what a successful `forcJoin` was made from -/
theorem forcJoin_some {v : Bytes} {list : Expr} {sc : Scope} {rb : Option (JsStmts × Scope)}
    {ie : Option (Scope → Option (JsStmts × Scope))} {r : JsStmts × Scope} (h : forcJoin v list sc rb ie = some r) :
    v.contains 36 = false ∧ isRangeCall list = none ∧ ∃ j rbv, toAst sc list = some j ∧ rb = some rbv ∧
      (match ie with
        | none => r = (foreachStmts (sc.pushForEach v).1 j rbv.1 none, rbv.2.pop)
        | some f => ∃ re, f rbv.2.pop = some re ∧ r = (foreachStmts (sc.pushForEach v).1 j rbv.1 (some re.1), re.2)) := by
  unfold forcJoin at h
  split at h
  · cases h
  · rename_i hc
    simp only [Bool.or_eq_true, not_or, Bool.not_eq_true, Option.isSome_eq_false_iff, Option.isNone_iff_eq_none] at hc
    refine ⟨hc.1, hc.2, ?_⟩
    cases hj : toAst sc list with
    | none => simp [hj] at h
    | some j =>
      cases rb with
      | none => simp [hj] at h
      | some rbv =>
        simp only [hj] at h
        refine ⟨j, rbv, rfl, rfl, ?_⟩
        cases ie with
        | none => simp only [Option.some.injEq] at h; exact h.symm
        | some f =>
          simp only at h ⊢
          split at h
          · cases h
          · rename_i re hre
            simp only [Option.some.injEq] at h
            exact ⟨re, hre, h.symm⟩

theorem loopJoin_some {v : Bytes} {list : Expr} {sc : Scope} {rbEach rbRange : Option (JsStmts × Scope)}
    {r : JsStmts × Scope} (h : loopJoin v list sc rbEach none rbRange = some r) :
    forcJoin v list sc rbEach none = some r ∨ rangeJoin v list sc rbRange true = some r := by
  unfold loopJoin at h
  split at h
  · rename_i r' hf
    simp only [Option.some.injEq] at h
    subst h
    exact Or.inl hf
  · exact Or.inr h

/-- a loop with an `{ifempty}` block: a foreach, or a range loop followed by `if (index == 0) {…}` -/
theorem loopJoin_ie_some {v : Bytes} {list : Expr} {sc : Scope} {rbEach rbRange : Option (JsStmts × Scope)}
    {f : Scope → Option (JsStmts × Scope)} {r : JsStmts × Scope} (h : loopJoin v list sc rbEach (some f) rbRange = some r) :
    forcJoin v list sc rbEach (some f) = some r ∨
      ∃ r0 re, rangeJoin v list sc rbRange true = some r0 ∧ f r0.2 = some re ∧
        r = (r0.1.append (.one (.ifZero (sc.pushForRange v).1.2.2.2 re.1)), re.2) := by
  unfold loopJoin at h
  split at h
  · rename_i r' hf
    simp only [Option.some.injEq] at h
    subst h
    exact Or.inl hf
  · simp only [rangeIeJoin] at h
    cases hr0 : rangeJoin v list sc rbRange true with
    | none => simp [hr0] at h
    | some r0 =>
      simp only [hr0] at h
      cases hre : f r0.2 with
      | none => simp [hre] at h
      | some re =>
        simp only [hre, Option.some.injEq] at h
        exact Or.inr ⟨r0, re, rfl, hre, h.symm⟩

theorem isRangeCall_some {list : Expr} {args : ExprList} (h : isRangeCall list = some args) :
    ∃ p, list = .func p b!"range" args := by
  cases list <;> simp [isRangeCall] at h
  rename_i p name a
  obtain ⟨hn, rfl⟩ := h
  exact ⟨p, by rw [hn]⟩

/-- what a successful `rangeJoin` was made from -/
theorem rangeJoin_some {v : Bytes} {list : Expr} {sc : Scope} {rb : Option (JsStmts × Scope)} {noIE : Bool}
    {r : JsStmts × Scope} (h : rangeJoin v list sc rb noIE = some r) :
    v.contains 36 = false ∧ noIE = true ∧ ∃ args l c jl ji rbv p, isRangeCall list = some args ∧ rangeLimit args = some l ∧
      rangeIncr args = .int p c ∧ 0 < c ∧ toAst sc l = some jl ∧ toAst sc (rangeInit args) = some ji ∧ rb = some rbv ∧
      r = (rangeStmts (sc.pushForRange v).1 jl ji (.num c) rbv.1, rbv.2.pop) := by
  unfold rangeJoin at h
  split at h
  · cases h
  · rename_i hc
    simp only [Bool.or_eq_true, not_or, Bool.not_eq_true, Bool.not_eq_eq_eq_not, Bool.not_false] at hc
    refine ⟨hc.1, by simpa using hc.2, ?_⟩
    cases ha : isRangeCall list with
    | none => simp [ha] at h
    | some args =>
      simp only [ha] at h
      cases hl : rangeLimit args with
      | none => simp [hl] at h
      | some l =>
        simp only [hl] at h
        split at h
        · rename_i hpos
          cases hinc : rangeIncr args <;> simp [hinc, posLit] at hpos
          rename_i p c
          cases hjl : toAst sc l with
          | none => simp [hjl] at h
          | some jl =>
            cases hji : toAst sc (rangeInit args) with
            | none => simp [hjl, hji] at h
            | some ji =>
              cases rb with
              | none => simp [hjl, hji, hinc, toAst] at h
              | some rbv =>
                simp only [hjl, hji, hinc, toAst, Option.some.injEq] at h
                exact ⟨args, l, c, jl, ji, rbv, p, rfl, hl, hinc, hpos, hjl, hji, rfl, h.symm⟩
        · cases h

theorem letJoin_some {name : Bytes} {sc : Scope} {rb : Option (JsStmts × Scope)} {r : JsStmts × Scope}
    (h : letJoin name sc rb = some r) : name.contains 36 = false ∧ ∃ rbv, rb = some rbv ∧
      r = (.cons (.varEmpty (sc.genname name).1) rbv.1, rbv.2.bind name (sc.genname name).1) := by
  unfold letJoin at h
  split at h
  · cases h
  · rename_i hc
    refine ⟨by simpa using hc, ?_⟩
    cases rb with
    | none => cases h
    | some rbv => simp only [Option.some.injEq] at h; exact ⟨rbv, rfl, h.symm⟩

theorem caseJoin_some {sc : Scope} {values : List Expr} {rb : Option (JsStmts × Scope)} {last : Bool}
    {rest : Scope → Option (JsCases × Scope)} {r : JsCases × Scope} (h : caseJoin sc values rb last rest = some r) :
    ∃ rbv, rb = some rbv ∧
      ((values = [] ∧ last = true ∧ r = (.dflt rbv.1, rbv.2)) ∨
       (values ≠ [] ∧ ∃ js rr, astList sc values = some js ∧ rest rbv.2 = some rr ∧ r = (.cons js rbv.1 rr.1, rr.2))) := by
  unfold caseJoin at h
  cases rb with
  | none => cases h
  | some rbv =>
    refine ⟨rbv, rfl, ?_⟩
    simp only at h
    cases values with
    | nil =>
      simp only [List.isEmpty_nil, if_true] at h
      cases last <;> simp at h
      exact Or.inl ⟨rfl, rfl, h.symm⟩
    | cons v0 vr =>
      simp only [List.isEmpty_cons, Bool.false_eq_true, if_false] at h
      refine Or.inr ⟨by simp, ?_⟩
      cases hjs : astList sc (v0 :: vr) with
      | none => simp [hjs] at h
      | some js =>
        cases hr : rest rbv.2 with
        | none => simp [hjs, hr] at h
        | some rr =>
          simp only [hjs, hr, Option.some.injEq] at h
          exact ⟨js, rr, rfl, rfl, h.symm⟩

section
variable (sk : List Bytes → List Bytes) (o : Options) [GlobalsAre o]
variable {ind : Nat} {buf : Bytes} {ae : Autoescape} {sc : Scope}

theorem body_runs (p : Nat) (cmds : CmdList) (st : JsStmts) (sc' : Scope)
    (h : Runs (At ind buf ae sc) (At ind buf ae sc') (walkCmds sk o cmds) (renderStmts (isEs6 o) ind st)) :
    Runs (At ind buf ae sc) (At ind buf ae sc') (walkBody sk o (.mk p cmds)) (renderStmts (isEs6 o) ind st) := by
  sunfold walkBody
  exact (Runs.seq Runs.atOther h).cast (by simp)

theorem forc_none_runs (p : Nat) (v : Bytes) (list : Expr) (body : Block) (j : JsExpr) (rb : JsStmts × Scope)
    (hr : isRangeCall list = none) (hj : toAst sc list = some j)
    (hb : Runs (At (ind + 1) buf ae (sc.pushForEach v).2) (At (ind + 1) buf ae rb.2) (walkBody sk o body)
      (renderStmts (isEs6 o) (ind + 1) rb.1)) :
    Runs (At ind buf ae sc) (At ind buf ae rb.2.pop) (walkCmd sk o (.forc p v list body none))
      (renderStmts (isEs6 o) ind (foreachStmts (sc.pushForEach v).1 j rb.1 none)) := by
  sunfold walkCmd
  mred
  rw [hr]
  mred
  refine (Runs.seq Runs.atOther (Runs.block (walkExpr_renders sk o sc list j hj) (Runs.getScope ?_))).cast (List.nil_append _)
  dsimp only
  exact (Runs.seq (Runs.setScope _) (Runs.seq Runs.indentP (Runs.seq (Runs.fx _) (Runs.seq (Runs.emit _) (Runs.seq (Runs.fx _) (Runs.seq (Runs.emits _) (Runs.seq (Runs.fx _) (Runs.seq Runs.nl (Runs.seq Runs.indentP (Runs.seq (Runs.fx _) (Runs.seq (Runs.emit _) (Runs.seq (Runs.fx _) (Runs.seq (Runs.emit _) (Runs.seq (Runs.fx _) (Runs.seq Runs.nl (Runs.seq Runs.whenFalse (Runs.seq Runs.indentP (Runs.seq (Runs.fx _) (Runs.seq (Runs.emit _) (Runs.seq (Runs.fx _) (Runs.seq (Runs.emit _) (Runs.seq (Runs.fx _) (Runs.seq (Runs.emit _) (Runs.seq (Runs.fx _) (Runs.seq (Runs.emit _) (Runs.seq (Runs.fx _) (Runs.seq Runs.nl (Runs.seq Runs.incIndent (Runs.seq Runs.indentP (Runs.seq (Runs.fx _) (Runs.seq (Runs.emit _) (Runs.seq (Runs.fx _) (Runs.seq (Runs.emit _) (Runs.seq (Runs.fx _) (Runs.seq (Runs.emit _) (Runs.seq (Runs.fx _) (Runs.seq Runs.nl (Runs.seq hb (Runs.seq Runs.decIndent (Runs.seq Runs.indentP (Runs.seq (Runs.fx _) (Runs.seq Runs.nl (Runs.seq Runs.popScope (Runs.pure)))))))))))))))))))))))))))))))))))))))))))).cast
    (by simp [foreachStmts, renderStmts, renderStmt, JsStmts.one])

theorem forc_some_runs (p : Nat) (v : Bytes) (list : Expr) (body ie : Block) (j : JsExpr) (rb re : JsStmts × Scope)
    (hr : isRangeCall list = none) (hj : toAst sc list = some j)
    (hb : Runs (At (ind + 1 + 1) buf ae (sc.pushForEach v).2) (At (ind + 1 + 1) buf ae rb.2) (walkBody sk o body)
      (renderStmts (isEs6 o) (ind + 1 + 1) rb.1))
    (hie : Runs (At (ind + 1) buf ae rb.2.pop) (At (ind + 1) buf ae re.2) (walkBlock sk o ie) (renderStmts (isEs6 o) (ind + 1) re.1)) :
    Runs (At ind buf ae sc) (At ind buf ae re.2) (walkCmd sk o (.forc p v list body (some ie)))
      (renderStmts (isEs6 o) ind (foreachStmts (sc.pushForEach v).1 j rb.1 (some re.1))) := by
  sunfold walkCmd
  mred
  rw [hr]
  mred
  refine (Runs.seq Runs.atOther (Runs.block (walkExpr_renders sk o sc list j hj) (Runs.getScope ?_))).cast (List.nil_append _)
  dsimp only
  exact (Runs.seq (Runs.setScope _) (Runs.seq Runs.indentP (Runs.seq (Runs.fx _) (Runs.seq (Runs.emit _) (Runs.seq (Runs.fx _) (Runs.seq (Runs.emits _) (Runs.seq (Runs.fx _) (Runs.seq Runs.nl (Runs.seq Runs.indentP (Runs.seq (Runs.fx _) (Runs.seq (Runs.emit _) (Runs.seq (Runs.fx _) (Runs.seq (Runs.emit _) (Runs.seq (Runs.fx _) (Runs.seq Runs.nl (Runs.seq (Runs.whenTrue (Runs.seq Runs.indentP (Runs.seq (Runs.fx _) (Runs.seq (Runs.emit _) (Runs.seq (Runs.fx _) (Runs.seq Runs.nl (Runs.incIndent))))))) (Runs.seq Runs.indentP (Runs.seq (Runs.fx _) (Runs.seq (Runs.emit _) (Runs.seq (Runs.fx _) (Runs.seq (Runs.emit _) (Runs.seq (Runs.fx _) (Runs.seq (Runs.emit _) (Runs.seq (Runs.fx _) (Runs.seq (Runs.emit _) (Runs.seq (Runs.fx _) (Runs.seq Runs.nl (Runs.seq Runs.incIndent (Runs.seq Runs.indentP (Runs.seq (Runs.fx _) (Runs.seq (Runs.emit _) (Runs.seq (Runs.fx _) (Runs.seq (Runs.emit _) (Runs.seq (Runs.fx _) (Runs.seq (Runs.emit _) (Runs.seq (Runs.fx _) (Runs.seq Runs.nl (Runs.seq hb (Runs.seq Runs.decIndent (Runs.seq Runs.indentP (Runs.seq (Runs.fx _) (Runs.seq Runs.nl (Runs.seq Runs.popScope (Runs.seq Runs.decIndent (Runs.seq Runs.indentP (Runs.seq (Runs.fx _) (Runs.seq Runs.nl (Runs.seq Runs.incIndent (Runs.seq hie (Runs.seq Runs.decIndent (Runs.seq Runs.indentP (Runs.seq (Runs.fx _) (Runs.nl))))))))))))))))))))))))))))))))))))))))))))))))))))).cast
    (by simp [foreachStmts, renderStmts, renderStmt, JsStmts.one])

theorem forc_range_runs (p : Nat) (v : Bytes) (list : Expr) (body : Block) (args : ExprList) (l : Expr)
    (jl ji jc : JsExpr) (rb : JsStmts × Scope) (hr : isRangeCall list = some args) (hl : rangeLimit args = some l)
    (hjl : toAst sc l = some jl) (hji : toAst sc (rangeInit args) = some ji) (hjc : toAst sc (rangeIncr args) = some jc)
    (hb : Runs (At (ind + 1) buf ae (sc.pushForRange v).2) (At (ind + 1) buf ae rb.2) (walkBody sk o body)
      (renderStmts (isEs6 o) (ind + 1) rb.1)) :
    Runs (At ind buf ae sc) (At ind buf ae rb.2.pop) (walkCmd sk o (.forc p v list body none))
      (renderStmts (isEs6 o) ind (rangeStmts (sc.pushForRange v).1 jl ji jc rb.1)) := by
  sunfold walkCmd
  mred
  rw [hr]
  mred
  try dsimp only
  rw [hl]
  mred
  refine (Runs.seq Runs.atOther (Runs.block (walkExpr_renders sk o sc l jl hjl)
    (Runs.block (walkExpr_renders sk o sc _ ji hji) (Runs.block (walkExpr_renders sk o sc _ jc hjc)
      (Runs.getScope ?_))))).cast (List.nil_append _)
  try dsimp only
  exact (Runs.seq (Runs.setScope _) (Runs.seq Runs.indentP (Runs.seq (Runs.fx _) (Runs.seq (Runs.emit _) (Runs.seq (Runs.fx _) (Runs.seq (Runs.emits _) (Runs.seq (Runs.fx _) (Runs.seq Runs.nl (Runs.seq Runs.indentP (Runs.seq (Runs.fx _) (Runs.seq (Runs.emit _) (Runs.seq (Runs.fx _) (Runs.seq (Runs.emits _) (Runs.seq (Runs.fx _) (Runs.seq Runs.nl (Runs.seq Runs.indentP (Runs.seq (Runs.fx _) (Runs.seq (Runs.emit _) (Runs.seq (Runs.fx _) (Runs.seq (Runs.emits _) (Runs.seq (Runs.fx _) (Runs.seq (Runs.emit _) (Runs.seq (Runs.fx _) (Runs.seq (Runs.emit _) (Runs.seq (Runs.fx _) (Runs.seq (Runs.emit _) (Runs.seq (Runs.fx _) (Runs.seq (Runs.emit _) (Runs.seq (Runs.fx _) (Runs.seq (Runs.emit _) (Runs.seq (Runs.fx _) (Runs.seq (Runs.emit _) (Runs.seq (Runs.fx _) (Runs.seq Runs.nl (Runs.seq Runs.incIndent (Runs.seq hb (Runs.seq Runs.decIndent (Runs.seq Runs.indentP (Runs.seq (Runs.fx _) (Runs.seq Runs.nl (Runs.popScope))))))))))))))))))))))))))))))))))))))))).cast
    (by simp [rangeStmts, renderStmts, renderStmt, JsStmts.one])

theorem forc_range_some_runs (p : Nat) (v : Bytes) (list : Expr) (body ie : Block) (args : ExprList) (l : Expr)
    (jl ji jc : JsExpr) (rb re : JsStmts × Scope) (hr : isRangeCall list = some args) (hl : rangeLimit args = some l)
    (hjl : toAst sc l = some jl) (hji : toAst sc (rangeInit args) = some ji) (hjc : toAst sc (rangeIncr args) = some jc)
    (hb : Runs (At (ind + 1) buf ae (sc.pushForRange v).2) (At (ind + 1) buf ae rb.2) (walkBody sk o body)
      (renderStmts (isEs6 o) (ind + 1) rb.1))
    (hie : Runs (At (ind + 1) buf ae rb.2.pop) (At (ind + 1) buf ae re.2) (walkBlock sk o ie) (renderStmts (isEs6 o) (ind + 1) re.1)) :
    Runs (At ind buf ae sc) (At ind buf ae re.2) (walkCmd sk o (.forc p v list body (some ie)))
      (renderStmts (isEs6 o) ind ((rangeStmts (sc.pushForRange v).1 jl ji jc rb.1).append
        (.one (.ifZero (sc.pushForRange v).1.2.2.2 re.1)))) := by
  sunfold walkCmd
  mred
  rw [hr]
  mred
  try dsimp only
  rw [hl]
  mred
  refine (Runs.seq Runs.atOther (Runs.block (walkExpr_renders sk o sc l jl hjl)
    (Runs.block (walkExpr_renders sk o sc _ ji hji) (Runs.block (walkExpr_renders sk o sc _ jc hjc)
      (Runs.getScope ?_))))).cast (List.nil_append _)
  try dsimp only
  exact (Runs.seq (Runs.setScope _) (Runs.seq Runs.indentP (Runs.seq (Runs.fx _) (Runs.seq (Runs.emit _) (Runs.seq (Runs.fx _) (Runs.seq (Runs.emits _) (Runs.seq (Runs.fx _) (Runs.seq Runs.nl (Runs.seq Runs.indentP (Runs.seq (Runs.fx _) (Runs.seq (Runs.emit _) (Runs.seq (Runs.fx _) (Runs.seq (Runs.emits _) (Runs.seq (Runs.fx _) (Runs.seq Runs.nl (Runs.seq Runs.indentP (Runs.seq (Runs.fx _) (Runs.seq (Runs.emit _) (Runs.seq (Runs.fx _) (Runs.seq (Runs.emits _) (Runs.seq (Runs.fx _) (Runs.seq (Runs.emit _) (Runs.seq (Runs.fx _) (Runs.seq (Runs.emit _) (Runs.seq (Runs.fx _) (Runs.seq (Runs.emit _) (Runs.seq (Runs.fx _) (Runs.seq (Runs.emit _) (Runs.seq (Runs.fx _) (Runs.seq (Runs.emit _) (Runs.seq (Runs.fx _) (Runs.seq (Runs.emit _) (Runs.seq (Runs.fx _) (Runs.seq Runs.nl (Runs.seq Runs.incIndent (Runs.seq hb (Runs.seq Runs.decIndent (Runs.seq Runs.indentP (Runs.seq (Runs.fx _) (Runs.seq Runs.nl (Runs.seq Runs.popScope (Runs.seq Runs.indentP (Runs.seq (Runs.fx _) (Runs.seq (Runs.emit _) (Runs.seq (Runs.fx _) (Runs.seq Runs.nl (Runs.seq Runs.incIndent (Runs.seq hie (Runs.seq Runs.decIndent (Runs.seq Runs.indentP (Runs.seq (Runs.fx _) Runs.nl))))))))))))))))))))))))))))))))))))))))))))))))))).cast
    (by simp [rangeStmts, renderStmts, renderStmt, JsStmts.one, JsStmts.append])

/-! ### switch -/

theorem labels_runs : ∀ (values : List Expr) (js : List JsExpr), astList sc values = some js →
    Runs (At ind buf ae sc) (At ind buf ae sc)
      (JsGen.seqM (values.map fun v => do indentP; fx b!"case "; walkExpr sk o v; fx b!":"; nl))
      (js.flatMap fun j => [.fixed (spaces ind), .fixed b!"case "] ++ render j ++ [.fixed b!":", .fixed [10]])
  | [], js, h => by
    simp only [astList, Option.some.injEq] at h; subst h
    exact Runs.pure
  | v :: r, js, h => by
    unfold astList at h
    cases hj : toAst sc v with
    | none => simp [hj] at h
    | some j =>
      cases hr : astList sc r with
      | none => simp [hj, hr] at h
      | some jr =>
        simp only [hj, hr, Option.some.injEq] at h; subst h
        have h1 := walkExpr_renders sk o sc v j hj
        have h2 := labels_runs r jr hr
        exact (Runs.seq (Runs.seq Runs.indentP (Runs.seq (Runs.fx _) (Runs.seq (Runs.expr h1) (Runs.seq (Runs.fx _) Runs.nl))))
          h2).cast (by simp)

theorem cases_nil_runs : Runs (At ind buf ae sc) (At ind buf ae sc) (visitCases sk o .nil) (renderCases (isEs6 o) ind .nil) := by
  sunfold visitCases
  exact Runs.pure

theorem cases_dflt_runs (p : Nat) (body : Block) (b : JsStmts) (sc1 : Scope)
    (hb : Runs (At (ind + 1) buf ae sc) (At (ind + 1) buf ae sc1) (walkBlock sk o body) (renderStmts (isEs6 o) (ind + 1) b)) :
    Runs (At ind buf ae sc) (At ind buf ae sc1) (visitCases sk o (.cons p [] body .nil)) (renderCases (isEs6 o) ind (.dflt b)) := by
  sunfold visitCases
  exact (Runs.seq Runs.pure (Runs.seq (Runs.whenTrue (Runs.seq Runs.indentP (Runs.seq (Runs.fx _) Runs.nl)))
    (Runs.seq Runs.incIndent (Runs.seq hb (Runs.seq Runs.indentP (Runs.seq (Runs.fx _) (Runs.seq Runs.nl
      (Runs.seq Runs.decIndent (cases_nil_runs sk o))))))))).cast (by simp [renderCases])

theorem cases_cons_runs (p : Nat) (v0 : Expr) (vr : List Expr) (body : Block) (rest : CaseList) (js : List JsExpr)
    (b : JsStmts) (rr : JsCases) (sc1 sc2 : Scope) (hjs : astList sc (v0 :: vr) = some js)
    (hb : Runs (At (ind + 1) buf ae sc) (At (ind + 1) buf ae sc1) (walkBlock sk o body) (renderStmts (isEs6 o) (ind + 1) b))
    (hr : Runs (At ind buf ae sc1) (At ind buf ae sc2) (visitCases sk o rest) (renderCases (isEs6 o) ind rr)) :
    Runs (At ind buf ae sc) (At ind buf ae sc2) (visitCases sk o (.cons p (v0 :: vr) body rest))
      (renderCases (isEs6 o) ind (.cons js b rr)) := by
  sunfold visitCases
  exact (Runs.seq (labels_runs sk o (v0 :: vr) js hjs) (Runs.seq Runs.whenFalse
    (Runs.seq Runs.incIndent (Runs.seq hb (Runs.seq Runs.indentP (Runs.seq (Runs.fx _) (Runs.seq Runs.nl
      (Runs.seq Runs.decIndent hr)))))))).cast (by simp [renderCases])

theorem switch_runs (p : Nat) (value : Expr) (cases : CaseList) (j : JsExpr) (cs : JsCases) (sc' : Scope)
    (hj : toAst sc value = some j)
    (h : Runs (At (ind + 1) buf ae sc) (At (ind + 1) buf ae sc') (visitCases sk o cases) (renderCases (isEs6 o) (ind + 1) cs)) :
    Runs (At ind buf ae sc) (At ind buf ae sc') (walkCmd sk o (.switch p value cases)) (renderStmts (isEs6 o) ind (.one (.switchS j cs))) := by
  sunfold walkCmd
  have hv := walkExpr_renders sk o sc value j hj
  exact (Runs.seq Runs.atOther (Runs.seq Runs.indentP (Runs.seq (Runs.fx _) (Runs.seq (Runs.expr hv) (Runs.seq (Runs.fx _)
    (Runs.seq Runs.nl (Runs.seq Runs.incIndent (Runs.seq h (Runs.seq Runs.decIndent (Runs.seq Runs.indentP
      (Runs.seq (Runs.fx _) Runs.nl))))))))))).cast (by simp [renderStmts_one, renderStmt])

theorem Runs.setBuf (buf' : Bytes) : Runs (At ind buf ae sc) (At ind buf' ae sc) (JsGen.setBuf buf') [] := by
  intro s hs
  exact ⟨_, rfl, hs.1, rfl, hs.2.2.1, hs.2.2.2⟩

theorem letContent_runs (p : Nat) (name : Bytes) (body : Block) (rb : JsStmts × Scope)
    (hb : Runs (At ind (sc.genname name).1 ae (sc.genname name).2) (At ind (sc.genname name).1 ae rb.2) (walkBlock sk o body)
      (renderStmts (isEs6 o) ind rb.1)) :
    Runs (At ind buf ae sc) (At ind buf ae (rb.2.bind name (sc.genname name).1)) (walkCmd sk o (.letContent p name body))
      (renderStmts (isEs6 o) ind (.cons (.varEmpty (sc.genname name).1) rb.1)) := by
  sunfold walkCmd
  refine (Runs.seq Runs.atOther (Runs.getBuf (Runs.getScope ?_))).cast (List.nil_append _)
  exact (Runs.seq (Runs.setScope _) (Runs.seq (Runs.setBuf _) (Runs.seq Runs.indentP (Runs.seq (Runs.fx _)
    (Runs.seq (Runs.emit _) (Runs.seq (Runs.fx _) (Runs.seq Runs.nl (Runs.seq hb (Runs.getBuf (Runs.getScope
      (Runs.seq (Runs.setScope _) (Runs.setBuf _)))))))))))).cast (by simp [renderStmts, renderStmt])

end

/-! ### call -/

/-- `Runs` for a walk that returns a value -/
def RunsV {α : Type} (P Q : St → Prop) (m : M α) (a : α) (ps : List Piece) : Prop :=
  ∀ s, P s → ∃ s', m s = .ok (a, ps, s') ∧ Q s'

theorem RunsV.pure {α : Type} {P : St → Prop} (a : α) : RunsV P P (pure a) a [] := fun s hs => ⟨s, rfl, hs⟩

theorem RunsV.bind {α : Type} {P Q R : St → Prop} {m : M α} {k : α → M Unit} {a : α} {ps qs : List Piece}
    (hm : RunsV P Q m a ps) (hk : Runs Q R (k a) qs) : Runs P R (m >>= k) (ps ++ qs) := by
  intro s hs
  obtain ⟨s1, h1, hs1⟩ := hm s hs
  obtain ⟨s2, h2, hs2⟩ := hk s1 hs1
  exact ⟨s2, by simp [Bind.bind, M.bind, h1, h2], hs2⟩

theorem RunsV.bindV {α β : Type} {P Q R : St → Prop} {m : M α} {k : α → M β} {a : α} {b : β} {ps qs : List Piece}
    (hm : RunsV P Q m a ps) (hk : RunsV Q R (k a) b qs) : RunsV P R (m >>= k) b (ps ++ qs) := by
  intro s hs
  obtain ⟨s1, h1, hs1⟩ := hm s hs
  obtain ⟨s2, h2, hs2⟩ := hk s1 hs1
  exact ⟨s2, by simp [Bind.bind, M.bind, h1, h2], hs2⟩

theorem RunsV.seq {β : Type} {P Q R : St → Prop} {m : M Unit} {k : M β} {b : β} {ps qs : List Piece}
    (hm : Runs P Q m ps) (hk : RunsV Q R k b qs) : RunsV P R (m >>= fun _ => k) b (ps ++ qs) := by
  intro s hs
  obtain ⟨s1, h1, hs1⟩ := hm s hs
  obtain ⟨s2, h2, hs2⟩ := hk s1 hs1
  exact ⟨s2, by simp [Bind.bind, M.bind, h1, h2], hs2⟩

theorem RunsV.map {α β : Type} {P Q : St → Prop} {m : M α} {a : α} {ps : List Piece} (f : α → β)
    (hm : RunsV P Q m a ps) : RunsV P Q (m >>= fun x => Pure.pure (f x)) (f a) ps := by
  intro s hs
  obtain ⟨s1, h1, hs1⟩ := hm s hs
  exact ⟨s1, by simp [Bind.bind, M.bind, h1, Pure.pure, M.pure], hs1⟩

theorem M.pure_bind {α β : Type} (a : α) (k : α → M β) : (Pure.pure a >>= k) = k a := by
  funext s
  simp only [Bind.bind, M.bind, Pure.pure, M.pure]
  cases k a s with
  | error e => rfl
  | ok r => obtain ⟨b, qs, s2⟩ := r; simp

theorem Runs.pureBind {α : Type} {P Q : St → Prop} {k : α → M Unit} {a : α} {ps : List Piece} (h : Runs P Q (k a) ps) :
    Runs P Q (Pure.pure a >>= k) ps := by
  intro s hs
  obtain ⟨s', h', hq⟩ := h s hs
  exact ⟨s', by simp [Bind.bind, M.bind, Pure.pure, M.pure, h'], hq⟩

theorem RunsV.cast {α : Type} {P Q : St → Prop} {m : M α} {a a' : α} {ps qs : List Piece} (h : RunsV P Q m a ps)
    (ea : a = a') (e : ps = qs) : RunsV P Q m a' qs := ea ▸ e ▸ h

section
variable (sk : List Bytes → List Bytes) (o : Options) [GlobalsAre o]
variable {ind : Nat} {buf : Bytes} {ae : Autoescape} {sc : Scope}

theorem RunsV.getBuf {β : Type} {Q : St → Prop} {k : Bytes → M β} {b : β} {ps : List Piece}
    (h : RunsV (At ind buf ae sc) Q (k buf) b ps) : RunsV (At ind buf ae sc) Q (getBuf >>= k) b ps := by
  intro s hs
  obtain ⟨s', h', hq⟩ := h s hs
  refine ⟨s', ?_, hq⟩
  simp only [Bind.bind, M.bind, JsGen.getBuf, hs.2.1, h', List.nil_append]

theorem RunsV.getScope {β : Type} {Q : St → Prop} {k : Scope → M β} {b : β} {ps : List Piece}
    (h : RunsV (At ind buf ae sc) Q (k sc) b ps) : RunsV (At ind buf ae sc) Q (getScope >>= k) b ps := by
  intro s hs
  obtain ⟨s', h', hq⟩ := h s hs
  refine ⟨s', ?_, hq⟩
  simp only [Bind.bind, M.bind, JsGen.getScope, hs.2.2.2, h', List.nil_append]

/-- `s.block(e)`: the text is the value; nothing is written -/
theorem RunsV.block {m : M Unit} {ps : List Piece} (hm : RunsSc sc m ps) :
    RunsV (At ind buf ae sc) (At ind buf ae sc) (block m) ps [] := by
  intro s hs
  obtain ⟨s1, h1, _, _⟩ := hm s hs.2.2.2
  exact ⟨{ s with funcsCalled := s1.funcsCalled }, by simp only [JsGen.block, h1], hs.1, hs.2.1, hs.2.2.1, hs.2.2.2⟩

theorem valueParamJoin_some {key : Bytes} {j : Option JsExpr} {rr r : Option (JsStmts × List (Bytes × JsExpr) × Scope)}
    (h : valueParamJoin key j rr = r) (hr : r.isSome) :
    ∃ j' rr', j = some j' ∧ rr = some rr' ∧ r = some (rr'.1, (key, j') :: rr'.2.1, rr'.2.2) := by
  cases j <;> cases rr <;> simp [valueParamJoin] at h <;> subst h <;> simp at hr
  exact ⟨_, _, rfl, rfl, rfl⟩

theorem contentParamJoin_some {key g : Bytes} {rb : Option (JsStmts × Scope)}
    {rest : Scope → Option (JsStmts × List (Bytes × JsExpr) × Scope)} {r : JsStmts × List (Bytes × JsExpr) × Scope}
    (h : contentParamJoin key g rb rest = some r) :
    ∃ rb' rr, rb = some rb' ∧ rest rb'.2 = some rr ∧
      r = ((JsStmts.cons (.varEmpty g) rb'.1).append rr.1, (key, .local g) :: rr.2.1, rr.2.2) := by
  cases rb with
  | none => simp [contentParamJoin] at h
  | some rb' =>
    simp only [contentParamJoin] at h
    cases hrr : rest rb'.2 with
    | none => simp [hrr] at h
    | some rr =>
      simp only [hrr, Option.some.injEq] at h
      exact ⟨rb', rr, rfl, hrr, h.symm⟩

theorem callJoin_some {buf name : Bytes} {base : Option DataBase} {rp : Option (JsStmts × List (Bytes × JsExpr) × Scope)}
    {r : JsStmts × Scope} (h : callJoin buf name base rp = some r) :
    ∃ b rp', base = some b ∧ rp = some rp' ∧ r = (rp'.1.append (.one (.call buf name b rp'.2.1)), rp'.2.2) := by
  cases base <;> cases rp <;> simp [callJoin] at h
  exact ⟨_, _, rfl, rfl, h.symm⟩

theorem params_nil_runs (first : Bool) (acc : List Piece) :
    RunsV (At ind buf ae sc) (At ind buf ae sc) (visitParams sk o .nil first acc) (acc ++ kvPieces [] first)
      (renderStmts (isEs6 o) ind .nil) := by
  sunfold visitParams
  refine (RunsV.pure acc).cast ?_ ?_
  · simp [kvPieces]
  · simp [renderStmts]

theorem params_value_runs (p : Nat) (key : Bytes) (e : Expr) (rest : ParamList) (first : Bool) (acc : List Piece) (j : JsExpr)
    (rr : JsStmts × List (Bytes × JsExpr) × Scope) (hj : toAst sc e = some j)
    (hrest : ∀ acc', RunsV (At ind buf ae sc) (At ind buf ae rr.2.2) (visitParams sk o rest false acc')
      (acc' ++ kvPieces rr.2.1 false) (renderStmts (isEs6 o) ind rr.1)) :
    RunsV (At ind buf ae sc) (At ind buf ae rr.2.2) (visitParams sk o (.value p key e rest) first acc)
      (acc ++ kvPieces ((key, j) :: rr.2.1) first) (renderStmts (isEs6 o) ind rr.1) := by
  sunfold visitParams
  refine (RunsV.bindV (RunsV.block (walkExpr_renders sk o sc e j hj))
    (hrest (acc ++ (if first then [] else [.fixed b!", "]) ++ [.ident key, .fixed b!": "] ++ render j))).cast ?_ ?_
  · simp [kvPieces]
  · simp

theorem params_content_runs (p : Nat) (key : Bytes) (body : Block) (rest : ParamList) (first : Bool) (acc : List Piece)
    (rb : JsStmts × Scope) (rr : JsStmts × List (Bytes × JsExpr) × Scope)
    (hb : Runs (At ind (sc.genname b!"param").1 ae (sc.genname b!"param").2) (At ind (sc.genname b!"param").1 ae rb.2)
      (walkBlock sk o body) (renderStmts (isEs6 o) ind rb.1))
    (hrest : ∀ acc', RunsV (At ind buf ae rb.2) (At ind buf ae rr.2.2) (visitParams sk o rest false acc')
      (acc' ++ kvPieces rr.2.1 false) (renderStmts (isEs6 o) ind rr.1)) :
    RunsV (At ind buf ae sc) (At ind buf ae rr.2.2) (visitParams sk o (.content p key body rest) first acc)
      (acc ++ kvPieces ((key, .local (sc.genname b!"param").1) :: rr.2.1) first)
      (renderStmts (isEs6 o) ind ((JsStmts.cons (.varEmpty (sc.genname b!"param").1) rb.1).append rr.1)) := by
  sunfold visitParams
  refine (RunsV.getBuf (RunsV.getScope (RunsV.seq (Runs.setScope _) (RunsV.seq (Runs.setBuf _) (RunsV.seq Runs.indentP (RunsV.seq (Runs.fx _) (RunsV.seq (Runs.emit _) (RunsV.seq (Runs.fx _) (RunsV.seq Runs.nl (RunsV.seq hb (RunsV.getBuf (RunsV.seq (Runs.setBuf _) (hrest _))))))))))))).cast ?_ ?_
  · simp [kvPieces, render]
  · simp [renderStmts_append, renderStmts, renderStmt]

/-- the call itself, after the data argument `dps` has been put together -/
theorem call_tail_runs (name : Bytes) (dps : List Piece) :
    Runs (At ind buf ae sc) (At ind buf ae sc)
      (do
        let b ← getBuf
        indentP
        emit (.ident b); fx b!" += "
        emit (if isEs6 o then .es6name name else .qname name)
        fx b!"("; emits dps; fx b!", opt_sb, opt_ijData);"; nl
        whenM (isEs6 o) (addCalled (es6Identifier name) (callImport name)))
      ([.fixed (spaces ind), .ident buf, .fixed b!" += ", if isEs6 o then .es6name name else .qname name, .fixed b!"("] ++
        dps ++ [.fixed b!", opt_sb, opt_ijData);", .fixed [10]]) := by
  exact (Runs.getBuf (Runs.seq Runs.indentP (Runs.seq (Runs.emit _) (Runs.seq (Runs.fx _) (Runs.seq (Runs.emit _) (Runs.seq (Runs.fx _) (Runs.seq (Runs.emits _) (Runs.seq (Runs.fx _) (Runs.seq Runs.nl (Runs.whenM _ (Runs.addCalled _ _))))))))))).cast (by simp)

theorem call_runs (p : Nat) (name : Bytes) (allData : Bool) (data : Option Expr) (params : ParamList) (base : DataBase)
    (rp : JsStmts × List (Bytes × JsExpr) × Scope) (hbase : callBase sc allData data = some base)
    (htp : toParams ae params sc = some rp)
    (hp : ∀ acc, RunsV (At ind buf ae sc) (At ind buf ae rp.2.2) (visitParams sk o params true acc)
      (acc ++ kvPieces rp.2.1 true) (renderStmts (isEs6 o) ind rp.1)) :
    Runs (At ind buf ae sc) (At ind buf ae rp.2.2) (walkCmd sk o (.call p name allData data params))
      (renderStmts (isEs6 o) ind (rp.1.append (.one (.call buf name base rp.2.1)))) := by
  have hr : renderStmts (isEs6 o) ind (rp.1.append (.one (.call buf name base rp.2.1))) =
      renderStmts (isEs6 o) ind rp.1 ++
        ([.fixed (spaces ind), .ident buf, .fixed b!" += ", if isEs6 o then .es6name name else .qname name, .fixed b!"("] ++
          dataPieces base rp.2.1 ++ [.fixed b!", opt_sb, opt_ijData);", .fixed [10]]) := by
    rw [renderStmts_append, renderStmts_one]; simp [renderStmt]
  rw [hr]
  cases data with
  | none =>
    have hb : basePieces base = (if allData then [.fixed b!"opt_data"] else [.fixed b!"{}"]) := by
      cases allData <;> simp [callBase] at hbase <;> subst hbase <;> rfl
    cases params with
    | nil =>
      simp only [toParams, Option.some.injEq] at htp; subst htp
      sunfold walkCmd
      mred
      refine (Runs.seq Runs.atOther (Runs.pureBind (Runs.pureBind (call_tail_runs o name _)))).cast ?_
      simp [dataPieces, hb, renderStmts]
    | value p' key e rest =>
      unfold toParams at htp
      obtain ⟨j', rr', _, _, hrp⟩ := valueParamJoin_some htp rfl
      simp only [Option.some.injEq] at hrp
      sunfold walkCmd
      mred
      simp only [M.pure_bind]
      apply Runs.cast
      · exact Runs.seq Runs.atOther (RunsV.bind (RunsV.map (fun acc => acc ++ [.fixed b!"})"]) (hp _))
          (call_tail_runs o name _))
      · rw [hrp]; simp [dataPieces, hb]
    | content p' key body rest =>
      unfold toParams at htp
      obtain ⟨rb', rr', _, _, hrp⟩ := contentParamJoin_some htp
      sunfold walkCmd
      mred
      simp only [M.pure_bind]
      apply Runs.cast
      · exact Runs.seq Runs.atOther (RunsV.bind (RunsV.map (fun acc => acc ++ [.fixed b!"})"]) (hp _))
          (call_tail_runs o name _))
      · rw [hrp]; simp [dataPieces, hb]
  | some d =>
    obtain ⟨jd, hjd, hb⟩ : ∃ jd, toAst sc d = some jd ∧ basePieces base = render jd := by
      cases allData <;> simp [callBase] at hbase
      obtain ⟨jd, hjd, rfl⟩ := hbase
      exact ⟨jd, hjd, rfl⟩
    cases params with
    | nil =>
      simp only [toParams, Option.some.injEq] at htp; subst htp
      sunfold walkCmd
      mred
      refine (Runs.seq Runs.atOther (RunsV.bind (RunsV.block (walkExpr_renders sk o sc d jd hjd))
        (Runs.pureBind (call_tail_runs o name _)))).cast ?_
      simp [dataPieces, hb, renderStmts]
    | value p' key e rest =>
      unfold toParams at htp
      obtain ⟨j', rr', _, _, hrp⟩ := valueParamJoin_some htp rfl
      simp only [Option.some.injEq] at hrp
      sunfold walkCmd
      mred
      refine (Runs.seq Runs.atOther (RunsV.bind (RunsV.block (walkExpr_renders sk o sc d jd hjd))
        (RunsV.bind (RunsV.map (fun acc => acc ++ [.fixed b!"})"]) (hp _)) (call_tail_runs o name _)))).cast ?_
      rw [hrp]; simp [dataPieces, hb]
    | content p' key body rest =>
      unfold toParams at htp
      obtain ⟨rb', rr', _, _, hrp⟩ := contentParamJoin_some htp
      sunfold walkCmd
      mred
      refine (Runs.seq Runs.atOther (RunsV.bind (RunsV.block (walkExpr_renders sk o sc d jd hjd))
        (RunsV.bind (RunsV.map (fun acc => acc ++ [.fixed b!"})"]) (hp _)) (call_tail_runs o name _)))).cast ?_
      rw [hrp]; simp [dataPieces, hb]

end

/-! ### msg (no bundle) -/

theorem msgJoin_some {rb : Option (JsStmts × Scope)} {r : JsStmts × Scope} (h : msgJoin rb = some r) :
    ∃ rb', rb = some rb' ∧ r = (rb'.1, rb'.2.pop) := by
  cases rb <;> simp [msgJoin] at h
  exact ⟨_, rfl, h.symm⟩

theorem phJoin_some {r1 : Option (JsStmts × Scope)} {rest : Scope → Option (JsStmts × Scope)} {r : JsStmts × Scope}
    (h : phJoin r1 rest = some r) : ∃ a b, r1 = some a ∧ rest a.2 = some b ∧ r = (a.1.append b.1, b.2) := by
  cases r1 with
  | none => simp [phJoin] at h
  | some a =>
    simp only [phJoin] at h
    cases hb : rest a.2 with
    | none => simp [hb] at h
    | some b =>
      simp only [hb, Option.some.injEq] at h
      exact ⟨a, b, rfl, hb, h.symm⟩

section
variable (sk : List Bytes → List Bytes) (o : Options) [GlobalsAre o]
variable {ind : Nat} {buf : Bytes} {ae : Autoescape} {sc : Scope}

theorem rawPart_runs (t : Bytes) :
    Runs (At ind buf ae sc) (At ind buf ae sc) (atOther >>= fun _ => writeRawText t)
      (renderStmts (isEs6 o) ind (.one (.appendLit buf t))) := by
  unfold writeRawText
  exact (Runs.seq Runs.atOther (Runs.seq Runs.indentP (Runs.getBuf
    (Runs.seq (Runs.emit _) (Runs.seq (Runs.fx _) (Runs.seq (Runs.emit _) (Runs.fx _))))))).cast
    (by simp [renderStmts_one, renderStmt])

theorem msg_runs (ho : o.messages = none) (p id : Nat) (m d : Bytes) (bp : Nat) (body : MsgParts) (rb : JsStmts × Scope)
    (hb : Runs (At ind buf ae sc.push) (At ind buf ae rb.2) (visitMsgNode sk o body) (renderStmts (isEs6 o) ind rb.1)) :
    Runs (At ind buf ae sc) (At ind buf ae rb.2.pop) (walkCmd sk o (.msg p id m d bp body)) (renderStmts (isEs6 o) ind rb.1) := by
  sunfold walkCmd
  simp only [ho]
  exact (Runs.seq Runs.atOther (Runs.seq Runs.pushScope (Runs.seq hb Runs.popScope))).cast (by simp)

theorem parts_nil_runs :
    Runs (At ind buf ae sc) (At ind buf ae sc) (visitMsgNode sk o .nil) (renderStmts (isEs6 o) ind .nil) := by
  sunfold visitMsgNode
  exact Runs.pure.cast (by simp [renderStmts])

theorem parts_text_runs (p : Nat) (t : Bytes) (r : MsgParts) (rr : JsStmts × Scope)
    (hr : Runs (At ind buf ae sc) (At ind buf ae rr.2) (visitMsgNode sk o r) (renderStmts (isEs6 o) ind rr.1)) :
    Runs (At ind buf ae sc) (At ind buf ae rr.2) (visitMsgNode sk o (.text p t r))
      (renderStmts (isEs6 o) ind ((JsStmts.one (.appendLit buf t)).append rr.1)) := by
  sunfold visitMsgNode
  unfold writeRawText
  apply Runs.cast
  · exact Runs.seq Runs.atOther (Runs.seq (Runs.seq Runs.indentP (Runs.getBuf
      (Runs.seq (Runs.emit _) (Runs.seq (Runs.fx _) (Runs.seq (Runs.emit _) (Runs.fx _)))))) hr)
  · simp [renderStmts_append, renderStmts_one, renderStmt]

theorem parts_ph_runs (p : Nat) (name : Bytes) (body : MsgPhBody) (r : MsgParts) (a b : JsStmts × Scope)
    (h1 : Runs (At ind buf ae sc) (At ind buf ae a.2) (walkPhBody sk o body) (renderStmts (isEs6 o) ind a.1))
    (h2 : Runs (At ind buf ae a.2) (At ind buf ae b.2) (visitMsgNode sk o r) (renderStmts (isEs6 o) ind b.1)) :
    Runs (At ind buf ae sc) (At ind buf ae b.2) (visitMsgNode sk o (.ph p name body r))
      (renderStmts (isEs6 o) ind (a.1.append b.1)) := by
  sunfold visitMsgNode
  exact (Runs.seq h1 h2).cast (renderStmts_append (isEs6 o) ind a.1 b.1).symm

theorem ph_tag_runs (p : Nat) (t : Bytes) :
    Runs (At ind buf ae sc) (At ind buf ae sc) (walkPhBody sk o (.htmlTag p t))
      (renderStmts (isEs6 o) ind (.one (.appendLit buf t))) := by
  sunfold walkPhBody
  exact rawPart_runs o t

theorem ph_cmd_runs (c : Cmd) (r : JsStmts × Scope)
    (h : Runs (At ind buf ae sc) (At ind buf ae r.2) (walkCmd sk o c) (renderStmts (isEs6 o) ind r.1)) :
    Runs (At ind buf ae sc) (At ind buf ae r.2) (walkPhBody sk o (.cmd c)) (renderStmts (isEs6 o) ind r.1) := by
  sunfold walkPhBody
  exact h

end

/-! ### css, debugger -/

section
variable (sk : List Bytes → List Bytes) (o : Options) [GlobalsAre o]
variable {ind : Nat} {buf : Bytes} {ae : Autoescape} {sc : Scope}

theorem css_none_runs (p : Nat) (suffix : Bytes) :
    Runs (At ind buf ae sc) (At ind buf ae sc) (walkCmd sk o (.css p none suffix))
      (renderStmts (isEs6 o) ind (.one (.appendLit buf suffix))) := by
  sunfold walkCmd
  unfold writeRawText
  exact (Runs.seq Runs.atOther (Runs.seq Runs.pure (Runs.seq Runs.indentP (Runs.getBuf
    (Runs.seq (Runs.emit _) (Runs.seq (Runs.fx _) (Runs.seq (Runs.emit _) (Runs.fx _)))))))).cast
    (by simp [renderStmts_one, renderStmt])

theorem css_some_runs (p : Nat) (e : Expr) (suffix : Bytes) (j : JsExpr) (hj : toAst sc e = some j) :
    Runs (At ind buf ae sc) (At ind buf ae sc) (walkCmd sk o (.css p (some e) suffix))
      (renderStmts (isEs6 o) ind (.cons (.appendCss buf j) (.one (.appendLit buf suffix)))) := by
  sunfold walkCmd
  unfold writeRawText
  have hv := walkExpr_renders sk o sc e j hj
  exact (Runs.seq Runs.atOther (Runs.seq (Runs.seq Runs.indentP (Runs.getBuf (Runs.seq (Runs.emit _) (Runs.seq (Runs.fx _)
    (Runs.seq (Runs.expr hv) (Runs.seq (Runs.fx _) Runs.nl)))))) (Runs.seq Runs.indentP (Runs.getBuf
    (Runs.seq (Runs.emit _) (Runs.seq (Runs.fx _) (Runs.seq (Runs.emit _) (Runs.fx _)))))))).cast
    (by simp [renderStmts, renderStmt, JsStmts.one])

theorem debugger_runs (p : Nat) :
    Runs (At ind buf ae sc) (At ind buf ae sc) (walkCmd sk o (.debugger p)) (renderStmts (isEs6 o) ind (.one .debuggerS)) := by
  sunfold walkCmd
  exact (Runs.seq Runs.atOther (Runs.seq Runs.indentP (Runs.seq (Runs.fx _) Runs.nl))).cast
    (by simp [renderStmts_one, renderStmt])

end

/-! ### plural (no bundle) -/

theorem pcaseJoin_some {sc : Scope} {v : Int} {rb : Option (JsStmts × Scope)} {rest : Scope → Option (JsPlural × Scope)}
    {r : JsPlural × Scope} (h : pcaseJoin sc v rb rest = some r) :
    ∃ rb' rr, rb = some rb' ∧ rb'.2.stack = sc.stack ∧ rest rb'.2 = some rr ∧ r = (.cons v rb'.1 rr.1, rr.2) := by
  cases rb with
  | none => simp [pcaseJoin] at h
  | some rb' =>
    simp only [pcaseJoin] at h
    split at h
    · rename_i hst
      cases hr : rest rb'.2 with
      | none => simp [hr] at h
      | some rr =>
        simp only [hr, Option.some.injEq] at h
        exact ⟨rb', rr, rfl, hst, hr, h.symm⟩
    · cases h

theorem pluralJoin_some {sc : Scope} {j : Option JsExpr} {rc : Option (JsPlural × Scope)}
    {dflt rest : Scope → Option (JsStmts × Scope)} {r : JsStmts × Scope} (h : pluralJoin sc j rc dflt rest = some r) :
    ∃ j' rc' rd rr, j = some j' ∧ rc = some rc' ∧ dflt rc'.2 = some rd ∧ rd.2.stack = sc.stack ∧ rest rd.2 = some rr ∧
      r = (.cons (.pluralS j' rc'.1 rd.1) rr.1, rr.2) := by
  cases j with
  | none => simp [pluralJoin] at h
  | some j' =>
    cases rc with
    | none => simp [pluralJoin] at h
    | some rc' =>
      simp only [pluralJoin] at h
      cases hd : dflt rc'.2 with
      | none => simp [hd] at h
      | some rd =>
        simp only [hd] at h
        split at h
        · rename_i hst
          cases hr : rest rd.2 with
          | none => simp [hr] at h
          | some rr =>
            simp only [hr, Option.some.injEq] at h
            exact ⟨j', rc', rd, rr, rfl, rfl, hd, hst, hr, h.symm⟩
        · cases h

section
variable (sk : List Bytes → List Bytes) (o : Options) [GlobalsAre o]
variable {ind : Nat} {buf : Bytes} {ae : Autoescape} {sc : Scope}

theorem pcases_nil_runs :
    Runs (At ind buf ae sc) (At ind buf ae sc) (walkPluralCases sk o .nil) (renderPlural (isEs6 o) ind .nil) := by
  sunfold walkPluralCases
  exact Runs.pure.cast (by simp [renderPlural])

theorem pcases_cons_runs (p : Nat) (v : Int) (bp : Nat) (body : MsgParts) (rest : PluralCases) (rb : JsStmts × Scope)
    (rr : JsPlural × Scope)
    (hb : Runs (At (ind + 1) buf ae sc) (At (ind + 1) buf ae rb.2) (visitMsgNode sk o body) (renderStmts (isEs6 o) (ind + 1) rb.1))
    (hr : Runs (At ind buf ae rb.2) (At ind buf ae rr.2) (walkPluralCases sk o rest) (renderPlural (isEs6 o) ind rr.1)) :
    Runs (At ind buf ae sc) (At ind buf ae rr.2) (walkPluralCases sk o (.cons p v bp body rest))
      (renderPlural (isEs6 o) ind (.cons v rb.1 rr.1)) := by
  sunfold walkPluralCases
  exact (Runs.seq Runs.indentP (Runs.seq (Runs.fx _) (Runs.seq (Runs.emit _) (Runs.seq (Runs.fx _) (Runs.seq Runs.nl
    (Runs.seq Runs.incIndent (Runs.seq hb (Runs.seq Runs.indentP (Runs.seq (Runs.fx _) (Runs.seq Runs.nl
    (Runs.seq Runs.decIndent hr))))))))))).cast (by simp [renderPlural])

theorem parts_plural_runs (p : Nat) (vn : Bytes) (value : Expr) (cases : PluralCases) (dp : Nat) (dflt r : MsgParts) (j : JsExpr)
    (rc : JsPlural × Scope) (rd rr : JsStmts × Scope) (hj : toAst sc value = some j)
    (hc : Runs (At (ind + 1) buf ae sc) (At (ind + 1) buf ae rc.2) (walkPluralCases sk o cases) (renderPlural (isEs6 o) (ind + 1) rc.1))
    (hd : Runs (At (ind + 1 + 1) buf ae rc.2) (At (ind + 1 + 1) buf ae rd.2) (visitMsgNode sk o dflt)
      (renderStmts (isEs6 o) (ind + 1 + 1) rd.1))
    (hr : Runs (At ind buf ae rd.2) (At ind buf ae rr.2) (visitMsgNode sk o r) (renderStmts (isEs6 o) ind rr.1)) :
    Runs (At ind buf ae sc) (At ind buf ae rr.2) (visitMsgNode sk o (.plural p vn value cases dp dflt r))
      (renderStmts (isEs6 o) ind (.cons (.pluralS j rc.1 rd.1) rr.1)) := by
  sunfold visitMsgNode
  have hv := walkExpr_renders sk o sc value j hj
  exact (Runs.seq Runs.indentP (Runs.seq (Runs.fx _) (Runs.seq (Runs.expr hv) (Runs.seq (Runs.fx _) (Runs.seq Runs.nl
    (Runs.seq Runs.incIndent (Runs.seq hc (Runs.seq Runs.indentP (Runs.seq (Runs.fx _) (Runs.seq Runs.nl
    (Runs.seq Runs.incIndent (Runs.seq hd (Runs.seq Runs.decIndent (Runs.seq Runs.decIndent (Runs.seq Runs.indentP
    (Runs.seq (Runs.fx _) (Runs.seq Runs.nl hr))))))))))))))))).cast (by simp [renderStmts, renderStmt])

end

/-! ### the recursion -/

section
variable (sk : List Bytes → List Bytes) (o : Options) [GlobalsAre o] (ae : Autoescape)
-- `{msg}` is translated as the generator writes it WITHOUT a message bundle
variable (ho : o.messages = none)
include ho

mutual
  /-- PARTIAL (generator ↔ statement AST): for a command of the fragment, from every state in the
      scope `sc` (any indentation, buffer `buf`, autoescape mode `ae`) the generator writes exactly the
      text of the translation and ends in the scope the translation computes -/
  theorem walkCmd_renders : ∀ (c : Cmd) (buf : Bytes) (sc : Scope) (r : JsStmts × Scope), toCmd ae buf c sc = some r →
      ∀ ind, Runs (At ind buf ae sc) (At ind buf ae r.2) (walkCmd sk o c) (renderStmts (isEs6 o) ind r.1)
    | .rawText p t, buf, sc, r, h, ind => by
      simp only [toCmd, Option.some.injEq] at h; subst h
      exact rawText_runs sk o p t
    | .print p arg dirs, buf, sc, r, h, ind => by
      unfold toCmd at h
      split at h
      · rename_i hok
        split at h
        · rename_i j ck hj hc
          simp only [Option.some.injEq] at h; subst h
          exact print_runs sk o p arg dirs j ck hok hj hc
        · cases h
      · cases h
    | .letValue p x e, buf, sc, r, h, ind => by
      unfold toCmd at h
      split at h
      · cases h
      · split at h
        · rename_i j hj
          simp only [Option.some.injEq] at h; subst h
          exact letValue_runs sk o p x e j hj
        · cases h
    | .ifc p conds, buf, sc, r, h, ind => by
      unfold toCmd at h
      split at h
      · rename_i rc hrc
        simp only [Option.some.injEq] at h; subst h
        exact ifc_runs sk o p conds rc.1 rc.2 (visitConds_renders conds buf sc rc hrc true ind)
      · cases h
    | .msg p id m d bp body, buf, sc, r, h, ind => by
      unfold toCmd at h
      obtain ⟨rb, hrb, rfl⟩ := msgJoin_some h
      exact msg_runs sk o ho p id m d bp body rb (visitMsgNode_renders body buf _ rb hrb ind)
    | .css p none suffix, buf, sc, r, h, ind => by
      simp only [toCmd, Option.some.injEq] at h; subst h
      exact css_none_runs sk o p suffix
    | .css p (some e) suffix, buf, sc, r, h, ind => by
      simp only [toCmd] at h
      split at h
      · rename_i j hj
        simp only [Option.some.injEq] at h; subst h
        exact css_some_runs sk o p e suffix j hj
      · cases h
    | .debugger p, buf, sc, r, h, ind => by
      simp only [toCmd, Option.some.injEq] at h; subst h
      exact debugger_runs sk o p
    | .log .., _, _, _, h, _ => by simp [toCmd] at h
    | .forc p v list body none, buf, sc, r, h, ind => by
      unfold toCmd at h
      rcases loopJoin_some h with h | h
      · obtain ⟨_, hr, j, rbv, hj, hrb, he⟩ := forcJoin_some h
        simp only at he
        subst he
        exact forc_none_runs sk o p v list body j rbv hr hj (walkBody_renders body buf _ rbv hrb (ind + 1))
      · obtain ⟨_, _, args, l, c, jl, ji, rbv, pc, hr, hl, hinc, _, hjl, hji, hrb, rfl⟩ := rangeJoin_some h
        exact forc_range_runs sk o p v list body args l jl ji (.num c) rbv hr hl hjl hji (by rw [hinc]; rfl)
          (walkBody_renders body buf _ rbv hrb (ind + 1))
    | .forc p v list body (some ie), buf, sc, r, h, ind => by
      unfold toCmd at h
      rcases loopJoin_ie_some h with h | ⟨r0, re, hr0, hre, rfl⟩
      · obtain ⟨_, hr, j, rbv, hj, hrb, he⟩ := forcJoin_some h
        simp only at he
        obtain ⟨re, hre, rfl⟩ := he
        exact forc_some_runs sk o p v list body ie j rbv re hr hj (walkBody_renders body buf _ rbv hrb (ind + 1 + 1))
          (walkBlock_renders ie buf _ re hre (ind + 1))
      · obtain ⟨_, _, args, l, c, jl, ji, rbv, pc, hr, hl, hinc, _, hjl, hji, hrb, rfl⟩ := rangeJoin_some hr0
        exact forc_range_some_runs sk o p v list body ie args l jl ji (.num c) rbv re hr hl hjl hji (by rw [hinc]; rfl)
          (walkBody_renders body buf _ rbv hrb (ind + 1)) (walkBlock_renders ie buf _ re hre (ind + 1))
    | .switch p value cases, buf, sc, r, h, ind => by
      unfold toCmd at h
      split at h
      · rename_i j rc hj hrc
        simp only [Option.some.injEq] at h; subst h
        exact switch_runs sk o p value cases j rc.1 rc.2 hj (visitCases_renders cases buf sc rc hrc (ind + 1))
      · cases h
    | .call p name allData data params, buf, sc, r, h, ind => by
      unfold toCmd at h
      obtain ⟨b, rp, hb, hrp, rfl⟩ := callJoin_some h
      exact call_runs sk o p name allData data params b rp hb hrp (fun acc => visitParams_renders params true acc buf sc rp hrp ind)
    | .letContent p name body, buf, sc, r, h, ind => by
      unfold toCmd at h
      obtain ⟨_, rbv, hrb, rfl⟩ := letJoin_some h
      exact letContent_runs sk o p name body rbv (walkBlock_renders body _ _ rbv hrb ind)
    | .headerParam .., _, _, _, h, _ => by simp [toCmd] at h
    | .namespace .., _, _, _, h, _ => by simp [toCmd] at h
    | .template .., _, _, _, h, _ => by simp [toCmd] at h
    | .soyDoc .., _, _, _, h, _ => by simp [toCmd] at h
  theorem visitMsgNode_renders : ∀ (ps : MsgParts) (buf : Bytes) (sc : Scope) (r : JsStmts × Scope), toParts ae buf ps sc = some r →
      ∀ ind, Runs (At ind buf ae sc) (At ind buf ae r.2) (visitMsgNode sk o ps) (renderStmts (isEs6 o) ind r.1)
    | .nil, buf, sc, r, h, ind => by
      simp only [toParts, Option.some.injEq] at h; subst h
      exact parts_nil_runs sk o
    | .text p t rest, buf, sc, r, h, ind => by
      unfold toParts at h
      obtain ⟨a, rr, ha, hrr, rfl⟩ := phJoin_some h
      simp only [Option.some.injEq] at ha; subst ha
      exact parts_text_runs sk o p t rest rr (visitMsgNode_renders rest buf sc rr hrr ind)
    | .ph p name body rest, buf, sc, r, h, ind => by
      unfold toParts at h
      obtain ⟨a, b, ha, hb, rfl⟩ := phJoin_some h
      exact parts_ph_runs sk o p name body rest a b (walkPhBody_renders body buf sc a ha ind)
        (visitMsgNode_renders rest buf a.2 b hb ind)
    | .plural p vn value cases dp dflt rest, buf, sc, r, h, ind => by
      unfold toParts at h
      obtain ⟨j, rc, rd, rr, hj, hrc, hrd, _, hrr, rfl⟩ := pluralJoin_some h
      exact parts_plural_runs sk o p vn value cases dp dflt rest j rc rd rr hj (walkPluralCases_renders cases buf sc rc hrc (ind + 1))
        (visitMsgNode_renders dflt buf rc.2 rd hrd (ind + 1 + 1)) (visitMsgNode_renders rest buf rd.2 rr hrr ind)
  theorem walkPluralCases_renders : ∀ (cs : PluralCases) (buf : Bytes) (sc : Scope) (r : JsPlural × Scope),
      toPCases ae buf cs sc = some r →
      ∀ ind, Runs (At ind buf ae sc) (At ind buf ae r.2) (walkPluralCases sk o cs) (renderPlural (isEs6 o) ind r.1)
    | .nil, buf, sc, r, h, ind => by
      simp only [toPCases, Option.some.injEq] at h; subst h
      exact pcases_nil_runs sk o
    | .cons p v bp body rest, buf, sc, r, h, ind => by
      unfold toPCases at h
      obtain ⟨rb, rr, hrb, _, hrr, rfl⟩ := pcaseJoin_some h
      exact pcases_cons_runs sk o p v bp body rest rb rr (visitMsgNode_renders body buf sc rb hrb (ind + 1))
        (walkPluralCases_renders rest buf rb.2 rr hrr ind)
  theorem walkPhBody_renders : ∀ (b : MsgPhBody) (buf : Bytes) (sc : Scope) (r : JsStmts × Scope), toPh ae buf b sc = some r →
      ∀ ind, Runs (At ind buf ae sc) (At ind buf ae r.2) (walkPhBody sk o b) (renderStmts (isEs6 o) ind r.1)
    | .htmlTag p t, buf, sc, r, h, ind => by
      simp only [toPh, Option.some.injEq] at h; subst h
      exact ph_tag_runs sk o p t
    | .cmd c, buf, sc, r, h, ind => by
      unfold toPh at h
      exact ph_cmd_runs sk o c r (walkCmd_renders c buf sc r h ind)
  theorem visitParams_renders : ∀ (ps : ParamList) (first : Bool) (acc : List Piece) (buf : Bytes) (sc : Scope)
      (r : JsStmts × List (Bytes × JsExpr) × Scope), toParams ae ps sc = some r →
      ∀ ind, RunsV (At ind buf ae sc) (At ind buf ae r.2.2) (visitParams sk o ps first acc) (acc ++ kvPieces r.2.1 first)
        (renderStmts (isEs6 o) ind r.1)
    | .nil, first, acc, buf, sc, r, h, ind => by
      simp only [toParams, Option.some.injEq] at h; subst h
      exact params_nil_runs sk o first acc
    | .value p key e rest, first, acc, buf, sc, r, h, ind => by
      unfold toParams at h
      obtain ⟨j, rr, hj, hrr, hr⟩ := valueParamJoin_some h rfl
      simp only [Option.some.injEq] at hr; subst hr
      exact params_value_runs sk o p key e rest first acc j rr hj
        (fun acc' => visitParams_renders rest false acc' buf sc rr hrr ind)
    | .content p key body rest, first, acc, buf, sc, r, h, ind => by
      unfold toParams at h
      obtain ⟨rb, rr, hrb, hrr, rfl⟩ := contentParamJoin_some h
      exact params_content_runs sk o p key body rest first acc rb rr (walkBlock_renders body _ _ rb hrb ind)
        (fun acc' => visitParams_renders rest false acc' buf rb.2 rr hrr ind)
  theorem visitCases_renders : ∀ (cs : CaseList) (buf : Bytes) (sc : Scope) (r : JsCases × Scope), toCases ae buf cs sc = some r →
      ∀ ind, Runs (At ind buf ae sc) (At ind buf ae r.2) (visitCases sk o cs) (renderCases (isEs6 o) ind r.1)
    | .nil, buf, sc, r, h, ind => by
      simp only [toCases, Option.some.injEq] at h; subst h
      exact cases_nil_runs sk o
    | .cons p values body .nil, buf, sc, r, h, ind => by
      unfold toCases at h
      obtain ⟨rbv, hrb, hc⟩ := caseJoin_some h
      rcases hc with ⟨rfl, _, rfl⟩ | ⟨hne, js, rr, hjs, hrr, rfl⟩
      · exact cases_dflt_runs sk o p body rbv.1 rbv.2 (walkBlock_renders body buf sc rbv hrb (ind + 1))
      · cases values with
        | nil => exact absurd rfl hne
        | cons v0 vr =>
          exact cases_cons_runs sk o p v0 vr body .nil js rbv.1 rr.1 rbv.2 rr.2 hjs
            (walkBlock_renders body buf sc rbv hrb (ind + 1)) (visitCases_renders .nil buf rbv.2 rr hrr ind)
    | .cons p values body (.cons p2 v2 b2 r2), buf, sc, r, h, ind => by
      unfold toCases at h
      obtain ⟨rbv, hrb, hc⟩ := caseJoin_some h
      rcases hc with ⟨_, hl, _⟩ | ⟨hne, js, rr, hjs, hrr, rfl⟩
      · simp at hl
      · cases values with
        | nil => exact absurd rfl hne
        | cons v0 vr =>
          exact cases_cons_runs sk o p v0 vr body _ js rbv.1 rr.1 rbv.2 rr.2 hjs
            (walkBlock_renders body buf sc rbv hrb (ind + 1)) (visitCases_renders (.cons p2 v2 b2 r2) buf rbv.2 rr hrr ind)
  theorem walkBody_renders : ∀ (b : Block) (buf : Bytes) (sc : Scope) (r : JsStmts × Scope), toBody ae buf b sc = some r →
      ∀ ind, Runs (At ind buf ae sc) (At ind buf ae r.2) (walkBody sk o b) (renderStmts (isEs6 o) ind r.1)
    | .mk p cmds, buf, sc, r, h, ind => by
      unfold toBody at h
      exact body_runs sk o p cmds r.1 r.2 (walkCmds_renders cmds buf sc r h ind)
  theorem walkBlock_renders : ∀ (b : Block) (buf : Bytes) (sc : Scope) (r : JsStmts × Scope), toBlock ae buf b sc = some r →
      ∀ ind, Runs (At ind buf ae sc) (At ind buf ae r.2) (walkBlock sk o b) (renderStmts (isEs6 o) ind r.1)
    | .mk p cmds, buf, sc, r, h, ind => by
      unfold toBlock at h
      split at h
      · rename_i rc hrc
        simp only [Option.some.injEq] at h; subst h
        exact block_runs sk o p cmds rc.1 rc.2 (walkCmds_renders cmds buf sc.push rc hrc ind)
      · cases h
  theorem walkCmds_renders : ∀ (cs : CmdList) (buf : Bytes) (sc : Scope) (r : JsStmts × Scope), toCmds ae buf cs sc = some r →
      ∀ ind, Runs (At ind buf ae sc) (At ind buf ae r.2) (walkCmds sk o cs) (renderStmts (isEs6 o) ind r.1)
    | .nil, buf, sc, r, h, ind => by
      simp only [toCmds, Option.some.injEq] at h; subst h
      exact cmds_nil_runs sk o
    | .cons c rest, buf, sc, r, h, ind => by
      unfold toCmds at h
      split at h
      · cases h
      · rename_i r1 h1
        split at h
        · cases h
        · rename_i r2 h2
          simp only [Option.some.injEq] at h; subst h
          exact cmds_cons_runs sk o c rest r1.1 r2.1 r1.2 r2.2 (walkCmd_renders c buf sc r1 h1 ind)
            (walkCmds_renders rest buf r1.2 r2 h2 ind)
  theorem visitConds_renders : ∀ (cs : CondList) (buf : Bytes) (sc : Scope) (r : JsConds × Scope), toConds ae buf cs sc = some r →
      ∀ (first : Bool) ind, Runs (At ind buf ae sc) (At ind buf ae r.2) (visitConds sk o cs first) (renderConds (isEs6 o) ind r.1 first)
    | .nil, buf, sc, r, h, first, ind => by
      simp only [toConds, Option.some.injEq] at h; subst h
      exact conds_nil_runs sk o first
    | .cons p (some c) body rest, buf, sc, r, h, first, ind => by
      unfold toConds at h
      simp only at h
      split at h
      · rename_i j rb hj hb
        split at h
        · rename_i rr hr
          simp only [Option.some.injEq] at h; subst h
          exact conds_some_runs sk o p c body rest first j rb.1 rr.1 rb.2 rr.2 hj
            (walkBlock_renders body buf sc rb hb (ind + 1)) (visitConds_renders rest buf rb.2 rr hr false ind)
        · cases h
      · cases h
    | .cons p none body rest, buf, sc, r, h, first, ind => by
      unfold toConds at h
      simp only at h
      split at h
      · rename_i rb hb
        simp only [Option.some.injEq] at h; subst h
        exact conds_else_runs sk o p body first rb.1 rb.2 (walkBlock_renders body buf sc rb hb (ind + 1))
      · cases h
end

end

/-! ## 2. the specification, with directives -/

abbrev SEnv := Spec.Eval.Env
open SoyVerif.Spec.Eval (Val Out)

/-- what a `{call}` needs of the specification (the section variables of Spec/Eval.renderCmd): the registry, the data
    the template was entered with (`data="all"`), and the callee's rendering, one call level down -/
structure RefCtx where
  reg : Registry.Reg
  entry : Spec.Eval.Binds
  call : Registry.Tmpl → Spec.Eval.CallEnv → Out Bytes

section
-- `F name args x`: what the library function the generator writes for `|name:args` computes from `x`
variable (F : Bytes → List Expr → JVal → JOut) (R : RefCtx) (ae : Autoescape)

/-- strict in an abrupt argument -/
def liftF (name : Bytes) (args : List Expr) (x : JOut) : JOut := x.bind (F name args)

/-- the text of a print: the Go renderer's directive loop (Props/C04b `goPrint`: left to right, the
    escape flag cleared by a cancelling directive, escaping last) on the JSON image of the value,
    then ToString -/
def refPrintJs (dirs : List Directive) (v : Val) : Out Bytes :=
  match toJsV v with
  | none => .unspec
  | some jv =>
    match C04b.goPrint (liftF F) Gen.directiveTable ae dirs (.val jv) with
    | some (.val r) => (match toStr? r with
      | some s => .val s
      | none => .unspec)
    | some .error => .error
    | _ => .unspec

/-- Spec/Eval's print without directives: ToString of the value (an undefined value is an error), HTML-escaped
    unless autoescaping is off -/
def specPlain (v : Val) : Out Bytes :=
  if Spec.Eval.isUndef v then .error
  else (Spec.Eval.showVal v).bind fun s => .val (if ae != .off then htmlEscape s else s)

/-- Spec/Eval's print (the `.print` clause of `renderCmd` after the argument is evaluated): without a directive
    semantics a print with directives is `unspec`; an undefined value is an error; the directives left to right, then
    ToString, HTML-escaped if the flag is still set -/
def specPrint (dsem : Option Spec.Eval.LibSem) (esc : Bool) (env : SEnv) (dirs : List Directive) (v : Val) : Out Bytes :=
  if !dirs.isEmpty && (Spec.Eval.dirsOf dsem).isNone then .unspec
  else if Spec.Eval.isUndef v then .error
  else (Spec.Eval.runDirs (Spec.Eval.dirsOf dsem) env dirs v esc).bind fun r =>
    (Spec.Eval.showVal r.1).bind fun s => .val (if r.2 then htmlEscape s else s)

/-- the Go library as Spec/Eval's library semantics (Props/C02Spec `modelDirSem` of the live table; = Props/C04g `goLib`) -/
def goLibD : Spec.Eval.LibSem := { dirs := some (SoyVerif.Props.C02Spec.modelDirSem Gen.directiveTable) }

/-- an environment for the literal arguments of directives (they look nothing up) -/
def env0 : SEnv := { vars := [], loops := [], ij := none, globals := [] }

/-- the text of a print in the reference semantics: through the JSON image and the library functions `F` where that
    says something; where it is silent (a value without a JSON image, a list or a map, a function `F` leaves open)
    what Spec/Eval prints — with the Go library, if the print has directives.  (The theorems about the generated
    statements look at the `val` / `error` answers of `refPrintJs` only; the fall-back makes the reference total where
    Spec/Eval is, which is what the converse theorems against Spec/Eval need.) -/
def refPrint (dirs : List Directive) (v : Val) : Out Bytes :=
  match refPrintJs F ae dirs v with
  | .unspec => if dirs.isEmpty then specPlain ae v else specPrint (some goLibD) (ae != .off) env0 dirs v
  | o => o

/-- the data a call passes on before its params: the caller's entry data (`data="all"`), the map `data="$e"`
    evaluates to, or nothing -/
def refBase (allData : Bool) (data : Option Expr) (env : SEnv) : Out Spec.Eval.Binds :=
  if allData then .val R.entry
  else match data with
    | some e => (Spec.Eval.eval env e).bind fun v =>
      match v with
      | .map kvs => .val kvs
      | _ => .error
    | none => .val []

mutual
  /-- Spec/Eval.renderCmd on the fragment (lexical scoping: what a block binds is visible inside only) -/
  def refCmd : Cmd → SEnv → Spec.Eval.ROut
    | .rawText _ t, env => .val (t, env)
    | .print _ arg dirs, env =>
      (Spec.Eval.eval env arg).bind fun v => (refPrint F ae dirs v).bind fun s => .val (s, env)
    | .letValue _ name e, env => (Spec.Eval.eval env e).bind fun v => .val ([], env.bind name v)
    | .ifc _ conds, env => (refConds conds env).bind fun out => .val (out, env)
    | .forc _ var list body ifEmpty, env =>
      (Spec.Eval.eval env list).bind fun lv =>
        match lv with
        | .list xs =>
          if xs.isEmpty then
            match ifEmpty with
            | some b => (refBlock b env).bind fun out => .val (out, env)
            | none => .val ([], env)
          else (Spec.Eval.loopSpec (refBlock body) env var (xs.length - 1) xs 0).bind fun out => .val (out, env)
        | _ => .error
    | .switch _ value cases, env =>
      (Spec.Eval.eval env value).bind fun sv => (refCases cases sv env).bind fun out => .val (out, env)
    | .letContent _ name body, env => (refBlock body env).bind fun out => .val ([], env.bind name (.str out))
    | .call _ name allData data params, env =>
      match Registry.lookup R.reg name with
      | none => .error
      | some callee =>
        (refBase R allData data env).bind fun b =>
          (refParams params env).bind fun ps =>
            (R.call callee { entry := ps ++ b, ij := env.ij, globals := env.globals }).bind fun out => .val (out, env)
    | .css _ e suffix, env =>
      (match e with
        | none => .val (suffix, env)
        | some e => (Spec.Eval.eval env e).bind fun v => (Spec.Eval.showVal v).bind fun s => .val (s ++ [45] ++ suffix, env))
    | .debugger _, env => .val ([], env)
    | .msg _ _ _ _ _ body, env =>
      -- no message bundle: the parts in order; the body is a scope of its own
      (refParts body env).bind fun r => .val (r.1, env)
    | _, _ => .unspec
  /-- Spec/Eval.renderParts without `{plural}` -/
  def refParts : MsgParts → SEnv → Spec.Eval.ROut
    | .nil, env => .val ([], env)
    | .text _ t rest, env => (refParts rest env).bind fun r => .val (t ++ r.1, r.2)
    | .ph _ _ body rest, env =>
      (refPh body env).bind fun r1 => (refParts rest r1.2).bind fun r2 => .val (r1.1 ++ r2.1, r2.2)
    | .plural _ _ value cases _ dflt rest, env =>
      -- Spec/Eval.renderParts: the first `{case n}` with the value, else `{default}`
      (Spec.Eval.eval env value).bind fun v =>
        match v with
        | .int i =>
          (match refPlural cases i env with
            | some r => r
            | none => refParts dflt env).bind fun r1 => (refParts rest r1.2).bind fun r2 => .val (r1.1 ++ r2.1, r2.2)
        | _ => .error
  def refPlural : PluralCases → Int → SEnv → Option Spec.Eval.ROut
    | .nil, _, _ => none
    | .cons _ v _ body rest, i, env => if i == v then some (refParts body env) else refPlural rest i env
  def refPh : MsgPhBody → SEnv → Spec.Eval.ROut
    | .htmlTag _ t, env => .val (t, env)
    | .cmd c, env => refCmd c env
  /-- the call's params, in the caller's environment (later ones first in the result) -/
  def refParams : ParamList → SEnv → Out Spec.Eval.Binds
    | .nil, _ => .val []
    | .value _ key e rest, env =>
      (Spec.Eval.eval env e).bind fun v => (refParams rest env).bind fun r => .val (r ++ [(key, v)])
    | .content _ key body rest, env =>
      (refBlock body env).bind fun out => (refParams rest env).bind fun r => .val (r ++ [(key, .str out)])
  def refBlock : Block → SEnv → Out Bytes
    | .mk _ cmds, env => refCmds cmds env
  def refCmds : CmdList → SEnv → Out Bytes
    | .nil, _ => .val []
    | .cons c rest, env =>
      (refCmd c env).bind fun r => (refCmds rest r.2).bind fun more => .val (r.1 ++ more)
  def refCases : CaseList → Val → SEnv → Out Bytes
    | .nil, _, _ => .val []
    | .cons _ values body rest, sv, env =>
      if values.isEmpty then refBlock body env
      else (Spec.Eval.matchAny env sv values).bind fun hit =>
        if hit then refBlock body env else refCases rest sv env
  def refConds : CondList → SEnv → Out Bytes
    | .nil, _ => .val []
    | .cons _ cond body rest, env =>
      match cond with
      | none => refBlock body env
      | some c => (Spec.Eval.eval env c).bind fun v =>
          if Spec.Eval.truthy v then refBlock body env else refConds rest env
end

end

/-! ## 3. running the statements -/

/-! ### generated names -/

theorem natDigits_inj {m m' : Nat} (h : F64.natDigits m = F64.natDigits m') : m = m' := by
  have h1 := (SoyVerif.Lemmas.JsonValue.natDigits_shape m).2.2.2
  have h2 := (SoyVerif.Lemmas.JsonValue.natDigits_shape m').2.2.2
  rw [h] at h1
  exact h1.symm.trans h2

/-- the counter is part of the name -/
theorem jsname_inj_n {k k' : Bytes} {m m' : Nat} (hk : k.contains 36 = false) (hk' : k'.contains 36 = false)
    (h : Scope.jsname k [] m = Scope.jsname k' [] m') : k = k' ∧ m = m' := by
  have hkk := C04c.jsname_inj hk hk' h
  subst hkk
  refine ⟨rfl, natDigits_inj ?_⟩
  simpa [Scope.jsname] using h

theorem jsname_dollar (k use : Bytes) (m : Nat) : (Scope.jsname k use m).contains 36 = true := by
  simp [Scope.jsname]

/-- the `use` parts of scope.go: a variable, a loop's list / limit / index -/
def IsUse (use : Bytes) : Prop := use = [] ∨ use = b!"List" ∨ use = b!"Limit" ∨ use = b!"Index" ∨ use = b!"Step"

theorem natDigits_head_digit (m : Nat) (c : UInt8) (r : Bytes) (h : F64.natDigits m = c :: r) : c ≠ 76 ∧ c ≠ 73 ∧ c ≠ 83 := by
  have := (SoyVerif.Lemmas.JsonValue.natDigits_shape m).2.1 c (by rw [h]; simp)
  refine ⟨?_, ?_, ?_⟩ <;> (rintro rfl; revert this; decide)

/-- the parts of a generated name determine it -/
theorem jsname_inj_all {x x' u u' : Bytes} {m m' : Nat} (hx : x.contains 36 = false) (hx' : x'.contains 36 = false)
    (hu : IsUse u) (hu' : IsUse u') (h : Scope.jsname x u m = Scope.jsname x' u' m') : x = x' ∧ u = u' ∧ m = m' := by
  have hxx := C04c.jsname_inj hx hx' h
  subst hxx
  have e : u ++ F64.natDigits m = u' ++ F64.natDigits m' := by simpa [Scope.jsname] using h
  rcases hu with rfl | rfl | rfl | rfl | rfl <;> rcases hu' with rfl | rfl | rfl | rfl | rfl
  all_goals first
    | exact ⟨rfl, rfl, natDigits_inj (by simpa using e)⟩
    | (exfalso; simp at e; done)
    | (exfalso; exact (natDigits_head_digit _ _ _ e).1 rfl)
    | (exfalso; exact (natDigits_head_digit _ _ _ e).2.1 rfl)
    | (exfalso; exact (natDigits_head_digit _ _ _ e).2.2 rfl)
    | (exfalso; exact (natDigits_head_digit _ _ _ e.symm).1 rfl)
    | (exfalso; exact (natDigits_head_digit _ _ _ e.symm).2.1 rfl)
    | (exfalso; exact (natDigits_head_digit _ _ _ e.symm).2.2 rfl)

/-- `g` is none of the names generated after the counter was `lo` -/
def Old (lo : Nat) (g : Bytes) : Prop :=
  ∀ x use m, x.contains 36 = false → IsUse use → lo < m → g ≠ Scope.jsname x use m

theorem old_jsname {x u : Bytes} {m lo : Nat} (hx : x.contains 36 = false) (hu : IsUse u) (hm : m ≤ lo) :
    Old lo (Scope.jsname x u m) := by
  intro x' u' m' hx' hu' hlt e
  have := (jsname_inj_all hx hx' hu hu' e).2.2
  omega

theorem Old.mono {lo lo' : Nat} {g : Bytes} (h : Old lo g) (hl : lo ≤ lo') : Old lo' g :=
  fun x u m hx hu hm => h x u m hx hu (by omega)

theorem old_plain {g : Bytes} (lo : Nat) (h : g.contains 36 = false) : Old lo g := by
  intro x u m _ _ _ e
  have := jsname_dollar x u m
  rw [← e, h] at this
  cases this

/-! ### the scope invariant: Soy-named entries are `k$m` with `m` at most the counter -/

def Named (n : Nat) (k g : Bytes) : Prop := k.contains 36 = false → ∃ m, m ≤ n ∧ g = Scope.jsname k [] m

/-- every entry of every frame: a Soy name holds a name generated for it, and no entry is a name still to be generated -/
def Bounded (sc : Scope) : Prop := ∀ f ∈ sc.stack, ∀ kv ∈ f, Named sc.n kv.1 kv.2 ∧ Old sc.n kv.2

/-- what the walk of a template body keeps: a frame is open, and the names are bounded -/
def ScOk (sc : Scope) : Prop := sc.stack ≠ [] ∧ Bounded sc

theorem Named.mono {n n' : Nat} {k g : Bytes} (h : Named n k g) (hn : n ≤ n') : Named n' k g := by
  intro hk
  obtain ⟨m, hm, e⟩ := h hk
  exact ⟨m, by omega, e⟩

theorem frameSet_mem : ∀ (f : Frame) (k v : Bytes) (kv : Bytes × Bytes), kv ∈ frameSet f k v → kv = (k, v) ∨ kv ∈ f
  | [], k, v, kv, h => by simp [frameSet] at h; exact Or.inl h
  | (k', v') :: r, k, v, kv, h => by
    unfold frameSet at h
    split at h
    · rcases List.mem_cons.mp h with h | h
      · exact Or.inl h
      · exact Or.inr (by simp [h])
    · rcases List.mem_cons.mp h with h | h
      · exact Or.inr (by simp [h])
      · rcases frameSet_mem r k v kv h with h | h
        · exact Or.inl h
        · exact Or.inr (by simp [h])

theorem frameGet_mem : ∀ (f : Frame) (k v : Bytes), frameGet? f k = some v → (k, v) ∈ f
  | [], _, _, h => by simp [frameGet?] at h
  | (k', v') :: r, k, v, h => by
    unfold frameGet? at h
    split at h
    · rename_i hk
      have : k' = k := by simpa using hk
      subst this
      simp only [Option.some.injEq] at h
      subst h
      simp
    · exact List.mem_cons_of_mem _ (frameGet_mem r k v h)

theorem lookupIn_mem : ∀ (st : List Frame) (k v : Bytes), Scope.lookupIn st k = some v → ∃ f ∈ st, (k, v) ∈ f
  | [], _, _, h => by simp [Scope.lookupIn] at h
  | f :: r, k, v, h => by
    unfold Scope.lookupIn at h
    split at h
    · rename_i v' hv'
      simp only [Option.some.injEq] at h
      subst h
      exact ⟨f, by simp, frameGet_mem f k _ hv'⟩
    · obtain ⟨g, hg, hm⟩ := lookupIn_mem r k v h
      exact ⟨g, by simp [hg], hm⟩

theorem bounded_lookup {sc : Scope} (h : Bounded sc) {k g : Bytes} (hk : k.contains 36 = false)
    (hl : sc.lookup k = some g) : ∃ m, m ≤ sc.n ∧ g = Scope.jsname k [] m := by
  obtain ⟨f, hf, hm⟩ := lookupIn_mem sc.stack k g hl
  exact (h f hf (k, g) hm).1 hk

theorem bounded_shape {sc : Scope} (h : Bounded sc) : SoyVerif.Lemmas.JsGenSpec.ScopeShape sc := by
  intro k g hk hl
  obtain ⟨m, _, e⟩ := bounded_lookup h hk hl
  exact ⟨[], m, e⟩

theorem bounded_of_stack {sc sc' : Scope} (h : Bounded sc) (hs : sc'.stack = sc.stack) (hn : sc.n ≤ sc'.n) : Bounded sc' := by
  intro f hf kv hkv
  rw [hs] at hf
  exact ⟨(h f hf kv hkv).1.mono hn, (h f hf kv hkv).2.mono hn⟩

theorem scOk_push {sc : Scope} (h : Bounded sc) : ScOk sc.push := by
  refine ⟨by simp [Scope.push], ?_⟩
  intro f hf kv hkv
  simp only [Scope.push, List.mem_cons] at hf
  rcases hf with rfl | hf
  · cases hkv
  · exact h f hf kv hkv

theorem scOk_makevar {sc : Scope} (h : ScOk sc) (x : Bytes) (hx : x.contains 36 = false) :
    ScOk (sc.makevar x).2 ∧ (sc.makevar x).2.stack.tail = sc.stack.tail ∧ (sc.makevar x).2.n = sc.n + 1 := by
  obtain ⟨hne, hb⟩ := h
  cases hst : sc.stack with
  | nil => exact absurd hst hne
  | cons f st =>
    refine ⟨⟨by simp [Scope.makevar, Scope.setTop, hst], ?_⟩, by simp [Scope.makevar, Scope.setTop, hst], rfl⟩
    intro f' hf' kv hkv
    have old : ∀ f0 ∈ sc.stack, ∀ kv0 ∈ f0, Named (sc.n + 1) kv0.1 kv0.2 ∧ Old (sc.n + 1) kv0.2 :=
      fun f0 h0 kv0 hk0 => ⟨(hb f0 h0 kv0 hk0).1.mono (Nat.le_succ _), (hb f0 h0 kv0 hk0).2.mono (Nat.le_succ _)⟩
    simp only [Scope.makevar, Scope.setTop, hst, List.mem_cons] at hf'
    rcases hf' with rfl | hf'
    · rcases frameSet_mem f x _ kv hkv with rfl | hm
      · exact ⟨fun _ => ⟨sc.n + 1, Nat.le_refl _, rfl⟩, old_jsname hx (Or.inl rfl) (Nat.le_refl _)⟩
      · exact old f (by simp [hst]) kv hm
    · exact old f' (by simp [hst, hf']) kv hkv

theorem scOk_pushForEach {sc : Scope} (h : ScOk sc) (v : Bytes) (hv : v.contains 36 = false) :
    ScOk (sc.pushForEach v).2 ∧ (sc.pushForEach v).2.stack.tail = sc.stack ∧ (sc.pushForEach v).2.n = sc.n + 1 := by
  refine ⟨⟨by simp [Scope.pushForEach], ?_⟩, by simp [Scope.pushForEach], rfl⟩
  intro f hf kv hkv
  simp only [Scope.pushForEach, List.mem_cons] at hf
  rcases hf with rfl | hf
  · rcases frameSet_mem _ _ _ kv hkv with rfl | hkv
    · exact ⟨fun hk => by simp [Scope.kIndex] at hk, old_jsname hv (Or.inr (Or.inr (Or.inr (Or.inl rfl)))) (Nat.le_refl _)⟩
    · rcases frameSet_mem _ _ _ kv hkv with rfl | hkv
      · exact ⟨fun hk => by simp [Scope.kLimit] at hk, old_jsname hv (Or.inr (Or.inr (Or.inl rfl))) (Nat.le_refl _)⟩
      · rcases frameSet_mem _ _ _ kv hkv with rfl | hkv
        · exact ⟨fun _ => ⟨sc.n + 1, Nat.le_refl _, rfl⟩, old_jsname hv (Or.inl rfl) (Nat.le_refl _)⟩
        · cases hkv
  · exact ⟨(h.2 f hf kv hkv).1.mono (Nat.le_succ _), (h.2 f hf kv hkv).2.mono (Nat.le_succ _)⟩

theorem scOk_pushForRange {sc : Scope} (h : ScOk sc) (v : Bytes) (hv : v.contains 36 = false) :
    ScOk (sc.pushForRange v).2 ∧ (sc.pushForRange v).2.stack.tail = sc.stack ∧ (sc.pushForRange v).2.n = sc.n + 1 := by
  refine ⟨⟨by simp [Scope.pushForRange], ?_⟩, by simp [Scope.pushForRange], rfl⟩
  intro f hf kv hkv
  simp only [Scope.pushForRange, List.mem_cons] at hf
  rcases hf with rfl | hf
  · rcases frameSet_mem _ _ _ kv hkv with rfl | hkv
    · exact ⟨fun hk => by simp [Scope.kVar] at hk, old_jsname hv (Or.inl rfl) (Nat.le_refl _)⟩
    · rcases frameSet_mem _ _ _ kv hkv with rfl | hkv
      · exact ⟨fun hk => by simp [Scope.kIndex] at hk, old_jsname hv (Or.inr (Or.inr (Or.inr (Or.inl rfl)))) (Nat.le_refl _)⟩
      · rcases frameSet_mem _ _ _ kv hkv with rfl | hkv
        · exact ⟨fun hk => by simp [Scope.kStep] at hk, old_jsname hv (Or.inr (Or.inr (Or.inr (Or.inr rfl)))) (Nat.le_refl _)⟩
        · rcases frameSet_mem _ _ _ kv hkv with rfl | hkv
          · exact ⟨fun hk => by simp [Scope.kLimit] at hk, old_jsname hv (Or.inr (Or.inr (Or.inl rfl))) (Nat.le_refl _)⟩
          · rcases frameSet_mem _ _ _ kv hkv with rfl | hkv
            · exact ⟨fun _ => ⟨sc.n + 1, Nat.le_refl _, rfl⟩, old_jsname hv (Or.inl rfl) (Nat.le_refl _)⟩
            · cases hkv
  · exact ⟨(h.2 f hf kv hkv).1.mono (Nat.le_succ _), (h.2 f hf kv hkv).2.mono (Nat.le_succ _)⟩

theorem scOk_of_stack {sc sc' : Scope} (h : ScOk sc) (hs : sc'.stack = sc.stack) (hn : sc.n ≤ sc'.n) : ScOk sc' :=
  ⟨by rw [hs]; exact h.1, bounded_of_stack h.2 hs hn⟩

theorem scOk_bind {sc : Scope} (h : ScOk sc) (x : Bytes) (hx : x.contains 36 = false) (m : Nat) (hm : m ≤ sc.n) :
    ScOk (sc.bind x (Scope.jsname x [] m)) ∧ (sc.bind x (Scope.jsname x [] m)).stack.tail = sc.stack.tail ∧
      (sc.bind x (Scope.jsname x [] m)).n = sc.n := by
  obtain ⟨hne, hb⟩ := h
  cases hst : sc.stack with
  | nil => exact absurd hst hne
  | cons f st =>
    refine ⟨⟨by simp [Scope.bind, Scope.setTop, hst], ?_⟩, by simp [Scope.bind, Scope.setTop, hst], rfl⟩
    intro f' hf' kv hkv
    simp only [Scope.bind, Scope.setTop, hst, List.mem_cons] at hf'
    rcases hf' with rfl | hf'
    · rcases frameSet_mem f x _ kv hkv with rfl | hm'
      · exact ⟨fun _ => ⟨m, hm, rfl⟩, old_jsname hx (Or.inl rfl) hm⟩
      · exact hb f (by simp [hst]) kv hm'
    · exact hb f' (by simp [hst, hf']) kv hkv

/-! ### the output buffer: not a local of the scope, not a name still to be generated -/

def Fresh (sc : Scope) (g : Bytes) : Prop := ∀ f ∈ sc.stack, ∀ kv ∈ f, kv.2 ≠ g

def GoodBuf (sc : Scope) (buf : Bytes) : Prop := Old sc.n buf ∧ Fresh sc buf

theorem fresh_new {sc : Scope} (h : Bounded sc) {x u : Bytes} {m : Nat} (hx : x.contains 36 = false) (hu : IsUse u)
    (hm : sc.n < m) : Fresh sc (Scope.jsname x u m) :=
  fun f hf kv hkv => (h f hf kv hkv).2 x u m hx hu hm

theorem goodBuf_of_stack {sc sc' : Scope} {g : Bytes} (h : GoodBuf sc g) (hs : sc'.stack = sc.stack) (hn : sc.n ≤ sc'.n) :
    GoodBuf sc' g :=
  ⟨h.1.mono hn, fun f hf kv hkv => h.2 f (by rw [← hs]; exact hf) kv hkv⟩

theorem goodBuf_push {sc : Scope} {g : Bytes} (h : GoodBuf sc g) : GoodBuf sc.push g := by
  refine ⟨h.1, ?_⟩
  intro f hf kv hkv
  simp only [Scope.push, List.mem_cons] at hf
  rcases hf with rfl | hf
  · cases hkv
  · exact h.2 f hf kv hkv

theorem goodBuf_plain (n : Nat) (g : Bytes) (hg : g.contains 36 = false) : GoodBuf ⟨[[]], n⟩ g := by
  refine ⟨old_plain n hg, ?_⟩
  intro f hf kv hkv
  simp only [List.mem_singleton] at hf
  subst hf
  cases hkv

theorem goodBuf_setTop {sc : Scope} {g x val : Bytes} (h : GoodBuf sc g) (hne : val ≠ g) (n' : Nat) (hn : sc.n ≤ n') :
    GoodBuf ⟨Scope.setTop sc.stack x val, n'⟩ g := by
  refine ⟨h.1.mono hn, ?_⟩
  intro f hf kv hkv
  cases hst : sc.stack with
  | nil => simp [hst, Scope.setTop] at hf
  | cons f0 st =>
    simp only [hst, Scope.setTop, List.mem_cons] at hf
    rcases hf with rfl | hf
    · rcases frameSet_mem f0 x val kv hkv with rfl | hm
      · exact hne
      · exact h.2 f0 (by simp [hst]) kv hm
    · exact h.2 f (by simp [hst, hf]) kv hkv

theorem goodBuf_makevar {sc : Scope} {g : Bytes} (h : GoodBuf sc g) (x : Bytes) (hx : x.contains 36 = false) :
    GoodBuf (sc.makevar x).2 g :=
  goodBuf_setTop h (fun e => h.1 x [] (sc.n + 1) hx (Or.inl rfl) (Nat.lt_succ_self _) e.symm) _ (Nat.le_succ _)

theorem goodBuf_pushFrame {sc : Scope} {g : Bytes} (h : GoodBuf sc g) (f0 : Frame) (hf0 : ∀ kv ∈ f0, kv.2 ≠ g) :
    GoodBuf ⟨f0 :: sc.stack, sc.n + 1⟩ g := by
  refine ⟨h.1.mono (Nat.le_succ _), ?_⟩
  intro f hf kv hkv
  simp only [List.mem_cons] at hf
  rcases hf with rfl | hf
  · exact hf0 kv hkv
  · exact h.2 f hf kv hkv

theorem goodBuf_pushForEach {sc : Scope} {g : Bytes} (h : GoodBuf sc g) (v : Bytes) (hv : v.contains 36 = false) :
    GoodBuf (sc.pushForEach v).2 g := by
  have hn : ∀ u, IsUse u → Scope.jsname v u (sc.n + 1) ≠ g := fun u hu e => h.1 v u (sc.n + 1) hv hu (Nat.lt_succ_self _) e.symm
  refine goodBuf_pushFrame h _ ?_
  intro kv hkv
  rcases frameSet_mem _ _ _ kv hkv with rfl | hkv
  · exact hn _ (Or.inr (Or.inr (Or.inr (Or.inl rfl))))
  · rcases frameSet_mem _ _ _ kv hkv with rfl | hkv
    · exact hn _ (Or.inr (Or.inr (Or.inl rfl)))
    · rcases frameSet_mem _ _ _ kv hkv with rfl | hkv
      · exact hn _ (Or.inl rfl)
      · cases hkv

theorem goodBuf_pushForRange {sc : Scope} {g : Bytes} (h : GoodBuf sc g) (v : Bytes) (hv : v.contains 36 = false) :
    GoodBuf (sc.pushForRange v).2 g := by
  have hn : ∀ u, IsUse u → Scope.jsname v u (sc.n + 1) ≠ g := fun u hu e => h.1 v u (sc.n + 1) hv hu (Nat.lt_succ_self _) e.symm
  refine goodBuf_pushFrame h _ ?_
  intro kv hkv
  rcases frameSet_mem _ _ _ kv hkv with rfl | hkv
  · exact hn _ (Or.inl rfl)
  · rcases frameSet_mem _ _ _ kv hkv with rfl | hkv
    · exact hn _ (Or.inr (Or.inr (Or.inr (Or.inl rfl))))
    · rcases frameSet_mem _ _ _ kv hkv with rfl | hkv
      · exact hn _ (Or.inr (Or.inr (Or.inr (Or.inr rfl))))
      · rcases frameSet_mem _ _ _ kv hkv with rfl | hkv
        · exact hn _ (Or.inr (Or.inr (Or.inl rfl)))
        · rcases frameSet_mem _ _ _ kv hkv with rfl | hkv
          · exact hn _ (Or.inl rfl)
          · cases hkv

/-! ### what the translation does to the scope -/

section
variable (ae : Autoescape)

mutual
  theorem toCmd_scope : ∀ (c : Cmd) (buf : Bytes) (sc : Scope) (r : JsStmts × Scope), toCmd ae buf c sc = some r → ScOk sc →
      ScOk r.2 ∧ r.2.stack.tail = sc.stack.tail ∧ sc.n ≤ r.2.n
    | .rawText p t, buf, sc, r, h, hs => by
      simp only [toCmd, Option.some.injEq] at h; subst h
      exact ⟨hs, rfl, Nat.le_refl _⟩
    | .print p arg dirs, buf, sc, r, h, hs => by
      unfold toCmd at h
      split at h
      · split at h
        · simp only [Option.some.injEq] at h; subst h
          exact ⟨hs, rfl, Nat.le_refl _⟩
        · cases h
      · cases h
    | .letValue p x e, buf, sc, r, h, hs => by
      unfold toCmd at h
      split at h
      · cases h
      · split at h
        · simp only [Option.some.injEq] at h; subst h
          rename_i hxd _ j hj
          obtain ⟨h1, h2, h3⟩ := scOk_makevar hs x (by simpa using hxd)
          exact ⟨h1, h2, by simp only [h3]; omega⟩
        · cases h
    | .ifc p conds, buf, sc, r, h, hs => by
      unfold toCmd at h
      split at h
      · rename_i rc hrc
        simp only [Option.some.injEq] at h; subst h
        obtain ⟨h1, h2⟩ := toConds_scope conds buf sc rc hrc hs
        exact ⟨⟨by rw [h1]; exact hs.1, bounded_of_stack hs.2 h1 h2⟩, by simp only [h1], h2⟩
      · cases h
    | .msg p id m d bp body, buf, sc, r, h, hs => by
      unfold toCmd at h
      obtain ⟨rb, hrb, rfl⟩ := msgJoin_some h
      obtain ⟨_, b2, b3⟩ := toParts_scope body buf sc.push rb hrb (scOk_push hs.2)
      have hst : rb.2.pop.stack = sc.stack := by simp only [Scope.pop]; rw [b2]; rfl
      have hn : sc.n ≤ rb.2.pop.n := b3
      exact ⟨scOk_of_stack hs hst hn, by rw [hst], hn⟩
    | .css p none suffix, buf, sc, r, h, hs => by
      simp only [toCmd, Option.some.injEq] at h; subst h
      exact ⟨hs, rfl, Nat.le_refl _⟩
    | .css p (some e) suffix, buf, sc, r, h, hs => by
      simp only [toCmd] at h
      split at h
      · simp only [Option.some.injEq] at h; subst h
        exact ⟨hs, rfl, Nat.le_refl _⟩
      · cases h
    | .debugger p, buf, sc, r, h, hs => by
      simp only [toCmd, Option.some.injEq] at h; subst h
      exact ⟨hs, rfl, Nat.le_refl _⟩
    | .log .., _, _, _, h, _ => by simp [toCmd] at h
    | .forc p v list body none, buf, sc, r, h, hs => by
      unfold toCmd at h
      rcases loopJoin_some h with h | h
      · obtain ⟨hv, _, j, rbv, _, hrb, he⟩ := forcJoin_some h
        simp only at he
        subst he
        obtain ⟨p1, p2, p3⟩ := scOk_pushForEach hs v hv
        obtain ⟨_, b2, b3⟩ := toBody_scope body buf _ rbv hrb p1
        have hst : rbv.2.pop.stack = sc.stack := by simp only [Scope.pop]; rw [b2, p2]
        have hn : sc.n ≤ rbv.2.pop.n := by simp only [Scope.pop]; omega
        exact ⟨scOk_of_stack hs hst hn, by rw [hst], hn⟩
      · obtain ⟨hv, _, args, l, c, jl, ji, rbv, pc, _, _, _, _, _, _, hrb, rfl⟩ := rangeJoin_some h
        obtain ⟨p1, p2, p3⟩ := scOk_pushForRange hs v hv
        obtain ⟨_, b2, b3⟩ := toBody_scope body buf _ rbv hrb p1
        have hst : rbv.2.pop.stack = sc.stack := by simp only [Scope.pop]; rw [b2, p2]
        have hn : sc.n ≤ rbv.2.pop.n := by simp only [Scope.pop]; omega
        exact ⟨scOk_of_stack hs hst hn, by rw [hst], hn⟩
    | .forc p v list body (some ie), buf, sc, r, h, hs => by
      unfold toCmd at h
      rcases loopJoin_ie_some h with h | ⟨r0, re, hr0, hre, rfl⟩
      · obtain ⟨hv, _, j, rbv, _, hrb, he⟩ := forcJoin_some h
        simp only at he
        obtain ⟨re, hre, rfl⟩ := he
        obtain ⟨p1, p2, p3⟩ := scOk_pushForEach hs v hv
        obtain ⟨_, b2, b3⟩ := toBody_scope body buf _ rbv hrb p1
        have hst : rbv.2.pop.stack = sc.stack := by simp only [Scope.pop]; rw [b2, p2]
        have hn : sc.n ≤ rbv.2.pop.n := by simp only [Scope.pop]; omega
        obtain ⟨c1, c2⟩ := toBlock_scope ie buf _ re hre (scOk_of_stack hs hst hn)
        exact ⟨scOk_of_stack hs (c1.trans hst) (Nat.le_trans hn c2), by simp only [c1, hst], Nat.le_trans hn c2⟩
      · obtain ⟨hv, _, args, l, c, jl, ji, rbv, pc, _, _, _, _, _, _, hrb, rfl⟩ := rangeJoin_some hr0
        obtain ⟨p1, p2, p3⟩ := scOk_pushForRange hs v hv
        obtain ⟨_, b2, b3⟩ := toBody_scope body buf _ rbv hrb p1
        have hst : rbv.2.pop.stack = sc.stack := by simp only [Scope.pop]; rw [b2, p2]
        have hn : sc.n ≤ rbv.2.pop.n := by simp only [Scope.pop]; omega
        obtain ⟨c1, c2⟩ := toBlock_scope ie buf _ re hre (scOk_of_stack hs hst hn)
        exact ⟨scOk_of_stack hs (c1.trans hst) (Nat.le_trans hn c2), by simp only [c1, hst], Nat.le_trans hn c2⟩
    | .switch p value cases, buf, sc, r, h, hs => by
      unfold toCmd at h
      split at h
      · rename_i j rc hj hrc
        simp only [Option.some.injEq] at h; subst h
        obtain ⟨h1, h2⟩ := toCases_scope cases buf sc rc hrc hs
        exact ⟨scOk_of_stack hs h1 h2, by simp only [h1], h2⟩
      · cases h
    | .call p name allData data params, buf, sc, r, h, hs => by
      unfold toCmd at h
      obtain ⟨b, rp, _, hrp, rfl⟩ := callJoin_some h
      obtain ⟨a1, a2⟩ := toParams_scope params sc rp hrp hs
      exact ⟨scOk_of_stack hs a1 a2, by simp only [a1], a2⟩
    | .letContent p name body, buf, sc, r, h, hs => by
      unfold toCmd at h
      obtain ⟨hname, rbv, hrb, rfl⟩ := letJoin_some h
      have hs' : ScOk (sc.genname name).2 := scOk_of_stack hs rfl (Nat.le_succ _)
      obtain ⟨a1, a2⟩ := toBlock_scope body _ _ rbv hrb hs'
      have a2' : sc.n + 1 ≤ rbv.2.n := a2
      obtain ⟨b1, b2, b3⟩ := scOk_bind (scOk_of_stack hs' a1 a2) name hname (sc.n + 1) a2'
      exact ⟨b1, b2.trans (by rw [a1]; rfl), Nat.le_trans (Nat.le_succ _) a2'⟩
    | .headerParam .., _, _, _, h, _ => by simp [toCmd] at h
    | .namespace .., _, _, _, h, _ => by simp [toCmd] at h
    | .template .., _, _, _, h, _ => by simp [toCmd] at h
    | .soyDoc .., _, _, _, h, _ => by simp [toCmd] at h
  theorem toParams_scope : ∀ (ps : ParamList) (sc : Scope) (r : JsStmts × List (Bytes × JsExpr) × Scope),
      toParams ae ps sc = some r → ScOk sc → r.2.2.stack = sc.stack ∧ sc.n ≤ r.2.2.n
    | .nil, sc, r, h, hs => by
      simp only [toParams, Option.some.injEq] at h; subst h
      exact ⟨rfl, Nat.le_refl _⟩
    | .value p key e rest, sc, r, h, hs => by
      unfold toParams at h
      obtain ⟨j, rr, _, hrr, hr⟩ := valueParamJoin_some h rfl
      simp only [Option.some.injEq] at hr; subst hr
      exact toParams_scope rest sc rr hrr hs
    | .content p key body rest, sc, r, h, hs => by
      unfold toParams at h
      obtain ⟨rb, rr, hrb, hrr, rfl⟩ := contentParamJoin_some h
      have hs' : ScOk (sc.genname b!"param").2 := scOk_of_stack hs rfl (Nat.le_succ _)
      obtain ⟨a1, a2⟩ := toBlock_scope body _ _ rb hrb hs'
      have a2' : sc.n + 1 ≤ rb.2.n := a2
      obtain ⟨b1, b2⟩ := toParams_scope rest rb.2 rr hrr (scOk_of_stack hs' a1 a2)
      exact ⟨b1.trans a1, Nat.le_trans (Nat.le_succ _) (Nat.le_trans a2' b2)⟩
  theorem toParts_scope : ∀ (ps : MsgParts) (buf : Bytes) (sc : Scope) (r : JsStmts × Scope), toParts ae buf ps sc = some r → ScOk sc →
      ScOk r.2 ∧ r.2.stack.tail = sc.stack.tail ∧ sc.n ≤ r.2.n
    | .nil, buf, sc, r, h, hs => by
      simp only [toParts, Option.some.injEq] at h; subst h
      exact ⟨hs, rfl, Nat.le_refl _⟩
    | .text p t rest, buf, sc, r, h, hs => by
      unfold toParts at h
      obtain ⟨a, b, ha, hb, rfl⟩ := phJoin_some h
      simp only [Option.some.injEq] at ha; subst ha
      exact toParts_scope rest buf sc b hb hs
    | .ph p name body rest, buf, sc, r, h, hs => by
      unfold toParts at h
      obtain ⟨a, b, ha, hb, rfl⟩ := phJoin_some h
      obtain ⟨a1, a2, a3⟩ := toPh_scope body buf sc a ha hs
      obtain ⟨b1, b2, b3⟩ := toParts_scope rest buf a.2 b hb a1
      exact ⟨b1, b2.trans a2, Nat.le_trans a3 b3⟩
    | .plural p vn value cases dp dflt rest, buf, sc, r, h, hs => by
      unfold toParts at h
      obtain ⟨j, rc, rd, rr, _, hrc, hrd, hst, hrr, rfl⟩ := pluralJoin_some h
      obtain ⟨c1, c2, c3⟩ := toPCases_scope cases buf sc rc hrc hs
      obtain ⟨d1, _, d3⟩ := toParts_scope dflt buf rc.2 rd hrd c1
      obtain ⟨e1, e2, e3⟩ := toParts_scope rest buf rd.2 rr hrr d1
      exact ⟨e1, by rw [e2, hst], Nat.le_trans c3 (Nat.le_trans d3 e3)⟩
  theorem toPCases_scope : ∀ (cs : PluralCases) (buf : Bytes) (sc : Scope) (r : JsPlural × Scope), toPCases ae buf cs sc = some r →
      ScOk sc → ScOk r.2 ∧ r.2.stack = sc.stack ∧ sc.n ≤ r.2.n
    | .nil, buf, sc, r, h, hs => by
      simp only [toPCases, Option.some.injEq] at h; subst h
      exact ⟨hs, rfl, Nat.le_refl _⟩
    | .cons p v bp body rest, buf, sc, r, h, hs => by
      unfold toPCases at h
      obtain ⟨rb, rr, hrb, hst, hrr, rfl⟩ := pcaseJoin_some h
      obtain ⟨a1, _, a3⟩ := toParts_scope body buf sc rb hrb hs
      obtain ⟨b1, b2, b3⟩ := toPCases_scope rest buf rb.2 rr hrr a1
      exact ⟨b1, b2.trans hst, Nat.le_trans a3 b3⟩
  theorem toPh_scope : ∀ (b : MsgPhBody) (buf : Bytes) (sc : Scope) (r : JsStmts × Scope), toPh ae buf b sc = some r → ScOk sc →
      ScOk r.2 ∧ r.2.stack.tail = sc.stack.tail ∧ sc.n ≤ r.2.n
    | .htmlTag p t, buf, sc, r, h, hs => by
      simp only [toPh, Option.some.injEq] at h; subst h
      exact ⟨hs, rfl, Nat.le_refl _⟩
    | .cmd c, buf, sc, r, h, hs => by
      unfold toPh at h
      exact toCmd_scope c buf sc r h hs
  theorem toCases_scope : ∀ (cs : CaseList) (buf : Bytes) (sc : Scope) (r : JsCases × Scope), toCases ae buf cs sc = some r → ScOk sc →
      r.2.stack = sc.stack ∧ sc.n ≤ r.2.n
    | .nil, buf, sc, r, h, hs => by
      simp only [toCases, Option.some.injEq] at h; subst h
      exact ⟨rfl, Nat.le_refl _⟩
    | .cons p values body rest, buf, sc, r, h, hs => by
      unfold toCases at h
      obtain ⟨rbv, hrb, hc⟩ := caseJoin_some h
      obtain ⟨a1, a2⟩ := toBlock_scope body buf sc rbv hrb hs
      rcases hc with ⟨_, _, rfl⟩ | ⟨_, js, rr, _, hrr, rfl⟩
      · exact ⟨a1, a2⟩
      · obtain ⟨b1, b2⟩ := toCases_scope rest buf rbv.2 rr hrr (scOk_of_stack hs a1 a2)
        exact ⟨b1.trans a1, Nat.le_trans a2 b2⟩
  theorem toBody_scope : ∀ (b : Block) (buf : Bytes) (sc : Scope) (r : JsStmts × Scope), toBody ae buf b sc = some r → ScOk sc →
      ScOk r.2 ∧ r.2.stack.tail = sc.stack.tail ∧ sc.n ≤ r.2.n
    | .mk p cmds, buf, sc, r, h, hs => by
      unfold toBody at h
      exact toCmds_scope cmds buf sc r h hs
  /-- a block leaves the stack as it found it; only the counter moves -/
  theorem toBlock_scope : ∀ (b : Block) (buf : Bytes) (sc : Scope) (r : JsStmts × Scope), toBlock ae buf b sc = some r → ScOk sc →
      r.2.stack = sc.stack ∧ sc.n ≤ r.2.n
    | .mk p cmds, buf, sc, r, h, hs => by
      unfold toBlock at h
      split at h
      · rename_i rc hrc
        simp only [Option.some.injEq] at h; subst h
        obtain ⟨_, h2, h3⟩ := toCmds_scope cmds buf sc.push rc hrc (scOk_push hs.2)
        exact ⟨by simpa [Scope.pop, Scope.push] using h2, by simpa [Scope.pop, Scope.push] using h3⟩
      · cases h
  theorem toCmds_scope : ∀ (cs : CmdList) (buf : Bytes) (sc : Scope) (r : JsStmts × Scope), toCmds ae buf cs sc = some r → ScOk sc →
      ScOk r.2 ∧ r.2.stack.tail = sc.stack.tail ∧ sc.n ≤ r.2.n
    | .nil, buf, sc, r, h, hs => by
      simp only [toCmds, Option.some.injEq] at h; subst h
      exact ⟨hs, rfl, Nat.le_refl _⟩
    | .cons c rest, buf, sc, r, h, hs => by
      unfold toCmds at h
      split at h
      · cases h
      · rename_i r1 h1
        split at h
        · cases h
        · rename_i r2 h2
          simp only [Option.some.injEq] at h; subst h
          obtain ⟨a1, a2, a3⟩ := toCmd_scope c buf sc r1 h1 hs
          obtain ⟨b1, b2, b3⟩ := toCmds_scope rest buf r1.2 r2 h2 a1
          exact ⟨b1, b2.trans a2, Nat.le_trans a3 b3⟩
  theorem toConds_scope : ∀ (cs : CondList) (buf : Bytes) (sc : Scope) (r : JsConds × Scope), toConds ae buf cs sc = some r → ScOk sc →
      r.2.stack = sc.stack ∧ sc.n ≤ r.2.n
    | .nil, buf, sc, r, h, hs => by
      simp only [toConds, Option.some.injEq] at h; subst h
      exact ⟨rfl, Nat.le_refl _⟩
    | .cons p (some c) body rest, buf, sc, r, h, hs => by
      unfold toConds at h
      simp only at h
      split at h
      · rename_i j rb hj hb
        split at h
        · rename_i rr hr
          simp only [Option.some.injEq] at h; subst h
          obtain ⟨a1, a2⟩ := toBlock_scope body buf sc rb hb hs
          have hs1 : ScOk rb.2 := ⟨by rw [a1]; exact hs.1, bounded_of_stack hs.2 a1 a2⟩
          obtain ⟨b1, b2⟩ := toConds_scope rest buf rb.2 rr hr hs1
          exact ⟨b1.trans a1, Nat.le_trans a2 b2⟩
        · cases h
      · cases h
    | .cons p none body rest, buf, sc, r, h, hs => by
      unfold toConds at h
      simp only at h
      split at h
      · rename_i rb hb
        simp only [Option.some.injEq] at h; subst h
        exact toBlock_scope body buf sc rb hb hs
      · cases h
end

end

section
variable (ae : Autoescape)

mutual
  /-- a buffer that is good for the scope stays good along the translation -/
  theorem toCmd_good : ∀ (c : Cmd) (buf : Bytes) (sc : Scope) (r : JsStmts × Scope), toCmd ae buf c sc = some r → ScOk sc →
      ∀ g, GoodBuf sc g → GoodBuf r.2 g
    | .rawText p t, buf, sc, r, h, hs, g, hg => by
      simp only [toCmd, Option.some.injEq] at h; subst h; exact hg
    | .print p arg dirs, buf, sc, r, h, hs, g, hg => by
      unfold toCmd at h
      split at h
      · split at h
        · simp only [Option.some.injEq] at h; subst h; exact hg
        · cases h
      · cases h
    | .letValue p x e, buf, sc, r, h, hs, g, hg => by
      unfold toCmd at h
      split at h
      · cases h
      · rename_i hxd
        split at h
        · simp only [Option.some.injEq] at h; subst h
          exact goodBuf_makevar hg x (by simpa using hxd)
        · cases h
    | .ifc p conds, buf, sc, r, h, hs, g, hg => by
      have := toCmd_scope ae (.ifc p conds) buf sc r h hs
      unfold toCmd at h
      split at h
      · rename_i rc hrc
        simp only [Option.some.injEq] at h; subst h
        obtain ⟨h1, h2⟩ := toConds_scope ae conds buf sc rc hrc hs
        exact goodBuf_of_stack hg h1 h2
      · cases h
    | .switch p value cases, buf, sc, r, h, hs, g, hg => by
      unfold toCmd at h
      split at h
      · rename_i j rc hj hrc
        simp only [Option.some.injEq] at h; subst h
        obtain ⟨h1, h2⟩ := toCases_scope ae cases buf sc rc hrc hs
        exact goodBuf_of_stack hg h1 h2
      · cases h
    | .forc p v list body ie, buf, sc, r, h, hs, g, hg => by
      -- a loop restores the stack
      have hsc := toCmd_scope ae (.forc p v list body ie) buf sc r h hs
      unfold toCmd at h
      have hst : r.2.stack = sc.stack := by
        cases ie with
        | none =>
          rcases loopJoin_some h with h | h
          · obtain ⟨hv, _, j, rbv, _, hrb, he⟩ := forcJoin_some h
            obtain ⟨p1, p2, _⟩ := scOk_pushForEach hs v hv
            obtain ⟨_, b2, _⟩ := toBody_scope ae body buf _ rbv hrb p1
            have hst : rbv.2.pop.stack = sc.stack := by simp only [Scope.pop]; rw [b2, p2]
            simp only at he; subst he; exact hst
          · obtain ⟨hv, _, args, l, c, jl, ji, rbv, pc, _, _, _, _, _, _, hrb, rfl⟩ := rangeJoin_some h
            obtain ⟨p1, p2, _⟩ := scOk_pushForRange hs v hv
            obtain ⟨_, b2, _⟩ := toBody_scope ae body buf _ rbv hrb p1
            simp only [Scope.pop]; rw [b2, p2]
        | some b =>
          rcases loopJoin_ie_some h with h | ⟨r0, re, hr0, hre, rfl⟩
          · obtain ⟨hv, _, j, rbv, _, hrb, he⟩ := forcJoin_some h
            obtain ⟨p1, p2, p3⟩ := scOk_pushForEach hs v hv
            obtain ⟨_, b2, b3⟩ := toBody_scope ae body buf _ rbv hrb p1
            have hst : rbv.2.pop.stack = sc.stack := by simp only [Scope.pop]; rw [b2, p2]
            simp only at he
            obtain ⟨re, hre, rfl⟩ := he
            have hn : sc.n ≤ rbv.2.pop.n := by simp only [Scope.pop]; omega
            obtain ⟨c1, _⟩ := toBlock_scope ae b buf _ re hre (scOk_of_stack hs hst hn)
            exact c1.trans hst
          · obtain ⟨hv, _, args, l, c, jl, ji, rbv, pc, _, _, _, _, _, _, hrb, rfl⟩ := rangeJoin_some hr0
            obtain ⟨p1, p2, p3⟩ := scOk_pushForRange hs v hv
            obtain ⟨_, b2, b3⟩ := toBody_scope ae body buf _ rbv hrb p1
            have hst : rbv.2.pop.stack = sc.stack := by simp only [Scope.pop]; rw [b2, p2]
            have hn : sc.n ≤ rbv.2.pop.n := by simp only [Scope.pop]; omega
            obtain ⟨c1, _⟩ := toBlock_scope ae b buf _ re hre (scOk_of_stack hs hst hn)
            exact c1.trans hst
      exact goodBuf_of_stack hg hst hsc.2.2
    | .letContent p name body, buf, sc, r, h, hs, g, hg => by
      unfold toCmd at h
      obtain ⟨hname, rbv, hrb, rfl⟩ := letJoin_some h
      have hs' : ScOk (sc.genname name).2 := scOk_of_stack hs rfl (Nat.le_succ _)
      obtain ⟨a1, a2⟩ := toBlock_scope ae body _ _ rbv hrb hs'
      have a2' : sc.n ≤ rbv.2.n := Nat.le_trans (Nat.le_succ _) a2
      have hg' : GoodBuf rbv.2 g := goodBuf_of_stack hg a1 a2'
      exact goodBuf_setTop hg' (fun e => hg.1 name [] (sc.n + 1) hname (Or.inl rfl) (Nat.lt_succ_self _) e.symm) _ (Nat.le_refl _)
    | .msg p id m d bp body, buf, sc, r, h, hs, g, hg => by
      have hsc := toCmd_scope ae (.msg p id m d bp body) buf sc r h hs
      unfold toCmd at h
      obtain ⟨rb, hrb, rfl⟩ := msgJoin_some h
      obtain ⟨_, b2, _⟩ := toParts_scope ae body buf sc.push rb hrb (scOk_push hs.2)
      have hst : rb.2.pop.stack = sc.stack := by simp only [Scope.pop]; rw [b2]; rfl
      exact goodBuf_of_stack hg hst hsc.2.2
    | .css p none suffix, buf, sc, r, h, hs, g, hg => by
      simp only [toCmd, Option.some.injEq] at h; subst h; exact hg
    | .css p (some e) suffix, buf, sc, r, h, hs, g, hg => by
      simp only [toCmd] at h
      split at h
      · simp only [Option.some.injEq] at h; subst h; exact hg
      · cases h
    | .debugger p, buf, sc, r, h, hs, g, hg => by
      simp only [toCmd, Option.some.injEq] at h; subst h; exact hg
    | .log .., _, _, _, h, _, _, _ => by simp [toCmd] at h
    | .call p name allData data params, buf, sc, r, h, hs, g, hg => by
      unfold toCmd at h
      obtain ⟨b, rp, _, hrp, rfl⟩ := callJoin_some h
      obtain ⟨a1, a2⟩ := toParams_scope ae params sc rp hrp hs
      exact goodBuf_of_stack hg a1 a2
    | .headerParam .., _, _, _, h, _, _, _ => by simp [toCmd] at h
    | .namespace .., _, _, _, h, _, _, _ => by simp [toCmd] at h
    | .template .., _, _, _, h, _, _, _ => by simp [toCmd] at h
    | .soyDoc .., _, _, _, h, _, _, _ => by simp [toCmd] at h
  theorem toCmds_good : ∀ (cs : CmdList) (buf : Bytes) (sc : Scope) (r : JsStmts × Scope), toCmds ae buf cs sc = some r → ScOk sc →
      ∀ g, GoodBuf sc g → GoodBuf r.2 g
    | .nil, buf, sc, r, h, hs, g, hg => by
      simp only [toCmds, Option.some.injEq] at h; subst h; exact hg
    | .cons c rest, buf, sc, r, h, hs, g, hg => by
      unfold toCmds at h
      split at h
      · cases h
      · rename_i r1 h1
        split at h
        · cases h
        · rename_i r2 h2
          simp only [Option.some.injEq] at h; subst h
          obtain ⟨a1, _, _⟩ := toCmd_scope ae c buf sc r1 h1 hs
          exact toCmds_good rest buf r1.2 r2 h2 a1 g (toCmd_good c buf sc r1 h1 hs g hg)
end

theorem toPh_good (b : MsgPhBody) (buf : Bytes) (sc : Scope) (r : JsStmts × Scope) (h : toPh ae buf b sc = some r) (hs : ScOk sc)
    (g : Bytes) (hg : GoodBuf sc g) : GoodBuf r.2 g := by
  cases b with
  | htmlTag p t => simp only [toPh, Option.some.injEq] at h; subst h; exact hg
  | cmd c => unfold toPh at h; exact toCmd_good ae c buf sc r h hs g hg

theorem toBody_good (b : Block) (buf : Bytes) (sc : Scope) (r : JsStmts × Scope) (h : toBody ae buf b sc = some r) (hs : ScOk sc)
    (g : Bytes) (hg : GoodBuf sc g) : GoodBuf r.2 g := by
  cases b with
  | mk p cmds =>
    unfold toBody at h
    exact toCmds_good ae cmds buf sc r h hs g hg

end

/-! ### the JavaScript environment along a run -/

/-- the output variable holds the text `out` -/
def BufIs (buf : Bytes) (jenv : JEnv) (out : Bytes) : Prop :=
  jenv.locals.find? (·.1 == buf) = some (buf, .str out)

/-- from `a` to `b` only the output variable and locals generated after the counter was `lo` changed -/
def Keeps (buf : Bytes) (lo : Nat) (a b : JEnv) : Prop :=
  b.optData = a.optData ∧ b.ijData = a.ijData ∧
  ∀ g, g ≠ buf → Old lo g → b.locals.find? (·.1 == g) = a.locals.find? (·.1 == g)

theorem Keeps.refl (buf : Bytes) (lo : Nat) (a : JEnv) : Keeps buf lo a a := ⟨rfl, rfl, fun _ _ _ => rfl⟩

theorem Keeps.trans {buf : Bytes} {lo lo' : Nat} {a b c : JEnv} (h1 : Keeps buf lo a b) (h2 : Keeps buf lo' b c)
    (hl : lo ≤ lo') : Keeps buf lo a c := by
  refine ⟨h2.1.trans h1.1, h2.2.1.trans h1.2.1, ?_⟩
  intro g hg hn
  rw [h2.2.2 g hg (hn.mono hl), h1.2.2 g hg hn]

theorem Keeps.mono {buf : Bytes} {lo lo' : Nat} {a b : JEnv} (h : Keeps buf lo' a b) (hl : lo ≤ lo') : Keeps buf lo a b :=
  (Keeps.refl buf lo a).trans h hl

theorem find_setLocal_ne (jenv : JEnv) (x g : Bytes) (v : JVal) (h : g ≠ x) :
    (setLocal jenv x v).locals.find? (·.1 == g) = jenv.locals.find? (·.1 == g) := by
  have : (x == g) = false := by simpa using fun e : x = g => h e.symm
  simp [setLocal, List.find?_cons, this]

theorem keeps_setBuf (buf : Bytes) (lo : Nat) (jenv : JEnv) (v : JVal) : Keeps buf lo jenv (setLocal jenv buf v) :=
  ⟨rfl, rfl, fun g hg _ => find_setLocal_ne jenv buf g v hg⟩

theorem bufIs_setBuf (buf : Bytes) (jenv : JEnv) (t : Bytes) : BufIs buf (setLocal jenv buf (.str t)) t := by
  simp [BufIs, setLocal]

/-! ### the loops part of the relation -/

open SoyVerif.Props.C04c (VarRel LoopRel FrameRel)

theorem localNum_congr {a b : JEnv} {x : Bytes} (h : b.locals.find? (·.1 == x) = a.locals.find? (·.1 == x)) :
    localNum b x = localNum a x := by
  simp only [localNum, h]

/-- a loop's state only looks at the `$`-keys of its frame and at the locals they name -/
theorem frameRel_congr {f f' : Frame} {v : Bytes} {i last : Nat} {jenv jenv' : JEnv}
    (hget : ∀ k, k.contains 36 = true → frameGet? f' k = frameGet? f k)
    (hloc : ∀ k x, frameGet? f k = some x → localNum jenv' x = localNum jenv x)
    (h : FrameRel f v i last jenv) : FrameRel f' v i last jenv' := by
  obtain ⟨hex, hix, hlast⟩ := h
  have gI := hget _ (SoyVerif.Lemmas.JsGenSpec.kIndex_dollar v)
  have gL := hget _ (SoyVerif.Lemmas.JsGenSpec.kLimit_dollar v)
  have gS := hget _ (SoyVerif.Lemmas.JsGenSpec.kStep_dollar v)
  have gV := hget _ (SoyVerif.Lemmas.JsGenSpec.kVar_dollar v)
  refine ⟨hex, ?_, ?_⟩
  · intro idx hidx
    rw [gI] at hidx
    rw [hloc _ _ hidx]
    exact hix idx hidx
  · rw [gS]
    cases hs : frameGet? f (Scope.kStep ++ v) with
    | none =>
      simp only [hs] at hlast ⊢
      intro lim hlim
      rw [gL] at hlim
      rw [hloc _ _ hlim]
      exact hlast lim hlim
    | some step =>
      simp only [hs] at hlast ⊢
      intro lv lim hlv hlim
      rw [gV] at hlv
      rw [gL] at hlim
      obtain ⟨a, st, l, h1, h2, h3, h4⟩ := hlast lv lim hlv hlim
      exact ⟨a, st, l, by rw [hloc _ _ hlv]; exact h1, by rw [hloc _ _ hs]; exact h2, by rw [hloc _ _ hlim]; exact h3, h4⟩

theorem loopRel_keep {buf : Bytes} {sc sc' : Scope} {env : SEnv} {jenv jenv' : JEnv} {lo : Nat}
    (hrel : LoopRel sc env jenv) (hk : Keeps buf lo jenv jenv') (hb : Bounded sc) (hlo : sc.n ≤ lo)
    (hfr : Fresh sc buf) (hst : sc'.stack = sc.stack) : LoopRel sc' env jenv' := by
  intro v f hf
  rw [hst] at hf
  obtain ⟨i, last, hfl, hfr'⟩ := hrel v f hf
  have hmem := SoyVerif.Lemmas.JsGenSafe.loopFrame_mem sc.stack v f hf
  refine ⟨i, last, hfl, frameRel_congr (fun _ _ => rfl) ?_ hfr'⟩
  intro k x hkx
  have hm := frameGet_mem f k x hkx
  exact localNum_congr (hk.2.2 x (hfr f hmem _ hm) ((hb f hmem _ hm).2.mono hlo))

/-- the relation survives everything `Keeps` allows, in every scope with the same frames -/
theorem envRel_keep {buf : Bytes} {sc sc' : Scope} {env : SEnv} {jenv jenv' : JEnv} {lo : Nat}
    (hrel : EnvRel ent sc env jenv) (hk : Keeps buf lo jenv jenv') (hb : Bounded sc) (hlo : sc.n ≤ lo)
    (hfr : Fresh sc buf) (hst : sc'.stack = sc.stack) : EnvRel ent sc' env jenv' := by
  refine ⟨?_, loopRel_keep hrel.2.1 hk hb hlo hfr hst, by rw [hk.1]; exact hrel.2.2.1, by rw [hk.2.1]; exact hrel.2.2.2.1,
    hrel.2.2.2.2⟩
  intro k hkij hkd
  have hl : sc'.lookup k = sc.lookup k := by simp [Scope.lookup, hst]
  rw [hl]
  have hr := hrel.1 k hkij hkd
  cases hg : sc.lookup k with
  | none =>
    simp only [hg] at hr ⊢
    rw [hk.1]; exact hr
  | some g =>
    simp only [hg] at hr ⊢
    obtain ⟨kv, hfind, hkv⟩ := hr
    obtain ⟨f0, hf0, hm⟩ := lookupIn_mem sc.stack k g hg
    obtain ⟨m0, hm0, rfl⟩ := bounded_lookup hb hkd hg
    refine ⟨kv, ?_, hkv⟩
    rw [hk.2.2 _ ?_ ?_]
    · exact hfind
    · exact hfr f0 hf0 _ hm
    · exact old_jsname hkd (Or.inl rfl) (by omega)

theorem envRel_stack {sc sc' : Scope} {env : SEnv} {jenv : JEnv} (hrel : EnvRel ent sc env jenv) (hst : sc'.stack = sc.stack) :
    EnvRel ent sc' env jenv := by
  refine ⟨?_, ?_, hrel.2.2⟩
  · intro k hkij hkd
    have hl : sc'.lookup k = sc.lookup k := by simp [Scope.lookup, hst]
    rw [hl]
    exact hrel.1 k hkij hkd
  · intro v f hf
    rw [hst] at hf
    exact hrel.2.1 v f hf

theorem envRel_push {sc : Scope} {env : SEnv} {jenv : JEnv} (hrel : EnvRel ent sc env jenv) : EnvRel ent sc.push env jenv := by
  refine ⟨?_, ?_, hrel.2.2⟩
  · intro k hk hd
    have : sc.push.lookup k = sc.lookup k := by simp [Scope.push, Scope.lookup, Scope.lookupIn, frameGet?]
    rw [this]
    exact hrel.1 k hk hd
  · intro v f hf
    have : Scope.loopFrame sc.push.stack v = Scope.loopFrame sc.stack v := by
      simp [Scope.push, Scope.loopFrame, frameGet?]
    rw [this] at hf
    exact hrel.2.1 v f hf

/-- a frame in which a Soy name was (re)bound: the loops do not see it -/
theorem loopFrame_setTop (st : List Frame) (x g v : Bytes) (hx : x.contains 36 = false) :
    (∀ f', Scope.loopFrame (Scope.setTop st x g) v = some f' →
      ∃ f, Scope.loopFrame st v = some f ∧ ∀ k, k.contains 36 = true → frameGet? f' k = frameGet? f k) := by
  intro f' hf'
  cases st with
  | nil => simp [Scope.setTop, Scope.loopFrame] at hf'
  | cons f0 r =>
    have hne : ∀ k, k.contains 36 = true → (x == k) = false := by
      intro k hk
      cases h : (x == k) with
      | false => rfl
      | true => have := C04c.beq_true_eq h; subst this; rw [hx] at hk; cases hk
    have hget : ∀ k, k.contains 36 = true → frameGet? (frameSet f0 x g) k = frameGet? f0 k := by
      intro k hk
      rw [C04c.frameGet_frameSet, hne k hk]
      simp
    simp only [Scope.setTop, Scope.loopFrame] at hf' ⊢
    rw [hget _ (SoyVerif.Lemmas.JsGenSpec.kIndex_dollar v)] at hf'
    cases hg : frameGet? f0 (Scope.kIndex ++ v) with
    | some _ =>
      simp only [hg, Option.some.injEq] at hf' ⊢
      subst hf'
      exact ⟨f0, rfl, hget⟩
    | none =>
      simp only [hg] at hf' ⊢
      exact ⟨f', hf', fun _ _ => rfl⟩

/-- binding a Soy name in the top frame keeps the loops part, as long as the locals the frames name keep
    their numbers -/
theorem loopRel_setTop {sc : Scope} {env env' : SEnv} {jenv jenv' : JEnv} (hrel : LoopRel sc env jenv)
    (x g : Bytes) (hx : x.contains 36 = false) (n' : Nat)
    (hloc : ∀ f ∈ sc.stack, ∀ kv ∈ f, localNum jenv' kv.2 = localNum jenv kv.2)
    (hloops : env'.loops = env.loops) :
    LoopRel ⟨Scope.setTop sc.stack x g, n'⟩ env' jenv' := by
  intro v f' hf'
  obtain ⟨f, hf, hget⟩ := loopFrame_setTop sc.stack x g v hx f' hf'
  obtain ⟨i, last, hfl, hfr⟩ := hrel v f hf
  have hmem := SoyVerif.Lemmas.JsGenSafe.loopFrame_mem sc.stack v f hf
  refine ⟨i, last, by rw [hloops]; exact hfl, frameRel_congr hget ?_ hfr⟩
  intro k y hky
  exact hloc f hmem _ (frameGet_mem f k y hky)

theorem exact_le {i n : Int} (h0 : 0 ≤ i) (hle : i ≤ n) (hn : SoyVerif.Spec.JsSem.exact n = true) :
    SoyVerif.Spec.JsSem.exact i = true := by
  simp only [SoyVerif.Spec.JsSem.exact, decide_eq_true_eq] at hn ⊢
  have : (0 : Int) ≤ SoyVerif.Spec.JsSem.two53 := by decide
  omega

theorem key_no_dollar {v k : Bytes} (hv : v.contains 36 = false) (hk : k.contains 36 = true) : (v == k) = false := by
  cases hh : (v == k) with
  | false => rfl
  | true => have := C04c.beq_true_eq hh; subst this; rw [hv] at hk; cases hk

/-- the frame `pushForEach` opens -/
def eachFrame (sc : Scope) (v : Bytes) : Frame :=
  frameSet (frameSet (frameSet [] v (Scope.jsname v [] (sc.n + 1))) (Scope.kLimit ++ v) (Scope.jsname v b!"Limit" (sc.n + 1)))
    (Scope.kIndex ++ v) (Scope.jsname v b!"Index" (sc.n + 1))

theorem pushForEach_stack (sc : Scope) (v : Bytes) : (sc.pushForEach v).2.stack = eachFrame sc v :: sc.stack := rfl

theorem eachFrame_index (sc : Scope) (v v' : Bytes) (hv : v.contains 36 = false) :
    frameGet? (eachFrame sc v) (Scope.kIndex ++ v') = if v == v' then some (Scope.jsname v b!"Index" (sc.n + 1)) else none := by
  have e1 : (Scope.kIndex ++ v == Scope.kIndex ++ v') = (v == v') := by simp [Scope.kIndex]
  have e2 : (Scope.kLimit ++ v == Scope.kIndex ++ v') = false := by simp [Scope.kLimit, Scope.kIndex]
  have e3 : (v == Scope.kIndex ++ v') = false := key_no_dollar hv (SoyVerif.Lemmas.JsGenSpec.kIndex_dollar v')
  unfold eachFrame
  rw [C04c.frameGet_frameSet, C04c.frameGet_frameSet, C04c.frameGet_frameSet, e1, e2, e3]
  simp [frameGet?]

theorem eachFrame_limit (sc : Scope) (v : Bytes) :
    frameGet? (eachFrame sc v) (Scope.kLimit ++ v) = some (Scope.jsname v b!"Limit" (sc.n + 1)) := by
  have e1 : (Scope.kIndex ++ v == Scope.kLimit ++ v) = false := by simp [Scope.kLimit, Scope.kIndex]
  unfold eachFrame
  rw [C04c.frameGet_frameSet, C04c.frameGet_frameSet, e1]
  simp

theorem eachFrame_step (sc : Scope) (v : Bytes) (hv : v.contains 36 = false) :
    frameGet? (eachFrame sc v) (Scope.kStep ++ v) = none := by
  have e1 : (Scope.kIndex ++ v == Scope.kStep ++ v) = false := by simp [Scope.kStep, Scope.kIndex]
  have e2 : (Scope.kLimit ++ v == Scope.kStep ++ v) = false := by simp [Scope.kLimit, Scope.kStep]
  have e3 : (v == Scope.kStep ++ v) = false := key_no_dollar hv (SoyVerif.Lemmas.JsGenSpec.kStep_dollar v)
  unfold eachFrame
  rw [C04c.frameGet_frameSet, C04c.frameGet_frameSet, C04c.frameGet_frameSet, e1, e2, e3]
  simp [frameGet?]

/-- entering an iteration of a foreach: the item is bound to its fresh local, the loop is the innermost one -/
theorem envRel_foreach_iter {sc : Scope} (hs : ScOk sc) (v : Bytes) (hv : v.contains 36 = false) (env : SEnv) (e : JEnv)
    (hrel : EnvRel ent sc env e) (item : Val) (jitem : JVal) (hitem : toJsV item = some jitem) (i last : Nat) (n : Int)
    (hexi : SoyVerif.Spec.JsSem.exact (i : Int) = true) (hn : n = (last : Int) + 1)
    (h2 : e.locals.find? (·.1 == Scope.jsname v b!"Limit" (sc.n + 1)) = some (Scope.jsname v b!"Limit" (sc.n + 1), .num n))
    (h3 : e.locals.find? (·.1 == Scope.jsname v b!"Index" (sc.n + 1)) = some (Scope.jsname v b!"Index" (sc.n + 1), .num i)) :
    EnvRel ent (sc.pushForEach v).2 { (env.bind v item) with loops := (v, i, last) :: env.loops }
      (setLocal e (Scope.jsname v [] (sc.n + 1)) jitem) := by
  have u0 : IsUse [] := Or.inl rfl
  have uN : IsUse b!"Limit" := Or.inr (Or.inr (Or.inl rfl))
  have uI : IsUse b!"Index" := Or.inr (Or.inr (Or.inr (Or.inl rfl)))
  have hd : ∀ {u u' : Bytes}, IsUse u → IsUse u' → u ≠ u' → Scope.jsname v u (sc.n + 1) ≠ Scope.jsname v u' (sc.n + 1) :=
    fun hu hu' hne e => hne (jsname_inj_all hv hv hu hu' e).2.1
  refine ⟨C04c.envRel_foreach sc env e (bounded_shape hs.2) v hv item jitem hrel.1 hitem, ?_, hrel.2.2⟩
  intro v' f hf
  rw [pushForEach_stack] at hf
  simp only [Scope.loopFrame, eachFrame_index sc v v' hv] at hf
  by_cases hvv : (v == v') = true
  · have : v = v' := C04c.beq_true_eq hvv
    subst this
    simp only [beq_self_eq_true, if_true, Option.some.injEq] at hf
    subst hf
    refine ⟨i, last, by simp [Spec.Eval.findLoop], hexi, ?_, ?_⟩
    · intro idx hidx
      rw [eachFrame_index sc v v hv] at hidx
      simp only [beq_self_eq_true, if_true, Option.some.injEq] at hidx
      subst hidx
      rw [localNum_congr (find_setLocal_ne e _ _ jitem (hd uI u0 (by decide)))]
      exact C04c.localNum_of_find h3
    · rw [eachFrame_step sc v hv]
      intro lim hlim
      rw [eachFrame_limit] at hlim
      simp only [Option.some.injEq] at hlim
      subst hlim
      rw [localNum_congr (find_setLocal_ne e _ _ jitem (hd uN u0 (by decide))), ← hn]
      exact C04c.localNum_of_find h2
  · have hvv' : (v == v') = false := by simpa using hvv
    simp only [hvv', Bool.false_eq_true, if_false] at hf
    obtain ⟨i', last', hfl, hfr⟩ := hrel.2.1 v' f hf
    have hmem := SoyVerif.Lemmas.JsGenSafe.loopFrame_mem sc.stack v' f hf
    refine ⟨i', last', by simp [Spec.Eval.findLoop, hvv', hfl], frameRel_congr (fun _ _ => rfl) ?_ hfr⟩
    intro k y hky
    have hold := (hs.2 f hmem _ (frameGet_mem f k y hky)).2
    exact localNum_congr (find_setLocal_ne e _ y jitem (hold v [] (sc.n + 1) hv u0 (Nat.lt_succ_self _)))

/-- the frame `pushForRange` opens -/
def rangeFrame (sc : Scope) (v : Bytes) : Frame :=
  frameSet (frameSet (frameSet (frameSet (frameSet [] v (Scope.jsname v [] (sc.n + 1))) (Scope.kLimit ++ v)
    (Scope.jsname v b!"Limit" (sc.n + 1))) (Scope.kStep ++ v) (Scope.jsname v b!"Step" (sc.n + 1)))
    (Scope.kIndex ++ v) (Scope.jsname v b!"Index" (sc.n + 1))) (Scope.kVar ++ v) (Scope.jsname v [] (sc.n + 1))

theorem pushForRange_stack (sc : Scope) (v : Bytes) : (sc.pushForRange v).2.stack = rangeFrame sc v :: sc.stack := rfl

theorem rangeFrame_index (sc : Scope) (v v' : Bytes) (hv : v.contains 36 = false) :
    frameGet? (rangeFrame sc v) (Scope.kIndex ++ v') = if v == v' then some (Scope.jsname v b!"Index" (sc.n + 1)) else none := by
  have e0 : (Scope.kVar ++ v == Scope.kIndex ++ v') = false := by simp [Scope.kVar, Scope.kIndex]
  have e1 : (Scope.kIndex ++ v == Scope.kIndex ++ v') = (v == v') := by simp [Scope.kIndex]
  have e2 : (Scope.kStep ++ v == Scope.kIndex ++ v') = false := by simp [Scope.kStep, Scope.kIndex]
  have e3 : (Scope.kLimit ++ v == Scope.kIndex ++ v') = false := by simp [Scope.kLimit, Scope.kIndex]
  have e4 : (v == Scope.kIndex ++ v') = false := key_no_dollar hv (SoyVerif.Lemmas.JsGenSpec.kIndex_dollar v')
  unfold rangeFrame
  rw [C04c.frameGet_frameSet, C04c.frameGet_frameSet, C04c.frameGet_frameSet, C04c.frameGet_frameSet, C04c.frameGet_frameSet,
    e0, e1, e2, e3, e4]
  simp [frameGet?]

theorem rangeFrame_step (sc : Scope) (v : Bytes) :
    frameGet? (rangeFrame sc v) (Scope.kStep ++ v) = some (Scope.jsname v b!"Step" (sc.n + 1)) := by
  have e0 : (Scope.kVar ++ v == Scope.kStep ++ v) = false := by simp [Scope.kVar, Scope.kStep]
  have e1 : (Scope.kIndex ++ v == Scope.kStep ++ v) = false := by simp [Scope.kStep, Scope.kIndex]
  unfold rangeFrame
  rw [C04c.frameGet_frameSet, C04c.frameGet_frameSet, C04c.frameGet_frameSet, e0, e1]
  simp

theorem rangeFrame_var (sc : Scope) (v : Bytes) :
    frameGet? (rangeFrame sc v) (Scope.kVar ++ v) = some (Scope.jsname v [] (sc.n + 1)) := by
  unfold rangeFrame
  rw [C04c.frameGet_frameSet]
  simp

theorem rangeFrame_limit (sc : Scope) (v : Bytes) :
    frameGet? (rangeFrame sc v) (Scope.kLimit ++ v) = some (Scope.jsname v b!"Limit" (sc.n + 1)) := by
  have e0 : (Scope.kVar ++ v == Scope.kLimit ++ v) = false := by simp [Scope.kVar, Scope.kLimit]
  have e1 : (Scope.kIndex ++ v == Scope.kLimit ++ v) = false := by simp [Scope.kLimit, Scope.kIndex]
  have e2 : (Scope.kStep ++ v == Scope.kLimit ++ v) = false := by simp [Scope.kStep, Scope.kLimit]
  unfold rangeFrame
  rw [C04c.frameGet_frameSet, C04c.frameGet_frameSet, C04c.frameGet_frameSet, C04c.frameGet_frameSet, e0, e1, e2]
  simp

/-! ### running single statements -/

theorem withVal_ok {o : JOut} {k : JVal → SRes} {e : JEnv} (h : withVal o k = .ok e) : ∃ v, o = .val v ∧ k v = .ok e := by
  cases o with
  | val v => exact ⟨v, rfl, h⟩
  | error => cases h
  | unspec => cases h

theorem sres_bind_ok {r : SRes} {k : JEnv → SRes} {e : JEnv} (h : r.bind k = .ok e) : ∃ e1, r = .ok e1 ∧ k e1 = .ok e := by
  cases r with
  | ok e1 => exact ⟨e1, rfl, h⟩
  | error => cases h
  | unspec => cases h

section
variable (F : Bytes → List Expr → JVal → JOut) (G : Callee) (fuel : Nat)

theorem execStmts_append : ∀ (a b : JsStmts) (env : JEnv),
    execStmts F G fuel (a.append b) env = (execStmts F G fuel a env).bind (execStmts F G fuel b)
  | .nil, b, env => by simp [JsStmts.append, execStmts, SRes.bind]
  | .cons s r, b, env => by
    simp only [JsStmts.append, execStmts]
    cases execStmt F G fuel s env with
    | ok e1 => simp only [SRes.bind]; exact execStmts_append r b e1
    | error => rfl
    | unspec => rfl

theorem execStmts_one (s : JsStmt) (env : JEnv) : execStmts F G fuel (.one s) env = execStmt F G fuel s env := by
  simp only [JsStmts.one, execStmts]
  cases execStmt F G fuel s env <;> rfl

/-- `buf += v` on a string buffer: ToString of `v` is appended -/
theorem appendTo_ok {buf : Bytes} {jenv jenv' : JEnv} {out : Bytes} {v : JVal} (hb : BufIs buf jenv out)
    (h : appendTo jenv buf v = .ok jenv') : ∃ s, toStr? v = some s ∧ jenv' = setLocal jenv buf (.str (out ++ s)) := by
  unfold appendTo at h
  have he : eval jenv (.local buf) = .val (.str out) := by
    unfold BufIs at hb
    simp [eval, hb]
  rw [he] at h
  simp only [withVal] at h
  obtain ⟨r, hr, hk⟩ := withVal_ok h
  simp only [SRes.ok.injEq] at hk
  subst hk
  cases hv : toStr? v with
  | none =>
    cases v <;> simp [binop, isStr, toStr?] at hr hv
  | some s =>
    refine ⟨s, rfl, ?_⟩
    have : binop .add (.str out) v = .val (.str (out ++ s)) := by
      cases v <;> simp [binop, isStr, toStr?] at hv ⊢ <;> simp [hv]
    rw [this] at hr
    simp only [JOut.val.injEq] at hr
    subst hr
    rfl

/-- the calls are strict: a value comes out only if a value went in -/
theorem applyCalls_val : ∀ (ds : List Directive) (o : JOut) (r : JVal), applyCalls F ds o = .val r → ∃ jv, o = .val jv
  | [], o, r, h => ⟨r, h⟩
  | d :: ds, o, r, h => by
    have h' : applyCalls F ds (o.bind (F d.name d.args)) = .val r := h
    obtain ⟨x, hx⟩ := applyCalls_val ds _ r h'
    cases o with
    | val v => exact ⟨v, rfl⟩
    | error => cases hx
    | unspec => cases hx

/-- what the generated print expression computes is what the Go renderer's directive loop computes -/
theorem applyCalls_goPrint (ae : Autoescape) (dirs : List Directive) (ck : Bool × List Directive)
    (hc : collectDirs dirs = some ck) (hok : dirs.all dirOk = true) (x : JOut) :
    C04b.goPrint (liftF F) Gen.directiveTable ae dirs x = some (applyCalls F (printDirs ae ck.1 ck.2) x) := by
  have hgo : ∀ d ∈ dirs, (Directives.lookup Gen.directiveTable d.name).isSome := by
    intro d hd
    have := List.all_eq_true.mp hok d hd
    simp only [dirOk, Bool.and_eq_true] at this
    exact this.2
  rw [← C04b.print_directives_agree (liftF F) ae dirs x (by simp [hc]) hgo]
  unfold C04b.jsPrint
  rw [hc, Option.map_some, C04b.denote_applyDirs]
  rfl

end

/-! ### the induction: one lemma per node kind -/

section
variable (F : Bytes → List Expr → JVal → JOut) (G : Callee) (R : RefCtx) (ae : Autoescape) (buf : Bytes)

def CmdOk (c : Cmd) : Prop :=
  ∀ (fuel : Nat) (sc : Scope) (r : JsStmts × Scope) (env : SEnv) (jenv jenv' : JEnv) (out : Bytes),
    toCmd ae buf c sc = some r → ScOk sc → GoodBuf sc buf → EnvRel R.entry sc env jenv → BufIs buf jenv out →
    execStmts F G fuel r.1 jenv = .ok jenv' →
    ∃ text env', refCmd F R ae c env = .val (text, env') ∧ EnvRel R.entry r.2 env' jenv' ∧ BufIs buf jenv' (out ++ text) ∧
      Keeps buf sc.n jenv jenv'

def BlockOk (b : Block) : Prop :=
  ∀ (fuel : Nat) (sc : Scope) (r : JsStmts × Scope) (env : SEnv) (jenv jenv' : JEnv) (out : Bytes),
    toBlock ae buf b sc = some r → ScOk sc → GoodBuf sc buf → EnvRel R.entry sc env jenv → BufIs buf jenv out →
    execStmts F G fuel r.1 jenv = .ok jenv' →
    ∃ text, refBlock F R ae b env = .val text ∧ BufIs buf jenv' (out ++ text) ∧ Keeps buf sc.n jenv jenv'

def CmdsOk (cs : CmdList) : Prop :=
  ∀ (fuel : Nat) (sc : Scope) (r : JsStmts × Scope) (env : SEnv) (jenv jenv' : JEnv) (out : Bytes),
    toCmds ae buf cs sc = some r → ScOk sc → GoodBuf sc buf → EnvRel R.entry sc env jenv → BufIs buf jenv out →
    execStmts F G fuel r.1 jenv = .ok jenv' →
    ∃ text, refCmds F R ae cs env = .val text ∧ BufIs buf jenv' (out ++ text) ∧ Keeps buf sc.n jenv jenv'

def CondsOk (cs : CondList) : Prop :=
  ∀ (fuel : Nat) (sc : Scope) (r : JsConds × Scope) (env : SEnv) (jenv jenv' : JEnv) (out : Bytes),
    toConds ae buf cs sc = some r → ScOk sc → GoodBuf sc buf → EnvRel R.entry sc env jenv → BufIs buf jenv out →
    execConds F G fuel r.1 jenv = .ok jenv' →
    ∃ text, refConds F R ae cs env = .val text ∧ BufIs buf jenv' (out ++ text) ∧ Keeps buf sc.n jenv jenv'

def CasesOk (cs : CaseList) : Prop :=
  ∀ (fuel : Nat) (sc : Scope) (r : JsCases × Scope) (env : SEnv) (jenv jenv' : JEnv) (out : Bytes) (sv : Val) (jv : JVal),
    toCases ae buf cs sc = some r → ScOk sc → GoodBuf sc buf → EnvRel R.entry sc env jenv → BufIs buf jenv out → toJsV sv = some jv →
    execCases F G fuel r.1 jv jenv = .ok jenv' →
    ∃ text, refCases F R ae cs sv env = .val text ∧ BufIs buf jenv' (out ++ text) ∧ Keeps buf sc.n jenv jenv'


theorem rawText_ok (p : Nat) (t : Bytes) : CmdOk F G R ae buf (.rawText p t) := by
  intro fuel sc r env jenv jenv' out h hs hg hrel hb hx
  simp only [toCmd, Option.some.injEq] at h; subst h
  rw [execStmts_one] at hx
  simp only [execStmt] at hx
  obtain ⟨s, hs', rfl⟩ := appendTo_ok hb hx
  simp only [toStr?, Option.some.injEq] at hs'
  subst hs'
  refine ⟨t, env, by simp [refCmd], ?_, bufIs_setBuf _ _ _, keeps_setBuf _ _ _ _⟩
  exact envRel_keep hrel (keeps_setBuf buf sc.n jenv _) hs.2 (Nat.le_refl _) hg.2 rfl

theorem print_ok (p : Nat) (arg : Expr) (dirs : List Directive) : CmdOk F G R ae buf (.print p arg dirs) := by
  intro fuel sc r env jenv jenv' out h hs hg hrel hb hx
  unfold toCmd at h
  split at h
  · rename_i hok
    split at h
    · rename_i j ck hj hc
      simp only [Option.some.injEq] at h; subst h
      rw [execStmts_one] at hx
      simp only [execStmt] at hx
      obtain ⟨rv, hrv, hx⟩ := withVal_ok hx
      obtain ⟨jv, hjv⟩ := applyCalls_val F _ _ _ hrv
      obtain ⟨v, hv, hvj⟩ := C04c.gen_correct_refs_partial sc env jenv hrel arg j jv hj hjv
      obtain ⟨s, hs', rfl⟩ := appendTo_ok hb hx
      have hgo := applyCalls_goPrint F ae dirs ck hc hok (.val jv)
      rw [hjv] at hrv
      rw [hrv] at hgo
      refine ⟨s, env, ?_, ?_, bufIs_setBuf _ _ _, keeps_setBuf _ _ _ _⟩
      · simp only [refCmd, hv, Spec.Eval.Out.bind, refPrint, refPrintJs, hvj, hgo, hs']
      · exact envRel_keep hrel (keeps_setBuf buf sc.n jenv _) hs.2 (Nat.le_refl _) hg.2 rfl
    · cases h
  · cases h

theorem letValue_ok (p : Nat) (x : Bytes) (e : Expr) : CmdOk F G R ae buf (.letValue p x e) := by
  intro fuel sc r env jenv jenv' out h hs hgood hrel hb hx
  unfold toCmd at h
  split at h
  · cases h
  · rename_i hxd
    have hxd' : x.contains 36 = false := by simpa using hxd
    split at h
    · rename_i j hj
      simp only [Option.some.injEq] at h; subst h
      rw [execStmts_one] at hx
      simp only [execStmt] at hx
      obtain ⟨jv, hjv, hx⟩ := withVal_ok hx
      simp only [SRes.ok.injEq] at hx
      subst hx
      obtain ⟨v, hv, hvj⟩ := C04c.gen_correct_refs_partial sc env jenv hrel e j jv hj hjv
      obtain ⟨hne, hbd⟩ := hs
      cases hst : sc.stack with
      | nil => exact absurd hst hne
      | cons f st =>
        have hg : (sc.makevar x).1 = Scope.jsname x [] (sc.n + 1) := rfl
        have hgb : (sc.makevar x).1 ≠ buf := fun e' =>
          hgood.1 x [] (sc.n + 1) hxd' (Or.inl rfl) (Nat.lt_succ_self _) e'.symm
        refine ⟨[], env.bind x v, by simp [refCmd, hv, Spec.Eval.Out.bind], ?_, ?_, ?_⟩
        · refine ⟨C04c.envRel_let sc env jenv f st hst (bounded_shape hbd) x hxd' v jv hrel.1 hvj, ?_, hrel.2.2⟩
          exact loopRel_setTop hrel.2.1 x _ hxd' _ (fun f0 hf0 kv hkv => localNum_congr (find_setLocal_ne jenv _ _ jv
            ((hbd f0 hf0 kv hkv).2 x [] (sc.n + 1) hxd' (Or.inl rfl) (Nat.lt_succ_self _)))) rfl
        · unfold BufIs
          rw [find_setLocal_ne jenv _ buf jv hgb.symm, List.append_nil]
          exact hb
        · refine ⟨rfl, rfl, ?_⟩
          intro g _ hn
          exact find_setLocal_ne jenv _ g jv (hn x [] (sc.n + 1) hxd' (Or.inl rfl) (Nat.lt_succ_self _))
    · cases h

theorem ifc_ok (p : Nat) (conds : CondList) (ih : CondsOk F G R ae buf conds) : CmdOk F G R ae buf (.ifc p conds) := by
  intro fuel sc r env jenv jenv' out h hs hg hrel hb hx
  unfold toCmd at h
  split at h
  · rename_i rc hrc
    simp only [Option.some.injEq] at h; subst h
    rw [execStmts_one] at hx
    simp only [execStmt] at hx
    obtain ⟨text, ht, hb', hk⟩ := ih fuel sc rc env jenv jenv' out hrc hs hg hrel hb hx
    obtain ⟨h1, _⟩ := toConds_scope ae conds buf sc rc hrc hs
    exact ⟨text, env, by simp [refCmd, ht, Spec.Eval.Out.bind],
      envRel_keep hrel hk hs.2 (Nat.le_refl _) hg.2 h1, hb', hk⟩
  · cases h

theorem lookup_push (sc : Scope) (k : Bytes) : sc.push.lookup k = sc.lookup k := by
  simp [Scope.push, Scope.lookup, Scope.lookupIn, frameGet?]

theorem block_ok (p : Nat) (cmds : CmdList) (ih : CmdsOk F G R ae buf cmds) : BlockOk F G R ae buf (.mk p cmds) := by
  intro fuel sc r env jenv jenv' out h hs hg hrel hb hx
  unfold toBlock at h
  split at h
  · rename_i rc hrc
    simp only [Option.some.injEq] at h; subst h
    have hrel' : EnvRel R.entry sc.push env jenv := envRel_push hrel
    obtain ⟨text, ht, hb', hk⟩ := ih fuel sc.push rc env jenv jenv' out hrc (scOk_push hs.2) (goodBuf_push hg) hrel' hb hx
    exact ⟨text, by simp only [refBlock]; exact ht, hb', hk⟩
  · cases h

theorem cmds_nil_ok : CmdsOk F G R ae buf .nil := by
  intro fuel sc r env jenv jenv' out h hs hg hrel hb hx
  simp only [toCmds, Option.some.injEq] at h; subst h
  simp only [execStmts, SRes.ok.injEq] at hx
  subst hx
  exact ⟨[], by simp [refCmds], by simpa using hb, Keeps.refl _ _ _⟩

theorem cmds_cons_ok (c : Cmd) (rest : CmdList) (ih1 : CmdOk F G R ae buf c) (ih2 : CmdsOk F G R ae buf rest) :
    CmdsOk F G R ae buf (.cons c rest) := by
  intro fuel sc r env jenv jenv' out h hs hg hrel hb hx
  unfold toCmds at h
  split at h
  · cases h
  · rename_i r1 h1
    split at h
    · cases h
    · rename_i r2 h2
      simp only [Option.some.injEq] at h; subst h
      rw [execStmts_append] at hx
      obtain ⟨jenv1, hx1, hx2⟩ := sres_bind_ok hx
      obtain ⟨t1, env1, ht1, hrel1, hb1, hk1⟩ := ih1 fuel sc r1 env jenv jenv1 out h1 hs hg hrel hb hx1
      obtain ⟨a1, _, a3⟩ := toCmd_scope ae c buf sc r1 h1 hs
      obtain ⟨t2, ht2, hb2, hk2⟩ := ih2 fuel r1.2 r2 env1 jenv1 jenv' (out ++ t1) h2 a1 (toCmd_good ae c buf sc r1 h1 hs buf hg) hrel1 hb1 hx2
      refine ⟨t1 ++ t2, ?_, by rw [← List.append_assoc]; exact hb2, hk1.trans hk2 a3⟩
      simp [refCmds, ht1, ht2, Spec.Eval.Out.bind]

theorem conds_nil_ok : CondsOk F G R ae buf .nil := by
  intro fuel sc r env jenv jenv' out h hs hg hrel hb hx
  simp only [toConds, Option.some.injEq] at h; subst h
  simp only [execConds, SRes.ok.injEq] at hx
  subst hx
  exact ⟨[], by simp [refConds], by simpa using hb, Keeps.refl _ _ _⟩

theorem conds_some_ok (p : Nat) (c : Expr) (body : Block) (rest : CondList) (ih1 : BlockOk F G R ae buf body)
    (ih2 : CondsOk F G R ae buf rest) : CondsOk F G R ae buf (.cons p (some c) body rest) := by
  intro fuel sc r env jenv jenv' out h hs hg hrel hb hx
  unfold toConds at h
  simp only at h
  split at h
  · rename_i j rb hj hbk
    split at h
    · rename_i rr hr
      simp only [Option.some.injEq] at h; subst h
      simp only [execConds] at hx
      obtain ⟨jv, hjv, hx⟩ := withVal_ok hx
      obtain ⟨v, hv, hvj⟩ := C04c.gen_correct_refs_partial sc env jenv hrel c j jv hj hjv
      have htr := C04c.truthy_toBoolean v jv hvj
      by_cases hc : toBoolean jv = true
      · simp only [hc, if_true] at hx
        obtain ⟨text, ht, hb', hk⟩ := ih1 fuel sc rb env jenv jenv' out hbk hs hg hrel hb hx
        refine ⟨text, ?_, hb', hk⟩
        simp [refConds, hv, Spec.Eval.Out.bind, htr, hc, ht]
      · simp only [hc, Bool.false_eq_true, if_false] at hx
        obtain ⟨a1, a2⟩ := toBlock_scope ae body buf sc rb hbk hs
        have hs1 : ScOk rb.2 := ⟨by rw [a1]; exact hs.1, bounded_of_stack hs.2 a1 a2⟩
        obtain ⟨text, ht, hb', hk⟩ := ih2 fuel rb.2 rr env jenv jenv' out hr hs1 (goodBuf_of_stack hg a1 a2) (envRel_stack hrel a1) hb hx
        refine ⟨text, ?_, hb', hk.mono a2⟩
        simp [refConds, hv, Spec.Eval.Out.bind, htr, hc, ht]
    · cases h
  · cases h

theorem conds_else_ok (p : Nat) (body : Block) (rest : CondList) (ih1 : BlockOk F G R ae buf body) :
    CondsOk F G R ae buf (.cons p none body rest) := by
  intro fuel sc r env jenv jenv' out h hs hg hrel hb hx
  unfold toConds at h
  simp only at h
  split at h
  · rename_i rb hbk
    simp only [Option.some.injEq] at h; subst h
    simp only [execConds] at hx
    obtain ⟨text, ht, hb', hk⟩ := ih1 fuel sc rb env jenv jenv' out hbk hs hg hrel hb hx
    exact ⟨text, by simp only [refConds]; exact ht, hb', hk⟩
  · cases h

/-! ### switch -/

/-- `===` on images is the specification's equality -/
theorem strictEq_corr {a b : Val} {ja jb : JVal} {c : Bool} (ha : toJsV a = some ja) (hb : toJsV b = some jb)
    (h : strictEq ja jb = some c) : Spec.Eval.equalsV a b = .val c := by
  cases ja <;> cases jb <;> simp only [strictEq, Option.some.injEq, reduceCtorEq] at h
  all_goals subst h
  all_goals
    first
      | (have := C04c.toJsV_null ha; subst this)
      | (have := C04c.toJsV_bool ha; subst this)
      | (obtain ⟨rfl, _⟩ := C04c.toJsV_num ha)
      | (have := C04c.toJsV_str ha; subst this)
  all_goals
    first
      | (have := C04c.toJsV_null hb; subst this)
      | (have := C04c.toJsV_bool hb; subst this)
      | (obtain ⟨rfl, _⟩ := C04c.toJsV_num hb)
      | (have := C04c.toJsV_str hb; subst this)
  all_goals simp [Spec.Eval.equalsV]

/-- the labels: `matchLabels` on the translation is `matchAny` -/
theorem matchLabels_corr {sc : Scope} {env : SEnv} {jenv : JEnv} (hrel : EnvRel ent sc env jenv) {sv : Val} {jv : JVal}
    (hsv : toJsV sv = some jv) : ∀ (values : List Expr) (js : List JsExpr) (b : Bool), astList sc values = some js →
    matchLabels jenv jv js = some (.inr b) → Spec.Eval.matchAny env sv values = .val b
  | [], js, b, h, hm => by
    simp only [astList, Option.some.injEq] at h; subst h
    simp only [matchLabels, Option.some.injEq, Sum.inr.injEq] at hm
    subst hm
    rfl
  | v :: r, js, b, h, hm => by
    unfold astList at h
    cases hj : toAst sc v with
    | none => simp [hj] at h
    | some j =>
      cases hr : astList sc r with
      | none => simp [hj, hr] at h
      | some jr =>
        simp only [hj, hr, Option.some.injEq] at h; subst h
        unfold matchLabels at hm
        cases hw : eval jenv j with
        | val w =>
          simp only [hw] at hm
          obtain ⟨vw, hvw, hvwj⟩ := C04c.gen_correct_refs_partial sc env jenv hrel v j w hj hw
          cases hse : strictEq jv w with
          | none => simp [hse] at hm
          | some c =>
            have heq := strictEq_corr hsv hvwj hse
            cases c with
            | true =>
              simp only [hse, Option.some.injEq, Sum.inr.injEq] at hm
              subst hm
              simp [Spec.Eval.matchAny, hvw, heq, Spec.Eval.Out.bind]
            | false =>
              simp only [hse] at hm
              have := matchLabels_corr hrel hsv r jr b hr hm
              simp [Spec.Eval.matchAny, hvw, heq, Spec.Eval.Out.bind, this]
        | error => simp [hw] at hm
        | unspec => simp [hw] at hm

theorem cases_nil_ok : CasesOk F G R ae buf .nil := by
  intro fuel sc r env jenv jenv' out sv jv h hs hg hrel hb hsv hx
  simp only [toCases, Option.some.injEq] at h; subst h
  simp only [execCases, SRes.ok.injEq] at hx
  subst hx
  exact ⟨[], by simp [refCases], by simpa using hb, Keeps.refl _ _ _⟩

theorem cases_cons_ok (p : Nat) (values : List Expr) (body : Block) (rest : CaseList) (ih1 : BlockOk F G R ae buf body)
    (ih2 : CasesOk F G R ae buf rest) : CasesOk F G R ae buf (.cons p values body rest) := by
  intro fuel sc r env jenv jenv' out sv jv h hs hg hrel hb hsv hx
  unfold toCases at h
  obtain ⟨rbv, hrb, hc⟩ := caseJoin_some h
  rcases hc with ⟨rfl, _, rfl⟩ | ⟨hne, js, rr, hjs, hrr, rfl⟩
  · simp only [execCases] at hx
    obtain ⟨text, ht, hb', hk⟩ := ih1 fuel sc rbv env jenv jenv' out hrb hs hg hrel hb hx
    exact ⟨text, by simp [refCases, ht], hb', hk⟩
  · have hem : values.isEmpty = false := by cases values <;> simp at hne ⊢
    simp only [execCases] at hx
    cases hm : matchLabels jenv jv js with
    | none => simp [hm] at hx
    | some res =>
      cases res with
      | inl o => cases o <;> simp [hm] at hx
      | inr b =>
        have hany := matchLabels_corr hrel hsv values js b hjs hm
        cases b with
        | true =>
          simp only [hm] at hx
          obtain ⟨text, ht, hb', hk⟩ := ih1 fuel sc rbv env jenv jenv' out hrb hs hg hrel hb hx
          exact ⟨text, by simp [refCases, hem, hany, Spec.Eval.Out.bind, ht], hb', hk⟩
        | false =>
          simp only [hm] at hx
          obtain ⟨a1, a2⟩ := toBlock_scope ae body buf sc rbv hrb hs
          obtain ⟨text, ht, hb', hk⟩ := ih2 fuel rbv.2 rr env jenv jenv' out sv jv hrr (scOk_of_stack hs a1 a2) (goodBuf_of_stack hg a1 a2)
            (envRel_stack hrel a1) hb hsv hx
          exact ⟨text, by simp [refCases, hem, hany, Spec.Eval.Out.bind, ht], hb', hk.mono a2⟩

theorem switch_ok (p : Nat) (value : Expr) (cases : CaseList) (ih : CasesOk F G R ae buf cases) :
    CmdOk F G R ae buf (.switch p value cases) := by
  intro fuel sc r env jenv jenv' out h hs hg hrel hb hx
  unfold toCmd at h
  split at h
  · rename_i j rc hj hrc
    simp only [Option.some.injEq] at h; subst h
    rw [execStmts_one] at hx
    simp only [execStmt] at hx
    obtain ⟨jv, hjv, hx⟩ := withVal_ok hx
    obtain ⟨sv, hsv, hsvj⟩ := C04c.gen_correct_refs_partial sc env jenv hrel value j jv hj hjv
    obtain ⟨text, ht, hb', hk⟩ := ih fuel sc rc env jenv jenv' out sv jv hrc hs hg hrel hb hsvj hx
    obtain ⟨h1, _⟩ := toCases_scope ae cases buf sc rc hrc hs
    exact ⟨text, env, by simp [refCmd, hsv, ht, Spec.Eval.Out.bind],
      envRel_keep hrel hk hs.2 (Nat.le_refl _) hg.2 h1, hb', hk⟩
  · cases h

/-! ### foreach -/

theorem keeps_setNew (lo : Nat) (e : JEnv) {x u : Bytes} {m : Nat} (hx : x.contains 36 = false) (hu : IsUse u)
    (hm : lo < m) (val : JVal) : Keeps buf lo e (setLocal e (Scope.jsname x u m) val) := by
  refine ⟨rfl, rfl, ?_⟩
  intro g _ hg
  exact find_setLocal_ne e _ g val (hg x u m hx hu hm)

theorem find_setLocal_eq (e : JEnv) (x : Bytes) (val : JVal) :
    (setLocal e x val).locals.find? (·.1 == x) = some (x, val) := by
  simp [setLocal]

theorem eval_local {e : JEnv} {x : Bytes} {val : JVal} (h : e.locals.find? (·.1 == x) = some (x, val)) :
    eval e (.local x) = .val val := by
  simp [eval, h]

theorem cond_lt {e : JEnv} {xi xn : Bytes} {a b : Int} (h1 : e.locals.find? (·.1 == xi) = some (xi, .num a))
    (h2 : e.locals.find? (·.1 == xn) = some (xn, .num b)) :
    eval e (.bin .lt (.local xi) (.local xn)) = .val (.bool (decide (a < b))) := by
  simp [eval, JOut.bind, binop, h1, h2]

theorem cond_gt0 {e : JEnv} {xn : Bytes} {b : Int} (h2 : e.locals.find? (·.1 == xn) = some (xn, .num b)) :
    eval e (.bin .gt (.local xn) (.num 0)) = .val (.bool (decide (0 < b))) := by
  have : SoyVerif.Spec.JsSem.exact 0 = true := by decide
  simp [eval, JOut.bind, binop, h2, this]

theorem indexVar_eval {e : JEnv} {xl xi : Bytes} {js : List JVal} {i : Nat}
    (h1 : e.locals.find? (·.1 == xl) = some (xl, .arr js)) (h2 : e.locals.find? (·.1 == xi) = some (xi, .num i)) :
    indexVar e xl xi = .val (js.getD i .undefined) := by
  have : ¬ ((i : Int) < 0) := by omega
  simp [indexVar, eval, JOut.bind, getIndex, h1, h2, this]

/-- the IH for a loop body: as for a block, in the frame the loop opened -/
def BodyOk (b : Block) : Prop :=
  ∀ (fuel : Nat) (sc : Scope) (r : JsStmts × Scope) (env : SEnv) (jenv jenv' : JEnv) (out : Bytes),
    toBody ae buf b sc = some r → ScOk sc → GoodBuf sc buf → EnvRel R.entry sc env jenv → BufIs buf jenv out →
    execStmts F G fuel r.1 jenv = .ok jenv' →
    ∃ text, refBlock F R ae b env = .val text ∧ BufIs buf jenv' (out ++ text) ∧ Keeps buf sc.n jenv jenv'

theorem body_ok (p : Nat) (cmds : CmdList) (ih : CmdsOk F G R ae buf cmds) : BodyOk F G R ae buf (.mk p cmds) := by
  intro fuel sc r env jenv jenv' out h hs hg hrel hb hx
  unfold toBody at h
  obtain ⟨text, ht, hb', hk⟩ := ih fuel sc r env jenv jenv' out h hs hg hrel hb hx
  exact ⟨text, by simp only [refBlock]; exact ht, hb', hk⟩

/-- the iterations from index `i` on: the JavaScript loop and `loopSpec` agree -/
theorem loop_ok {sc : Scope} (hs : ScOk sc) (hg : GoodBuf sc buf) (v : Bytes) (hv : v.contains 36 = false) (body : Block)
    (rb : JsStmts × Scope) (hrb : toBody ae buf body (sc.pushForEach v).2 = some rb) (ihb : BodyOk F G R ae buf body)
    (env : SEnv) (xs : List Val) (js : List JVal) (hxs : C04c.toJsList xs = some js) (fuel last : Nat)
    (hexl : SoyVerif.Spec.JsSem.exact (js.length : Int) = true) (hlast : xs ≠ [] → xs.length = last + 1)
    (lv xl xn xi : Bytes) (hlv : lv = Scope.jsname v [] (sc.n + 1)) (hxl : xl = Scope.jsname v b!"List" (sc.n + 1))
    (hxn : xn = Scope.jsname v b!"Limit" (sc.n + 1)) (hxi : xi = Scope.jsname v b!"Index" (sc.n + 1)) :
    ∀ (rest : List Val) (i : Nat), xs.drop i = rest → ∀ (k : Nat) (e e' : JEnv) (out : Bytes),
      EnvRel R.entry sc env e → BufIs buf e out →
      e.locals.find? (·.1 == xl) = some (xl, .arr js) →
      e.locals.find? (·.1 == xn) = some (xn, .num js.length) →
      e.locals.find? (·.1 == xi) = some (xi, .num i) →
      execLoop (execStmts F G fuel (.cons (.varIndex lv xl xi) rb.1)) xi xn k e = .ok e' →
      ∃ text, Spec.Eval.loopSpec (refBlock F R ae body) env v last rest i = .val text ∧
        BufIs buf e' (out ++ text) ∧ Keeps buf sc.n e e' := by
  have uL : IsUse b!"List" := Or.inr (Or.inl rfl)
  have uN : IsUse b!"Limit" := Or.inr (Or.inr (Or.inl rfl))
  have uI : IsUse b!"Index" := Or.inr (Or.inr (Or.inr (Or.inl rfl)))
  have u0 : IsUse [] := Or.inl rfl
  have ne_lv_xl : xl ≠ lv := by
    rw [hxl, hlv]; intro e; have := (jsname_inj_all hv hv uL u0 e).2.1; simp at this
  have ne_lv_xn : xn ≠ lv := by
    rw [hxn, hlv]; intro e; have := (jsname_inj_all hv hv uN u0 e).2.1; simp at this
  have ne_lv_xi : xi ≠ lv := by
    rw [hxi, hlv]; intro e; have := (jsname_inj_all hv hv uI u0 e).2.1; simp at this
  have ne_xi_xl : xl ≠ xi := by
    rw [hxl, hxi]; intro e; have := (jsname_inj_all hv hv uL uI e).2.1; simp at this
  have ne_xi_xn : xn ≠ xi := by
    rw [hxn, hxi]; intro e; have := (jsname_inj_all hv hv uN uI e).2.1; simp at this
  have nb : ∀ u, IsUse u → Scope.jsname v u (sc.n + 1) ≠ buf :=
    fun u hu e => hg.1 v u (sc.n + 1) hv hu (Nat.lt_succ_self _) e.symm
  have hlen := C04c.toJsList_length xs js hxs
  obtain ⟨hs1, _, hn1⟩ := scOk_pushForEach hs v hv
  intro rest
  induction rest with
  | nil =>
    intro i hd k e e' out hrel hb h1 h2 h3 hx
    have hle : xs.length ≤ i := List.drop_eq_nil_iff.mp hd
    cases k with
    | zero => simp [execLoop] at hx
    | succ k =>
      unfold execLoop at hx
      obtain ⟨c, hc, hx⟩ := withVal_ok hx
      rw [cond_lt h3 h2] at hc
      simp only [JOut.val.injEq] at hc
      subst hc
      have : decide ((i : Int) < (js.length : Int)) = false := by
        simp only [decide_eq_false_iff_not]; omega
      simp only [this, toBoolean, Bool.false_eq_true, if_false, SRes.ok.injEq] at hx
      subst hx
      exact ⟨[], by simp [Spec.Eval.loopSpec], by simpa using hb, Keeps.refl _ _ _⟩
  | cons item rest' ih =>
    intro i hd k e e' out hrel hb h1 h2 h3 hx
    have hlt : i < xs.length := by
      apply Nat.lt_of_not_le
      intro hge
      rw [List.drop_eq_nil_of_le hge] at hd
      cases hd
    rw [List.drop_eq_getElem_cons hlt] at hd
    simp only [List.cons.injEq] at hd
    obtain ⟨hitem, hrest⟩ := hd
    cases k with
    | zero => simp [execLoop] at hx
    | succ k =>
      unfold execLoop at hx
      obtain ⟨c, hc, hx⟩ := withVal_ok hx
      rw [cond_lt h3 h2] at hc
      simp only [JOut.val.injEq] at hc
      subst hc
      have : decide ((i : Int) < (js.length : Int)) = true := by
        simp only [decide_eq_true_eq]; omega
      simp only [this, toBoolean, if_true] at hx
      obtain ⟨eb, hbody, hx⟩ := sres_bind_ok hx
      -- the body: `var lv = xl[xi];` then the translated commands
      simp only [execStmts] at hbody
      obtain ⟨ea, hea, hbody⟩ := sres_bind_ok hbody
      simp only [execStmt] at hea
      obtain ⟨vi, hvi, hea⟩ := withVal_ok hea
      rw [indexVar_eval h1 h3] at hvi
      simp only [JOut.val.injEq] at hvi
      subst hvi
      simp only [SRes.ok.injEq] at hea
      subst hea
      have hjitem : toJsV item = some (js.getD i .undefined) := by
        have := C04c.toJsList_getD xs js i hxs
        rw [List.getD_eq_getElem?_getD, List.getElem?_eq_getElem hlt, Option.getD_some, hitem] at this
        exact this
      have hrel_a : EnvRel R.entry (sc.pushForEach v).2
          { (env.bind v item) with loops := (v, i, last) :: env.loops } (setLocal e lv (js.getD i .undefined)) := by
        have hne : xs ≠ [] := by intro e0; rw [e0] at hlt; cases hlt
        rw [hlv]
        exact envRel_foreach_iter hs v hv env e hrel item _ hjitem i last js.length
          (exact_le (by omega) (by omega) hexl) (by have := hlast hne; omega) (by rw [← hxn]; exact h2) (by rw [← hxi]; exact h3)
      have hb_a : BufIs buf (setLocal e lv (js.getD i .undefined)) out := by
        unfold BufIs
        rw [find_setLocal_ne e lv buf _ (by rw [hlv]; exact (nb _ (Or.inl rfl)).symm)]
        exact hb
      obtain ⟨ti, hti, hb_b, hk_b⟩ := ihb fuel _ rb _ _ eb out hrb hs1 (goodBuf_pushForEach hg v hv) hrel_a hb_a hbody
      rw [hn1] at hk_b
      -- the increment
      have oI : Old (sc.n + 1) xi := by rw [hxi]; exact old_jsname hv uI (Nat.le_refl _)
      have oL : Old (sc.n + 1) xl := by rw [hxl]; exact old_jsname hv uL (Nat.le_refl _)
      have oN : Old (sc.n + 1) xn := by rw [hxn]; exact old_jsname hv uN (Nat.le_refl _)
      have h3b : eb.locals.find? (·.1 == xi) = some (xi, .num i) := by
        rw [hk_b.2.2 xi (by rw [hxi]; exact nb _ uI) oI, find_setLocal_ne e lv xi _ ne_lv_xi]; exact h3
      have h1b : eb.locals.find? (·.1 == xl) = some (xl, .arr js) := by
        rw [hk_b.2.2 xl (by rw [hxl]; exact nb _ uL) oL, find_setLocal_ne e lv xl _ ne_lv_xl]; exact h1
      have h2b : eb.locals.find? (·.1 == xn) = some (xn, .num js.length) := by
        rw [hk_b.2.2 xn (by rw [hxn]; exact nb _ uN) oN, find_setLocal_ne e lv xn _ ne_lv_xn]; exact h2
      rw [eval_local h3b] at hx
      obtain ⟨v0, hv0, hx⟩ := withVal_ok hx
      simp only [JOut.val.injEq] at hv0
      subst hv0
      obtain ⟨r, hr, hx⟩ := withVal_ok hx
      simp only [incr] at hr
      obtain ⟨_, rfl⟩ := C04c.numRes_val hr
      have hcast : ((i : Int) + 1) = ((i + 1 : Nat) : Int) := by omega
      rw [hcast] at hx
      -- the state after the iteration
      have hk_a : Keeps buf sc.n e (setLocal e lv (js.getD i .undefined)) := by
        rw [hlv]; exact keeps_setNew buf sc.n e hv u0 (Nat.lt_succ_self _) _
      have hk_c : Keeps buf sc.n eb (setLocal eb xi (.num ((i + 1 : Nat) : Int))) := by
        rw [hxi]; exact keeps_setNew buf sc.n eb hv uI (Nat.lt_succ_self _) _
      have hk_ec : Keeps buf sc.n e (setLocal eb xi (.num ((i + 1 : Nat) : Int))) :=
        (hk_a.trans (hk_b.mono (Nat.le_succ _)) (Nat.le_refl _)).trans hk_c (Nat.le_refl _)
      have hrel_c := envRel_keep (sc' := sc) hrel hk_ec hs.2 (Nat.le_refl _) hg.2 rfl
      have hb_c : BufIs buf (setLocal eb xi (.num ((i + 1 : Nat) : Int))) (out ++ ti) := by
        unfold BufIs
        rw [find_setLocal_ne eb xi buf _ (by rw [hxi]; exact (nb _ uI).symm)]
        exact hb_b
      have h1c : (setLocal eb xi (.num ((i + 1 : Nat) : Int))).locals.find? (·.1 == xl) = some (xl, .arr js) := by
        rw [find_setLocal_ne eb xi xl _ ne_xi_xl]; exact h1b
      have h2c : (setLocal eb xi (.num ((i + 1 : Nat) : Int))).locals.find? (·.1 == xn) = some (xn, .num js.length) := by
        rw [find_setLocal_ne eb xi xn _ ne_xi_xn]; exact h2b
      obtain ⟨tr, htr, hb', hk'⟩ := ih (i + 1) hrest k _ e' (out ++ ti) hrel_c hb_c h1c h2c (find_setLocal_eq _ _ _) hx
      refine ⟨ti ++ tr, ?_, by rw [← List.append_assoc]; exact hb', hk_ec.trans hk' (Nat.le_refl _)⟩
      simp only [Spec.Eval.loopSpec, hti, htr, Spec.Eval.Out.bind]

/-! ### for … in range(…) -/

/-- the elements `range(a, l, s)` has in the specification -/
def rangeItems (a l s : Int) : List Val :=
  match Spec.Eval.rangeSpec a l s with
  | .val (.list xs) => xs
  | _ => []

theorem rangeSpec_val (a l s : Int) (hs : 0 < s) : Spec.Eval.rangeSpec a l s = .val (.list (rangeItems a l s)) := by
  have hs' : ¬ s ≤ 0 := by omega
  unfold rangeItems Spec.Eval.rangeSpec
  by_cases hle : l ≤ a <;> simp [hs', hle]

theorem rangeItems_done (a l s : Int) (hs : 0 < s) (h : ¬ a < l) : rangeItems a l s = [] := by
  have hs' : ¬ s ≤ 0 := by omega
  have hle : l ≤ a := by omega
  simp [rangeItems, Spec.Eval.rangeSpec, hs', hle]

theorem rangeItems_step (a l s : Int) (hs : 0 < s) (h : a < l) :
    rangeItems a l s = .int a :: rangeItems (a + s) l s := by
  have hs' : ¬ s ≤ 0 := by omega
  have hle : ¬ l ≤ a := by omega
  have hne : s ≠ 0 := by omega
  -- the count
  have hcount : ((l - a) + s - 1) / s = ((l - (a + s)) + s - 1) / s + 1 := by
    have : (l - a) + s - 1 = ((l - (a + s)) + s - 1) + 1 * s := by omega
    rw [this, Int.add_mul_ediv_right _ _ hne]
  by_cases hle2 : l ≤ a + s
  · -- one element
    have h1 : ((l - a) + s - 1) / s = 1 := by
      rw [hcount]
      have : ((l - (a + s)) + s - 1) / s = 0 := Int.ediv_eq_zero_of_lt (by omega) (by omega)
      omega
    simp [rangeItems, Spec.Eval.rangeSpec, hs', hle, hle2, h1, List.range_succ]
  · have hpos : 0 ≤ ((l - (a + s)) + s - 1) / s := Int.ediv_nonneg (by omega) (by omega)
    have htn : (((l - a) + s - 1) / s).toNat = (((l - (a + s)) + s - 1) / s).toNat + 1 := by
      rw [hcount]; omega
    simp only [rangeItems, Spec.Eval.rangeSpec, hs', hle, hle2, if_false, htn, List.range_succ_eq_map, List.map_cons,
      List.map_map]
    congr 1
    · simp
    · apply List.map_congr_left
      intro k _
      simp only [Function.comp]
      congr 1
      simp only [Nat.succ_eq_add_one, Int.natCast_add, Int.natCast_one, Int.add_mul, Int.one_mul]
      omega

theorem pushForRange_lookup (sc : Scope) (x k : Bytes) (hk : k.contains 36 = false) :
    (sc.pushForRange x).2.lookup k = if x == k then some (sc.pushForRange x).1.1 else sc.lookup k := by
  have hlim : ((Scope.kLimit ++ x) == k) = false := by
    have : (Scope.kLimit ++ x).contains 36 = true := by simp [Scope.kLimit]
    cases h : ((Scope.kLimit ++ x) == k) with
    | false => rfl
    | true => have := C04c.beq_true_eq h; subst this; simp_all
  have hidx : ((Scope.kIndex ++ x) == k) = false := by
    have : (Scope.kIndex ++ x).contains 36 = true := by simp [Scope.kIndex]
    cases h : ((Scope.kIndex ++ x) == k) with
    | false => rfl
    | true => have := C04c.beq_true_eq h; subst this; simp_all
  have hstep : ((Scope.kStep ++ x) == k) = false := by
    have : (Scope.kStep ++ x).contains 36 = true := by simp [Scope.kStep]
    cases h : ((Scope.kStep ++ x) == k) with
    | false => rfl
    | true => have := C04c.beq_true_eq h; subst this; simp_all
  have hvar : ((Scope.kVar ++ x) == k) = false := by
    have : (Scope.kVar ++ x).contains 36 = true := by simp [Scope.kVar]
    cases h : ((Scope.kVar ++ x) == k) with
    | false => rfl
    | true => have := C04c.beq_true_eq h; subst this; simp_all
  simp only [Scope.pushForRange, Scope.lookup, Scope.lookupIn, C04c.frameGet_frameSet, hlim, hidx, hstep, hvar,
    Bool.false_eq_true, if_false]
  by_cases h : (x == k) = true
  · simp [h]
  · simp [h, frameGet?]

/-- inside a range loop: the loop variable is held by its local, the loop is the innermost one, everything else as
    outside -/
theorem envRel_forrange (sc : Scope) (env : SEnv) (e : JEnv) (x : Bytes) (hx : x.contains 36 = false) (a s l : Int)
    (idx last : Nat) (hrel : EnvRel ent sc env e) (ha : SoyVerif.Spec.JsSem.exact a = true)
    (hexi : SoyVerif.Spec.JsSem.exact (idx : Int) = true)
    (hfind : e.locals.find? (·.1 == Scope.jsname x [] (sc.n + 1)) = some (Scope.jsname x [] (sc.n + 1), .num a))
    (hfs : e.locals.find? (·.1 == Scope.jsname x b!"Step" (sc.n + 1)) = some (Scope.jsname x b!"Step" (sc.n + 1), .num s))
    (hfl : e.locals.find? (·.1 == Scope.jsname x b!"Limit" (sc.n + 1)) = some (Scope.jsname x b!"Limit" (sc.n + 1), .num l))
    (hfi : e.locals.find? (·.1 == Scope.jsname x b!"Index" (sc.n + 1)) = some (Scope.jsname x b!"Index" (sc.n + 1), .num idx))
    (hdec : decide (l ≤ a + s) = (idx == last)) :
    EnvRel ent (sc.pushForRange x).2 { (env.bind x (.int a)) with loops := (x, idx, last) :: env.loops } e := by
  refine ⟨?_, ?_, hrel.2.2⟩
  · intro k hk hd
    rw [pushForRange_lookup sc x k hd]
    by_cases hkx : (x == k) = true
    · have : x = k := by simpa using hkx
      subst this
      simp only [hkx, if_true]
      refine ⟨_, hfind, ?_⟩
      simp [Spec.Eval.Env.bind, Spec.Eval.Env.lookup, Spec.Eval.find, C04c.toJsV, ha]
    · simp only [hkx, Bool.false_eq_true, if_false]
      have hr := hrel.1 k hk hd
      have hlook : Spec.Eval.Env.lookup { (env.bind x (.int a)) with loops := (x, idx, last) :: env.loops } k = env.lookup k := by
        have : (x == k) = false := by simpa using hkx
        simp [Spec.Eval.Env.bind, Spec.Eval.Env.lookup, Spec.Eval.find, this]
      rw [hlook]
      exact hr
  · intro v' f hf
    rw [pushForRange_stack] at hf
    simp only [Scope.loopFrame, rangeFrame_index sc x v' hx] at hf
    by_cases hvv : (x == v') = true
    · have : x = v' := C04c.beq_true_eq hvv
      subst this
      simp only [beq_self_eq_true, if_true, Option.some.injEq] at hf
      subst hf
      refine ⟨idx, last, by simp [Spec.Eval.findLoop], hexi, ?_, ?_⟩
      · intro ix hix
        rw [rangeFrame_index sc x x hx] at hix
        simp only [beq_self_eq_true, if_true, Option.some.injEq] at hix
        subst hix
        exact C04c.localNum_of_find hfi
      · rw [rangeFrame_step]
        intro lv lim hlv hlim
        rw [rangeFrame_var] at hlv
        rw [rangeFrame_limit] at hlim
        simp only [Option.some.injEq] at hlv hlim
        subst hlv; subst hlim
        exact ⟨a, s, l, C04c.localNum_of_find hfind, C04c.localNum_of_find hfs, C04c.localNum_of_find hfl, hdec⟩
    · have hvv' : (x == v') = false := by simpa using hvv
      simp only [hvv', Bool.false_eq_true, if_false] at hf
      obtain ⟨i', last', hfl', hfr⟩ := hrel.2.1 v' f hf
      exact ⟨i', last', by simp [Spec.Eval.findLoop, hvv', hfl'], hfr⟩

theorem applyFn_range (args : List Val) : Spec.Eval.applyFn b!"range" args =
    (match args with
     | [.int l] => Spec.Eval.rangeSpec 0 l 1
     | [.int a, .int l] => Spec.Eval.rangeSpec a l 1
     | [.int a, .int l, .int s] => Spec.Eval.rangeSpec a l s
     | _ => .error) := rfl

/-- the list a `range(…)` call denotes, from the values of its init / limit / step -/
theorem range_eval (env : SEnv) (p : Nat) (args : ExprList) (l : Expr) (a lim st : Int)
    (hl : rangeLimit args = some l) (h1 : Spec.Eval.eval env (rangeInit args) = .val (.int a))
    (h2 : Spec.Eval.eval env l = .val (.int lim)) (h3 : Spec.Eval.eval env (rangeIncr args) = .val (.int st)) :
    Spec.Eval.eval env (.func p b!"range" args) = Spec.Eval.rangeSpec a lim st := by
  have hloop : Spec.Eval.isLoopFn b!"range" = false := rfl
  have hz : ∀ z : Int, Spec.Eval.eval env (litInt z) = .val (.int z) := fun z => by simp [litInt, Spec.Eval.eval]
  cases args with
  | nil => simp [rangeLimit] at hl
  | cons x r =>
    cases r with
    | nil =>
      simp only [rangeLimit, Option.some.injEq] at hl; subst hl
      simp only [rangeInit, rangeIncr, hz, Out.val.injEq, Val.int.injEq] at h1 h3
      subst h1; subst h3
      simp [Spec.Eval.eval, hloop, Spec.Eval.evalList, h2, Spec.Eval.Out.bind, applyFn_range]
    | cons y r2 =>
      cases r2 with
      | nil =>
        simp only [rangeLimit, Option.some.injEq] at hl; subst hl
        simp only [rangeInit] at h1
        simp only [rangeIncr, hz, Out.val.injEq, Val.int.injEq] at h3
        subst h3
        simp [Spec.Eval.eval, hloop, Spec.Eval.evalList, h1, h2, Spec.Eval.Out.bind, applyFn_range]
      | cons z r3 =>
        cases r3 with
        | nil =>
          simp only [rangeLimit, Option.some.injEq] at hl; subst hl
          simp only [rangeInit] at h1
          simp only [rangeIncr] at h3
          simp [Spec.Eval.eval, hloop, Spec.Eval.evalList, h1, h2, h3, Spec.Eval.Out.bind, applyFn_range]
        | cons _ _ => simp [rangeLimit] at hl

/-- the iterations from value `a` (iteration number `idx`) on: the JavaScript loop and `loopSpec` over the rest of
    the range agree -/
theorem range_loop_ok {sc : Scope} (hs : ScOk sc) (hg : GoodBuf sc buf) (v : Bytes) (hv : v.contains 36 = false) (body : Block)
    (rb : JsStmts × Scope) (hrb : toBody ae buf body (sc.pushForRange v).2 = some rb) (ihb : BodyOk F G R ae buf body)
    (env : SEnv) (l s : Int) (hspos : 0 < s) (fuel last : Nat)
    (lv xn xs xi : Bytes) (hlv : lv = Scope.jsname v [] (sc.n + 1)) (hxn : xn = Scope.jsname v b!"Limit" (sc.n + 1))
    (hxs : xs = Scope.jsname v b!"Step" (sc.n + 1)) (hxi : xi = Scope.jsname v b!"Index" (sc.n + 1)) :
    ∀ (k : Nat) (a : Int) (idx : Nat) (e e' : JEnv) (out : Bytes),
      SoyVerif.Spec.JsSem.exact a = true → SoyVerif.Spec.JsSem.exact (idx : Int) = true →
      (a < l → idx + (rangeItems a l s).length = last + 1) → EnvRel R.entry sc env e → BufIs buf e out →
      e.locals.find? (·.1 == xn) = some (xn, .num l) →
      e.locals.find? (·.1 == xs) = some (xs, .num s) →
      e.locals.find? (·.1 == xi) = some (xi, .num idx) →
      e.locals.find? (·.1 == lv) = some (lv, .num a) →
      execLoopStep (execStmts F G fuel rb.1) lv xn xs xi k e = .ok e' →
      ∃ text, Spec.Eval.loopSpec (refBlock F R ae body) env v last (rangeItems a l s) idx = .val text ∧
        BufIs buf e' (out ++ text) ∧ Keeps buf sc.n e e' ∧
        e'.locals.find? (·.1 == xi) = some (xi, .num ((idx + (rangeItems a l s).length : Nat) : Int)) := by
  have uN : IsUse b!"Limit" := Or.inr (Or.inr (Or.inl rfl))
  have uS : IsUse b!"Step" := Or.inr (Or.inr (Or.inr (Or.inr rfl)))
  have uI : IsUse b!"Index" := Or.inr (Or.inr (Or.inr (Or.inl rfl)))
  have u0 : IsUse [] := Or.inl rfl
  have ne_lv_xn : xn ≠ lv := by
    rw [hxn, hlv]; intro e; have := (jsname_inj_all hv hv uN u0 e).2.1; simp at this
  have ne_lv_xs : xs ≠ lv := by
    rw [hxs, hlv]; intro e; have := (jsname_inj_all hv hv uS u0 e).2.1; simp at this
  have ne_lv_xi : xi ≠ lv := by
    rw [hxi, hlv]; intro e; have := (jsname_inj_all hv hv uI u0 e).2.1; simp at this
  have ne_xi_xn : xn ≠ xi := by
    rw [hxn, hxi]; intro e; have := (jsname_inj_all hv hv uN uI e).2.1; simp at this
  have ne_xi_xs : xs ≠ xi := by
    rw [hxs, hxi]; intro e; have := (jsname_inj_all hv hv uS uI e).2.1; simp at this
  have nb : ∀ u, IsUse u → Scope.jsname v u (sc.n + 1) ≠ buf :=
    fun u hu e => hg.1 v u (sc.n + 1) hv hu (Nat.lt_succ_self _) e.symm
  obtain ⟨hs1, _, hn1⟩ := scOk_pushForRange hs v hv
  intro k
  induction k with
  | zero => intro a idx e e' out _ _ _ _ _ _ _ _ _ hx; simp [execLoopStep] at hx
  | succ k ih =>
    intro a idx e e' out hexa hexi hlen hrel hb h2 hst hix h3 hx
    unfold execLoopStep at hx
    obtain ⟨c, hc, hx⟩ := withVal_ok hx
    rw [cond_lt h3 h2] at hc
    simp only [JOut.val.injEq] at hc
    subst hc
    by_cases hlt : a < l
    · have : decide (a < l) = true := by simpa using hlt
      simp only [this, toBoolean, if_true] at hx
      obtain ⟨eb, hbody, hx⟩ := sres_bind_ok hx
      have hitems := rangeItems_step a l s hspos hlt
      have hlen' := hlen hlt
      rw [hitems, List.length_cons] at hlen'
      have hdec : decide (l ≤ a + s) = (idx == last) := by
        by_cases hnx : a + s < l
        · have h1 := rangeItems_step (a + s) l s hspos hnx
          rw [h1, List.length_cons] at hlen'
          have e1 : decide (l ≤ a + s) = false := by simp; omega
          have e2 : (idx == last) = false := by simp; omega
          rw [e1, e2]
        · have h1 := rangeItems_done (a + s) l s hspos hnx
          rw [h1, List.length_nil] at hlen'
          have e1 : decide (l ≤ a + s) = true := by simp; omega
          have e2 : (idx == last) = true := by simp; omega
          rw [e1, e2]
      have hrel_a : EnvRel R.entry (sc.pushForRange v).2
          { (env.bind v (.int a)) with loops := (v, idx, last) :: env.loops } e :=
        envRel_forrange sc env e v hv a s l idx last hrel hexa hexi (by rw [← hlv]; exact h3) (by rw [← hxs]; exact hst)
          (by rw [← hxn]; exact h2) (by rw [← hxi]; exact hix) hdec
      obtain ⟨ti, hti, hb_b, hk_b⟩ := ihb fuel _ rb _ _ eb out hrb hs1 (goodBuf_pushForRange hg v hv) hrel_a hb hbody
      rw [hn1] at hk_b
      have oV : Old (sc.n + 1) lv := by rw [hlv]; exact old_jsname hv u0 (Nat.le_refl _)
      have oN : Old (sc.n + 1) xn := by rw [hxn]; exact old_jsname hv uN (Nat.le_refl _)
      have oS : Old (sc.n + 1) xs := by rw [hxs]; exact old_jsname hv uS (Nat.le_refl _)
      have oI : Old (sc.n + 1) xi := by rw [hxi]; exact old_jsname hv uI (Nat.le_refl _)
      have h3b : eb.locals.find? (·.1 == lv) = some (lv, .num a) := by
        rw [hk_b.2.2 lv (by rw [hlv]; exact nb _ u0) oV]; exact h3
      have h2b : eb.locals.find? (·.1 == xn) = some (xn, .num l) := by
        rw [hk_b.2.2 xn (by rw [hxn]; exact nb _ uN) oN]; exact h2
      have hsb : eb.locals.find? (·.1 == xs) = some (xs, .num s) := by
        rw [hk_b.2.2 xs (by rw [hxs]; exact nb _ uS) oS]; exact hst
      have hib : eb.locals.find? (·.1 == xi) = some (xi, .num idx) := by
        rw [hk_b.2.2 xi (by rw [hxi]; exact nb _ uI) oI]; exact hix
      -- `lv += step`
      obtain ⟨r, hr, hx⟩ := withVal_ok hx
      have hadd : eval eb (.bin .add (.local lv) (.local xs)) = numRes (a + s) := by
        simp [eval, JOut.bind, binop, h3b, hsb]
      rw [hadd] at hr
      obtain ⟨hexa', rfl⟩ := C04c.numRes_val hr
      -- `index++`
      have hib2 : (setLocal eb lv (.num (a + s))).locals.find? (·.1 == xi) = some (xi, .num idx) := by
        rw [find_setLocal_ne eb lv xi _ ne_lv_xi]; exact hib
      rw [eval_local hib2] at hx
      obtain ⟨v0, hv0, hx⟩ := withVal_ok hx
      simp only [JOut.val.injEq] at hv0
      subst hv0
      obtain ⟨r2, hr2, hx⟩ := withVal_ok hx
      simp only [incr] at hr2
      obtain ⟨hexi', rfl⟩ := C04c.numRes_val hr2
      have hcast : ((idx : Int) + 1) = ((idx + 1 : Nat) : Int) := by omega
      rw [hcast] at hx hexi'
      have hlen2 : a + s < l → (idx + 1) + (rangeItems (a + s) l s).length = last + 1 := by
        intro _; omega
      have hk_c : Keeps buf sc.n eb (setLocal eb lv (.num (a + s))) := by
        rw [hlv]; exact keeps_setNew buf sc.n eb hv u0 (Nat.lt_succ_self _) _
      have hk_d : Keeps buf sc.n (setLocal eb lv (.num (a + s)))
          (setLocal (setLocal eb lv (.num (a + s))) xi (.num ((idx + 1 : Nat) : Int))) := by
        rw [hxi]; exact keeps_setNew buf sc.n _ hv uI (Nat.lt_succ_self _) _
      have hk_ec := ((hk_b.mono (Nat.le_succ _)).trans hk_c (Nat.le_refl _)).trans hk_d (Nat.le_refl _)
      have hrel_c := envRel_keep (sc' := sc) hrel hk_ec hs.2 (Nat.le_refl _) hg.2 rfl
      have hb_c : BufIs buf (setLocal (setLocal eb lv (.num (a + s))) xi (.num ((idx + 1 : Nat) : Int))) (out ++ ti) := by
        unfold BufIs
        rw [find_setLocal_ne _ xi buf _ (by rw [hxi]; exact (nb _ uI).symm),
          find_setLocal_ne eb lv buf _ (by rw [hlv]; exact (nb _ u0).symm)]
        exact hb_b
      have h2c : (setLocal (setLocal eb lv (.num (a + s))) xi (.num ((idx + 1 : Nat) : Int))).locals.find? (·.1 == xn) =
          some (xn, .num l) := by
        rw [find_setLocal_ne _ xi xn _ ne_xi_xn, find_setLocal_ne eb lv xn _ ne_lv_xn]; exact h2b
      have hsc : (setLocal (setLocal eb lv (.num (a + s))) xi (.num ((idx + 1 : Nat) : Int))).locals.find? (·.1 == xs) =
          some (xs, .num s) := by
        rw [find_setLocal_ne _ xi xs _ ne_xi_xs, find_setLocal_ne eb lv xs _ ne_lv_xs]; exact hsb
      have h3c : (setLocal (setLocal eb lv (.num (a + s))) xi (.num ((idx + 1 : Nat) : Int))).locals.find? (·.1 == lv) =
          some (lv, .num (a + s)) := by
        rw [find_setLocal_ne _ xi lv _ ne_lv_xi.symm]; exact find_setLocal_eq _ _ _
      obtain ⟨tr, htr, hb', hk', hfi⟩ := ih (a + s) (idx + 1) _ e' (out ++ ti) hexa' hexi' hlen2 hrel_c hb_c h2c hsc (find_setLocal_eq _ _ _) h3c hx
      refine ⟨ti ++ tr, ?_, by rw [← List.append_assoc]; exact hb', hk_ec.trans hk' (Nat.le_refl _), ?_⟩
      · rw [hitems]
        simp only [Spec.Eval.loopSpec, hti, htr, Spec.Eval.Out.bind]
      · rw [hfi, hitems, List.length_cons]
        have : idx + 1 + (rangeItems (a + s) l s).length = idx + ((rangeItems (a + s) l s).length + 1) := by omega
        rw [this]
    · have : decide (a < l) = false := by simpa using hlt
      simp only [this, toBoolean, Bool.false_eq_true, if_false, SRes.ok.injEq] at hx
      subst hx
      rw [rangeItems_done a l s hspos hlt]
      exact ⟨[], by simp [Spec.Eval.loopSpec], by simpa using hb, Keeps.refl _ _ _, by simpa using hix⟩

/-- a loop that completes has compared two numbers -/
theorem loop_first {body : JEnv → SRes} {i lim step idx : Bytes} {k : Nat} {e e' : JEnv} {vi vl : JVal}
    (hx : execLoopStep body i lim step idx k e = .ok e') (h1 : e.locals.find? (·.1 == i) = some (i, vi))
    (h2 : e.locals.find? (·.1 == lim) = some (lim, vl)) : ∃ a l, vi = .num a ∧ vl = .num l := by
  cases k with
  | zero => simp [execLoopStep] at hx
  | succ k =>
    unfold execLoopStep at hx
    obtain ⟨c, hc, _⟩ := withVal_ok hx
    have : eval e (.bin .lt (.local i) (.local lim)) = binop .lt vi vl := by
      simp [eval, JOut.bind, h1, h2]
    rw [this] at hc
    cases vi <;> cases vl <;> simp [binop] at hc
    exact ⟨_, _, rfl, rfl⟩

/-- a range loop that completes: the list Spec/Eval loops over, the text of the loop, and the index local — the number of
    iterations -/
theorem range_core (v : Bytes) (list : Expr) (body : Block) (ihb : BodyOk F G R ae buf body) :
    ∀ (fuel : Nat) (sc : Scope) (r : JsStmts × Scope) (env : SEnv) (jenv jenv' : JEnv) (out : Bytes),
      rangeJoin v list sc (toBody ae buf body (sc.pushForRange v).2) true = some r → ScOk sc → GoodBuf sc buf → EnvRel R.entry sc env jenv →
      BufIs buf jenv out → execStmts F G fuel r.1 jenv = .ok jenv' →
      ∃ xs text, Spec.Eval.eval env list = .val (.list xs) ∧
        (match xs with
          | [] => text = []
          | x :: xs' => Spec.Eval.loopSpec (refBlock F R ae body) env v xs'.length (x :: xs') 0 = .val text) ∧
        EnvRel R.entry r.2 env jenv' ∧ BufIs buf jenv' (out ++ text) ∧ Keeps buf sc.n jenv jenv' ∧
        jenv'.locals.find? (·.1 == (sc.pushForRange v).1.2.2.2) = some ((sc.pushForRange v).1.2.2.2, .num (xs.length : Int)) := by
  intro fuel sc r env jenv jenv' out h hs hg hrel hb hx
  obtain ⟨hv, _, args, l, c, jl, ji, rbv, pc, hr, hl, hinc, hpos, hjl, hji, hrb, rfl⟩ := rangeJoin_some h
  obtain ⟨pf, rfl⟩ := isRangeCall_some hr
  have uN : IsUse b!"Limit" := Or.inr (Or.inr (Or.inl rfl))
  have uS : IsUse b!"Step" := Or.inr (Or.inr (Or.inr (Or.inr rfl)))
  have uI : IsUse b!"Index" := Or.inr (Or.inr (Or.inr (Or.inl rfl)))
  have u0 : IsUse [] := Or.inl rfl
  have nb : ∀ u, IsUse u → Scope.jsname v u (sc.n + 1) ≠ buf :=
    fun u hu e => hg.1 v u (sc.n + 1) hv hu (Nat.lt_succ_self _) e.symm
  -- the four names, and that they differ
  have hd : ∀ {u u' : Bytes}, IsUse u → IsUse u' → u ≠ u' → Scope.jsname v u (sc.n + 1) ≠ Scope.jsname v u' (sc.n + 1) :=
    fun hu hu' hne e => hne (jsname_inj_all hv hv hu hu' e).2.1
  have hNS : Scope.jsname v b!"Limit" (sc.n + 1) ≠ Scope.jsname v b!"Step" (sc.n + 1) := hd uN uS (by decide)
  have hNV : Scope.jsname v b!"Limit" (sc.n + 1) ≠ Scope.jsname v [] (sc.n + 1) := hd uN u0 (by decide)
  have hNI : Scope.jsname v b!"Limit" (sc.n + 1) ≠ Scope.jsname v b!"Index" (sc.n + 1) := hd uN uI (by decide)
  have hSV : Scope.jsname v b!"Step" (sc.n + 1) ≠ Scope.jsname v [] (sc.n + 1) := hd uS u0 (by decide)
  have hSI : Scope.jsname v b!"Step" (sc.n + 1) ≠ Scope.jsname v b!"Index" (sc.n + 1) := hd uS uI (by decide)
  have hVI : Scope.jsname v [] (sc.n + 1) ≠ Scope.jsname v b!"Index" (sc.n + 1) := hd u0 uI (by decide)
  simp only [rangeStmts, JsStmts.one, execStmts] at hx
  obtain ⟨e1, h1, hx⟩ := sres_bind_ok hx
  obtain ⟨e2, h2, hx⟩ := sres_bind_ok hx
  obtain ⟨e3, h3, hx⟩ := sres_bind_ok hx
  simp only [SRes.ok.injEq] at hx
  subst hx
  -- `var vLimit = limit;`
  simp only [execStmt] at h1
  obtain ⟨jlim, hjlim, h1⟩ := withVal_ok h1
  simp only [SRes.ok.injEq] at h1
  subst h1
  obtain ⟨vlim, hvlim, hlimj⟩ := C04c.gen_correct_refs_partial sc env jenv hrel l jl jlim hjl hjlim
  -- `var vStep = c;`
  simp only [execStmt] at h2
  obtain ⟨jstep, hjstep, h2⟩ := withVal_ok h2
  simp only [SRes.ok.injEq] at h2
  subst h2
  have hstepv : jstep = .num c := by
    unfold eval at hjstep
    split at hjstep
    · simp only [JOut.val.injEq] at hjstep; exact hjstep.symm
    · cases hjstep
  subst hstepv
  have k1 : Keeps buf sc.n jenv (setLocal jenv (Scope.jsname v b!"Limit" (sc.n + 1)) jlim) :=
    keeps_setNew buf sc.n jenv hv uN (Nat.lt_succ_self _) _
  have k2 : Keeps buf sc.n _ (setLocal (setLocal jenv (Scope.jsname v b!"Limit" (sc.n + 1)) jlim)
      (Scope.jsname v b!"Step" (sc.n + 1)) (.num c)) := keeps_setNew buf sc.n _ hv uS (Nat.lt_succ_self _) _
  have k12 := k1.trans k2 (Nat.le_refl _)
  have hrel2 := envRel_keep (sc' := sc) hrel k12 hs.2 (Nat.le_refl _) hg.2 rfl
  -- `for (var v = init, vIndex = 0; …`
  simp only [execStmt] at h3
  obtain ⟨jinit, hjinit, h3⟩ := withVal_ok h3
  obtain ⟨vinit, hvinit, hinitj⟩ := C04c.gen_correct_refs_partial sc env _ hrel2 _ ji jinit hji hjinit
  have k3 : Keeps buf sc.n _ (setLocal (setLocal (setLocal jenv (Scope.jsname v b!"Limit" (sc.n + 1)) jlim)
      (Scope.jsname v b!"Step" (sc.n + 1)) (.num c)) (Scope.jsname v [] (sc.n + 1)) jinit) :=
    keeps_setNew buf sc.n _ hv u0 (Nat.lt_succ_self _) _
  have k4 : Keeps buf sc.n _ (setLocal (setLocal (setLocal (setLocal jenv (Scope.jsname v b!"Limit" (sc.n + 1)) jlim)
      (Scope.jsname v b!"Step" (sc.n + 1)) (.num c)) (Scope.jsname v [] (sc.n + 1)) jinit)
      (Scope.jsname v b!"Index" (sc.n + 1)) (.num 0)) := keeps_setNew buf sc.n _ hv uI (Nat.lt_succ_self _) _
  have k1234 := (k12.trans k3 (Nat.le_refl _)).trans k4 (Nat.le_refl _)
  have hrel4 := envRel_keep (sc' := sc) hrel k1234 hs.2 (Nat.le_refl _) hg.2 rfl
  have fN : (setLocal (setLocal (setLocal (setLocal jenv (Scope.jsname v b!"Limit" (sc.n + 1)) jlim)
      (Scope.jsname v b!"Step" (sc.n + 1)) (.num c)) (Scope.jsname v [] (sc.n + 1)) jinit)
      (Scope.jsname v b!"Index" (sc.n + 1)) (.num 0)).locals.find? (·.1 == Scope.jsname v b!"Limit" (sc.n + 1)) =
      some (Scope.jsname v b!"Limit" (sc.n + 1), jlim) := by
    rw [find_setLocal_ne _ _ _ _ hNI, find_setLocal_ne _ _ _ _ hNV, find_setLocal_ne _ _ _ _ hNS]; exact find_setLocal_eq _ _ _
  have fS : (setLocal (setLocal (setLocal (setLocal jenv (Scope.jsname v b!"Limit" (sc.n + 1)) jlim)
      (Scope.jsname v b!"Step" (sc.n + 1)) (.num c)) (Scope.jsname v [] (sc.n + 1)) jinit)
      (Scope.jsname v b!"Index" (sc.n + 1)) (.num 0)).locals.find? (·.1 == Scope.jsname v b!"Step" (sc.n + 1)) =
      some (Scope.jsname v b!"Step" (sc.n + 1), .num c) := by
    rw [find_setLocal_ne _ _ _ _ hSI, find_setLocal_ne _ _ _ _ hSV]; exact find_setLocal_eq _ _ _
  have fV : (setLocal (setLocal (setLocal (setLocal jenv (Scope.jsname v b!"Limit" (sc.n + 1)) jlim)
      (Scope.jsname v b!"Step" (sc.n + 1)) (.num c)) (Scope.jsname v [] (sc.n + 1)) jinit)
      (Scope.jsname v b!"Index" (sc.n + 1)) (.num 0)).locals.find? (·.1 == Scope.jsname v [] (sc.n + 1)) =
      some (Scope.jsname v [] (sc.n + 1), jinit) := by
    rw [find_setLocal_ne _ _ _ _ hVI]; exact find_setLocal_eq _ _ _
  obtain ⟨a, lim, rfl, rfl⟩ := loop_first h3 fV fN
  obtain ⟨rfl, hexa⟩ := C04c.toJsV_num hinitj
  obtain ⟨rfl, _⟩ := C04c.toJsV_num hlimj
  have hb4 : BufIs buf (setLocal (setLocal (setLocal (setLocal jenv (Scope.jsname v b!"Limit" (sc.n + 1)) (.num lim))
      (Scope.jsname v b!"Step" (sc.n + 1)) (.num c)) (Scope.jsname v [] (sc.n + 1)) (.num a))
      (Scope.jsname v b!"Index" (sc.n + 1)) (.num 0)) out := by
    unfold BufIs
    rw [find_setLocal_ne _ _ buf _ (nb _ uI).symm, find_setLocal_ne _ _ buf _ (nb _ u0).symm,
      find_setLocal_ne _ _ buf _ (nb _ uS).symm, find_setLocal_ne _ _ buf _ (nb _ uN).symm]
    exact hb
  obtain ⟨text, ht, hb', hk', hfi⟩ := range_loop_ok F G R ae buf hs hg v hv body rbv hrb ihb env lim c hpos fuel
    ((rangeItems a lim c).length - 1) _ _ _ _ rfl rfl rfl rfl fuel a 0 _ e3 out hexa (by decide)
    (fun hlt => by rw [rangeItems_step a lim c hpos hlt]; simp) hrel4 hb4 fN fS (find_setLocal_eq _ _ _) fV h3
  have hk := k1234.trans hk' (Nat.le_refl _)
  have hst : rbv.2.pop.stack = sc.stack := by
    obtain ⟨p1, p2, _⟩ := scOk_pushForRange hs v hv
    obtain ⟨_, b2, _⟩ := toBody_scope ae body buf _ rbv hrb p1
    simp only [Scope.pop]; rw [b2, p2]
  have hev : Spec.Eval.eval env (.func pf b!"range" args) = .val (.list (rangeItems a lim c)) := by
    rw [range_eval env pf args l a lim c hl hvinit hvlim (by rw [hinc]; simp [Spec.Eval.eval]), rangeSpec_val a lim c hpos]
  refine ⟨rangeItems a lim c, text, hev, ?_, envRel_keep hrel hk hs.2 (Nat.le_refl _) hg.2 hst, hb', hk, ?_⟩
  · cases hitems : rangeItems a lim c with
    | nil =>
      rw [hitems] at ht
      simp only [Spec.Eval.loopSpec, Out.val.injEq] at ht
      exact ht.symm
    | cons x xs' =>
      rw [hitems] at ht
      simpa using ht
  · have hnm : (sc.pushForRange v).1.2.2.2 = Scope.jsname v b!"Index" (sc.n + 1) := rfl
    rw [hnm]
    simpa using hfi

theorem range_ok (p : Nat) (v : Bytes) (list : Expr) (body : Block) (ihb : BodyOk F G R ae buf body) :
    ∀ (fuel : Nat) (sc : Scope) (r : JsStmts × Scope) (env : SEnv) (jenv jenv' : JEnv) (out : Bytes),
      rangeJoin v list sc (toBody ae buf body (sc.pushForRange v).2) true = some r → ScOk sc → GoodBuf sc buf → EnvRel R.entry sc env jenv →
      BufIs buf jenv out → execStmts F G fuel r.1 jenv = .ok jenv' →
      ∃ text env', refCmd F R ae (.forc p v list body none) env = .val (text, env') ∧ EnvRel R.entry r.2 env' jenv' ∧
        BufIs buf jenv' (out ++ text) ∧ Keeps buf sc.n jenv jenv' := by
  intro fuel sc r env jenv jenv' out h hs hg hrel hb hx
  obtain ⟨xs, text, hev, ht, hrel', hb', hk, _⟩ := range_core F G R ae buf v list body ihb fuel sc r env jenv jenv' out h hs hg hrel hb hx
  refine ⟨text, env, ?_, hrel', hb', hk⟩
  cases xs with
  | nil => simp only at ht; subst ht; simp [refCmd, hev, Spec.Eval.Out.bind]
  | cons x xs' => simp only at ht; simp [refCmd, hev, Spec.Eval.Out.bind, ht]

/-- `var xList = list; var xLimit = xList.length;` and then the loop -/
theorem foreach_core {sc : Scope} (hs : ScOk sc) (hg : GoodBuf sc buf) (v : Bytes) (hv : v.contains 36 = false) (list : Expr) (j : JsExpr)
    (hj : toAst sc list = some j) (body : Block) (rb : JsStmts × Scope)
    (hrb : toBody ae buf body (sc.pushForEach v).2 = some rb) (ihb : BodyOk F G R ae buf body)
    (env : SEnv) (jenv : JEnv) (out : Bytes) (hrel : EnvRel R.entry sc env jenv) (hb : BufIs buf jenv out) (fuel : Nat)
    (lv xl xn xi : Bytes) (hlv : lv = Scope.jsname v [] (sc.n + 1)) (hxl : xl = Scope.jsname v b!"List" (sc.n + 1))
    (hxn : xn = Scope.jsname v b!"Limit" (sc.n + 1)) (hxi : xi = Scope.jsname v b!"Index" (sc.n + 1))
    (e1 e2 : JEnv) (h1 : execStmt F G fuel (.var xl j) jenv = .ok e1) (h2 : execStmt F G fuel (.varLength xn xl) e1 = .ok e2) :
    ∃ xs js, Spec.Eval.eval env list = .val (.list xs) ∧ C04c.toJsList xs = some js ∧
      SoyVerif.Spec.JsSem.exact (js.length : Int) = true ∧ EnvRel R.entry sc env e2 ∧ BufIs buf e2 out ∧ Keeps buf sc.n jenv e2 ∧
      e2 = setLocal (setLocal jenv xl (.arr js)) xn (.num js.length) ∧
      e2.locals.find? (·.1 == xn) = some (xn, .num js.length) ∧
      (∀ e', execStmt F G fuel (.forUp xi xn (.cons (.varIndex lv xl xi) rb.1)) e2 = .ok e' →
        ∃ text, Spec.Eval.loopSpec (refBlock F R ae body) env v (xs.length - 1) xs 0 = .val text ∧
          BufIs buf e' (out ++ text) ∧ Keeps buf sc.n e2 e') := by
  have uL : IsUse b!"List" := Or.inr (Or.inl rfl)
  have uN : IsUse b!"Limit" := Or.inr (Or.inr (Or.inl rfl))
  have uI : IsUse b!"Index" := Or.inr (Or.inr (Or.inr (Or.inl rfl)))
  have nb : ∀ u, IsUse u → Scope.jsname v u (sc.n + 1) ≠ buf :=
    fun u hu e => hg.1 v u (sc.n + 1) hv hu (Nat.lt_succ_self _) e.symm
  have ne_xn_xl : xl ≠ xn := by
    rw [hxl, hxn]; intro e; have := (jsname_inj_all hv hv uL uN e).2.1; simp at this
  have ne_xi_xl : xl ≠ xi := by
    rw [hxl, hxi]; intro e; have := (jsname_inj_all hv hv uL uI e).2.1; simp at this
  have ne_xi_xn : xn ≠ xi := by
    rw [hxn, hxi]; intro e; have := (jsname_inj_all hv hv uN uI e).2.1; simp at this
  -- the list
  simp only [execStmt] at h1
  obtain ⟨jl, hjl, h1⟩ := withVal_ok h1
  simp only [SRes.ok.injEq] at h1
  subst h1
  obtain ⟨lvv, hlvv, hlj⟩ := C04c.gen_correct_refs_partial sc env jenv hrel list j jl hj hjl
  -- its length
  simp only [execStmt] at h2
  obtain ⟨r2, hr2, h2⟩ := withVal_ok h2
  simp only [SRes.ok.injEq] at h2
  subst h2
  have hlen : eval (setLocal jenv xl jl) (.call1 .length (.local xl)) = apply1 .length jl := by
    simp [eval, JOut.bind, setLocal]
  rw [hlen] at hr2
  cases jl <;> simp [apply1] at hr2
  rename_i js
  obtain ⟨hexl, rfl⟩ := C04c.numRes_val hr2
  obtain ⟨xs, rfl, hxs⟩ := C04c.toJsV_arr hlj
  have k1 : Keeps buf sc.n jenv (setLocal jenv xl (.arr js)) := by
    rw [hxl]; exact keeps_setNew buf sc.n jenv hv uL (Nat.lt_succ_self _) _
  have k2 : Keeps buf sc.n (setLocal jenv xl (.arr js)) (setLocal (setLocal jenv xl (.arr js)) xn (.num js.length)) := by
    rw [hxn]; exact keeps_setNew buf sc.n _ hv uN (Nat.lt_succ_self _) _
  have k12 := k1.trans k2 (Nat.le_refl _)
  have hrel2 := envRel_keep (sc' := sc) hrel k12 hs.2 (Nat.le_refl _) hg.2 rfl
  have hb2 : BufIs buf (setLocal (setLocal jenv xl (.arr js)) xn (.num js.length)) out := by
    unfold BufIs
    rw [find_setLocal_ne _ xn buf _ (by rw [hxn]; exact (nb _ uN).symm),
      find_setLocal_ne _ xl buf _ (by rw [hxl]; exact (nb _ uL).symm)]
    exact hb
  refine ⟨xs, js, hlvv, hxs, hexl, hrel2, hb2, k12, rfl, find_setLocal_eq _ _ _, ?_⟩
  intro e' hx
  simp only [execStmt] at hx
  have k3 : Keeps buf sc.n (setLocal (setLocal jenv xl (.arr js)) xn (.num js.length))
      (setLocal (setLocal (setLocal jenv xl (.arr js)) xn (.num js.length)) xi (.num 0)) := by
    rw [hxi]; exact keeps_setNew buf sc.n _ hv uI (Nat.lt_succ_self _) _
  have hrel3 := envRel_keep (sc' := sc) hrel2 k3 hs.2 (Nat.le_refl _) hg.2 rfl
  have hb3 : BufIs buf (setLocal (setLocal (setLocal jenv xl (.arr js)) xn (.num js.length)) xi (.num 0)) out := by
    unfold BufIs
    rw [find_setLocal_ne _ xi buf _ (by rw [hxi]; exact (nb _ uI).symm)]
    exact hb2
  obtain ⟨text, ht, hb', hk'⟩ := loop_ok F G R ae buf hs hg v hv body rb hrb ihb env xs js hxs fuel (xs.length - 1) hexl
    (fun hne => by have := List.length_pos_iff.mpr hne; omega)
    lv xl xn xi hlv hxl hxn hxi xs 0 (List.drop_zero) fuel _ e' out hrel3 hb3
    (by rw [find_setLocal_ne _ xi xl _ ne_xi_xl, find_setLocal_ne _ xn xl _ ne_xn_xl]; exact find_setLocal_eq _ _ _)
    (by rw [find_setLocal_ne _ xi xn _ ne_xi_xn]; exact find_setLocal_eq _ _ _)
    (find_setLocal_eq _ _ _) hx
  exact ⟨text, ht, hb', k3.trans hk' (Nat.le_refl _)⟩

theorem forc_none_ok (p : Nat) (v : Bytes) (list : Expr) (body : Block) (ihb : BodyOk F G R ae buf body) :
    CmdOk F G R ae buf (.forc p v list body none) := by
  intro fuel sc r env jenv jenv' out h hs hg hrel hb hx
  have hscope := toCmd_scope ae _ buf sc r h hs
  unfold toCmd at h
  rcases loopJoin_some h with h | h
  case inr => exact range_ok F G R ae buf p v list body ihb fuel sc r env jenv jenv' out h hs hg hrel hb hx
  obtain ⟨hv, _, j, rbv, hj, hrb, he⟩ := forcJoin_some h
  simp only at he
  subst he
  simp only [foreachStmts, JsStmts.one, execStmts] at hx
  obtain ⟨e1, h1, hx⟩ := sres_bind_ok hx
  obtain ⟨e2, h2, hx⟩ := sres_bind_ok hx
  obtain ⟨e3, h3, hx⟩ := sres_bind_ok hx
  simp only [SRes.ok.injEq] at hx
  subst hx
  obtain ⟨xs, js, hev, hxs, _, _, _, k12, _, _, hloop⟩ := foreach_core F G R ae buf hs hg v hv list j hj body rbv hrb ihb env jenv out
    hrel hb fuel _ _ _ _ rfl rfl rfl rfl e1 e2 h1 h2
  obtain ⟨text, ht, hb', hk'⟩ := hloop e3 h3
  have hk := k12.trans hk' (Nat.le_refl _)
  have hst : rbv.2.pop.stack = sc.stack := by
    obtain ⟨⟨hne, _⟩, htl, _⟩ := hscope
    obtain ⟨_, p2, _⟩ := scOk_pushForEach hs v hv
    obtain ⟨_, b2, _⟩ := toBody_scope ae body buf _ rbv hrb (scOk_pushForEach hs v hv).1
    simp only [Scope.pop]; rw [b2, p2]
  refine ⟨text, env, ?_, envRel_keep hrel hk hs.2 (Nat.le_refl _) hg.2 hst, hb', hk⟩
  cases xs with
  | nil =>
    simp only [Spec.Eval.loopSpec, Out.val.injEq] at ht
    subst ht
    simp [refCmd, hev, Spec.Eval.Out.bind]
  | cons x xs' =>
    have ht' : Spec.Eval.loopSpec (refBlock F R ae body) env v xs'.length (x :: xs') 0 = .val text := by simpa using ht
    simp [refCmd, hev, Spec.Eval.Out.bind, ht']

theorem forc_some_ok (p : Nat) (v : Bytes) (list : Expr) (body ie : Block) (ihb : BodyOk F G R ae buf body)
    (ihe : BlockOk F G R ae buf ie) : CmdOk F G R ae buf (.forc p v list body (some ie)) := by
  intro fuel sc r env jenv jenv' out h hs hg hrel hb hx
  unfold toCmd at h
  rcases loopJoin_ie_some h with h | ⟨r0, re, hr0, hre, rfl⟩
  case inr =>
    -- a range loop, then `if (index == 0) {…}` outside its frame
    rw [execStmts_append] at hx
    obtain ⟨e1, hx1, hx2⟩ := sres_bind_ok hx
    obtain ⟨xs, text, hev, ht, hrel1, hb1, hk1, hfi⟩ := range_core F G R ae buf v list body ihb fuel sc r0 env jenv e1 out hr0 hs hg hrel hb hx1
    obtain ⟨hv, _, args, l, c, jl, ji, rbv, pc, _, _, _, _, _, _, hrb, hr0e⟩ := rangeJoin_some hr0
    have hst : r0.2.stack = sc.stack := by
      rw [hr0e]
      obtain ⟨p1, p2, _⟩ := scOk_pushForRange hs v hv
      obtain ⟨_, b2, _⟩ := toBody_scope ae body buf _ rbv hrb p1
      simp only [Scope.pop]; rw [b2, p2]
    have hn : sc.n ≤ r0.2.n := by
      rw [hr0e]
      obtain ⟨p1, _, p3⟩ := scOk_pushForRange hs v hv
      obtain ⟨_, _, b3⟩ := toBody_scope ae body buf _ rbv hrb p1
      simp only [Scope.pop]; omega
    have hs' : ScOk r0.2 := scOk_of_stack hs hst hn
    obtain ⟨c1, c2⟩ := toBlock_scope ae ie buf _ re hre hs'
    rw [execStmts_one] at hx2
    simp only [execStmt] at hx2
    obtain ⟨cv, hcv, hx2⟩ := withVal_ok hx2
    have hcz : eval e1 (.loopFirst (sc.pushForRange v).1.2.2.2) = .val (.bool ((xs.length : Int) == 0)) := by
      simp [eval, localNum, hfi]
    rw [hcz] at hcv
    simp only [JOut.val.injEq] at hcv
    subst hcv
    cases xs with
    | nil =>
      simp only [List.length_nil, Int.natCast_zero, beq_self_eq_true, toBoolean, if_true] at hx2
      simp only at ht
      subst ht
      obtain ⟨t2, ht2, hb2, hk2⟩ := ihe fuel _ re env e1 jenv' (out ++ []) hre hs' (goodBuf_of_stack hg hst hn) hrel1 hb1 hx2
      have hk := hk1.trans (hk2.mono hn) (Nat.le_refl _)
      refine ⟨t2, env, ?_, envRel_keep hrel hk hs.2 (Nat.le_refl _) hg.2 (c1.trans hst), by simpa using hb2, hk⟩
      simp [refCmd, hev, Spec.Eval.Out.bind, ht2]
    | cons x xs' =>
      have hne : ((((x :: xs').length : Nat) : Int) == 0) = false := by simp; omega
      simp only [hne, toBoolean, Bool.false_eq_true, if_false, SRes.ok.injEq] at hx2
      subst hx2
      simp only at ht
      refine ⟨text, env, ?_, envRel_stack hrel1 c1, hb1, hk1⟩
      simp [refCmd, hev, Spec.Eval.Out.bind, ht]
  obtain ⟨hv, _, j, rbv, hj, hrb, he⟩ := forcJoin_some h
  simp only at he
  obtain ⟨re, hre, rfl⟩ := he
  simp only [foreachStmts, JsStmts.one, execStmts] at hx
  obtain ⟨e1, h1, hx⟩ := sres_bind_ok hx
  obtain ⟨e2, h2, hx⟩ := sres_bind_ok hx
  obtain ⟨e3, h3, hx⟩ := sres_bind_ok hx
  simp only [SRes.ok.injEq] at hx
  subst hx
  obtain ⟨xs, js, hev, hxs, _, hrel2, hb2, k12, _, hfn, hloop⟩ := foreach_core F G R ae buf hs hg v hv list j hj body rbv hrb ihb
    env jenv out hrel hb fuel _ _ _ _ rfl rfl rfl rfl e1 e2 h1 h2
  have hlen := C04c.toJsList_length xs js hxs
  have hst : rbv.2.pop.stack = sc.stack := by
    obtain ⟨_, p2, _⟩ := scOk_pushForEach hs v hv
    obtain ⟨_, b2, _⟩ := toBody_scope ae body buf _ rbv hrb (scOk_pushForEach hs v hv).1
    simp only [Scope.pop]; rw [b2, p2]
  have hn : sc.n ≤ rbv.2.pop.n := by
    obtain ⟨_, _, p3⟩ := scOk_pushForEach hs v hv
    obtain ⟨_, _, b3⟩ := toBody_scope ae body buf _ rbv hrb (scOk_pushForEach hs v hv).1
    simp only [Scope.pop]; omega
  have hs' : ScOk rbv.2.pop := scOk_of_stack hs hst hn
  obtain ⟨c1, c2⟩ := toBlock_scope ae ie buf _ re hre hs'
  -- `if (xLimit > 0)`
  simp only [execStmt] at h3
  obtain ⟨c, hc, h3⟩ := withVal_ok h3
  rw [show eval e2 (.bin .gt (.local (sc.pushForEach v).1.2.2.1) (.num 0)) = _ from cond_gt0 hfn] at hc
  simp only [JOut.val.injEq] at hc
  subst hc
  by_cases hpos : (0 : Int) < (js.length : Int)
  · have : decide ((0 : Int) < (js.length : Int)) = true := by simpa using hpos
    simp only [this, toBoolean, if_true, execStmts] at h3
    obtain ⟨e4, h4, h3⟩ := sres_bind_ok h3
    simp only [SRes.ok.injEq] at h3
    subst h3
    obtain ⟨text, ht, hb', hk'⟩ := hloop e4 h4
    have hk := k12.trans hk' (Nat.le_refl _)
    refine ⟨text, env, ?_, envRel_keep hrel hk hs.2 (Nat.le_refl _) hg.2 (c1.trans hst), hb', hk⟩
    cases xs with
    | nil => simp only [List.length_nil] at hlen; omega
    | cons x xs' =>
      have ht' : Spec.Eval.loopSpec (refBlock F R ae body) env v xs'.length (x :: xs') 0 = .val text := by simpa using ht
      simp [refCmd, hev, Spec.Eval.Out.bind, ht']
  · have : decide ((0 : Int) < (js.length : Int)) = false := by simpa using hpos
    simp only [this, toBoolean, Bool.false_eq_true, if_false] at h3
    have hrel2' : EnvRel R.entry rbv.2.pop env e2 := envRel_stack hrel2 hst
    obtain ⟨text, ht, hb', hk'⟩ := ihe fuel _ re env e2 e3 out hre hs' (goodBuf_of_stack hg hst hn) hrel2' hb2 h3
    have hk := k12.trans (hk'.mono hn) (Nat.le_refl _)
    refine ⟨text, env, ?_, envRel_keep hrel hk hs.2 (Nat.le_refl _) hg.2 (c1.trans hst), hb', hk⟩
    cases xs with
    | nil => simp [refCmd, hev, Spec.Eval.Out.bind, ht]
    | cons x xs' => simp only [List.length_cons] at hlen; omega

/-! ### a content block: the body writes to a buffer of its own -/

/-! ### css, debugger -/

theorem css_none_ok (p : Nat) (suffix : Bytes) : CmdOk F G R ae buf (.css p none suffix) := by
  intro fuel sc r env jenv jenv' out h hs hg hrel hb hx
  have := rawText_ok F G R ae buf p suffix fuel sc r env jenv jenv' out (by simpa [toCmd] using h) hs hg hrel hb hx
  simpa [refCmd] using this

theorem css_some_ok (p : Nat) (e : Expr) (suffix : Bytes) : CmdOk F G R ae buf (.css p (some e) suffix) := by
  intro fuel sc r env jenv jenv' out h hs hg hrel hb hx
  simp only [toCmd] at h
  split at h
  · rename_i j hj
    simp only [Option.some.injEq] at h; subst h
    simp only [execStmts] at hx
    obtain ⟨e1, hx1, hx2⟩ := sres_bind_ok hx
    simp only [execStmt] at hx1
    obtain ⟨jv, hjv, hx1⟩ := withVal_ok hx1
    obtain ⟨v, hv, hvj⟩ := C04c.gen_correct_refs_partial sc env jenv hrel e j jv hj hjv
    cases hs' : toStr? jv with
    | none => simp [hs'] at hx1
    | some s =>
      simp only [hs'] at hx1
      obtain ⟨s1, hs1, rfl⟩ := appendTo_ok hb hx1
      simp only [toStr?, Option.some.injEq] at hs1; subst hs1
      have k1 := keeps_setBuf buf sc.n jenv (.str (out ++ (s ++ [45])))
      have hrel1 : EnvRel R.entry sc env (setLocal jenv buf (.str (out ++ (s ++ [45])))) :=
        envRel_keep hrel k1 hs.2 (Nat.le_refl _) hg.2 rfl
      obtain ⟨t2, env2, ht2, hrel2, hb2, hk2⟩ := rawText_ok F G R ae buf p suffix fuel sc (.one (.appendLit buf suffix), sc) env _ jenv'
        (out ++ (s ++ [45])) (by simp [toCmd]) hs hg hrel1 (bufIs_setBuf _ _ _) hx2
      simp only [refCmd, Out.val.injEq, Prod.mk.injEq] at ht2
      obtain ⟨rfl, rfl⟩ := ht2
      refine ⟨s ++ [45] ++ suffix, env, ?_, hrel2, by simpa [List.append_assoc] using hb2, k1.trans hk2 (Nat.le_refl _)⟩
      simp [refCmd, hv, C04c.showVal_toStr v jv s hvj hs', Spec.Eval.Out.bind]
  · cases h

theorem debugger_ok (p : Nat) : CmdOk F G R ae buf (.debugger p) := by
  intro fuel sc r env jenv jenv' out h hs hg hrel hb hx
  simp only [toCmd, Option.some.injEq] at h; subst h
  rw [execStmts_one] at hx
  simp only [execStmt, SRes.ok.injEq] at hx; subst hx
  exact ⟨[], env, by simp [refCmd], hrel, by simpa using hb, Keeps.refl _ _ _⟩

/-! ### msg (no bundle) -/

def PartsOk (ps : MsgParts) : Prop :=
  ∀ (fuel : Nat) (sc : Scope) (r : JsStmts × Scope) (env : SEnv) (jenv jenv' : JEnv) (out : Bytes),
    toParts ae buf ps sc = some r → ScOk sc → GoodBuf sc buf → EnvRel R.entry sc env jenv → BufIs buf jenv out →
    execStmts F G fuel r.1 jenv = .ok jenv' →
    ∃ text env', refParts F R ae ps env = .val (text, env') ∧ EnvRel R.entry r.2 env' jenv' ∧ BufIs buf jenv' (out ++ text) ∧
      Keeps buf sc.n jenv jenv'

def PhOk (b : MsgPhBody) : Prop :=
  ∀ (fuel : Nat) (sc : Scope) (r : JsStmts × Scope) (env : SEnv) (jenv jenv' : JEnv) (out : Bytes),
    toPh ae buf b sc = some r → ScOk sc → GoodBuf sc buf → EnvRel R.entry sc env jenv → BufIs buf jenv out →
    execStmts F G fuel r.1 jenv = .ok jenv' →
    ∃ text env', refPh F R ae b env = .val (text, env') ∧ EnvRel R.entry r.2 env' jenv' ∧ BufIs buf jenv' (out ++ text) ∧
      Keeps buf sc.n jenv jenv'

theorem ph_tag_ok (p : Nat) (t : Bytes) : PhOk F G R ae buf (.htmlTag p t) := by
  intro fuel sc r env jenv jenv' out h hs hg hrel hb hx
  have := rawText_ok F G R ae buf p t fuel sc r env jenv jenv' out (by simpa [toPh, toCmd] using h) hs hg hrel hb hx
  simpa [refPh, refCmd] using this

theorem ph_cmd_ok (c : Cmd) (ih : CmdOk F G R ae buf c) : PhOk F G R ae buf (.cmd c) := by
  intro fuel sc r env jenv jenv' out h hs hg hrel hb hx
  unfold toPh at h
  simpa [refPh] using ih fuel sc r env jenv jenv' out h hs hg hrel hb hx

theorem parts_nil_ok : PartsOk F G R ae buf .nil := by
  intro fuel sc r env jenv jenv' out h hs hg hrel hb hx
  simp only [toParts, Option.some.injEq] at h; subst h
  simp only [execStmts, SRes.ok.injEq] at hx
  subst hx
  exact ⟨[], env, by simp [refParts], hrel, by simpa using hb, Keeps.refl _ _ _⟩

theorem parts_ph_ok (p : Nat) (name : Bytes) (body : MsgPhBody) (rest : MsgParts) (ih1 : PhOk F G R ae buf body)
    (ih2 : PartsOk F G R ae buf rest) : PartsOk F G R ae buf (.ph p name body rest) := by
  intro fuel sc r env jenv jenv' out h hs hg hrel hb hx
  unfold toParts at h
  obtain ⟨a, b, ha, hb2, rfl⟩ := phJoin_some h
  rw [execStmts_append] at hx
  obtain ⟨jenv1, hx1, hx2⟩ := sres_bind_ok hx
  obtain ⟨t1, env1, ht1, hrel1, hb1, hk1⟩ := ih1 fuel sc a env jenv jenv1 out ha hs hg hrel hb hx1
  obtain ⟨a1, _, a3⟩ := toPh_scope ae body buf sc a ha hs
  obtain ⟨t2, env2, ht2, hrel2, hb3, hk2⟩ :=
    ih2 fuel a.2 b env1 jenv1 jenv' (out ++ t1) hb2 a1 (toPh_good ae body buf sc a ha hs buf hg) hrel1 hb1 hx2
  refine ⟨t1 ++ t2, env2, ?_, hrel2, by rw [← List.append_assoc]; exact hb3, hk1.trans hk2 a3⟩
  simp [refParts, ht1, ht2, Spec.Eval.Out.bind]

theorem parts_text_ok (p : Nat) (t : Bytes) (rest : MsgParts) (ih2 : PartsOk F G R ae buf rest) :
    PartsOk F G R ae buf (.text p t rest) := by
  intro fuel sc r env jenv jenv' out h hs hg hrel hb hx
  have h' : toParts ae buf (.ph p [] (.htmlTag p t) rest) sc = some r := by
    unfold toParts at h ⊢
    simpa [toPh] using h
  obtain ⟨text, env', ht, rest'⟩ :=
    parts_ph_ok F G R ae buf p [] (.htmlTag p t) rest (ph_tag_ok F G R ae buf p t) ih2 fuel sc r env jenv jenv' out h' hs hg hrel hb hx
  refine ⟨text, env', ?_, rest'⟩
  simp only [refParts, refPh, Spec.Eval.Out.bind] at ht ⊢
  exact ht

/-- the `{case n}` clauses of a plural: JavaScript matches no label exactly when the reference matches no case; the
    clause JavaScript runs is the case the reference renders -/
def PCasesOk (cs : PluralCases) : Prop :=
  ∀ (fuel : Nat) (sc : Scope) (r : JsPlural × Scope) (env : SEnv) (jenv : JEnv) (out : Bytes) (i : Int),
    toPCases ae buf cs sc = some r → ScOk sc → GoodBuf sc buf → EnvRel R.entry sc env jenv → BufIs buf jenv out →
    (execPlural F G fuel r.1 i jenv = none → refPlural F R ae cs i env = none) ∧
    (∀ jenv', execPlural F G fuel r.1 i jenv = some (.ok jenv') →
      ∃ text env', refPlural F R ae cs i env = some (.val (text, env')) ∧ EnvRel R.entry r.2 env' jenv' ∧
        BufIs buf jenv' (out ++ text) ∧ Keeps buf sc.n jenv jenv')

theorem pcases_nil_ok : PCasesOk F G R ae buf .nil := by
  intro fuel sc r env jenv out i h hs hg hrel hb
  simp only [toPCases, Option.some.injEq] at h; subst h
  exact ⟨fun _ => by simp [refPlural], fun jenv' hx => by simp [execPlural] at hx⟩

theorem pcases_cons_ok (p : Nat) (v : Int) (bp : Nat) (body : MsgParts) (rest : PluralCases) (ih1 : PartsOk F G R ae buf body)
    (ih2 : PCasesOk F G R ae buf rest) : PCasesOk F G R ae buf (.cons p v bp body rest) := by
  intro fuel sc r env jenv out i h hs hg hrel hb
  unfold toPCases at h
  obtain ⟨rb, rr, hrb, hst, hrr, rfl⟩ := pcaseJoin_some h
  obtain ⟨a1, _, a3⟩ := toParts_scope ae body buf sc rb hrb hs
  obtain ⟨b1, b2, b3⟩ := toPCases_scope ae rest buf rb.2 rr hrr a1
  have hg1 : GoodBuf rb.2 buf := goodBuf_of_stack hg hst a3
  have hrel1 : EnvRel R.entry rb.2 env jenv := envRel_stack hrel hst
  obtain ⟨t1, t2⟩ := ih2 fuel rb.2 rr env jenv out i hrr a1 hg1 hrel1 hb
  simp only [execPlural, refPlural]
  by_cases hex : SoyVerif.Spec.JsSem.exact v = true
  · simp only [hex, if_true]
    by_cases hiv : (i == v) = true
    · simp only [hiv, if_true]
      refine ⟨fun hx => by simp at hx, ?_⟩
      intro jenv' hx
      simp only [Option.some.injEq] at hx
      obtain ⟨text, env', ht, hrel', hb', hk⟩ := ih1 fuel sc rb env jenv jenv' out hrb hs hg hrel hb hx
      exact ⟨text, env', by rw [ht], envRel_stack hrel' (b2), hb', hk⟩
    · simp only [hiv, Bool.false_eq_true, if_false]
      refine ⟨t1, ?_⟩
      intro jenv' hx
      obtain ⟨text, env', ht, hrel', hb', hk⟩ := t2 jenv' hx
      exact ⟨text, env', ht, hrel', hb', hk.mono a3⟩
  · simp only [hex, Bool.false_eq_true, if_false]
    exact ⟨fun hx => by simp at hx, fun jenv' hx => by simp at hx⟩

theorem toJsV_int {v : Spec.Eval.Val} {i : Int} (h : toJsV v = some (.num i)) : v = .int i := by
  cases v <;> simp [C04c.toJsV] at h
  exact congrArg Spec.Eval.Val.int h.2

theorem parts_plural_ok (p : Nat) (vn : Bytes) (value : Expr) (cases : PluralCases) (dp : Nat) (dflt rest : MsgParts)
    (ihc : PCasesOk F G R ae buf cases) (ihd : PartsOk F G R ae buf dflt) (ihr : PartsOk F G R ae buf rest) :
    PartsOk F G R ae buf (.plural p vn value cases dp dflt rest) := by
  intro fuel sc r env jenv jenv' out h hs hg hrel hb hx
  unfold toParts at h
  obtain ⟨j, rc, rd, rr, hj, hrc, hrd, hstd, hrr, rfl⟩ := pluralJoin_some h
  obtain ⟨c1, c2, c3⟩ := toPCases_scope ae cases buf sc rc hrc hs
  obtain ⟨d1, _, d3⟩ := toParts_scope ae dflt buf rc.2 rd hrd c1
  have hgc : GoodBuf rc.2 buf := goodBuf_of_stack hg c2 c3
  have hgd : GoodBuf rd.2 buf := goodBuf_of_stack hg hstd (Nat.le_trans c3 d3)
  simp only [execStmts] at hx
  obtain ⟨e1, hx1, hx2⟩ := sres_bind_ok hx
  simp only [execStmt] at hx1
  obtain ⟨jv, hjv, hx1⟩ := withVal_ok hx1
  obtain ⟨vv, hvv, hvj⟩ := C04c.gen_correct_refs_partial sc env jenv hrel value j jv hj hjv
  cases jv with
  | num i =>
    have := toJsV_int hvj
    subst this
    simp only at hx1
    obtain ⟨t1, t2⟩ := ihc fuel sc rc env jenv out i hrc hs hg hrel hb
    -- the clause that ran
    have hbranch : ∃ text env', (match refPlural F R ae cases i env with
          | some r => r
          | none => refParts F R ae dflt env) = .val (text, env') ∧ EnvRel R.entry rd.2 env' e1 ∧ BufIs buf e1 (out ++ text) ∧
        Keeps buf sc.n jenv e1 := by
      cases hp : execPlural F G fuel rc.1 i jenv with
      | some res =>
        rw [hp] at hx1
        simp only at hx1
        subst hx1
        obtain ⟨text, env', ht, hrel', hb', hk⟩ := t2 e1 hp
        exact ⟨text, env', by rw [ht], envRel_stack hrel' (hstd.trans c2.symm), hb', hk⟩
      | none =>
        rw [hp] at hx1
        simp only at hx1
        have hn := t1 hp
        obtain ⟨text, env', ht, hrel', hb', hk⟩ := ihd fuel rc.2 rd env jenv e1 out hrd c1 hgc (envRel_stack hrel c2) hb hx1
        exact ⟨text, env', by rw [hn]; exact ht, hrel', hb', hk.mono c3⟩
    obtain ⟨text1, env1, ht1, hrel1, hb1, hk1⟩ := hbranch
    obtain ⟨text2, env2, ht2, hrel2, hb2, hk2⟩ := ihr fuel rd.2 rr env1 e1 jenv' (out ++ text1) hrr d1 hgd hrel1 hb1 hx2
    refine ⟨text1 ++ text2, env2, ?_, hrel2, by rw [← List.append_assoc]; exact hb2, hk1.trans hk2 (Nat.le_trans c3 d3)⟩
    simp only [refParts, hvv, Spec.Eval.Out.bind, ht1, ht2]
  | undefined => cases hx1
  | null => cases hx1
  | bool _ => cases hx1
  | str _ => cases hx1
  | arr _ => cases hx1
  | obj _ => cases hx1

theorem msg_ok (p id : Nat) (m d : Bytes) (bp : Nat) (body : MsgParts) (ih : PartsOk F G R ae buf body) :
    CmdOk F G R ae buf (.msg p id m d bp body) := by
  intro fuel sc r env jenv jenv' out h hs hg hrel hb hx
  unfold toCmd at h
  obtain ⟨rb, hrb, rfl⟩ := msgJoin_some h
  obtain ⟨_, b2, _⟩ := toParts_scope ae body buf sc.push rb hrb (scOk_push hs.2)
  have hst : rb.2.pop.stack = sc.stack := by simp only [Scope.pop]; rw [b2]; rfl
  obtain ⟨text, env', ht, _, hb', hk⟩ :=
    ih fuel sc.push rb env jenv jenv' out hrb (scOk_push hs.2) (goodBuf_push hg) (envRel_push hrel) hb hx
  have hk' : Keeps buf sc.n jenv jenv' := hk
  exact ⟨text, env, by simp [refCmd, ht, Spec.Eval.Out.bind], envRel_keep hrel hk' hs.2 (Nat.le_refl _) hg.2 hst, hb', hk'⟩

theorem letContent_ok (p : Nat) (name : Bytes) (body : Block) (ih : ∀ buf', BlockOk F G R ae buf' body) :
    CmdOk F G R ae buf (.letContent p name body) := by
  intro fuel sc r env jenv jenv' out h hs hg hrel hb hx
  unfold toCmd at h
  obtain ⟨hname, rbv, hrb, rfl⟩ := letJoin_some h
  have hs' : ScOk (sc.genname name).2 := scOk_of_stack hs rfl (Nat.le_succ _)
  obtain ⟨a1, a2⟩ := toBlock_scope ae body _ _ rbv hrb hs'
  have a2' : sc.n + 1 ≤ rbv.2.n := a2
  have hnb : (sc.genname name).1 ≠ buf := fun e => hg.1 name [] (sc.n + 1) hname (Or.inl rfl) (Nat.lt_succ_self _) e.symm
  -- the new buffer is good for the scope the body starts in
  have hg' : GoodBuf (sc.genname name).2 (sc.genname name).1 :=
    ⟨old_jsname hname (Or.inl rfl) (Nat.le_refl _), fun f hf kv hkv => (hs.2 f hf kv hkv).2 name [] (sc.n + 1) hname (Or.inl rfl)
      (Nat.lt_succ_self _)⟩
  -- `var x$n = '';`
  simp only [execStmts] at hx
  obtain ⟨e1, h1, hx⟩ := sres_bind_ok hx
  simp only [execStmt, SRes.ok.injEq] at h1
  subst h1
  have k1 : Keeps buf sc.n jenv (setLocal jenv (sc.genname name).1 (.str [])) :=
    keeps_setNew buf sc.n jenv hname (Or.inl rfl) (Nat.lt_succ_self _) _
  have hrel1 : EnvRel R.entry (sc.genname name).2 env (setLocal jenv (sc.genname name).1 (.str [])) :=
    envRel_keep hrel k1 hs.2 (Nat.le_refl _) hg.2 rfl
  obtain ⟨text, ht, hb', hk'⟩ := ih (sc.genname name).1 fuel _ rbv env _ jenv' [] hrb hs' hg' hrel1 (find_setLocal_eq _ _ _) hx
  simp only [List.nil_append] at hb'
  have hn1 : (sc.genname name).2.n = sc.n + 1 := rfl
  rw [hn1] at hk'
  -- what the outer buffer and the outer locals see
  have hkeep : Keeps buf sc.n jenv jenv' := by
    refine ⟨hk'.1.trans k1.1, hk'.2.1.trans k1.2.1, ?_⟩
    intro g hgb hgo
    have hgn : g ≠ (sc.genname name).1 := fun e => hgo name [] (sc.n + 1) hname (Or.inl rfl) (Nat.lt_succ_self _) e
    rw [hk'.2.2 g hgn (hgo.mono (Nat.le_succ _)), find_setLocal_ne jenv _ g _ hgn]
  have hbuf' : BufIs buf jenv' out := by
    unfold BufIs
    rw [hk'.2.2 buf hnb.symm (hg.1.mono (Nat.le_succ _)), find_setLocal_ne jenv _ buf _ hnb.symm]
    exact hb
  refine ⟨[], env.bind name (.str text), by simp [refCmd, ht, Spec.Eval.Out.bind], ?_, by simpa using hbuf', hkeep⟩
  -- the relation in the scope that binds `name` to the buffer
  have hst : sc.stack ≠ [] := hs.1
  have hloop : LoopRel (rbv.2.bind name (sc.genname name).1) (env.bind name (.str text)) jenv' := by
    have h1 : LoopRel rbv.2 env jenv' := loopRel_keep hrel.2.1 hkeep hs.2 (Nat.le_refl _) hg.2 a1
    exact loopRel_setTop h1 name _ hname _ (fun _ _ _ _ => rfl) rfl
  refine ⟨?_, hloop, by rw [hkeep.1]; exact hrel.2.2.1, by rw [hkeep.2.1]; exact hrel.2.2.2.1, hrel.2.2.2.2⟩
  cases hstk : rbv.2.stack with
  | nil => rw [a1] at hstk; exact absurd hstk hst
  | cons f st =>
    intro k hk hd
    have hlook : (rbv.2.bind name (sc.genname name).1).lookup k =
        if name == k then some (sc.genname name).1 else sc.lookup k := by
      have hsc : sc.lookup k = Scope.lookupIn (f :: st) k := by
        simp only [Scope.lookup]; rw [← hstk, a1]; rfl
      rw [hsc]
      simp only [Scope.bind, Scope.lookup, hstk, Scope.setTop, Scope.lookupIn, C04c.frameGet_frameSet]
      by_cases hnk : (name == k) = true
      · simp [hnk]
      · simp [hnk]
    rw [hlook]
    by_cases hnk : (name == k) = true
    · have : name = k := by simpa using hnk
      subst this
      simp only [hnk, if_true]
      exact ⟨_, hb', by simp [Spec.Eval.Env.bind, Spec.Eval.Env.lookup, Spec.Eval.find, C04c.toJsV]⟩
    · simp only [hnk, Bool.false_eq_true, if_false]
      have hr := hrel.1 k hk hd
      have hlk : (env.bind name (.str text)).lookup k = env.lookup k := by
        have : (name == k) = false := by simpa using hnk
        simp [Spec.Eval.Env.bind, Spec.Eval.Env.lookup, Spec.Eval.find, this]
      rw [hlk]
      cases hl : sc.lookup k with
      | none =>
        simp only [hl] at hr ⊢
        rw [hkeep.1]; exact hr
      | some g =>
        simp only [hl] at hr ⊢
        obtain ⟨kv, hfind, hkv⟩ := hr
        obtain ⟨f0, hf0, hm⟩ := lookupIn_mem sc.stack k g hl
        refine ⟨kv, ?_, hkv⟩
        rw [hkeep.2.2 g (hg.2 f0 hf0 _ hm) (hs.2 f0 hf0 _ hm).2]
        exact hfind

/-! ### call -/

/-- from `a` to `b` only locals generated after the counter was `lo` changed -/
def KeepsAll (lo : Nat) (a b : JEnv) : Prop :=
  b.optData = a.optData ∧ b.ijData = a.ijData ∧ ∀ g, Old lo g → b.locals.find? (·.1 == g) = a.locals.find? (·.1 == g)

omit ent in
theorem KeepsAll.refl (lo : Nat) (a : JEnv) : KeepsAll lo a a := ⟨rfl, rfl, fun _ _ => rfl⟩

omit ent in
theorem KeepsAll.trans {lo lo' : Nat} {a b c : JEnv} (h1 : KeepsAll lo a b) (h2 : KeepsAll lo' b c) (hl : lo ≤ lo') :
    KeepsAll lo a c :=
  ⟨h2.1.trans h1.1, h2.2.1.trans h1.2.1, fun g hg => (h2.2.2 g (hg.mono hl)).trans (h1.2.2 g hg)⟩

omit ent in
theorem KeepsAll.keeps {lo : Nat} {a b : JEnv} (h : KeepsAll lo a b) (buf' : Bytes) : Keeps buf' lo a b :=
  ⟨h.1, h.2.1, fun g _ hg => h.2.2 g hg⟩

theorem envRel_keepAll {sc sc' : Scope} {env : SEnv} {jenv jenv' : JEnv} {lo : Nat} (hrel : EnvRel ent sc env jenv)
    (hk : KeepsAll lo jenv jenv') (hb : Bounded sc) (hlo : sc.n ≤ lo) (hst : sc'.stack = sc.stack) :
    EnvRel ent sc' env jenv' :=
  envRel_keep hrel (hk.keeps (Scope.jsname b!"x" [] (sc.n + 1))) hb hlo
    (fresh_new hb (by decide) (Or.inl rfl) (Nat.lt_succ_self _)) hst

omit ent in
theorem toJsKvs_append : ∀ (a b : List (Bytes × Val)) (ja jb : List (Bytes × JVal)), C04c.toJsKvs a = some ja →
    C04c.toJsKvs b = some jb → C04c.toJsKvs (a ++ b) = some (ja ++ jb)
  | [], b, ja, jb, ha, hb => by
    simp only [C04c.toJsKvs, Option.some.injEq] at ha; subst ha; simpa using hb
  | (k, v) :: r, b, ja, jb, ha, hb => by
    simp only [C04c.toJsKvs] at ha
    cases hv : toJsV v with
    | none => simp [hv] at ha
    | some jv =>
      cases hr : C04c.toJsKvs r with
      | none => simp [hv, hr] at ha
      | some jr =>
        simp only [hv, hr, Option.some.injEq] at ha; subst ha
        simp [C04c.toJsKvs, hv, toJsKvs_append r b jr jb hr hb]

/-- the callee oracle `G` agrees with the reference's `call`: when the generated function `name` returns `r` on the
    JSON image of the data `ce.entry`, `name` is a template of the registry, it renders on that data, and `r` is
    the text -/
def CallRel : Prop :=
  ∀ (name : Bytes) (ce : Spec.Eval.CallEnv) (jd : List (Bytes × JVal)) (jij : Option (List (Bytes × JVal))) (r : JVal),
    C04c.toJsKvs ce.entry = some jd → IjRel ce.ij jij → GlobRel ce.globals → G name (.obj jd) jij = .val r →
    ∃ callee out, Registry.lookup R.reg name = some callee ∧ R.call callee ce = .val out ∧ r = .str out

/-- the params of a call: when the statements that fill the content params' buffers complete, only new locals
    changed, and wherever the `key: value` list is then evaluated (in an environment that kept the buffers), the
    reference yields the params whose JSON image it is -/
def ParamsOk (ps : ParamList) : Prop :=
  ∀ (fuel : Nat) (sc : Scope) (r : JsStmts × List (Bytes × JsExpr) × Scope) (env : SEnv) (jenv jenvF : JEnv),
    toParams ae ps sc = some r → ScOk sc → EnvRel R.entry sc env jenv → execStmts F G fuel r.1 jenv = .ok jenvF →
    KeepsAll sc.n jenv jenvF ∧
    ∀ (jenv2 : JEnv) (acc extra : List (Bytes × JVal)), KeepsAll r.2.2.n jenvF jenv2 →
      evalParams jenv2 r.2.1 acc = .inr extra →
      ∃ bs jbs, refParams F R ae ps env = .val bs ∧ C04c.toJsKvs bs = some jbs ∧ extra = jbs ++ acc

theorem params_nil_ok : ParamsOk F G R ae .nil := by
  intro fuel sc r env jenv jenvF h hs hrel hx
  simp only [toParams, Option.some.injEq] at h; subst h
  simp only [execStmts, SRes.ok.injEq] at hx; subst hx
  refine ⟨KeepsAll.refl _ _, ?_⟩
  intro jenv2 acc extra _ hev
  simp only [evalParams, Sum.inr.injEq] at hev
  exact ⟨[], [], by simp [refParams], by simp [C04c.toJsKvs], by simp [hev]⟩

theorem params_value_ok (p : Nat) (key : Bytes) (e : Expr) (rest : ParamList) (iht : ParamsOk F G R ae rest) :
    ParamsOk F G R ae (.value p key e rest) := by
  intro fuel sc r env jenv jenvF h hs hrel hx
  unfold toParams at h
  obtain ⟨j, rr, hj, hrr, hr⟩ := valueParamJoin_some h rfl
  simp only [Option.some.injEq] at hr; subst hr
  obtain ⟨kt, hpt⟩ := iht fuel sc rr env jenv jenvF hrr hs hrel hx
  refine ⟨kt, ?_⟩
  intro jenv2 acc extra hk2 hev
  simp only [evalParams] at hev
  obtain ⟨_, b2⟩ := toParams_scope ae rest sc rr hrr hs
  cases hv : eval jenv2 j with
  | error => rw [hv] at hev; cases hev
  | unspec => rw [hv] at hev; cases hev
  | val v =>
    rw [hv] at hev
    have hrel2 : EnvRel R.entry sc env jenv2 := envRel_keepAll hrel (kt.trans hk2 b2) hs.2 (Nat.le_refl _) rfl
    obtain ⟨vv, hvv, hvj⟩ := C04c.gen_correct_refs_partial sc env jenv2 hrel2 e j v hj hv
    obtain ⟨bs, jbs, hr, hjb, he⟩ := hpt jenv2 ((key, v) :: acc) extra hk2 hev
    refine ⟨bs ++ [(key, vv)], jbs ++ [(key, v)], by simp [refParams, hvv, hr, Spec.Eval.Out.bind],
      toJsKvs_append _ _ _ _ hjb (by simp [C04c.toJsKvs, hvj]), by simp [he]⟩

/-- the statements of one content param, run: the body's text is in the param's buffer, nothing older changed, and
    the relation holds in the scope after it -/
theorem content_param_run (body : Block) (ih : ∀ buf', BlockOk F G R ae buf' body) {fuel : Nat} {sc : Scope}
    {rb : JsStmts × Scope} {env : SEnv} {jenv e1 : JEnv}
    (hrb : toBlock ae (sc.genname b!"param").1 body (sc.genname b!"param").2 = some rb) (hs : ScOk sc)
    (hrel : EnvRel R.entry sc env jenv)
    (h1 : execStmts F G fuel (.cons (.varEmpty (sc.genname b!"param").1) rb.1) jenv = .ok e1) :
    ∃ text, refBlock F R ae body env = .val text ∧ BufIs (sc.genname b!"param").1 e1 text ∧ KeepsAll sc.n jenv e1 ∧
      EnvRel R.entry rb.2 env e1 ∧ ScOk rb.2 ∧ sc.n + 1 ≤ rb.2.n ∧ rb.2.stack = sc.stack := by
  have hname : (b!"param" : Bytes).contains 36 = false := by decide
  have hs' : ScOk (sc.genname b!"param").2 := scOk_of_stack hs rfl (Nat.le_succ _)
  obtain ⟨a1, a2⟩ := toBlock_scope ae body _ _ rb hrb hs'
  have a2' : sc.n + 1 ≤ rb.2.n := a2
  have hg' : GoodBuf (sc.genname b!"param").2 (sc.genname b!"param").1 :=
    ⟨old_jsname hname (Or.inl rfl) (Nat.le_refl _), fun f hf kv hkv => (hs.2 f hf kv hkv).2 b!"param" [] (sc.n + 1) hname
      (Or.inl rfl) (Nat.lt_succ_self _)⟩
  have hs1 : ScOk rb.2 := scOk_of_stack hs' a1 a2
  simp only [execStmts] at h1
  obtain ⟨e0, h0, h1⟩ := sres_bind_ok h1
  simp only [execStmt, SRes.ok.injEq] at h0
  subst h0
  have k1 : Keeps (sc.genname b!"param").1 sc.n jenv (setLocal jenv (sc.genname b!"param").1 (.str [])) :=
    keeps_setNew _ sc.n jenv hname (Or.inl rfl) (Nat.lt_succ_self _) _
  have hrel1 : EnvRel R.entry (sc.genname b!"param").2 env (setLocal jenv (sc.genname b!"param").1 (.str [])) :=
    envRel_keep hrel k1 hs.2 (Nat.le_refl _) hg'.2 rfl
  obtain ⟨text, ht, hb', hk'⟩ := ih (sc.genname b!"param").1 fuel _ rb env _ e1 [] hrb hs' hg' hrel1 (find_setLocal_eq _ _ _) h1
  simp only [List.nil_append] at hb'
  have hn1 : (sc.genname b!"param").2.n = sc.n + 1 := rfl
  rw [hn1] at hk'
  have hka : KeepsAll sc.n jenv e1 := by
    refine ⟨hk'.1.trans k1.1, hk'.2.1.trans k1.2.1, ?_⟩
    intro g hgo
    have hgn : g ≠ (sc.genname b!"param").1 := fun e => hgo b!"param" [] (sc.n + 1) hname (Or.inl rfl) (Nat.lt_succ_self _) e
    rw [hk'.2.2 g hgn (hgo.mono (Nat.le_succ _)), find_setLocal_ne jenv _ g _ hgn]
  exact ⟨text, ht, hb', hka, envRel_keepAll hrel hka hs.2 (Nat.le_refl _) a1, hs1, a2', a1⟩

/-- the param's buffer still holds the text wherever the `key: value` list is evaluated -/
theorem content_param_find {sc : Scope} {rb : JsStmts × Scope} {rr : JsStmts × List (Bytes × JsExpr) × Scope}
    {e1 jenvF jenv2 : JEnv} {text : Bytes} (a2' : sc.n + 1 ≤ rb.2.n) (b2 : rb.2.n ≤ rr.2.2.n)
    (hb' : BufIs (sc.genname b!"param").1 e1 text) (kt : KeepsAll rb.2.n e1 jenvF) (hk2 : KeepsAll rr.2.2.n jenvF jenv2) :
    eval jenv2 (.local (sc.genname b!"param").1) = .val (.str text) := by
  have hold : Old rb.2.n (sc.genname b!"param").1 := old_jsname (by decide) (Or.inl rfl) a2'
  apply eval_local
  rw [hk2.2.2 _ (hold.mono b2), kt.2.2 _ hold]; exact hb'

theorem params_content_ok (p : Nat) (key : Bytes) (body : Block) (rest : ParamList)
    (ih : ∀ buf', BlockOk F G R ae buf' body) (iht : ParamsOk F G R ae rest) :
    ParamsOk F G R ae (.content p key body rest) := by
  intro fuel sc r env jenv jenvF h hs hrel hx
  unfold toParams at h
  obtain ⟨rb, rr, hrb, hrr, rfl⟩ := contentParamJoin_some h
  rw [execStmts_append] at hx
  obtain ⟨e1, h1, hx2⟩ := sres_bind_ok hx
  obtain ⟨text, ht, hb', hka, hrelt, hs1, a2', _⟩ := content_param_run F G R ae body ih hrb hs hrel h1
  obtain ⟨_, b2⟩ := toParams_scope ae rest rb.2 rr hrr hs1
  obtain ⟨kt, hpt⟩ := iht fuel rb.2 rr env e1 jenvF hrr hs1 hrelt hx2
  refine ⟨hka.trans kt (Nat.le_trans (Nat.le_succ _) a2'), ?_⟩
  intro jenv2 acc extra hk2 hev
  simp only [evalParams] at hev
  rw [content_param_find a2' b2 hb' kt hk2] at hev
  obtain ⟨bs, jbs, hr, hjb, he⟩ := hpt jenv2 ((key, .str text) :: acc) extra hk2 hev
  refine ⟨bs ++ [(key, .str text)], jbs ++ [(key, .str text)], by simp [refParams, ht, hr, Spec.Eval.Out.bind],
    toJsKvs_append _ _ _ _ hjb (by simp [C04c.toJsKvs, C04c.toJsV]), by simp [he]⟩

/-- the first argument of the callee is the JSON image of the data the reference passes on -/
theorem base_ok {sc : Scope} {env : SEnv} {jenv : JEnv} (hrel : EnvRel R.entry sc env jenv) {allData : Bool}
    {data : Option Expr} {base : DataBase} (hbase : callBase sc allData data = some base) {bkvs : List (Bytes × JVal)}
    (hbv : evalBase jenv base = .val (.obj bkvs)) :
    ∃ bd, refBase R allData data env = .val bd ∧ C04c.toJsKvs bd = some bkvs := by
  cases allData <;> cases data <;> simp only [callBase, Option.some.injEq, Option.map_eq_some_iff, reduceCtorEq] at hbase
  · subst hbase
    simp only [evalBase, JOut.val.injEq, JVal.obj.injEq] at hbv; subst hbv
    exact ⟨[], by simp [refBase], by simp [C04c.toJsKvs]⟩
  · obtain ⟨j, hj, rfl⟩ := hbase
    simp only [evalBase] at hbv
    obtain ⟨v, hv, hvj⟩ := C04c.gen_correct_refs_partial sc env jenv hrel _ j _ hj hbv
    obtain ⟨kvs, rfl, hk⟩ := C04c.toJsV_obj hvj
    exact ⟨kvs, by simp [refBase, hv, Spec.Eval.Out.bind], hk⟩
  · subst hbase
    simp only [evalBase, JOut.val.injEq, JVal.obj.injEq] at hbv; subst hbv
    exact ⟨R.entry, by simp [refBase], hrel.2.2.1⟩

theorem call_ok (hG : CallRel G R) (p : Nat) (name : Bytes) (allData : Bool) (data : Option Expr) (params : ParamList)
    (ihp : ParamsOk F G R ae params) : CmdOk F G R ae buf (.call p name allData data params) := by
  intro fuel sc r env jenv jenv' out h hs hg hrel hb hx
  unfold toCmd at h
  obtain ⟨base, rp, hbase, hrp, rfl⟩ := callJoin_some h
  obtain ⟨a1, a2⟩ := toParams_scope ae params sc rp hrp hs
  rw [execStmts_append] at hx
  obtain ⟨jenvF, h1, hx⟩ := sres_bind_ok hx
  rw [execStmts_one] at hx
  simp only [execStmt] at hx
  obtain ⟨kp, hpp⟩ := ihp fuel sc rp env jenv jenvF hrp hs hrel h1
  have hrelF : EnvRel R.entry sc env jenvF := envRel_keepAll hrel kp hs.2 (Nat.le_refl _) rfl
  have hbF : BufIs buf jenvF out := by unfold BufIs; rw [kp.2.2 buf hg.1]; exact hb
  obtain ⟨bv, hbv, hx⟩ := withVal_ok hx
  cases bv with
  | obj bkvs =>
    cases hep : evalParams jenvF rp.2.1 [] with
    | inl o => rw [hep] at hx; cases o <;> cases hx
    | inr extra =>
      rw [hep] at hx
      simp only at hx
      obtain ⟨rv, hrv, hx⟩ := withVal_ok hx
      obtain ⟨bs, jbs, hr, hjb, he⟩ := hpp jenvF [] extra (KeepsAll.refl _ _) hep
      simp only [List.append_nil] at he; subst he
      obtain ⟨bd, hbd, hbj⟩ := base_ok R hrelF hbase hbv
      obtain ⟨callee, outc, hlk, hc, rfl⟩ := hG name ⟨bs ++ bd, env.ij, env.globals⟩ (extra ++ bkvs) jenvF.ijData rv
        (toJsKvs_append _ _ _ _ hjb hbj) hrelF.2.2.2.1 hrelF.2.2.2.2 hrv
      obtain ⟨s, hs', rfl⟩ := appendTo_ok hbF hx
      simp only [toStr?, Option.some.injEq] at hs'; subst hs'
      have hkeep : Keeps buf sc.n jenv (setLocal jenvF buf (.str (out ++ outc))) :=
        (kp.keeps buf).trans (keeps_setBuf buf sc.n jenvF _) (Nat.le_refl _)
      refine ⟨outc, env, ?_, envRel_keep hrel hkeep hs.2 (Nat.le_refl _) hg.2 a1, bufIs_setBuf _ _ _, hkeep⟩
      simp only [refCmd, hlk, hbd, hr, hc, Spec.Eval.Out.bind]
  | undefined => cases hx
  | null => cases hx
  | bool _ => cases hx
  | num _ => cases hx
  | str _ => cases hx
  | arr _ => cases hx

variable (hG : CallRel G R)
include hG

mutual
  theorem cmd_ok : ∀ (c : Cmd) (buf : Bytes), CmdOk F G R ae buf c
    | .rawText p t, buf => rawText_ok F G R ae buf p t
    | .print p arg dirs, buf => print_ok F G R ae buf p arg dirs
    | .letValue p x e, buf => letValue_ok F G R ae buf p x e
    | .ifc p conds, buf => ifc_ok F G R ae buf p conds (conds_ok conds buf)
    | .msg p id m d bp body, buf => msg_ok F G R ae buf p id m d bp body (parts_ok body buf)
    | .css p none suffix, buf => css_none_ok F G R ae buf p suffix
    | .css p (some e) suffix, buf => css_some_ok F G R ae buf p e suffix
    | .debugger p, buf => debugger_ok F G R ae buf p
    | .log .., _ => fun _ _ _ _ _ _ _ h => by simp [toCmd] at h
    | .forc p v list body none, buf => forc_none_ok F G R ae buf p v list body (body_ok' body buf)
    | .forc p v list body (some ie), buf => forc_some_ok F G R ae buf p v list body ie (body_ok' body buf) (block_ok' ie buf)
    | .switch p value cases, buf => switch_ok F G R ae buf p value cases (cases_ok cases buf)
    | .call p name allData data params, buf => call_ok F G R ae buf hG p name allData data params (params_ok params)
    | .letContent p name body, buf => letContent_ok F G R ae buf p name body (fun b' => block_ok' body b')
    | .headerParam .., _ => fun _ _ _ _ _ _ _ h => by simp [toCmd] at h
    | .namespace .., _ => fun _ _ _ _ _ _ _ h => by simp [toCmd] at h
    | .template .., _ => fun _ _ _ _ _ _ _ h => by simp [toCmd] at h
    | .soyDoc .., _ => fun _ _ _ _ _ _ _ h => by simp [toCmd] at h
  theorem parts_ok : ∀ (ps : MsgParts) (buf : Bytes), PartsOk F G R ae buf ps
    | .nil, buf => parts_nil_ok F G R ae buf
    | .text p t rest, buf => parts_text_ok F G R ae buf p t rest (parts_ok rest buf)
    | .ph p name body rest, buf => parts_ph_ok F G R ae buf p name body rest (ph_ok body buf) (parts_ok rest buf)
    | .plural p vn value cases dp dflt rest, buf =>
      parts_plural_ok F G R ae buf p vn value cases dp dflt rest (pcases_ok cases buf) (parts_ok dflt buf) (parts_ok rest buf)
  theorem pcases_ok : ∀ (cs : PluralCases) (buf : Bytes), PCasesOk F G R ae buf cs
    | .nil, buf => pcases_nil_ok F G R ae buf
    | .cons p v bp body rest, buf => pcases_cons_ok F G R ae buf p v bp body rest (parts_ok body buf) (pcases_ok rest buf)
  theorem ph_ok : ∀ (b : MsgPhBody) (buf : Bytes), PhOk F G R ae buf b
    | .htmlTag p t, buf => ph_tag_ok F G R ae buf p t
    | .cmd c, buf => ph_cmd_ok F G R ae buf c (cmd_ok c buf)
  theorem params_ok : ∀ (ps : ParamList), ParamsOk F G R ae ps
    | .nil => params_nil_ok F G R ae
    | .value p key e rest => params_value_ok F G R ae p key e rest (params_ok rest)
    | .content p key body rest => params_content_ok F G R ae p key body rest (fun b' => block_ok' body b') (params_ok rest)
  theorem body_ok' : ∀ (b : Block) (buf : Bytes), BodyOk F G R ae buf b
    | .mk p cmds, buf => body_ok F G R ae buf p cmds (cmds_ok cmds buf)
  theorem block_ok' : ∀ (b : Block) (buf : Bytes), BlockOk F G R ae buf b
    | .mk p cmds, buf => block_ok F G R ae buf p cmds (cmds_ok cmds buf)
  theorem cmds_ok : ∀ (cs : CmdList) (buf : Bytes), CmdsOk F G R ae buf cs
    | .nil, buf => cmds_nil_ok F G R ae buf
    | .cons c rest, buf => cmds_cons_ok F G R ae buf c rest (cmd_ok c buf) (cmds_ok rest buf)
  theorem cases_ok : ∀ (cs : CaseList) (buf : Bytes), CasesOk F G R ae buf cs
    | .nil, buf => cases_nil_ok F G R ae buf
    | .cons p values body rest, buf => cases_cons_ok F G R ae buf p values body rest (block_ok' body buf) (cases_ok rest buf)
  theorem conds_ok : ∀ (cs : CondList) (buf : Bytes), CondsOk F G R ae buf cs
    | .nil, buf => conds_nil_ok F G R ae buf
    | .cons p (some c) body rest, buf => conds_some_ok F G R ae buf p c body rest (block_ok' body buf) (conds_ok rest buf)
    | .cons p none body rest, buf => conds_else_ok F G R ae buf p body rest (block_ok' body buf)
end

end

/-! ## the theorem -/

section
variable (F : Bytes → List Expr → JVal → JOut) (G : Callee) (R : RefCtx) (ae : Autoescape) (buf : Bytes)

/-- PARTIAL (C04, command level).  For a list of commands of the fragment — raw text, `{print}` with
    directives, `{let $x: e /}`, `{if}/{elseif}/{else}`, `{foreach}` / `{ifempty}`, `{for … in range(…)}`, `{switch}`,
    `{let $x}…{/let}`, `{call}` with value / content params and `data="all"` / `data="$e"` (callee oracle `G`,
    reference context `R`, hypothesis `CallRel G R`), over the expressions of Props/C04c — met in the
    generator scope `sc` with output variable `buf`:
    (a) the generator model writes exactly the statements `st` of the translation;
    (b) whenever these statements run to completion (Spec/JsStmt; every interpretation `F` of the
        directive functions) from a JavaScript environment related to the Soy environment `env`, in
        which `buf` holds `out`, the specification renders the commands in `env` to a text, and `buf`
        then holds `out` followed by exactly this text. -/
theorem gen_correct_cmds_partial (hG : CallRel G R) (sk : List Bytes → List Bytes) (o : Options) [GlobalsAre o]
    (ho : o.messages = none)
    (cmds : CmdList) (sc : Scope) (r : JsStmts × Scope) (h : toCmds ae buf cmds sc = some r) :
    (∀ ind, Runs (At ind buf ae sc) (At ind buf ae r.2) (walkCmds sk o cmds) (renderStmts (isEs6 o) ind r.1)) ∧
    (∀ (fuel : Nat) (env : SEnv) (jenv jenv' : JEnv) (out : Bytes), ScOk sc → GoodBuf sc buf → EnvRel R.entry sc env jenv → BufIs buf jenv out →
      execStmts F G fuel r.1 jenv = .ok jenv' →
      ∃ text, refCmds F R ae cmds env = .val text ∧ BufIs buf jenv' (out ++ text)) := by
  refine ⟨walkCmds_renders sk o ae ho cmds buf sc r h, ?_⟩
  intro fuel env jenv jenv' out hs hg hrel hb hx
  obtain ⟨text, ht, hb', _⟩ := cmds_ok F G R ae hG cmds buf fuel sc r env jenv jenv' out h hs hg hrel hb hx
  exact ⟨text, ht, hb'⟩

/-- the body of a template: entered with `opt_data` the JSON image of the data, after
    `var output = '';`, in a fresh frame -/
theorem gen_correct_body_partial (hG : CallRel G R) (body : CmdList) (n : Nat) (r : JsStmts × Scope)
    (h : toCmds ae b!"output" body ⟨[[]], n⟩ = some r) (env : SEnv) (optData : List (Bytes × JVal))
    (ij : Option (List (Bytes × JVal))) (hent : R.entry = env.vars) (hdata : C04c.toJsKvs env.vars = some optData)
    (hij : IjRel env.ij ij) (hgl : GlobRel env.globals)
    (jenv' : JEnv) (fuel : Nat)
    (hx : execStmts F G fuel r.1 ⟨optData, ij, [(b!"output", .str [])]⟩ = .ok jenv') :
    ∃ text, refCmds F R ae body env = .val text ∧ BufIs b!"output" jenv' text := by
  have hs : ScOk ⟨[[]], n⟩ := by
    refine ⟨by simp, ?_⟩
    intro f hf kv hkv
    simp only [List.mem_singleton] at hf
    subst hf
    cases hkv
  have hrel : EnvRel R.entry ⟨[[]], n⟩ env ⟨optData, ij, [(b!"output", .str [])]⟩ := by
    rw [hent]
    exact C04c.envRel_params _ env _ (fun k => by simp [Scope.lookup, Scope.lookupIn, frameGet?]) hdata hij hgl
  obtain ⟨text, ht, hb', _⟩ := cmds_ok F G R ae hG body b!"output" fuel _ r env _ jenv' [] h hs
    (goodBuf_plain n _ (by decide)) hrel (by simp [BufIs]) hx
  exact ⟨text, ht, by simpa using hb'⟩

end

/-! ## the reference against Spec/Eval.renderCmds

  `dirCmd ok hb c`: every print of the command has a directive list `ok` accepts (and the command is in the fragment
  of the reference).  `plainCmd` = no print has a directive (`ok` = `noDirs`). -/

/-- the empty directive list only -/
def noDirs (ds : List Directive) : Bool := ds.isEmpty

mutual
  /-- every print of the command has a directive list that `ok` accepts -/
  def dirCmd (ok : List Directive → Bool) (hb : Bool) : Cmd → Bool
    | .print _ _ dirs => ok dirs
    | .ifc _ conds => dirConds ok hb conds
    | .switch _ _ cases => dirCases ok hb cases
    | .letContent _ _ body => dirBlock ok hb body
    | .call _ _ _ _ params => dirParams ok hb params
    -- a message is rendered part by part only when there is no message bundle
    | .msg _ _ _ _ _ body => !hb && dirParts ok hb body
    | .forc _ _ _ body ifEmpty =>
      dirBlock ok hb body && (match ifEmpty with
        | none => true
        | some b => dirBlock ok hb b)
    | .rawText .. => true
    | .letValue .. => true
    | .css .. => true
    | .debugger .. => true
    -- `{log}` and the structural nodes are outside the fragment of the reference semantics
    | _ => false
  def dirParts (ok : List Directive → Bool) (hb : Bool) : MsgParts → Bool
    | .nil => true
    | .text _ _ rest => dirParts ok hb rest
    | .ph _ _ body rest => dirPh ok hb body && dirParts ok hb rest
    | .plural _ _ _ cases _ dflt rest => dirPCases ok hb cases && dirParts ok hb dflt && dirParts ok hb rest
  def dirPCases (ok : List Directive → Bool) (hb : Bool) : PluralCases → Bool
    | .nil => true
    | .cons _ _ _ body rest => dirParts ok hb body && dirPCases ok hb rest
  def dirPh (ok : List Directive → Bool) (hb : Bool) : MsgPhBody → Bool
    | .htmlTag .. => true
    | .cmd c => dirCmd ok hb c
  def dirBlock (ok : List Directive → Bool) (hb : Bool) : Block → Bool
    | .mk _ cmds => dirCmds ok hb cmds
  def dirCmds (ok : List Directive → Bool) (hb : Bool) : CmdList → Bool
    | .nil => true
    | .cons c r => dirCmd ok hb c && dirCmds ok hb r
  def dirParams (ok : List Directive → Bool) (hb : Bool) : ParamList → Bool
    | .nil => true
    | .value _ _ _ rest => dirParams ok hb rest
    | .content _ _ body rest => dirBlock ok hb body && dirParams ok hb rest
  def dirCases (ok : List Directive → Bool) (hb : Bool) : CaseList → Bool
    | .nil => true
    -- a {default} (a value-less case) is the LAST case — as `toCases` (`caseJoin`) requires; there the
    -- first-match reading `refCases` and Spec/Eval.renderCases (the default wherever it stands) coincide
    | .cons _ values body rest =>
      dirBlock ok hb body && dirCases ok hb rest && (!values.isEmpty || (match rest with | .nil => true | _ => false))
  def dirConds (ok : List Directive → Bool) (hb : Bool) : CondList → Bool
    | .nil => true
    | .cons _ _ body rest => dirBlock ok hb body && dirConds ok hb rest
end

/-- no print of the command has a directive -/
abbrev plainCmd (hb : Bool) : Cmd → Bool := dirCmd noDirs hb
abbrev plainBlock (hb : Bool) : Block → Bool := dirBlock noDirs hb
abbrev plainCmds (hb : Bool) : CmdList → Bool := dirCmds noDirs hb

theorem out_bind_val {α β : Type} {o : Out α} {f : α → Out β} {b : β} (h : o.bind f = .val b) : ∃ a, o = .val a ∧ f a = .val b := by
  cases o with
  | val a => exact ⟨a, rfl, h⟩
  | error => cases h
  | unspec => cases h

/-- `loopSpec` is monotone in the body -/
theorem loopSpec_le (b1 b2 : SEnv → Out Bytes) (h : ∀ env out, b1 env = .val out → b2 env = .val out)
    (env : SEnv) (v : Bytes) (last : Nat) : ∀ (xs : List Val) (i : Nat) (text : Bytes),
    Spec.Eval.loopSpec b1 env v last xs i = .val text → Spec.Eval.loopSpec b2 env v last xs i = .val text
  | [], _, _, ht => by simpa [Spec.Eval.loopSpec] using ht
  | x :: r, i, text, ht => by
    simp only [Spec.Eval.loopSpec] at ht ⊢
    obtain ⟨o1, h1, ht⟩ := out_bind_val ht
    obtain ⟨o2, h2, ht⟩ := out_bind_val ht
    rw [h _ _ h1]
    simp only [Spec.Eval.Out.bind]
    rw [loopSpec_le b1 b2 h env v last r (i + 1) o2 h2]
    exact ht

/-- LIBRARY OBLIGATION (not proved here): soy.$$escapeHtml is Spec/Eval's htmlEscape of ToString -/
def EscapeHtmlIs (F : Bytes → List Expr → JVal → JOut) : Prop :=
  ∀ jv, F escapeHtmlName [] jv = match toStr? jv with
    | some s => .val (.str (htmlEscape s))
    | none => .unspec

section
variable (F : Bytes → List Expr → JVal → JOut) (G : Callee) (ae : Autoescape) (hesc : EscapeHtmlIs F)
variable (reg : Registry.Reg) (hasBundle : Bool) (entry : Spec.Eval.Binds)
variable (call call' : Registry.Tmpl → Spec.Eval.CallEnv → Out Bytes)
-- the directive lists admitted, the specification's library semantics, and what links the two prints
variable (ok : List Directive → Bool) (dsem : Option Spec.Eval.LibSem)
variable (hle : ∀ (dirs : List Directive) (env : SEnv) (v : Val) (s : Bytes), ok dirs = true →
  refPrint F ae dirs v = .val s → specPrint dsem (ae != .off) env dirs v = .val s)
-- the reference's `call` and the specification's: the latter renders what the former does
variable (hcall : ∀ (name : Bytes) (t : Registry.Tmpl) (ce : Spec.Eval.CallEnv) (out : Bytes),
  Registry.lookup reg name = some t → call t ce = .val out → call' t ce = .val out)
include hesc

theorem refPrintJs_nil (v : Val) (s : Bytes) (h : refPrintJs F ae [] v = .val s) :
    ∃ s0, Spec.Eval.showVal v = .val s0 ∧ s = if ae != .off then htmlEscape s0 else s0 := by
  unfold refPrintJs at h
  cases hv : toJsV v with
  | none => simp [hv] at h
  | some jv =>
    simp only [hv] at h
    have hgo : C04b.goPrint (liftF F) Gen.directiveTable ae [] (.val jv) =
        some (if ae != .off then F escapeHtmlName [] jv else .val jv) := by
      simp only [C04b.goPrint, C04b.goRun, Option.map_some, liftF, JOut.bind]
    rw [hgo] at h
    by_cases hae : (ae != .off) = true
    · simp only [hae, if_true] at h ⊢
      rw [hesc jv] at h
      cases hs : toStr? jv with
      | none => simp [hs] at h
      | some s0 =>
        rw [hs] at h
        simp only [toStr?, Out.val.injEq] at h
        exact ⟨s0, C04c.showVal_toStr v jv s0 hv hs, h.symm⟩
    · simp only [hae, Bool.false_eq_true, if_false] at h ⊢
      cases hs : toStr? jv with
      | none => simp [hs] at h
      | some s0 =>
        simp only [hs, Out.val.injEq] at h
        exact ⟨s0, C04c.showVal_toStr v jv s0 hv hs, h.symm⟩

theorem refPrintJs_nil_ne_error (v : Val) : refPrintJs F ae [] v ≠ .error := by
  intro h
  unfold refPrintJs at h
  cases hv : toJsV v with
  | none => simp [hv] at h
  | some jv =>
    simp only [hv] at h
    have hgo : C04b.goPrint (liftF F) Gen.directiveTable ae [] (.val jv) =
        some (if ae != .off then F escapeHtmlName [] jv else .val jv) := by
      simp only [C04b.goPrint, C04b.goRun, Option.map_some, liftF, JOut.bind]
    rw [hgo] at h
    by_cases hae : (ae != .off) = true
    · simp only [hae, if_true] at h
      rw [hesc jv] at h
      cases hs : toStr? jv with
      | none => simp [hs] at h
      | some s0 =>
        rw [hs] at h
        simp only [toStr?] at h
        cases h
    · simp only [hae, Bool.false_eq_true, if_false] at h
      cases hs : toStr? jv <;> simp [hs] at h

/-- without directives the reference's print IS Spec/Eval's -/
theorem refPrint_nil_eq (v : Val) : refPrint F ae [] v = specPlain ae v := by
  unfold refPrint
  cases h : refPrintJs F ae [] v with
  | unspec => simp
  | error => exact absurd h (refPrintJs_nil_ne_error F ae hesc v)
  | val s =>
    obtain ⟨s0, hs0, rfl⟩ := refPrintJs_nil F ae hesc v s h
    have hu : Spec.Eval.isUndef v = false := by cases v <;> simp_all [Spec.Eval.isUndef, Spec.Eval.showVal]
    simp [specPlain, hu, hs0, Spec.Eval.Out.bind]

theorem refPrint_nil (v : Val) (s : Bytes) (h : refPrint F ae [] v = .val s) :
    ∃ s0, Spec.Eval.showVal v = .val s0 ∧ s = if ae != .off then htmlEscape s0 else s0 := by
  rw [refPrint_nil_eq F ae hesc v] at h
  unfold specPlain at h
  split at h
  · cases h
  · obtain ⟨s0, hs0, h⟩ := out_bind_val h
    simp only [Out.val.injEq] at h
    exact ⟨s0, hs0, h.symm⟩

/-- the hypothesis `hle` of `ref_le_spec_*` for directive-free prints (any library semantics on the other side) -/
theorem print_le_noDirs (dsem : Option Spec.Eval.LibSem) (dirs : List Directive) (env : SEnv) (v : Val) (s : Bytes)
    (hd : noDirs dirs = true) (h : refPrint F ae dirs v = .val s) : specPrint dsem (ae != .off) env dirs v = .val s := by
  have hd : dirs = [] := by simpa [noDirs] using hd
  subst hd
  obtain ⟨s0, hs0, rfl⟩ := refPrint_nil F ae hesc v s h
  have hu : Spec.Eval.isUndef v = false := by cases v <;> simp_all [Spec.Eval.isUndef, Spec.Eval.showVal]
  simp [specPrint, hs0, hu, Spec.Eval.Out.bind, Spec.Eval.runDirs]

/-- the `.print` clause of Spec/Eval.renderCmd renders what `specPrint` renders -/
theorem renderCmd_print_of (escape : Bool) (p : Nat) (arg : Expr) (dirs : List Directive) (env : SEnv) (v : Val) (s : Bytes)
    (hv : Spec.Eval.eval env arg = .val v) (hs : specPrint dsem escape env dirs v = .val s) :
    Spec.Eval.renderCmd reg hasBundle escape entry call' dsem (.print p arg dirs) env = .val (s, env) := by
  rw [Spec.Eval.renderCmd]
  unfold specPrint at hs
  split at hs
  · cases hs
  · rename_i hc
    rw [if_neg hc]
    simp only [hv, Spec.Eval.Out.bind]
    split at hs
    · cases hs
    · rename_i hu
      rw [if_neg hu]
      obtain ⟨r, hr, hs⟩ := out_bind_val hs
      obtain ⟨s0, hs0, hs⟩ := out_bind_val hs
      simp only [Out.val.injEq] at hs
      simp [hr, hs0, hs, Spec.Eval.Out.bind]

include hle hcall

mutual
  theorem ref_le_spec_cmd : ∀ (c : Cmd) (env : SEnv) (r : Bytes × SEnv), dirCmd ok hasBundle c = true →
      refCmd F ⟨reg, entry, call⟩ ae c env = .val r → Spec.Eval.renderCmd reg hasBundle (ae != .off) entry call' dsem c env = .val r
    | .rawText p t, env, r, _, h => by
      rw [Spec.Eval.renderCmd]
      simpa [refCmd] using h
    | .print p arg dirs, env, r, hp, h => by
      have hd : ok dirs = true := by simpa [dirCmd] using hp
      simp only [refCmd] at h
      obtain ⟨v, hv, h⟩ := out_bind_val h
      obtain ⟨s, hs, h⟩ := out_bind_val h
      simp only [Out.val.injEq] at h
      subst h
      exact renderCmd_print_of F hesc reg hasBundle entry call' dsem (ae != .off) p arg dirs env v s hv (hle dirs env v s hd hs)
    | .letValue p x e, env, r, _, h => by
      rw [Spec.Eval.renderCmd]
      simpa [refCmd] using h
    | .ifc p conds, env, r, hp, h => by
      rw [Spec.Eval.renderCmd]
      simp only [refCmd] at h
      obtain ⟨out, ho, h⟩ := out_bind_val h
      have := ref_le_spec_conds conds env out (by simpa [dirCmd] using hp) ho
      simp [this, Spec.Eval.Out.bind, h]
    | .msg p id m d bp body, env, r, hp, h => by
      simp only [dirCmd, Bool.and_eq_true, Bool.not_eq_true'] at hp
      rw [Spec.Eval.renderCmd]
      simp only [hp.1, Bool.false_eq_true, if_false]
      simp only [refCmd] at h
      obtain ⟨r1, h1, h⟩ := out_bind_val h
      have e := ref_le_spec_parts body env r1 hp.2 h1
      simp only [hp.1] at e
      rw [e]
      exact h
    | .css p none suffix, env, r, _, h => by
      rw [Spec.Eval.renderCmd]
      simpa [refCmd] using h
    | .css p (some e) suffix, env, r, _, h => by
      rw [Spec.Eval.renderCmd]
      simpa [refCmd] using h
    | .debugger p, env, r, _, h => by
      rw [Spec.Eval.renderCmd]
      simpa [refCmd] using h
    | .log .., _, _, _, h => by simp [refCmd] at h
    | .forc p v list body none, env, r, hp, h => by
      rw [Spec.Eval.renderCmd]
      simp only [dirCmd, Bool.and_eq_true] at hp
      simp only [refCmd] at h
      obtain ⟨lv, hev, h⟩ := out_bind_val h
      rw [hev]
      simp only [Spec.Eval.Out.bind]
      cases lv with
      | list xs =>
        simp only at h ⊢
        by_cases hem : xs.isEmpty = true
        · simp only [hem, if_true] at h ⊢
          exact h
        · simp only [hem, Bool.false_eq_true, if_false] at h ⊢
          obtain ⟨out, ho, h⟩ := out_bind_val h
          rw [loopSpec_le _ _ (fun env' o ho' => ref_le_spec_block body env' o hp.1 ho') env v _ xs 0 out ho]
          exact h
      | _ => cases h
    | .forc p v list body (some b), env, r, hp, h => by
      rw [Spec.Eval.renderCmd]
      simp only [dirCmd, Bool.and_eq_true] at hp
      simp only [refCmd] at h
      obtain ⟨lv, hev, h⟩ := out_bind_val h
      rw [hev]
      simp only [Spec.Eval.Out.bind]
      cases lv with
      | list xs =>
        simp only at h ⊢
        by_cases hem : xs.isEmpty = true
        · simp only [hem, if_true] at h ⊢
          obtain ⟨out, ho, h⟩ := out_bind_val h
          rw [ref_le_spec_block b env out hp.2 ho]
          exact h
        · simp only [hem, Bool.false_eq_true, if_false] at h ⊢
          obtain ⟨out, ho, h⟩ := out_bind_val h
          rw [loopSpec_le _ _ (fun env' o ho' => ref_le_spec_block body env' o hp.1 ho') env v _ xs 0 out ho]
          exact h
      | _ => cases h
    | .switch p value cases, env, r, hp, h => by
      rw [Spec.Eval.renderCmd]
      simp only [refCmd] at h
      obtain ⟨sv, hsv, h⟩ := out_bind_val h
      obtain ⟨out, ho, h⟩ := out_bind_val h
      have := ref_le_spec_cases cases sv env out (by simpa [dirCmd] using hp) ho
      rw [Spec.Eval.renderCases] at this
      have e : ∀ {α β : Type} (a : α) (f : α → Out β), (Out.val a).bind f = f a := fun _ _ => rfl
      rw [hsv, e, this, e]
      exact h
    | .call p name true none params, env, r, hp, h => by
      rw [Spec.Eval.renderCmd]
      simp only [refCmd, refBase] at h ⊢
      cases hl : Registry.lookup reg name with
      | none => simp [hl] at h
      | some callee =>
        simp only [hl, ↓reduceIte, Bool.false_eq_true] at h ⊢
        obtain ⟨b, hb, h⟩ := out_bind_val h
        obtain ⟨ps, hps, h⟩ := out_bind_val h
        rw [hb]
        simp only [Spec.Eval.Out.bind]
        rw [ref_le_spec_params params env ps (by simpa [dirCmd] using hp) hps]
        obtain ⟨o, ho, h⟩ := out_bind_val h
        dsimp only
        rw [hcall name callee _ o hl ho]
        exact h
    | .call p name true (some d) params, env, r, hp, h => by
      rw [Spec.Eval.renderCmd]
      simp only [refCmd, refBase] at h ⊢
      cases hl : Registry.lookup reg name with
      | none => simp [hl] at h
      | some callee =>
        simp only [hl, ↓reduceIte, Bool.false_eq_true] at h ⊢
        obtain ⟨b, hb, h⟩ := out_bind_val h
        obtain ⟨ps, hps, h⟩ := out_bind_val h
        rw [hb]
        simp only [Spec.Eval.Out.bind]
        rw [ref_le_spec_params params env ps (by simpa [dirCmd] using hp) hps]
        obtain ⟨o, ho, h⟩ := out_bind_val h
        dsimp only
        rw [hcall name callee _ o hl ho]
        exact h
    | .call p name false none params, env, r, hp, h => by
      rw [Spec.Eval.renderCmd]
      simp only [refCmd, refBase] at h ⊢
      cases hl : Registry.lookup reg name with
      | none => simp [hl] at h
      | some callee =>
        simp only [hl, ↓reduceIte, Bool.false_eq_true] at h ⊢
        obtain ⟨b, hb, h⟩ := out_bind_val h
        obtain ⟨ps, hps, h⟩ := out_bind_val h
        rw [hb]
        simp only [Spec.Eval.Out.bind]
        rw [ref_le_spec_params params env ps (by simpa [dirCmd] using hp) hps]
        obtain ⟨o, ho, h⟩ := out_bind_val h
        dsimp only
        rw [hcall name callee _ o hl ho]
        exact h
    | .call p name false (some d) params, env, r, hp, h => by
      rw [Spec.Eval.renderCmd]
      simp only [refCmd, refBase] at h ⊢
      cases hl : Registry.lookup reg name with
      | none => simp [hl] at h
      | some callee =>
        simp only [hl, ↓reduceIte, Bool.false_eq_true] at h ⊢
        obtain ⟨b, hb, h⟩ := out_bind_val h
        obtain ⟨ps, hps, h⟩ := out_bind_val h
        obtain ⟨v, hv, hb⟩ := out_bind_val hb
        rw [hv]
        simp only [Spec.Eval.Out.bind]
        cases v <;> simp only [Out.val.injEq, reduceCtorEq] at hb
        subst hb
        simp only [Spec.Eval.Out.bind]
        rw [ref_le_spec_params params env ps (by simpa [dirCmd] using hp) hps]
        obtain ⟨o, ho, h⟩ := out_bind_val h
        dsimp only
        rw [hcall name callee _ o hl ho]
        exact h
    | .letContent p name body, env, r, hp, h => by
      rw [Spec.Eval.renderCmd]
      simp only [refCmd] at h
      obtain ⟨out, ho, h⟩ := out_bind_val h
      rw [ref_le_spec_block body env out (by simpa [dirCmd] using hp) ho]
      exact h
    | .headerParam .., _, _, _, h => by simp [refCmd] at h
    | .namespace .., _, _, _, h => by simp [refCmd] at h
    | .template .., _, _, _, h => by simp [refCmd] at h
    | .soyDoc .., _, _, _, h => by simp [refCmd] at h
  theorem ref_le_spec_parts : ∀ (ps : MsgParts) (env : SEnv) (r : Bytes × SEnv), dirParts ok hasBundle ps = true →
      refParts F ⟨reg, entry, call⟩ ae ps env = .val r →
      Spec.Eval.renderParts reg hasBundle (ae != .off) entry call' dsem ps env = .val r
    | .nil, env, r, _, h => by
      rw [Spec.Eval.renderParts]
      simpa [refParts] using h
    | .text p t rest, env, r, hp, h => by
      rw [Spec.Eval.renderParts]
      simp only [refParts] at h
      obtain ⟨r1, h1, h⟩ := out_bind_val h
      rw [ref_le_spec_parts rest env r1 (by simpa [dirParts] using hp) h1]
      exact h
    | .ph p name body rest, env, r, hp, h => by
      simp only [dirParts, Bool.and_eq_true] at hp
      rw [Spec.Eval.renderParts]
      simp only [refParts] at h
      obtain ⟨r1, h1, h⟩ := out_bind_val h
      obtain ⟨r2, h2, h⟩ := out_bind_val h
      rw [ref_le_spec_ph body env r1 hp.1 h1]
      simp only [Spec.Eval.Out.bind]
      rw [ref_le_spec_parts rest r1.2 r2 hp.2 h2]
      exact h
    | .plural p vn value cases dp dflt rest, env, r, hp, h => by
      simp only [dirParts, Bool.and_eq_true] at hp
      rw [Spec.Eval.renderParts]
      simp only [refParts] at h
      obtain ⟨v, hv, h⟩ := out_bind_val h
      rw [hv]
      simp only [Spec.Eval.Out.bind]
      cases v <;> simp only [reduceCtorEq] at h
      rename_i i
      obtain ⟨r1, h1, h⟩ := out_bind_val h
      obtain ⟨r2, h2, h⟩ := out_bind_val h
      have hsp : Spec.Eval.renderPlural reg hasBundle (ae != .off) entry call' dsem cases
          (Spec.Eval.renderParts reg hasBundle (ae != .off) entry call' dsem dflt) i env = .val r1 := by
        obtain ⟨q1, q2⟩ := ref_le_spec_plural cases i env hp.1.1
        cases hrp : refPlural F ⟨reg, entry, call⟩ ae cases i env with
        | some rr =>
          rw [hrp] at h1
          simp only at h1
          subst h1
          exact q1 r1 hrp _
        | none =>
          rw [hrp] at h1
          simp only at h1
          rw [q2 hrp]
          exact ref_le_spec_parts dflt env r1 hp.1.2 h1
      dsimp only
      rw [hsp]
      dsimp only
      rw [ref_le_spec_parts rest r1.2 r2 hp.2 h2]
      exact h
  theorem ref_le_spec_plural : ∀ (cs : PluralCases) (i : Int) (env : SEnv), dirPCases ok hasBundle cs = true →
      (∀ r, refPlural F ⟨reg, entry, call⟩ ae cs i env = some (.val r) →
        ∀ dfltF, Spec.Eval.renderPlural reg hasBundle (ae != .off) entry call' dsem cs dfltF i env = .val r) ∧
      (refPlural F ⟨reg, entry, call⟩ ae cs i env = none →
        ∀ dfltF, Spec.Eval.renderPlural reg hasBundle (ae != .off) entry call' dsem cs dfltF i env = dfltF env)
    | .nil, i, env, _ => by
      refine ⟨fun r h => by simp [refPlural] at h, fun _ dfltF => ?_⟩
      rw [Spec.Eval.renderPlural]
    | .cons p v bp body rest, i, env, hp => by
      simp only [dirPCases, Bool.and_eq_true] at hp
      obtain ⟨q1, q2⟩ := ref_le_spec_plural rest i env hp.2
      refine ⟨fun r h dfltF => ?_, fun h dfltF => ?_⟩
      · rw [Spec.Eval.renderPlural]
        simp only [refPlural] at h
        split at h
        · rename_i hiv
          simp only [hiv, if_true]
          simp only [Option.some.injEq] at h
          exact ref_le_spec_parts body env r hp.1 h
        · rename_i hiv
          simp only [hiv, Bool.false_eq_true, if_false]
          exact q1 r h dfltF
      · rw [Spec.Eval.renderPlural]
        simp only [refPlural] at h
        split at h
        · cases h
        · rename_i hiv
          simp only [hiv, Bool.false_eq_true, if_false]
          exact q2 h dfltF
  theorem ref_le_spec_ph : ∀ (b : MsgPhBody) (env : SEnv) (r : Bytes × SEnv), dirPh ok hasBundle b = true →
      refPh F ⟨reg, entry, call⟩ ae b env = .val r →
      Spec.Eval.renderPh reg hasBundle (ae != .off) entry call' dsem b env = .val r
    | .htmlTag p t, env, r, _, h => by
      rw [Spec.Eval.renderPh]
      simpa [refPh] using h
    | .cmd c, env, r, hp, h => by
      rw [Spec.Eval.renderPh]
      simp only [refPh] at h
      exact ref_le_spec_cmd c env r (by simpa [dirPh] using hp) h
  theorem ref_le_spec_params : ∀ (ps : ParamList) (env : SEnv) (out : Spec.Eval.Binds), dirParams ok hasBundle ps = true →
      refParams F ⟨reg, entry, call⟩ ae ps env = .val out →
      Spec.Eval.renderParams reg hasBundle (ae != .off) entry call' dsem ps env = .val out
    | .nil, env, out, _, h => by
      rw [Spec.Eval.renderParams]
      simpa [refParams] using h
    | .value p key e rest, env, out, hp, h => by
      rw [Spec.Eval.renderParams]
      simp only [refParams] at h ⊢
      obtain ⟨v, hv, h⟩ := out_bind_val h
      obtain ⟨r, hr, h⟩ := out_bind_val h
      rw [hv]
      simp only [Spec.Eval.Out.bind]
      rw [ref_le_spec_params rest env r (by simpa [dirParams] using hp) hr]
      exact h
    | .content p key body rest, env, out, hp, h => by
      rw [Spec.Eval.renderParams]
      simp only [dirParams, Bool.and_eq_true] at hp
      simp only [refParams] at h ⊢
      obtain ⟨o1, ho1, h⟩ := out_bind_val h
      obtain ⟨r, hr, h⟩ := out_bind_val h
      rw [ref_le_spec_block body env o1 hp.1 ho1]
      simp only [Spec.Eval.Out.bind]
      rw [ref_le_spec_params rest env r hp.2 hr]
      exact h
  theorem ref_le_spec_block : ∀ (b : Block) (env : SEnv) (out : Bytes), dirBlock ok hasBundle b = true →
      refBlock F ⟨reg, entry, call⟩ ae b env = .val out → Spec.Eval.renderBlock reg hasBundle (ae != .off) entry call' dsem b env = .val out
    | .mk p cmds, env, out, hp, h => by
      rw [Spec.Eval.renderBlock]
      exact ref_le_spec_cmds cmds env out (by simpa [dirBlock] using hp) (by simpa [refBlock] using h)
  theorem ref_le_spec_cmds : ∀ (cs : CmdList) (env : SEnv) (out : Bytes), dirCmds ok hasBundle cs = true →
      refCmds F ⟨reg, entry, call⟩ ae cs env = .val out → Spec.Eval.renderCmds reg hasBundle (ae != .off) entry call' dsem cs env = .val out
    | .nil, env, out, _, h => by
      rw [Spec.Eval.renderCmds]
      simpa [refCmds] using h
    | .cons c rest, env, out, hp, h => by
      rw [Spec.Eval.renderCmds]
      simp only [dirCmds, Bool.and_eq_true] at hp
      simp only [refCmds] at h
      obtain ⟨r1, h1, h⟩ := out_bind_val h
      obtain ⟨more, h2, h⟩ := out_bind_val h
      rw [ref_le_spec_cmd c env r1 hp.1 h1]
      simp only [Spec.Eval.Out.bind]
      rw [ref_le_spec_cmds rest r1.2 more hp.2 h2]
      exact h
  theorem ref_le_spec_cases : ∀ (cs : CaseList) (sv : Val) (env : SEnv) (out : Bytes), dirCases ok hasBundle cs = true →
      refCases F ⟨reg, entry, call⟩ ae cs sv env = .val out → Spec.Eval.renderCases reg hasBundle (ae != .off) entry call' dsem cs sv env = .val out
    | .nil, sv, env, out, _, h => by
      rw [Spec.Eval.renderCases, Spec.Eval.renderMatch, Spec.Eval.renderDefault]
      simpa [refCases, Spec.Eval.Out.bind, Spec.Eval.orDefault] using h
    | .cons p values body rest, sv, env, out, hp, h => by
      simp only [dirCases, Bool.and_eq_true, Bool.or_eq_true, Bool.not_eq_true'] at hp
      obtain ⟨⟨hpb, hpr⟩, hlast⟩ := hp
      simp only [refCases] at h
      by_cases hem : values.isEmpty = true
      · -- the default: it is the last case, nothing can match after it
        simp only [hem, if_true] at h
        have hv : values = [] := by simpa using hem
        subst hv
        have hr : rest = .nil := by
          rcases hlast with h0 | h0
          · simp at h0
          · cases rest with
            | nil => rfl
            | cons _ _ _ _ => simp at h0
        subst hr
        rw [Spec.Eval.renderCases, Spec.Eval.renderMatch, Spec.Eval.renderDefault]
        simp only [Spec.Eval.matchAny, Spec.Eval.Out.bind, Bool.false_eq_true, if_false, Spec.Eval.renderMatch,
          Spec.Eval.orDefault, List.isEmpty_nil, if_true]
        exact ref_le_spec_block body env out hpb h
      · simp only [hem, Bool.false_eq_true, if_false] at h
        obtain ⟨hit, hh, h⟩ := out_bind_val h
        have ih := fun h' => ref_le_spec_cases rest sv env out hpr h'
        rw [Spec.Eval.renderCases, Spec.Eval.renderMatch, Spec.Eval.renderDefault, hh]
        simp only [Spec.Eval.Out.bind, hem, Bool.false_eq_true, if_false]
        cases hit with
        | true =>
          simp only [if_true] at h ⊢
          rw [ref_le_spec_block body env out hpb h]
          rfl
        | false =>
          simp only [Bool.false_eq_true, if_false] at h ⊢
          have := ih h
          rw [Spec.Eval.renderCases] at this
          exact this
  theorem ref_le_spec_conds : ∀ (cs : CondList) (env : SEnv) (out : Bytes), dirConds ok hasBundle cs = true →
      refConds F ⟨reg, entry, call⟩ ae cs env = .val out → Spec.Eval.renderConds reg hasBundle (ae != .off) entry call' dsem cs env = .val out
    | .nil, env, out, _, h => by
      rw [Spec.Eval.renderConds]
      simpa [refConds] using h
    | .cons p (some c) body rest, env, out, hp, h => by
      rw [Spec.Eval.renderConds]
      simp only [dirConds, Bool.and_eq_true] at hp
      simp only [refConds] at h ⊢
      obtain ⟨v, hv, h⟩ := out_bind_val h
      rw [hv]
      simp only [Spec.Eval.Out.bind]
      by_cases ht : Spec.Eval.truthy v = true
      · simp only [ht, if_true] at h ⊢
        exact ref_le_spec_block body env out hp.1 h
      · simp only [ht, Bool.false_eq_true, if_false] at h ⊢
        exact ref_le_spec_conds rest env out hp.2 h
    | .cons p none body rest, env, out, hp, h => by
      rw [Spec.Eval.renderConds]
      simp only [dirConds, Bool.and_eq_true] at hp
      simp only [refConds] at h ⊢
      exact ref_le_spec_block body env out hp.1 h
end

end

/-! ### … and conversely: what Spec/Eval renders, the reference renders

  On the directive-free fragment (`dirCmd`), with soy.$$escapeHtml read as `htmlEscape ∘ ToString`, the reference
  semantics renders every text Spec/Eval renders (its print falls back to Spec/Eval's where the JSON image is silent:
  `refPrint_nil_eq`).  With `ref_le_spec_*`: on this fragment the two agree on the texts. -/

section
variable (F : Bytes → List Expr → JVal → JOut) (ae : Autoescape) (hesc : EscapeHtmlIs F)
variable (reg : Registry.Reg) (hasBundle : Bool) (entry : Spec.Eval.Binds)
variable (call call' : Registry.Tmpl → Spec.Eval.CallEnv → Out Bytes)
variable (ok : List Directive → Bool) (dsem : Option Spec.Eval.LibSem)
variable (hge : ∀ (dirs : List Directive) (env : SEnv) (v : Val) (s : Bytes), ok dirs = true →
  specPrint dsem (ae != .off) env dirs v = .val s → refPrint F ae dirs v = .val s)
variable (hcall : ∀ (name : Bytes) (t : Registry.Tmpl) (ce : Spec.Eval.CallEnv) (out : Bytes),
  Registry.lookup reg name = some t → call' t ce = .val out → call t ce = .val out)
include hesc

/-- the hypothesis `hge` of `spec_le_ref_*` for directive-free prints (any library semantics on the other side) -/
theorem print_ge_noDirs (dsem : Option Spec.Eval.LibSem) (dirs : List Directive) (env : SEnv) (v : Val) (s : Bytes)
    (hd : noDirs dirs = true) (h : specPrint dsem (ae != .off) env dirs v = .val s) : refPrint F ae dirs v = .val s := by
  have hd : dirs = [] := by simpa [noDirs] using hd
  subst hd
  rw [refPrint_nil_eq F ae hesc]
  unfold specPrint at h
  simp only [List.isEmpty_nil, Bool.not_true, Bool.false_and, Bool.false_eq_true, if_false, Spec.Eval.runDirs,
    Spec.Eval.Out.bind] at h
  unfold specPlain
  exact h

/-- where the `.print` clause of Spec/Eval.renderCmd renders, `specPrint` renders -/
theorem renderCmd_print_inv (escape : Bool) (p : Nat) (arg : Expr) (dirs : List Directive) (env : SEnv) (r : Bytes × SEnv)
    (h : Spec.Eval.renderCmd reg hasBundle escape entry call' dsem (.print p arg dirs) env = .val r) :
    ∃ v s, Spec.Eval.eval env arg = .val v ∧ specPrint dsem escape env dirs v = .val s ∧ r = (s, env) := by
  rw [Spec.Eval.renderCmd] at h
  split at h
  · cases h
  · rename_i hc
    obtain ⟨v, hv, h⟩ := out_bind_val h
    refine ⟨v, ?_⟩
    split at h
    · cases h
    · rename_i hu
      obtain ⟨rr, hr, h⟩ := out_bind_val h
      obtain ⟨s0, hs0, h⟩ := out_bind_val h
      simp only [Out.val.injEq] at h
      refine ⟨_, hv, ?_, h.symm⟩
      unfold specPrint
      rw [if_neg hc, if_neg hu]
      simp [hr, hs0, Spec.Eval.Out.bind]

include hge hcall

mutual
  theorem spec_le_ref_cmd : ∀ (c : Cmd) (env : SEnv) (r : Bytes × SEnv), dirCmd ok hasBundle c = true →
      Spec.Eval.renderCmd reg hasBundle (ae != .off) entry call' dsem c env = .val r → refCmd F ⟨reg, entry, call⟩ ae c env = .val r
    | .rawText p t, env, r, _, h => by
      rw [Spec.Eval.renderCmd] at h
      simpa [refCmd] using h
    | .print p arg dirs, env, r, hp, h => by
      have hd : ok dirs = true := by simpa [dirCmd] using hp
      obtain ⟨v, s, hv, hs, rfl⟩ := renderCmd_print_inv F hesc reg hasBundle entry call' dsem (ae != .off) p arg dirs env r h
      simp only [refCmd, hv, Spec.Eval.Out.bind, hge dirs env v s hd hs]
    | .letValue p x e, env, r, _, h => by
      rw [Spec.Eval.renderCmd] at h
      simpa [refCmd] using h
    | .ifc p conds, env, r, hp, h => by
      rw [Spec.Eval.renderCmd] at h
      simp only [refCmd]
      obtain ⟨out, ho, h⟩ := out_bind_val h
      rw [spec_le_ref_conds conds env out (by simpa [dirCmd] using hp) ho]
      exact h
    | .msg p id m d bp body, env, r, hp, h => by
      simp only [dirCmd, Bool.and_eq_true, Bool.not_eq_true'] at hp
      rw [Spec.Eval.renderCmd] at h
      rw [if_pos (by simp [hp.1])] at h
      simp only [refCmd]
      obtain ⟨r1, h1, h⟩ := out_bind_val h
      rw [spec_le_ref_parts body env r1 hp.2 h1]
      exact h
    | .css p none suffix, env, r, _, h => by
      rw [Spec.Eval.renderCmd] at h
      simpa [refCmd] using h
    | .css p (some e) suffix, env, r, _, h => by
      rw [Spec.Eval.renderCmd] at h
      simpa [refCmd] using h
    | .debugger p, env, r, _, h => by
      rw [Spec.Eval.renderCmd] at h
      simpa [refCmd] using h
    | .log .., _, _, hp, _ => by simp [dirCmd] at hp
    | .forc p v list body none, env, r, hp, h => by
      rw [Spec.Eval.renderCmd] at h
      simp only [dirCmd, Bool.and_eq_true] at hp
      simp only [refCmd]
      obtain ⟨lv, hev, h⟩ := out_bind_val h
      rw [hev]
      simp only [Spec.Eval.Out.bind]
      cases lv with
      | list xs =>
        simp only at h ⊢
        by_cases hem : xs.isEmpty = true
        · simp only [hem, if_true] at h ⊢
          exact h
        · simp only [hem, Bool.false_eq_true, if_false] at h ⊢
          obtain ⟨out, ho, h⟩ := out_bind_val h
          rw [loopSpec_le _ _ (fun env' o ho' => spec_le_ref_block body env' o hp.1 ho') env v _ xs 0 out ho]
          exact h
      | _ => cases h
    | .forc p v list body (some b), env, r, hp, h => by
      rw [Spec.Eval.renderCmd] at h
      simp only [dirCmd, Bool.and_eq_true] at hp
      simp only [refCmd]
      obtain ⟨lv, hev, h⟩ := out_bind_val h
      rw [hev]
      simp only [Spec.Eval.Out.bind]
      cases lv with
      | list xs =>
        simp only at h ⊢
        by_cases hem : xs.isEmpty = true
        · simp only [hem, if_true] at h ⊢
          obtain ⟨out, ho, h⟩ := out_bind_val h
          rw [spec_le_ref_block b env out hp.2 ho]
          exact h
        · simp only [hem, Bool.false_eq_true, if_false] at h ⊢
          obtain ⟨out, ho, h⟩ := out_bind_val h
          rw [loopSpec_le _ _ (fun env' o ho' => spec_le_ref_block body env' o hp.1 ho') env v _ xs 0 out ho]
          exact h
      | _ => cases h
    | .switch p value cases, env, r, hp, h => by
      rw [Spec.Eval.renderCmd] at h
      simp only [refCmd]
      obtain ⟨sv, hsv, h⟩ := out_bind_val h
      obtain ⟨out, ho, h⟩ := out_bind_val h
      have hc : Spec.Eval.renderCases reg hasBundle (ae != .off) entry call' dsem cases sv env = .val out := by
        rw [Spec.Eval.renderCases]; exact ho
      rw [hsv]
      simp only [Spec.Eval.Out.bind]
      rw [spec_le_ref_cases cases sv env out (by simpa [dirCmd] using hp) hc]
      exact h
    | .call p name true none params, env, r, hp, h => by
      rw [Spec.Eval.renderCmd] at h
      simp only [refCmd, refBase]
      cases hl : Registry.lookup reg name with
      | none => simp [hl] at h
      | some callee =>
        simp only [hl, ↓reduceIte, Bool.false_eq_true] at h ⊢
        obtain ⟨b, hb, h⟩ := out_bind_val h
        obtain ⟨ps, hps, h⟩ := out_bind_val h
        rw [hb]
        simp only [Spec.Eval.Out.bind]
        rw [spec_le_ref_params params env ps (by simpa [dirCmd] using hp) hps]
        obtain ⟨o, ho, h⟩ := out_bind_val h
        dsimp only
        rw [hcall name callee _ o hl ho]
        exact h
    | .call p name true (some d) params, env, r, hp, h => by
      rw [Spec.Eval.renderCmd] at h
      simp only [refCmd, refBase]
      cases hl : Registry.lookup reg name with
      | none => simp [hl] at h
      | some callee =>
        simp only [hl, ↓reduceIte, Bool.false_eq_true] at h ⊢
        obtain ⟨b, hb, h⟩ := out_bind_val h
        obtain ⟨ps, hps, h⟩ := out_bind_val h
        rw [hb]
        simp only [Spec.Eval.Out.bind]
        rw [spec_le_ref_params params env ps (by simpa [dirCmd] using hp) hps]
        obtain ⟨o, ho, h⟩ := out_bind_val h
        dsimp only
        rw [hcall name callee _ o hl ho]
        exact h
    | .call p name false none params, env, r, hp, h => by
      rw [Spec.Eval.renderCmd] at h
      simp only [refCmd, refBase]
      cases hl : Registry.lookup reg name with
      | none => simp [hl] at h
      | some callee =>
        simp only [hl, ↓reduceIte, Bool.false_eq_true] at h ⊢
        obtain ⟨b, hb, h⟩ := out_bind_val h
        obtain ⟨ps, hps, h⟩ := out_bind_val h
        rw [hb]
        simp only [Spec.Eval.Out.bind]
        rw [spec_le_ref_params params env ps (by simpa [dirCmd] using hp) hps]
        obtain ⟨o, ho, h⟩ := out_bind_val h
        dsimp only
        rw [hcall name callee _ o hl ho]
        exact h
    | .call p name false (some d) params, env, r, hp, h => by
      rw [Spec.Eval.renderCmd] at h
      simp only [refCmd, refBase]
      cases hl : Registry.lookup reg name with
      | none => simp [hl] at h
      | some callee =>
        simp only [hl, ↓reduceIte, Bool.false_eq_true] at h ⊢
        obtain ⟨b, hb, h⟩ := out_bind_val h
        obtain ⟨ps, hps, h⟩ := out_bind_val h
        obtain ⟨v, hv, hb⟩ := out_bind_val hb
        rw [hv]
        simp only [Spec.Eval.Out.bind]
        cases v <;> simp only [Out.val.injEq, reduceCtorEq] at hb
        subst hb
        simp only [Spec.Eval.Out.bind]
        rw [spec_le_ref_params params env ps (by simpa [dirCmd] using hp) hps]
        obtain ⟨o, ho, h⟩ := out_bind_val h
        dsimp only
        rw [hcall name callee _ o hl ho]
        exact h
    | .letContent p name body, env, r, hp, h => by
      rw [Spec.Eval.renderCmd] at h
      simp only [refCmd]
      obtain ⟨out, ho, h⟩ := out_bind_val h
      rw [spec_le_ref_block body env out (by simpa [dirCmd] using hp) ho]
      exact h
    | .headerParam .., _, _, hp, _ => by simp [dirCmd] at hp
    | .namespace .., _, _, hp, _ => by simp [dirCmd] at hp
    | .template .., _, _, hp, _ => by simp [dirCmd] at hp
    | .soyDoc .., _, _, hp, _ => by simp [dirCmd] at hp
  theorem spec_le_ref_parts : ∀ (ps : MsgParts) (env : SEnv) (r : Bytes × SEnv), dirParts ok hasBundle ps = true →
      Spec.Eval.renderParts reg hasBundle (ae != .off) entry call' dsem ps env = .val r →
      refParts F ⟨reg, entry, call⟩ ae ps env = .val r
    | .nil, env, r, _, h => by
      rw [Spec.Eval.renderParts] at h
      simpa [refParts] using h
    | .text p t rest, env, r, hp, h => by
      rw [Spec.Eval.renderParts] at h
      simp only [refParts]
      obtain ⟨r1, h1, h⟩ := out_bind_val h
      rw [spec_le_ref_parts rest env r1 (by simpa [dirParts] using hp) h1]
      exact h
    | .ph p name body rest, env, r, hp, h => by
      simp only [dirParts, Bool.and_eq_true] at hp
      rw [Spec.Eval.renderParts] at h
      simp only [refParts]
      obtain ⟨r1, h1, h⟩ := out_bind_val h
      obtain ⟨r2, h2, h⟩ := out_bind_val h
      rw [spec_le_ref_ph body env r1 hp.1 h1]
      simp only [Spec.Eval.Out.bind]
      rw [spec_le_ref_parts rest r1.2 r2 hp.2 h2]
      exact h
    | .plural p vn value cases dp dflt rest, env, r, hp, h => by
      simp only [dirParts, Bool.and_eq_true] at hp
      rw [Spec.Eval.renderParts] at h
      simp only [refParts]
      obtain ⟨v, hv, h⟩ := out_bind_val h
      rw [hv]
      simp only [Spec.Eval.Out.bind]
      cases v <;> simp only [reduceCtorEq] at h
      rename_i i
      obtain ⟨r1, h1, h⟩ := out_bind_val h
      obtain ⟨r2, h2, h⟩ := out_bind_val h
      have hsp : (match refPlural F ⟨reg, entry, call⟩ ae cases i env with
          | some r => r
          | none => refParts F ⟨reg, entry, call⟩ ae dflt env) = .val r1 := by
        rcases spec_le_ref_plural cases i env _ r1 hp.1.1 h1 with hq | ⟨hq, hd⟩
        · rw [hq]
        · rw [hq]
          exact spec_le_ref_parts dflt env r1 hp.1.2 hd
      dsimp only
      rw [hsp]
      dsimp only
      rw [spec_le_ref_parts rest r1.2 r2 hp.2 h2]
      exact h
  theorem spec_le_ref_plural : ∀ (cs : PluralCases) (i : Int) (env : SEnv) (dfltF : SEnv → Spec.Eval.ROut) (r : Bytes × SEnv),
      dirPCases ok hasBundle cs = true →
      Spec.Eval.renderPlural reg hasBundle (ae != .off) entry call' dsem cs dfltF i env = .val r →
      refPlural F ⟨reg, entry, call⟩ ae cs i env = some (.val r) ∨
        (refPlural F ⟨reg, entry, call⟩ ae cs i env = none ∧ dfltF env = .val r)
    | .nil, i, env, dfltF, r, _, h => by
      rw [Spec.Eval.renderPlural] at h
      exact Or.inr ⟨by simp [refPlural], h⟩
    | .cons p v bp body rest, i, env, dfltF, r, hp, h => by
      simp only [dirPCases, Bool.and_eq_true] at hp
      rw [Spec.Eval.renderPlural] at h
      simp only [refPlural]
      by_cases hiv : (i == v) = true
      · simp only [hiv, if_true] at h ⊢
        exact Or.inl (by rw [spec_le_ref_parts body env r hp.1 h])
      · simp only [hiv, Bool.false_eq_true, if_false] at h ⊢
        exact spec_le_ref_plural rest i env dfltF r hp.2 h
  theorem spec_le_ref_ph : ∀ (b : MsgPhBody) (env : SEnv) (r : Bytes × SEnv), dirPh ok hasBundle b = true →
      Spec.Eval.renderPh reg hasBundle (ae != .off) entry call' dsem b env = .val r →
      refPh F ⟨reg, entry, call⟩ ae b env = .val r
    | .htmlTag p t, env, r, _, h => by
      rw [Spec.Eval.renderPh] at h
      simpa [refPh] using h
    | .cmd c, env, r, hp, h => by
      rw [Spec.Eval.renderPh] at h
      simp only [refPh]
      exact spec_le_ref_cmd c env r (by simpa [dirPh] using hp) h
  theorem spec_le_ref_params : ∀ (ps : ParamList) (env : SEnv) (out : Spec.Eval.Binds), dirParams ok hasBundle ps = true →
      Spec.Eval.renderParams reg hasBundle (ae != .off) entry call' dsem ps env = .val out →
      refParams F ⟨reg, entry, call⟩ ae ps env = .val out
    | .nil, env, out, _, h => by
      rw [Spec.Eval.renderParams] at h
      simpa [refParams] using h
    | .value p key e rest, env, out, hp, h => by
      rw [Spec.Eval.renderParams] at h
      simp only [refParams]
      obtain ⟨v, hv, h⟩ := out_bind_val h
      obtain ⟨r, hr, h⟩ := out_bind_val h
      rw [hv]
      simp only [Spec.Eval.Out.bind]
      rw [spec_le_ref_params rest env r (by simpa [dirParams] using hp) hr]
      exact h
    | .content p key body rest, env, out, hp, h => by
      rw [Spec.Eval.renderParams] at h
      simp only [dirParams, Bool.and_eq_true] at hp
      simp only [refParams]
      obtain ⟨o1, ho1, h⟩ := out_bind_val h
      obtain ⟨r, hr, h⟩ := out_bind_val h
      rw [spec_le_ref_block body env o1 hp.1 ho1]
      simp only [Spec.Eval.Out.bind]
      rw [spec_le_ref_params rest env r hp.2 hr]
      exact h
  theorem spec_le_ref_block : ∀ (b : Block) (env : SEnv) (out : Bytes), dirBlock ok hasBundle b = true →
      Spec.Eval.renderBlock reg hasBundle (ae != .off) entry call' dsem b env = .val out → refBlock F ⟨reg, entry, call⟩ ae b env = .val out
    | .mk p cmds, env, out, hp, h => by
      rw [Spec.Eval.renderBlock] at h
      simp only [refBlock]
      exact spec_le_ref_cmds cmds env out (by simpa [dirBlock] using hp) h
  theorem spec_le_ref_cmds : ∀ (cs : CmdList) (env : SEnv) (out : Bytes), dirCmds ok hasBundle cs = true →
      Spec.Eval.renderCmds reg hasBundle (ae != .off) entry call' dsem cs env = .val out → refCmds F ⟨reg, entry, call⟩ ae cs env = .val out
    | .nil, env, out, _, h => by
      rw [Spec.Eval.renderCmds] at h
      simpa [refCmds] using h
    | .cons c rest, env, out, hp, h => by
      rw [Spec.Eval.renderCmds] at h
      simp only [dirCmds, Bool.and_eq_true] at hp
      simp only [refCmds]
      obtain ⟨r1, h1, h⟩ := out_bind_val h
      obtain ⟨more, h2, h⟩ := out_bind_val h
      rw [spec_le_ref_cmd c env r1 hp.1 h1]
      simp only [Spec.Eval.Out.bind]
      rw [spec_le_ref_cmds rest r1.2 more hp.2 h2]
      exact h
  theorem spec_le_ref_cases : ∀ (cs : CaseList) (sv : Val) (env : SEnv) (out : Bytes), dirCases ok hasBundle cs = true →
      Spec.Eval.renderCases reg hasBundle (ae != .off) entry call' dsem cs sv env = .val out → refCases F ⟨reg, entry, call⟩ ae cs sv env = .val out
    | .nil, sv, env, out, _, h => by
      rw [Spec.Eval.renderCases, Spec.Eval.renderMatch, Spec.Eval.renderDefault] at h
      simpa [refCases, Spec.Eval.Out.bind, Spec.Eval.orDefault] using h
    | .cons p values body rest, sv, env, out, hp, h => by
      simp only [dirCases, Bool.and_eq_true, Bool.or_eq_true, Bool.not_eq_true'] at hp
      obtain ⟨⟨hpb, hpr⟩, hlast⟩ := hp
      simp only [refCases]
      by_cases hem : values.isEmpty = true
      · simp only [hem, if_true]
        have hv : values = [] := by simpa using hem
        subst hv
        have hr : rest = .nil := by
          rcases hlast with h0 | h0
          · simp at h0
          · cases rest with
            | nil => rfl
            | cons _ _ _ _ => simp at h0
        subst hr
        rw [Spec.Eval.renderCases, Spec.Eval.renderMatch, Spec.Eval.renderDefault] at h
        simp only [Spec.Eval.matchAny, Spec.Eval.Out.bind, Bool.false_eq_true, if_false, Spec.Eval.renderMatch,
          Spec.Eval.orDefault, List.isEmpty_nil, if_true] at h
        exact spec_le_ref_block body env out hpb h
      · simp only [hem, Bool.false_eq_true, if_false]
        rw [Spec.Eval.renderCases, Spec.Eval.renderMatch, Spec.Eval.renderDefault] at h
        simp only [hem, Bool.false_eq_true, if_false] at h
        obtain ⟨o1, ho1, h⟩ := out_bind_val h
        obtain ⟨hit, hh, ho1⟩ := out_bind_val ho1
        rw [hh]
        simp only [Spec.Eval.Out.bind]
        cases hit with
        | true =>
          simp only [if_true] at ho1 ⊢
          obtain ⟨ob, hob, ho1⟩ := out_bind_val ho1
          simp only [Out.val.injEq] at ho1
          subst ho1
          simp only [Spec.Eval.orDefault, Out.val.injEq] at h
          subst h
          exact spec_le_ref_block body env ob hpb hob
        | false =>
          simp only [Bool.false_eq_true, if_false] at ho1 ⊢
          apply spec_le_ref_cases rest sv env out hpr
          rw [Spec.Eval.renderCases, ho1]
          exact h
  theorem spec_le_ref_conds : ∀ (cs : CondList) (env : SEnv) (out : Bytes), dirConds ok hasBundle cs = true →
      Spec.Eval.renderConds reg hasBundle (ae != .off) entry call' dsem cs env = .val out → refConds F ⟨reg, entry, call⟩ ae cs env = .val out
    | .nil, env, out, _, h => by
      rw [Spec.Eval.renderConds] at h
      simpa [refConds] using h
    | .cons p (some c) body rest, env, out, hp, h => by
      rw [Spec.Eval.renderConds] at h
      simp only [dirConds, Bool.and_eq_true] at hp
      simp only [refConds] at h ⊢
      obtain ⟨v, hv, h⟩ := out_bind_val h
      rw [hv]
      simp only [Spec.Eval.Out.bind]
      by_cases ht : Spec.Eval.truthy v = true
      · simp only [ht, if_true] at h ⊢
        exact spec_le_ref_block body env out hp.1 h
      · simp only [ht, Bool.false_eq_true, if_false] at h ⊢
        exact spec_le_ref_conds rest env out hp.2 h
    | .cons p none body rest, env, out, hp, h => by
      rw [Spec.Eval.renderConds] at h
      simp only [dirConds, Bool.and_eq_true] at hp
      simp only [refConds] at h ⊢
      exact spec_le_ref_block body env out hp.1 h
end

end

section
variable (F : Bytes → List Expr → JVal → JOut) (G : Callee) (R : RefCtx) (ae : Autoescape)

/-- against Spec/Eval.renderCmds itself: directive-free prints, soy.$$escapeHtml read as htmlEscape -/
theorem gen_correct_cmds_spec (hesc : EscapeHtmlIs F) (buf : Bytes)
    (reg : Registry.Reg) (hasBundle : Bool) (entry : Spec.Eval.Binds)
    (call : Registry.Tmpl → Spec.Eval.CallEnv → Out Bytes) (hG : CallRel G ⟨reg, entry, call⟩)
    (cmds : CmdList) (hplain : plainCmds hasBundle cmds = true) (sc : Scope) (r : JsStmts × Scope)
    (h : toCmds ae buf cmds sc = some r) (env : SEnv) (jenv jenv' : JEnv) (out : Bytes) (hs : ScOk sc)
    (hg : GoodBuf sc buf) (hrel : EnvRel entry sc env jenv) (hb : BufIs buf jenv out) (fuel : Nat)
    (hx : execStmts F G fuel r.1 jenv = .ok jenv') :
    ∃ text, Spec.Eval.renderCmds reg hasBundle (ae != .off) entry call none cmds env = .val text ∧
      BufIs buf jenv' (out ++ text) := by
  obtain ⟨text, ht, hb', _⟩ := cmds_ok F G ⟨reg, entry, call⟩ ae hG cmds buf fuel sc r env jenv jenv' out h hs hg hrel hb hx
  exact ⟨text, ref_le_spec_cmds F ae hesc reg hasBundle entry call call noDirs none (print_le_noDirs F ae hesc none)
    (fun _ _ _ _ _ h => h) cmds env text hplain ht, hb'⟩

end

end Dev

/-! ## non-vacuity -/

section Examples
open SoyVerif.Spec.Eval (Val Out)

/-- the examples are without globals (those with: the last ones) -/
def exGlobals : Globals := ⟨[]⟩
local instance : Globals := exGlobals
local instance : GlobalsAre ({} : Options) := ⟨rfl⟩

theorem exGlobRel (gs : Spec.Eval.Binds) : GlobRel gs := fun _ _ _ h => by
  have : (Globals.tbl : List (Bytes × Value)) = [] := rfl
  rw [this] at h
  simp [assocGet?] at h


/-- `{let $x: $a + 1 /}{if $x > 2}big {let $x: '<' /}{$x}{else}small{/if}{$x |truncate:3}` -/
def sampleCmds : CmdList :=
  .cons (.letValue 0 b!"x" (.bin .add 0 (.dataRef 0 b!"a" .nil) (.int 0 1)))
  (.cons (.ifc 0
    (.cons 0 (some (.bin .gt 0 (.dataRef 0 b!"x" .nil) (.int 0 2)))
      (.mk 0 (.cons (.rawText 0 b!"big ") (.cons (.letValue 0 b!"x" (.str 0 b!"'<'" b!"<"))
        (.cons (.print 0 (.dataRef 0 b!"x" .nil) []) .nil))))
      (.cons 0 none (.mk 0 (.cons (.rawText 0 b!"small") .nil)) .nil)))
  (.cons (.print 0 (.dataRef 0 b!"x" .nil) [⟨0, b!"truncate", [.int 0 3]⟩]) .nil))

/-- soy.$$escapeHtml as htmlEscape ∘ ToString; any other library function `f` ↦ "f!" ++ ToString -/
def sampleF (name : Bytes) (_ : List Expr) (jv : JVal) : JOut :=
  match toStr? jv with
  | some s => .val (.str (if name == escapeHtmlName then htmlEscape s else name ++ b!"!" ++ s))
  | none => .unspec

/-- no other template to call -/
def noCall : Callee := fun _ _ _ => .unspec
/-- a reference context without templates, for the entry data `e` -/
def noRefOn (e : Spec.Eval.Binds) : RefCtx := ⟨[], e, fun _ _ => .unspec⟩
def noRef : RefCtx := noRefOn []

theorem noCall_rel (R : RefCtx) : CallRel noCall R := fun _ _ _ _ _ _ _ _ h => by simp [noCall] at h

theorem sampleF_escape : EscapeHtmlIs sampleF := by
  intro jv
  simp only [sampleF]
  cases toStr? jv <;> simp


-- the JavaScript the generator model writes for it (autoescaping on, one level of indentation)
set_option maxRecDepth 8000 in
example : (toCmds .on b!"output" sampleCmds ⟨[[]], 0⟩).map (fun r => printPieces (renderStmts false 1 r.1)) = some
    b!"  var x$1 = ((opt_data.a) + (1));\n  if (((x$1) > (2))) {\n    output += 'big ';\n    var x$2 = '\\u003C';\n    output += soy.$$escapeHtml(x$2);\n  } else {\n    output += 'small';\n  }\n  output += soy.$$escapeHtml(soy.$$truncate(x$1,3,true));\n" := rfl

def sampleJEnv (a : Int) : JEnv := ⟨[(b!"a", .num a)], none, [(b!"output", .str [])]⟩
def sampleEnv (a : Int) : SEnv := { vars := [(b!"a", .int a)], loops := [], ij := none, globals := [] }

/-- what the statements leave in `output` -/
def sampleRun (a : Int) : Option JVal :=
  match toCmds .on b!"output" sampleCmds ⟨[[]], 0⟩ with
  | some r =>
    (match execStmts sampleF noCall 10 r.1 (sampleJEnv a) with
      | .ok e => (e.locals.find? (·.1 == b!"output")).map (·.2)
      | _ => none)
  | none => none

-- the inner `$x` is the fresh local `x$2`; after the block `$x` is `x$1` again
example : sampleRun 5 = some (.str b!"big &lt;truncate!6") := rfl
example : sampleRun 0 = some (.str b!"smalltruncate!1") := rfl
example : refCmds sampleF noRef .on sampleCmds (sampleEnv 5) = .val b!"big &lt;truncate!6" := rfl
example : refCmds sampleF noRef .on sampleCmds (sampleEnv 0) = .val b!"smalltruncate!1" := rfl

/-- the theorem on the sample: for EVERY `a` the statements complete on, the specification's text is
    what `output` holds -/
example (a : Int) (ha : SoyVerif.Spec.JsSem.exact a = true) (jenv' : JEnv) (r : JsStmts × Scope) (h : toCmds .on b!"output" sampleCmds ⟨[[]], 0⟩ = some r)
    (hx : execStmts sampleF noCall 10 r.1 (sampleJEnv a) = .ok jenv') :
    ∃ text, refCmds sampleF (noRefOn (sampleEnv a).vars) .on sampleCmds (sampleEnv a) = .val text ∧
      BufIs b!"output" jenv' text :=
  gen_correct_body_partial sampleF noCall (noRefOn (sampleEnv a).vars) .on (noCall_rel _) sampleCmds 0 r h (sampleEnv a) _ none rfl
    (by simp [sampleEnv, C04c.toJsKvs, C04c.toJsV, ha]) rfl (exGlobRel _) jenv' 10 hx

/-- … and these statements are what the generator model writes: from a state inside a template
    function (indentation 1, buffer `output`, autoescaping on, a fresh frame) -/
example : ∀ r, toCmds .on b!"output" sampleCmds ⟨[[]], 0⟩ = some r →
    ∃ s', walkCmds id {} sampleCmds { indent := 1, bufferName := b!"output", autoescape := .on, scope := ⟨[[]], 0⟩ } =
      .ok ((), renderStmts false 1 r.1, s') ∧ s'.scope = r.2 := by
  intro r h
  obtain ⟨s', h1, h2⟩ := (gen_correct_cmds_partial sampleF noCall noRef .on b!"output" (noCall_rel _) id {} rfl sampleCmds _ r h).1 1
    { indent := 1, bufferName := b!"output", autoescape := .on, scope := ⟨[[]], 0⟩ } ⟨rfl, rfl, rfl, rfl⟩
  exact ⟨s', h1, h2.2.2.2⟩

/-- the semantics has teeth: had the generator reused `x$1` for the inner `{let $x}` (no fresh name:
    a `var` is function-scoped), the print after the `{if}` would see the inner value -/
def badStmts : JsStmts :=
  .cons (.var b!"x$1" (.bin .add (.optData b!"a") (.num 1)))
  (.cons (.ifs (.cons (.bin .gt (.local b!"x$1") (.num 2))
      (.cons (.appendLit b!"output" b!"big ") (.cons (.var b!"x$1" (.str b!"<"))
        (.cons (.append b!"output" (.local b!"x$1") [escapeHtmlDir]) .nil)))
      (.els (.cons (.appendLit b!"output" b!"small") .nil))))
  (.cons (.append b!"output" (.local b!"x$1") [⟨0, b!"truncate", [.int 0 3]⟩, escapeHtmlDir]) .nil))

example : (match execStmts sampleF noCall 10 badStmts (sampleJEnv 5) with
    | .ok e => (e.locals.find? (·.1 == b!"output")).map (·.2)
    | _ => none) = some (.str b!"big &lt;truncate!&lt;") := rfl

/-- `{foreach $x in $xs}[{$x}]{let $y: $x + 1 /}{ifempty}none{/foreach}{$x}` — after the loop `$x` is the
    parameter again -/
def sampleLoop : CmdList :=
  .cons (.forc 0 b!"x" (.dataRef 0 b!"xs" .nil)
      (.mk 0 (.cons (.rawText 0 b!"[") (.cons (.print 0 (.dataRef 0 b!"x" .nil) [])
        (.cons (.rawText 0 b!"]") (.cons (.letValue 0 b!"y" (.bin .add 0 (.dataRef 0 b!"x" .nil) (.int 0 1))) .nil)))))
      (some (.mk 0 (.cons (.rawText 0 b!"none") .nil))))
  (.cons (.print 0 (.dataRef 0 b!"x" .nil) []) .nil)

set_option maxRecDepth 8000 in
example : (toCmds .off b!"output" sampleLoop ⟨[[]], 0⟩).map (fun r => printPieces (renderStmts false 1 r.1)) = some
    b!"  var x$List1 = opt_data.xs;\n  var x$Limit1 = x$List1.length;\n  if (x$Limit1 > 0) {\n    for (var x$Index1 = 0; x$Index1 < x$Limit1; x$Index1++) {\n      var x$1 = x$List1[x$Index1];\n      output += '[';\n      output += x$1;\n      output += ']';\n      var y$2 = ((x$1) + (1));\n    }\n  } else {\n    output += 'none';\n  }\n  output += opt_data.x;\n" := rfl

def loopRun (xs : List JVal) : Option JVal :=
  match toCmds .off b!"output" sampleLoop ⟨[[]], 0⟩ with
  | some r =>
    (match execStmts sampleF noCall 10 r.1 ⟨[(b!"xs", .arr xs), (b!"x", .str b!"p")], none, [(b!"output", .str [])]⟩ with
      | .ok e => (e.locals.find? (·.1 == b!"output")).map (·.2)
      | _ => none)
  | none => none

def loopEnv (xs : List Val) : SEnv :=
  { vars := [(b!"xs", .list xs), (b!"x", .str b!"p")], loops := [], ij := none, globals := [] }

example : loopRun [.num 7, .num 8, .num 9] = some (.str b!"[7][8][9]p") := rfl
example : loopRun [] = some (.str b!"nonep") := rfl
example : refCmds sampleF noRef .off sampleLoop (loopEnv [.int 7, .int 8, .int 9]) = .val b!"[7][8][9]p" := rfl
example : refCmds sampleF noRef .off sampleLoop (loopEnv []) = .val b!"nonep" := rfl
-- the loop needs fuel: with too little the run is not a completed one (and the theorem says nothing)
example : (match toCmds .off b!"output" sampleLoop ⟨[[]], 0⟩ with
    | some r => (match execStmts sampleF noCall 2 r.1
        ⟨[(b!"xs", .arr [.num 7, .num 8, .num 9])], none, [(b!"output", .str [])]⟩ with
      | .unspec => true
      | _ => false)
    | none => false) = true := rfl

/-- `{for $i in range(1, $n, 2)}{$i},{/for}{$i}` — after the loop `$i` is the parameter again -/
def sampleRange : CmdList :=
  .cons (.forc 0 b!"i" (.func 0 b!"range" (.cons (.int 0 1) (.cons (.dataRef 0 b!"n" .nil) (.cons (.int 0 2) .nil))))
      (.mk 0 (.cons (.print 0 (.dataRef 0 b!"i" .nil) []) (.cons (.rawText 0 b!",") .nil))) none)
  (.cons (.print 0 (.dataRef 0 b!"i" .nil) []) .nil)

set_option maxRecDepth 8000 in
example : (toCmds .off b!"output" sampleRange ⟨[[]], 0⟩).map (fun r => printPieces (renderStmts false 1 r.1)) = some
    b!"  var i$Limit1 = opt_data.n;\n  var i$Step1 = 2;\n  for (var i$1 = 1, i$Index1 = 0; i$1 < i$Limit1; i$1 += i$Step1, i$Index1++) {\n    output += i$1;\n    output += ',';\n  }\n  output += opt_data.i;\n" := rfl

example : (match toCmds .off b!"output" sampleRange ⟨[[]], 0⟩ with
    | some r => (match execStmts sampleF noCall 10 r.1 ⟨[(b!"n", .num 6), (b!"i", .str b!"p")], none, [(b!"output", .str [])]⟩ with
      | .ok e => (e.locals.find? (·.1 == b!"output")).map (·.2)
      | _ => none)
    | none => none) = some (.str b!"1,3,5,p") := rfl

example : refCmds sampleF noRef .off sampleRange
    { vars := [(b!"n", .int 6), (b!"i", .str b!"p")], loops := [], ij := none, globals := [] } = .val b!"1,3,5,p" := rfl

/-- `{foreach $i in range($n)}[{$i}]{ifempty}nothing{$i}{/foreach}` (soyjs 2e1528d) — the `{ifempty}` block after the loop,
    where `$i` is the parameter again -/
def sampleRangeIe : CmdList :=
  .cons (.forc 0 b!"i" (.func 0 b!"range" (.cons (.dataRef 0 b!"n" .nil) .nil))
      (.mk 0 (.cons (.rawText 0 b!"[") (.cons (.print 0 (.dataRef 0 b!"i" .nil) []) (.cons (.rawText 0 b!"]") .nil))))
      (some (.mk 0 (.cons (.rawText 0 b!"nothing") (.cons (.print 0 (.dataRef 0 b!"i" .nil) []) .nil))))) .nil

set_option maxRecDepth 8000 in
example : (toCmds .off b!"output" sampleRangeIe ⟨[[]], 0⟩).map (fun r => printPieces (renderStmts false 1 r.1)) = some
    b!"  var i$Limit1 = opt_data.n;\n  var i$Step1 = 1;\n  for (var i$1 = 0, i$Index1 = 0; i$1 < i$Limit1; i$1 += i$Step1, i$Index1++) {\n    output += '[';\n    output += i$1;\n    output += ']';\n  }\n  if (i$Index1 == 0) {\n    output += 'nothing';\n    output += opt_data.i;\n  }\n" := by
  decide +kernel

def rangeIeRun (n : Int) : Option JVal :=
  match toCmds .off b!"output" sampleRangeIe ⟨[[]], 0⟩ with
  | some r => (match execStmts sampleF noCall 10 r.1 ⟨[(b!"n", .num n), (b!"i", .str b!"p")], none, [(b!"output", .str [])]⟩ with
    | .ok e => (e.locals.find? (·.1 == b!"output")).map (·.2)
    | _ => none)
  | none => none

example : rangeIeRun 0 = some (.str b!"nothingp") := rfl
example : rangeIeRun 2 = some (.str b!"[0][1]") := rfl
example : refCmds sampleF noRef .off sampleRangeIe
    { vars := [(b!"n", .int 0), (b!"i", .str b!"p")], loops := [], ij := none, globals := [] } = .val b!"nothingp" := rfl
example : refCmds sampleF noRef .off sampleRangeIe
    { vars := [(b!"n", .int 2), (b!"i", .str b!"p")], loops := [], ij := none, globals := [] } = .val b!"[0][1]" := rfl

/-- `{switch $n}{case 1, 2}low{let $n: 'x' /}{$n}{case 'a'}str{default}other{/switch}{$n}` -/
def sampleSwitch : CmdList :=
  .cons (.switch 0 (.dataRef 0 b!"n" .nil)
    (.cons 0 [.int 0 1, .int 0 2] (.mk 0 (.cons (.rawText 0 b!"low") (.cons (.letValue 0 b!"n" (.str 0 b!"'x'" b!"x"))
        (.cons (.print 0 (.dataRef 0 b!"n" .nil) []) .nil))))
      (.cons 0 [.str 0 b!"'a'" b!"a"] (.mk 0 (.cons (.rawText 0 b!"str") .nil))
        (.cons 0 [] (.mk 0 (.cons (.rawText 0 b!"other") .nil)) .nil))))
  (.cons (.print 0 (.dataRef 0 b!"n" .nil) []) .nil)

set_option maxRecDepth 8000 in
example : (toCmds .off b!"output" sampleSwitch ⟨[[]], 0⟩).map (fun r => printPieces (renderStmts false 1 r.1)) = some
    b!"  switch (opt_data.n) {\n    case 1:\n    case 2:\n      output += 'low';\n      var n$1 = 'x';\n      output += n$1;\n      break;\n    case 'a':\n      output += 'str';\n      break;\n    default:\n      output += 'other';\n      break;\n  }\n  output += opt_data.n;\n" := rfl

def switchRun (n : JVal) : Option JVal :=
  match toCmds .off b!"output" sampleSwitch ⟨[[]], 0⟩ with
  | some r =>
    (match execStmts sampleF noCall 10 r.1 ⟨[(b!"n", n)], none, [(b!"output", .str [])]⟩ with
      | .ok e => (e.locals.find? (·.1 == b!"output")).map (·.2)
      | _ => none)
  | none => none

example : switchRun (.num 2) = some (.str b!"lowx2") := rfl
example : switchRun (.str b!"a") = some (.str b!"stra") := rfl
example : switchRun (.bool true) = some (.str b!"othertrue") := rfl
example : refCmds sampleF noRef .off sampleSwitch { vars := [(b!"n", .int 2)], loops := [], ij := none, globals := [] } =
    .val b!"lowx2" := rfl

/-- `a{let $x}<{$n}{let $n}in{/let}{$n}>{/let}b{$x}{$n}` — the inner `{let $n}` is visible in the content block only -/
def sampleContent : CmdList :=
  .cons (.rawText 0 b!"a")
  (.cons (.letContent 0 b!"x" (.mk 0 (.cons (.rawText 0 b!"<") (.cons (.print 0 (.dataRef 0 b!"n" .nil) [])
      (.cons (.letContent 0 b!"n" (.mk 0 (.cons (.rawText 0 b!"in") .nil)))
        (.cons (.print 0 (.dataRef 0 b!"n" .nil) []) (.cons (.rawText 0 b!">") .nil)))))))
  (.cons (.rawText 0 b!"b") (.cons (.print 0 (.dataRef 0 b!"x" .nil) []) (.cons (.print 0 (.dataRef 0 b!"n" .nil) []) .nil))))

set_option maxRecDepth 8000 in
example : (toCmds .off b!"output" sampleContent ⟨[[]], 0⟩).map (fun r => printPieces (renderStmts false 1 r.1)) = some
    b!"  output += 'a';\n  var x$1 = '';\n  x$1 += '\\u003C';\n  x$1 += opt_data.n;\n  var n$2 = '';\n  n$2 += 'in';\n  x$1 += n$2;\n  x$1 += '\\u003E';\n  output += 'b';\n  output += x$1;\n  output += opt_data.n;\n" := rfl

example : (match toCmds .off b!"output" sampleContent ⟨[[]], 0⟩ with
    | some r => (match execStmts sampleF noCall 10 r.1 ⟨[(b!"n", .num 7)], none, [(b!"output", .str [])]⟩ with
      | .ok e => (e.locals.find? (·.1 == b!"output")).map (·.2)
      | _ => none)
    | none => none) = some (.str b!"ab<7in>7") := rfl

example : refCmds sampleF noRef .off sampleContent { vars := [(b!"n", .int 7)], loops := [], ij := none, globals := [] } =
    .val b!"ab<7in>7" := rfl

/-- `{for $i in range(1, 4)}{index($i)}{isFirst($i) ? 'F' : ''}{isLast($i) ? 'L' : ''},{/for}` and the same over a list —
    the example of ed89aa1: index counts iterations (0, 1, 2), not the values 1, 2, 3 -/
def sampleLoopFns (list : Expr) : CmdList :=
  .cons (.forc 0 b!"i" list
      (.mk 0 (.cons (.print 0 (.func 0 b!"index" (.cons (.dataRef 0 b!"i" .nil) .nil)) [])
        (.cons (.print 0 (.tern 0 (.func 0 b!"isFirst" (.cons (.dataRef 0 b!"i" .nil) .nil)) (.str 0 b!"'F'" b!"F") (.str 0 b!"''" [])) [])
        (.cons (.print 0 (.tern 0 (.func 0 b!"isLast" (.cons (.dataRef 0 b!"i" .nil) .nil)) (.str 0 b!"'L'" b!"L") (.str 0 b!"''" [])) [])
        (.cons (.rawText 0 b!",") .nil))))) none) .nil

def rangeList : Expr := .func 0 b!"range" (.cons (.int 0 1) (.cons (.int 0 4) .nil))

set_option maxRecDepth 8000 in
example : (toCmds .off b!"output" (sampleLoopFns rangeList) ⟨[[]], 0⟩).map (fun r => printPieces (renderStmts false 1 r.1)) = some
    b!"  var i$Limit1 = 4;\n  var i$Step1 = 1;\n  for (var i$1 = 1, i$Index1 = 0; i$1 < i$Limit1; i$1 += i$Step1, i$Index1++) {\n    output += i$Index1;\n    output += (((i$Index1 == 0)) ?'F':'');\n    output += (((i$1 + i$Step1 >= i$Limit1)) ?'L':'');\n    output += ',';\n  }\n" := rfl

def loopFnsRun (list : Expr) (data : List (Bytes × JVal)) : Option JVal :=
  match toCmds .off b!"output" (sampleLoopFns list) ⟨[[]], 0⟩ with
  | some r =>
    (match execStmts sampleF noCall 10 r.1 ⟨data, none, [(b!"output", .str [])]⟩ with
      | .ok e => (e.locals.find? (·.1 == b!"output")).map (·.2)
      | _ => none)
  | none => none

example : loopFnsRun rangeList [] = some (.str b!"0F,1,2L,") := rfl
example : refCmds sampleF noRef .off (sampleLoopFns rangeList) { vars := [], loops := [], ij := none, globals := [] } =
    .val b!"0F,1,2L," := rfl
example : loopFnsRun (.dataRef 0 b!"xs" .nil) [(b!"xs", .arr [.str b!"a", .str b!"b"])] = some (.str b!"0F,1L,") := rfl
example : refCmds sampleF noRef .off (sampleLoopFns (.dataRef 0 b!"xs" .nil))
    { vars := [(b!"xs", .list [.str b!"a", .str b!"b"])], loops := [], ij := none, globals := [] } = .val b!"0F,1L," := rfl

/-- `[{call sem.c data="all"}{param p: $a + 1 /}{param c}<{$a}>{/param}{/call}]` -/
def sampleCall : CmdList :=
  .cons (.rawText 0 b!"[") (.cons (.call 0 b!"sem.c" true none
    (.value 0 b!"p" (.bin .add 0 (.dataRef 0 b!"a" .nil) (.int 0 1))
      (.content 0 b!"c" (.mk 0 (.cons (.rawText 0 b!"<") (.cons (.print 0 (.dataRef 0 b!"a" .nil) []) (.cons (.rawText 0 b!">") .nil)))) .nil)))
    (.cons (.rawText 0 b!"]") .nil))

-- the content param is rendered into `param$1` first; the call's data is `opt_data` with the params laid over it
set_option maxRecDepth 8000 in
example : (toCmds .on b!"output" sampleCall ⟨[[]], 0⟩).map (fun r => printPieces (renderStmts false 1 r.1)) = some
    b!"  output += '[';\n  var param$1 = '';\n  param$1 += '\\u003C';\n  param$1 += soy.$$escapeHtml(opt_data.a);\n  param$1 += '\\u003E';\n  output += sem.c(soy.$$augmentMap(opt_data, {p: ((opt_data.a) + (1)), c: param$1}), opt_sb, opt_ijData);\n  output += ']';\n" := rfl

/-- a callee oracle: the function `sem.c` returns `p:c:a` of its data object (`{$p}:{$c|noAutoescape}:{$a}`) -/
def sampleG : Callee := fun name d _ =>
  if name == b!"sem.c" then
    match d with
    | .obj jd =>
      (match prop jd b!"p", prop jd b!"c", prop jd b!"a" with
        | .num p, .str c, .num a => .val (.str (F64.intDigits p ++ b!":" ++ c ++ b!":" ++ F64.intDigits a))
        | _, _, _ => .unspec)
    | _ => .unspec
  else .unspec

def sampleTmpl : Registry.Tmpl := { (default : Registry.Tmpl) with name := b!"sem.c" }

/-- … and the reference's `call` for it: the template `sem.c` renders `p:c:a` of the data it is entered with -/
def sampleR (entry : Spec.Eval.Binds) : RefCtx :=
  ⟨[sampleTmpl], entry, fun _ ce =>
    match Spec.Eval.find ce.entry b!"p", Spec.Eval.find ce.entry b!"c", Spec.Eval.find ce.entry b!"a" with
    | some (.int p), some (.str c), some (.int a) => .val (F64.intDigits p ++ b!":" ++ c ++ b!":" ++ F64.intDigits a)
    | _, _, _ => .error⟩

theorem toJsV_num {v : Val} {i : Int} (h : toJsV v = some (.num i)) : v = .int i := by
  cases v <;> simp [C04c.toJsV] at h
  exact congrArg Val.int h.2

theorem toJsV_str {v : Val} {t : Bytes} (h : toJsV v = some (.str t)) : v = .str t := by
  cases v <;> simp [C04c.toJsV] at h
  exact congrArg Val.str h

theorem find_of_getD {b : Spec.Eval.Binds} {k : Bytes} {v : Val} (h : (Spec.Eval.find b k).getD .undefined = v)
    (hv : v ≠ .undefined) : Spec.Eval.find b k = some v := by
  cases hf : Spec.Eval.find b k with
  | none => rw [hf] at h; exact absurd h.symm hv
  | some w => rw [hf] at h; exact congrArg some h

/-- the oracle pair satisfies the hypothesis of the call theorems -/
theorem sampleG_rel (entry : Spec.Eval.Binds) : CallRel sampleG (sampleR entry) := by
  intro name ce jd jij r hj _ _ hg
  unfold sampleG at hg
  split at hg
  · rename_i hn
    have hn' : name = b!"sem.c" := by simpa using hn
    subst hn'
    simp only at hg
    have hp := C04c.toJsKvs_find ce.entry jd b!"p" hj
    have hc := C04c.toJsKvs_find ce.entry jd b!"c" hj
    have ha := C04c.toJsKvs_find ce.entry jd b!"a" hj
    split at hg
    · rename_i p c a h1 h2 h3
      simp only [JOut.val.injEq] at hg; subst hg
      rw [h1] at hp; rw [h2] at hc; rw [h3] at ha
      have e1 := find_of_getD (toJsV_num hp) (by simp)
      have e2 := find_of_getD (toJsV_str hc) (by simp)
      have e3 := find_of_getD (toJsV_num ha) (by simp)
      exact ⟨sampleTmpl, _, rfl, by simp only [sampleR, e1, e2, e3], rfl⟩
    · cases hg
  · cases hg

def callRun (a : Int) : Option JVal :=
  match toCmds .on b!"output" sampleCall ⟨[[]], 0⟩ with
  | some r =>
    (match execStmts sampleF sampleG 10 r.1 ⟨[(b!"a", .num a)], none, [(b!"output", .str [])]⟩ with
      | .ok e => (e.locals.find? (·.1 == b!"output")).map (·.2)
      | _ => none)
  | none => none

example : callRun 5 = some (.str b!"[6:<5>:5]") := rfl
example : refCmds sampleF (sampleR [(b!"a", .int 5)]) .on sampleCall (sampleEnv 5) = .val b!"[6:<5>:5]" := rfl

/-- the theorem on the sample, for every `a`: what the JavaScript leaves in `output` is what the reference renders -/
example (a : Int) (jenv' : JEnv) (r : JsStmts × Scope) (h : toCmds .on b!"output" sampleCall ⟨[[]], 0⟩ = some r)
    (ha : SoyVerif.Spec.JsSem.exact a = true)
    (hx : execStmts sampleF sampleG 10 r.1 (sampleJEnv a) = .ok jenv') :
    ∃ text, refCmds sampleF (sampleR (sampleEnv a).vars) .on sampleCall (sampleEnv a) = .val text ∧
      BufIs b!"output" jenv' text :=
  gen_correct_body_partial sampleF sampleG (sampleR (sampleEnv a).vars) .on (sampleG_rel _) sampleCall 0 r h (sampleEnv a) _ none rfl
    (by simp [sampleEnv, C04c.toJsKvs, C04c.toJsV, ha]) rfl (exGlobRel _) jenv' 10 hx

/-- the semantics of the call has teeth: were the params laid UNDER the data (`augmentMap` the other way round), a
    param could not override a key of `data="all"` -/
example : (match execStmts sampleF sampleG 10
      (.cons (.call b!"output" b!"sem.c" .all [(b!"c", .str b!"x"), (b!"p", .num 1), (b!"a", .num 9)]) .nil)
      ⟨[(b!"a", .num 5)], none, [(b!"output", .str [])]⟩ with
    | .ok e => (e.locals.find? (·.1 == b!"output")).map (·.2)
    | _ => none) = some (.str b!"1:x:9") := rfl

/-- `{msg desc="d"}Hi <b>{$a}</b>, {$a + 1}!{/msg}` — without a bundle: the parts in order -/
def sampleMsg : CmdList :=
  .cons (.msg 0 7 [] b!"d" 0
    (.text 0 b!"Hi " (.ph 0 b!"START_BOLD" (.htmlTag 0 b!"<b>") (.ph 0 b!"A" (.cmd (.print 0 (.dataRef 0 b!"a" .nil) []))
      (.ph 0 b!"END_BOLD" (.htmlTag 0 b!"</b>") (.text 0 b!", "
        (.ph 0 b!"XXX" (.cmd (.print 0 (.bin .add 0 (.dataRef 0 b!"a" .nil) (.int 0 1)) [])) (.text 0 b!"!" .nil)))))))) .nil

set_option maxRecDepth 8000 in
example : (toCmds .on b!"output" sampleMsg ⟨[[]], 0⟩).map (fun r => printPieces (renderStmts false 1 r.1)) = some
    b!"  output += 'Hi ';\n  output += '\\u003Cb\\u003E';\n  output += soy.$$escapeHtml(opt_data.a);\n  output += '\\u003C/b\\u003E';\n  output += ', ';\n  output += soy.$$escapeHtml(((opt_data.a) + (1)));\n  output += '!';\n" := by decide +kernel

example : (match toCmds .on b!"output" sampleMsg ⟨[[]], 0⟩ with
    | some r => (match execStmts sampleF noCall 10 r.1 (sampleJEnv 5) with
      | .ok e => (e.locals.find? (·.1 == b!"output")).map (·.2)
      | _ => none)
    | none => none) = some (.str b!"Hi <b>5</b>, 6!") := rfl

example : refCmds sampleF noRef .on sampleMsg (sampleEnv 5) = .val b!"Hi <b>5</b>, 6!" := rfl

-- … and Spec/Eval.renderCmds (no bundle) renders the same
example : Spec.Eval.renderCmds [] false true [] (fun _ _ => .unspec) none sampleMsg (sampleEnv 5) = .val b!"Hi <b>5</b>, 6!" := rfl

/-- `{msg desc="d"}{plural $a}{case 1}one{case 5}five {$a}{default}many{/plural}!{/msg}` -/
def samplePlural : CmdList :=
  .cons (.msg 0 7 [] b!"d" 0
    (.plural 0 b!"A" (.dataRef 0 b!"a" .nil)
      (.cons 0 1 0 (.text 0 b!"one" .nil) (.cons 0 5 0 (.text 0 b!"five " (.ph 0 b!"A" (.cmd (.print 0 (.dataRef 0 b!"a" .nil) [])) .nil)) .nil))
      0 (.text 0 b!"many" .nil) (.text 0 b!"!" .nil))) .nil

set_option maxRecDepth 8000 in
example : (toCmds .off b!"output" samplePlural ⟨[[]], 0⟩).map (fun r => printPieces (renderStmts false 1 r.1)) = some
    b!"  switch (opt_data.a) {\n    case 1:\n      output += 'one';\n      break;\n    case 5:\n      output += 'five ';\n      output += opt_data.a;\n      break;\n    default:\n      output += 'many';\n  }\n  output += '!';\n" := by
  decide +kernel

def pluralRun (a : JVal) : Option SRes :=
  (toCmds .off b!"output" samplePlural ⟨[[]], 0⟩).map fun r =>
    execStmts sampleF noCall 10 r.1 ⟨[(b!"a", a)], none, [(b!"output", .str [])]⟩

example : (pluralRun (.num 5)).map (fun r => match r with
    | .ok e => (e.locals.find? (·.1 == b!"output")).map (·.2)
    | _ => none) = some (some (.str b!"five 5!")) := rfl
example : (pluralRun (.num 2)).map (fun r => match r with
    | .ok e => (e.locals.find? (·.1 == b!"output")).map (·.2)
    | _ => none) = some (some (.str b!"many!")) := rfl
example : refCmds sampleF noRef .off samplePlural (sampleEnv 5) = .val b!"five 5!" := rfl
example : refCmds sampleF noRef .off samplePlural (sampleEnv 2) = .val b!"many!" := rfl
-- a plural over a string: Soy (Tofu, Spec/Eval) stops with an error, JavaScript takes the default clause — the
-- semantics is SILENT there (`unspec`)
example : (pluralRun (.str b!"5")).map (fun r => match r with | .unspec => true | _ => false) = some true := rfl
example : refCmds sampleF noRef .off samplePlural { vars := [(b!"a", .str b!"5")], loops := [], ij := none, globals := [] } = .error := rfl

end Examples

section ExamplesGlobals
open SoyVerif.Spec.Eval (Val Out)

/-- one compile-time global: `G_I` = 42 -/
local instance : Globals := ⟨[(b!"G_I", .int 42)]⟩

/-- `{$ij.a + G_I}|{$ij.q?.z}` -/
def sampleIj : CmdList :=
  .cons (.print 0 (.bin .add 0 (.dataRef 0 b!"ij" (.cons (.key 0 false b!"a") .nil)) (.global 0 b!"G_I")) [])
  (.cons (.rawText 0 b!"|")
  (.cons (.print 0 (.dataRef 0 b!"ij" (.cons (.key 0 false b!"q") (.cons (.key 0 true b!"z") .nil))) []) .nil))

-- the global is the literal the generator writes; `$ij` is the third parameter
example : (toCmds .off b!"output" sampleIj ⟨[[]], 0⟩).map (fun r => printPieces (renderStmts false 1 r.1)) = some
    b!"  output += ((opt_ijData.a) + (42));\n  output += '|';\n  output += ((opt_ijData.q == null) ? null : opt_ijData.q.z);\n" := by
  decide +kernel

example : (match walkCmds id { globals := [(b!"G_I", .int 42)] } sampleIj
      { indent := 1, bufferName := b!"output", autoescape := .off, scope := ⟨[[]], 0⟩ } with
    | .ok (_, ps, _) => some (printPieces ps)
    | .error _ => none) = (toCmds .off b!"output" sampleIj ⟨[[]], 0⟩).map (fun r => printPieces (renderStmts false 1 r.1)) := by
  decide +kernel

example : (match toCmds .off b!"output" sampleIj ⟨[[]], 0⟩ with
    | some r => (match execStmts sampleF noCall 10 r.1 ⟨[], some [(b!"a", .num 1), (b!"q", .obj [(b!"z", .num 9)])], [(b!"output", .str [])]⟩ with
      | .ok e => (e.locals.find? (·.1 == b!"output")).map (·.2)
      | _ => none)
    | none => none) = some (.str b!"43|9") := rfl

example : refCmds sampleF noRef .off sampleIj
    { vars := [], loops := [], ij := some [(b!"a", .int 1), (b!"q", .map [(b!"z", .int 9)])], globals := [(b!"G_I", .int 42)] } =
    .val b!"43|9" := rfl

end ExamplesGlobals

/-! ## what is proved, and what remains outside

  PROVED, for command lists built from raw text, `{print e |d…}` (directive arguments literal, every
  directive known to both backends), `{let $x: e /}`, `{if}/{elseif}/{else}`, `{foreach $x in e}` with
  or without `{ifempty}`, `{for $i in range(…)}` / `{foreach $i in range(…)}` with one to three arguments, with or without
  `{ifempty}` (after the loop and outside its frame `if (index == 0) {…}`: the index local counts the iterations — `range_core`;
  the step absent or a
  positive integer literal: the specification leaves a non-positive step open, and JavaScript then
  loops forever or not at all), `{switch e}{case v, …}…{default}…{/switch}` (`===` on null / booleans /
  numbers / strings against the specification's equality; `undefined` and lists / maps as switch value or label
  are outside the subset), `{let $x}…{/let}` (`var x$n = ''; x$n += …;` — the body is translated with the
  new buffer; `GoodBuf`: the buffer in use is no local the scope hands out and no name still to be
  generated), `{call name}` / `{call name data="all"}` / `{call name data="$e"}` with `{param k: e /}` and
  `{param k}…{/param}` (see CALLS below), `{css name}` / `{css e, name}` (`buf += e + '-';` then the name, unescaped — Spec/JsStmt
  `.appendCss`), `{debugger}` (`debugger;`: nothing), `{msg}` without a bundle (`toParts`: its text, HTML-tag
  and print / call placeholder parts in order, in a frame of their own; a `{plural}` part is `switch (e) { case n: … break; …
  default: … }` — Spec/JsStmt `.pluralS`, a NUMBER against the integer labels; over a value that is no number Soy stops with
  an error while JavaScript takes the default clause: the semantics is `unspec` there, a C04 discrepancy of the backends; against Spec/Eval.renderParts with `hasBundle = false`:
  `plainCmd hasBundle`) — nested at will — with `e` in the expression
  fragment of Props/C04c (literals, arithmetic / comparison / logic, `?:`, `?:`-elvis, variables and
  parameters with `.k` / `[i]` / `?.k` accesses, length / isNonnull / floor / ceiling / round / min /
  max; no floats, integers a double holds exactly):
    * `walkCmds_renders` — the generator model writes exactly `renderStmts` of the translation;
    * `gen_correct_cmds_partial` / `gen_correct_body_partial` — running these statements appends to
      the output variable what `refCmds` renders.  Variables: a `{let}` inside a branch or a loop body,
      and a loop's item / list / limit / index, get FRESH JavaScript locals (the counter is part of
      the name, `jsname_inj_all`), so that after the branch / loop — where JavaScript still sees
      their `var`s — every visible Soy variable is still held by its own local (`envRel_keep`); the
      loop (`loop_ok`): iteration `i` of `for (var i = 0; i < n; i++)` is iteration `i` of Spec/Eval's
      `loopSpec`, the body run with the item bound, the list / limit / index locals untouched by it;
    * `ref_le_spec_cmds` / `spec_le_ref_cmds` / `gen_correct_cmds_spec` — without print directives and with
      soy.$$escapeHtml read as `htmlEscape ∘ ToString` (`EscapeHtmlIs`, a LIBRARY obligation),
      `refCmds` renders exactly the texts Spec/Eval.renderCmds renders (both directions; the reference's print without
      directives falls back to Spec/Eval's where the JSON image says nothing: `refPrint`), the specification C02Spec proves
      the Go interpreter against.
  DIRECTION: "if the JavaScript completes, the specification yields that text".  The converse is
  Props/C04e (`gen_complete_cmds_partial`): where `refCmds` renders a text the JavaScript completes with
  it or leaves the common subset (`unspec`: a print of a list or a map is text in Soy and outside the
  subset here, as is an integer beyond 2^53) — it never throws.

  The loop functions index / isFirst / isLast of foreach AND range variables are inside (Props/C04c `loop_corr`,
  `LoopRel`: the index local is the iteration number of `loopSpec`, the generated last-iteration test holds
  exactly in the last iteration — for a range loop `v + step >= limit`, related to the length of the rest of the
  range by `rangeItems_step`).

  CALLS.  The statement `buf += callee(data, opt_sb, opt_ijData);` (Spec/JsStmt `.call`): the data object is `{}`,
  `opt_data` or the value of the `data="$e"` expression (an object, else `unspec`), with the `key: value` list laid
  over it (`soy.$$augmentMap`: the params first in every lookup, a later param before an earlier one); the
  statements that render the content params into buffers `param$n` of their own come first (`toParams`,
  `visitParams_renders`: the generator writes them in this order).  What the callee returns is the ORACLE
  `G : Bytes → JVal → JOut` of the semantics; the reference side is `R : RefCtx` — the registry, the entry data of
  the template (`data="all"` passes it on) and Spec/Eval's `call`.  The hypothesis `CallRel G R` ties them: when the
  function returns on the JSON image of a data map, the name is a template of the registry, `call` renders it on
  that map, and the function returned this text.  Under it `call_ok` / `params_ok` put `{call}` inside
  `gen_correct_cmds_partial`; the environment relation `EnvRel R.entry …` now also says that `opt_data` is the JSON
  image of the entry data (`gen_correct_body_partial`: `R.entry = env.vars`).  Props/C04e adds `CallRelE` (the
  function throws only where `call` does not render) for the converse.  `CallRel` is the statement of this very
  theorem one template down; Props/C04e discharges both by induction over the call depth for the oracle that RUNS the
  callee's translated body (`genCall` / `refCall`, `calls_correct`, `gen_correct_program_partial`); Props/C04f does it
  for the TABLE of the generated functions of a file / a registry (`callFn`, `calls_table_correct`) and goes on to
  Spec/Eval.render itself (`gen_correct_registry_partial`, `gen_correct_file_partial`).  The harness property C04sem
  runs the entry function through that table and compares with otto.

  OUTSIDE (no theorem at the command level): `range` with a computed step, `{call}` to a `{deltemplate}` (`{delcall}`),
  `{msg}` with a message bundle (translated parts), `{log}` (its scratch buffer `output_` is a plain name:
  the `Keeps` / `Old` discipline — only the output variable and names generated LATER change — has no room for it), `$ij` in a function called without injected data, globals that are floats / lists / maps, print directives with
  non-literal arguments, and
  the file level above the functions (namespace declarations, goog.provide / ES6 imports — covered for SHAPE by C14, not for
  meaning; the functions themselves: Props/C04f). -/

end SoyVerif.Props.C04d
